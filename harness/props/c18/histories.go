package c18

// Round 8: API histories on ONE object and on ONE source.
//
//   entry-reencode  a sample entry is built (or decoded), encoded, its
//                   configuration is replaced through the public fields, and it
//                   is encoded again (every box level, Encode into an io.Writer
//                   and EncodeSW): what is written must be the configuration the
//                   entry holds NOW.
//   adts-held       results of NewADTSHeader / DecodeADTSHeader /
//                   DecodeAudioSpecificConfig are values: they are held in a ring
//                   while later calls (same and other parameters) are made and
//                   re-verified after each of them; a held result is also changed
//                   through its public fields, which must not show in any later
//                   result.
//   adts-stream /   several items back to back in ONE source that is read
//   asc-stream      sequentially: k ADTS frames (junk, header, payload; the
//                   payload is read through the same source after
//                   DecodeADTSHeader returned) and n AudioSpecificConfigs. Every
//                   item must be found where the harness put it.
//
// All expectations are the harness's own: the reference bit layouts refASC /
// refADTS, the payload bytes it generated, the configuration it stored.

import (
	"bufio"
	"bytes"
	"fmt"
	"io"

	"github.com/Eyevinn/mp4ff/aac"
	"github.com/Eyevinn/mp4ff/bits"
	"github.com/Eyevinn/mp4ff/mp4"

	"verifharness/ref/bitw"
	"verifharness/runner"
)

func addHistoryBlocks(thorough bool) {
	n := 24
	if thorough {
		n = 600
	}
	for i := 0; i < n; i++ {
		blocks = append(blocks, block{"entry-reencode", i, 0})
	}
	n = 24
	if thorough {
		n = 400
	}
	for i := 0; i < n; i++ {
		blocks = append(blocks, block{"adts-held", i, 0})
	}
	n = 32
	if thorough {
		n = 600
	}
	for i := 0; i < n; i++ {
		blocks = append(blocks, block{"adts-stream", i, 0})
		blocks = append(blocks, block{"asc-stream", i, 0})
	}
}

// ---- general canonical configuration ---------------------------------------

type fullCfg struct{ obj, ch, f, ext int }

func (x fullCfg) String() string {
	return fmt.Sprintf("(objType %d, channels %d, %d Hz, extension %d Hz)", x.obj, x.ch, x.f, x.ext)
}
func (x fullCfg) bytes() []byte                 { return refASC(x.obj, x.ch, x.f, x.ext, false) }
func (x fullCfg) want() aac.AudioSpecificConfig { return wantASC(x.obj, x.ch, x.f, x.ext) }

func randFreq(r *runner.Rand) int {
	switch r.Intn(4) {
	case 0, 1:
		return tableFreqs[r.Intn(len(tableFreqs))]
	case 2:
		return explicitSet[r.Intn(len(explicitSet))]
	}
	return int(r.Uint64() & 0xffffff)
}

func randFullCfg(r *runner.Rand) fullCfg {
	x := fullCfg{obj: r.PickInt(2, 2, 5, 29), ch: r.Intn(16), f: randFreq(r)}
	if x.obj != 2 {
		x.ext = randFreq(r)
	}
	return x
}

// randFullCfgOfLen draws a configuration whose encoding has n bytes (2, 4, 5, 7 or 10)
// and differs from the given bytes.
func randFullCfgOfLen(r *runner.Rand, n int, differFrom []byte) (fullCfg, bool) {
	for i := 0; i < 400; i++ {
		x := randFullCfg(r)
		b := x.bytes()
		if len(b) == n && !bytes.Equal(b, differFrom) {
			return x, true
		}
	}
	return fullCfg{}, false
}

// ---- entry-reencode -----------------------------------------------------------

type expEntry struct {
	desc  string
	bytes []byte
	want  aac.AudioSpecificConfig
	rate  uint16
}

type encodable interface {
	Encode(io.Writer) error
	EncodeSW(bits.SliceWriter) error
	Size() uint64
}

var encModes = []struct {
	name, class string
	enc         func(b encodable) ([]byte, error)
}{
	{"Encode(bytes.Buffer)", "Encode", func(b encodable) ([]byte, error) {
		var buf bytes.Buffer
		err := b.Encode(&buf)
		return buf.Bytes(), err
	}},
	{"Encode(write-only destination)", "Encode", func(b encodable) ([]byte, error) {
		var buf bytes.Buffer
		err := b.Encode(writeOnly{&buf})
		return buf.Bytes(), err
	}},
	{"EncodeSW(fixed slice writer)", "EncodeSW", func(b encodable) ([]byte, error) {
		sw := bits.NewFixedSliceWriter(int(b.Size()))
		err := b.EncodeSW(sw)
		return sw.Bytes(), err
	}},
}

func audioEntries(stsd *mp4.StsdBox) []*mp4.AudioSampleEntryBox {
	var out []*mp4.AudioSampleEntryBox
	for _, ch := range stsd.Children {
		if m, ok := ch.(*mp4.AudioSampleEntryBox); ok {
			out = append(out, m)
		}
	}
	return out
}

// levelBox returns the box of the level (nil for "init") and the indices of the entries it contains.
func levelBox(init *mp4.InitSegment, level string, e int) (encodable, []int) {
	trak := init.Moov.Trak
	stsd := trak.Mdia.Minf.Stbl.Stsd
	ents := audioEntries(stsd)
	all := make([]int, len(ents))
	for i := range all {
		all[i] = i
	}
	switch level {
	case "esds":
		return ents[e].Esds, []int{e}
	case "mp4a":
		return ents[e], []int{e}
	case "stsd":
		return stsd, all
	case "stbl":
		return trak.Mdia.Minf.Stbl, all
	case "minf":
		return trak.Mdia.Minf, all
	case "mdia":
		return trak.Mdia, all
	case "trak":
		return trak, all
	case "moov":
		return init.Moov, all
	}
	return init, all
}

func rateField(f int) uint16 {
	r, _ := expectSampleRate(f)
	return r
}

// reencodeHistory runs one history; it returns the number of verified encodes and whether all held.
func reencodeHistory(c *runner.Ctx) (int, bool) {
	r := c.Rand
	fs := sampleEntryFreqs()
	ne := 1 + r.Intn(2)
	spec := [][]entryCfg{nil}
	for i := 0; i < ne; i++ {
		spec[0] = append(spec[0], randomCfg(r, fs))
	}
	b := makeBuild(c, spec)
	if b == nil {
		return 0, false
	}
	init := b.init
	start := r.PickStr("built", "built", "decoded-by-DecodeFile", "decoded-by-DecodeFileSR")
	if start != "built" {
		sw := bits.NewFixedSliceWriter(int(init.Size()))
		if err := init.EncodeSW(sw); err != nil {
			return 0, true // reported by the box-level clause
		}
		data := append([]byte{}, sw.Bytes()...)
		var f *mp4.File
		var err error
		if start == "decoded-by-DecodeFile" {
			f, err = mp4.DecodeFile(bytes.NewReader(data))
		} else {
			f, err = mp4.DecodeFileSR(bits.NewFixedSliceReader(data))
		}
		if err != nil || f == nil || f.Init == nil || f.Init.Moov == nil || f.Init.Moov.Trak == nil {
			return 0, true // reported by the box-level clause
		}
		init = f.Init
	}
	c.Seen("reencode_start_object", start)
	cur := make([]expEntry, ne)
	for i, t := range spec[0] {
		w, rb := impliedConfig(t)
		cur[i] = expEntry{desc: "SetAACDescriptor" + t.String(), bytes: rb, want: w, rate: rateField(t.f)}
	}
	if len(audioEntries(init.Moov.Trak.Mdia.Minf.Stbl.Stsd)) != ne {
		return 0, true // reported by the box-level clause
	}
	history := []string{start}
	nver := 0
	ok := true

	verify := func(phase string, sparse bool) {
		for _, level := range entryLevels {
			for e := 0; e < ne; e++ {
				if e > 0 && level != "esds" && level != "mp4a" {
					continue
				}
				for mi, m := range encModes {
					if sparse && !r.Chance(1, 2) {
						continue
					}
					box, idxs := levelBox(init, level, e)
					var data []byte
					var err error
					pi := c.Guard(func() { data, err = m.enc(box) })
					key := phase + "/" + level + "/" + m.class
					if pi != nil {
						c.Violation(runner.PanicKey("sample-entry/re-encode/panic/"+key, pi), fmt.Sprintf("%s of the %s box, history %v: panic %v", m.name, level, history, pi.Value), nil)
						ok = false
						return
					}
					if err != nil {
						c.Violation("sample-entry/re-encode/encode-error/"+key, fmt.Sprintf("%s of the %s box, history %v: %v", m.name, level, history, err), nil)
						ok = false
						return
					}
					history = append(history, m.class+" "+level)
					data = append([]byte{}, data...)
					var v interface{}
					useSR := (mi+e+len(history))%2 == 0
					pi = c.Guard(func() {
						switch {
						case level == "init" && useSR:
							v, err = mp4.DecodeFileSR(bits.NewFixedSliceReader(data))
						case level == "init":
							v, err = mp4.DecodeFile(bytes.NewReader(data))
						case useSR:
							v, err = mp4.DecodeBoxSR(0, bits.NewFixedSliceReader(data))
						default:
							v, err = mp4.DecodeBox(0, bytes.NewReader(data))
						}
					})
					if pi != nil || err != nil || v == nil {
						c.Violation("sample-entry/re-encode/decode-error/"+key, fmt.Sprintf("decoding what %s wrote for the %s box (%x), history %v: err %v panic %v", m.name, level, data, history, err, pi), nil)
						ok = false
						return
					}
					got := entriesOf(v)
					if len(got) != len(idxs) {
						c.Violation("sample-entry/re-encode/entry-count/"+key, fmt.Sprintf("%s of the %s box: %d AAC entries decoded, the box holds %d; history %v", m.name, level, len(got), len(idxs), history), nil)
						ok = false
						return
					}
					for j, g := range got {
						x := cur[idxs[j]]
						dc, has := decConfigOf(g.esds)
						var cfg *aac.AudioSpecificConfig
						var derr error
						if has {
							cfg, derr = aac.DecodeAudioSpecificConfig(bytes.NewReader(dc))
						}
						if !has || !bytes.Equal(dc, x.bytes) || derr != nil || cfg == nil || *cfg != x.want {
							c.Violation("sample-entry/re-encode/config/"+key,
								fmt.Sprintf("%s of the %s box: entry %d holds the configuration %s (DecoderSpecificInfo %x) but the written box decodes to DecoderSpecificInfo %x = %+v (err %v); history on this object: %v",
									m.name, level, idxs[j]+1, x.desc, x.bytes, dc, cfg, derr, history),
								map[string]interface{}{"level": level, "mode": m.name, "history": history, "written": fmt.Sprintf("%x", data)})
							ok = false
							return
						}
						if g.entry != nil && g.entry.SampleRate != x.rate {
							c.Violation("sample-entry/re-encode/sample-rate-field/"+key,
								fmt.Sprintf("%s of the %s box: entry %d holds SampleRate %d, the written box decodes with %d; history %v", m.name, level, idxs[j]+1, x.rate, g.entry.SampleRate, history), nil)
							ok = false
							return
						}
					}
					nver++
					c.Count("reencode_verified:"+phase+":"+m.class, 1)
				}
			}
		}
	}

	verify("as-built", true)
	nchanges := 1 + r.Intn(3)
	for k := 0; k < nchanges && ok; k++ {
		stsd := init.Moov.Trak.Mdia.Minf.Stbl.Stsd
		ents := audioEntries(stsd)
		e := r.Intn(ne)
		m := ents[e]
		if m.Esds == nil || m.Esds.DecConfigDescriptor == nil || m.Esds.DecConfigDescriptor.DecSpecificInfo == nil {
			return nver, ok
		}
		dsi := m.Esds.DecConfigDescriptor.DecSpecificInfo
		sameLen := r.Chance(3, 4)
		var nb fullCfg
		var found bool
		if sameLen {
			nb, found = randFullCfgOfLen(r, len(cur[e].bytes), cur[e].bytes)
		}
		if !found {
			nb = randFullCfg(r)
			sameLen = len(nb.bytes()) == len(cur[e].bytes)
			if bytes.Equal(nb.bytes(), cur[e].bytes) {
				continue
			}
		}
		nbBytes := nb.bytes()
		kind := r.PickStr("new DecConfig slice", "new DecConfig slice", "DecConfig overwritten in place", "new esds box", "new mp4a entry")
		if kind == "DecConfig overwritten in place" && (!sameLen || len(dsi.DecConfig) != len(nbBytes)) {
			kind = "new DecConfig slice"
		}
		rate := rateField(nb.f)
		switch kind {
		case "new DecConfig slice":
			dsi.DecConfig = append([]byte{}, nbBytes...)
		case "DecConfig overwritten in place":
			copy(dsi.DecConfig, nbBytes)
		case "new esds box":
			ne2 := mp4.CreateEsdsBox(append([]byte{}, nbBytes...))
			for i, ch := range m.Children {
				if ch == mp4.Box(m.Esds) {
					m.Children[i] = ne2
				}
			}
			m.Esds = ne2
		case "new mp4a entry":
			nm := mp4.CreateAudioSampleEntryBox("mp4a", uint16(nb.ch), 16, rate, mp4.CreateEsdsBox(append([]byte{}, nbBytes...)))
			for i, ch := range stsd.Children {
				if ch == mp4.Box(m) {
					stsd.Children[i] = nm
				}
			}
			if stsd.Mp4a == m {
				stsd.Mp4a = nm
			}
			m = nm
		}
		m.SampleRate = rate
		m.ChannelCount = uint16(nb.ch)
		lenClass := "same encoded length"
		if !sameLen {
			lenClass = "other encoded length"
		}
		c.Seen("reencode_change", kind+", "+lenClass)
		cur[e] = expEntry{desc: nb.String() + " set by: " + kind, bytes: nbBytes, want: nb.want(), rate: rate}
		history = append(history, fmt.Sprintf("CHANGE entry %d to %s (%s, %s)", e+1, nb, kind, lenClass))
		verify("after-change", false)
	}
	return nver, ok
}

// ---- adts-held ------------------------------------------------------------------

type heldResult struct {
	kind  string // constructor, decoded-header, decoded-asc
	what  string
	check func() string // "" or what is wrong now
}

func adtsHeldBlock(c *runner.Ctx, count func(bool)) {
	r := c.Rand
	type pair struct{ fi, ch int }
	pool := make([]pair, 2+r.Intn(5))
	for i := range pool {
		pool[i] = pair{r.Intn(13), r.Intn(8)}
	}
	var ring [heldSlots]*heldResult
	next := 0
	recheck := func(later string) bool {
		ok := true
		for _, h := range ring {
			if h == nil {
				continue
			}
			c.Count("held_results_reverified_after_later_call", 1)
			if msg := h.check(); msg != "" {
				c.Violation("held-result/"+h.kind+"/earlier-result-changed-by-later-call",
					fmt.Sprintf("the result of %s was held; after the later call %s: %s", h.what, later, msg), nil)
				ok = false
			}
		}
		return ok
	}
	holdADTS := func(kind, what string, p *aac.ADTSHeader, exp aac.ADTSHeader) *heldResult {
		e := exp
		h := &heldResult{kind: kind, what: what}
		h.check = func() string {
			if *p != e {
				return fmt.Sprintf("it now says %+v, it was %+v", *p, e)
			}
			if e.HeaderLength == 7 {
				ref := refADTS(int(e.ObjectType), int(e.SamplingFrequencyIndex), int(e.ChannelConfig), int(e.PayloadLength), int(e.BufferFullness))
				if enc := p.Encode(); !bytes.Equal(enc, ref) {
					return fmt.Sprintf("it now encodes to %x, the reference layout of %+v is %x", enc, e, ref)
				}
			}
			return ""
		}
		return h
	}
	steps := 300
	for i := 0; i < steps; i++ {
		ok := true
		var later string
		var nh *heldResult
		switch op := r.Intn(10); {
		case op < 6: // constructor
			p := pool[r.Intn(len(pool))]
			plen := r.Intn(8185)
			f := tableFreqs[p.fi]
			later = fmt.Sprintf("NewADTSHeader(%d, %d, 2, %d)", f, p.ch, plen)
			h, err := aac.NewADTSHeader(f, byte(p.ch), 2, uint16(plen))
			exp := aac.ADTSHeader{ObjectType: 2, SamplingFrequencyIndex: byte(p.fi), ChannelConfig: byte(p.ch), HeaderLength: 7, PayloadLength: uint16(plen), BufferFullness: 0x7ff}
			if err != nil || h == nil || *h != exp {
				c.Violation("held-result/constructor/result", fmt.Sprintf("%s = %+v, %v; the header with these values is %+v (earlier results of the constructor had been changed through their public fields)", later, h, err, exp), nil)
				count(false)
				continue
			}
			if enc, ref := h.Encode(), refADTS(2, p.fi, p.ch, plen, 0x7ff); !bytes.Equal(enc, ref) {
				c.Violation("held-result/constructor/result", fmt.Sprintf("%s encodes to %x, reference %x", later, enc, ref), nil)
				count(false)
				continue
			}
			c.Count("held_op:constructor", 1)
			nh = holdADTS("constructor", later, h, exp)
			// the caller owns the result: change it through its public fields
			if r.Chance(1, 3) {
				exp2 := exp
				switch r.Intn(3) {
				case 0:
					h.BufferFullness = uint16(r.PickInt(0, 0x555, 0x123))
					exp2.BufferFullness = h.BufferFullness
				case 1:
					h.PayloadLength = uint16(r.Intn(8185))
					exp2.PayloadLength = h.PayloadLength
				default:
					h.ChannelConfig = byte(r.Intn(8))
					h.ObjectType = byte(1 + r.Intn(4))
					exp2.ChannelConfig, exp2.ObjectType = h.ChannelConfig, h.ObjectType
				}
				nh = holdADTS("constructor", later+" then changed by the caller to "+fmt.Sprintf("%+v", exp2), h, exp2)
				c.Count("held_op:constructor-result-changed-by-caller", 1)
			}
		case op < 8: // decoded header
			obj, fi, ch, plen, full := 1+r.Intn(4), r.Intn(16), r.Intn(8), r.Intn(8185), r.PickInt(0, 0x7ff, 0x555)
			if r.Chance(1, 2) {
				p := pool[r.Intn(len(pool))]
				fi, ch = p.fi, p.ch
			}
			stream := append(refADTS(obj, fi, ch, plen, full), 0x21, 0x00)
			later = fmt.Sprintf("DecodeADTSHeader(%x)", stream[:7])
			exp := aac.ADTSHeader{ObjectType: byte(obj), SamplingFrequencyIndex: byte(fi), ChannelConfig: byte(ch), HeaderLength: 7, PayloadLength: uint16(plen), BufferFullness: uint16(full)}
			h, off, err := aac.DecodeADTSHeader(source(sourceKinds[r.Intn(len(sourceKinds))], stream))
			if err != nil || h == nil || *h != exp || off != 0 {
				c.Violation("held-result/decoded-header/result", fmt.Sprintf("%s = %+v at %d, %v; want %+v at 0", later, h, off, err, exp), nil)
				count(false)
				continue
			}
			c.Count("held_op:decode-header", 1)
			nh = holdADTS("decoded-header", later, h, exp)
		default: // decoded configuration
			x := randFullCfg(r)
			b := x.bytes()
			later = fmt.Sprintf("DecodeAudioSpecificConfig(%x)", b)
			g, err := aac.DecodeAudioSpecificConfig(source(sourceKinds[r.Intn(len(sourceKinds))], b))
			w := x.want()
			if err != nil || g == nil || *g != w {
				c.Violation("held-result/decoded-asc/result", fmt.Sprintf("%s = %+v, %v; want %+v", later, g, err, w), nil)
				count(false)
				continue
			}
			c.Count("held_op:decode-asc", 1)
			what := later
			nh = &heldResult{kind: "decoded-asc", what: what, check: func() string {
				if *g != w {
					return fmt.Sprintf("it now says %+v, it was %+v", *g, w)
				}
				var buf bytes.Buffer
				cp := *g
				if err := cp.Encode(&buf); err != nil || !bytes.Equal(buf.Bytes(), b) {
					return fmt.Sprintf("it now encodes to %x (err %v), it was decoded from %x", buf.Bytes(), err, b)
				}
				return ""
			}}
		}
		if !recheck(later) {
			ok = false
		}
		ring[next%heldSlots] = nh
		next++
		count(ok)
	}
	recheck("end of block")
	c.Seen("held_pool_size", fmt.Sprint(len(pool)))
}

// ---- streams --------------------------------------------------------------------

// plainReader hides every method but Read (a file, a pipe, a network connection).
type plainReader struct{ r io.Reader }

func (p plainReader) Read(b []byte) (int, error) { return p.r.Read(b) }

// countingReader counts the bytes handed out.
type countingReader struct {
	r io.Reader
	n int
}

func (k *countingReader) Read(b []byte) (int, error) {
	n, err := k.r.Read(b)
	k.n += n
	return n, err
}

var streamKinds = []string{"plain-io.Reader", "data+EOF", "hesitant", "one-byte", "io.MultiReader", "io.LimitedReader", "io.SectionReader", "bytes.Reader", "bytes.Buffer", "bufio.Reader"}

// streamSource returns the reader the caller uses for ALL its reads of the stream,
// and a function telling how many bytes of b have been taken from the bottom
// source (-1: not observable, the caller's own buffering sits in between).
func streamSource(kind string, b []byte) (io.Reader, func() int) {
	switch kind {
	case "plain-io.Reader":
		k := &countingReader{r: bytes.NewReader(b)}
		return plainReader{k}, func() int { return k.n }
	case "data+EOF":
		d := &dataErrReader{b: b}
		return d, func() int { return d.pos }
	case "hesitant":
		k := &countingReader{r: bytes.NewReader(b)}
		return &hesitantReader{r: k}, func() int { return k.n }
	case "one-byte":
		k := &countingReader{r: bytes.NewReader(b)}
		return oneByteReader{k}, func() int { return k.n }
	case "io.MultiReader":
		k := &countingReader{r: io.MultiReader(bytes.NewReader(b[:len(b)/3]), bytes.NewReader(b[len(b)/3:]))}
		return io.MultiReader(k), func() int { return k.n }
	case "io.LimitedReader":
		k := &countingReader{r: bytes.NewReader(b)}
		return io.LimitReader(k, int64(len(b))), func() int { return k.n }
	case "io.SectionReader":
		return io.NewSectionReader(bytes.NewReader(b), 0, int64(len(b))), func() int { return -1 }
	case "bytes.Buffer":
		bb := bytes.NewBuffer(append([]byte{}, b...))
		return bb, func() int { return len(b) - bb.Len() }
	case "bufio.Reader":
		return bufio.NewReaderSize(bytes.NewReader(b), 64), func() int { return -1 }
	}
	br := bytes.NewReader(b)
	return br, func() int { return len(b) - br.Len() }
}

func refADTSCRC(obj, fi, ch, plen, full int) []byte {
	w := &bitw.W{}
	w.Put(0xfff, 12)
	w.Put(0, 1)
	w.Put(0, 2)
	w.Put(0, 1) // protection_absent = 0
	w.Put(uint64(obj-1), 2)
	w.Put(uint64(fi), 4)
	w.Put(0, 1)
	w.Put(uint64(ch), 3)
	w.Put(0, 4)
	w.Put(uint64(plen+9), 13)
	w.Put(uint64(full), 11)
	w.Put(0, 2)
	w.Put(0xbeef, 16)
	return w.Bytes()
}

type adtsFrame struct {
	junk    []byte
	hdr     aac.ADTSHeader
	payload []byte
	start   int // position of the junk in the stream
}

func adtsStreamBlock(c *runner.Ctx, count func(bool)) {
	r := c.Rand
	for rep := 0; rep < 6; rep++ {
		k := 2 + r.Intn(6)
		if r.Chance(1, 6) {
			k = 20 + r.Intn(100)
		}
		var stream []byte
		frames := make([]adtsFrame, k)
		for i := range frames {
			jl := 0
			if i == 0 && r.Chance(1, 2) || r.Chance(1, 5) {
				jl = r.Intn(187)
			}
			junk, _ := makeJunk(r, jl, r.Intn(6))
			obj, fi, ch, full := 1+r.Intn(4), r.Intn(16), r.Intn(8), r.PickInt(0, 0x7ff, 0x555)
			plen := r.Intn(200)
			switch r.Intn(8) {
			case 0:
				plen = 0
			case 1:
				plen = r.Intn(8183)
			case 2:
				plen = 4000 + r.Intn(300) // around the size of common I/O buffers
			}
			h := aac.ADTSHeader{ObjectType: byte(obj), SamplingFrequencyIndex: byte(fi), ChannelConfig: byte(ch), HeaderLength: 7, PayloadLength: uint16(plen), BufferFullness: uint16(full)}
			var hb []byte
			if r.Chance(1, 4) {
				hb = refADTSCRC(obj, fi, ch, plen, full)
				h.HeaderLength = 9
			} else {
				hb = refADTS(obj, fi, ch, plen, full)
			}
			payload := r.Bytes(plen)
			frames[i] = adtsFrame{junk: junk, hdr: h, payload: payload, start: len(stream)}
			stream = append(stream, junk...)
			if refSync(append(append([]byte{}, junk...), hb...)) != len(junk) {
				c.Inconclusive("adts-junk-generator-created-sync")
				return
			}
			stream = append(stream, hb...)
			stream = append(stream, payload...)
		}
		tail := r.Bytes(1 + r.Intn(40))
		stream = append(stream, tail...)
		kc := k
		if kc > 20 {
			kc = 20 // class "20 or more"
		}
		c.Seen("adts_stream_frames", fmt.Sprint(kc))
		for _, sk := range streamKinds {
			src, taken := streamSource(sk, append([]byte{}, stream...))
			good := true
			for i, fr := range frames {
				h, off, err := aac.DecodeADTSHeader(src)
				pos := fr.start + len(fr.junk) + int(fr.hdr.HeaderLength)
				det := map[string]interface{}{"source": sk, "frame": i, "frames": k, "stream": fmt.Sprintf("%x", clip(stream, 600))}
				if err != nil || h == nil || *h != fr.hdr || off != len(fr.junk) {
					c.Violation("adts-stream/header/from-"+sk,
						fmt.Sprintf("%d ADTS frames back to back in one %s source, each header decoded with DecodeADTSHeader and its payload read through the same source: frame %d decodes to %+v at offset %d (err %v); the stream has %+v after %d junk bytes there (stream position %d)", k, sk, i, h, off, err, fr.hdr, len(fr.junk), fr.start), det)
					good = false
					break
				}
				if t := taken(); t >= 0 && t != pos {
					c.Violation("adts-stream/bytes-taken-from-source/from-"+sk,
						fmt.Sprintf("frame %d: after DecodeADTSHeader returned offset %d and a %d-byte header, %d bytes had been taken from the %s source; junk + header end at %d, the payload that follows is no longer available to the caller", i, off, h.HeaderLength, t, sk, pos), det)
					good = false // and go on: what the caller reads next is checked as well
				}
				pl := make([]byte, len(fr.payload))
				if _, err := io.ReadFull(src, pl); err != nil || !bytes.Equal(pl, fr.payload) {
					c.Violation("adts-stream/payload/from-"+sk,
						fmt.Sprintf("frame %d of %d: the %d bytes read from the %s source after DecodeADTSHeader returned (err %v) are not the payload that follows the header in the stream", i, k, len(pl), sk, err), det)
					good = false
					break
				}
				c.Count("adts_stream_frames_from:"+sk, 1)
			}
			if good {
				rest, err := io.ReadAll(src)
				if err != nil || !bytes.Equal(rest, tail) {
					c.Violation("adts-stream/rest-of-source/from-"+sk, fmt.Sprintf("after %d frames the %s source gives %x (err %v), the stream ends with %x", k, sk, clip(rest, 64), err, tail), nil)
					good = false
				}
			}
			count(good)
		}
	}
}

func clip(b []byte, n int) []byte {
	if len(b) > n {
		return b[:n]
	}
	return b
}

func ascStreamBlock(c *runner.Ctx, count func(bool)) {
	r := c.Rand
	for rep := 0; rep < 40; rep++ {
		n := 2 + r.Intn(4)
		cfgs := make([]fullCfg, n)
		var stream []byte
		var ends []int
		for i := range cfgs {
			cfgs[i] = randFullCfg(r)
			stream = append(stream, cfgs[i].bytes()...)
			ends = append(ends, len(stream))
		}
		tail := r.Bytes(r.Intn(12))
		stream = append(stream, tail...)
		c.Seen("asc_stream_items", fmt.Sprint(n))
		for _, sk := range streamKinds {
			src, taken := streamSource(sk, append([]byte{}, stream...))
			good := true
			for i, x := range cfgs {
				g, err := aac.DecodeAudioSpecificConfig(src)
				w := x.want()
				which := "first"
				if i > 0 {
					which = "later"
				}
				if err != nil || g == nil || *g != w {
					c.Violation("asc-stream/"+which+"-item/from-"+sk,
						fmt.Sprintf("%d AudioSpecificConfigs back to back (%x) in one %s source: item %d decodes to %+v (err %v), encoded was %+v", n, stream, sk, i, g, err, w),
						map[string]interface{}{"source": sk, "stream": fmt.Sprintf("%x", stream), "item": i})
					good = false
					break
				}
				if t := taken(); t >= 0 && t != ends[i] {
					c.Violation("asc-stream/bytes-taken-from-source/from-"+sk,
						fmt.Sprintf("item %d of %x: after DecodeAudioSpecificConfig returned, %d bytes had been taken from the %s source; the configuration ends at %d", i, stream, t, sk, ends[i]), nil)
					good = false // and go on: the next item is checked as well
				}
				c.Count("asc_stream_items_from:"+sk, 1)
			}
			if good {
				rest, err := io.ReadAll(src)
				if err != nil || !bytes.Equal(rest, tail) {
					c.Violation("asc-stream/rest-of-source/from-"+sk, fmt.Sprintf("after %d configurations the %s source gives %x (err %v), the stream ends with %x", n, sk, rest, err, tail), nil)
					good = false
				}
			}
			count(good)
		}
	}
}
