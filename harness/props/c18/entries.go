package c18

// Sample-entry clause at box level ("an AAC sample entry built from a
// configuration decodes back to that configuration"): init segments with
// several AAC tracks and several AAC entries per sample description are built
// through the API, every box level from esds up to the whole file is encoded
// and decoded through every decode path the library offers (DecodeBox from a
// reader, DecodeBoxLazyMdat, DecodeBoxSR, DecodeFile, DecodeFileSR), and each
// decoded box is kept while the following boxes are decoded: a decoded sample
// entry is a value, it must still say the same after the library has decoded
// something else.
//
// The expectation never comes from the library: the configuration is the
// (object type, frequency) pair the harness passed to SetAACDescriptor, the
// expected DecoderSpecificInfo bytes come from the reference bit layout
// (refASC), and the expected samplerate field from expectSampleRate.

import (
	"bytes"
	"fmt"

	"github.com/Eyevinn/mp4ff/aac"
	"github.com/Eyevinn/mp4ff/bits"
	"github.com/Eyevinn/mp4ff/mp4"

	"verifharness/runner"
)

type entryCfg struct{ obj, f int }

func (e entryCfg) String() string { return fmt.Sprintf("(objType %d, %d Hz)", e.obj, e.f) }

// impliedConfig is the configuration SetAACDescriptor(obj, f) is documented to
// describe: stereo AAC-LC core at f Hz; for HE-AAC the SBR output rate is 2f,
// for HE-AAC v2 the core is mono (parametric stereo).
func impliedConfig(t entryCfg) (aac.AudioSpecificConfig, []byte) {
	ch, ext := 2, 0
	if t.obj == 5 || t.obj == 29 {
		ext = 2 * t.f
	}
	if t.obj == 29 {
		ch = 1
	}
	return wantASC(t.obj, ch, t.f, ext), refASC(t.obj, ch, t.f, ext, false)
}

// expectSampleRate is the integer part of the 16.16 samplerate field of the
// mp4a entry for a configuration of f Hz: f itself when it fits 16 bits; a
// frequency that does not fit cannot be stated by the field at all, and the
// only value that does not state a *different* frequency is 0 (which is also
// what SetAACDescriptor documents).
func expectSampleRate(f int) (uint16, string) {
	if f >= 0 && f <= 65535 {
		return uint16(f), "fits-16-bits"
	}
	return 0, "does-not-fit-16-bits"
}

// checkSampleRateField compares the samplerate field of a decoded mp4a entry.
func checkSampleRateField(c *runner.Ctx, m *mp4.AudioSampleEntryBox, t entryCfg, where string) bool {
	want, cls := expectSampleRate(t.f)
	if t.f >= 65533 && t.f <= 65538 {
		c.Seen("sample_rate_field_16bit_boundary", fmt.Sprintf("obj=%d f=%d", t.obj, t.f))
	}
	c.Count("sample_rate_field_checked:"+cls, 1)
	if m.SampleRate != want {
		c.Violation(fmt.Sprintf("sample-entry/sample-rate-field/%s/obj=%d", cls, t.obj),
			fmt.Sprintf("%s: mp4a entry built with SetAACDescriptor%v decodes with SampleRate %d; the 16-bit integer part of the samplerate field must be %d", where, t, m.SampleRate, want),
			map[string]int{"objType": t.obj, "sampling": t.f, "got": int(m.SampleRate), "want": int(want)})
		return false
	}
	return true
}

// sampleEntryFreqs: the table, the explicit boundary set of the ASC clauses,
// and the values around the width of the mp4a samplerate field.
func sampleEntryFreqs() []int {
	fs := append(append([]int{}, tableFreqs...), explicitSet...)
	have := map[int]bool{}
	for _, f := range fs {
		have[f] = true
	}
	for _, f := range []int{65533, 65534, 65535, 65536, 65537, 65538, 2*65536 - 1, 2 * 65536, 2*65536 + 1, 1<<23 - 2, 1<<24 - 2, 1<<24 - 1} {
		if !have[f] {
			have[f] = true
			fs = append(fs, f)
		}
	}
	return fs
}

// ---- builds -----------------------------------------------------------------

// build is one init segment: spec[track][entry].
type build struct {
	spec [][]entryCfg
	init *mp4.InitSegment
}

func newAACEntry(t entryCfg) (*mp4.AudioSampleEntryBox, error) {
	tmp := mp4.CreateEmptyInit()
	tmp.AddEmptyTrack(48000, "audio", "und")
	if err := tmp.Moov.Trak.SetAACDescriptor(byte(t.obj), t.f); err != nil {
		return nil, err
	}
	return tmp.Moov.Trak.Mdia.Minf.Stbl.Stsd.Mp4a, nil
}

func makeBuild(c *runner.Ctx, spec [][]entryCfg) *build {
	init := mp4.CreateEmptyInit()
	for i, entries := range spec {
		ts := uint32(entries[0].f)
		if ts == 0 {
			ts = 1
		}
		init.AddEmptyTrack(ts, "audio", "und")
		trak := init.Moov.Traks[i]
		if err := trak.SetAACDescriptor(byte(entries[0].obj), entries[0].f); err != nil {
			c.Violation("sample-entry/box-level/set-error", fmt.Sprintf("SetAACDescriptor%v on track %d: %v", entries[0], i+1, err), nil)
			return nil
		}
		for _, t := range entries[1:] {
			// alternative sample descriptions: further mp4a entries built the same way, added to the stsd
			m, err := newAACEntry(t)
			if err != nil {
				c.Violation("sample-entry/box-level/set-error", fmt.Sprintf("SetAACDescriptor%v: %v", t, err), nil)
				return nil
			}
			trak.Mdia.Minf.Stbl.Stsd.AddChild(m)
		}
	}
	return &build{spec: spec, init: init}
}

// target is one box of a build together with the configurations it must decode back to.
type target struct {
	level string
	box   mp4.Box          // nil for level "init"
	init  *mp4.InitSegment // level "init"
	want  []entryCfg       // flattened, in file order
}

var entryLevels = []string{"esds", "mp4a", "stsd", "stbl", "minf", "mdia", "trak", "moov", "init"}

func (b *build) targets(level string) []target {
	trak := b.init.Moov.Traks[0]
	stsd := trak.Mdia.Minf.Stbl.Stsd
	var all []entryCfg
	for _, tr := range b.spec {
		all = append(all, tr...)
	}
	switch level {
	case "esds", "mp4a":
		var ts []target
		n := 0
		for _, ch := range stsd.Children {
			m, ok := ch.(*mp4.AudioSampleEntryBox)
			if !ok || n >= len(b.spec[0]) {
				continue
			}
			if level == "esds" {
				ts = append(ts, target{level: level, box: m.Esds, want: []entryCfg{b.spec[0][n]}})
			} else {
				ts = append(ts, target{level: level, box: m, want: []entryCfg{b.spec[0][n]}})
			}
			n++
		}
		return ts
	case "stsd":
		return []target{{level: level, box: stsd, want: b.spec[0]}}
	case "stbl":
		return []target{{level: level, box: trak.Mdia.Minf.Stbl, want: b.spec[0]}}
	case "minf":
		return []target{{level: level, box: trak.Mdia.Minf, want: b.spec[0]}}
	case "mdia":
		return []target{{level: level, box: trak.Mdia, want: b.spec[0]}}
	case "trak":
		return []target{{level: level, box: trak, want: b.spec[0]}}
	case "moov":
		return []target{{level: level, box: b.init.Moov, want: all}}
	}
	return []target{{level: level, init: b.init, want: all}}
}

// ---- decode paths -------------------------------------------------------------

type decPath struct {
	name  string // evidence
	class string // key
	file  bool
	dec   func(b []byte) (interface{}, error)
}

var decPaths []decPath

func init() {
	for _, sk := range sourceKinds {
		sk := sk
		decPaths = append(decPaths, decPath{"DecodeBox(" + sk + ")", "DecodeBox-from-reader", false, func(b []byte) (interface{}, error) {
			return mp4.DecodeBox(0, source(sk, b))
		}})
		decPaths = append(decPaths, decPath{"DecodeFile(" + sk + ")", "DecodeFile", true, func(b []byte) (interface{}, error) {
			return mp4.DecodeFile(source(sk, b))
		}})
	}
	decPaths = append(decPaths,
		decPath{"DecodeBoxLazyMdat(bytes.Reader)", "DecodeBoxLazyMdat", false, func(b []byte) (interface{}, error) {
			return mp4.DecodeBoxLazyMdat(0, bytes.NewReader(b))
		}},
		decPath{"DecodeBoxSR", "DecodeBoxSR", false, func(b []byte) (interface{}, error) {
			return mp4.DecodeBoxSR(0, bits.NewFixedSliceReader(b))
		}},
		decPath{"DecodeFile(lazy mdat, bytes.Reader)", "DecodeFile-lazy", true, func(b []byte) (interface{}, error) {
			return mp4.DecodeFile(bytes.NewReader(b), mp4.WithDecodeMode(mp4.DecModeLazyMdat))
		}},
		decPath{"DecodeFileSR", "DecodeFileSR", true, func(b []byte) (interface{}, error) {
			return mp4.DecodeFileSR(bits.NewFixedSliceReader(b))
		}},
	)
}

// gotEntry is one decoded AAC entry (entry is nil when only the esds box was decoded).
type gotEntry struct {
	esds  *mp4.EsdsBox
	entry *mp4.AudioSampleEntryBox
}

func entriesOfStsd(s *mp4.StsdBox) []gotEntry {
	var out []gotEntry
	if s == nil {
		return nil
	}
	for _, ch := range s.Children {
		if m, ok := ch.(*mp4.AudioSampleEntryBox); ok {
			out = append(out, gotEntry{m.Esds, m})
		}
	}
	return out
}

func stsdOfStbl(s *mp4.StblBox) *mp4.StsdBox {
	if s == nil {
		return nil
	}
	return s.Stsd
}
func stsdOfMinf(m *mp4.MinfBox) *mp4.StsdBox {
	if m == nil {
		return nil
	}
	return stsdOfStbl(m.Stbl)
}
func stsdOfMdia(m *mp4.MdiaBox) *mp4.StsdBox {
	if m == nil {
		return nil
	}
	return stsdOfMinf(m.Minf)
}
func stsdOfTrak(t *mp4.TrakBox) *mp4.StsdBox {
	if t == nil {
		return nil
	}
	return stsdOfMdia(t.Mdia)
}

func entriesOfMoov(m *mp4.MoovBox) []gotEntry {
	var out []gotEntry
	if m == nil {
		return nil
	}
	for _, t := range m.Traks {
		out = append(out, entriesOfStsd(stsdOfTrak(t))...)
	}
	return out
}

func entriesOf(v interface{}) []gotEntry {
	switch b := v.(type) {
	case *mp4.EsdsBox:
		return []gotEntry{{b, nil}}
	case *mp4.AudioSampleEntryBox:
		return []gotEntry{{b.Esds, b}}
	case *mp4.StsdBox:
		return entriesOfStsd(b)
	case *mp4.StblBox:
		return entriesOfStsd(stsdOfStbl(b))
	case *mp4.MinfBox:
		return entriesOfStsd(stsdOfMinf(b))
	case *mp4.MdiaBox:
		return entriesOfStsd(stsdOfMdia(b))
	case *mp4.TrakBox:
		return entriesOfStsd(stsdOfTrak(b))
	case *mp4.MoovBox:
		return entriesOfMoov(b)
	case *mp4.File:
		if b == nil || b.Init == nil {
			return nil
		}
		return entriesOfMoov(b.Init.Moov)
	}
	return nil
}

func decConfigOf(e *mp4.EsdsBox) ([]byte, bool) {
	if e == nil || e.DecConfigDescriptor == nil || e.DecConfigDescriptor.DecSpecificInfo == nil {
		return nil, false
	}
	return e.DecConfigDescriptor.DecSpecificInfo.DecConfig, true
}

// ---- held boxes ---------------------------------------------------------------

type held struct {
	what  string // "<level> via <path>"
	key   string // "<level>/<path class>"
	got   []gotEntry
	want  []entryCfg
	snap  [][]byte
	rates []uint16
}

const heldSlots = 4

type holder struct {
	ring [heldSlots]*held
	next int
}

func (h *holder) add(x *held) {
	h.ring[h.next%heldSlots] = x
	h.next++
}

// recheck verifies every held box again after a later decode.
func (h *holder) recheck(c *runner.Ctx, later string) bool {
	ok := true
	for _, x := range h.ring {
		if x == nil {
			continue
		}
		c.Count("held_boxes_reverified_after_later_decode", 1)
		for i, g := range x.got {
			dc, has := decConfigOf(g.esds)
			want, _ := impliedConfig(x.want[i])
			var now *aac.AudioSpecificConfig
			var err error
			if has {
				now, err = aac.DecodeAudioSpecificConfig(bytes.NewReader(dc))
			}
			if !has || !bytes.Equal(dc, x.snap[i]) || err != nil || now == nil || *now != want {
				c.Violation("sample-entry/earlier-decoded-config-changed-by-later-decode/"+x.key,
					fmt.Sprintf("%s: entry %d built from %v held DecoderSpecificInfo %x when it was decoded; after the later decode of %s the same box holds %x (decodes to %+v, err %v); implied configuration %+v",
						x.what, i+1, x.want[i], x.snap[i], later, dc, now, err, want),
					map[string]interface{}{"held": x.what, "later": later, "objType": x.want[i].obj, "sampling": x.want[i].f})
				ok = false
				continue
			}
			if g.entry != nil && g.entry.SampleRate != x.rates[i] {
				c.Violation("sample-entry/earlier-decoded-entry-changed-by-later-decode/"+x.key,
					fmt.Sprintf("%s: entry %d built from %v had SampleRate %d when it was decoded and %d after the later decode of %s", x.what, i+1, x.want[i], x.rates[i], g.entry.SampleRate, later), nil)
				ok = false
			}
		}
	}
	return ok
}

// decodeAndVerify encodes one target, decodes it through one path, verifies the
// decoded entries at once, re-verifies the held boxes, and holds the new one.
func decodeAndVerify(c *runner.Ctx, h *holder, t target, p decPath) bool {
	var buf bytes.Buffer
	var err error
	if t.init != nil {
		err = t.init.Encode(&buf)
	} else {
		err = t.box.Encode(&buf)
	}
	key := t.level + "/" + p.class
	what := t.level + " via " + p.name
	if err != nil {
		c.Violation("sample-entry/box-level/encode-error/"+t.level, fmt.Sprintf("encoding the %s box of an init built with SetAACDescriptor %v: %v", t.level, t.want, err), nil)
		return false
	}
	// a private copy per decode: slice-reader paths may alias their input, which therefore must stay untouched while the box is held
	data := append([]byte{}, buf.Bytes()...)
	var v interface{}
	pi := c.Guard(func() { v, err = p.dec(data) })
	if pi != nil {
		c.Violation(runner.PanicKey("sample-entry/box-level/panic/"+key, pi), fmt.Sprintf("%s: panic %v", what, pi.Value), map[string]string{"bytes": fmt.Sprintf("%x", data)})
		return false
	}
	if err != nil || v == nil {
		c.Violation("sample-entry/box-level/decode-error/"+key, fmt.Sprintf("%s of the box built with SetAACDescriptor %v: %v", what, t.want, err), map[string]string{"bytes": fmt.Sprintf("%x", data)})
		return false
	}
	c.Seen("entry_level_via_path", what)
	c.Count("entry_box_decodes", 1)
	got := entriesOf(v)
	if len(got) != len(t.want) {
		c.Violation("sample-entry/box-level/entry-count/"+key, fmt.Sprintf("%s: %d AAC entries decoded, %d built (%v)", what, len(got), len(t.want), t.want), map[string]string{"bytes": fmt.Sprintf("%x", data)})
		return false
	}
	ok := true
	x := &held{what: what, key: key, got: got, want: t.want}
	for i, g := range got {
		want, refBytes := impliedConfig(t.want[i])
		dc, has := decConfigOf(g.esds)
		if !has {
			c.Violation("sample-entry/box-level/missing-descriptor/"+key, fmt.Sprintf("%s: entry %d has no esds/DecoderConfigDescriptor/DecSpecificInfo", what, i+1), nil)
			return false
		}
		cfg, derr := aac.DecodeAudioSpecificConfig(bytes.NewReader(dc))
		if derr != nil || cfg == nil || *cfg != want {
			c.Violation("sample-entry/box-level/config/"+key,
				fmt.Sprintf("%s: entry %d of %d built from %v decodes to %+v (err %v, DecoderSpecificInfo %x); implied configuration %+v (reference bytes %x)", what, i+1, len(got), t.want[i], cfg, derr, dc, want, refBytes),
				map[string]interface{}{"objType": t.want[i].obj, "sampling": t.want[i].f, "entries": len(got), "bytes": fmt.Sprintf("%x", data)})
			ok = false
		}
		x.snap = append(x.snap, append([]byte{}, dc...))
		rate := uint16(0)
		if g.entry != nil {
			rate = g.entry.SampleRate
			if !checkSampleRateField(c, g.entry, t.want[i], what) {
				ok = false
			}
		}
		x.rates = append(x.rates, rate)
	}
	if len(got) > 1 {
		c.Seen("aac_entries_in_one_decoded_box", fmt.Sprint(len(got)))
	}
	if !ok {
		return false // not held: it is wrong already
	}
	if !h.recheck(c, what+" "+fmt.Sprint(t.want)) {
		ok = false
	}
	h.add(x)
	return ok
}

// runBuilds decodes all levels of the given builds through all paths. The
// build is the innermost loop so that consecutive decodes carry different
// configurations.
func runBuilds(c *runner.Ctx, builds []*build, count func(bool)) {
	h := &holder{}
	for _, level := range entryLevels {
		for _, p := range decPaths {
			if p.file != (level == "init") {
				continue
			}
			for _, b := range builds {
				for _, t := range b.targets(level) {
					count(decodeAndVerify(c, h, t, p))
				}
			}
		}
	}
	// the boxes decoded last
	h.recheck(c, "end of block")
}

// fixedBuilds: the deterministic part (per object type block).
func fixedBuilds(c *runner.Ctx, obj int) []*build {
	specs := [][][]entryCfg{
		{{{obj, 48000}}},
		{{{2, 44100}, {2, 32000}}},
		{{{5, 24000}}, {{29, 22050}}, {{2, 12345}}},
		{{{obj, 65535}, {29, 24000}, {2, 8000}}},
		{{{2, 96000}}, {{obj, 65536}, {5, 22050}}},
		{{{obj, 1<<23 - 1}}},
	}
	var out []*build
	for _, s := range specs {
		if b := makeBuild(c, s); b != nil {
			out = append(out, b)
		}
	}
	return out
}

func randomCfg(r *runner.Rand, fs []int) entryCfg {
	obj := r.PickInt(2, 5, 29)
	var f int
	switch r.Intn(4) {
	case 0, 1:
		f = tableFreqs[r.Intn(len(tableFreqs))]
	case 2:
		f = fs[r.Intn(len(fs))]
	default:
		f = int(r.Uint64() & 0xffffff)
	}
	if obj != 2 && 2*f >= 1<<24 {
		f >>= 2 // 2f must fit the 24-bit extension field
	}
	return entryCfg{obj, f}
}

func randomBuilds(c *runner.Ctx) []*build {
	fs := sampleEntryFreqs()
	var out []*build
	for i := 0; i < 4; i++ {
		ntr := 1 + c.Rand.Intn(3)
		spec := make([][]entryCfg, ntr)
		for t := range spec {
			ne := 1
			if c.Rand.Chance(1, 3) {
				ne = 2 + c.Rand.Intn(2)
			}
			for e := 0; e < ne; e++ {
				spec[t] = append(spec[t], randomCfg(c.Rand, fs))
			}
		}
		c.Seen("build_shape", fmt.Sprintf("%d tracks, %d entries in the first stsd", ntr, len(spec[0])))
		if b := makeBuild(c, spec); b != nil {
			out = append(out, b)
		}
	}
	return out
}
