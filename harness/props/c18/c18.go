// Package c18 decides property C18 (audio configuration codecs exact over
// their whole domain) by enumerating the domain against the real code and
// comparing with an independent bit-layout model (ISO/IEC 14496-3 Table 1.15/1.16,
// ISO/IEC 13818-7 adts_fixed_header/adts_variable_header).
package c18

import (
	"bytes"
	"fmt"
	"io"
	"sort"

	"github.com/Eyevinn/mp4ff/aac"
	"github.com/Eyevinn/mp4ff/bits"
	"github.com/Eyevinn/mp4ff/mp4"

	"verifharness/ref/bitw"
	"verifharness/runner"
)

var tableFreqs = []int{96000, 88200, 64000, 48000, 44100, 32000, 24000, 22050, 16000, 12000, 11025, 8000, 7350}

type block struct {
	kind string
	a, b int
}

var blocks []block
var explicitSet []int

func buildBlocks(env *runner.Env) {
	blocks = nil
	thorough := env.Tier == "thorough"
	// explicit frequency set: boundaries of the 24-bit field and of the table
	set := map[int]bool{0: true, 1: true, 1<<24 - 1: true}
	for _, f := range tableFreqs {
		set[f-1] = true
		set[f+1] = true
	}
	for k := 1; k <= 23; k++ {
		set[1<<uint(k)] = true
		set[1<<uint(k)-1] = true
		set[1<<uint(k)+1] = true
	}
	for _, f := range tableFreqs {
		delete(set, f)
	}
	explicitSet = explicitSet[:0]
	for f := range set {
		explicitSet = append(explicitSet, f)
	}
	sort.Ints(explicitSet)
	for _, obj := range []int{2, 5, 29} {
		for ch := 0; ch < 16; ch++ {
			blocks = append(blocks, block{"asc-grid", obj, ch})
		}
	}
	nrand := 50
	if thorough {
		nrand = 2000
	}
	for i := 0; i < nrand; i++ {
		blocks = append(blocks, block{"asc-random", i, 0})
	}
	if thorough {
		for i := 0; i < 256; i++ {
			blocks = append(blocks, block{"asc-all-sampling", i, 0})
			blocks = append(blocks, block{"asc-all-extension", i, 0})
		}
	}
	for shape := 0; shape < 512; shape++ {
		blocks = append(blocks, block{"adts-shape", shape, 0})
	}
	for j := 0; j <= 187; j++ {
		blocks = append(blocks, block{"adts-junk", j, 0})
	}
	for _, obj := range []int{2, 5, 29} {
		blocks = append(blocks, block{"sample-entry", obj, 0})
	}
	nboxes := 48
	if thorough {
		nboxes = 2000
	}
	for i := 0; i < nboxes; i++ {
		blocks = append(blocks, block{"sample-entry-boxes", i, 0})
	}
	addHistoryBlocks(thorough)
}

func init() {
	runner.Register(&runner.Prop{
		ID: "C18",
		Rule: "The finite domain is enumerated against the real code in blocks (one case = one block). " +
			"asc-grid: objType{2,5,29} x channel 0..15 x sampling in (13 table values + boundary explicit set) x (HE: extension in the same set), complete; " +
			"asc-random: 1000 random (objType, channel, 24-bit sampling, 24-bit extension) per block; " +
			"asc-all-sampling / asc-all-extension (thorough): all 2^24 explicit values of that field, others fixed; " +
			"adts-shape: objType 1..4 x freq index 0..15 x channel 0..7, each with buffer fullness {0,0x7ff,0x555} and payload lengths 0..8184 (quick: all lengths for 3 shapes, 64 boundary lengths for the others; thorough: all lengths for all shapes); " +
			"adts-junk: junk length 0..187 x 6 junk kinds x 8 header shapes; sample-entry: SetAACDescriptor for 3 object types x all table and boundary explicit frequencies (plus 65533..65538, 2^17-1..2^17+1, 2^23-2, 2^24-2: the widths of the mp4a samplerate field and of the 24-bit fields) -> init encode/decode (DecodeFile, DecodeFileSR) -> esds DecSpecificInfo -> DecodeAudioSpecificConfig, and the 16-bit integer part of the decoded mp4a samplerate field against the frequency passed in; " +
			"sample-entry (6 fixed builds per object type) and sample-entry-boxes (4 random builds per block; quick 48, thorough 2000 blocks): init segments with 1..3 AAC tracks and 1..3 AAC entries per stsd (further mp4a entries built the same way and added with StsdBox.AddChild), every level esds/mp4a/stsd/stbl/minf/mdia/trak/moov encoded alone and decoded with DecodeBox from 4 reader kinds, DecodeBoxLazyMdat and DecodeBoxSR, the whole init with DecodeFile from 4 reader kinds, DecodeFile in lazy-mdat mode and DecodeFileSR; every decoded entry is compared with the configuration it was built from, and every decoded box is HELD while the next 4 boxes (of other builds, i.e. other configurations) are decoded and re-verified after each of them (DecoderSpecificInfo bytes as first seen, configuration, samplerate field). " +
			"entry-reencode (quick 24, thorough 600 blocks x 12 histories): histories on ONE object: an init with 1..2 AAC entries (as built, or decoded with DecodeFile / DecodeFileSR) is encoded at a random subset of (box level x {Encode into a buffer, Encode into a Write-only destination, EncodeSW}), then 1..3 times an entry's configuration is replaced through the public fields (new DecConfig slice, DecConfig overwritten in place, new esds box, new mp4a entry in the stsd; new configuration of the same encoded length 3 of 4 times, any object type/channel/frequency) and every level is encoded again through all three modes and decoded (DecodeBox/DecodeBoxSR/DecodeFile/DecodeFileSR): DecoderSpecificInfo bytes = reference layout of the configuration the entry holds NOW, samplerate field = the field set. " +
			"adts-held (quick 24, thorough 400 blocks x 300 calls): NewADTSHeader with (frequency, channel) pairs from a pool of 2..6 (so pairs repeat), DecodeADTSHeader and DecodeAudioSpecificConfig results are held in a ring of 4 and re-verified (fields, Encode output against the reference layout) after every later call; one constructor result in three is changed by the caller through its public fields (BufferFullness, PayloadLength, ChannelConfig/ObjectType), which must neither be undone by nor show in a later result. " +
			"adts-stream / asc-stream (quick 32, thorough 600 blocks each; 6 resp. 40 streams per block x 10 source kinds: plain io.Reader wrapper, data+EOF, hesitant, one-byte, io.MultiReader, io.LimitedReader, io.SectionReader, bytes.Reader, bytes.Buffer, bufio.Reader): 2..7 (sometimes 20..119) ADTS frames [junk 0..186][7-byte or CRC-form 9-byte header][payload 0..8184 random bytes] back to back plus a tail in ONE source: DecodeADTSHeader, then the payload and finally the tail are read through the same source; header, offset, payload, tail and (where observable) the number of bytes taken from the source (junk + header length) are compared with what the harness wrote; 2..5 AudioSpecificConfigs back to back likewise. " +
			"distinct_nontrivial counts distinct blocks in which at least one encode->decode round trip succeeded and was compared (block granularity: conservative); evaluations counts individual round trips.",
		Assumptions: []string{
			"reference bit layouts written from ISO/IEC 14496-3 Table 1.15 and ISO/IEC 13818-7 6.2 in ref/bitw (independent of mp4ff)",
			"canonical configurations only: SBR/PS flags as implied by the object type, ExtensionFrequency 0 for AAC-LC",
			"sample entry: the configuration of SetAACDescriptor(objType, f) is the documented one (stereo AAC-LC core at f Hz; HE-AAC: extension frequency 2f; HE-AAC v2: mono core + PS); the integer part of the mp4a samplerate field is f when f fits 16 bits and 0 (states no frequency; the builder's documented signal) when it does not",
			"a box writes what it holds at the time of the Encode/EncodeSW call: the public fields (DecSpecificInfo.DecConfig, AudioSampleEntryBox.Esds/Children/SampleRate/ChannelCount, StsdBox.Children/Mp4a) are the API by which an entry's configuration is changed",
			"results of NewADTSHeader, DecodeADTSHeader and DecodeAudioSpecificConfig are values owned by the caller",
			"DecodeADTSHeader and DecodeAudioSpecificConfig take from their io.Reader exactly the bytes they parse (junk + 7 or 9 header bytes; the whole bytes of the configuration), as /repo HEAD does (bits.Reader fetches single bytes): the reported offset and HeaderLength are how the caller finds the payload that follows in the same source, and canonical configurations fill whole bytes so that back-to-back configurations are found at the byte where the previous one ended",
			"a decoded box is a value: what it says must not change when the library decodes another box later; inputs handed to the slice-reader decoders are left untouched while the decoded box is held (those decoders may alias their input)",
		},
		Exhaustive: func(tier string) bool { return tier == "thorough" },
		Setup:      func(env *runner.Env) error { buildBlocks(env); return nil },
		NumCases:   func(env *runner.Env) int { return len(blocks) },
		Run:        run,
	})
}

func refASC(obj, ch, f, ext int, forceExplicit bool) []byte {
	w := &bitw.W{}
	putFreq := func(f int) {
		idx := -1
		for i, t := range tableFreqs {
			if t == f {
				idx = i
			}
		}
		if idx >= 0 && !forceExplicit {
			w.Put(uint64(idx), 4)
		} else {
			w.Put(15, 4)
			w.Put(uint64(f), 24)
		}
	}
	w.Put(uint64(obj), 5)
	putFreq(f)
	w.Put(uint64(ch), 4)
	if obj == 5 || obj == 29 {
		putFreq(ext)
		w.Put(2, 5)
	}
	w.Put(0, 3)
	return w.Bytes()
}

func wantASC(obj, ch, f, ext int) aac.AudioSpecificConfig {
	x := aac.AudioSpecificConfig{ObjectType: byte(obj), ChannelConfiguration: byte(ch), SamplingFrequency: f}
	if obj == 5 || obj == 29 {
		x.ExtensionFrequency = ext
		x.SBRPresentFlag = true
	}
	if obj == 29 {
		x.PSPresentFlag = true
	}
	return x
}

func freqClass(f int) string {
	for _, t := range tableFreqs {
		if t == f {
			return "table"
		}
	}
	return "explicit"
}

// checkASC runs one AudioSpecificConfig round trip.
// sources: the decoders take an io.Reader; besides a bytes.Reader they must
// cope with every reader the io.Reader contract allows.
type oneByteReader struct{ r io.Reader }

func (o oneByteReader) Read(p []byte) (int, error) {
	if len(p) == 0 {
		return 0, nil
	}
	return o.r.Read(p[:1])
}

// dataErrReader returns the final bytes together with io.EOF.
type dataErrReader struct {
	b   []byte
	pos int
}

func (d *dataErrReader) Read(p []byte) (int, error) {
	n := copy(p, d.b[d.pos:])
	d.pos += n
	if d.pos >= len(d.b) {
		return n, io.EOF
	}
	return n, nil
}

// hesitantReader returns (0, nil) on every other call and at most 2 bytes otherwise.
type hesitantReader struct {
	r   io.Reader
	odd bool
}

func (h *hesitantReader) Read(p []byte) (int, error) {
	h.odd = !h.odd
	if h.odd || len(p) == 0 {
		return 0, nil
	}
	if len(p) > 2 {
		p = p[:2]
	}
	return h.r.Read(p)
}

// writeOnly exposes Write only.
type writeOnly struct{ b *bytes.Buffer }

func (w writeOnly) Write(p []byte) (int, error) { return w.b.Write(p) }

var sourceKinds = []string{"bytes.Reader", "one-byte", "data+EOF", "hesitant"}

func source(kind string, b []byte) io.Reader {
	switch kind {
	case "one-byte":
		return oneByteReader{bytes.NewReader(b)}
	case "data+EOF":
		return &dataErrReader{b: b}
	case "hesitant":
		return &hesitantReader{r: bytes.NewReader(b)}
	}
	return bytes.NewReader(b)
}

func checkASC(c *runner.Ctx, obj, ch, f, ext int) bool {
	x := wantASC(obj, ch, f, ext)
	cls := fmt.Sprintf("obj=%d,sampling=%s,ext=%s", obj, freqClass(f), freqClass(ext))
	det := map[string]int{"objType": obj, "channel": ch, "sampling": f, "extension": ext}
	var buf bytes.Buffer
	in := x
	if err := in.Encode(&buf); err != nil {
		c.Violation("asc/encode-error/"+cls, fmt.Sprintf("Encode(%+v): %v", x, err), det)
		return false
	}
	ref := refASC(obj, ch, f, ext, false)
	if !bytes.Equal(buf.Bytes(), ref) {
		c.Violation("asc/bytes-vs-reference/"+cls, fmt.Sprintf("Encode(%+v) = %x, reference layout %x", x, buf.Bytes(), ref), det)
		return false
	}
	// the same into a destination that exposes Write only (a file, a socket)
	var plain bytes.Buffer
	in2 := x
	if err := in2.Encode(writeOnly{&plain}); err != nil || !bytes.Equal(plain.Bytes(), ref) {
		c.Violation("asc/encode-to-plain-writer/"+cls, fmt.Sprintf("Encode(%+v) into a Write-only destination wrote %x (err %v), reference layout %x", x, plain.Bytes(), err, ref), det)
		return false
	}
	for _, sk := range sourceKinds {
		got, err := aac.DecodeAudioSpecificConfig(source(sk, buf.Bytes()))
		key := ""
		if sk != "bytes.Reader" {
			key = "/from-" + sk + "-reader"
		}
		if err != nil || got == nil {
			c.Violation("asc/decode-error"+key+"/"+cls, fmt.Sprintf("Decode(Encode(%+v)) from a %s source: error %v", x, sk, err), det)
			return false
		}
		if *got != x {
			c.Violation("asc/roundtrip"+key+"/"+cls, fmt.Sprintf("Decode(Encode(x)) from a %s source = %+v, x = %+v", sk, *got, x), det)
			return false
		}
		c.Count("asc_decodes_from:"+sk, 1)
	}
	return true
}

// checkASCExplicitForm decodes the reference's explicit (escape) coding of a
// table frequency: it denotes the same configuration.
func checkASCExplicitForm(c *runner.Ctx, obj, ch, f, ext int) {
	x := wantASC(obj, ch, f, ext)
	ref := refASC(obj, ch, f, ext, true)
	got, err := aac.DecodeAudioSpecificConfig(bytes.NewReader(ref))
	if err != nil || got == nil || *got != x {
		c.Violation(fmt.Sprintf("asc/decode-explicit-form/obj=%d", obj), fmt.Sprintf("Decode(%x) = %+v, %v; want %+v", ref, got, err, x), nil)
	}
}

func run(c *runner.Ctx, idx int) {
	b := blocks[idx]
	var n, ok int64
	count := func(good bool) {
		n++
		if good {
			ok++
		}
	}
	switch b.kind {
	case "asc-grid":
		fs := append(append([]int{}, tableFreqs...), explicitSet...)
		for _, f := range fs {
			if b.a == 2 {
				count(checkASC(c, b.a, b.b, f, 0))
				continue
			}
			for _, e := range fs {
				count(checkASC(c, b.a, b.b, f, e))
			}
		}
		for _, f := range tableFreqs {
			checkASCExplicitForm(c, b.a, b.b, f, tableFreqs[(b.b+1)%13])
		}
		if c.WantSample() {
			c.Sample(map[string]interface{}{"block": "asc-grid", "objType": b.a, "channel": b.b, "frequencies": len(fs), "first_bytes": fmt.Sprintf("%x", refASC(b.a, b.b, fs[0], fs[1], false))})
		}
	case "asc-random":
		for i := 0; i < 1000; i++ {
			obj := c.Rand.PickInt(2, 5, 29)
			f := int(c.Rand.Uint64() & 0xffffff)
			e := int(c.Rand.Uint64() & 0xffffff)
			if c.Rand.Chance(1, 4) {
				f = tableFreqs[c.Rand.Intn(13)]
			}
			if c.Rand.Chance(1, 4) {
				e = tableFreqs[c.Rand.Intn(13)]
			}
			if obj == 2 {
				e = 0
			}
			count(checkASC(c, obj, c.Rand.Intn(16), f, e))
		}
	case "asc-all-sampling":
		for f := b.a << 16; f < (b.a+1)<<16; f++ {
			count(checkASC(c, 2, 2, f, 0))
		}
	case "asc-all-extension":
		for e := b.a << 16; e < (b.a+1)<<16; e++ {
			count(checkASC(c, 5, 2, 24000, e))
		}
	case "adts-shape":
		obj := 1 + b.a>>7
		fi := (b.a >> 3) & 15
		ch := b.a & 7
		all := c.Env.Tier == "thorough" || b.a%171 == 1
		var lens []int
		if all {
			for l := 0; l <= 8184; l++ {
				lens = append(lens, l)
			}
		} else {
			for _, l := range []int{0, 1, 2, 6, 7, 8, 9, 248, 249, 255, 256, 257, 1016, 1017, 1023, 1024, 1025, 2040, 2041, 2047, 2048, 2049,
				4088, 4089, 4095, 4096, 4097, 8176, 8177, 8178, 8183, 8184} {
				lens = append(lens, l)
			}
			for len(lens) < 64 {
				lens = append(lens, c.Rand.Intn(8185))
			}
		}
		for _, full := range []int{0, 0x7ff, 0x555} {
			for _, l := range lens {
				count(checkADTS(c, obj, fi, ch, l, full, nil, "none"))
			}
		}
		if c.WantSample() {
			c.Sample(map[string]interface{}{"block": "adts-shape", "objType": obj, "freqIndex": fi, "channel": ch, "payload_lengths": len(lens), "fullness": []int{0, 0x7ff, 0x555}})
		}
	case "adts-junk":
		j := b.a
		for kind := 0; kind < 6; kind++ {
			for s := 0; s < 8; s++ {
				junk, name := makeJunk(c.Rand, j, kind)
				obj, fi, ch := 1+c.Rand.Intn(4), c.Rand.Intn(16), c.Rand.Intn(8)
				count(checkADTS(c, obj, fi, ch, c.Rand.Intn(8185), c.Rand.PickInt(0, 0x7ff, 0x555), junk, name))
			}
		}
	case "sample-entry":
		count(checkMultiTrackEntries(c, b.a))
		count(checkRepeatedSet(c, b.a))
		for _, f := range sampleEntryFreqs() {
			if b.a != 2 && 2*f >= 1<<24 {
				continue // 2f is not representable in the 24-bit extension field
			}
			count(checkSampleEntry(c, b.a, f))
		}
		runBuilds(c, fixedBuilds(c, b.a), count)
	case "sample-entry-boxes":
		runBuilds(c, randomBuilds(c), count)
	case "entry-reencode":
		for i := 0; i < 12; i++ {
			nver, good := reencodeHistory(c)
			if nver > 0 || !good {
				count(good)
			}
			c.Evals(int64(nver))
		}
	case "adts-held":
		adtsHeldBlock(c, count)
	case "adts-stream":
		adtsStreamBlock(c, count)
	case "asc-stream":
		ascStreamBlock(c, count)
	}
	c.Evals(n)
	c.Count("roundtrips_ok", ok)
	c.Count("roundtrips", n)
	c.Seen("block_kind", b.kind)
	if ok > 0 {
		c.Nontrivial(runner.HashStr(b.kind, fmt.Sprint(b.a), fmt.Sprint(b.b)))
	}
}

// makeJunk builds j junk bytes of the given kind that contain no ADTS sync
// pattern themselves and do not create one together with the following 0xff.
func makeJunk(r *runner.Rand, j, kind int) ([]byte, string) {
	junk := make([]byte, j)
	names := []string{"no-ff", "ff+nonsync", "ff-runs", "ff-at-end", "fff-wrong-layer", "mixed"}
	nonFF := func() byte { return byte(r.Intn(255)) }
	for i := range junk {
		junk[i] = nonFF()
	}
	nonSync := func() byte { // a byte that after 0xff is not a sync continuation and is not 0xff
		for {
			b := byte(r.Intn(255))
			if b>>4 == 0xf && (b>>1)&3 == 0 {
				continue
			}
			return b
		}
	}
	switch kind {
	case 1:
		for i := 0; i+1 < j; i += 2 + r.Intn(5) {
			junk[i] = 0xff
			junk[i+1] = nonSync()
		}
	case 2:
		for i := 0; i < j; {
			run := 1 + r.Intn(4)
			for k := 0; k < run && i < j; k++ {
				junk[i] = 0xff
				i++
			}
			if i < j {
				junk[i] = nonSync()
				i++
			}
			i += r.Intn(4)
		}
	case 3:
		if j > 0 {
			junk[j-1] = 0xff
		}
	case 4:
		for i := 0; i+1 < j; i += 2 + r.Intn(5) {
			junk[i] = 0xff
			junk[i+1] = 0xf0 | byte(1+r.Intn(3))<<1 | byte(r.Intn(2)) // layer != 0
		}
	case 5:
		for i := 0; i < j; i++ {
			if r.Chance(1, 3) {
				junk[i] = 0xff
			} else if i > 0 && junk[i-1] == 0xff {
				junk[i] = nonSync()
			}
		}
	}
	// a junk byte following 0xff must not complete a sync
	for i := 1; i < j; i++ {
		if junk[i-1] == 0xff && junk[i] != 0xff && junk[i]>>4 == 0xf && (junk[i]>>1)&3 == 0 {
			junk[i] = 0x00
		}
	}
	return junk, names[kind]
}

func refADTS(obj, fi, ch, plen, full int) []byte {
	w := &bitw.W{}
	w.Put(0xfff, 12)
	w.Put(0, 1)               // ID: MPEG-4
	w.Put(0, 2)               // layer
	w.Put(1, 1)               // protection_absent
	w.Put(uint64(obj-1), 2)   // profile
	w.Put(uint64(fi), 4)      // sampling_frequency_index
	w.Put(0, 1)               // private
	w.Put(uint64(ch), 3)      // channel_configuration
	w.Put(0, 4)               // original/copy, home, copyright id bit, copyright id start
	w.Put(uint64(plen+7), 13) // aac_frame_length
	w.Put(uint64(full), 11)   // adts_buffer_fullness
	w.Put(0, 2)               // number_of_raw_data_blocks_in_frame
	return w.Bytes()
}

// refSync is the byte-wise reference: first position p with b[p]=ff,
// b[p+1] = 1111 x 00 x.
func refSync(b []byte) int {
	for p := 0; p+1 < len(b); p++ {
		if b[p] == 0xff && b[p+1]>>4 == 0xf && (b[p+1]>>1)&3 == 0 {
			return p
		}
	}
	return -1
}

func checkADTS(c *runner.Ctx, obj, fi, ch, plen, full int, junk []byte, junkKind string) bool {
	h := aac.ADTSHeader{ObjectType: byte(obj), SamplingFrequencyIndex: byte(fi), ChannelConfig: byte(ch),
		HeaderLength: 7, PayloadLength: uint16(plen), BufferFullness: uint16(full)}
	cls := "junk=" + junkKind
	det := map[string]interface{}{"objType": obj, "freqIndex": fi, "channel": ch, "payloadLength": plen, "fullness": full, "junk": fmt.Sprintf("%x", junk)}
	if obj == 2 && full == 0x7ff && len(junk) == 0 {
		// the constructor: for AAC-LC and a table frequency it must give exactly this header, for every payload length 0..8184
		if f, okf := aac.FrequencyTable[byte(fi)]; okf {
			nh, nerr := aac.NewADTSHeader(f, byte(ch), 2, uint16(plen))
			if nerr != nil || nh == nil || *nh != h {
				c.Violation("adts/constructor", fmt.Sprintf("NewADTSHeader(%d, %d, 2, %d) = %+v, %v; the header with these values is %+v", f, ch, plen, nh, nerr, h), det)
				return false
			}
			c.Count("adts_constructor_checked", 1)
		}
	}
	enc := h.Encode()
	ref := refADTS(obj, fi, ch, plen, full)
	if !bytes.Equal(enc, ref) {
		c.Violation("adts/bytes-vs-reference", fmt.Sprintf("Encode(%+v) = %x, reference %x", h, enc, ref), det)
		return false
	}
	stream := append(append([]byte{}, junk...), enc...)
	stream = append(stream, 0x21, 0x00, 0x49) // start of a payload
	want := refSync(stream)
	if want != len(junk) {
		c.Inconclusive("adts-junk-generator-created-sync")
		return false
	}
	for _, sk := range sourceKinds[1:] {
		g, o, e := aac.DecodeADTSHeader(source(sk, stream))
		if e != nil || g == nil || *g != h || o != want {
			c.Violation("adts/from-"+sk+"-reader/"+cls, fmt.Sprintf("DecodeADTSHeader from a %s source: %+v at offset %d (err %v); encoded %+v at offset %d", sk, g, o, e, h, want), det)
			return false
		}
		c.Count("adts_decodes_from:"+sk, 1)
	}
	got, off, err := aac.DecodeADTSHeader(bytes.NewReader(stream))
	if err != nil || got == nil {
		c.Violation("adts/decode-error/"+cls, fmt.Sprintf("DecodeADTSHeader after %d junk bytes (%s): %v", len(junk), junkKind, err), det)
		return false
	}
	if *got != h {
		c.Violation("adts/roundtrip/"+cls, fmt.Sprintf("decoded %+v, encoded %+v", *got, h), det)
		return false
	}
	if off != want {
		c.Violation("adts/offset/"+cls, fmt.Sprintf("offset %d reported, sync word is at %d (junk %x)", off, want, junk), det)
		return false
	}
	// the same header in its CRC form (protection_absent = 0, 9-byte header,
	// ISO/IEC 13818-7 6.2): only the decoder handles it; frame_length covers
	// header + CRC + payload
	if plen+9 <= 8191 {
		w := &bitw.W{}
		w.Put(0xfff, 12)
		w.Put(0, 1)
		w.Put(0, 2)
		w.Put(0, 1) // protection_absent = 0
		w.Put(uint64(obj-1), 2)
		w.Put(uint64(fi), 4)
		w.Put(0, 1)
		w.Put(uint64(ch), 3)
		w.Put(0, 4)
		w.Put(uint64(plen+9), 13)
		w.Put(uint64(full), 11)
		w.Put(0, 2)
		w.Put(0xbeef, 16) // crc_check
		crcStream := append(append(append([]byte{}, junk...), w.Bytes()...), 0x21, 0x00)
		g2, off2, err2 := aac.DecodeADTSHeader(bytes.NewReader(crcStream))
		wantH := h
		wantH.HeaderLength = 9
		if err2 != nil || g2 == nil {
			c.Violation("adts-crc/decode-error/"+cls, fmt.Sprintf("DecodeADTSHeader of the CRC form (9-byte header) after %d junk bytes: %v", len(junk), err2), det)
			return false
		}
		if *g2 != wantH || off2 != want {
			c.Violation("adts-crc/decoded-header/"+cls, fmt.Sprintf("CRC form decoded as %+v at offset %d; the header says %+v at offset %d (frame_length = 9 + payload)", *g2, off2, wantH, want), det)
			return false
		}
		// the decoded header encoded again (Encode writes the 7-byte form) must still announce the same payload
		re := g2.Encode()
		g3, _, err3 := aac.DecodeADTSHeader(bytes.NewReader(append(append([]byte{}, re...), 0x21, 0x00)))
		if err3 != nil || g3 == nil || g3.PayloadLength != h.PayloadLength || g3.ObjectType != h.ObjectType || g3.SamplingFrequencyIndex != h.SamplingFrequencyIndex || g3.ChannelConfig != h.ChannelConfig {
			c.Violation("adts-crc/re-encode/"+cls, fmt.Sprintf("header decoded from the CRC form %+v, encoded again (%x) and decoded: %+v (err %v); payload length must stay %d", *g2, re, g3, err3, h.PayloadLength), det)
			return false
		}
	}
	return true
}

func checkSampleEntry(c *runner.Ctx, obj, f int) bool {
	cls := fmt.Sprintf("obj=%d,%s", obj, freqClass(f))
	det := map[string]int{"objType": obj, "sampling": f}
	init := mp4.CreateEmptyInit()
	init.AddEmptyTrack(48000, "audio", "und")
	trak := init.Moov.Trak
	if err := trak.SetAACDescriptor(byte(obj), f); err != nil {
		c.Violation("sample-entry/set-error/"+cls, fmt.Sprintf("SetAACDescriptor(%d,%d): %v", obj, f, err), det)
		return false
	}
	var buf bytes.Buffer
	if err := init.Encode(&buf); err != nil {
		c.Violation("sample-entry/encode-error/"+cls, err.Error(), det)
		return false
	}
	want := wantASC(obj, 2, f, 2*f)
	if obj == 2 {
		want = wantASC(obj, 2, f, 0)
	}
	if obj == 29 {
		want.ChannelConfiguration = 1
	}
	for _, path := range []string{"reader", "slicereader"} {
		var file *mp4.File
		var err error
		if path == "reader" {
			file, err = mp4.DecodeFile(bytes.NewReader(buf.Bytes()))
		} else {
			file, err = mp4.DecodeFileSR(bits.NewFixedSliceReader(buf.Bytes()))
		}
		if err != nil || file.Init == nil || file.Init.Moov == nil || file.Init.Moov.Trak == nil {
			c.Violation("sample-entry/decode-error/"+cls, fmt.Sprintf("%s: decoding the init built with SetAACDescriptor(%d,%d): %v", path, obj, f, err), det)
			return false
		}
		stsd := file.Init.Moov.Trak.Mdia.Minf.Stbl.Stsd
		if stsd.Mp4a == nil || stsd.Mp4a.Esds == nil || stsd.Mp4a.Esds.DecConfigDescriptor == nil || stsd.Mp4a.Esds.DecConfigDescriptor.DecSpecificInfo == nil {
			c.Violation("sample-entry/missing-descriptor/"+cls, path+": no mp4a/esds/DecSpecificInfo after decode", det)
			return false
		}
		dc := stsd.Mp4a.Esds.DecConfigDescriptor.DecSpecificInfo.DecConfig
		got, err := aac.DecodeAudioSpecificConfig(bytes.NewReader(dc))
		if err != nil || got == nil {
			c.Violation("sample-entry/asc-decode-error/"+cls, fmt.Sprintf("%s: DecodeAudioSpecificConfig(%x): %v", path, dc, err), det)
			return false
		}
		if *got != want {
			c.Violation("sample-entry/config/"+cls, fmt.Sprintf("%s: sample entry decodes to %+v, implied configuration %+v", path, *got, want), det)
			return false
		}
		// the entry's own statement of the frequency (16.16 samplerate field)
		if !checkSampleRateField(c, stsd.Mp4a, entryCfg{obj, f}, "init "+path) {
			return false
		}
	}
	return true
}

// checkMultiTrackEntries builds ONE init segment with several AAC tracks of
// different configurations (all SetAACDescriptor calls first, encode
// afterwards) and reads every track's configuration back.
func checkMultiTrackEntries(c *runner.Ctx, firstObj int) bool {
	type tr struct{ obj, f int }
	trs := []tr{{firstObj, 48000}, {2, 44100}, {5, 24000}, {29, 22050}, {2, 7350}, {firstObj, 12345}}
	init := mp4.CreateEmptyInit()
	for i, t := range trs {
		init.AddEmptyTrack(uint32(t.f), "audio", "und")
		if err := init.Moov.Traks[i].SetAACDescriptor(byte(t.obj), t.f); err != nil {
			c.Violation("sample-entry/multi-track/set-error", fmt.Sprintf("SetAACDescriptor(%d,%d) on track %d: %v", t.obj, t.f, i+1, err), nil)
			return false
		}
	}
	var buf bytes.Buffer
	if err := init.Encode(&buf); err != nil {
		c.Violation("sample-entry/multi-track/encode-error", err.Error(), nil)
		return false
	}
	file, err := mp4.DecodeFile(bytes.NewReader(buf.Bytes()))
	if err != nil || file.Init == nil || len(file.Init.Moov.Traks) != len(trs) {
		c.Violation("sample-entry/multi-track/decode-error", fmt.Sprintf("decoding an init with %d AAC tracks: %v", len(trs), err), nil)
		return false
	}
	for i, t := range trs {
		want := wantASC(t.obj, 2, t.f, 2*t.f)
		if t.obj == 2 {
			want = wantASC(t.obj, 2, t.f, 0)
		}
		if t.obj == 29 {
			want.ChannelConfiguration = 1
		}
		stsd := file.Init.Moov.Traks[i].Mdia.Minf.Stbl.Stsd
		if stsd.Mp4a == nil || stsd.Mp4a.Esds == nil || stsd.Mp4a.Esds.DecConfigDescriptor == nil || stsd.Mp4a.Esds.DecConfigDescriptor.DecSpecificInfo == nil {
			c.Violation("sample-entry/multi-track/missing-descriptor", fmt.Sprintf("track %d has no mp4a/esds/DecSpecificInfo", i+1), nil)
			return false
		}
		dc := stsd.Mp4a.Esds.DecConfigDescriptor.DecSpecificInfo.DecConfig
		got, err := aac.DecodeAudioSpecificConfig(bytes.NewReader(dc))
		if err != nil || got == nil || *got != want {
			c.Violation("sample-entry/multi-track/config", fmt.Sprintf("init with %d AAC tracks: track %d (objType %d, %d Hz) reads back as %+v (%v); implied configuration %+v", len(trs), i+1, t.obj, t.f, got, err, want), nil)
			return false
		}
	}
	return true
}

// checkRepeatedSet calls SetAACDescriptor twice on the same track with
// different configurations. Whatever the library does with the first entry
// (it appends a second mp4a entry), after encode and decode no mp4a entry
// may mix the two calls: its AudioSpecificConfig must be one of the two
// implied configurations and its sample rate field must come from the same
// call. (Which entry stsd.Mp4a designates is the library's choice.)
func checkRepeatedSet(c *runner.Ctx, firstObj int) bool {
	type cfg struct{ obj, f int }
	pairs := [][2]cfg{{{firstObj, 48000}, {2, 22050}}, {{2, 44100}, {firstObj, 16000}}, {{5, 24000}, {29, 12000}}, {{firstObj, 12345}, {firstObj, 32000}}}
	implied := func(t cfg) aac.AudioSpecificConfig {
		w := wantASC(t.obj, 2, t.f, 2*t.f)
		if t.obj == 2 {
			w = wantASC(t.obj, 2, t.f, 0)
		}
		if t.obj == 29 {
			w.ChannelConfiguration = 1
		}
		return w
	}
	ok := true
	for _, p := range pairs {
		if p[0] == p[1] {
			continue
		}
		init := mp4.CreateEmptyInit()
		init.AddEmptyTrack(48000, "audio", "und")
		trak := init.Moov.Trak
		if err := trak.SetAACDescriptor(byte(p[0].obj), p[0].f); err != nil {
			continue // reported by checkSampleEntry
		}
		if err := trak.SetAACDescriptor(byte(p[1].obj), p[1].f); err != nil {
			c.Seen("repeated_set", "second SetAACDescriptor on the same track returns an error")
			continue
		}
		var buf bytes.Buffer
		if err := init.Encode(&buf); err != nil {
			c.Violation("sample-entry/repeated-set/encode-error", err.Error(), nil)
			return false
		}
		file, err := mp4.DecodeFile(bytes.NewReader(buf.Bytes()))
		if err != nil || file.Init == nil || file.Init.Moov == nil || file.Init.Moov.Trak == nil {
			c.Violation("sample-entry/repeated-set/decode-error", fmt.Sprintf("init after two SetAACDescriptor calls on one track: %v", err), nil)
			return false
		}
		stsd := file.Init.Moov.Trak.Mdia.Minf.Stbl.Stsd
		n := 0
		for _, ch := range stsd.Children {
			m, isA := ch.(*mp4.AudioSampleEntryBox)
			if !isA || m.Esds == nil || m.Esds.DecConfigDescriptor == nil || m.Esds.DecConfigDescriptor.DecSpecificInfo == nil {
				continue
			}
			n++
			got, err := aac.DecodeAudioSpecificConfig(bytes.NewReader(m.Esds.DecConfigDescriptor.DecSpecificInfo.DecConfig))
			if err != nil || got == nil {
				c.Violation("sample-entry/repeated-set/asc-decode-error", fmt.Sprintf("entry %d: %v", n, err), nil)
				ok = false
				continue
			}
			match := -1
			for i := range p {
				if *got == implied(p[i]) {
					match = i
				}
			}
			if match < 0 {
				c.Violation("sample-entry/repeated-set/config", fmt.Sprintf("after SetAACDescriptor(%d,%d) then (%d,%d) on one track, mp4a entry %d decodes to %+v: neither call's configuration", p[0].obj, p[0].f, p[1].obj, p[1].f, n, *got), nil)
				ok = false
			} else if int(m.SampleRate) != p[match].f && p[match].f <= 0xffff {
				c.Violation("sample-entry/repeated-set/mixed-entry", fmt.Sprintf("after SetAACDescriptor(%d,%d) then (%d,%d) on one track, mp4a entry %d carries the AudioSpecificConfig of call %d but sample rate %d", p[0].obj, p[0].f, p[1].obj, p[1].f, n, match+1, m.SampleRate), nil)
				ok = false
			}
		}
		c.Seen("repeated_set", fmt.Sprintf("%d mp4a entries after two calls", n))
		c.Evals(1)
	}
	return ok
}
