package c16

// MP4-wrapped tool inputs (round 4).
//
// mp4ff-nallister and mp4ff-pslister read elementary-stream bytes from two
// more places than an Annex B file: the samples of an mp4 file (4-byte length
// prefixed NAL units, handed to avc.GetNalusFromSample and then indexed and
// parsed by the tools themselves) and the avcC / hvcC configuration record of
// the sample description. This file wraps hostile samples and hostile
// configuration records into structurally valid mp4 files, so that the
// container parser accepts the file and the tool code behind it runs:
//
//   * files written byte-wise by a local box writer (progressive with moov or
//     mdat first, fragmented init + styp/moof/mdat, a media segment without
//     init), every size / offset computed from what was written;
//   * /repo's own files (cmd/mp4ff-nallister/testdata/h264.mp4, hevc.mp4) with
//     the first samples replaced in place (same sample sizes: the hostile
//     sample is padded with a filler NAL unit or cut) and the avcC / hvcC box
//     replaced with the sizes of all ancestors (and the chunk offsets, when
//     mdat follows moov) adjusted, located with the independent box walker;
//   * /repo's init segments (mp4/testdata/init.mp4, hvc1_init.mp4) followed by
//     a media segment written for their track id.

import (
	"encoding/binary"
	"fmt"
	"os"
	"path/filepath"
	"strings"

	"verifharness/ref/annexb"
	"verifharness/ref/boxwalk"
	"verifharness/runner"
)

func be32(v uint32) []byte { return []byte{byte(v >> 24), byte(v >> 16), byte(v >> 8), byte(v)} }
func be64(v uint64) []byte { return append(be32(uint32(v>>32)), be32(uint32(v))...) }

func cat(parts ...[]byte) []byte {
	var o []byte
	for _, p := range parts {
		o = append(o, p...)
	}
	return o
}

func mkBox(typ string, payload ...[]byte) []byte {
	p := cat(payload...)
	return cat(be32(uint32(8+len(p))), []byte(typ), p)
}

func mkFullBox(typ string, version byte, flags uint32, payload ...[]byte) []byte {
	vf := be32(flags)
	vf[0] = version
	return mkBox(typ, append([][]byte{vf}, payload...)...)
}

var unityMatrix = cat(be32(0x00010000), be32(0), be32(0), be32(0), be32(0x00010000), be32(0), be32(0), be32(0), be32(0x40000000))

// mp4Spec is one tool input: where the hostile bytes go.
type mp4Spec struct {
	Frame   string   // prog | prog-mdat-first | frag | seg-only | real-prog | real-init-frag
	Entry   string   // avc1 avc3 hvc1 hev1
	Config  []byte   // avcC / hvcC payload
	NoCfg   bool     // sample entry without configuration box
	Samples [][]byte // length-prefixed samples
	// round 5: one hostile sample-table / fragment-table field around the frame (mp4tbl.go); nil: the tables are what was written
	Tbl        *tblClass
	TblVariant int
	tblWhat    string // set by build: the change in words
}

func (s *mp4Spec) codec() string {
	if s.Entry == "hvc1" || s.Entry == "hev1" {
		return "hevc"
	}
	return "avc"
}

func (s *mp4Spec) cfgType() string {
	if s.codec() == "hevc" {
		return "hvcC"
	}
	return "avcC"
}

func (s *mp4Spec) sampleEntry() []byte {
	name := make([]byte, 32)
	copy(name[1:], "c16 hostile")
	name[0] = 11
	hdr := cat(make([]byte, 6), be16(1), make([]byte, 16), be16(320), be16(240), be32(0x00480000), be32(0x00480000), be32(0), be16(1), name, be16(0x18), be16(0xffff))
	var children []byte
	if !s.NoCfg {
		children = mkBox(s.cfgType(), s.Config)
	}
	children = append(children, mkBox("pasp", be32(1), be32(1))...)
	return mkBox(s.Entry, hdr, children)
}

// moov writes a one-track movie box. fragmented: empty sample tables + mvex.
func (s *mp4Spec) moov(trackID uint32, fragmented bool, chunkOffset uint32) []byte {
	n := uint32(len(s.Samples))
	if fragmented {
		n = 0
	}
	mvhd := mkFullBox("mvhd", 0, 0, be32(0), be32(0), be32(1000), be32(n*40), be32(0x00010000), be16(0x0100), make([]byte, 10), unityMatrix, make([]byte, 24), be32(trackID+1))
	tkhd := mkFullBox("tkhd", 0, 3, be32(0), be32(0), be32(trackID), be32(0), be32(n*40), make([]byte, 8), be16(0), be16(0), be16(0), be16(0), unityMatrix, be32(320<<16), be32(240<<16))
	mdhd := mkFullBox("mdhd", 0, 0, be32(0), be32(0), be32(12800), be32(n*512), be16(0x55c4), be16(0))
	hdlr := mkFullBox("hdlr", 0, 0, be32(0), []byte("vide"), make([]byte, 12), []byte("VideoHandler\x00"))
	vmhd := mkFullBox("vmhd", 0, 1, make([]byte, 8))
	dinf := mkBox("dinf", mkFullBox("dref", 0, 0, be32(1), mkFullBox("url ", 0, 1)))
	stsd := mkFullBox("stsd", 0, 0, be32(1), s.sampleEntry())
	var stbl []byte
	if fragmented {
		stbl = mkBox("stbl", stsd, mkFullBox("stts", 0, 0, be32(0)), mkFullBox("stsc", 0, 0, be32(0)), mkFullBox("stsz", 0, 0, be32(0), be32(0)), mkFullBox("stco", 0, 0, be32(0)))
	} else {
		sizes := []byte{}
		for _, smp := range s.Samples {
			sizes = append(sizes, be32(uint32(len(smp)))...)
		}
		stbl = mkBox("stbl", stsd,
			mkFullBox("stts", 0, 0, be32(1), be32(n), be32(512)),
			mkFullBox("stss", 0, 0, be32(1), be32(1)),
			mkFullBox("ctts", 0, 0, be32(1), be32(n), be32(1024)),
			mkFullBox("stsc", 0, 0, be32(1), be32(1), be32(n), be32(1)),
			mkFullBox("stsz", 0, 0, be32(0), be32(n), sizes),
			mkFullBox("stco", 0, 0, be32(1), be32(chunkOffset)))
	}
	trak := mkBox("trak", tkhd, mkBox("mdia", mdhd, hdlr, mkBox("minf", vmhd, dinf, stbl)))
	if fragmented {
		mvex := mkBox("mvex", mkFullBox("trex", 0, 0, be32(trackID), be32(1), be32(0), be32(0), be32(0)))
		return mkBox("moov", mvhd, trak, mvex)
	}
	return mkBox("moov", mvhd, trak)
}

// mediaSegment writes styp + moof + mdat with one trun that lists every sample.
func (s *mp4Spec) mediaSegment(trackID uint32) []byte {
	styp := mkBox("styp", []byte("msdh"), be32(0), []byte("msdh"), []byte("msix"))
	var entries, data []byte
	for i, smp := range s.Samples {
		entries = append(entries, cat(be32(512), be32(uint32(len(smp))), be32(uint32(1024*(i%2))))...)
		data = append(data, smp...)
	}
	mk := func(dataOffset uint32) []byte {
		mfhd := mkFullBox("mfhd", 0, 0, be32(1))
		tfhd := mkFullBox("tfhd", 0, 0x020000, be32(trackID))
		tfdt := mkFullBox("tfdt", 1, 0, be64(0))
		trun := mkFullBox("trun", 0, 0x000b01, be32(uint32(len(s.Samples))), be32(dataOffset), entries)
		return mkBox("moof", mfhd, mkBox("traf", tfhd, tfdt, trun))
	}
	moof := mk(0)
	moof = mk(uint32(len(moof) + 8))
	return cat(styp, moof, mkBox("mdat", data))
}

// realMP4 is one of /repo's test files prepared for in-place replacement.
type realMP4 struct {
	name     string
	raw      []byte
	fragInit bool   // init segment: a media segment is appended
	trackID  uint32 // fragInit
	entry    string
	sampOff  []int // progressive: offset and size of the first samples (one chunk)
	sampSize []int
}

var realMP4s = map[string][]*realMP4{} // by codec

// loadRealMP4s reads the repo's small AVC / HEVC mp4 files (missing files only
// remove the frame) and locates what will be replaced with the independent walker.
func loadRealMP4s(env *runner.Env) {
	realMP4s = map[string][]*realMP4{}
	for _, f := range []struct {
		path, codec string
		init        bool
	}{
		{"cmd/mp4ff-nallister/testdata/h264.mp4", "avc", false},
		{"cmd/mp4ff-nallister/testdata/hevc.mp4", "hevc", false},
		{"mp4/testdata/init.mp4", "avc", true},
		{"mp4/testdata/hvc1_init.mp4", "hevc", true},
	} {
		raw, err := os.ReadFile(filepath.Join(env.RepoDir, f.path))
		if err != nil || len(raw) > 20000 {
			continue
		}
		nodes, err := boxwalk.Walk(raw)
		if err != nil {
			continue
		}
		cfgT := "avcC"
		if f.codec == "hevc" {
			cfgT = "hvcC"
		}
		cfg := boxwalk.Find(nodes, cfgT)
		if len(cfg) != 1 || cfg[0].Parent == nil {
			continue
		}
		rm := &realMP4{name: f.path, raw: raw, fragInit: f.init, entry: cfg[0].Parent.Type}
		trak := cfg[0]
		for trak != nil && trak.Type != "trak" {
			trak = trak.Parent
		}
		if trak == nil {
			continue
		}
		if tk := trak.Child("tkhd"); tk != nil {
			p := tk.Payload(raw)
			if len(p) >= 16 && p[0] == 0 {
				rm.trackID = binary.BigEndian.Uint32(p[12:])
			}
		}
		if f.init {
			if rm.trackID == 0 {
				continue
			}
			realMP4s[f.codec] = append(realMP4s[f.codec], rm)
			continue
		}
		stbl := trak.Descend("mdia", "minf", "stbl")
		if stbl == nil || stbl.Child("stco") == nil || stbl.Child("stsz") == nil || stbl.Child("stsc") == nil {
			continue
		}
		co := stbl.Child("stco").Payload(raw)
		sz := stbl.Child("stsz").Payload(raw)
		sc := stbl.Child("stsc").Payload(raw)
		if len(co) < 12 || len(sz) < 12+8 || len(sc) < 20 || binary.BigEndian.Uint32(sz[4:]) != 0 {
			continue
		}
		perChunk := int(binary.BigEndian.Uint32(sc[12:]))
		off := int(binary.BigEndian.Uint32(co[8:]))
		for i := 0; i < 2 && i < perChunk && 12+4*i+4 <= len(sz); i++ {
			n := int(binary.BigEndian.Uint32(sz[12+4*i:]))
			if off+n > len(raw) {
				break
			}
			rm.sampOff = append(rm.sampOff, off)
			rm.sampSize = append(rm.sampSize, n)
			off += n
		}
		if len(rm.sampOff) == 0 {
			continue
		}
		realMP4s[f.codec] = append(realMP4s[f.codec], rm)
	}
}

func (s *mp4Spec) real() *realMP4 {
	for _, rm := range realMP4s[s.codec()] {
		if rm.fragInit == (s.Frame == "real-init-frag") {
			return rm
		}
	}
	return nil
}

// fitSample makes a hostile sample exactly n bytes long: a longer one is cut,
// a shorter one is followed by one filler NAL unit (or by ff bytes when fewer
// than 6 bytes are left).
func fitSample(smp []byte, n int, codec string) []byte {
	if len(smp) >= n {
		return cp(smp[:n])
	}
	o := cp(smp)
	left := n - len(o)
	if left < 6 {
		for len(o) < n {
			o = append(o, 0xff)
		}
		return o
	}
	o = append(o, be32(uint32(left-4))...)
	if codec == "avc" {
		o = append(o, 0x0c) // filler data
	} else {
		o = append(o, 0x4c, 0x01) // FD_NUT
	}
	for len(o) < n {
		o = append(o, 0xff)
	}
	return o
}

// replaceBox replaces the box n of file by repl (nil: removes it) and adjusts
// the size fields of all ancestors and, when an mdat follows the box, every
// 32-bit chunk offset.
func replaceBox(file []byte, nodes []*boxwalk.Node, n *boxwalk.Node, repl []byte) ([]byte, bool) {
	delta := len(repl) - n.Size
	out := cat(file[:n.Start], repl, file[n.End():])
	for a := n.Parent; a != nil; a = a.Parent {
		if a.Large {
			return nil, false
		}
		binary.BigEndian.PutUint32(out[a.Start:], uint32(a.Size+delta))
	}
	if delta == 0 {
		return out, true
	}
	shift := false
	for _, m := range nodes {
		if m.Type == "mdat" && m.Start > n.Start {
			shift = true
		}
	}
	if !shift {
		return out, true
	}
	if len(boxwalk.Find(nodes, "co64")) > 0 {
		return nil, false
	}
	for _, st := range boxwalk.Find(nodes, "stco") {
		pos := st.Start + st.HdrLen
		if st.Start > n.Start {
			pos += delta
		}
		cnt := int(binary.BigEndian.Uint32(out[pos+4:]))
		for i := 0; i < cnt && pos+8+4*i+4 <= len(out); i++ {
			p := pos + 8 + 4*i
			binary.BigEndian.PutUint32(out[p:], uint32(int(binary.BigEndian.Uint32(out[p:]))+delta))
		}
	}
	return out, true
}

// build writes the file. ok=false: the frame is not available (a test file of
// the repo is missing or has another shape): the caller falls back to a built frame.
func (s *mp4Spec) build() (file []byte, ok bool) {
	file, ok = s.buildValid()
	if !ok || s.Tbl == nil {
		return file, ok
	}
	file, s.tblWhat, ok = applyTbl(file, s.Tbl, s.TblVariant)
	return file, ok
}

// buildValid writes the file with consistent tables.
func (s *mp4Spec) buildValid() (file []byte, ok bool) {
	ftyp := mkBox("ftyp", []byte("isom"), be32(512), []byte("isom"), []byte("iso2"), []byte("avc1"), []byte("mp41"))
	var data []byte
	for _, smp := range s.Samples {
		data = append(data, smp...)
	}
	switch s.Frame {
	case "prog":
		moov := s.moov(1, false, 0)
		moov = s.moov(1, false, uint32(len(ftyp)+len(moov)+8))
		return cat(ftyp, moov, mkBox("mdat", data)), true
	case "prog-mdat-first":
		free := mkBox("free")
		return cat(ftyp, free, mkBox("mdat", data), s.moov(1, false, uint32(len(ftyp)+len(free)+8))), true
	case "frag":
		return cat(ftyp, s.moov(1, true, 0), s.mediaSegment(1)), true
	case "seg-only":
		return s.mediaSegment(1), true
	case "real-prog", "real-init-frag":
		rm := s.real()
		if rm == nil {
			return nil, false
		}
		nodes, err := boxwalk.Walk(rm.raw)
		if err != nil {
			return nil, false
		}
		out := cp(rm.raw)
		if !rm.fragInit {
			for i := range rm.sampOff {
				if i < len(s.Samples) {
					copy(out[rm.sampOff[i]:], fitSample(s.Samples[i], rm.sampSize[i], s.codec()))
				}
			}
		}
		if s.NoCfg || s.Config != nil {
			cfg := boxwalk.Find(nodes, s.cfgType())
			if len(cfg) != 1 {
				return nil, false
			}
			var repl []byte
			if !s.NoCfg {
				repl = mkBox(s.cfgType(), s.Config)
			}
			var good bool
			out, good = replaceBox(out, nodes, cfg[0], repl)
			if !good {
				return nil, false
			}
		}
		if rm.fragInit {
			out = append(out, s.mediaSegment(rm.trackID)...)
		}
		return out, true
	}
	return nil, false
}

// ---------------------------------------------------------------------------
// hostile configuration records

type cfgClass struct {
	name string
	// make returns the record payload (nil + absent=true: no configuration box)
	avc  func(r *runner.Rand, g psGroup) (rec []byte, absent bool)
	hevc func(r *runner.Rand, g psGroup) (rec []byte, absent bool)
}

// avcCRaw writes an avcC payload with every count / length field under the caller's control.
type avcCRaw struct {
	version, profile, level, lenByte byte
	numSPS, numPPS                   int // written counts (low 5 bits / byte)
	sps, pps                         [][]byte
	spsLen, ppsLen                   map[int]int // overrides of the written 16-bit lengths
	trailing                         []byte
}

func (a *avcCRaw) bytes() []byte {
	o := []byte{a.version, a.profile, 0, a.level, a.lenByte, 0xe0 | byte(a.numSPS&0x1f)}
	for i, u := range a.sps {
		l := len(u)
		if v, ok := a.spsLen[i]; ok {
			l = v
		}
		o = append(o, be16(l)...)
		o = append(o, u...)
	}
	o = append(o, byte(a.numPPS))
	for i, u := range a.pps {
		l := len(u)
		if v, ok := a.ppsLen[i]; ok {
			l = v
		}
		o = append(o, be16(l)...)
		o = append(o, u...)
	}
	return append(o, a.trailing...)
}

func baseAvcC(g psGroup) *avcCRaw {
	a := &avcCRaw{version: 1, profile: 100, level: 31, lenByte: 0xff, sps: [][]byte{g.sps[0]}, pps: [][]byte{g.pps[0]}, numSPS: 1, numPPS: 1,
		trailing: []byte{0xfd, 0xf8, 0xf8, 0}}
	if len(g.sps[0]) > 3 {
		a.profile, a.level = g.sps[0][1], g.sps[0][3]
	}
	if a.profile != 100 && a.profile != 110 && a.profile != 122 && a.profile != 144 {
		a.trailing = nil
	}
	return a
}

type hvcArr struct {
	typ   byte // written array byte (completeness bit included)
	num   int  // written numNalus
	nalus [][]byte
	lens  map[int]int
}

type hvcCRaw struct {
	hdr      []byte // 22 bytes before numOfArrays
	numArr   int
	arrays   []hvcArr
	trailing []byte
}

func (h *hvcCRaw) bytes() []byte {
	o := cp(h.hdr)
	o = append(o, byte(h.numArr))
	for _, a := range h.arrays {
		o = append(o, a.typ)
		o = append(o, be16(a.num)...)
		for i, u := range a.nalus {
			l := len(u)
			if v, ok := a.lens[i]; ok {
				l = v
			}
			o = append(o, be16(l)...)
			o = append(o, u...)
		}
	}
	return append(o, h.trailing...)
}

var hvcCHdr = []byte{1, 0x01, 0x60, 0, 0, 0, 0x90, 0, 0, 0, 0, 0, 93, 0xf0, 0, 0xfc, 0xfd, 0xf8, 0xf8, 0, 0, 0x0f}

func baseHvcC(g psGroup) *hvcCRaw {
	h := &hvcCRaw{hdr: cp(hvcCHdr)}
	add := func(t byte, l [][]byte) {
		if len(l) > 0 {
			h.arrays = append(h.arrays, hvcArr{typ: 0x80 | t, num: 1, nalus: [][]byte{l[0]}})
		}
	}
	add(32, g.vps)
	add(33, g.sps)
	add(34, g.pps)
	h.numArr = len(h.arrays)
	return h
}

// shortPS: a parameter set cut to its first k bytes (k = 0 .. len-1).
func shortPS(r *runner.Rand, u []byte) []byte {
	if len(u) == 0 {
		return nil
	}
	k := r.Intn(len(u))
	if r.Bool() && k > 6 {
		k = r.Intn(6)
	}
	return cp(u[:k])
}

func otherUnit(r *runner.Rand, codec string) []byte {
	u := seeds.pick(r, codec+"-slice", codec+"-sei", codec+"-pps").b
	if len(u) > 200 {
		u = u[:200]
	}
	return u
}

var cfgClasses = []cfgClass{
	{"valid",
		func(r *runner.Rand, g psGroup) ([]byte, bool) { return baseAvcC(g).bytes(), false },
		func(r *runner.Rand, g psGroup) ([]byte, bool) { return baseHvcC(g).bytes(), false }},
	{"absent",
		func(r *runner.Rand, g psGroup) ([]byte, bool) { return nil, true },
		func(r *runner.Rand, g psGroup) ([]byte, bool) { return nil, true }},
	{"zero-sps", // avcC: no SPS, PPS kept; hvcC: no SPS array
		func(r *runner.Rand, g psGroup) ([]byte, bool) {
			a := baseAvcC(g)
			a.sps, a.numSPS = nil, 0
			return a.bytes(), false
		},
		func(r *runner.Rand, g psGroup) ([]byte, bool) {
			h := baseHvcC(g)
			var l []hvcArr
			for _, a := range h.arrays {
				if a.typ&0x3f != 33 {
					l = append(l, a)
				}
			}
			h.arrays, h.numArr = l, len(l)
			return h.bytes(), false
		}},
	{"zero-sps-zero-pps", // avcC without parameter sets (legal for avc3); hvcC without arrays
		func(r *runner.Rand, g psGroup) ([]byte, bool) {
			a := baseAvcC(g)
			a.sps, a.numSPS, a.pps, a.numPPS = nil, 0, nil, 0
			return a.bytes(), false
		},
		func(r *runner.Rand, g psGroup) ([]byte, bool) {
			h := baseHvcC(g)
			h.arrays, h.numArr = nil, 0
			return h.bytes(), false
		}},
	{"zero-pps", // avcC: SPS only; hvcC: VPS only
		func(r *runner.Rand, g psGroup) ([]byte, bool) {
			a := baseAvcC(g)
			a.pps, a.numPPS = nil, 0
			return a.bytes(), false
		},
		func(r *runner.Rand, g psGroup) ([]byte, bool) {
			h := baseHvcC(g)
			h.arrays, h.numArr = h.arrays[:1], 1
			return h.bytes(), false
		}},
	{"no-vps", // hvcC with SPS + PPS only; avcC: PPS first slot empty list but count 1 of a 0-byte PPS
		func(r *runner.Rand, g psGroup) ([]byte, bool) {
			a := baseAvcC(g)
			a.pps = [][]byte{{}}
			return a.bytes(), false
		},
		func(r *runner.Rand, g psGroup) ([]byte, bool) {
			h := baseHvcC(g)
			if len(h.arrays) > 1 {
				h.arrays = h.arrays[1:]
			}
			h.numArr = len(h.arrays)
			return h.bytes(), false
		}},
	{"arrays-without-nalus", // hvcC: every array announces 0 NAL units; avcC: counts 0 but the sets still follow as trailing bytes
		func(r *runner.Rand, g psGroup) ([]byte, bool) {
			a := baseAvcC(g)
			a.numSPS, a.numPPS = 0, 0
			return a.bytes(), false
		},
		func(r *runner.Rand, g psGroup) ([]byte, bool) {
			h := baseHvcC(g)
			for i := range h.arrays {
				h.arrays[i].num, h.arrays[i].nalus = 0, nil
			}
			return h.bytes(), false
		}},
	{"count-beyond-data", // more sets / arrays / NAL units announced than present
		func(r *runner.Rand, g psGroup) ([]byte, bool) {
			a := baseAvcC(g)
			if r.Bool() {
				a.numSPS = r.PickInt(2, 3, 31)
			} else {
				a.numPPS = r.PickInt(2, 3, 255)
			}
			if r.Bool() {
				a.trailing = nil
			}
			return a.bytes(), false
		},
		func(r *runner.Rand, g psGroup) ([]byte, bool) {
			h := baseHvcC(g)
			if r.Bool() {
				h.numArr = r.PickInt(len(h.arrays)+1, 255)
			} else {
				i := r.Intn(len(h.arrays))
				h.arrays[i].num = r.PickInt(2, 255, 65535)
			}
			return h.bytes(), false
		}},
	{"length-beyond-data", // a 16-bit length field that points behind the record
		func(r *runner.Rand, g psGroup) ([]byte, bool) {
			a := baseAvcC(g)
			v := r.PickInt(0xffff, 0x8000, len(a.sps[0])+1, len(a.sps[0])+len(a.pps[0])+8)
			if r.Bool() {
				a.spsLen = map[int]int{0: v}
			} else {
				a.ppsLen = map[int]int{0: r.PickInt(0xffff, len(a.pps[0])+1, len(a.pps[0])+5)}
				a.trailing = nil
			}
			return a.bytes(), false
		},
		func(r *runner.Rand, g psGroup) ([]byte, bool) {
			h := baseHvcC(g)
			i := r.Intn(len(h.arrays))
			h.arrays[i].lens = map[int]int{0: r.PickInt(0xffff, 0x8000, len(h.arrays[i].nalus[0])+1)}
			return h.bytes(), false
		}},
	{"length-short", // a length field smaller than the unit: the rest is read as the next count / length
		func(r *runner.Rand, g psGroup) ([]byte, bool) {
			a := baseAvcC(g)
			a.spsLen = map[int]int{0: r.Intn(len(a.sps[0]))}
			return a.bytes(), false
		},
		func(r *runner.Rand, g psGroup) ([]byte, bool) {
			h := baseHvcC(g)
			i := r.Intn(len(h.arrays))
			h.arrays[i].lens = map[int]int{0: r.Intn(len(h.arrays[i].nalus[0]))}
			return h.bytes(), false
		}},
	{"empty-nalu", // a parameter set of length 0 inside the record
		func(r *runner.Rand, g psGroup) ([]byte, bool) {
			a := baseAvcC(g)
			switch r.Intn(3) {
			case 0:
				a.sps = [][]byte{{}}
			case 1:
				a.pps = [][]byte{{}}
			default:
				a.sps, a.pps = [][]byte{{}}, [][]byte{{}}
			}
			return a.bytes(), false
		},
		func(r *runner.Rand, g psGroup) ([]byte, bool) {
			h := baseHvcC(g)
			i := r.Intn(len(h.arrays))
			h.arrays[i].nalus = [][]byte{{}}
			if r.Chance(1, 3) {
				for k := range h.arrays {
					h.arrays[k].nalus = [][]byte{{}}
				}
			}
			return h.bytes(), false
		}},
	{"header-only-nalu", // parameter sets of 1 (avc) / 1..2 (hevc) bytes
		func(r *runner.Rand, g psGroup) ([]byte, bool) {
			a := baseAvcC(g)
			if r.Bool() {
				a.sps = [][]byte{{0x67}}
			} else {
				a.pps = [][]byte{{0x68}}
			}
			return a.bytes(), false
		},
		func(r *runner.Rand, g psGroup) ([]byte, bool) {
			h := baseHvcC(g)
			i := r.Intn(len(h.arrays))
			h.arrays[i].nalus = [][]byte{cp(h.arrays[i].nalus[0][:1+r.Intn(2)])}
			return h.bytes(), false
		}},
	{"short-ps", // truncated parameter sets inside an otherwise valid record
		func(r *runner.Rand, g psGroup) ([]byte, bool) {
			a := baseAvcC(g)
			if r.Chance(2, 3) {
				a.sps = [][]byte{shortPS(r, a.sps[0])}
			} else {
				a.pps = [][]byte{shortPS(r, a.pps[0])}
			}
			return a.bytes(), false
		},
		func(r *runner.Rand, g psGroup) ([]byte, bool) {
			h := baseHvcC(g)
			i := r.Intn(len(h.arrays))
			h.arrays[i].nalus = [][]byte{shortPS(r, h.arrays[i].nalus[0])}
			return h.bytes(), false
		}},
	{"hostile-ps", // mutated / forced-ue parameter sets inside a valid record
		func(r *runner.Rand, g psGroup) ([]byte, bool) {
			a := baseAvcC(g)
			if r.Chance(2, 3) {
				u, _ := mutatePS(r, a.sps[0], 1)
				a.sps = [][]byte{u}
			} else {
				u, _ := mutatePS(r, a.pps[0], 1)
				a.pps = [][]byte{u}
			}
			return a.bytes(), false
		},
		func(r *runner.Rand, g psGroup) ([]byte, bool) {
			h := baseHvcC(g)
			i := r.Intn(len(h.arrays))
			u, _ := mutatePS(r, h.arrays[i].nalus[0], 2)
			h.arrays[i].nalus = [][]byte{u}
			return h.bytes(), false
		}},
	{"hrd-sps", // AVC: hand-built SPS with VUI + HRD (pic_timing is decoded against it); HEVC: another stream's sets
		func(r *runner.Rand, g psGroup) ([]byte, bool) {
			a := baseAvcC(g)
			for k := 0; k < 8; k++ {
				sd := seeds.pick(r, "avc-sps")
				if strings.HasPrefix(sd.name, "handbuilt:") {
					a.sps = [][]byte{sd.b}
					break
				}
			}
			return a.bytes(), false
		},
		func(r *runner.Rand, g psGroup) ([]byte, bool) {
			h := baseHvcC(g)
			for i := range h.arrays {
				if h.arrays[i].typ&0x3f == 33 {
					h.arrays[i].nalus = [][]byte{seeds.pick(r, "hevc-sps").b}
				}
			}
			return h.bytes(), false
		}},
	{"wrong-type", // the SPS slot carries another NAL unit type; hvcC array types that do not match their content, types 0 and 63
		func(r *runner.Rand, g psGroup) ([]byte, bool) {
			a := baseAvcC(g)
			if r.Bool() {
				a.sps = [][]byte{otherUnit(r, "avc")}
			} else {
				a.sps, a.pps = a.pps, a.sps
			}
			return a.bytes(), false
		},
		func(r *runner.Rand, g psGroup) ([]byte, bool) {
			h := baseHvcC(g)
			i := r.Intn(len(h.arrays))
			switch r.Intn(3) {
			case 0:
				h.arrays[i].nalus = [][]byte{otherUnit(r, "hevc")}
			case 1:
				h.arrays[i].typ = byte(r.PickInt(0, 63, 0x80|39, 0x40|33, 34, 32))
			default:
				j := r.Intn(len(h.arrays))
				h.arrays[i].nalus, h.arrays[j].nalus = h.arrays[j].nalus, h.arrays[i].nalus
			}
			return h.bytes(), false
		}},
	{"many", // 31 SPS / 255 PPS; duplicated arrays, many NAL units per array
		func(r *runner.Rand, g psGroup) ([]byte, bool) {
			a := baseAvcC(g)
			if r.Bool() {
				for len(a.sps) < 31 {
					a.sps = append(a.sps, a.sps[0])
				}
				a.numSPS = 31
			} else {
				for len(a.pps) < 255 {
					a.pps = append(a.pps, a.pps[0])
				}
				a.numPPS = 255
			}
			return a.bytes(), false
		},
		func(r *runner.Rand, g psGroup) ([]byte, bool) {
			h := baseHvcC(g)
			if r.Bool() {
				h.arrays = append(h.arrays, h.arrays...)
				h.numArr = len(h.arrays)
			} else {
				i := r.Intn(len(h.arrays))
				for len(h.arrays[i].nalus) < 40 {
					h.arrays[i].nalus = append(h.arrays[i].nalus, h.arrays[i].nalus[0])
				}
				h.arrays[i].num = 40
			}
			return h.bytes(), false
		}},
	{"length-size", // lengthSizeMinusOne 0 / 1 / 2 (the tools walk the samples with 4-byte lengths regardless)
		func(r *runner.Rand, g psGroup) ([]byte, bool) {
			a := baseAvcC(g)
			a.lenByte = 0xfc | byte(r.Intn(3))
			if r.Bool() {
				a.lenByte &= 0x03 // reserved bits cleared too
			}
			return a.bytes(), false
		},
		func(r *runner.Rand, g psGroup) ([]byte, bool) {
			h := baseHvcC(g)
			h.hdr[21] = h.hdr[21]&0xfc | byte(r.Intn(3))
			return h.bytes(), false
		}},
	{"header-variants", // configurationVersion 0 / 2 / 255, profile with / without the High-profile trailer, a cut trailer
		func(r *runner.Rand, g psGroup) ([]byte, bool) {
			a := baseAvcC(g)
			switch r.Intn(4) {
			case 0:
				a.version = byte(r.PickInt(0, 2, 255))
			case 1:
				a.profile, a.trailing = 100, nil
			case 2:
				a.profile, a.trailing = 100, []byte{0xfd, 0xf8, 0xf8, 0}[:1+r.Intn(3)]
			default:
				a.profile, a.trailing = 100, []byte{0xfd, 0xf8, 0xf8, byte(r.PickInt(1, 2, 255))}
			}
			return a.bytes(), false
		},
		func(r *runner.Rand, g psGroup) ([]byte, bool) {
			h := baseHvcC(g)
			if r.Bool() {
				h.hdr[0] = byte(r.PickInt(0, 2, 255))
			} else {
				h.trailing = r.Bytes(1 + r.Intn(5))
			}
			return h.bytes(), false
		}},
	{"truncated", // the record cut after k bytes (k = 0 .. len-1)
		func(r *runner.Rand, g psGroup) ([]byte, bool) {
			b := baseAvcC(g).bytes()
			k := r.Intn(len(b))
			if r.Bool() {
				k = r.Intn(9)
			}
			return cp(b[:k]), false
		},
		func(r *runner.Rand, g psGroup) ([]byte, bool) {
			b := baseHvcC(g).bytes()
			k := r.Intn(len(b))
			if r.Bool() {
				k = r.Intn(28)
			}
			return cp(b[:k]), false
		}},
	{"mutated", // random byte-level damage of the whole record
		func(r *runner.Rand, g psGroup) ([]byte, bool) {
			b, _ := mutate(r, baseAvcC(g).bytes())
			return b, false
		},
		func(r *runner.Rand, g psGroup) ([]byte, bool) {
			b, _ := mutate(r, baseHvcC(g).bytes())
			return b, false
		}},
}

// ---------------------------------------------------------------------------
// hostile samples (length-prefixed NAL units)

type smpClass struct {
	name string
	make func(r *runner.Rand, codec string, g psGroup) [][]byte
}

func clip(u []byte, n int) []byte {
	if len(u) > n {
		return u[:n]
	}
	return u
}

// validUnits: parameter sets, an SEI unit and slices of one stream (slices cut to 160 bytes: the tools read headers).
func validUnits(r *runner.Rand, codec string, g psGroup, inband bool) [][]byte {
	var u [][]byte
	if inband {
		if codec == "hevc" && len(g.vps) > 0 {
			u = append(u, g.vps[0])
		}
		u = append(u, g.sps[0], g.pps[0])
	}
	if len(g.seis) > 0 {
		u = append(u, clip(g.seis[r.Intn(len(g.seis))], 300))
	} else {
		u = append(u, clip(seeds.pick(r, codec+"-sei").b, 300))
	}
	if len(g.slices) > 0 {
		u = append(u, clip(g.slices[0], 160))
	}
	return u
}

func secondSample(r *runner.Rand, codec string, g psGroup) []byte {
	if len(g.slices) > 1 {
		return annexb.BuildSample([][]byte{clip(g.slices[1+r.Intn(len(g.slices)-1)], 160)})
	}
	return annexb.BuildSample([][]byte{clip(seeds.pick(r, codec+"-slice").b, 160)})
}

func headerBytes(codec string) [][]byte {
	if codec == "avc" {
		return [][]byte{{0x67}, {0x68}, {0x65}, {0x41}, {0x06}, {0x09}, {0x0c}, {0x00}, {0x1f}, {0xff}}
	}
	return [][]byte{{0x40, 0x01}, {0x42, 0x01}, {0x44, 0x01}, {0x4e, 0x01}, {0x50, 0x01}, {0x26, 0x01}, {0x02, 0x01}, {0x46, 0x01}, {0x00, 0x00}, {0x7e, 0x07}, {0xff, 0xff}}
}

func hostileSEI(r *runner.Rand, codec string) []byte {
	t := seiShortTypes[r.Intn(len(seiShortTypes))]
	l := r.Intn(seiShortMaxLen + 1)
	pl := make([]byte, l)
	switch r.Intn(4) {
	case 0:
	case 1:
		for i := range pl {
			pl[i] = 0xff
		}
	case 2:
		for _, sd := range seeds.kind("sei-payload") {
			if sd.typ == t {
				copy(pl, sd.b)
			}
		}
	default:
		copy(pl, r.Bytes(l))
	}
	switch r.Intn(4) {
	case 0: // declared size exceeds the data
		body := append(ffRun(t), ffRun(uint(l+1+r.Intn(600)))...)
		body = append(body, pl...)
		return seiFrame(codec, body)
	case 1: // a long ff run as size, nothing behind it
		body := append(ffRun(t), ffRun(uint(255*(1+r.Intn(40))))...)
		if r.Bool() {
			body = append(body, pl...)
		}
		return seiFrame(codec, body)
	}
	return seiNAL(codec, []seiMsg{{t, pl}}, r.Bool())
}

func seiFrame(codec string, body []byte) []byte {
	if codec == "avc" {
		return append([]byte{0x06}, body...)
	}
	return append([]byte{0x4e, 0x01}, body...)
}

var smpClasses = []smpClass{
	{"valid", func(r *runner.Rand, codec string, g psGroup) [][]byte {
		return [][]byte{annexb.BuildSample(validUnits(r, codec, g, true)), secondSample(r, codec, g)}
	}},
	{"zero-length-nalu", func(r *runner.Rand, codec string, g psGroup) [][]byte {
		// a 4-byte length field of 0 at the start / in the middle / at the end of an otherwise valid sample, or alone
		u := validUnits(r, codec, g, r.Bool())
		switch r.Intn(5) {
		case 0:
			u = append([][]byte{{}}, u...)
		case 1:
			k := 1 + r.Intn(len(u)-1)
			u = append(u[:k:k], append([][]byte{{}}, u[k:]...)...)
		case 2:
			u = append(u, []byte{})
		case 3:
			u = [][]byte{{}}
		default:
			u = [][]byte{{}, {}, {}}
		}
		s2 := secondSample(r, codec, g)
		if r.Chance(1, 3) {
			return [][]byte{annexb.BuildSample(validUnits(r, codec, g, true)), annexb.BuildSample(u)}
		}
		return [][]byte{annexb.BuildSample(u), s2}
	}},
	{"header-only-nalus", func(r *runner.Rand, codec string, g psGroup) [][]byte {
		// NAL units of 1 byte (avc) / 1..2 bytes (hevc) of every type
		var u [][]byte
		hb := headerBytes(codec)
		for k := 0; k < 1+r.Intn(5); k++ {
			h := hb[r.Intn(len(hb))]
			u = append(u, cp(h[:1+r.Intn(len(h))]))
		}
		if r.Bool() {
			u = append(validUnits(r, codec, g, false), u...)
		}
		return [][]byte{annexb.BuildSample(u), secondSample(r, codec, g)}
	}},
	{"lenprefix", func(r *runner.Rand, codec string, g psGroup) [][]byte {
		s, _ := lenPrefixSample(r, codec)
		return [][]byte{s, secondSample(r, codec, g)}
	}},
	{"tiny-sample", func(r *runner.Rand, codec string, g psGroup) [][]byte {
		b := r.Bytes(r.Intn(8))
		if r.Bool() {
			for i := range b {
				b[i] = []byte{0, 0xff}[r.Intn(2)]
			}
		}
		if r.Bool() {
			return [][]byte{b, secondSample(r, codec, g)}
		}
		return [][]byte{annexb.BuildSample(validUnits(r, codec, g, true)), b}
	}},
	{"mutated-units", func(r *runner.Rand, codec string, g psGroup) [][]byte {
		u := validUnits(r, codec, g, true)
		for k := 0; k < 1+r.Intn(2); k++ {
			i := r.Intn(len(u))
			u[i], _ = mutate(r, u[i])
		}
		return [][]byte{annexb.BuildSample(u), secondSample(r, codec, g)}
	}},
	{"hostile-sei", func(r *runner.Rand, codec string, g psGroup) [][]byte {
		// SEI units with payloads shorter than their fixed headers, sizes beyond the data, ff-run sizes; behind the stream's own parameter sets
		u := validUnits(r, codec, g, r.Bool())
		for k := 0; k < 1+r.Intn(3); k++ {
			u = append(u, hostileSEI(r, codec))
		}
		return [][]byte{annexb.BuildSample(u), annexb.BuildSample([][]byte{hostileSEI(r, codec)})}
	}},
	{"hostile-inband-ps", func(r *runner.Rand, codec string, g psGroup) [][]byte {
		// in-band parameter sets mutated / with forced Exp-Golomb codes, then pic_timing SEI and a slice (the tool parses the SPS and decodes SEI against it)
		hdr := 1
		if codec == "hevc" {
			hdr = 2
		}
		sps, _ := mutatePS(r, g.sps[0], hdr)
		if codec == "avc" && r.Bool() {
			for k := 0; k < 8; k++ {
				sd := seeds.pick(r, "avc-sps")
				if strings.HasPrefix(sd.name, "handbuilt:") {
					sps = sd.b
					if r.Bool() {
						sps, _ = mutatePS(r, sps, 1)
					}
					break
				}
			}
		}
		pps := g.pps[0]
		if r.Chance(1, 3) {
			pps, _ = mutatePS(r, pps, hdr)
		}
		u := [][]byte{sps, pps, clip(seeds.pick(r, codec+"-sei").b, 300), clip(seeds.pick(r, codec+"-sei").b, 300)}
		if len(g.slices) > 0 {
			u = append(u, clip(g.slices[0], 160))
		}
		return [][]byte{annexb.BuildSample(u), secondSample(r, codec, g)}
	}},
	{"const-units", func(r *runner.Rand, codec string, g psGroup) [][]byte {
		var u [][]byte
		for k := 0; k < 1+r.Intn(3); k++ {
			h := constHdrs[r.Intn(len(constHdrs))]
			b := cp(h)
			f := constFill[r.Intn(len(constFill))]
			for i, l := 0, r.Intn(65); i < l; i++ {
				b = append(b, f)
			}
			u = append(u, b)
		}
		return [][]byte{annexb.BuildSample(u), secondSample(r, codec, g)}
	}},
	{"empty-sample", func(r *runner.Rand, codec string, g psGroup) [][]byte {
		if r.Bool() {
			return [][]byte{{}, secondSample(r, codec, g)}
		}
		return [][]byte{annexb.BuildSample(validUnits(r, codec, g, true)), {}}
	}},
	{"cut-sample", func(r *runner.Rand, codec string, g psGroup) [][]byte {
		s := annexb.BuildSample(validUnits(r, codec, g, true))
		return [][]byte{cp(s[:r.Intn(len(s))]), secondSample(r, codec, g)}
	}},
	{"other-codec", func(r *runner.Rand, codec string, g psGroup) [][]byte {
		// samples of the other codec under this sample entry
		oc := "hevc"
		if codec == "hevc" {
			oc = "avc"
		}
		groups := mp4Groups(oc)
		if len(groups) == 0 {
			return [][]byte{annexb.BuildSample(validUnits(r, codec, g, true)), secondSample(r, codec, g)}
		}
		og := groups[r.Intn(len(groups))]
		return [][]byte{annexb.BuildSample(validUnits(r, oc, og, true)), secondSample(r, oc, og)}
	}},
}

var mp4Frames = []string{"prog", "prog-mdat-first", "frag", "seg-only", "real-prog", "real-init-frag"}

// mp4Groups: streams that have everything a file needs.
func mp4Groups(codec string) []psGroup {
	var o []psGroup
	src := seeds.avcGroups
	if codec == "hevc" {
		src = seeds.hevcGroups
	}
	for _, g := range src {
		if len(g.sps) == 0 || len(g.pps) == 0 || len(g.slices) == 0 || (codec == "hevc" && len(g.vps) == 0) {
			continue
		}
		o = append(o, g)
	}
	return o
}

// mp4SysCount: the systematic part of the mp4-tool plan: codec x frame x
// (every configuration class with valid samples + every sample class with a
// valid record + every sample class with a record without parameter sets).
func mp4SysCount() int {
	return 2 * len(mp4Frames) * (len(cfgClasses) + 2*len(smpClasses))
}

// plan of the mp4-tool generator: [systematic record/sample classes][systematic table classes][random]
func mp4RandCount(thorough bool) int {
	if thorough {
		return 16000
	}
	return 1200
}

func mp4ToolCount(thorough bool) int {
	return mp4SysCount() + len(tblSys) + mp4RandCount(thorough)
}

type mp4Case struct {
	spec      *mp4Spec
	cfgClass  string
	smpClass  string
	tblClass  string // "none" or the table class
	desc      string
	usedFrame string
}

// tblSamples: valid samples for the table cases: parameter sets + SEI + slice, then two more slices
// (three samples, so that first / second / last are different samples).
func tblSamples(r *runner.Rand, codec string, g psGroup) [][]byte {
	return [][]byte{annexb.BuildSample(validUnits(r, codec, g, true)), secondSample(r, codec, g), secondSample(r, codec, g)}
}

// genMP4 lays out case sub of the mp4-tool plan.
func genMP4(r *runner.Rand, sub int) *mp4Case {
	var codec, frame string
	var cc *cfgClass
	var sc *smpClass
	per := len(cfgClasses) + 2*len(smpClasses)
	psless := false
	var tc *tblClass
	tv := 0
	if sub >= mp4SysCount() && sub < mp4SysCount()+len(tblSys) {
		// systematic table part: class x variant x frame x codec; the record carries no parameter sets (or is absent), so that
		// mp4ff-pslister too goes to the samples; mp4ff-nallister finds the SPS in the first sample
		ts := tblSys[sub-mp4SysCount()]
		codec, frame, tc, tv = ts.codec, ts.frame, ts.class, ts.variant
		cc, sc = &cfgClasses[3], &smpClasses[0]
		if r.Bool() {
			cc = &cfgClasses[1]
		}
	} else if sub >= mp4SysCount() && r.Chance(1, 4) {
		// random table part: any class, any variant, a valid record in half of the cases
		tc = &tblClasses[r.Intn(len(tblClasses))]
		tv = r.Intn(tc.nvar * 3)
		fr := tblFrames(tc.kind)
		codec, frame = r.PickStr("avc", "hevc"), fr[r.Intn(len(fr))]
		cc, sc = &cfgClasses[r.PickInt(0, 0, 1, 3)], &smpClasses[0]
	} else if sub < mp4SysCount() {
		codec = []string{"avc", "hevc"}[sub%2]
		frame = mp4Frames[(sub/2)%len(mp4Frames)]
		k := (sub / 2 / len(mp4Frames)) % per
		switch {
		case k < len(cfgClasses):
			cc, sc = &cfgClasses[k], &smpClasses[0]
		case k < len(cfgClasses)+len(smpClasses):
			cc, sc = &cfgClasses[0], &smpClasses[k-len(cfgClasses)]
		default:
			cc, sc = &cfgClasses[3], &smpClasses[k-len(cfgClasses)-len(smpClasses)] // record without parameter sets: the tools look for them in the samples
			psless = true
			if r.Bool() {
				cc = &cfgClasses[1] // no configuration box at all
			}
		}
	} else {
		codec = r.PickStr("avc", "hevc")
		frame = mp4Frames[r.Intn(len(mp4Frames))]
		cc = &cfgClasses[r.Intn(len(cfgClasses))]
		sc = &smpClasses[r.Intn(len(smpClasses))]
		if r.Chance(1, 3) {
			cc = &cfgClasses[r.PickInt(0, 0, 1, 2, 3)]
		}
	}
	_ = psless
	groups := mp4Groups(codec)
	if len(groups) == 0 {
		return nil
	}
	g := groups[r.Intn(len(groups))]
	spec := &mp4Spec{Frame: frame}
	if codec == "avc" {
		spec.Entry = r.PickStr("avc1", "avc3")
		spec.Config, spec.NoCfg = cc.avc(r, g)
	} else {
		spec.Entry = r.PickStr("hvc1", "hev1")
		spec.Config, spec.NoCfg = cc.hevc(r, g)
	}
	if spec.Config == nil && !spec.NoCfg {
		spec.Config = []byte{}
	}
	spec.Samples = sc.make(r, codec, g)
	mc := &mp4Case{spec: spec, cfgClass: cc.name, smpClass: sc.name, tblClass: "none", usedFrame: frame}
	if tc != nil {
		spec.Samples = tblSamples(r, codec, g)
		spec.Tbl, spec.TblVariant = tc, tv
		mc.tblClass = tc.name
	}
	if _, ok := spec.build(); !ok {
		// a test file of the repo is missing (or has another shape than the table class needs): same content in a built frame
		if fb, has := map[string]string{"real-prog": "prog-mdat-first", "real-init-frag": "frag"}[frame]; has {
			spec.Frame = fb
			mc.usedFrame = spec.Frame + "(fallback)"
		}
	}
	mc.desc = fmt.Sprintf("mp4-tool: %s %s file, sample entry %s, %s record: %s, samples: %s (parameter sets and slices of %s)", codec, spec.Frame, spec.Entry, spec.cfgType(), cc.name, sc.name, g.name)
	if tc != nil {
		_, _ = spec.build()
		mc.desc += fmt.Sprintf("; one table field hostile, the rest of the container consistent: %s = %s", tc.name, spec.tblWhat)
	}
	return mc
}
