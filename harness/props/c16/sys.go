package c16

// Systematic plans.
//
// chain-ue: for every parameter-set context ("stream": one SPS + one PPS +
// ordinary slices and SEI units that parse against them) an Exp-Golomb code
// with an extreme value is written at every data bit position of the SPS and
// of the PPS (the code that starts at that position - as an independent
// reader sees it - is replaced, the rest of the RBSP keeps its alignment, the
// rbsp_trailing_bits are rebuilt). The hostile set is parsed in the probe;
// when the library accepts it, every dependent parser runs with it: the
// slices of the stream (P/B/I, with and without num_ref_idx_active_override),
// ParsePPSNALUnit against a hostile SPS, the protect-range helpers, the SEI
// parsers with a hostile SPS, the SPS methods and the configuration-record
// constructors. Streams: the Annex B test files of the repo, parameter sets of
// the repo's test literals, the hand-built sets of seeds.go, and sets drawn
// from the independent serializers ref/h264 and ref/h265 (fixed generator
// seeds) with the flag combinations that activate dependent loops forced on
// (weighted prediction, every slice group map type, redundant_pic_cnt, field
// coding, long-term references, tiles, entropy sync, lists modification,
// slice header extension, sub-picture HRD ...).
//
// One chain-ue case holds all variants of one position (the forced values,
// among them the long-prefix values of hostile.go, and the bit flip): they go
// to the probe in one request, each is parsed and followed by the same
// dependent units. For the ref contexts every recorded syntax element is also
// forced as a fixed-width number (all ones, plus one).
//
// sei-ue: the same forced codes at every bit position of every SEI payload
// seed and of HEVC pic_timing payloads laid out for every external-parameter
// set, handed to the decoders with every external-parameter set and framed as
// NAL units for ParseSEINalu with every hand-built SPS.

import (
	"encoding/hex"
	"fmt"
	"strings"

	"github.com/Eyevinn/mp4ff/avc"
	"github.com/Eyevinn/mp4ff/hevc"
	"github.com/Eyevinn/mp4ff/sei"

	"verifharness/ref/annexb"
	"verifharness/ref/bitw"
	"verifharness/ref/h264"
	"verifharness/ref/h265"
	"verifharness/runner"
)

// sysValues: the first sysPrimary values are used at every position in both
// tiers, the rest only in the thorough tier.
// The values from index 4 on need Exp-Golomb prefixes of 32..64 zero bits
// (see putUE).
var sysValues = []uint64{1<<32 - 1, 1 << 31, 1 << 16, 255, maxU64, 1 << 63, 1 << 32, 1<<33 - 1, 1<<32 - 2, 1<<31 - 1, 1 << 24, 65535, 256}

// sysInserted: how many of the values the thorough tier also inserts.
const sysInserted = 4

type sysStream struct {
	name     string
	codec    string // avc | hevc
	origin   string // real | literal | handbuilt | ref
	sps, pps []byte
	elems    [2]map[int]string // RBSP bit position -> syntax element that starts there (ref streams only)
	fields   [2][]fieldPos     // the syntax elements of two or more bits (ref streams only)
	slices   [][]byte
	// sliceLoops[i]: the count-/command-driven parts the header of slices[i] has (as the library parsed it: evidence only)
	sliceLoops [][]string
	// loopSlices: further slices of ref contexts with every loop the context permits forced on (ctx-trunc only)
	loopSlices     [][]byte
	loopSliceLoops [][]string
	seis           [][]byte
	features       []string
	loopCand       [][]byte // candidates for loopSlices (dropped by finishStream)
}

type sysTarget struct {
	stream int
	which  int // 0 SPS, 1 PPS
	npos   int // positions 0..npos-1 (data bits + 1, capped)
}

var (
	sysStreams   []sysStream
	sysTargets   []sysTarget
	sysTargetOff []int // prefix sums of positions
	sysPositions int
	sysPer       int // cases per position
	sysInfo      map[string]int
	// sysFixed: the syntax elements (>= 2 bits) of the parameter sets whose layout is known (ref contexts); each is
	// forced to all ones and incremented by one (two cases per element, after the per-position cases).
	sysFixed []sysFixedTarget
)

type sysFixedTarget struct {
	stream, which int
	f             fieldPos
}

func hdrLen(codec string) int {
	if codec == "hevc" {
		return 2
	}
	return 1
}

// rbspDataBits: number of bits before the rbsp_stop_one_bit.
func rbspDataBits(rbsp []byte) int {
	for i := len(rbsp) - 1; i >= 0; i-- {
		if rbsp[i] != 0 {
			b, tz := rbsp[i], 0
			for b&1 == 0 {
				b >>= 1
				tz++
			}
			return i*8 + 7 - tz
		}
	}
	return 0
}

func bitAt(b []byte, p int) byte { return (b[p>>3] >> uint(7-p&7)) & 1 }

// ueLenAt: length of the Exp-Golomb code an independent reader sees at bit
// pos of the first n bits (1 when it would not fit).
func ueLenAt(b []byte, pos, n int) int {
	lz := 0
	for p := pos; p < n && bitAt(b, p) == 0; p++ {
		lz++
	}
	if lz > 32 || pos+2*lz+1 > n {
		if pos < n {
			return 1
		}
		return 0
	}
	return 2*lz + 1
}

// forceUE writes ue(v) at data bit pos of the payload bits b[0:n]: replace
// (the code that starts there is dropped) or insert. Returns the writer
// positioned after the last data bit.
func forceUE(b []byte, n, pos int, v uint64, insert bool) *bitw.W {
	if pos > n {
		pos = n
	}
	w := &bitw.W{}
	for i := 0; i < pos; i++ {
		w.Put(uint64(bitAt(b, i)), 1)
	}
	putUE(w, v)
	from := pos
	if !insert {
		from += ueLenAt(b, pos, n)
	}
	for i := from; i < n; i++ {
		w.Put(uint64(bitAt(b, i)), 1)
	}
	return w
}

// forceUENAL applies forceUE to the RBSP of a NAL unit and rebuilds the
// trailing bits and the emulation prevention.
func forceUENAL(nal []byte, hdr, pos int, v uint64, insert bool) []byte {
	rbsp := bitw.Unescape(nal[hdr:])
	w := forceUE(rbsp, rbspDataBits(rbsp), pos, v, insert)
	w.TrailingBits()
	return append(cp(nal[:hdr]), bitw.Escape(w.Bytes())...)
}

func stripIdx(name string) string {
	if i := strings.IndexByte(name, '['); i >= 0 {
		return name[:i]
	}
	return name
}

func elemMap(c *h264.Coded) map[int]string {
	m := map[int]string{}
	for _, e := range c.Elems {
		if e.Len == 0 || strings.HasPrefix(e.Name, "#") {
			continue
		}
		if _, dup := m[e.Pos]; !dup {
			m[e.Pos] = stripIdx(e.Name)
		}
	}
	return m
}

// fieldPos is a syntax element of at least two bits as the serializer
// recorded it (fixed-width fields and Exp-Golomb codes alike).
type fieldPos struct {
	pos, n int
	name   string
}

func fieldList(c *h264.Coded) []fieldPos {
	var l []fieldPos
	seen := map[int]bool{}
	for _, e := range c.Elems {
		if e.Len < 2 || e.Len > 64 || strings.HasPrefix(e.Name, "#") || seen[e.Pos] {
			continue
		}
		seen[e.Pos] = true
		l = append(l, fieldPos{e.Pos, e.Len, stripIdx(e.Name)})
	}
	return l
}

// ---------------------------------------------------------------------------
// stream construction

func avcMapsFor(sps *avc.SPS, pps *avc.PPS) (map[uint32]*avc.SPS, map[uint32]*avc.PPS) {
	sm, pm := map[uint32]*avc.SPS{}, map[uint32]*avc.PPS{}
	for id := uint32(0); id < 32; id++ {
		sm[id] = sps
	}
	if pps != nil {
		for id := uint32(0); id < 256; id++ {
			pm[id] = pps
		}
	}
	return sm, pm
}

func hevcMapsFor(sps *hevc.SPS, pps *hevc.PPS) (map[uint32]*hevc.SPS, map[uint32]*hevc.PPS) {
	sm, pm := map[uint32]*hevc.SPS{}, map[uint32]*hevc.PPS{}
	for id := uint32(0); id < 16; id++ {
		sm[id] = sps
	}
	if pps != nil {
		for id := uint32(0); id < 64; id++ {
			pm[id] = pps
		}
	}
	return sm, pm
}

// finishStream validates the parameter sets with the library (they are
// well-formed seeds), keeps the candidate slices the library accepts against
// them (at most 2 per slice type/override class, 8 in total) and returns
// false when the sets themselves do not parse.
func finishStream(st *sysStream, cand [][]byte, maxSlices int) bool {
	seen := map[string]bool{}
	class := map[string]int{}
	add := func(u []byte, cl string, loops []string) {
		if len(st.slices) >= maxSlices || class[cl] >= 2 || seen[string(u)] {
			return
		}
		seen[string(u)] = true
		class[cl]++
		if len(u) > 400 {
			u = u[:400]
		}
		st.slices = append(st.slices, u)
		st.sliceLoops = append(st.sliceLoops, loops)
	}
	on := func(l []string, c bool, name string) []string {
		if c {
			return append(l, name)
		}
		return l
	}
	if st.codec == "avc" {
		sps := setupAVCSPS(st.sps)
		if sps == nil {
			return false
		}
		sm, _ := avcMapsFor(sps, nil)
		pps := setupAVCPPS(st.pps, sm)
		if pps == nil {
			return false
		}
		sm, pm := avcMapsFor(sps, pps)
		for _, u := range cand {
			sh := setupAVCSlice(u, [][]byte{st.sps, st.pps}, sm, pm)
			if sh == nil {
				continue
			}
			t := sh.SliceType % 5
			var lp []string
			lp = on(lp, sh.RefPicListModificationL0Flag, "ref_pic_list_modification_l0")
			lp = on(lp, sh.RefPicListModificationL1Flag, "ref_pic_list_modification_l1")
			lp = on(lp, pps.WeightedPredFlag && (t == 0 || t == 3) || pps.WeightedBipredIDC == 1 && t == 1, "pred_weight_table")
			lp = on(lp, sh.AdaptiveRefPicMarkingModeFlag, "dec_ref_pic_marking(adaptive)")
			lp = on(lp, pps.NumSliceGroupsMinus1 > 0 && pps.SliceGroupMapType >= 3 && pps.SliceGroupMapType <= 5, "slice_group_change_cycle")
			add(u, fmt.Sprintf("t%d-o%v-idr%v", t, sh.NumRefIdxActiveOverrideFlag, u[0]&0x1f == 5), lp)
		}
		for _, u := range st.loopCand {
			sh := setupAVCSlice(u, [][]byte{st.sps, st.pps}, sm, pm)
			if sh == nil || seen[string(u)] {
				continue
			}
			t := sh.SliceType % 5
			var lp []string
			lp = on(lp, sh.RefPicListModificationL0Flag, "ref_pic_list_modification_l0")
			lp = on(lp, sh.RefPicListModificationL1Flag, "ref_pic_list_modification_l1")
			lp = on(lp, pps.WeightedPredFlag && (t == 0 || t == 3) || pps.WeightedBipredIDC == 1 && t == 1, "pred_weight_table")
			lp = on(lp, sh.AdaptiveRefPicMarkingModeFlag, "dec_ref_pic_marking(adaptive)")
			lp = on(lp, pps.NumSliceGroupsMinus1 > 0 && pps.SliceGroupMapType >= 3 && pps.SliceGroupMapType <= 5, "slice_group_change_cycle")
			if len(u) > 400 {
				u = u[:400]
			}
			st.loopSlices = append(st.loopSlices, u)
			st.loopSliceLoops = append(st.loopSliceLoops, lp)
		}
		st.loopCand = nil
		if pps.WeightedPredFlag {
			st.features = append(st.features, "weighted_pred")
		}
		if pps.WeightedBipredIDC == 1 {
			st.features = append(st.features, "weighted_bipred_idc=1")
		}
		if pps.NumSliceGroupsMinus1 > 0 {
			st.features = append(st.features, fmt.Sprintf("slice_group_map_type=%d", pps.SliceGroupMapType))
		}
		if pps.RedundantPicCntPresentFlag {
			st.features = append(st.features, "redundant_pic_cnt")
		}
		if pps.PicScalingMatrixPresentFlag {
			st.features = append(st.features, "pps_scaling_lists")
		}
		if !sps.FrameMbsOnlyFlag {
			st.features = append(st.features, "field_coding")
		}
		st.features = append(st.features, fmt.Sprintf("poc_type=%d", sps.PicOrderCntType))
		if sps.VUI != nil && (sps.VUI.NalHrdParameters != nil || sps.VUI.VclHrdParameters != nil) {
			st.features = append(st.features, "vui_hrd")
		}
		if sps.SeparateColourPlaneFlag {
			st.features = append(st.features, "separate_colour_plane")
		}
		return true
	}
	sps := setupHEVCSPS(st.sps)
	if sps == nil {
		return false
	}
	sm, _ := hevcMapsFor(sps, nil)
	pps := setupHEVCPPS(st.pps, sm)
	if pps == nil {
		return false
	}
	sm, pm := hevcMapsFor(sps, pps)
	for _, u := range cand {
		sh := setupHEVCSlice(u, [][]byte{st.sps, st.pps}, sm, pm)
		if sh == nil {
			continue
		}
		var lp []string
		lp = on(lp, sh.RefPicListsModification != nil, "ref_pic_lists_modification")
		lp = on(lp, sh.PredWeightTable != nil, "pred_weight_table")
		lp = on(lp, sh.NumLongTermPics+uint(sh.NumLongTermSps) > 0, "long_term_pics")
		lp = on(lp, !sh.ShortTermRefPicSetSpsFlag && (sh.ShortTermRefPicSet.NumNegativePics+sh.ShortTermRefPicSet.NumPositivePics) > 0, "slice_local_st_ref_pic_set")
		lp = on(lp, sh.NumEntryPointOffsets > 0, "entry_point_offsets")
		lp = on(lp, sh.SegmentHeaderExtensionLength > 0, "slice_segment_header_extension")
		add(u, fmt.Sprintf("t%d-o%v-n%d-dep%v", sh.SliceType, sh.NumRefIdxActiveOverrideFlag, (u[0]>>1)&0x3f, sh.DependentSliceSegmentFlag), lp)
	}
	for _, u := range st.loopCand {
		sh := setupHEVCSlice(u, [][]byte{st.sps, st.pps}, sm, pm)
		if sh == nil || seen[string(u)] {
			continue
		}
		var lp []string
		lp = on(lp, sh.RefPicListsModification != nil, "ref_pic_lists_modification")
		lp = on(lp, sh.PredWeightTable != nil, "pred_weight_table")
		lp = on(lp, sh.NumLongTermPics+uint(sh.NumLongTermSps) > 0, "long_term_pics")
		lp = on(lp, !sh.ShortTermRefPicSetSpsFlag && (sh.ShortTermRefPicSet.NumNegativePics+sh.ShortTermRefPicSet.NumPositivePics) > 0, "slice_local_st_ref_pic_set")
		lp = on(lp, sh.NumEntryPointOffsets > 0, "entry_point_offsets")
		lp = on(lp, sh.SegmentHeaderExtensionLength > 0, "slice_segment_header_extension")
		if len(u) > 400 {
			u = u[:400]
		}
		st.loopSlices = append(st.loopSlices, u)
		st.loopSliceLoops = append(st.loopSliceLoops, lp)
	}
	st.loopCand = nil
	for _, f := range []struct {
		on   bool
		name string
	}{
		{pps.WeightedPredFlag, "weighted_pred"}, {pps.WeightedBipredFlag, "weighted_bipred"}, {pps.TilesEnabledFlag, "tiles"},
		{pps.EntropyCodingSyncEnabledFlag, "entropy_sync"}, {pps.ListsModificationPresentFlag, "lists_modification"},
		{pps.SliceSegmentHeaderExtensionPresentFlag, "slice_header_extension"}, {pps.NumExtraSliceHeaderBits > 0, "extra_slice_header_bits"},
		{pps.DependentSliceSegmentsEnabledFlag, "dependent_slices"}, {pps.RangeExtension != nil, "pps_range_ext"}, {pps.SccExtension != nil, "pps_scc_ext"},
		{sps.LongTermRefPicsPresentFlag, "long_term_refs"}, {sps.NumShortTermRefPicSets > 1, "several_st_rps"}, {sps.SampleAdaptiveOffsetEnabledFlag, "sao"},
		{sps.VUI != nil && sps.VUI.HrdParameters != nil, "vui_hrd"},
		{sps.VUI != nil && sps.VUI.HrdParameters != nil && sps.VUI.HrdParameters.SubPicHrdParamsPresentFlag, "sub_pic_hrd"},
		{sps.SccExtension != nil, "sps_scc_ext"}, {sps.SeparateColourPlaneFlag, "separate_colour_plane"},
	} {
		if f.on {
			st.features = append(st.features, f.name)
		}
	}
	return true
}

func fullAVCPWT(r *runner.Rand) *h264.PredWeightTable {
	w := &h264.PredWeightTable{LumaLog2WeightDenom: uint64(r.Intn(8)), ChromaLog2WeightDenom: uint64(r.Intn(8))}
	for i := 0; i < 32; i++ {
		e := h264.WeightEntry{LumaFlag: r.Bool(), ChromaFlag: r.Bool(), LumaWeight: int64(r.Range(-128, 127)), LumaOffset: int64(r.Range(-128, 127))}
		e.ChromaWeight = [2]int64{int64(r.Range(-128, 127)), int64(r.Range(-128, 127))}
		e.ChromaOffset = [2]int64{int64(r.Range(-128, 127)), int64(r.Range(-128, 127))}
		w.L0 = append(w.L0, e)
		w.L1 = append(w.L1, e)
	}
	return w
}

func setAVCSliceGroups(r *runner.Rand, p *h264.PPS, sps *h264.SPS, mapType uint64) {
	units := sps.PicSizeInMapUnits()
	if units < 8 {
		return
	}
	p.NumSliceGroupsMinus1 = uint64(r.Range(1, 7))
	p.SliceGroupMapType = mapType
	p.RunLengthMinus1, p.TopLeft, p.BottomRight, p.SliceGroupId = nil, nil, nil, nil
	n := int(p.NumSliceGroupsMinus1)
	switch mapType {
	case 0:
		for i := 0; i <= n; i++ {
			p.RunLengthMinus1 = append(p.RunLengthMinus1, uint64(r.Intn(int(units))))
		}
	case 2:
		for i := 0; i < n; i++ {
			br := uint64(r.Intn(int(units)))
			p.TopLeft = append(p.TopLeft, uint64(r.Intn(int(br)+1)))
			p.BottomRight = append(p.BottomRight, br)
		}
	case 3, 4, 5:
		p.SliceGroupChangeDirection = r.Bool()
		p.SliceGroupChangeRateMinus1 = uint64(r.Intn(int(units)))
	case 6:
		if units > 64 {
			units = 64 // a shorter map than the picture is still parseable (the count is coded)
		}
		for i := uint64(0); i < units; i++ {
			p.SliceGroupId = append(p.SliceGroupId, uint64(r.Intn(n+1)))
		}
	}
}

// refAVCStream draws one AVC context from ref/h264 with forced features.
func refAVCStream(i int) (sysStream, bool) {
	r := runner.NewRand(0xC16C16, 0xA7C, uint64(i))
	var sps *h264.SPS
	wantField := i%4 == 3
	for k := 0; k < 200; k++ {
		sps = h264.GenSPS(r, uint64(i%4), h264.GenOpt{SmallPicture: true})
		if sps.FrameMbsOnly != wantField && sps.PicSizeInMapUnits() >= 8 && (i%8 != 5 || sps.SeparatePlanes()) {
			break
		}
	}
	sps.PocType = uint64(i % 3)
	if i%4 == 1 {
		sps.VUI = h264.GenVUI(r, true)
		sps.VUI.NalHrd = h264.GenHRD(r)
		if i%8 == 1 {
			sps.VUI.VclHrd = h264.GenHRD(r)
		}
		sps.VUI.PicStructPresent = true
	}
	if i%3 != 0 {
		sps.ScalingMatrixPresent, sps.ScalingLists = false, nil // keeps most sets short
	}
	pps := h264.GenPPS(r, uint64(i%3), sps, h264.PPSOpt{NoSliceGroups: true})
	pps.WeightedPred = i&1 == 0
	pps.WeightedBipredIdc = uint64([]int{1, 1, 0, 2}[(i>>1)%4])
	pps.RedundantPicCntPresent = i%5 == 2
	pps.EntropyCodingMode = i%4 >= 2
	pps.NumRefIdxL0DefaultActiveMinus1 = uint64([]int{0, 2, 1, 5, 0, 31}[i%6])
	pps.NumRefIdxL1DefaultActiveMinus1 = uint64([]int{1, 0, 3, 0}[i%4])
	if i%2 == 1 {
		setAVCSliceGroups(r, pps, sps, []uint64{3, 0, 4, 2, 5, 6, 1}[(i/2)%7])
	}
	if i%4 != 0 {
		pps.PicScalingMatrixPresent, pps.ScalingLists = false, nil
	}
	cs, cp := sps.Encode(3), pps.Encode(sps, 3)
	st := sysStream{name: fmt.Sprintf("ref-avc-%02d", i), codec: "avc", origin: "ref", sps: cs.NAL, pps: cp.NAL}
	st.elems[0], st.elems[1] = elemMap(cs), elemMap(cp)
	st.fields[0], st.fields[1] = fieldList(cs), fieldList(cp)
	var cand [][]byte
	for _, f := range []struct {
		nal uint
		typ uint64
		ov  bool
	}{{1, 0, false}, {1, 1, false}, {5, 7, false}, {1, 5, true}, {1, 6, true}, {1, 3, false}, {1, 2, false}, {1, 0, false}, {1, 1, false}, {1, 8, true}, {5, 2, false}, {1, 4, false}} {
		for try := 0; try < 3; try++ {
			s := h264.GenSlice(r, sps, pps)
			s.NalUnitType, s.SliceType, s.NumRefIdxActiveOverride = f.nal, f.typ, f.ov
			if f.nal == 5 && s.NalRefIdc == 0 {
				s.NalRefIdc = 1
			}
			s.PWT = fullAVCPWT(r)
			cand = append(cand, s.Encode(sps, pps).NAL)
		}
	}
	// (round 6) slices with every loop forced on, for ctx-trunc: list modification commands of every kind for both lists, a full
	// weight table, marking operations of every kind. Own generator stream: the candidates above stay what they were.
	r2 := runner.NewRand(0xC16C16, 0xA7D, uint64(i))
	for _, f := range []struct {
		typ uint64
		ov  bool
	}{{0, false}, {1, false}, {5, true}, {6, true}, {3, false}} {
		for try := 0; try < 2; try++ {
			s := h264.GenSlice(r2, sps, pps)
			s.NalUnitType, s.SliceType, s.NumRefIdxActiveOverride = 1, f.typ, f.ov
			s.NalRefIdc = uint(1 + r2.Intn(3))
			for x := 0; x < 2; x++ {
				s.RPLM[x] = []h264.RPLMOp{{Idc: 0, Val: uint64(r2.Intn(1 << 10))}, {Idc: 1, Val: 0}, {Idc: 2, Val: uint64(r2.Intn(33))}, {Idc: uint64(r2.Intn(3)), Val: 1}}
			}
			s.PWT = fullAVCPWT(r2)
			s.AdaptiveRefPicMarking = true
			s.MMCO = []h264.MMCOOp{{Op: 1, A: uint64(r2.Intn(40))}, {Op: 3, A: 2, B: uint64(r2.Intn(17))}, {Op: 2, A: 1}, {Op: 6, A: uint64(r2.Intn(17))}, {Op: 4, A: 3}, {Op: 5}}
			if try == 1 {
				s.MMCO = s.MMCO[:1+r2.Intn(5)]
			}
			st.loopCand = append(st.loopCand, s.Encode(sps, pps).NAL)
		}
	}
	if !finishStream(&st, cand, 8) {
		return st, false
	}
	return st, true
}

func hevcHRD(r *runner.Rand, i int, maxSub int) *h265.HRD {
	h := &h265.HRD{NalPresent: i%3 != 1, VclPresent: i%3 != 0, SubPicPresent: i%2 == 0, SubPicCpbParamsInPicTimingSei: i%4 < 2,
		TickDivisorMinus2: uint8(r.Intn(256)), DuCpbRemovalDelayIncrementLengthMinus1: uint8([]int{7, 0, 31, 9}[i%4]),
		DpbOutputDelayDuLengthMinus1: uint8([]int{7, 31, 0, 4}[i%4]), BitRateScale: 4, CpbSizeScale: 5, CpbSizeDuScale: 3,
		InitialCpbRemovalDelayLengthMinus1: 23, AuCpbRemovalDelayLengthMinus1: uint8([]int{7, 31, 0, 23}[i%4]), DpbOutputDelayLengthMinus1: uint8([]int{7, 0, 31, 15}[i%4])}
	for k := 0; k <= maxSub; k++ {
		s := h265.SubLayerHRD{FixedPicRateGeneral: r.Bool(), FixedPicRateWithinCvs: true, ElementalDurationInTcMinus1: uint64(r.Intn(2048)), CpbCntMinus1: uint64(r.Intn(3))}
		for c := 0; c <= int(s.CpbCntMinus1); c++ {
			e := h265.HRDEntry{BitRateValueMinus1: uint64(r.Intn(100000)), CpbSizeValueMinus1: uint64(r.Intn(100000)), CpbSizeDuValueMinus1: uint64(r.Intn(1000)), BitRateDuValueMinus1: uint64(r.Intn(1000)), Cbr: r.Bool()}
			s.Nal = append(s.Nal, e)
			s.Vcl = append(s.Vcl, e)
		}
		h.Sub = append(h.Sub, s)
	}
	return h
}

// refHEVCStream draws one HEVC context from ref/h265 with forced features.
func refHEVCStream(i int) (sysStream, bool) {
	r := runner.NewRand(0xC16C16, 0x4EC, uint64(i))
	var sps *h265.SPS
	wantLT := i%3 == 0
	for k := 0; k < 300; k++ {
		sps = h265.GenSPS(r, uint64(i%4), h265.SPSOpt{NoBigLatency: true, FewRPS: i%2 == 0})
		if (sps.LongTermRefPicsPresent && len(sps.LtRefPicPocLsbSps) > 1) == wantLT && len(sps.STRPS) > 0 && sps.PicSizeInCtbsY() > 1 &&
			sps.Width <= 4096 && sps.Height <= 4096 {
			break
		}
	}
	if i%5 != 4 {
		sps.ScalingListData = nil // keeps most sets short
	}
	if i%4 == 1 {
		// a number of short-term sets that is not a power of two: short_term_ref_pic_set_idx can then code values >= N
		want := []int{3, 5, 6, 7, 9, 12}[(i/4)%6]
		if len(sps.STRPS) > want {
			sps.STRPS = sps.STRPS[:want] // (an inter-predicted SPS set refers to its predecessor only)
		}
		for len(sps.STRPS) < want {
			sps.STRPS = append(sps.STRPS, h265.GenSTRPS(r, len(sps.STRPS), false, sps.DerivedRPS(), 4))
		}
	}
	if i%4 == 1 || i%4 == 2 {
		if sps.VUI == nil {
			sps.VUI = &h265.VUI{}
		}
		sps.VUI.TimingInfoPresent, sps.VUI.NumUnitsInTick, sps.VUI.TimeScale = true, 1001, 60000
		sps.VUI.FrameFieldInfoPresent = i%8 < 4
		sps.VUI.HRD = hevcHRD(r, i/4, int(sps.MaxSubLayersMinus1))
	}
	pps := h265.GenPPS(r, uint64(i%5), sps, h265.PPSOpt{NoMultilayer: i%4 != 3})
	if pps.D3 != nil && i%8 != 7 {
		pps.D3 = nil // 2^bitdepth flags per layer
	}
	if pps.ScalingListData != nil && i%8 != 3 {
		pps.ScalingListData = nil
	}
	if !pps.CurrPicRef() {
		pps.WeightedPred = i&1 == 0
		pps.WeightedBipred = (i>>1)&1 == 0
	}
	pps.ListsModificationPresent = i%3 != 2
	pps.NumRefIdxL0DefaultActiveMinus1 = uint64([]int{0, 2, 1, 14, 0, 5}[i%6])
	pps.NumRefIdxL1DefaultActiveMinus1 = uint64([]int{1, 0, 3, 0}[i%4])
	pps.SliceSegmentHeaderExtensionPresent = i%4 == 1
	pps.NumExtraSliceHeaderBits = uint64([]int{0, 2, 0, 7}[i%4])
	if i%4 == 2 && !pps.TilesEnabled {
		pps.EntropyCodingSyncEnabled = true
	}
	cs, cp := sps.Encode(1), pps.Encode(1)
	st := sysStream{name: fmt.Sprintf("ref-hevc-%02d", i), codec: "hevc", origin: "ref", sps: cs.NAL, pps: cp.NAL}
	st.elems[0], st.elems[1] = elemMap(cs), elemMap(cp)
	st.fields[0], st.fields[1] = fieldList(cs), fieldList(cp)
	var cand [][]byte
	for _, f := range []struct {
		nal   uint
		typ   uint64
		ov    bool
		first bool
	}{{1, 1, false, true}, {1, 0, false, true}, {19, 2, false, true}, {1, 1, true, true}, {1, 0, true, false}, {0, 2, false, true}, {21, 2, false, true}, {1, 1, false, false}, {1, 0, false, false}, {9, 1, false, true}, {20, 2, false, false}} {
		for try := 0; try < 3; try++ {
			s := h265.GenSlice(r, sps, pps)
			s.NalUnitType, s.SliceType, s.NumRefIdxActiveOverride, s.FirstSliceSegmentInPic = f.nal, f.typ, f.ov, f.first
			s.TemporalIDPlus1 = 1
			s.DependentSliceSegment = false
			if try == 0 && len(sps.STRPS) > 0 {
				// the first candidate of every class refers to the last short-term set of the SPS
				s.ShortTermRefPicSetSps, s.STRPS, s.ShortTermRefPicSetIdx = true, nil, uint64(len(sps.STRPS)-1)
			}
			if s.IsIRAP() && !pps.CurrPicRef() {
				s.SliceType = 2
			}
			s.ReservedFlags = make([]bool, pps.NumExtraSliceHeaderBits)
			if s.RplmL0 != nil {
				s.RplmL0 = make([]uint64, 16)
			}
			if s.RplmL1 != nil {
				s.RplmL1 = make([]uint64, 16)
			}
			s.CollocatedRefIdx = 0
			if s.PWT != nil {
				for len(s.PWT.L0) < 16 {
					s.PWT.L0 = append(s.PWT.L0, h265.PredWeight{LumaFlag: r.Bool(), DeltaLumaWeight: int64(r.Range(-128, 127)), LumaOffset: int64(r.Range(-128, 127))})
				}
				for len(s.PWT.L1) < 16 {
					s.PWT.L1 = append(s.PWT.L1, h265.PredWeight{ChromaFlag: r.Bool(), DeltaChromaWeight: [2]int64{3, -3}, DeltaChromaOffset: [2]int64{1, -1}})
				}
			}
			c, _ := s.Encode(sps, pps)
			cand = append(cand, c.NAL)
		}
	}
	// (round 6) slices with every count-driven part the context permits forced on, for ctx-trunc (own generator stream)
	r2 := runner.NewRand(0xC16C16, 0x4ED, uint64(i))
	for _, f := range []struct {
		typ uint64
		ov  bool
	}{{1, false}, {0, false}, {1, true}, {0, true}} {
		for try := 0; try < 3; try++ {
			s := h265.GenSlice(r2, sps, pps)
			s.NalUnitType, s.SliceType, s.NumRefIdxActiveOverride, s.FirstSliceSegmentInPic = 1, f.typ, f.ov, try != 2
			s.TemporalIDPlus1 = 1
			s.DependentSliceSegment = false
			s.ReservedFlags = make([]bool, pps.NumExtraSliceHeaderBits)
			if try == 1 && len(sps.STRPS) > 0 {
				s.ShortTermRefPicSetSps, s.STRPS, s.ShortTermRefPicSetIdx = true, nil, uint64(len(sps.STRPS)-1)
			}
			s.RplmL0, s.RplmL1 = make([]uint64, 16), make([]uint64, 16)
			s.CollocatedRefIdx = 0
			if s.PWT != nil {
				for len(s.PWT.L0) < 16 {
					s.PWT.L0 = append(s.PWT.L0, h265.PredWeight{LumaFlag: true, ChromaFlag: r2.Bool(), DeltaLumaWeight: int64(r2.Range(-128, 127)), LumaOffset: int64(r2.Range(-128, 127))})
				}
				for len(s.PWT.L1) < 16 {
					s.PWT.L1 = append(s.PWT.L1, h265.PredWeight{LumaFlag: r2.Bool(), ChromaFlag: true, DeltaChromaWeight: [2]int64{3, -3}, DeltaChromaOffset: [2]int64{1, -1}})
				}
			}
			if len(s.EntryPointOffsetMinus1) < 3 {
				s.OffsetLenMinus1 = uint64([]int{0, 7, 31}[try])
				s.EntryPointOffsetMinus1 = []uint64{0, 1, 0, 1}
			}
			if len(s.ExtensionData) == 0 {
				s.ExtensionData = []byte{1, 2, 3, 4, 5}
			}
			c, _ := s.Encode(sps, pps)
			st.loopCand = append(st.loopCand, c.NAL)
		}
	}
	if !finishStream(&st, cand, 8) {
		return st, false
	}
	return st, true
}

// buildSysStreams assembles the contexts. It does not depend on env.Seed.
func buildSysStreams(s *seedSet, thorough bool) []sysStream {
	var out []sysStream
	info := map[string]int{}
	addSEI := func(st *sysStream, own [][]byte) {
		for _, u := range own {
			if len(st.seis) < 2 && len(u) <= 400 {
				st.seis = append(st.seis, u)
			}
		}
		n := 0
		for _, sd := range s.kind(st.codec + "-sei") {
			if strings.HasPrefix(sd.name, "handbuilt:") && strings.Contains(sd.name, "(type 1)") && n < 3 {
				st.seis = append(st.seis, sd.b)
				n++
			}
		}
	}
	handSlices := func(codec string) [][]byte {
		var l [][]byte
		for _, sd := range s.kind(codec + "-slice") {
			l = append(l, sd.b)
		}
		return l
	}
	keep := func(st sysStream, ok bool) {
		if !ok {
			info["streams_rejected_by_the_library("+st.origin+")"]++
			return
		}
		if len(st.slices) == 0 {
			info["streams_without_accepted_slice("+st.origin+")"]++
		}
		info["streams("+st.codec+","+st.origin+")"]++
		info["slices("+st.codec+")"] += len(st.slices)
		out = append(out, st)
	}
	// (1) the Annex B test files
	for _, codec := range []string{"avc", "hevc"} {
		groups := s.avcGroups
		if codec == "hevc" {
			groups = s.hevcGroups
		}
		for _, g := range groups {
			if len(g.sps) == 0 {
				continue
			}
			for k, pps := range g.pps {
				if k >= 2 {
					break
				}
				st := sysStream{name: fmt.Sprintf("%s(pps %d)", g.name, k), codec: codec, origin: "real", sps: g.sps[0], pps: pps}
				cand := append(append([][]byte{}, g.slices...), handSlices(codec)...)
				ok := finishStream(&st, cand, 8)
				addSEI(&st, g.seis)
				keep(st, ok)
			}
		}
	}
	// (2) parameter sets of the test literals and the hand-built ones of seeds.go
	for _, codec := range []string{"avc", "hevc"} {
		maxLit, maxHB := 4, 8
		if thorough {
			maxLit, maxHB = 12, 18
		}
		nLit, nHB := 0, 0
		var ppsSeeds, ppsHB []seed
		for _, pd := range s.kind(codec + "-pps") {
			if strings.HasPrefix(pd.name, "handbuilt:") {
				ppsHB = append(ppsHB, pd)
			} else {
				ppsSeeds = append(ppsSeeds, pd)
			}
		}
		for _, sd := range s.kind(codec + "-sps") {
			hb := strings.HasPrefix(sd.name, "handbuilt:")
			lit := strings.Contains(sd.name, ":lit")
			if !hb && !lit || hb && nHB >= maxHB || lit && nLit >= maxLit {
				continue
			}
			origin := "literal"
			if hb {
				origin = "handbuilt"
			}
			// the PPS seeds are tried in rotation so that every hand-built PPS gets a context
			cands := ppsSeeds
			if hb {
				cands = ppsHB
			}
			for k := range cands {
				pd := cands[(k+nHB+nLit)%len(cands)]
				st := sysStream{name: sd.name + "+" + pd.name, codec: codec, origin: origin, sps: sd.b, pps: pd.b}
				if !finishStream(&st, handSlices(codec), 8) {
					continue
				}
				addSEI(&st, nil)
				keep(st, true)
				if hb {
					nHB++
				} else {
					nLit++
				}
				break
			}
		}
	}
	// (3) contexts drawn from the independent serializers
	n := 24
	if thorough {
		n = 48
	}
	for i := 0; i < n; i++ {
		st, ok := refAVCStream(i)
		addSEI(&st, nil)
		keep(st, ok)
	}
	for i := 0; i < n; i++ {
		st, ok := refHEVCStream(i)
		addSEI(&st, nil)
		keep(st, ok)
	}
	sysInfo = info
	return out
}

// extraGroups: the contexts as additional groups of the random chain plan.
var extraGroups = map[string][]psGroup{}

func buildSysPlan(s *seedSet, thorough bool) int {
	sysStreams = buildSysStreams(s, thorough)
	extraGroups = map[string][]psGroup{}
	for _, st := range sysStreams {
		if st.origin == "real" {
			continue
		}
		extraGroups[st.codec] = append(extraGroups[st.codec], psGroup{name: st.name, sps: [][]byte{st.sps}, pps: [][]byte{st.pps}, slices: st.slices, seis: st.seis})
	}
	sysTargets, sysTargetOff, sysPositions = nil, nil, 0
	maxPos := 1024
	if thorough {
		maxPos = 4096
	}
	sysPer = sysReps(thorough)
	for i, st := range sysStreams {
		for which, u := range [][]byte{st.sps, st.pps} {
			n := rbspDataBits(bitw.Unescape(u[hdrLen(st.codec):])) + 1
			if n > maxPos {
				n = maxPos
			}
			sysTargetOff = append(sysTargetOff, sysPositions)
			sysTargets = append(sysTargets, sysTarget{stream: i, which: which, npos: n})
			sysPositions += n
		}
	}
	sysFixed = nil
	for i, st := range sysStreams {
		for which := 0; which < 2; which++ {
			for _, f := range st.fields[which] {
				if f.pos < maxPos {
					sysFixed = append(sysFixed, sysFixedTarget{i, which, f})
				}
			}
		}
	}
	return sysPositions + len(sysFixed)
}

// sysReps: mutations per position. Quick: ue(v) for the eight primary values
// (replace; four of them with 32..64 leading zero bits) and a single-bit flip.
// Thorough: all values (replace), the first four values inserted, and the flip.
func sysReps(thorough bool) int {
	if thorough {
		return len(sysValues) + sysInserted + 1
	}
	return sysPrimary + 1
}

const sysPrimary = 8

// sysChoice maps (rep within a position) to the mutation: flip, or (value, insert).
func sysChoice(thorough bool, rep int) (flip bool, v uint64, insert bool) {
	n := sysPrimary
	if thorough {
		n = len(sysValues)
	}
	switch {
	case rep < n:
		return false, sysValues[rep], false
	case thorough && rep < n+sysInserted:
		return false, sysValues[rep-n], true
	}
	return true, 0, false
}

// flipBit flips data bit pos of b[0:n] (pos == n: a one bit is appended).
func flipBit(b []byte, n, pos int) *bitw.W {
	w := &bitw.W{}
	for i := 0; i < n; i++ {
		v := uint64(bitAt(b, i))
		if i == pos {
			v ^= 1
		}
		w.Put(v, 1)
	}
	if pos >= n {
		w.Put(1, 1)
	}
	return w
}

func flipBitNAL(nal []byte, hdr, pos int) []byte {
	rbsp := bitw.Unescape(nal[hdr:])
	w := flipBit(rbsp, rbspDataBits(rbsp), pos)
	w.TrailingBits()
	return append(cp(nal[:hdr]), bitw.Escape(w.Bytes())...)
}

// genChainUE: one case = one position (or one known syntax element) of one
// parameter set; all its variants go to the probe in one request, each parsed
// and followed by the same dependent units.
func genChainUE(x *runCtx, c *runner.Ctx, sub int) *job {
	var tg sysTarget
	var pos int
	fixedN := 0
	if sub >= sysPositions {
		// a syntax element of a ref context forced as a fixed-width field
		ft := sysFixed[sub-sysPositions]
		tg = sysTarget{stream: ft.stream, which: ft.which}
		pos, fixedN = ft.f.pos, ft.f.n
	} else {
		// locate the target
		lo, hi := 0, len(sysTargets)-1
		for lo < hi {
			mid := (lo + hi + 1) / 2
			if sysTargetOff[mid] <= sub {
				lo = mid
			} else {
				hi = mid - 1
			}
		}
		tg = sysTargets[lo]
		pos = sub - sysTargetOff[lo]
	}
	st := &sysStreams[tg.stream]
	hdr := hdrLen(st.codec)
	orig := [][]byte{st.sps, st.pps}
	kind := st.codec + []string{"-sps", "-pps"}[tg.which]
	field := ""
	if st.elems[tg.which] != nil {
		field = st.elems[tg.which][pos]
	}
	j := &job{}
	var hostiles [][]byte
	variant := func(hostile []byte, desc, how, vs string, flip bool) {
		if field != "" {
			desc += " = " + field
		}
		j.chains = append(j.chains, &chainDetail{Codec: st.codec, Sys: true, Kind: kind, Field: field, Flip: flip, Desc: desc,
			PS:   []string{hex.EncodeToString(hostile), hex.EncodeToString(orig[1-tg.which])},
			Base: []string{hex.EncodeToString(st.sps), hex.EncodeToString(st.pps)}})
		hostiles = append(hostiles, hostile)
		x.note("chain_ue_value", vs)
		x.note("chain_ue_variant", how)
	}
	if fixedN > 0 {
		nal := orig[tg.which]
		rbsp := bitw.Unescape(nal[hdr:])
		for k := 0; k < 2; k++ {
			var w *bitw.W
			fixedDesc := ""
			if k == 0 {
				w = forceOnes(rbsp, rbspDataBits(rbsp), pos, fixedN)
				fixedDesc = fmt.Sprintf("all %d bits set to one", fixedN)
			} else {
				w = forceIncr(rbsp, rbspDataBits(rbsp), pos, fixedN)
				fixedDesc = fmt.Sprintf("the %d-bit number incremented by one", fixedN)
			}
			w.TrailingBits()
			// (evidence: counted with the flips, not with the extreme Exp-Golomb values)
			variant(append(cp(nal[:hdr]), bitw.Escape(w.Bytes())...),
				fmt.Sprintf("chain-ue(%s): syntax element at RBSP bit %d of the %s of %s: %s", st.codec, pos, kind, st.name, fixedDesc),
				"syntax element forced as a fixed-width field", "fixed-width", true)
		}
	} else {
		th := c.Env.Tier == "thorough"
		for rep := 0; rep < sysPer; rep++ {
			flip, v, insert := sysChoice(th, rep)
			if flip {
				variant(flipBitNAL(orig[tg.which], hdr, pos), fmt.Sprintf("chain-ue(%s): RBSP bit %d of the %s of %s flipped", st.codec, pos, kind, st.name),
					"single bit flipped", "bit-flip", true)
				continue
			}
			how := "replacing the code that starts there"
			if insert {
				how = "inserted"
			}
			variant(forceUENAL(orig[tg.which], hdr, pos, v, insert),
				fmt.Sprintf("chain-ue(%s): ue(v)=%d at RBSP bit %d of the %s of %s (%s)", st.codec, v, pos, kind, st.name, how), how, fmt.Sprint(v), false)
		}
	}
	for i, u := range st.slices {
		j.items = append(j.items, item{In: u, Mode: "dependent", Desc: fmt.Sprintf("slice %d of the stream", i)})
	}
	if tg.which == 0 {
		for i, u := range st.seis {
			j.items = append(j.items, item{In: u, Mode: "dependent", Desc: fmt.Sprintf("SEI unit %d", i)})
		}
	}
	if len(st.slices) > 0 {
		n := minInt(len(st.slices), 3)
		j.items = append(j.items, item{In: annexb.BuildSample(st.slices[:n]), Mode: "dependent", Desc: "sample of the first slices"})
	}
	x.note("chain_ue_target", kind+" "+st.origin)
	if pos < 1024 {
		x.note("chain_ue_position_class", fmt.Sprintf("%s bits %d..%d", kind, pos/64*64, pos/64*64+63))
	}
	for _, f := range st.features {
		x.note("chain_ue_stream_feature", st.codec+" "+f)
	}
	c.Count("chain_ue_cases", 1)
	c.Count("chain_ue_hostile_variants", int64(len(j.chains)))
	if sub == 0 {
		// the layout of the plan, reported once
		for k, n := range sysInfo {
			c.Count("chain_ue_plan:"+k, int64(n))
		}
		c.Count("chain_ue_plan:positions", int64(sysPositions))
		c.Count("chain_ue_plan:known_syntax_elements", int64(len(sysFixed)))
		c.Count("sei_ue_plan:payload_seeds", int64(len(seiUESeeds)))
		c.Count("sei_ue_plan:positions", int64(seiUEPos))
	}
	x.note("chain_ue_context", st.codec+" "+st.origin)
	// what the tools get: the stream with one of the hostile sets in place (rotating)
	units := [][]byte{st.sps, st.pps}
	units[tg.which] = hostiles[(c.Idx/10)%len(hostiles)]
	units = append(units, st.slices...)
	x.toolIn = annexb.BuildStream(units, nil)
	x.toolDesc = j.chains[(c.Idx/10)%len(hostiles)].Desc
	return j
}

// ---------------------------------------------------------------------------
// external-parameter sets of the pic_timing decoders

var hevcPTLens = [4][4]uint8{{0, 31, 0, 0}, {7, 24, 7, 7}, {31, 0, 31, 31}, {23, 15, 4, 9}}

// hevcPTParamSets: every combination of the four flags DecodePicTimingHevcSEI
// reads x four sets of the 5-bit lengths.
func hevcPTParamSets() []sei.HEVCPicTimingParams {
	var l []sei.HEVCPicTimingParams
	for flags := 0; flags < 16; flags++ {
		for _, ln := range hevcPTLens {
			l = append(l, sei.HEVCPicTimingParams{
				FrameFieldInfoPresentFlag:              flags&1 != 0,
				CpbDpbDelaysPresentFlag:                flags&2 != 0,
				SubPicHrdParamsPresentFlag:             flags&4 != 0,
				SubPicCpbParamsInPicTimingSeiFlag:      flags&8 != 0,
				AuCbpRemovalDelayLengthMinus1:          ln[0],
				DpbOutputDelayLengthMinus1:             ln[1],
				DpbOutputDelayDuLengthMinus1:           ln[2],
				DuCpbRemovalDelayIncrementLengthMinus1: ln[3],
			})
		}
	}
	return l
}

// hevcSPSFor builds the hevc.SPS value from which fillHEVCPicTimingParams
// derives p (nal/vcl alternate by k).
func hevcSPSFor(p sei.HEVCPicTimingParams, k int) *hevc.SPS {
	h := &hevc.HrdParameters{
		NalHrdParametersPresentFlag:            p.CpbDpbDelaysPresentFlag && k%3 != 1,
		VclHrdParametersPresentFlag:            p.CpbDpbDelaysPresentFlag && k%3 != 0,
		SubPicHrdParamsPresentFlag:             p.SubPicHrdParamsPresentFlag,
		SubPicCpbParamsInPicTimingSeiFlag:      p.SubPicCpbParamsInPicTimingSeiFlag,
		AuCpbRemovalDelayLengthMinus1:          p.AuCbpRemovalDelayLengthMinus1,
		DpbOutputDelayLengthMinus1:             p.DpbOutputDelayLengthMinus1,
		DpbOutputDelayDuLengthMinus1:           p.DpbOutputDelayDuLengthMinus1,
		DuCpbRemovalDelayIncrementLengthMinus1: p.DuCpbRemovalDelayIncrementLengthMinus1,
	}
	return &hevc.SPS{VUI: &hevc.VUIParameters{FrameFieldInfoPresentFlag: p.FrameFieldInfoPresentFlag, HrdParameters: h}}
}

// hevcPicTimingFor lays out a pic_timing payload for p (D.2.3).
func hevcPicTimingFor(p sei.HEVCPicTimingParams, nDU int, common bool) []byte {
	w := &bitw.W{}
	if p.FrameFieldInfoPresentFlag {
		w.Put(1, 4)
		w.Put(1, 2)
		w.Flag(false)
	}
	if p.CpbDpbDelaysPresentFlag {
		w.Put(3, int(p.AuCbpRemovalDelayLengthMinus1)+1)
		w.Put(2, int(p.DpbOutputDelayLengthMinus1)+1)
		if p.SubPicHrdParamsPresentFlag {
			w.Put(1, int(p.DpbOutputDelayDuLengthMinus1)+1)
			if p.SubPicCpbParamsInPicTimingSeiFlag {
				w.UE(uint64(nDU))
				w.Flag(common)
				if common {
					w.Put(1, int(p.DuCpbRemovalDelayIncrementLengthMinus1)+1)
				}
				for i := 0; i <= nDU; i++ {
					w.UE(uint64(i))
					if !common && i < nDU {
						w.Put(1, int(p.DuCpbRemovalDelayIncrementLengthMinus1)+1)
					}
				}
			}
		}
	}
	if w.NBits() == 0 {
		w.Put(0x80, 8)
	}
	w.AlignZero()
	return w.Bytes()
}

// ---------------------------------------------------------------------------
// sei-ue

type seiUESeed struct {
	name    string
	typ     uint
	payload []byte
}

var (
	seiUESeeds []seiUESeed
	seiUEOff   []int
	seiUEPos   int
	seiUEPer   int
)

func buildSEIUEPlan(s *seedSet, thorough bool) int {
	seiUESeeds, seiUEOff, seiUEPos = nil, nil, 0
	for _, sd := range s.kind("sei-payload") {
		seiUESeeds = append(seiUESeeds, seiUESeed{name: sd.name, typ: sd.typ, payload: sd.b})
	}
	seen := map[string]bool{}
	for k, p := range hevcPTParamSets() {
		shapes := []struct {
			n      int
			common bool
		}{{2, false}}
		if p.CpbDpbDelaysPresentFlag && p.SubPicHrdParamsPresentFlag && p.SubPicCpbParamsInPicTimingSeiFlag {
			shapes = append(shapes, struct {
				n      int
				common bool
			}{0, true}, struct {
				n      int
				common bool
			}{3, true})
		}
		for _, sh := range shapes {
			pl := hevcPicTimingFor(p, sh.n, sh.common)
			if seen[string(pl)] {
				continue
			}
			seen[string(pl)] = true
			seiUESeeds = append(seiUESeeds, seiUESeed{typ: 1, payload: pl,
				name: fmt.Sprintf("hevc pic_timing for parameter set %d (ffi=%v cpb=%v subpic=%v inpt=%v lengths %d/%d/%d/%d, %d decoding units, common=%v)", k,
					p.FrameFieldInfoPresentFlag, p.CpbDpbDelaysPresentFlag, p.SubPicHrdParamsPresentFlag, p.SubPicCpbParamsInPicTimingSeiFlag,
					p.AuCbpRemovalDelayLengthMinus1, p.DpbOutputDelayLengthMinus1, p.DpbOutputDelayDuLengthMinus1, p.DuCpbRemovalDelayIncrementLengthMinus1, sh.n+1, sh.common)})
		}
	}
	seiUEPer = sysReps(thorough)
	for _, sd := range seiUESeeds {
		seiUEOff = append(seiUEOff, seiUEPos)
		n := len(sd.payload)*8 + 1
		if n > 400 {
			n = 400
		}
		seiUEPos += n
	}
	return seiUEPos * seiUEPer
}

func genSEIUE(x *runCtx, c *runner.Ctx, sub int) *job {
	p := sub / seiUEPer
	rep := sub % seiUEPer
	lo, hi := 0, len(seiUESeeds)-1
	for lo < hi {
		mid := (lo + hi + 1) / 2
		if seiUEOff[mid] <= p {
			lo = mid
		} else {
			hi = mid - 1
		}
	}
	sd := seiUESeeds[lo]
	pos := p - seiUEOff[lo]
	flip, v, insert := sysChoice(c.Env.Tier == "thorough", rep)
	var w *bitw.W
	if flip {
		w = flipBit(sd.payload, len(sd.payload)*8, pos)
	} else {
		w = forceUE(sd.payload, len(sd.payload)*8, pos, v, insert)
	}
	w.AlignZero()
	pl := w.Bytes()
	how := "replacing the code that starts there"
	if insert {
		how = "inserted"
	}
	vs := fmt.Sprint(v)
	desc := fmt.Sprintf("sei-ue: ue(v)=%d at bit %d of SEI payload type %d [%s] (%s)", v, pos, sd.typ, sd.name, how)
	if flip {
		vs = "bit-flip"
		desc = fmt.Sprintf("sei-ue: bit %d of SEI payload type %d [%s] flipped", pos, sd.typ, sd.name)
	}
	j := &job{}
	j.items = append(j.items, item{In: pl, Mode: "sei-direct", Types: []uint{sd.typ}, Desc: desc + " handed to the sei decoders"})
	for _, codec := range []string{"hevc", "avc"} {
		j.items = append(j.items, item{In: seiNAL(codec, []seiMsg{{sd.typ, pl}}, true), Mode: "sei-nal", Desc: desc + " framed as " + codec + " SEI NAL unit"})
	}
	x.note("sei_ue_payload_type", fmt.Sprint(sd.typ))
	x.note("sei_ue_value", vs)
	if sd.typ == 1 {
		x.note("sei_ue_pic_timing_position_class", fmt.Sprintf("bits %d..%d", pos/16*16, pos/16*16+15))
	}
	c.Count("sei_ue_cases", 1)
	return j
}

// ---------------------------------------------------------------------------
// ctx-ue: forced codes at every bit position of the slices of every context,
// parsed against the unmodified parameter sets of that context (so that the
// branches the context switches on - long-term references, weight tables,
// entry points, header extension, slice groups ... - see extreme values).

type ctxTarget struct {
	stream, slice int
	npos          int
}

var (
	ctxTargets []ctxTarget
	ctxOff     []int
	ctxPos     int
)

func buildCtxUEPlan(thorough bool) int {
	ctxTargets, ctxOff, ctxPos = nil, nil, 0
	maxPos := 256
	if thorough {
		maxPos = 768
	}
	for i, st := range sysStreams {
		for k, u := range st.slices {
			n := len(bitw.Unescape(u[hdrLen(st.codec):])) * 8
			if n > maxPos {
				n = maxPos
			}
			if n == 0 {
				continue
			}
			ctxOff = append(ctxOff, ctxPos)
			ctxTargets = append(ctxTargets, ctxTarget{stream: i, slice: k, npos: n})
			ctxPos += n
		}
	}
	return ctxPos
}

func genCtxUE(x *runCtx, c *runner.Ctx, sub int) *job {
	lo, hi := 0, len(ctxTargets)-1
	for lo < hi {
		mid := (lo + hi + 1) / 2
		if ctxOff[mid] <= sub {
			lo = mid
		} else {
			hi = mid - 1
		}
	}
	tg := ctxTargets[lo]
	pos := sub - ctxOff[lo]
	st := &sysStreams[tg.stream]
	u := st.slices[tg.slice]
	hdr := hdrLen(st.codec)
	rbsp := bitw.Unescape(u[hdr:])
	th := c.Env.Tier == "thorough"
	ch := &chainDetail{Codec: st.codec, Base: []string{hex.EncodeToString(st.sps), hex.EncodeToString(st.pps)}}
	j := &job{chain: ch}
	for rep := 0; rep < sysReps(th); rep++ {
		flip, v, insert := sysChoice(th, rep)
		var w *bitw.W
		desc := ""
		if flip {
			w = flipBit(rbsp, len(rbsp)*8, pos)
			desc = fmt.Sprintf("ctx-ue(%s): RBSP bit %d of slice %d of %s flipped, parsed against the unmodified parameter sets of that context", st.codec, pos, tg.slice, st.name)
		} else {
			w = forceUE(rbsp, len(rbsp)*8, pos, v, insert)
			how := "replacing the code that starts there"
			if insert {
				how = "inserted"
			}
			desc = fmt.Sprintf("ctx-ue(%s): ue(v)=%d at RBSP bit %d of slice %d of %s (%s), parsed against the unmodified parameter sets of that context", st.codec, v, pos, tg.slice, st.name, how)
		}
		w.AlignZero()
		j.items = append(j.items, item{In: append(cp(u[:hdr]), bitw.Escape(w.Bytes())...), Mode: "dependent", Desc: desc})
	}
	// fixed-width forcing: runs of ones and increments of the k-bit number that starts here
	for m := 0; m < numFixedMutations(); m++ {
		w, how := applyFixed(rbsp, len(rbsp)*8, pos, m)
		w.AlignZero()
		in := append(cp(u[:hdr]), bitw.Escape(w.Bytes())...)
		if string(in) == string(u) {
			continue // the bits already had that value
		}
		j.items = append(j.items, item{In: in, Mode: "dependent",
			Desc: fmt.Sprintf("ctx-ue(%s): %s of slice %d of %s, parsed against the unmodified parameter sets of that context", st.codec, how, tg.slice, st.name)})
	}
	x.note("ctx_ue_context", st.codec+" "+st.origin)
	x.note("ctx_ue_position_class", fmt.Sprintf("%s slice bits %d..%d", st.codec, pos/32*32, pos/32*32+31))
	for _, f := range st.features {
		x.note("ctx_ue_stream_feature", st.codec+" "+f)
	}
	c.Count("ctx_ue_cases", 1)
	return j
}

// ---------------------------------------------------------------------------
// ctx-trunc: every slice of every context cut short - after every byte of the
// NAL unit, and after every bit of the RBSP with the rbsp_trailing_bits put
// back (so the data ends exactly behind each syntax element, in particular
// inside the command loops of ref_pic_list_modification and
// dec_ref_pic_marking and inside the count-driven tables: pred_weight_table,
// long-term pictures, entry points, header extension) - parsed against the
// unmodified parameter sets of that context. trunc (c16.go) cuts the seeds and
// parses them against the default maps, where the header layout of a slice of
// another context is lost after the first fields.

const ctxTruncBlock = 32

type ctxTruncTarget struct {
	stream, slice  int
	nbytes, nbits  int // cuts: 0..nbytes-1 bytes kept, 0..nbits-1 RBSP bits kept
	firstCase, num int
}

var ctxTruncTargets []ctxTruncTarget

func buildCtxTruncPlan(thorough bool) int {
	ctxTruncTargets = nil
	maxBits := 512
	if thorough {
		maxBits = 3200
	}
	total := 0
	for i, st := range sysStreams {
		for k, u := range append(append([][]byte{}, st.slices...), st.loopSlices...) {
			hdr := hdrLen(st.codec)
			if len(u) <= hdr {
				continue
			}
			t := ctxTruncTarget{stream: i, slice: k, nbytes: len(u), nbits: len(bitw.Unescape(u[hdr:])) * 8, firstCase: total}
			if t.nbits > maxBits {
				t.nbits = maxBits
			}
			t.num = (t.nbytes + t.nbits + ctxTruncBlock - 1) / ctxTruncBlock
			total += t.num
			ctxTruncTargets = append(ctxTruncTargets, t)
		}
	}
	return total
}

// cutBitsNAL keeps the first n RBSP bits of a NAL unit and closes the RBSP
// with the stop bit and alignment zeros.
func cutBitsNAL(nal []byte, hdr, n int) []byte {
	rbsp := bitw.Unescape(nal[hdr:])
	w := &bitw.W{}
	for i := 0; i < n && i < len(rbsp)*8; i++ {
		w.Put(uint64(bitAt(rbsp, i)), 1)
	}
	w.TrailingBits()
	return append(cp(nal[:hdr]), bitw.Escape(w.Bytes())...)
}

func genCtxTrunc(x *runCtx, c *runner.Ctx, sub int) *job {
	lo, hi := 0, len(ctxTruncTargets)-1
	for lo < hi {
		mid := (lo + hi + 1) / 2
		if ctxTruncTargets[mid].firstCase <= sub {
			lo = mid
		} else {
			hi = mid - 1
		}
	}
	tg := ctxTruncTargets[lo]
	st := &sysStreams[tg.stream]
	var u []byte
	var loops []string
	if tg.slice < len(st.slices) {
		u, loops = st.slices[tg.slice], st.sliceLoops[tg.slice]
	} else {
		// (numbered after the slices of the context)
		u, loops = st.loopSlices[tg.slice-len(st.slices)], st.loopSliceLoops[tg.slice-len(st.slices)]
	}
	hdr := hdrLen(st.codec)
	ch := &chainDetail{Codec: st.codec, Base: []string{hex.EncodeToString(st.sps), hex.EncodeToString(st.pps)}}
	j := &job{chain: ch}
	first := (sub - tg.firstCase) * ctxTruncBlock
	for k := first; k < first+ctxTruncBlock && k < tg.nbytes+tg.nbits; k++ {
		if k < tg.nbytes {
			j.items = append(j.items, item{In: cp(u[:k]), Mode: "dependent",
				Desc: fmt.Sprintf("ctx-trunc(%s): first %d of %d bytes of slice %d of %s, parsed against the unmodified parameter sets of that context", st.codec, k, len(u), tg.slice, st.name)})
			continue
		}
		n := k - tg.nbytes
		j.items = append(j.items, item{In: cutBitsNAL(u, hdr, n), Mode: "dependent",
			Desc: fmt.Sprintf("ctx-trunc(%s): first %d RBSP bits of slice %d of %s + rbsp_trailing_bits, parsed against the unmodified parameter sets of that context", st.codec, n, tg.slice, st.name)})
	}
	x.note("ctx_trunc_context", st.codec+" "+st.origin)
	for _, l := range loops {
		x.note("ctx_trunc_slice_with", st.codec+" "+l)
	}
	if len(loops) == 0 {
		x.note("ctx_trunc_slice_with", st.codec+" (none of the loops)")
	}
	c.Count("ctx_trunc_cases", 1)
	c.Count("ctx_trunc_inputs", int64(len(j.items)))
	return j
}
