package c16

// sei-ffsize: SEI NAL units whose payload size (or type) field is a long run
// of 0xff bytes. sei.ExtractSEIData sums the run (255 per byte) and
// bits.EBSPReader.ReadBytes allocates the announced size before it reads, so
// an input of k+3 bytes makes every SEI extraction allocate 255*k bytes. That
// is a factor of <= 256 and stays inside the property's bound as this monitor
// states it (8 MiB + 1024*len per call); the generator exists to measure it:
// evidence maxima.sei_extraction_max_allocated_bytes_per_input_byte_x100.

import (
	"fmt"
)

var seiFFRunLens = []int{1, 2, 3, 4, 8, 16, 32, 33, 64, 128, 255, 256, 257, 512, 1024, 2048, 4096, 8192, 16384, 32768, 65000}
var seiFFTypes = []uint{5, 4, 1}

const seiFFTails = 5

func seiFFSizeCount() int { return len(seiFFRunLens) * len(seiFFTypes) * 2 * seiFFTails }

func genSEIFFSize(sub int) *job {
	k := seiFFRunLens[sub%len(seiFFRunLens)]
	sub /= len(seiFFRunLens)
	t := seiFFTypes[sub%len(seiFFTypes)]
	sub /= len(seiFFTypes)
	codec := []string{"avc", "hevc"}[sub%2]
	tail := sub / 2
	run := make([]byte, k)
	for i := range run {
		run[i] = 0xff
	}
	var body []byte
	what := ""
	switch tail {
	case 0:
		body = append(append([]byte{byte(t)}, run...), 0x00)
		what = "size field ff*k 00, no payload"
	case 1:
		body = append(append([]byte{byte(t)}, run...), 0x00, 0x80)
		what = "size field ff*k 00, no payload, rbsp_trailing_bits"
	case 2:
		body = append(append([]byte{byte(t)}, run...), 0x10)
		for i := 0; i < 16; i++ {
			body = append(body, byte(0x30+i))
		}
		body = append(body, 0x80)
		what = "size field ff*k 10, 16 payload bytes present"
	case 3:
		body = append([]byte{byte(t)}, run...)
		what = "size field ff*k not terminated (the unit ends inside the run)"
	default:
		body = append(append(cp(run), byte(t)), 0x00, 0x80)
		what = "type field ff*k, size 0"
	}
	in := seiFrame(codec, body)
	desc := fmt.Sprintf("sei-ffsize: %s SEI NAL unit, type %d, k=%d: %s", codec, t, k, what)
	j := &job{items: []item{{In: in, Mode: "sei-extract", Desc: desc}}}
	if len(in) <= 1100 {
		// short ones also go through every other operation
		j.items = append(j.items, item{In: in, Mode: "all", Desc: desc})
	}
	return j
}
