package c16

import (
	"bytes"
	"encoding/hex"
	"errors"
	"fmt"
	"runtime"
	"runtime/metrics"
	"strings"
	"sync/atomic"

	"github.com/Eyevinn/mp4ff/aac"
	"github.com/Eyevinn/mp4ff/av1"
	"github.com/Eyevinn/mp4ff/avc"
	"github.com/Eyevinn/mp4ff/bits"
	"github.com/Eyevinn/mp4ff/hevc"
	"github.com/Eyevinn/mp4ff/mp4"
	"github.com/Eyevinn/mp4ff/sei"

	"verifharness/runner"
)

// Allocation bound of DESIGN.md C04/C16: bytes allocated during one call
// <= 8 MiB + 1024 * len(input).
const (
	allocBase   = 8 << 20
	allocPerLen = 1024
)

func newAllocSample() []metrics.Sample { return []metrics.Sample{{Name: "/gc/heap/allocs:bytes"}} }

func readAlloc(s []metrics.Sample) uint64 {
	metrics.Read(s)
	if s[0].Value.Kind() != metrics.KindUint64 {
		return 0
	}
	return s[0].Value.Uint64()
}

// lastAlloc: the counter after the previous operation is the baseline of the
// next one (what the harness allocates in between is charged to the operation:
// a few hundred bytes against an 8 MiB slack).
var lastAlloc uint64

var allocSample = newAllocSample()

func allocatedBytes() uint64 { return readAlloc(allocSample) }

// psMaps are the parameter-set maps handed to the dependent parsers.
type psMaps struct {
	avcSPS  map[uint32]*avc.SPS
	avcPPS  map[uint32]*avc.PPS
	hevcSPS map[uint32]*hevc.SPS
	hevcPPS map[uint32]*hevc.PPS
	// SPS values handed to ParseSEINalu besides nil
	avcSEISPS  []*avc.SPS
	hevcSEISPS []*hevc.SPS
}

var defaultMaps *psMaps

// buildDefaultMaps fills every id a mutated unit may refer to with a real
// parsed parameter set, so that the dependent parsers get past the lookup.
func buildDefaultMaps(s *seedSet) *psMaps {
	m := &psMaps{avcSPS: map[uint32]*avc.SPS{}, avcPPS: map[uint32]*avc.PPS{}, hevcSPS: map[uint32]*hevc.SPS{}, hevcPPS: map[uint32]*hevc.PPS{}}
	var as []*avc.SPS
	for _, sd := range s.kind("avc-sps") {
		if sps := setupAVCSPS(sd.b); sps != nil {
			as = append(as, sps)
			if sps.VUI != nil && (sps.VUI.NalHrdParameters != nil || sps.VUI.VclHrdParameters != nil) && len(m.avcSEISPS) < 6 {
				m.avcSEISPS = append(m.avcSEISPS, sps)
			}
		}
	}
	// reachable extremes of the 5-bit HRD length fields
	m.avcSEISPS = append(m.avcSEISPS,
		&avc.SPS{VUI: &avc.VUIParameters{PicStructPresentFlag: true}},
		&avc.SPS{VUI: &avc.VUIParameters{PicStructPresentFlag: true, NalHrdParametersPresentFlag: true,
			NalHrdParameters: &avc.HrdParameters{CpbRemovalDelayLengthMinus1: 31, DpbOutputDelayLengthMinus1: 31, TimeOffsetLength: 31}}},
		&avc.SPS{VUI: &avc.VUIParameters{VclHrdParametersPresentFlag: true,
			VclHrdParameters: &avc.HrdParameters{CpbRemovalDelayLengthMinus1: 0, DpbOutputDelayLengthMinus1: 0, TimeOffsetLength: 0}}})
	// nal / vcl / both HRD x four sets of the 5-bit lengths
	for k, ln := range [][3]uint{{0, 0, 0}, {7, 7, 5}, {23, 15, 24}, {31, 31, 31}, {0, 31, 31}, {15, 0, 1}} {
		h := &avc.HrdParameters{CpbRemovalDelayLengthMinus1: ln[0], DpbOutputDelayLengthMinus1: ln[1], TimeOffsetLength: ln[2]}
		v := &avc.VUIParameters{PicStructPresentFlag: k%2 == 0}
		if k%3 != 1 {
			v.NalHrdParametersPresentFlag, v.NalHrdParameters = true, h
		}
		if k%3 != 0 {
			v.VclHrdParametersPresentFlag, v.VclHrdParameters = true, h
		}
		m.avcSEISPS = append(m.avcSEISPS, &avc.SPS{VUI: v})
	}
	for id := uint32(0); id < 32; id++ {
		if sps, ok := s.avcSPS[id]; ok {
			m.avcSPS[id] = sps
		} else {
			m.avcSPS[id] = as[int(id)%len(as)]
		}
	}
	var ap []*avc.PPS
	for _, sd := range s.kind("avc-pps") {
		if pps := setupAVCPPS(sd.b, m.avcSPS); pps != nil {
			ap = append(ap, pps)
		}
	}
	for id := uint32(0); id < 64; id++ {
		if pps, ok := s.avcPPS[id]; ok {
			m.avcPPS[id] = pps
		} else {
			m.avcPPS[id] = ap[int(id)%len(ap)]
		}
	}
	var hs []*hevc.SPS
	for _, sd := range s.kind("hevc-sps") {
		if sps := setupHEVCSPS(sd.b); sps != nil {
			hs = append(hs, sps)
		}
	}
	for id := uint32(0); id < 16; id++ {
		if sps, ok := s.hevcSPS[id]; ok {
			m.hevcSPS[id] = sps
		} else {
			m.hevcSPS[id] = hs[int(id)%len(hs)]
		}
	}
	var hp []*hevc.PPS
	for _, sd := range s.kind("hevc-pps") {
		if pps := setupHEVCPPS(sd.b, m.hevcSPS); pps != nil {
			hp = append(hp, pps)
		}
	}
	for id := uint32(0); id < 64; id++ {
		if pps, ok := s.hevcPPS[id]; ok {
			m.hevcPPS[id] = pps
		} else {
			m.hevcPPS[id] = hp[int(id)%len(hp)]
		}
	}
	// every combination of the flags DecodePicTimingHevcSEI reads x four sets of the 5-bit lengths
	for k, p := range hevcPTParamSets() {
		m.hevcSEISPS = append(m.hevcSEISPS, hevcSPSFor(p, k))
	}
	m.hevcSEISPS = append(m.hevcSEISPS, &hevc.SPS{VUI: &hevc.VUIParameters{FrameFieldInfoPresentFlag: true}})
	return m
}

// runCtx is one input going through the operations.
type runCtx struct {
	c          sink
	seq        *seqState
	in         []byte
	desc       string
	maps       *psMaps
	chain      *chainDetail
	progressed bool
	nOps       int64
	notes      [][2]string
	gen        *genState
	mode       string
	types      []uint
	selv       int
	exact      bool   // sei-extract: SEI extraction calls are also measured with runtime.MemStats (exact, stops the world)
	toolIn     []byte // what the tools get instead of the first item (chain-ue: the whole stream)
	toolDesc   string
}

type chainDetail struct {
	Codec string   `json:"codec"`
	PS    []string `json:"parameter_sets_hex"`
	// Base: the unmodified parameter sets of the stream, parsed first (the
	// dependent parsers fall back to them for what the hostile sets do not replace).
	Base []string `json:"base_parameter_sets_hex,omitempty"`
	// Sys (chain-ue): PS[0] is the hostile set; the dependent units only run when the library accepted it.
	Sys   bool   `json:"systematic,omitempty"`
	Kind  string `json:"hostile_kind,omitempty"`  // avc-sps avc-pps hevc-sps hevc-pps
	Field string `json:"hostile_field,omitempty"` // syntax element that starts at the forced position (ref streams)
	Flip  bool   `json:"bit_flip,omitempty"`      // the mutation is a single-bit flip, not a forced ue(v)
	// Struct (ps-struct): PS[0] is a parameter set that is hostile by construction, PS[1] its benign partner; the dependent units always run
	// (with the real sets as fallback for what the library rejects).
	Struct bool `json:"structural,omitempty"`
	// Desc (chain-ue): what was done to PS[0]; the items of the request are shared by several variants.
	Desc string `json:"variant,omitempty"`
}

type witness struct {
	Op    string       `json:"op,omitempty"`
	Mode  string       `json:"mode,omitempty"`
	Types []uint       `json:"sei_types,omitempty"`
	Input string       `json:"input_hex"`
	Case  string       `json:"case"`
	Chain *chainDetail `json:"chain,omitempty"`
	Stack string       `json:"stack,omitempty"`
	Alloc uint64       `json:"allocated_bytes,omitempty"`
	Bound uint64       `json:"alloc_bound,omitempty"`
}

func (x *runCtx) witness(op string) *witness {
	return &witness{Op: op, Input: hex.EncodeToString(x.in), Case: x.desc, Chain: x.chain, Mode: x.mode, Types: x.types}
}

// call runs one library operation under the panic guard and the allocation
// monitor. n is the length of the bytes handed to the operation. Inside the
// probe the monitor goroutine watches the operation while it runs.
func (x *runCtx) call(op string, n int, f func()) bool {
	seq := 0
	if x.seq != nil {
		if x.seq.stopped {
			return false
		}
		x.seq.n++
		seq = x.seq.n
		if x.seq.poisoned[seq] {
			x.c.Count("ops_skipped_after_trip", 1)
			return false
		}
		if suspendedSet[op] {
			x.c.Count("ops_not_run(operation suspended behind a confirmed hang key)", 1)
			return false
		}
	}
	x.nOps++
	before := lastAlloc
	if before == 0 {
		before = allocatedBytes()
	}
	if x.seq != nil {
		monOpName.Store(op)
		setStatus(seq, op)
		atomic.StoreInt64(&monLen, int64(n))
		atomic.StoreUint64(&monAlloc0, before)
		atomic.StoreInt64(&monSeq, int64(seq))
		atomic.AddInt64(&monGen, 1)
		atomic.StoreInt32(&monActive, 1)
	}
	var exact0 uint64
	if x.exact {
		var ms runtime.MemStats
		runtime.ReadMemStats(&ms)
		exact0 = ms.TotalAlloc
	}
	pi := x.c.Guard(f)
	var exactD uint64
	if x.exact {
		var ms runtime.MemStats
		runtime.ReadMemStats(&ms)
		exactD = ms.TotalAlloc - exact0
	}
	if x.seq != nil {
		atomic.StoreInt32(&monActive, 0)
		if atomic.LoadInt32(&tripped) != 0 {
			select {} // the monitor is reporting this operation and exits the process
		}
		if x.seq.stopAt > 0 && seq >= x.seq.stopAt {
			x.seq.stopped = true
		}
	}
	after := allocatedBytes()
	lastAlloc = after
	x.c.Count("ops", 1)
	if pi != nil {
		w := x.witness(op)
		w.Stack = head(pi.Stack, 3000)
		x.c.Violation(runner.PanicKey("es", pi), fmt.Sprintf("%s panicked on %d input bytes: %s (top frame %s; case %s)", op, n, pi.Value, pi.TopFrame, x.desc), w)
		x.c.Seen("panicking_op", op)
		return false
	}
	bound := uint64(allocBase + allocPerLen*n)
	if after > before {
		d := after - before
		if d > bound {
			w := x.witness(op)
			w.Alloc, w.Bound = d, bound
			x.c.Violation("es/"+op+"/alloc", fmt.Sprintf("%s allocated %d bytes for %d input bytes (bound %d = 8 MiB + 1024*len; case %s)", op, d, n, bound, x.desc), w)
		} else if d*8 > bound {
			// calibration evidence: legitimate allocations above 1/8 of the bound
			x.c.Seen("alloc_above_one_eighth_of_bound", op)
		}
	}
	if x.exact && seiExtractionOp(op) {
		// sei.ExtractSEIData allocates the announced payload size before it reads (an ff-run size field of k bytes
		// announces 255*k): inside the bound, recorded as an observation (exact: runtime.MemStats.TotalAlloc)
		x.c.SetMax("sei_extraction_max_allocated_bytes_in_one_call", int64(exactD))
		if n >= 256 {
			x.c.SetMax("sei_extraction_max_allocated_bytes_per_input_byte_x100(inputs >= 256 bytes)", int64(exactD*100/uint64(n)))
		}
		x.c.Count("sei_extraction_calls_measured_exactly", 1)
	}
	return true
}

// seiExtractionOp: the operations that run sei.ExtractSEIData on the input.
func seiExtractionOp(op string) bool {
	return op == "sei.ExtractSEIData" || strings.HasPrefix(op, "avc.ParseSEINalu(") || strings.HasPrefix(op, "hevc.ParseSEINalu(")
}

func head(s string, n int) string {
	if len(s) <= n {
		return s
	}
	return s[:n]
}

// usable: a result is only looked at when the call reported no error (or the
// documented "trailing bits missing" error that comes with valid messages).
func usable(msgs []sei.SEIMessage, err error) []sei.SEIMessage {
	if err != nil && !errors.Is(err, sei.ErrRbspTrailingBitsMissing) {
		return nil
	}
	return msgs
}

func usable1(msg sei.SEIMessage, err error) sei.SEIMessage {
	if err != nil {
		return nil
	}
	return msg
}

func cp(b []byte) []byte { return append([]byte(nil), b...) }

// retag returns in with its first len(hdr) bytes replaced by hdr (so that a
// parser that insists on a NAL type looks at the rest of the input).
func retag(in []byte, hdr ...byte) []byte {
	o := make([]byte, 0, len(in)+len(hdr))
	o = append(o, hdr...)
	if len(in) > len(hdr) {
		o = append(o, in[len(hdr):]...)
	}
	return o
}

func (x *runCtx) ok() { x.progressed = true }

// sel is a per-input rotation offset for the external-parameter combinations.
func (x *runCtx) sel() int {
	if x.selv == 0 {
		x.selv = 1 + int(runner.Hash64(x.in)%60)
	}
	return x.selv
}

// isSEISeed: inputs that were generated from SEI material get every
// external-parameter combination.
func (x *runCtx) isSEISeed() bool {
	return strings.Contains(x.desc, "sei")
}

// useMsgs calls every method of the SEIMessage interface on decoded messages
// and writes them back.
func (x *runCtx) useMsgs(op string, n int, msgs []sei.SEIMessage) {
	if len(msgs) == 0 {
		return
	}
	x.ok()
	for _, m := range msgs {
		if m == nil {
			continue
		}
		m := m
		x.c.Seen("sei_message_go_type", fmt.Sprintf("%T", m))
		x.call(op+"->Type/Size", n, func() { _ = m.Type(); _ = m.Size() })
		x.call(op+"->String", n, func() { _ = m.String() })
		x.call(op+"->Payload", n, func() { _ = m.Payload() })
	}
	x.call(op+"->sei.WriteSEIMessages", n, func() {
		var buf bytes.Buffer
		_ = sei.WriteSEIMessages(&buf, msgs)
	})
}

var avcSliceHdrs = [][]byte{{0x65}, {0x41}, {0x01}, {0x25}, {0x22}, {0x73}}
var hevcSliceHdrs = [][]byte{{0x02, 0x01}, {0x26, 0x01}, {0x2a, 0x01}, {0x28, 0x01}, {0x12, 0x01}, {0x20, 0x01}, {0x2c, 0x01}}

// runOps sends the input through every byte-taking entry point.
func (x *runCtx) runOps() {
	in := x.in
	n := len(in)
	m := x.maps

	// ---- sample walkers and Annex B functions (avc) ----
	x.call("avc.ExtractNalusFromByteStream", n, func() {
		if len(avc.ExtractNalusFromByteStream(in)) > 0 {
			x.ok()
		}
	})
	x.call("avc.ConvertByteStreamToNaluSample", n, func() { _ = avc.ConvertByteStreamToNaluSample(cp(in)) })
	x.call("avc.ConvertSampleToByteStream", n, func() { _ = avc.ConvertSampleToByteStream(cp(in)) })
	x.call("avc.GetParameterSetsFromByteStream", n, func() { _, _ = avc.GetParameterSetsFromByteStream(in) })
	for _, t := range []avc.NaluType{1, 5, 6, 7, 8} {
		t := t
		x.call("avc.ExtractNalusOfTypeFromByteStream", n, func() {
			_ = avc.ExtractNalusOfTypeFromByteStream(t, in, false)
			_ = avc.ExtractNalusOfTypeFromByteStream(t, in, true)
		})
	}
	x.call("avc.GetFirstAVCVideoNALUFromByteStream", n, func() { _ = avc.GetFirstAVCVideoNALUFromByteStream(in) })
	x.call("avc.FindNaluTypes", n, func() { _ = avc.FindNaluTypes(in) })
	x.call("avc.FindNaluTypesUpToFirstVideoNALU", n, func() { _ = avc.FindNaluTypesUpToFirstVideoNALU(in) })
	x.call("avc.IsIDRSample", n, func() { _ = avc.IsIDRSample(in) })
	x.call("avc.ContainsNaluType", n, func() { _ = avc.ContainsNaluType(in, avc.NALU_SPS); _ = avc.ContainsNaluType(in, 31) })
	x.call("avc.HasParameterSets", n, func() { _ = avc.HasParameterSets(in) })
	x.call("avc.GetParameterSets", n, func() { _, _ = avc.GetParameterSets(in) })
	x.call("avc.GetNalusFromSample", n, func() {
		if l, err := avc.GetNalusFromSample(in); err == nil && len(l) > 0 {
			x.ok()
		}
	})
	// ---- hevc walkers ----
	x.call("hevc.GetParameterSetsFromByteStream", n, func() { _, _, _ = hevc.GetParameterSetsFromByteStream(in) })
	for _, t := range []hevc.NaluType{1, 19, 32, 33, 34, 39} {
		t := t
		x.call("hevc.ExtractNalusOfTypeFromByteStream", n, func() {
			_ = hevc.ExtractNalusOfTypeFromByteStream(t, in, false)
			_ = hevc.ExtractNalusOfTypeFromByteStream(t, in, true)
		})
	}
	x.call("hevc.FindNaluTypes", n, func() { _ = hevc.FindNaluTypes(in) })
	x.call("hevc.FindNaluTypesUpToFirstVideoNalu", n, func() { _ = hevc.FindNaluTypesUpToFirstVideoNalu(in) })
	x.call("hevc.ContainsNaluType", n, func() { _ = hevc.ContainsNaluType(in, hevc.NALU_SPS); _ = hevc.ContainsNaluType(in, 63) })
	x.call("hevc.IsRAPSample", n, func() { _ = hevc.IsRAPSample(in) })
	x.call("hevc.IsIDRSample", n, func() { _ = hevc.IsIDRSample(in) })
	x.call("hevc.HasParameterSets", n, func() { _ = hevc.HasParameterSets(in) })
	x.call("hevc.GetParameterSets", n, func() { _, _, _ = hevc.GetParameterSets(in) })
	// ---- protection ranges (mp4) ----
	for _, scheme := range []string{"cenc", "cbcs"} {
		scheme := scheme
		x.call("mp4.GetAVCProtectRanges", n, func() {
			if _, err := mp4.GetAVCProtectRanges(m.avcSPS, m.avcPPS, in, scheme); err == nil {
				x.ok()
			}
		})
		x.call("mp4.GetHEVCProtectRanges", n, func() {
			if _, err := mp4.GetHEVCProtectRanges(m.hevcSPS, m.hevcPPS, in, scheme); err == nil {
				x.ok()
			}
		})
	}

	// ---- AVC NAL unit parsers ----
	for vi, v := range [][]byte{in, retag(in, 0x67)} {
		v := v
		for _, full := range []bool{false, true} {
			full := full
			var sps *avc.SPS
			x.call("avc.ParseSPSNALUnit", len(v), func() {
				s, err := avc.ParseSPSNALUnit(v, full)
				if err == nil && s != nil {
					sps = s
				}
			})
			if sps != nil {
				x.ok()
				x.c.Seen("parsed", "avc.SPS")
				x.call("avc.SPS methods", len(v), func() {
					_ = avc.CodecString("avc1", sps)
					_ = sps.ConstraintFlags()
					_ = sps.CpbDpbDelaysPresent()
					_ = sps.PicStructPresent()
					_ = sps.ChromaArrayType()
				})
			}
		}
		if vi == 1 || (n > 0 && in[0]&0x1f == 7) {
			x.call("avc.CreateAVCDecConfRec", len(v), func() {
				pps := [][]byte{{0x68, 0xce, 0x38, 0x80}}
				dcr, err := avc.CreateAVCDecConfRec([][]byte{v}, pps, true)
				if err == nil && dcr != nil {
					var buf bytes.Buffer
					_ = dcr.Encode(&buf)
					_ = dcr.Size()
				}
			})
		}
	}
	for _, v := range [][]byte{in, retag(in, 0x68)} {
		v := v
		x.call("avc.ParsePPSNALUnit", len(v), func() {
			if p, err := avc.ParsePPSNALUnit(v, m.avcSPS); err == nil && p != nil {
				x.ok()
				x.c.Seen("parsed", "avc.PPS")
			}
		})
	}
	vs := [][]byte{in}
	for _, h := range avcSliceHdrs {
		vs = append(vs, retag(in, h...))
	}
	for _, v := range vs {
		v := v
		x.call("avc.ParseSliceHeader", len(v), func() {
			if sh, err := avc.ParseSliceHeader(v, m.avcSPS, m.avcPPS); err == nil && sh != nil {
				x.ok()
				x.c.Seen("parsed", "avc.SliceHeader")
			}
		})
		x.call("avc.GetSliceTypeFromNALU", len(v), func() {
			if st, err := avc.GetSliceTypeFromNALU(v); err == nil {
				_ = st.String()
			}
		})
	}
	for _, v := range [][]byte{in, retag(in, 0x06)} {
		v := v
		var msgs []sei.SEIMessage
		x.call("avc.ParseSEINalu(nil)", len(v), func() { msgs = usable(avc.ParseSEINalu(v, nil)) })
		x.useMsgs("avc.ParseSEINalu", len(v), msgs)
		for i, sps := range m.avcSEISPS {
			if i != 0 && !x.isSEISeed() && (i+x.sel())%5 != 0 {
				continue // rotate through the external-parameter sets (all of them for SEI inputs)
			}
			sps := sps
			msgs = nil
			x.call("avc.ParseSEINalu(sps)", len(v), func() { msgs = usable(avc.ParseSEINalu(v, sps)) })
			x.useMsgs("avc.ParseSEINalu", len(v), msgs)
		}
	}
	x.call("avc.DecodeAVCDecConfRec", n, func() {
		dcr, err := avc.DecodeAVCDecConfRec(in)
		if err != nil {
			return
		}
		x.ok()
		x.c.Seen("parsed", "avc.DecConfRec")
		sz := dcr.Size()
		var buf bytes.Buffer
		_ = dcr.Encode(&buf)
		if sz < 1<<20 {
			sw := bits.NewFixedSliceWriter(int(sz))
			_ = dcr.EncodeSW(sw)
		}
	})

	// ---- HEVC NAL unit parsers ----
	for vi, v := range [][]byte{in, retag(in, 0x42, 0x01)} {
		v := v
		var sps *hevc.SPS
		x.call("hevc.ParseSPSNALUnit", len(v), func() {
			s, err := hevc.ParseSPSNALUnit(v)
			if err == nil && s != nil {
				sps = s
			}
		})
		if sps != nil {
			x.ok()
			x.c.Seen("parsed", "hevc.SPS")
			x.call("hevc.SPS methods", len(v), func() {
				_, _ = sps.ImageSize()
				_ = hevc.CodecString("hvc1", sps)
			})
		}
		if vi == 1 || (n > 0 && (in[0]>>1)&0x3f == 33) {
			x.call("hevc.CreateHEVCDecConfRec", len(v), func() {
				dcr, err := hevc.CreateHEVCDecConfRec([][]byte{{0x40, 0x01, 0x0c}}, [][]byte{v}, [][]byte{{0x44, 0x01, 0xc0}}, true, true, true, true)
				if err == nil {
					var buf bytes.Buffer
					_ = dcr.Encode(&buf)
					_ = dcr.Size()
				}
			})
		}
	}
	for _, v := range [][]byte{in, retag(in, 0x44, 0x01)} {
		v := v
		x.call("hevc.ParsePPSNALUnit", len(v), func() {
			if p, err := hevc.ParsePPSNALUnit(v, m.hevcSPS); err == nil && p != nil {
				x.ok()
				x.c.Seen("parsed", "hevc.PPS")
			}
		})
	}
	vs = [][]byte{in}
	for _, h := range hevcSliceHdrs {
		vs = append(vs, retag(in, h...))
	}
	for _, v := range vs {
		v := v
		x.call("hevc.ParseSliceHeader", len(v), func() {
			if sh, err := hevc.ParseSliceHeader(v, m.hevcSPS, m.hevcPPS); err == nil && sh != nil {
				x.ok()
				x.c.Seen("parsed", "hevc.SliceHeader")
				_ = sh.SliceType.String()
			}
		})
	}
	for vi, v := range [][]byte{in, retag(in, 0x4e, 0x01), retag(in, 0x50, 0x01)} {
		v := v
		if vi > 0 && bytes.Equal(v, in) {
			continue
		}
		var msgs []sei.SEIMessage
		x.call("hevc.ParseSEINalu(nil)", len(v), func() { msgs = usable(hevc.ParseSEINalu(v, nil)) })
		x.useMsgs("hevc.ParseSEINalu", len(v), msgs)
		for i, sps := range m.hevcSEISPS {
			if i != 0 && !x.isSEISeed() && (i+x.sel())%16 != 0 {
				continue
			}
			sps := sps
			msgs = nil
			x.call("hevc.ParseSEINalu(sps)", len(v), func() { msgs = usable(hevc.ParseSEINalu(v, sps)) })
			x.useMsgs("hevc.ParseSEINalu", len(v), msgs)
		}
	}
	x.call("hevc.DecodeHEVCDecConfRec", n, func() {
		dcr, err := hevc.DecodeHEVCDecConfRec(in)
		if err != nil {
			return
		}
		x.ok()
		x.c.Seen("parsed", "hevc.DecConfRec")
		sz := dcr.Size()
		var buf bytes.Buffer
		_ = dcr.Encode(&buf)
		if sz < 1<<20 {
			sw := bits.NewFixedSliceWriter(int(sz))
			_ = dcr.EncodeSW(sw)
		}
		for _, t := range []hevc.NaluType{32, 33, 34, 39} {
			_ = dcr.GetNalusForType(t)
		}
		for i := range dcr.NaluArrays {
			_ = dcr.NaluArrays[i].NaluType()
			_ = dcr.NaluArrays[i].Complete()
		}
	})

	// ---- SEI package ----
	var sds []sei.SEIData
	x.call("sei.ExtractSEIData", n, func() {
		var err error
		sds, err = sei.ExtractSEIData(bytes.NewReader(in))
		if err != nil && !errors.Is(err, sei.ErrRbspTrailingBitsMissing) {
			sds = nil
		}
	})
	for i := range sds {
		sd := &sds[i]
		x.ok()
		for _, codec := range []sei.Codec{sei.AVC, sei.HEVC} {
			codec := codec
			var msg sei.SEIMessage
			x.call("sei.DecodeSEIMessage", n, func() { msg = usable1(sei.DecodeSEIMessage(sd, codec)) })
			if msg != nil {
				x.useMsgs("sei.DecodeSEIMessage", n, []sei.SEIMessage{msg})
			}
		}
	}
	x.seiDirect(in, nil)

	// ---- audio ----
	x.call("aac.DecodeADTSHeader", n, func() {
		if h, _, err := aac.DecodeADTSHeader(bytes.NewReader(in)); err == nil && h != nil {
			x.ok()
			x.c.Seen("parsed", "aac.ADTSHeader")
			_ = h.Frequency()
			_ = h.Encode()
		}
	})
	x.call("aac.DecodeAudioSpecificConfig", n, func() {
		if a, err := aac.DecodeAudioSpecificConfig(bytes.NewReader(in)); err == nil && a != nil {
			x.ok()
			x.c.Seen("parsed", "aac.AudioSpecificConfig")
			var buf bytes.Buffer
			_ = a.Encode(&buf)
		}
	})
	// ---- AV1 ----
	x.call("av1.DecodeAV1CodecConfRec", n, func() {
		r, err := av1.DecodeAV1CodecConfRec(in)
		if err != nil {
			return
		}
		x.ok()
		x.c.Seen("parsed", "av1.CodecConfRec")
		sz := r.Size()
		var buf bytes.Buffer
		_ = r.Encode(&buf)
		if sz < 1<<20 {
			sw := bits.NewFixedSliceWriter(int(sz))
			_ = r.EncodeSW(sw)
		}
	})
}

var directTypes = []uint{1, 4, 5, 136, 137, 144, 0, 6, 45, 147, 255, 300}

// seiDirect hands the input as an SEI payload to every message decoder with
// every combination of external parameters. types == nil means all.
func (x *runCtx) seiDirect(pl []byte, types []uint) {
	n := len(pl)
	if types == nil {
		types = directTypes
	}
	one := func(op string, f func() (sei.SEIMessage, error)) {
		var msg sei.SEIMessage
		x.call(op, n, func() { msg = usable1(f()) })
		if msg != nil {
			x.useMsgs(op, n, []sei.SEIMessage{msg})
		}
	}
	for _, t := range types {
		sd := sei.NewSEIData(t, pl)
		one("sei.DecodeSEIMessage(AVC)", func() (sei.SEIMessage, error) { return sei.DecodeSEIMessage(sd, sei.AVC) })
		one("sei.DecodeSEIMessage(HEVC)", func() (sei.SEIMessage, error) { return sei.DecodeSEIMessage(sd, sei.HEVC) })
		one("sei.DecodeGeneralSEI", func() (sei.SEIMessage, error) { return sei.DecodeGeneralSEI(sd), nil })
	}
	sd := sei.NewSEIData(1, pl)
	one("sei.DecodePicTimingAvcSEI", func() (sei.SEIMessage, error) { return sei.DecodePicTimingAvcSEI(sd) })
	full := types != nil && len(types) == 1 || x.isSEISeed()
	k := 0
	for _, ln := range []byte{0, 7, 23, 31} {
		for _, tol := range []byte{0, 5, 24, 31} {
			ln, tol := ln, tol
			k++
			if !full && (k+x.sel())%4 != 0 {
				continue
			}
			one("sei.DecodePicTimingAvcSEIHRD", func() (sei.SEIMessage, error) {
				return sei.DecodePicTimingAvcSEIHRD(sd, &sei.CbpDbpDelay{CpbRemovalDelayLengthMinus1: ln, DpbOutputDelayLengthMinus1: 31 - ln, InitialCpbRemovalDelayLengthMinus1: ln}, tol)
			})
		}
	}
	one("sei.DecodePicTimingAvcSEIHRD", func() (sei.SEIMessage, error) { return sei.DecodePicTimingAvcSEIHRD(sd, nil, 31) })
	for _, ex := range hevcPTParamSets() {
		ex := ex
		k++
		if !full && (k+x.sel())%8 != 0 {
			continue
		}
		one("sei.DecodePicTimingHevcSEI", func() (sei.SEIMessage, error) { return sei.DecodePicTimingHevcSEI(sd, ex) })
	}
	sd4 := sei.NewSEIData(4, pl)
	one("sei.DecodeUserDataRegisteredSEI", func() (sei.SEIMessage, error) { return sei.DecodeUserDataRegisteredSEI(sd4) })
	one("sei.ExtractCEA608sei", func() (sei.SEIMessage, error) {
		m, err := sei.ExtractCEA608sei(sd4)
		if m == nil {
			return nil, err
		}
		return m, err
	})
	x.call("sei.ParseCEA608", n, func() { _, _, _ = sei.ParseCEA608(pl) })
	sd5 := sei.NewSEIData(5, pl)
	one("sei.DecodeUserDataUnregisteredSEI", func() (sei.SEIMessage, error) { return sei.DecodeUserDataUnregisteredSEI(sd5) })
	sd136 := sei.NewSEIData(136, pl)
	one("sei.DecodeTimeCodeSEI", func() (sei.SEIMessage, error) { return sei.DecodeTimeCodeSEI(sd136) })
	sd137 := sei.NewSEIData(137, pl)
	one("sei.DecodeMasteringDisplayColourVolumeSEI", func() (sei.SEIMessage, error) {
		return sei.DecodeMasteringDisplayColourVolumeSEI(sd137)
	})
	sd144 := sei.NewSEIData(144, pl)
	one("sei.DecodeContentLightLevelInformationSEI", func() (sei.SEIMessage, error) {
		return sei.DecodeContentLightLevelInformationSEI(sd144)
	})
	x.call("sei.DecodeClockTS", n, func() {
		c := sei.DecodeClockTS(bits.NewReader(bytes.NewReader(pl)))
		_ = c.String()
	})
	for _, tol := range []byte{0, 24, 31} {
		tol := tol
		x.call("sei.DecodeClockTSAvc", n, func() {
			c := sei.DecodeClockTSAvc(bits.NewReader(bytes.NewReader(pl)), tol)
			_ = c.String()
			_ = c.NrBits()
			_, _ = c.MarshalJSON()
		})
	}
	x.call("sei.SEIData methods", n, func() {
		_ = sd.Type()
		_ = sd.Size()
		_ = sd.String()
		_ = sd.Payload()
		_ = sei.SEIType(sd.Type()).String()
	})
}

// runSEIExtract: SEI extraction only (inputs whose size field announces up to
// 255 x their length: every extraction allocates that much, so the other ~400
// operations of runOps are not repeated on them).
func (x *runCtx) runSEIExtract() {
	x.exact = true
	in := x.in
	n := len(in)
	hdr := 2
	if n > 0 && in[0]&0x1f == 6 && in[0]&0x80 == 0 {
		hdr = 1
	}
	if n >= hdr {
		body := in[hdr:]
		x.call("sei.ExtractSEIData", len(body), func() {
			if sds, err := sei.ExtractSEIData(bytes.NewReader(body)); (err == nil || errors.Is(err, sei.ErrRbspTrailingBitsMissing)) && len(sds) > 0 {
				x.ok()
			}
		})
	}
	var msgs []sei.SEIMessage
	if hdr == 1 {
		x.call("avc.ParseSEINalu(nil)", n, func() { msgs = usable(avc.ParseSEINalu(in, nil)) })
		x.useMsgs("avc.ParseSEINalu", n, msgs)
		sps := x.maps.avcSEISPS[0]
		msgs = nil
		x.call("avc.ParseSEINalu(sps)", n, func() { msgs = usable(avc.ParseSEINalu(in, sps)) })
		x.useMsgs("avc.ParseSEINalu", n, msgs)
		return
	}
	x.call("hevc.ParseSEINalu(nil)", n, func() { msgs = usable(hevc.ParseSEINalu(in, nil)) })
	x.useMsgs("hevc.ParseSEINalu", n, msgs)
	sps := x.maps.hevcSEISPS[0]
	msgs = nil
	x.call("hevc.ParseSEINalu(sps)", n, func() { msgs = usable(hevc.ParseSEINalu(in, sps)) })
	x.useMsgs("hevc.ParseSEINalu", n, msgs)
}

// runSEINal sends an SEI NAL unit through the two ParseSEINalu functions with
// nil and with every external SPS value.
func (x *runCtx) runSEINal() {
	in, m := x.in, x.maps
	n := len(in)
	var msgs []sei.SEIMessage
	if n > 0 && in[0]&0x1f == 6 && in[0]&0x80 == 0 {
		x.call("avc.ParseSEINalu(nil)", n, func() { msgs = usable(avc.ParseSEINalu(in, nil)) })
		x.useMsgs("avc.ParseSEINalu", n, msgs)
		for _, sps := range m.avcSEISPS {
			sps := sps
			msgs = nil
			x.call("avc.ParseSEINalu(sps)", n, func() { msgs = usable(avc.ParseSEINalu(in, sps)) })
			x.useMsgs("avc.ParseSEINalu", n, msgs)
		}
		return
	}
	x.call("hevc.ParseSEINalu(nil)", n, func() { msgs = usable(hevc.ParseSEINalu(in, nil)) })
	x.useMsgs("hevc.ParseSEINalu", n, msgs)
	for _, sps := range m.hevcSEISPS {
		sps := sps
		msgs = nil
		x.call("hevc.ParseSEINalu(sps)", n, func() { msgs = usable(hevc.ParseSEINalu(in, sps)) })
		x.useMsgs("hevc.ParseSEINalu", n, msgs)
	}
}
