package c16

import (
	"bufio"
	"bytes"
	"encoding/hex"
	"encoding/json"
	"fmt"
	"io"
	"os"
	"os/exec"
	"path/filepath"
	"strings"
	"sync"
	"time"

	"verifharness/runner"
)

func hexs(b []byte) string { return hex.EncodeToString(b) }

func unhex(s string) []byte {
	b, _ := hex.DecodeString(s)
	return b
}

// probeProc is the worker's handle on its probe process.
type probeProc struct {
	cmd     *exec.Cmd
	in      io.WriteCloser
	out     *bufio.Reader
	stderr  *lockedBuf
	status  string
	started int
}

type lockedBuf struct {
	mu sync.Mutex
	b  bytes.Buffer
}

func (l *lockedBuf) Write(p []byte) (int, error) {
	l.mu.Lock()
	defer l.mu.Unlock()
	if l.b.Len() < 4<<20 {
		l.b.Write(p)
	}
	return len(p), nil
}

func (l *lockedBuf) String() string {
	l.mu.Lock()
	defer l.mu.Unlock()
	return l.b.String()
}

var (
	theProbe   *probeProc
	knownHangs = map[string]bool{} // hang keys confirmed in this worker
	probeSpawn int
	// A defect that a large share of all inputs reaches (a slice parser that never ends when the data runs out) would cost one
	// probe restart per call even as a presumed repeat. After suspendAfter presumed repeats of a confirmed hang key through the
	// same operation, that operation is suspended for the rest of the run (in every worker: shared through the known-hangs
	// file): not called any more, counted, named in a coverage note. The hang itself is reported; what else is wrong with the
	// operation shows after it is fixed.
	suspendedOps  = map[string]bool{}
	presumedByOp  = map[string]int{}
	toolHangs     = map[string]int{}  // tool -> reported hang verdicts (this run)
	toolPresumed  = map[string]int{}  // tool -> runs killed at the short timeout after a reported hang
	toolSuspended = map[string]bool{} // tool -> not run any more
)

const (
	suspendAfter     = 3
	toolSuspendAfter = 8
	// suspendAfterTrips: the same for measured (not presumed) trips - allocation bound crossed, probe killed - of one key
	// through one operation: each costs a probe restart, a fatal one up to seconds
	suspendAfterTrips = 50
)

// countTrip counts one trip of key through op and suspends op at the limit.
func countTrip(c *runner.Ctx, op, key string, limit int) {
	if c.Idx < 0 || op == "" {
		return
	}
	k := op + " behind " + key
	presumedByOp[k]++
	if presumedByOp[k] >= limit && !suspendedOps[op] {
		suspendedOps[op] = true
		shareKnown("suspend\t" + op)
		c.Seen("operation_suspended_behind_confirmed_hang_key", k)
	}
}

func startProbe(env *runner.Env) (*probeProc, error) {
	return startProbeIn(env.Scratch, "probe.status", env.RepoDir, env.Tier, false)
}

// startProbeIn starts a probe process whose status file is dir/statusName.
// bare: the probe does not load the seeds; it only serves the calls of setup
// (guard.go) and limits its own address space (it may be started by the
// parent, which has no limit).
func startProbeIn(dir, statusName, repoDir, tier string, bare bool) (*probeProc, error) {
	exe, err := os.Executable()
	if err != nil {
		return nil, err
	}
	status := filepath.Join(dir, statusName)
	if err := os.WriteFile(status, make([]byte, statusFileLen), 0o644); err != nil {
		return nil, err
	}
	args := []string{"--c16-probe", status, repoDir, tier}
	if bare {
		args = append(args, "bare")
	}
	cmd := exec.Command(exe, args...)
	cmd.Env = append(os.Environ(), "GOMAXPROCS=2", "GOTRACEBACK=all")
	p := &probeProc{cmd: cmd, status: status, stderr: &lockedBuf{}}
	cmd.Stderr = p.stderr
	if p.in, err = cmd.StdinPipe(); err != nil {
		return nil, err
	}
	so, err := cmd.StdoutPipe()
	if err != nil {
		return nil, err
	}
	p.out = bufio.NewReaderSize(so, 1<<20)
	if err := cmd.Start(); err != nil {
		return nil, err
	}
	probeSpawn++
	line, err := p.out.ReadBytes('\n')
	if err != nil || !bytes.Contains(line, []byte("ready")) {
		_ = cmd.Process.Kill()
		_ = cmd.Wait()
		return nil, fmt.Errorf("probe did not start: %v %s", err, head(p.stderr.String(), 500))
	}
	return p, nil
}

func (p *probeProc) stop() {
	if p == nil {
		return
	}
	_ = p.in.Close()
	done := make(chan struct{})
	go func() { _ = p.cmd.Wait(); close(done) }()
	select {
	case <-done:
	case <-time.After(2 * time.Second):
		_ = p.cmd.Process.Kill()
		<-done
	}
}

// lastStatus reads what the probe last wrote into the shared status file.
func (p *probeProc) lastStatus() (seq int, op string, chain, itemNo int) {
	b, err := os.ReadFile(p.status)
	if err != nil || len(b) < statusFileLen {
		return -1, "", 0, -1
	}
	v := uint64(0)
	for i := 7; i >= 0; i-- {
		v = v<<8 | uint64(b[i])
	}
	le32 := func(o int) int {
		return int(uint32(b[o]) | uint32(b[o+1])<<8 | uint32(b[o+2])<<16 | uint32(b[o+3])<<24)
	}
	s := b[16:]
	if i := bytes.IndexByte(s, 0); i >= 0 {
		s = s[:i]
	}
	return int(int64(v)), string(s), le32(8), le32(12)
}

// roundTrip sends one request. died reports that the probe process ended
// without answering (fatal error inside the library).
func (p *probeProc) roundTrip(req *probeReq) (resp *probeResp, died bool, err error) {
	b, err := json.Marshal(req)
	if err != nil {
		return nil, false, err
	}
	b = append(b, '\n')
	if _, err := p.in.Write(b); err != nil {
		return nil, true, nil
	}
	line, rerr := p.out.ReadBytes('\n')
	if rerr != nil {
		return nil, true, nil
	}
	resp = &probeResp{}
	if err := json.Unmarshal(line, resp); err != nil {
		return nil, false, fmt.Errorf("probe answered garbage: %v", err)
	}
	return resp, false, nil
}

const maxTripsPerCase = 6

// drive sends the job to the probe and turns what comes back into runner
// observations. Trips (bounds exceeded / probe death) restart the probe and
// continue the job with the offending operation skipped.
func drive(c *runner.Ctx, j *job) {
	req := &probeReq{Items: j.items, Chain: j.chain, Chains: j.chains}
	for attempt := 0; ; attempt++ {
		if theProbe == nil {
			p, err := startProbe(c.Env)
			if err != nil {
				c.Inconclusive("probe could not be started: " + head(err.Error(), 80))
				return
			}
			theProbe = p
		}
		loadSharedKnown()
		req.Known = req.Known[:0]
		for k := range knownHangs {
			req.Known = append(req.Known, k)
		}
		req.Suspended = req.Suspended[:0]
		for k := range suspendedOps {
			req.Suspended = append(req.Suspended, k)
		}
		if c.Idx < 0 {
			// replay of a saved witness: nothing is presumed or suspended (the setup of this process may just have
			// confirmed the very hang key the witness is about)
			req.Known, req.Suspended = nil, nil
		}
		resp, died, err := theProbe.roundTrip(req)
		if err != nil {
			c.Inconclusive("probe protocol error")
			theProbe.stop()
			theProbe = nil
			return
		}
		if !died && resp.Trip == nil {
			merge(c, resp)
			return
		}
		// the probe is gone (it exits after reporting a trip, or it died)
		var t *trip
		if died {
			_ = theProbe.cmd.Wait()
			se := theProbe.stderr.String()
			if strings.TrimSpace(se) == "" {
				// no Go crash dump: killed from outside (kernel OOM killer on a loaded machine)
				c.Inconclusive("probe process ended without a crash dump (killed from outside?)")
				theProbe = nil
				return
			}
			seq, op, chainNo, itemNo := theProbe.lastStatus()
			fr, class := crashSite(se)
			if f2 := loopFrame(dyingGoroutine(se)); f2 != "unknown" {
				fr = f2
			}
			t = &trip{Class: "fatal:" + class, Op: op, Seq: seq, Frame: fr, Stack: head(se, 4000), Item: itemNo, Chain: chainNo}
		} else {
			t = resp.Trip
			theProbe.stop()
		}
		theProbe = nil
		c.Count("probe_trips", 1)
		c.Seen("trip_class", t.Class)
		it := item{Desc: "?"}
		if t.Item >= 0 && t.Item < len(j.items) {
			it = j.items[t.Item]
		} else if len(j.items) > 0 {
			it = j.items[0]
		}
		ch := j.chain
		if len(j.chains) > 0 {
			ch = j.chains[0]
			if t.Chain >= 0 && t.Chain < len(j.chains) {
				ch = j.chains[t.Chain]
			}
		}
		if ch != nil && ch.Desc != "" {
			it.Desc = ch.Desc + " -> " + it.Desc
		}
		w := &witness{Op: t.Op, Input: hexs(it.In), Case: it.Desc, Chain: ch, Mode: it.Mode, Types: it.Types, Stack: t.Stack, Alloc: t.Alloc, Bound: t.Bound}
		if t.Class != "cpu-presumed" {
			c.Seen("violation_key_by_generator", curKind+" es/"+t.Frame+"/"+strings.TrimPrefix(t.Class, "fatal:")+" (trip)")
		}
		switch {
		case t.Class == "alloc":
			c.Violation("es/"+t.Frame+"/alloc", fmt.Sprintf("%s had allocated %d bytes for %d input bytes when it was stopped (bound %d = 8 MiB + 1024*len), inside %s (case %s)",
				t.Op, t.Alloc, t.Len, t.Bound, t.Frame, it.Desc), w)
			countTrip(c, t.Op, "es/"+t.Frame+"/alloc", suspendAfterTrips)
		case t.Class == "cpu-presumed":
			c.Count("presumed_repeats_of_confirmed_hang_keys(aborted at 30 ms CPU, not reported)", 1)
			c.Seen("presumed_repeat_of", "es/"+t.Frame+"/cpu")
			countTrip(c, t.Op, "es/"+t.Frame+"/cpu", suspendAfter)
		case t.Class == "cpu":
			// first exceedance: reproduce in a fresh probe before calling it a violation
			key := "es/" + t.Frame + "/cpu"
			confirmed := false
			if p2, err := startProbe(c.Env); err == nil {
				creq := &probeReq{Items: j.items, Chain: j.chain, Chains: j.chains, Poisoned: req.Poisoned, StopAt: t.Seq, Confirm: true}
				r2, died2, _ := p2.roundTrip(creq)
				if !died2 && r2 != nil && r2.Trip != nil && r2.Trip.Class == "cpu" && r2.Trip.Seq == t.Seq {
					confirmed = true
				}
				p2.stop()
			}
			if confirmed {
				knownHangs[key] = true
				shareKnown(key)
				c.Violation(key, fmt.Sprintf("%s used more than 2 s + 20 us*len CPU (%d ms when stopped, %d input bytes) twice (fresh process each time), spinning inside %s (case %s)",
					t.Op, t.CPUms, t.Len, t.Frame, it.Desc), w)
			} else {
				c.Inconclusive("cpu-exceedance-not-reproduced-in-fresh-probe")
			}
		case strings.HasPrefix(t.Class, "fatal:"):
			cl := strings.TrimPrefix(t.Class, "fatal:")
			c.Violation("es/"+t.Frame+"/"+cl, fmt.Sprintf("%s killed the process (%s) at %s: %s (case %s)", t.Op, cl, t.Frame, head(firstLine(t.Stack), 200), it.Desc), w)
			countTrip(c, t.Op, "es/"+t.Frame+"/"+cl, suspendAfterTrips)
		}
		if t.Seq <= 0 || attempt+1 >= maxTripsPerCase {
			c.Count("cases_abandoned_after_repeated_trips", 1)
			return
		}
		req.Poisoned = append(req.Poisoned, t.Seq)
	}
}

// dyingGoroutine returns the first goroutine section of a fatal dump (the
// one that was running when the runtime gave up).
func dyingGoroutine(se string) string {
	i := strings.Index(se, "\ngoroutine ")
	if i < 0 {
		return se
	}
	rest := se[i+1:]
	if j := strings.Index(rest, "\n\n"); j > 0 {
		return rest[:j]
	}
	return rest
}

func merge(c *runner.Ctx, r *probeResp) {
	for _, v := range r.Viol {
		c.Violation(v.Key, v.What, v.Detail)
		c.Seen("violation_key_by_generator", curKind+" "+v.Key)
	}
	for cat, m := range r.Seen {
		for k, n := range m {
			for i := int64(0); i < n && i < 20; i++ {
				c.Seen(cat, k)
			}
		}
	}
	for k, n := range r.Counts {
		c.Count(k, n)
	}
	for k, v := range r.Maxes {
		c.SetMax(k, v)
	}
	for _, h := range r.Accepted {
		c.Nontrivial(h)
	}
	c.Evals(r.NOps)
	for _, s := range r.Samples {
		if c.WantSample() {
			var v interface{}
			if json.Unmarshal(s, &v) == nil {
				c.Sample(v)
			}
		}
	}
}

// Hang keys confirmed by one worker are shared with the other workers of the
// same run through a small file named after the parent process, so that each
// hang defect costs its two full CPU budgets once per run and not once per
// worker. (Every reported violation is still backed by two exceedances in
// fresh processes; the file only widens the "presumed repeat" abort.)
func sharedKnownPath(ppid int) string {
	return filepath.Join(os.TempDir(), fmt.Sprintf("verif-C16-known-hangs.%d", ppid))
}

var sharedKnownSize int64 = -1

func loadSharedKnown() {
	p := sharedKnownPath(os.Getppid())
	st, err := os.Stat(p)
	if err != nil || st.Size() == sharedKnownSize {
		return
	}
	sharedKnownSize = st.Size()
	b, err := os.ReadFile(p)
	if err != nil {
		return
	}
	for _, l := range strings.Split(string(b), "\n") {
		switch {
		case strings.HasPrefix(l, "es/"):
			knownHangs[l] = true
		case strings.HasPrefix(l, "suspend\t"):
			suspendedOps[strings.TrimPrefix(l, "suspend\t")] = true
		case strings.HasPrefix(l, "toolhang\t"):
			if n := strings.TrimPrefix(l, "toolhang\t"); toolHangs[n] == 0 {
				toolHangs[n] = 1
			}
		case strings.HasPrefix(l, "toolsuspend\t"):
			toolSuspended[strings.TrimPrefix(l, "toolsuspend\t")] = true
		}
	}
}

func shareKnown(key string) {
	f, err := os.OpenFile(sharedKnownPath(os.Getppid()), os.O_CREATE|os.O_WRONLY|os.O_APPEND, 0o644)
	if err != nil {
		return
	}
	_, _ = f.WriteString(key + "\n")
	f.Close()
}
