package c16

// Library calls made while the seeds are loaded and the plan is built (Setup
// of every worker, start of every probe process, ParentInit) run on real
// inputs: the repo's own parameter sets and slices and the well-formed
// contexts drawn from the reference serializers. A crash, a hang or an
// allocation blow-up there is a C16 violation like any other (a parser failed
// on bytes), not a harness failure.
//
// Every such call is therefore vetted before it runs in-process: it is sent
// (operation, input, the parameter-set maps it is parsed against, as bytes) to
// a "bare" probe process - the probe of probe.go started without seeds - which
// executes it under the same monitor goroutine as the calls of the cases
// (8 MiB + 1024*len allocated, 2 s + 20 us*len CPU, a CPU exceedance
// reproduced in a fresh process; after a hang key is confirmed, calls found at
// 30 ms CPU inside the same function are presumed repeats). A call that trips
// a bound or kills the bare probe is never run in-process: it is recorded once
// per key together with the input and the parameter sets (so that the witness
// replays), the unit counts as "rejected by the library", and plan
// construction goes on. A call that comes back is then run in-process under a
// recover wrapper (its result is needed to build the maps); a panic is
// recorded the same way.
//
// The parent does this once (ParentInit runs the whole plan construction),
// writes the verdicts to a file under its scratch directory and names it in
// C16_SETUP_VETTED; workers and probes find every call of their own setup in
// that file, so all of them build the same plan and none of them runs a call
// that was found to hang. A process that does not find a call in the file
// (replay: there is no ParentInit) vets it itself. Case 0 reports the
// recorded violations.

import (
	"encoding/hex"
	"encoding/json"
	"fmt"
	"os"
	"path/filepath"
	"sort"
	"strings"

	"github.com/Eyevinn/mp4ff/avc"
	"github.com/Eyevinn/mp4ff/hevc"

	"verifharness/runner"
)

type setupViolation struct {
	key  string
	what string
	w    *witness
}

var (
	setupViol     = map[string]*setupViolation{}
	setupGuardN   int // library calls made during setup
	setupPanicN   int // of which panicked in-process
	setupRecorder = &localSink{}
	setupVerdictN = map[string]int{} // verdict class -> calls
	setupIncon    []string           // what could not be decided (reported by case 0 as inconclusive)
	// operations that plan construction stopped calling (suspendAfterTrips failures of one key) -> calls rejected unseen
	setupSuspendedOps = map[string]int{}
)

// ---------------------------------------------------------------------------
// description of a call (what the bare probe needs to repeat it)

// psRef: one parameter set of a map, with the ids under which it is entered.
type psRef struct {
	IDs []uint32 `json:"ids"`
	B   []byte   `json:"b"`
	SPS []psRef  `json:"sps,omitempty"` // PPS: the SPS map it was parsed against
}

type setupCall struct {
	Op    string  `json:"op"`
	Codec string  `json:"codec"`
	In    []byte  `json:"in"`
	SPS   []psRef `json:"sps,omitempty"`
	PPS   []psRef `json:"pps,omitempty"`
}

func (sc *setupCall) hash() uint64 {
	b, _ := json.Marshal(sc)
	return runner.Hash64(b)
}

// psOrigin: the bytes a parsed parameter set came from (every set in the maps
// of setup was returned by one of the setup* functions below).
type psOrigin struct {
	b   []byte
	sps []psRef
}

var psOrigins = map[interface{}]*psOrigin{}

// describeMap turns a map of parsed parameter sets (given as its ids and a
// lookup) into its byte description (ok false: a value of unknown origin, the
// call cannot be repeated elsewhere).
func describeMap(ids []uint32, get func(id uint32) interface{}) (refs []psRef, ok bool) {
	byPtr := map[interface{}]int{}
	sort.Slice(ids, func(i, j int) bool { return ids[i] < ids[j] })
	for _, id := range ids {
		p := get(id)
		k, seen := byPtr[p]
		if !seen {
			o := psOrigins[p]
			if o == nil {
				return nil, false
			}
			k = len(refs)
			byPtr[p] = k
			refs = append(refs, psRef{B: o.b, SPS: o.sps})
		}
		refs[k].IDs = append(refs[k].IDs, id)
	}
	return refs, true
}

func describeAVCSPS(m map[uint32]*avc.SPS) ([]psRef, bool) {
	ids := make([]uint32, 0, len(m))
	for id := range m {
		ids = append(ids, id)
	}
	return describeMap(ids, func(id uint32) interface{} { return m[id] })
}

func describeAVCPPS(m map[uint32]*avc.PPS) ([]psRef, bool) {
	ids := make([]uint32, 0, len(m))
	for id := range m {
		ids = append(ids, id)
	}
	return describeMap(ids, func(id uint32) interface{} { return m[id] })
}

func describeHEVCSPS(m map[uint32]*hevc.SPS) ([]psRef, bool) {
	ids := make([]uint32, 0, len(m))
	for id := range m {
		ids = append(ids, id)
	}
	return describeMap(ids, func(id uint32) interface{} { return m[id] })
}

func describeHEVCPPS(m map[uint32]*hevc.PPS) ([]psRef, bool) {
	ids := make([]uint32, 0, len(m))
	for id := range m {
		ids = append(ids, id)
	}
	return describeMap(ids, func(id uint32) interface{} { return m[id] })
}

// ---------------------------------------------------------------------------
// verdicts

type vetVerdict struct {
	Hash  uint64   `json:"hash"`
	Class string   `json:"class"` // ok | ok-alloc | cpu | alloc | fatal | cpu-presumed | cpu-unconfirmed | suspended | unvetted
	Key   string   `json:"key,omitempty"`
	What  string   `json:"what,omitempty"`
	W     *witness `json:"witness,omitempty"`
}

type vetFile struct {
	OK  []uint64      `json:"ok"`
	Bad []*vetVerdict `json:"bad"`
}

var (
	vetCache   map[uint64]*vetVerdict
	vetFresh   int // verdicts obtained by this process (not found in the file)
	vetProbe   *probeProc
	vetDir     string // where the bare probe's status file lives
	vetRepo    string
	vetTier    string
	vetOff     bool // no vetting (go test binaries cannot be started as probes)
	vetSpawned int
	okVerdict  = &vetVerdict{Class: "ok"}
	// bad verdicts per (operation, key) and the operations that are not vetted (and not called) any more
	vetBadByOp   = map[string]int{}
	vetSuspended = map[string]bool{}
)

const vetEnv = "C16_SETUP_VETTED"

// vetInit is called before the first library call of setup.
func vetInit(scratch, repo, tier string) {
	vetDir, vetRepo, vetTier = scratch, repo, tier
	vetOff = strings.HasSuffix(os.Args[0], ".test") || os.Getenv("C16_NO_VET") != ""
	if vetCache != nil {
		return
	}
	vetCache = map[uint64]*vetVerdict{}
	p := os.Getenv(vetEnv)
	if p == "" {
		return
	}
	b, err := os.ReadFile(p)
	if err != nil {
		return
	}
	var vf vetFile
	if json.Unmarshal(b, &vf) != nil {
		return
	}
	for _, h := range vf.OK {
		vetCache[h] = okVerdict
	}
	for _, v := range vf.Bad {
		vetCache[v.Hash] = v
		if v.Class == "cpu" && !devIgnoreSetupFindings() {
			knownHangs[v.Key] = true // later calls found inside the same function are presumed repeats
		}
	}
}

// vetPublish writes the verdicts of this process to a file and names it in the
// environment of the processes started from here on.
func vetPublish(dir string) {
	vetStop()
	if vetFresh == 0 || dir == "" {
		return
	}
	var vf vetFile
	for h, v := range vetCache {
		if v.Class == "ok" {
			vf.OK = append(vf.OK, h)
		} else if v.Class != "unvetted" {
			vf.Bad = append(vf.Bad, v)
		}
	}
	sort.Slice(vf.OK, func(i, j int) bool { return vf.OK[i] < vf.OK[j] })
	sort.Slice(vf.Bad, func(i, j int) bool { return vf.Bad[i].Hash < vf.Bad[j].Hash })
	b, err := json.Marshal(&vf)
	if err != nil {
		return
	}
	p := filepath.Join(dir, fmt.Sprintf("setup-vetted.%d.json", os.Getpid()))
	if os.WriteFile(p, b, 0o644) == nil {
		os.Setenv(vetEnv, p)
	}
}

func vetStop() {
	if vetProbe != nil {
		vetProbe.stop()
		vetProbe = nil
	}
}

func vetStart() *probeProc {
	if vetDir == "" {
		d, err := os.MkdirTemp("", "verif-C16-vet-")
		if err != nil {
			return nil
		}
		vetDir = d
	}
	p, err := startProbeIn(vetDir, fmt.Sprintf("vet.%d.status", os.Getpid()), vetRepo, vetTier, true)
	if err != nil {
		return nil
	}
	vetSpawned++
	return p
}

// vetCall returns the verdict on one call of setup.
func vetCall(sc *setupCall, base [][]byte) *vetVerdict {
	h := sc.hash()
	if v, ok := vetCache[h]; ok {
		return v
	}
	v := &vetVerdict{Class: "unvetted"}
	switch {
	case vetOff:
	case vetSuspended[sc.Op]:
		// (the verdicts are made once, by the parent, in the order of plan construction: the same for every worker)
		v = &vetVerdict{Class: "suspended"}
	default:
		v = scoutVerdict(sc, base)
		switch v.Class {
		case "cpu", "cpu-presumed", "alloc", "fatal":
			// a defect that most calls of an operation reach costs one bare probe per call (a fatal one a quarter of a second):
			// after suspendAfterTrips such verdicts of one key the operation counts as rejecting everything
			k := sc.Op + " behind " + v.Key
			vetBadByOp[k]++
			if vetBadByOp[k] >= suspendAfterTrips {
				vetSuspended[sc.Op] = true
			}
		}
	}
	if v != okVerdict {
		v.Hash = h
	}
	vetCache[h] = v
	vetFresh++
	return v
}

func knownHangList() []string {
	l := make([]string, 0, len(knownHangs))
	for k := range knownHangs {
		l = append(l, k)
	}
	sort.Strings(l)
	return l
}

// scoutVerdict runs the call in the bare probe.
func scoutVerdict(sc *setupCall, base [][]byte) *vetVerdict {
	w := &witness{Op: sc.Op, Input: hex.EncodeToString(sc.In), Mode: "all",
		Case: fmt.Sprintf("setup: %s on a well-formed %s seed unit of %d bytes while the plan was built", sc.Op, sc.Codec, len(sc.In))}
	if len(base) > 0 {
		ch := &chainDetail{Codec: sc.Codec}
		for _, b := range base {
			ch.Base = append(ch.Base, hex.EncodeToString(b))
		}
		w.Chain, w.Mode = ch, "dependent"
		w.Case += " (parsed against the parameter sets of its context, see chain.base_parameter_sets_hex)"
	}
	for attempt := 0; attempt < 3; attempt++ {
		if vetProbe == nil {
			if vetProbe = vetStart(); vetProbe == nil {
				break
			}
		}
		resp, died, err := vetProbe.roundTrip(&probeReq{Setup: sc, Known: knownHangList()})
		if err != nil {
			vetStop()
			continue
		}
		if !died && resp.Trip == nil {
			for _, pv := range resp.Viol {
				if strings.HasSuffix(pv.Key, "/alloc") && pv.Detail != nil {
					// the call came back, but had allocated more than the bound (between two readings of the monitor):
					// a violation, and safe to run in-process
					w.Alloc, w.Bound = pv.Detail.Alloc, pv.Detail.Bound
					return &vetVerdict{Class: "ok-alloc", Key: pv.Key, W: w,
						What: fmt.Sprintf("%s allocated %d bytes for %d input bytes (bound %d = 8 MiB + 1024*len) during plan construction (%s)", sc.Op, w.Alloc, len(sc.In), w.Bound, w.Case)}
				}
			}
			return okVerdict // (a panic shows again in-process and is recorded there)
		}
		var t *trip
		if died {
			_ = vetProbe.cmd.Wait()
			se := vetProbe.stderr.String()
			_, op, _, _ := vetProbe.lastStatus()
			vetProbe = nil
			if strings.TrimSpace(se) == "" || op != sc.Op {
				continue // killed from outside, or it did not get as far as the call: once more
			}
			fr, class := crashSite(se)
			if f2 := loopFrame(dyingGoroutine(se)); f2 != "unknown" {
				fr = f2
			}
			t = &trip{Class: "fatal:" + class, Op: op, Frame: fr, Stack: head(se, 4000), Len: len(sc.In)}
		} else {
			t = resp.Trip
			vetStop()
		}
		w.Stack, w.Alloc, w.Bound = t.Stack, t.Alloc, t.Bound
		switch {
		case t.Class == "alloc":
			return &vetVerdict{Class: "alloc", Key: "es/" + t.Frame + "/alloc", W: w,
				What: fmt.Sprintf("%s had allocated %d bytes for %d input bytes when it was stopped (bound %d = 8 MiB + 1024*len), inside %s, during plan construction (%s)",
					t.Op, t.Alloc, t.Len, t.Bound, t.Frame, w.Case)}
		case t.Class == "cpu-presumed":
			return &vetVerdict{Class: "cpu-presumed", Key: "es/" + t.Frame + "/cpu"}
		case t.Class == "cpu":
			key := "es/" + t.Frame + "/cpu"
			confirmed := false
			if p2 := vetStart(); p2 != nil {
				r2, died2, _ := p2.roundTrip(&probeReq{Setup: sc, Confirm: true})
				if !died2 && r2 != nil && r2.Trip != nil && r2.Trip.Class == "cpu" {
					confirmed = true
				}
				p2.stop()
			}
			if !confirmed {
				return &vetVerdict{Class: "cpu-unconfirmed", Key: key}
			}
			knownHangs[key] = true
			return &vetVerdict{Class: "cpu", Key: key, W: w,
				What: fmt.Sprintf("%s used more than 2 s + 20 us*len CPU (%d ms when stopped, %d input bytes) twice (fresh process each time), spinning inside %s, during plan construction (%s)",
					t.Op, t.CPUms, t.Len, t.Frame, w.Case)}
		case strings.HasPrefix(t.Class, "fatal:"):
			cl := strings.TrimPrefix(t.Class, "fatal:")
			return &vetVerdict{Class: "fatal", Key: "es/" + t.Frame + "/" + cl, W: w,
				What: fmt.Sprintf("%s killed the process (%s) at %s during plan construction: %s (%s)", t.Op, cl, t.Frame, head(firstLine(t.Stack), 200), w.Case)}
		}
	}
	return &vetVerdict{Class: "unvetted"}
}

// libCall makes one library call of setup/plan building: vetted in the bare
// probe, then run in-process under a recover wrapper. sc describes the call
// (nil maps of unknown origin: describable false, the call is not vetted),
// base the parameter sets for the witness (nil: derived from sc). It reports
// whether the call returned normally.
func libCall(sc *setupCall, describable bool, base [][]byte, f func()) bool {
	setupGuardN++
	if base == nil {
		// the distinct sets of the maps: the replay parses them first and makes each reachable under its own id
		seen := map[string]bool{}
		for _, l := range [][]psRef{sc.SPS, sc.PPS} {
			for _, r := range l {
				if !seen[string(r.B)] && len(base) < 48 {
					seen[string(r.B)] = true
					base = append(base, r.B)
				}
			}
		}
	}
	v := &vetVerdict{Class: "unvetted"}
	if describable {
		if vetCache == nil {
			vetInit("", "/repo", "quick")
		}
		v = vetCall(sc, base)
	}
	setupVerdictN[v.Class]++
	switch v.Class {
	case "ok", "unvetted":
	case "ok-alloc":
		if _, dup := setupViol[v.Key]; !dup {
			setupViol[v.Key] = &setupViolation{key: v.Key, what: v.What, w: v.W}
		}
	case "suspended":
		setupSuspendedOps[sc.Op]++
		return false
	case "cpu-presumed":
		return false // a repeat of a recorded key: rejected, not reported again
	case "cpu-unconfirmed":
		setupIncon = append(setupIncon, "setup: cpu exceedance of "+sc.Op+" not reproduced in a fresh process")
		return false
	default:
		if _, dup := setupViol[v.Key]; !dup {
			setupViol[v.Key] = &setupViolation{key: v.Key, what: v.What, w: v.W}
		}
		return false
	}
	pi := setupRecorder.Guard(f)
	if pi == nil {
		return true
	}
	setupPanicN++
	key := runner.PanicKey("es", pi)
	if _, dup := setupViol[key]; dup {
		return false
	}
	w := &witness{Op: sc.Op, Input: hex.EncodeToString(sc.In), Mode: "all", Stack: head(pi.Stack, 3000),
		Case: fmt.Sprintf("setup: %s on a well-formed %s seed unit of %d bytes while the plan was built", sc.Op, sc.Codec, len(sc.In))}
	if len(base) > 0 {
		ch := &chainDetail{Codec: sc.Codec}
		for _, b := range base {
			ch.Base = append(ch.Base, hex.EncodeToString(b))
		}
		w.Chain, w.Mode = ch, "dependent"
		w.Case += " (parsed against the parameter sets of its context, see chain.base_parameter_sets_hex)"
	}
	setupViol[key] = &setupViolation{key: key, w: w,
		what: fmt.Sprintf("%s panicked on %d input bytes during plan construction: %s (top frame %s; %s)", sc.Op, len(sc.In), pi.Value, pi.TopFrame, w.Case)}
	return false
}

// devIgnoreSetupFindings (validation aid, C16_DEV_IGNORE_SETUP_FINDINGS=1): the
// verdicts still keep plan construction safe, but they are neither reported
// nor used as known hang keys, so that one can see which generators find a
// defect on their own that setup happens to hit as well.
func devIgnoreSetupFindings() bool { return os.Getenv("C16_DEV_IGNORE_SETUP_FINDINGS") != "" }

// reportSetupViolations is called by case 0.
func reportSetupViolations(c *runner.Ctx) {
	if devIgnoreSetupFindings() {
		c.Count("setup_findings_ignored(development aid)", int64(len(setupViol)))
		return
	}
	c.Count("setup_library_calls_guarded", int64(setupGuardN))
	c.Count("setup_library_calls_panicked", int64(setupPanicN))
	for cl, n := range setupVerdictN {
		c.Count("setup_library_calls_by_verdict_of_the_bare_probe:"+cl, int64(n))
	}
	c.Count("setup_library_calls_vetted_by_this_worker_itself", int64(vetFresh))
	keys := make([]string, 0, len(setupViol))
	for k := range setupViol {
		keys = append(keys, k)
	}
	sort.Strings(keys)
	for _, k := range keys {
		v := setupViol[k]
		c.Violation(v.key, v.what, v.w)
		c.Seen("panicking_op", v.w.Op+" (setup)")
		c.Seen("violation_key_by_generator", "setup "+v.key)
	}
	for op, n := range setupSuspendedOps {
		c.Seen("operation_suspended_during_plan_construction", fmt.Sprintf("%s (%d later calls counted as rejected)", op, n))
	}
	for _, s := range setupIncon {
		c.Inconclusive(s)
	}
}

// ---------------------------------------------------------------------------
// the parsers used by setup (nil = rejected, panicked, hung or blew up)

func setupAVCSPS(u []byte) (sps *avc.SPS) {
	sc := &setupCall{Op: "avc.ParseSPSNALUnit", Codec: "avc", In: u}
	libCall(sc, true, nil, func() {
		if v, err := avc.ParseSPSNALUnit(u, true); err == nil {
			sps = v
		}
	})
	if sps != nil {
		psOrigins[sps] = &psOrigin{b: u}
	}
	return sps
}

func setupAVCPPS(u []byte, sm map[uint32]*avc.SPS) (pps *avc.PPS) {
	sc := &setupCall{Op: "avc.ParsePPSNALUnit", Codec: "avc", In: u}
	var ok bool
	sc.SPS, ok = describeAVCSPS(sm)
	libCall(sc, ok, nil, func() {
		if v, err := avc.ParsePPSNALUnit(u, sm); err == nil {
			pps = v
		}
	})
	if pps != nil && ok {
		psOrigins[pps] = &psOrigin{b: u, sps: sc.SPS}
	}
	return pps
}

func setupHEVCSPS(u []byte) (sps *hevc.SPS) {
	sc := &setupCall{Op: "hevc.ParseSPSNALUnit", Codec: "hevc", In: u}
	libCall(sc, true, nil, func() {
		if v, err := hevc.ParseSPSNALUnit(u); err == nil {
			sps = v
		}
	})
	if sps != nil {
		psOrigins[sps] = &psOrigin{b: u}
	}
	return sps
}

func setupHEVCPPS(u []byte, sm map[uint32]*hevc.SPS) (pps *hevc.PPS) {
	sc := &setupCall{Op: "hevc.ParsePPSNALUnit", Codec: "hevc", In: u}
	var ok bool
	sc.SPS, ok = describeHEVCSPS(sm)
	libCall(sc, ok, nil, func() {
		if v, err := hevc.ParsePPSNALUnit(u, sm); err == nil {
			pps = v
		}
	})
	if pps != nil && ok {
		psOrigins[pps] = &psOrigin{b: u, sps: sc.SPS}
	}
	return pps
}

func setupAVCSlice(u []byte, base [][]byte, sm map[uint32]*avc.SPS, pm map[uint32]*avc.PPS) (sh *avc.SliceHeader) {
	sc := &setupCall{Op: "avc.ParseSliceHeader", Codec: "avc", In: u}
	var ok1, ok2 bool
	sc.SPS, ok1 = describeAVCSPS(sm)
	sc.PPS, ok2 = describeAVCPPS(pm)
	libCall(sc, ok1 && ok2, base, func() {
		if v, err := avc.ParseSliceHeader(u, sm, pm); err == nil {
			sh = v
		}
	})
	return sh
}

func setupHEVCSlice(u []byte, base [][]byte, sm map[uint32]*hevc.SPS, pm map[uint32]*hevc.PPS) (sh *hevc.SliceHeader) {
	sc := &setupCall{Op: "hevc.ParseSliceHeader", Codec: "hevc", In: u}
	var ok1, ok2 bool
	sc.SPS, ok1 = describeHEVCSPS(sm)
	sc.PPS, ok2 = describeHEVCPPS(pm)
	libCall(sc, ok1 && ok2, base, func() {
		if v, err := hevc.ParseSliceHeader(u, sm, pm); err == nil {
			sh = v
		}
	})
	return sh
}
