package c16

// Library calls made while the seeds are loaded and the plan is built (Setup
// of every worker, start of every probe process) run on real inputs: the
// repo's own parameter sets and slices and the well-formed contexts drawn
// from the reference serializers. A panic there is a C16 violation like any
// other (a parser crashed on bytes), not a harness failure: it is recovered,
// recorded once per key together with the input (and the parameter sets it
// was parsed against, so that the witness replays), the call counts as
// "rejected by the library", and plan construction goes on. The recorded
// violations are the same in every worker (setup does not depend on the shard
// or on VERIF_SEED); case 0 reports them.

import (
	"encoding/hex"
	"fmt"
	"sort"

	"github.com/Eyevinn/mp4ff/avc"
	"github.com/Eyevinn/mp4ff/hevc"

	"verifharness/runner"
)

type setupViolation struct {
	key  string
	what string
	w    *witness
}

var (
	setupViol     = map[string]*setupViolation{}
	setupGuardN   int // guarded library calls made during setup
	setupPanicN   int // of which panicked
	setupRecorder = &localSink{}
)

// libCall runs one library call of setup/plan building under a recover
// wrapper. op names the entry point, in is the NAL unit handed to it, base
// the parameter sets (SPS, PPS) it was parsed against (nil for parameter sets
// themselves). It reports whether the call returned normally.
func libCall(op, codec string, in []byte, base [][]byte, f func()) bool {
	setupGuardN++
	pi := setupRecorder.Guard(f)
	if pi == nil {
		return true
	}
	setupPanicN++
	key := runner.PanicKey("es", pi)
	if _, dup := setupViol[key]; dup {
		return false
	}
	w := &witness{Op: op, Input: hex.EncodeToString(in), Mode: "all", Stack: head(pi.Stack, 3000),
		Case: fmt.Sprintf("setup: %s on a well-formed %s seed unit of %d bytes while the plan was built", op, codec, len(in))}
	if len(base) > 0 {
		ch := &chainDetail{Codec: codec}
		for _, b := range base {
			ch.Base = append(ch.Base, hex.EncodeToString(b))
		}
		w.Chain, w.Mode = ch, "dependent"
		w.Case += " (parsed against the parameter sets of its context, see chain.base_parameter_sets_hex)"
	}
	setupViol[key] = &setupViolation{key: key, w: w,
		what: fmt.Sprintf("%s panicked on %d input bytes during plan construction: %s (top frame %s; %s)", op, len(in), pi.Value, pi.TopFrame, w.Case)}
	return false
}

// reportSetupViolations is called by case 0.
func reportSetupViolations(c *runner.Ctx) {
	c.Count("setup_library_calls_guarded", int64(setupGuardN))
	c.Count("setup_library_calls_panicked", int64(setupPanicN))
	keys := make([]string, 0, len(setupViol))
	for k := range setupViol {
		keys = append(keys, k)
	}
	sort.Strings(keys)
	for _, k := range keys {
		v := setupViol[k]
		c.Violation(v.key, v.what, v.w)
		c.Seen("panicking_op", v.w.Op+" (setup)")
	}
}

// ---------------------------------------------------------------------------
// guarded parsers used by setup (nil = rejected or panicked)

func setupAVCSPS(u []byte) (sps *avc.SPS) {
	libCall("avc.ParseSPSNALUnit", "avc", u, nil, func() {
		if v, err := avc.ParseSPSNALUnit(u, true); err == nil {
			sps = v
		}
	})
	return sps
}

func setupAVCPPS(u []byte, sm map[uint32]*avc.SPS) (pps *avc.PPS) {
	libCall("avc.ParsePPSNALUnit", "avc", u, nil, func() {
		if v, err := avc.ParsePPSNALUnit(u, sm); err == nil {
			pps = v
		}
	})
	return pps
}

func setupHEVCSPS(u []byte) (sps *hevc.SPS) {
	libCall("hevc.ParseSPSNALUnit", "hevc", u, nil, func() {
		if v, err := hevc.ParseSPSNALUnit(u); err == nil {
			sps = v
		}
	})
	return sps
}

func setupHEVCPPS(u []byte, sm map[uint32]*hevc.SPS) (pps *hevc.PPS) {
	libCall("hevc.ParsePPSNALUnit", "hevc", u, nil, func() {
		if v, err := hevc.ParsePPSNALUnit(u, sm); err == nil {
			pps = v
		}
	})
	return pps
}

func setupAVCSlice(u []byte, base [][]byte, sm map[uint32]*avc.SPS, pm map[uint32]*avc.PPS) (sh *avc.SliceHeader) {
	libCall("avc.ParseSliceHeader", "avc", u, base, func() {
		if v, err := avc.ParseSliceHeader(u, sm, pm); err == nil {
			sh = v
		}
	})
	return sh
}

func setupHEVCSlice(u []byte, base [][]byte, sm map[uint32]*hevc.SPS, pm map[uint32]*hevc.PPS) (sh *hevc.SliceHeader) {
	libCall("hevc.ParseSliceHeader", "hevc", u, base, func() {
		if v, err := hevc.ParseSliceHeader(u, sm, pm); err == nil {
			sh = v
		}
	})
	return sh
}
