package c16

// tool-many-nalus (round 5): samples / Annex B streams made of very many very
// small NAL units, up to the monitor's largest input (64 KiB). The tools build
// one output line per sample; whatever they do per NAL unit must stay linear in
// the number of units. Verdict: the ordinary tool verdicts (crash, > 6 s CPU,
// resident set); the CPU time of every run is also recorded as
// maxima.tool_max_cpu_ms.

import (
	"fmt"

	"verifharness/runner"
)

var manyUnits = []struct {
	name  string
	codec string
	b     []byte
}{
	{"avc filler data (0c)", "avc", []byte{0x0c}},
	{"avc non-IDR slice header byte (41)", "avc", []byte{0x41}},
	{"avc SEI header byte (06)", "avc", []byte{0x06}},
	{"hevc filler data (4c 01)", "hevc", []byte{0x4c, 0x01}},
	{"hevc prefix SEI header (4e 01)", "hevc", []byte{0x4e, 0x01}},
	{"hevc one-byte unit (02)", "hevc", []byte{0x02}},
}

const manyMaxInput = 64 << 10

var manyFormats = []string{"annexb", "mp4-prog", "mp4-frag"}

// manyCounts: number of units; 0 = as many as fit into 64 KiB.
var manyCounts = []int{256, 4096, 0}

func manyNalusCount() int { return len(manyUnits) * len(manyFormats) * len(manyCounts) }

func runManyNalus(c *runner.Ctx, sub int) {
	u := manyUnits[sub%len(manyUnits)]
	format := manyFormats[(sub/len(manyUnits))%len(manyFormats)]
	n := manyCounts[(sub/len(manyUnits)/len(manyFormats))%len(manyCounts)]
	per := 3 + len(u.b) // Annex B: 3-byte start code
	if format != "annexb" {
		per = 4 + len(u.b)
	}
	if n == 0 || n*per > manyMaxInput {
		n = manyMaxInput / per
	}
	c.Seen("many_nalus_case", fmt.Sprintf("%s x %d as %s", u.name, n, format))
	desc := fmt.Sprintf("tool-many-nalus: %d NAL units %x (%s), %d bytes as %s", n, u.b, u.name, n*per, format)
	if format == "annexb" {
		in := make([]byte, 0, n*per)
		for i := 0; i < n; i++ {
			in = append(in, 0, 0, 1)
			in = append(in, u.b...)
		}
		if c.WantSample() {
			c.Sample(map[string]interface{}{"case": desc, "input_len": len(in)})
		}
		runTools(c, in, desc)
		return
	}
	smp := make([]byte, 0, n*per)
	for i := 0; i < n; i++ {
		smp = append(smp, be32(uint32(len(u.b)))...)
		smp = append(smp, u.b...)
	}
	groups := mp4Groups(u.codec)
	if len(groups) == 0 {
		c.Count("mp4_tool_cases_without_material", 1)
		return
	}
	g := groups[c.Rand.Intn(len(groups))]
	spec := &mp4Spec{Frame: map[string]string{"mp4-prog": "prog", "mp4-frag": "frag"}[format], Samples: [][]byte{smp, secondSample(c.Rand, u.codec, g)}}
	if u.codec == "avc" {
		spec.Entry = "avc1"
		spec.Config, _ = cfgClasses[0].avc(c.Rand, g)
	} else {
		spec.Entry = "hvc1"
		spec.Config, _ = cfgClasses[0].hevc(c.Rand, g)
	}
	file, ok := spec.build()
	if !ok {
		c.Inconclusive("tool-many-nalus: the file could not be built")
		return
	}
	if c.WantSample() {
		c.Sample(map[string]interface{}{"case": desc, "file_len": len(file)})
	}
	runMP4Tools(c, file, u.codec, desc, []string{spec.Frame, "valid", "many-nalus", "none"})
}
