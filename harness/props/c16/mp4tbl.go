package c16

// Hostile sample-table / fragment-table values around valid frames (round 5).
//
// mp4ff-nallister and mp4ff-pslister locate the elementary-stream bytes they
// parse through the sample tables of the file: chunk offsets (stco / co64),
// sample sizes (stsz), sample-to-chunk runs (stsc), the time tables (stts,
// ctts), and for fragments mvex/trex, tfhd and the trun data offset and sample
// sizes. The tool code behind the container parser indexes and slices with
// these values. This file takes a *valid* file built by mp4Spec.build (valid
// samples, any frame) and changes exactly one table field (or removes exactly
// one box), keeping every box size, every other table and every other offset
// consistent, so that mp4.DecodeFile still accepts the container and the tool
// code runs with the hostile value.
//
// Mechanism: the file is an image that is edited box-wise with the independent
// walker ref/boxwalk. An edit that changes a box length (stco -> co64, more
// stsz entries, a removed box) adjusts the sizes of all ancestors and moves
// every chunk offset / trun data offset that points behind the edit, so the
// file is valid again after the structural step; the hostile value is then
// written in place. Structural steps alone are "control" classes (co64 with
// the right offsets, no ctts, tfhd with base_data_offset = moof start): the
// tools must accept them, which checks the mechanism itself.

import (
	"encoding/binary"
	"fmt"

	"verifharness/ref/boxwalk"
)

type mp4Image struct {
	b []byte
}

func (m *mp4Image) walk() []*boxwalk.Node {
	nodes, err := boxwalk.Walk(m.b)
	if err != nil {
		return nil
	}
	return nodes
}

// find returns the first box of the type (document order), or nil.
func (m *mp4Image) find(typ string) *boxwalk.Node {
	l := boxwalk.Find(m.walk(), typ)
	if len(l) == 0 {
		return nil
	}
	return l[0]
}

func (m *mp4Image) u32(n *boxwalk.Node, off int) uint32 {
	return binary.BigEndian.Uint32(m.b[n.Start+n.HdrLen+off:])
}

// put32 writes a 32-bit field at payload offset off of box n in place.
func (m *mp4Image) put32(n *boxwalk.Node, off int, v uint32) bool {
	p := n.Start + n.HdrLen + off
	if off < 0 || p+4 > n.End() {
		return false
	}
	binary.BigEndian.PutUint32(m.b[p:], v)
	return true
}

func (m *mp4Image) put64(n *boxwalk.Node, off int, v uint64) bool {
	p := n.Start + n.HdrLen + off
	if off < 0 || p+8 > n.End() {
		return false
	}
	binary.BigEndian.PutUint64(m.b[p:], v)
	return true
}

// trunLayout: payload offsets of a trun box (version/flags first).
type trunLayout struct {
	flags             uint32
	count             int
	dataOffAt         int // payload offset of data_offset, -1 if absent
	entriesAt, entryN int // first entry, bytes per entry
	sizeIn            int // offset of sample_size inside an entry, -1 if absent
}

func parseTrun(p []byte) (t trunLayout, ok bool) {
	if len(p) < 8 {
		return t, false
	}
	t.flags = binary.BigEndian.Uint32(p) & 0xffffff
	t.count = int(binary.BigEndian.Uint32(p[4:]))
	pos := 8
	t.dataOffAt, t.sizeIn = -1, -1
	if t.flags&0x1 != 0 {
		t.dataOffAt = pos
		pos += 4
	}
	if t.flags&0x4 != 0 {
		pos += 4
	}
	t.entriesAt = pos
	if t.flags&0x100 != 0 {
		t.entryN += 4
	}
	if t.flags&0x200 != 0 {
		t.sizeIn = t.entryN
		t.entryN += 4
	}
	if t.flags&0x400 != 0 {
		t.entryN += 4
	}
	if t.flags&0x800 != 0 {
		t.entryN += 4
	}
	return t, pos+t.count*t.entryN <= len(p)
}

// replace puts repl (nil: nothing) where box n was, adjusts the size field of
// every ancestor and moves every offset that points behind the edit: 32/64-bit
// chunk offsets, and the data_offset of the truns of the moof that contains
// the edit (the mdat that follows moves relative to the moof start).
func (m *mp4Image) replace(n *boxwalk.Node, repl []byte) bool {
	delta := len(repl) - n.Size
	out := cat(m.b[:n.Start], repl, m.b[n.End():])
	var oldMoof *boxwalk.Node
	for a := n.Parent; a != nil; a = a.Parent {
		if a.Large {
			return false
		}
		binary.BigEndian.PutUint32(out[a.Start:], uint32(a.Size+delta))
		if a.Type == "moof" {
			oldMoof = a
		}
	}
	m.b = out
	if delta == 0 {
		return true
	}
	nodes := m.walk()
	if nodes == nil {
		return false
	}
	end := uint64(n.End())
	for _, st := range boxwalk.Find(nodes, "stco") {
		p := st.Payload(m.b)
		if len(p) < 8 {
			continue
		}
		cnt := int(binary.BigEndian.Uint32(p[4:]))
		for i := 0; i < cnt && 8+4*i+4 <= len(p); i++ {
			if v := binary.BigEndian.Uint32(p[8+4*i:]); uint64(v) >= end {
				binary.BigEndian.PutUint32(p[8+4*i:], uint32(int64(v)+int64(delta)))
			}
		}
	}
	for _, st := range boxwalk.Find(nodes, "co64") {
		p := st.Payload(m.b)
		if len(p) < 8 {
			continue
		}
		cnt := int(binary.BigEndian.Uint32(p[4:]))
		for i := 0; i < cnt && 8+8*i+8 <= len(p); i++ {
			if v := binary.BigEndian.Uint64(p[8+8*i:]); v >= end {
				binary.BigEndian.PutUint64(p[8+8*i:], uint64(int64(v)+int64(delta)))
			}
		}
	}
	if oldMoof != nil {
		// the moof start did not move (the edit is inside it)
		for _, mf := range boxwalk.Find(nodes, "moof") {
			if mf.Start != oldMoof.Start {
				continue
			}
			for _, tr := range boxwalk.Find([]*boxwalk.Node{mf}, "trun") {
				p := tr.Payload(m.b)
				t, ok := parseTrun(p)
				if !ok || t.dataOffAt < 0 {
					continue
				}
				do := int64(int32(binary.BigEndian.Uint32(p[t.dataOffAt:])))
				if int64(mf.Start)+do >= int64(end) {
					binary.BigEndian.PutUint32(p[t.dataOffAt:], uint32(int32(do+int64(delta))))
				}
			}
		}
	}
	return true
}

// remove takes box n out of the file.
func (m *mp4Image) remove(n *boxwalk.Node) bool { return m.replace(n, nil) }

// ---------------------------------------------------------------------------
// what the classes need to know about a file

type progInfo struct {
	stbl, stco, stsz, stsc, stts, ctts, mdat *boxwalk.Node
	P, L, F                                  int // mdat payload start, payload length, file length
	n                                        int // stsz sample_count
	sizes                                    []uint32
	chunk0                                   uint32
}

func (m *mp4Image) prog() *progInfo {
	nodes := m.walk()
	st := boxwalk.Find(nodes, "stbl")
	md := boxwalk.Find(nodes, "mdat")
	if len(st) == 0 || len(md) == 0 {
		return nil
	}
	pi := &progInfo{stbl: st[0], mdat: md[0], F: len(m.b)}
	pi.stco, pi.stsz, pi.stsc, pi.stts, pi.ctts = pi.stbl.Child("stco"), pi.stbl.Child("stsz"), pi.stbl.Child("stsc"), pi.stbl.Child("stts"), pi.stbl.Child("ctts")
	if pi.stco == nil || pi.stsz == nil || pi.stsc == nil || pi.stts == nil {
		return nil
	}
	pi.P, pi.L = pi.mdat.Start+pi.mdat.HdrLen, pi.mdat.Size-pi.mdat.HdrLen
	co, sz := pi.stco.Payload(m.b), pi.stsz.Payload(m.b)
	if len(co) < 12 || len(sz) < 12 || binary.BigEndian.Uint32(co[4:]) < 1 || binary.BigEndian.Uint32(sz[4:]) != 0 {
		return nil
	}
	pi.chunk0 = binary.BigEndian.Uint32(co[8:])
	pi.n = int(binary.BigEndian.Uint32(sz[8:]))
	if pi.n < 2 || 12+4*pi.n > len(sz) {
		return nil
	}
	for i := 0; i < pi.n; i++ {
		pi.sizes = append(pi.sizes, binary.BigEndian.Uint32(sz[12+4*i:]))
	}
	return pi
}

type fragInfo struct {
	moov, mvex, trex, moof, traf, tfhd, tfdt, trun, mfhd, mdat *boxwalk.Node
	tl                                                         trunLayout
	P, L, F                                                    int
	dataOff                                                    int32
}

func (m *mp4Image) frag() *fragInfo {
	nodes := m.walk()
	mf := boxwalk.Find(nodes, "moof")
	if len(mf) == 0 {
		return nil
	}
	fi := &fragInfo{moof: mf[0], F: len(m.b)}
	for _, n := range nodes {
		switch {
		case n.Type == "moov":
			fi.moov = n
			fi.mvex = n.Child("mvex")
			if fi.mvex != nil {
				fi.trex = fi.mvex.Child("trex")
			}
		case n.Type == "mdat" && n.Start > fi.moof.Start && fi.mdat == nil:
			fi.mdat = n
		}
	}
	fi.mfhd, fi.traf = fi.moof.Child("mfhd"), fi.moof.Child("traf")
	if fi.traf == nil || fi.mdat == nil {
		return nil
	}
	fi.tfhd, fi.tfdt, fi.trun = fi.traf.Child("tfhd"), fi.traf.Child("tfdt"), fi.traf.Child("trun")
	if fi.tfhd == nil || fi.trun == nil {
		return nil
	}
	var ok bool
	fi.tl, ok = parseTrun(fi.trun.Payload(m.b))
	if !ok || fi.tl.dataOffAt < 0 || fi.tl.sizeIn < 0 || fi.tl.count < 2 {
		return nil
	}
	fi.P, fi.L = fi.mdat.Start+fi.mdat.HdrLen, fi.mdat.Size-fi.mdat.HdrLen
	fi.dataOff = int32(m.u32(fi.trun, fi.tl.dataOffAt))
	return fi
}

func fullBoxOf(m *mp4Image, n *boxwalk.Node, typ string, payloadAfterVF ...[]byte) []byte {
	vf := m.b[n.Start+n.HdrLen : n.Start+n.HdrLen+4]
	return mkBox(typ, append([][]byte{vf}, payloadAfterVF...)...)
}

// ---------------------------------------------------------------------------
// the classes

// tblClass is one single-field change. kind: "prog" (progressive frames),
// "frag" (every frame with a moof), "init" (fragmented frames with a moov).
type tblClass struct {
	name    string
	kind    string
	nvar    int  // number of value variants
	control bool // the file stays valid: both tools must accept it
	apply   func(m *mp4Image, v int) (what string, ok bool)
}

func pickU64(v int, l ...uint64) uint64 { return l[v%len(l)] }

// coClass: the first chunk offset set to f(info) in place.
func coClass(name string, nvar int, f func(pi *progInfo, v int) uint32) tblClass {
	return tblClass{name: name, kind: "prog", nvar: nvar, apply: func(m *mp4Image, v int) (string, bool) {
		pi := m.prog()
		if pi == nil {
			return "", false
		}
		x := f(pi, v)
		return fmt.Sprintf("stco chunk_offset[0] = %d (mdat payload %d..%d, file %d bytes)", x, pi.P, pi.P+pi.L, pi.F), m.put32(pi.stco, 8, x)
	}}
}

// toCo64 replaces stco by a co64 with the same (valid) offsets.
func toCo64(m *mp4Image) bool {
	pi := m.prog()
	if pi == nil {
		return false
	}
	co := pi.stco.Payload(m.b)
	cnt := int(binary.BigEndian.Uint32(co[4:]))
	if 8+4*cnt > len(co) {
		return false
	}
	var ent []byte
	for i := 0; i < cnt; i++ {
		ent = append(ent, be64(uint64(binary.BigEndian.Uint32(co[8+4*i:])))...)
	}
	return m.replace(pi.stco, fullBoxOf(m, pi.stco, "co64", be32(uint32(cnt)), ent))
}

// sampleIdx: which sample a size variant hits: first, second, last.
func sampleIdx(v, n int) int {
	switch v % 3 {
	case 0:
		return 0
	case 1:
		return 1
	}
	return n - 1
}

func sizeClass(name string, nvar int, f func(pi *progInfo, k, v int) uint32) tblClass {
	return tblClass{name: name, kind: "prog", nvar: nvar, apply: func(m *mp4Image, v int) (string, bool) {
		pi := m.prog()
		if pi == nil {
			return "", false
		}
		k := sampleIdx(v, pi.n)
		x := f(pi, k, v/3)
		return fmt.Sprintf("stsz entry_size[%d] = %d instead of %d (%d samples, mdat payload %d bytes)", k, x, pi.sizes[k], pi.n, pi.L), m.put32(pi.stsz, 12+4*k, x)
	}}
}

// bytesBefore: sum of the sizes of the samples before sample k.
func (pi *progInfo) bytesBefore(k int) int {
	s := 0
	for i := 0; i < k; i++ {
		s += int(pi.sizes[i])
	}
	return s
}

func stscClass(name string, nvar int, off int, vals ...uint32) tblClass {
	field := map[int]string{8: "first_chunk", 12: "samples_per_chunk", 16: "sample_description_index"}[off]
	return tblClass{name: name, kind: "prog", nvar: nvar, apply: func(m *mp4Image, v int) (string, bool) {
		pi := m.prog()
		if pi == nil || len(pi.stsc.Payload(m.b)) < 20 {
			return "", false
		}
		x := vals[v%len(vals)]
		return fmt.Sprintf("stsc entry 1 %s = %d instead of %d (%d samples, 1 chunk offset)", field, x, m.u32(pi.stsc, off), pi.n), m.put32(pi.stsc, off, x)
	}}
}

// emptyTable: the full box rewritten with entry_count 0 and no entries.
func emptyTable(typ string) tblClass {
	return tblClass{name: typ + "-empty", kind: "prog", nvar: 1, apply: func(m *mp4Image, v int) (string, bool) {
		pi := m.prog()
		if pi == nil {
			return "", false
		}
		n := pi.stbl.Child(typ)
		if n == nil {
			return "", false
		}
		return typ + " rewritten with entry_count 0 (stsz unchanged)", m.replace(n, fullBoxOf(m, n, typ, be32(0)))
	}}
}

func missingBox(typ, kind string, control bool) tblClass {
	name := "missing-" + typ
	if kind == "frag" && typ == "mdat" {
		name = "frag-missing-mdat"
	}
	if kind == "init" && typ != "mvex" && typ != "trex" {
		name = "init-missing-" + typ // the moov box of a fragmented file
	}
	return tblClass{name: name, kind: kind, nvar: 1, control: control, apply: func(m *mp4Image, v int) (string, bool) {
		var n *boxwalk.Node
		if kind == "prog" || typ != "mdat" {
			n = m.find(typ)
		} else if fi := m.frag(); fi != nil {
			n = fi.mdat
		}
		if n == nil {
			return "", false
		}
		return "the " + typ + " box removed (" + n.Path() + ")", m.remove(n)
	}}
}

func trunOffClass(name string, nvar int, f func(fi *fragInfo, v int) int64) tblClass {
	return tblClass{name: name, kind: "frag", nvar: nvar, apply: func(m *mp4Image, v int) (string, bool) {
		fi := m.frag()
		if fi == nil {
			return "", false
		}
		abs := f(fi, v) // absolute file position the samples are said to start at
		rel := abs - int64(fi.moof.Start)
		return fmt.Sprintf("trun data_offset = %d instead of %d (moof at %d, mdat payload %d..%d, file %d bytes)", int32(rel), fi.dataOff, fi.moof.Start, fi.P, fi.P+fi.L, fi.F),
			m.put32(fi.trun, fi.tl.dataOffAt, uint32(int32(rel)))
	}}
}

func trunSizeClass(name string, nvar int, f func(fi *fragInfo, k, v int) uint32) tblClass {
	return tblClass{name: name, kind: "frag", nvar: nvar, apply: func(m *mp4Image, v int) (string, bool) {
		fi := m.frag()
		if fi == nil {
			return "", false
		}
		k := sampleIdx(v, fi.tl.count)
		at := fi.tl.entriesAt + k*fi.tl.entryN + fi.tl.sizeIn
		x := f(fi, k, v/3)
		return fmt.Sprintf("trun sample_size[%d] = %d instead of %d (%d samples, mdat payload %d bytes)", k, x, m.u32(fi.trun, at), fi.tl.count, fi.L), m.put32(fi.trun, at, x)
	}}
}

func (fi *fragInfo) trunBytesBefore(m *mp4Image, k int) int {
	s := 0
	for i := 0; i < k; i++ {
		s += int(m.u32(fi.trun, fi.tl.entriesAt+i*fi.tl.entryN+fi.tl.sizeIn))
	}
	return s
}

// tfhdWith rewrites the tfhd with the base_data_offset / default_sample_size
// fields added (flags 0x01 / 0x10); the other optional fields are kept.
func tfhdWith(m *mp4Image, fi *fragInfo, base *uint64, defSize *uint32) bool {
	p := fi.tfhd.Payload(m.b)
	if len(p) < 8 {
		return false
	}
	flags := binary.BigEndian.Uint32(p) & 0xffffff
	if flags&0x11 != 0 {
		return false
	}
	rest := p[8:]
	var sdi, dur []byte
	if flags&0x2 != 0 {
		sdi, rest = rest[:4], rest[4:]
	}
	if flags&0x8 != 0 {
		dur, rest = rest[:4], rest[4:]
	}
	var b, s []byte
	if base != nil {
		flags |= 0x1
		b = be64(*base)
	}
	if defSize != nil {
		flags |= 0x10
		s = be32(*defSize)
	}
	vf := be32(flags)
	vf[0] = p[0]
	return m.replace(fi.tfhd, mkBox("tfhd", vf, p[4:8], b, sdi, dur, s, rest))
}

var tblClasses = []tblClass{
	// --- chunk offsets (stco entry 0; every sample of the file sits in chunk 1)
	coClass("co-zero", 1, func(pi *progInfo, v int) uint32 { return 0 }),
	coClass("co-before-mdat", 4, func(pi *progInfo, v int) uint32 {
		// the byte before the payload, the mdat header, the start of the file, inside the box before mdat
		return uint32(pickU64(v, uint64(pi.P-1), uint64(pi.P-8), 8, uint64(pi.P/2)))
	}),
	coClass("co-last-byte-of-mdat", 2, func(pi *progInfo, v int) uint32 {
		return uint32(pickU64(v, uint64(pi.P+pi.L-1), uint64(pi.P+pi.L-3)))
	}),
	coClass("co-end-of-mdat", 1, func(pi *progInfo, v int) uint32 { return uint32(pi.P + pi.L) }),
	coClass("co-beyond-file", 3, func(pi *progInfo, v int) uint32 {
		return uint32(pickU64(v, uint64(pi.F), uint64(pi.F+1), uint64(pi.F+100000)))
	}),
	coClass("co-max32", 4, func(pi *progInfo, v int) uint32 {
		return uint32(pickU64(v, 0xffffffff, 0xfffffff0, 0x80000000, 0x7fffffff))
	}),
	{name: "co64-valid", kind: "prog", nvar: 1, control: true, apply: func(m *mp4Image, v int) (string, bool) {
		return "stco replaced by co64 with the same chunk offsets", toCo64(m)
	}},
	{name: "co64-huge", kind: "prog", nvar: 5, apply: func(m *mp4Image, v int) (string, bool) {
		if !toCo64(m) {
			return "", false
		}
		n := m.find("co64")
		x := pickU64(v, 1<<63, 1<<64-1, 1<<32, 1<<63-1, 1<<32+uint64(m.prog2P()))
		return fmt.Sprintf("stco replaced by co64, chunk_offset[0] = %d", x), n != nil && m.put64(n, 8, x)
	}},
	// --- sample sizes (stsz entry of the first / second / last sample)
	sizeClass("size-zero", 3, func(pi *progInfo, k, v int) uint32 { return 0 }),
	sizeClass("size-one", 3, func(pi *progInfo, k, v int) uint32 { return 1 }),
	sizeClass("size-beyond-mdat", 6, func(pi *progInfo, k, v int) uint32 {
		if v%2 == 0 {
			return uint32(pi.L - pi.bytesBefore(k) + 1) // one byte more than the mdat holds from this sample on
		}
		return uint32(pi.L + 1)
	}),
	sizeClass("size-max32", 9, func(pi *progInfo, k, v int) uint32 {
		return uint32(pickU64(v, 0xffffffff, 0x80000000, 0x7fffffff))
	}),
	{name: "stsz-uniform-size-huge", kind: "prog", nvar: 3, apply: func(m *mp4Image, v int) (string, bool) {
		// sample_size != 0: no table; every sample has that size
		pi := m.prog()
		if pi == nil {
			return "", false
		}
		x := uint32(pickU64(v, uint64(pi.L+1), 0xffffffff, uint64(pi.L)))
		return fmt.Sprintf("stsz without table: sample_size = %d for all %d samples (mdat payload %d bytes)", x, pi.n, pi.L),
			m.replace(pi.stsz, fullBoxOf(m, pi.stsz, "stsz", be32(x), be32(uint32(pi.n))))
	}},
	// --- more samples than the other tables / the mdat cover
	{name: "samples-beyond-mdat", kind: "prog", nvar: 2, apply: func(m *mp4Image, v int) (string, bool) {
		pi := m.prog()
		if pi == nil {
			return "", false
		}
		extra := []int{1, 5}[v%2]
		// stts / ctts / stsc cover the additional samples (their single entry is extended), the mdat does not
		p := cp(pi.stsz.Payload(m.b)[4:])
		binary.BigEndian.PutUint32(p[4:], uint32(pi.n+extra))
		for i := 0; i < extra; i++ {
			p = append(p, be32(16)...)
		}
		if !m.replace(pi.stsz, fullBoxOf(m, pi.stsz, "stsz", p)) {
			return "", false
		}
		pi = m.prog()
		if pi == nil || m.u32(pi.stts, 4) < 1 || m.u32(pi.stsc, 4) != 1 {
			return "", false
		}
		// the last run of stts / ctts and the stsc run are extended by the additional samples
		last := 8 + 8*(int(m.u32(pi.stts, 4))-1)
		if !m.put32(pi.stts, last, m.u32(pi.stts, last)+uint32(extra)) {
			return "", false
		}
		m.put32(pi.stsc, 12, uint32(pi.n))
		if pi.ctts != nil && m.u32(pi.ctts, 4) >= 1 {
			last = 8 + 8*(int(m.u32(pi.ctts, 4))-1)
			if !m.put32(pi.ctts, last, m.u32(pi.ctts, last)+uint32(extra)) {
				return "", false
			}
		}
		return fmt.Sprintf("stsz (and the stts/ctts/stsc runs) list %d more samples of 16 bytes than the mdat holds", extra), true
	}},
	{name: "samples-beyond-time-tables", kind: "prog", nvar: 2, apply: func(m *mp4Image, v int) (string, bool) {
		pi := m.prog()
		if pi == nil {
			return "", false
		}
		extra := []int{1, 5}[v%2]
		// additional samples of 0 bytes in the same chunk: the data is there, stts and ctts end before them
		p := cp(pi.stsz.Payload(m.b)[4:])
		binary.BigEndian.PutUint32(p[4:], uint32(pi.n+extra))
		p = append(p, make([]byte, 4*extra)...)
		if !m.replace(pi.stsz, fullBoxOf(m, pi.stsz, "stsz", p)) {
			return "", false
		}
		pi = m.prog()
		if pi == nil || m.u32(pi.stsc, 4) != 1 {
			return "", false
		}
		m.put32(pi.stsc, 12, uint32(pi.n))
		return fmt.Sprintf("stsz lists %d more (empty) samples than stts and ctts cover", extra), true
	}},
	{name: "stts-count-short", kind: "prog", nvar: 1, apply: func(m *mp4Image, v int) (string, bool) {
		// the stts run says one sample less than stsz lists
		pi := m.prog()
		if pi == nil || m.u32(pi.stts, 4) != 1 {
			return "", false
		}
		return fmt.Sprintf("stts sample_count = %d for %d samples in stsz", pi.n-1, pi.n), m.put32(pi.stts, 8, uint32(pi.n-1))
	}},
	emptyTable("stts"),
	emptyTable("ctts"),
	emptyTable("stsc"),
	emptyTable("stco"),
	// --- stsc
	stscClass("stsc-samples-per-chunk-zero", 1, 12, 0),
	stscClass("stsc-samples-per-chunk-huge", 3, 12, 0xffffffff, 0x80000000, 0x7fffffff),
	stscClass("stsc-samples-per-chunk-one", 1, 12, 1), // the second sample would be in a second chunk, stco has one
	stscClass("stsc-first-chunk-zero", 1, 8, 0),
	stscClass("stsc-first-chunk-huge", 3, 8, 2, 0xffffffff, 0x80000000),
	// --- missing boxes
	missingBox("stco", "prog", false),
	missingBox("stsz", "prog", false),
	missingBox("stsc", "prog", false),
	missingBox("stts", "prog", false),
	missingBox("ctts", "prog", true),
	missingBox("stss", "prog", true),
	missingBox("mdat", "prog", false),
	missingBox("hdlr", "prog", false),
	missingBox("stsd", "prog", false),
	missingBox("stbl", "prog", false),
	missingBox("minf", "prog", false),
	missingBox("mdia", "prog", false),
	missingBox("tkhd", "prog", false),
	missingBox("moov", "prog", false),
	// --- mdat shorter than the tables say
	{name: "mdat-short", kind: "prog", nvar: 4, apply: func(m *mp4Image, v int) (string, bool) {
		pi := m.prog()
		if pi == nil {
			return "", false
		}
		keep := []int{pi.L - 1, pi.L / 2, int(pi.sizes[0]), 0}[v%4]
		if keep < 0 || keep > pi.L {
			return "", false
		}
		return fmt.Sprintf("mdat payload cut from %d to %d bytes, tables unchanged", pi.L, keep), m.replace(pi.mdat, mkBox("mdat", m.b[pi.P:pi.P+keep]))
	}},

	// --- fragmented frames: moov side
	missingBox("mvex", "init", false),
	missingBox("trex", "init", false),
	missingBox("hdlr", "init", false),
	missingBox("stsd", "init", false),
	missingBox("stbl", "init", false),
	missingBox("minf", "init", false),
	missingBox("mdia", "init", false),
	missingBox("tkhd", "init", false),
	{name: "trex-other-track", kind: "init", nvar: 1, apply: func(m *mp4Image, v int) (string, bool) {
		fi := m.frag()
		if fi == nil || fi.trex == nil {
			return "", false
		}
		id := m.u32(fi.trex, 4)
		return fmt.Sprintf("trex track_ID = %d instead of %d", id+1, id), m.put32(fi.trex, 4, id+1)
	}},
	// --- fragmented frames: moof side
	missingBox("tfhd", "frag", false),
	missingBox("tfdt", "frag", false),
	missingBox("trun", "frag", false),
	missingBox("mfhd", "frag", false),
	missingBox("traf", "frag", false),
	missingBox("mdat", "frag", false),
	{name: "tfhd-other-track", kind: "frag", nvar: 1, apply: func(m *mp4Image, v int) (string, bool) {
		fi := m.frag()
		if fi == nil {
			return "", false
		}
		id := m.u32(fi.tfhd, 4)
		return fmt.Sprintf("tfhd track_ID = %d instead of %d", id+1, id), m.put32(fi.tfhd, 4, id+1)
	}},
	trunOffClass("trun-offset-zero", 1, func(fi *fragInfo, v int) int64 { return int64(fi.moof.Start) }),
	trunOffClass("trun-offset-before-mdat", 3, func(fi *fragInfo, v int) int64 {
		return []int64{int64(fi.P - 1), int64(fi.P - 8), int64(fi.moof.Start + 8)}[v%3]
	}),
	trunOffClass("trun-offset-last-byte-of-mdat", 2, func(fi *fragInfo, v int) int64 {
		return []int64{int64(fi.P + fi.L - 1), int64(fi.P + fi.L - 3)}[v%2]
	}),
	trunOffClass("trun-offset-end-of-mdat", 1, func(fi *fragInfo, v int) int64 { return int64(fi.P + fi.L) }),
	trunOffClass("trun-offset-beyond-file", 3, func(fi *fragInfo, v int) int64 {
		return []int64{int64(fi.F), int64(fi.F + 1), int64(fi.F + 100000)}[v%3]
	}),
	trunOffClass("trun-offset-max", 2, func(fi *fragInfo, v int) int64 {
		return int64(fi.moof.Start) + []int64{0x7fffffff, 0x7ffffff0}[v%2]
	}),
	trunOffClass("trun-offset-negative", 3, func(fi *fragInfo, v int) int64 {
		return int64(fi.moof.Start) + []int64{-1, -0x80000000, -int64(fi.moof.Start) - 1}[v%3]
	}),
	trunSizeClass("trun-size-zero", 3, func(fi *fragInfo, k, v int) uint32 { return 0 }),
	trunSizeClass("trun-size-one", 3, func(fi *fragInfo, k, v int) uint32 { return 1 }),
	{name: "trun-size-beyond-mdat", kind: "frag", nvar: 6, apply: func(m *mp4Image, v int) (string, bool) {
		fi := m.frag()
		if fi == nil {
			return "", false
		}
		k := sampleIdx(v, fi.tl.count)
		x := uint32(fi.L + 1)
		if (v/3)%2 == 0 {
			x = uint32(fi.L - fi.trunBytesBefore(m, k) + 1)
		}
		at := fi.tl.entriesAt + k*fi.tl.entryN + fi.tl.sizeIn
		return fmt.Sprintf("trun sample_size[%d] = %d instead of %d (%d samples, mdat payload %d bytes)", k, x, m.u32(fi.trun, at), fi.tl.count, fi.L), m.put32(fi.trun, at, x)
	}},
	trunSizeClass("trun-size-max32", 9, func(fi *fragInfo, k, v int) uint32 {
		return uint32(pickU64(v, 0xffffffff, 0x80000000, 0x7fffffff))
	}),
	{name: "trun-samples-beyond-mdat", kind: "frag", nvar: 2, apply: func(m *mp4Image, v int) (string, bool) {
		fi := m.frag()
		if fi == nil {
			return "", false
		}
		extra := []int{1, 5}[v%2]
		p := cp(fi.trun.Payload(m.b)[4:])
		binary.BigEndian.PutUint32(p, uint32(fi.tl.count+extra))
		for i := 0; i < extra; i++ {
			e := make([]byte, fi.tl.entryN)
			binary.BigEndian.PutUint32(e[fi.tl.sizeIn:], 16)
			p = append(p, e...)
		}
		return fmt.Sprintf("trun lists %d more samples of 16 bytes than the mdat holds", extra), m.replace(fi.trun, fullBoxOf(m, fi.trun, "trun", p))
	}},
	{name: "trun-default-size-beyond-mdat", kind: "frag", nvar: 3, apply: func(m *mp4Image, v int) (string, bool) {
		// the trun without per-sample sizes, tfhd default_sample_size says how long every sample is
		fi := m.frag()
		if fi == nil {
			return "", false
		}
		x := uint32(pickU64(v, uint64(fi.L+1), 0xffffffff, uint64(fi.L/2+1)))
		p := fi.trun.Payload(m.b)
		out := cp(p[4:fi.tl.entriesAt])
		for i := 0; i < fi.tl.count; i++ {
			e := p[fi.tl.entriesAt+i*fi.tl.entryN : fi.tl.entriesAt+(i+1)*fi.tl.entryN]
			out = append(out, e[:fi.tl.sizeIn]...)
			out = append(out, e[fi.tl.sizeIn+4:]...)
		}
		vf := be32(fi.tl.flags &^ 0x200)
		vf[0] = p[0]
		if !m.replace(fi.trun, mkBox("trun", vf, out)) {
			return "", false
		}
		fi2 := m.fragLoose()
		if fi2 == nil {
			return "", false
		}
		return fmt.Sprintf("trun without sample sizes, tfhd default_sample_size = %d (%d samples, mdat payload %d bytes)", x, fi.tl.count, fi.L), tfhdWith(m, fi2, nil, &x)
	}},
	{name: "tfhd-base-data-offset-valid", kind: "frag", nvar: 1, control: true, apply: func(m *mp4Image, v int) (string, bool) {
		fi := m.frag()
		if fi == nil {
			return "", false
		}
		base := uint64(fi.moof.Start)
		return "tfhd with base_data_offset = start of the moof (what the default is)", tfhdWith(m, fi, &base, nil)
	}},
	{name: "tfhd-base-data-offset-hostile", kind: "frag", nvar: 6, apply: func(m *mp4Image, v int) (string, bool) {
		fi := m.frag()
		if fi == nil {
			return "", false
		}
		base := pickU64(v, 0, uint64(fi.F), 1<<63, 1<<64-1, 1<<32+uint64(fi.moof.Start), uint64(fi.P+fi.L)-uint64(fi.dataOff))
		return fmt.Sprintf("tfhd base_data_offset = %d (moof at %d, trun data_offset %d, file %d bytes)", base, fi.moof.Start, fi.dataOff+8, fi.F), tfhdWith(m, fi, &base, nil)
	}},
	{name: "frag-mdat-short", kind: "frag", nvar: 4, apply: func(m *mp4Image, v int) (string, bool) {
		fi := m.frag()
		if fi == nil {
			return "", false
		}
		keep := []int{fi.L - 1, fi.L / 2, 1, 0}[v%4]
		if keep < 0 || keep > fi.L {
			return "", false
		}
		return fmt.Sprintf("mdat payload of the fragment cut from %d to %d bytes, trun unchanged", fi.L, keep), m.replace(fi.mdat, mkBox("mdat", m.b[fi.P:fi.P+keep]))
	}},
}

// prog2P: mdat payload start of a progressive image (0 when not found).
func (m *mp4Image) prog2P() int {
	if md := m.find("mdat"); md != nil {
		return md.Start + md.HdrLen
	}
	return 0
}

// fragLoose is frag() for an image whose trun no longer has sample sizes.
func (m *mp4Image) fragLoose() *fragInfo {
	nodes := m.walk()
	mf := boxwalk.Find(nodes, "moof")
	if len(mf) == 0 {
		return nil
	}
	fi := &fragInfo{moof: mf[0], F: len(m.b)}
	fi.traf = fi.moof.Child("traf")
	if fi.traf == nil {
		return nil
	}
	fi.tfhd, fi.trun = fi.traf.Child("tfhd"), fi.traf.Child("trun")
	if fi.tfhd == nil || fi.trun == nil {
		return nil
	}
	return fi
}

func tblClassByName(name string) *tblClass {
	for i := range tblClasses {
		if tblClasses[i].name == name {
			return &tblClasses[i]
		}
	}
	return nil
}

// tblFrames: the frames a class applies to.
func tblFrames(kind string) []string {
	switch kind {
	case "prog":
		return []string{"prog", "prog-mdat-first", "real-prog"}
	case "init":
		return []string{"frag", "real-init-frag"}
	}
	return []string{"frag", "seg-only", "real-init-frag"}
}

// tblSysCase is one entry of the systematic part: class x variant x frame x codec.
type tblSysCase struct {
	class   *tblClass
	variant int
	frame   string
	codec   string
}

var tblSys []tblSysCase

func init() {
	for i := range tblClasses {
		tc := &tblClasses[i]
		for v := 0; v < tc.nvar; v++ {
			for _, fr := range tblFrames(tc.kind) {
				for _, codec := range []string{"avc", "hevc"} {
					tblSys = append(tblSys, tblSysCase{tc, v, fr, codec})
				}
			}
		}
	}
}

// applyTbl edits a valid file. ok=false: the file does not have the shape the class needs.
func applyTbl(file []byte, tc *tblClass, variant int) (out []byte, what string, ok bool) {
	m := &mp4Image{b: cp(file)}
	what, ok = tc.apply(m, variant)
	if !ok {
		return nil, "", false
	}
	if _, err := boxwalk.Walk(m.b); err != nil {
		return nil, "", false
	}
	return m.b, what, true
}
