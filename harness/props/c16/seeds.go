package c16

import (
	"encoding/hex"
	"fmt"
	"os"
	"path/filepath"
	"regexp"
	"sort"

	"github.com/Eyevinn/mp4ff/avc"
	"github.com/Eyevinn/mp4ff/hevc"

	"verifharness/ref/annexb"
	"verifharness/ref/bitw"
	"verifharness/runner"
)

// seed is one valid (or at least plausible) input harvested from the repo or
// built by hand.
type seed struct {
	name string
	kind string // avc-sps avc-pps avc-slice avc-sei avc-other hevc-vps hevc-sps hevc-pps hevc-slice hevc-sei hevc-other lit avcC hvcC av1C adts asc sei-payload stream-avc stream-hevc
	b    []byte
	typ  uint // SEI payload type for kind sei-payload
}

type seedSet struct {
	all    []seed
	byKind map[string][]int
	// parsed parameter sets of the real streams (used as maps for the
	// dependent parsers)
	avcSPS  map[uint32]*avc.SPS
	avcPPS  map[uint32]*avc.PPS
	hevcSPS map[uint32]*hevc.SPS
	hevcPPS map[uint32]*hevc.PPS
	// groups of NAL units that belong together (same file)
	avcGroups  []psGroup
	hevcGroups []psGroup
}

type psGroup struct {
	name                  string
	vps, sps, pps, slices [][]byte
	seis                  [][]byte
}

var seeds *seedSet

func (s *seedSet) add(sd seed) {
	if len(sd.b) > 64<<10 {
		sd.b = sd.b[:64<<10]
	}
	s.byKind[sd.kind] = append(s.byKind[sd.kind], len(s.all))
	s.all = append(s.all, sd)
}

func (s *seedSet) kind(k string) []seed {
	var o []seed
	for _, i := range s.byKind[k] {
		o = append(o, s.all[i])
	}
	return o
}

func (s *seedSet) pick(r *runner.Rand, kinds ...string) seed {
	k := kinds[r.Intn(len(kinds))]
	ids := s.byKind[k]
	if len(ids) == 0 {
		return s.all[r.Intn(len(s.all))]
	}
	return s.all[ids[r.Intn(len(ids))]]
}

var hexLit = regexp.MustCompile(`"((?:[0-9a-fA-F]{2}){4,})"`)

func avcKind(t int) string {
	switch {
	case t == 7:
		return "avc-sps"
	case t == 8:
		return "avc-pps"
	case t == 6:
		return "avc-sei"
	case t >= 1 && t <= 5:
		return "avc-slice"
	}
	return "avc-other"
}

func hevcKind(t int) string {
	switch {
	case t == 32:
		return "hevc-vps"
	case t == 33:
		return "hevc-sps"
	case t == 34:
		return "hevc-pps"
	case t == 39 || t == 40:
		return "hevc-sei"
	case t <= 31:
		return "hevc-slice"
	}
	return "hevc-other"
}

// loadSeeds harvests the elementary-stream material of the repo: the Annex B
// test files (split with the reference scanner) and every hex literal of the
// codec packages' tests, and adds hand-built inputs.
func loadSeeds(env *runner.Env) (*seedSet, error) {
	s := &seedSet{byKind: map[string][]int{}, avcSPS: map[uint32]*avc.SPS{}, avcPPS: map[uint32]*avc.PPS{},
		hevcSPS: map[uint32]*hevc.SPS{}, hevcPPS: map[uint32]*hevc.PPS{}}
	streams := []struct{ path, codec string }{
		{"avc/testdata/blackframe.264", "avc"},
		{"avc/testdata/two-frames.264", "avc"},
		{"cmd/mp4ff-nallister/testdata/4pics.264", "avc"},
		{"hevc/testdata/blackframe.265", "hevc"},
		{"cmd/mp4ff-nallister/testdata/hevc.265", "hevc"},
	}
	for _, st := range streams {
		b, err := os.ReadFile(filepath.Join(env.RepoDir, st.path))
		if err != nil {
			continue // a removed test file only shrinks the seed set
		}
		units := annexb.Split(b)
		g := psGroup{name: st.path}
		sliceCount := 0
		for i, u := range units {
			if len(u) == 0 {
				continue
			}
			name := fmt.Sprintf("%s#%d", st.path, i)
			cp := u
			if st.codec == "avc" {
				k := avcKind(annexb.AVCType(u[0]))
				if k == "avc-slice" {
					sliceCount++
					if sliceCount > 6 {
						continue
					}
					if len(cp) > 2048 {
						cp = cp[:2048]
					}
					g.slices = append(g.slices, cp)
				}
				switch k {
				case "avc-sps":
					g.sps = append(g.sps, cp)
				case "avc-pps":
					g.pps = append(g.pps, cp)
				case "avc-sei":
					g.seis = append(g.seis, cp)
				}
				s.add(seed{name: name, kind: k, b: cp})
			} else {
				k := hevcKind(annexb.HEVCType(u[0]))
				if k == "hevc-slice" {
					sliceCount++
					if sliceCount > 6 {
						continue
					}
					if len(cp) > 2048 {
						cp = cp[:2048]
					}
					g.slices = append(g.slices, cp)
				}
				switch k {
				case "hevc-vps":
					g.vps = append(g.vps, cp)
				case "hevc-sps":
					g.sps = append(g.sps, cp)
				case "hevc-pps":
					g.pps = append(g.pps, cp)
				case "hevc-sei":
					g.seis = append(g.seis, cp)
				}
				s.add(seed{name: name, kind: k, b: cp})
			}
		}
		if len(b) > 16<<10 {
			b = b[:16<<10]
		}
		s.add(seed{name: st.path, kind: "stream-" + st.codec, b: b})
		if st.codec == "avc" {
			s.avcGroups = append(s.avcGroups, g)
		} else {
			s.hevcGroups = append(s.hevcGroups, g)
		}
	}
	// hex literals of the tests
	var files []string
	for _, d := range []string{"avc", "hevc", "sei", "aac", "av1", "mp4", "cmd/mp4ff-pslister", "cmd/mp4ff-nallister"} {
		m, _ := filepath.Glob(filepath.Join(env.RepoDir, d, "*_test.go"))
		files = append(files, m...)
	}
	sort.Strings(files)
	seen := map[string]bool{}
	for _, f := range files {
		src, err := os.ReadFile(f)
		if err != nil {
			continue
		}
		rel, _ := filepath.Rel(env.RepoDir, f)
		dir := filepath.Dir(rel)
		if dir == "mp4" {
			base := filepath.Base(rel)
			if base != "avcc_test.go" && base != "hvcc_test.go" && base != "av1c_test.go" && base != "crypto_test.go" && base != "esds_test.go" {
				continue
			}
		}
		for n, m := range hexLit.FindAllSubmatch(src, -1) {
			if seen[string(m[1])] {
				continue
			}
			seen[string(m[1])] = true
			b, err := hex.DecodeString(string(m[1]))
			if err != nil || len(b) > 4096 {
				continue
			}
			s.add(seed{name: fmt.Sprintf("%s:lit%d", rel, n), kind: "lit", b: b})
			// typed copies so that the targeted generators find them
			switch dir {
			case "avc":
				if len(b) > 4 && b[0]&0x80 == 0 {
					s.add(seed{name: fmt.Sprintf("%s:lit%d", rel, n), kind: avcKind(annexb.AVCType(b[0])), b: b})
				}
				if b[0] == 1 {
					s.add(seed{name: fmt.Sprintf("%s:lit%d", rel, n), kind: "avcC", b: b})
				}
			case "hevc":
				if len(b) > 4 && b[0]&0x80 == 0 && b[0] != 1 {
					s.add(seed{name: fmt.Sprintf("%s:lit%d", rel, n), kind: hevcKind(annexb.HEVCType(b[0])), b: b})
				}
				if b[0] == 1 && len(b) > 22 {
					s.add(seed{name: fmt.Sprintf("%s:lit%d", rel, n), kind: "hvcC", b: b})
				}
			case "av1":
				s.add(seed{name: fmt.Sprintf("%s:lit%d", rel, n), kind: "av1C", b: b})
			case "aac":
				s.add(seed{name: fmt.Sprintf("%s:lit%d", rel, n), kind: "adts", b: b})
			case "sei":
				s.add(seed{name: fmt.Sprintf("%s:lit%d", rel, n), kind: "sei-lit", b: b})
			}
		}
	}
	addHandBuilt(s)
	// parse the real parameter sets once (seed maps for the dependent parsers)
	// (every library call of setup goes through libCall: a panic is recorded as a violation, the unit counts as rejected)
	for _, sd := range s.kind("avc-sps") {
		if sps := setupAVCSPS(sd.b); sps != nil {
			if _, dup := s.avcSPS[sps.ParameterID]; !dup {
				s.avcSPS[sps.ParameterID] = sps
			}
		}
	}
	for _, sd := range s.kind("avc-pps") {
		if pps := setupAVCPPS(sd.b, s.avcSPS); pps != nil {
			if _, dup := s.avcPPS[pps.PicParameterSetID]; !dup {
				s.avcPPS[pps.PicParameterSetID] = pps
			}
		}
	}
	for _, sd := range s.kind("hevc-sps") {
		if sps := setupHEVCSPS(sd.b); sps != nil {
			if _, dup := s.hevcSPS[uint32(sps.SpsID)]; !dup {
				s.hevcSPS[uint32(sps.SpsID)] = sps
			}
		}
	}
	for _, sd := range s.kind("hevc-pps") {
		if pps := setupHEVCPPS(sd.b, s.hevcSPS); pps != nil {
			if _, dup := s.hevcPPS[pps.PicParameterSetID]; !dup {
				s.hevcPPS[pps.PicParameterSetID] = pps
			}
		}
	}
	if len(s.avcSPS) == 0 || len(s.avcPPS) == 0 || len(s.hevcSPS) == 0 || len(s.hevcPPS) == 0 {
		return nil, fmt.Errorf("seed parameter sets do not parse: avc sps %d pps %d, hevc sps %d pps %d",
			len(s.avcSPS), len(s.avcPPS), len(s.hevcSPS), len(s.hevcPPS))
	}
	if len(s.avcGroups) == 0 || len(s.hevcGroups) == 0 {
		return nil, fmt.Errorf("no Annex B test streams found under %s", env.RepoDir)
	}
	return s, nil
}

// ---------------------------------------------------------------------------
// hand-built inputs (own bit layouts on ref/bitw)

type seiMsg struct {
	typ     uint
	payload []byte
}

// ffRun writes the 0xFF-run coding of SEI payload type / size (D.1 / 7.3.2.3.1).
func ffRun(v uint) []byte {
	var o []byte
	for v >= 255 {
		o = append(o, 0xff)
		v -= 255
	}
	return append(o, byte(v))
}

// seiRBSP frames messages into an SEI RBSP (without NAL header).
func seiRBSP(msgs []seiMsg, trailing bool) []byte {
	var o []byte
	for _, m := range msgs {
		o = append(o, ffRun(m.typ)...)
		o = append(o, ffRun(uint(len(m.payload)))...)
		o = append(o, m.payload...)
	}
	if trailing {
		o = append(o, 0x80)
	}
	return o
}

func seiNAL(codec string, msgs []seiMsg, trailing bool) []byte {
	body := bitw.Escape(seiRBSP(msgs, trailing))
	if codec == "avc" {
		return append([]byte{0x06}, body...)
	}
	return append([]byte{0x4e, 0x01}, body...)
}

// avcPicTiming builds an AVC pic_timing payload (D.1.3).
func avcPicTiming(cpbLen, dpbLen int, pictStruct uint64, clocks []avcClock, timeOffsetLen int) []byte {
	w := &bitw.W{}
	if cpbLen > 0 {
		w.Put(5, cpbLen)
		w.Put(3, dpbLen)
	}
	w.Put(pictStruct, 4)
	for _, c := range clocks {
		w.Flag(c.present)
		if !c.present {
			continue
		}
		w.Put(1, 2) // ct_type
		w.Put(0, 1) // nuit_field_based_flag
		w.Put(4, 5) // counting_type
		w.Flag(c.full)
		w.Put(0, 1) // discontinuity
		w.Put(0, 1) // cnt_dropped
		w.Put(c.frames, 8)
		if c.full {
			w.Put(c.s, 6)
			w.Put(c.m, 6)
			w.Put(c.h, 5)
		} else {
			w.Flag(true)
			w.Put(c.s, 6)
			w.Flag(true)
			w.Put(c.m, 6)
			w.Flag(true)
			w.Put(c.h, 5)
		}
		if timeOffsetLen > 0 {
			w.Put(0x155555, timeOffsetLen)
		}
	}
	w.AlignZero()
	return w.Bytes()
}

type avcClock struct {
	present, full bool
	frames        uint64
	h, m, s       uint64
}

// timeCode136 builds an HEVC time_code payload (D.2.27).
func timeCode136(n int, full bool, timeOffsetLen int) []byte {
	w := &bitw.W{}
	w.Put(uint64(n), 2)
	for i := 0; i < n; i++ {
		w.Flag(true) // clock_timestamp_flag
		w.Flag(false)
		w.Put(4, 5)
		w.Flag(full)
		w.Flag(false)
		w.Flag(false)
		w.Put(uint64(10+i), 9)
		if full {
			w.Put(59, 6)
			w.Put(58, 6)
			w.Put(23, 5)
		} else {
			w.Flag(true)
			w.Put(1, 6)
			w.Flag(true)
			w.Put(2, 6)
			w.Flag(true)
			w.Put(3, 5)
		}
		w.Put(uint64(timeOffsetLen), 5)
		if timeOffsetLen > 0 {
			w.Put(1, timeOffsetLen)
		}
	}
	w.AlignZero()
	return w.Bytes()
}

// hevcPicTiming builds an HEVC pic_timing payload with every optional part.
func hevcPicTiming(nDU int, common bool) []byte {
	w := &bitw.W{}
	w.Put(1, 4) // pic_struct
	w.Put(1, 2) // source_scan_type
	w.Flag(false)
	w.Put(3, 8) // au_cpb_removal_delay_minus1 (length 8)
	w.Put(2, 8) // pic_dpb_output_delay
	w.Put(1, 8) // pic_dpb_output_du_delay
	w.UE(uint64(nDU))
	w.Flag(common)
	if common {
		w.Put(1, 8)
	}
	for i := 0; i <= nDU && i < 64; i++ {
		w.UE(uint64(i))
		if !common && i < nDU {
			w.Put(1, 8)
		}
	}
	w.AlignZero()
	return w.Bytes()
}

// avcSPSWithHRD builds a baseline/high AVC SPS with full VUI and both HRDs.
func avcSPSWithHRD(profile int, id uint64, pocType uint64, nalHrd, vclHrd bool, cpbCnt uint64) []byte {
	w := &bitw.W{}
	w.Put(uint64(profile), 8)
	w.Put(0, 8)
	w.Put(31, 8)
	w.UE(id)
	if profile == 100 {
		w.UE(1) // chroma_format_idc
		w.UE(0)
		w.UE(0)
		w.Flag(false)
		w.Flag(false)
	}
	w.UE(4) // log2_max_frame_num_minus4
	w.UE(pocType)
	switch pocType {
	case 0:
		w.UE(2)
	case 1:
		w.Flag(false)
		w.SE(-1)
		w.SE(1)
		w.UE(2)
		w.SE(2)
		w.SE(-2)
	}
	w.UE(2)
	w.Flag(false)
	w.UE(19)
	w.UE(10)
	w.Flag(true)
	w.Flag(true)
	w.Flag(true) // cropping
	w.UE(0)
	w.UE(0)
	w.UE(0)
	w.UE(4)
	w.Flag(true) // vui
	w.Flag(true) // aspect ratio
	w.Put(255, 8)
	w.Put(4, 16)
	w.Put(3, 16)
	w.Flag(true)
	w.Flag(true)
	w.Flag(true) // video signal type
	w.Put(5, 3)
	w.Flag(false)
	w.Flag(true)
	w.Put(1, 8)
	w.Put(1, 8)
	w.Put(1, 8)
	w.Flag(true)
	w.UE(0)
	w.UE(0)
	w.Flag(true) // timing
	w.Put(1001, 32)
	w.Put(60000, 32)
	w.Flag(true)
	hrd := func() {
		w.UE(cpbCnt)
		w.Put(4, 4)
		w.Put(5, 4)
		for i := uint64(0); i <= cpbCnt && i < 32; i++ {
			w.UE(1000 + i)
			w.UE(2000 + i)
			w.Flag(i%2 == 0)
		}
		w.Put(23, 5)
		w.Put(15, 5)
		w.Put(7, 5)
		w.Put(24, 5)
	}
	w.Flag(nalHrd)
	if nalHrd {
		hrd()
	}
	w.Flag(vclHrd)
	if vclHrd {
		hrd()
	}
	if nalHrd || vclHrd {
		w.Flag(false)
	}
	w.Flag(true) // pic_struct_present
	w.Flag(true) // bitstream restriction
	w.Flag(true)
	w.UE(2)
	w.UE(1)
	w.UE(16)
	w.UE(16)
	w.UE(1)
	w.UE(4)
	w.TrailingBits()
	return append([]byte{0x67}, bitw.Escape(w.Bytes())...)
}

// avcPPSFMO builds AVC PPS units with slice groups of every map type.
func avcPPSFMO(id, spsID uint64, groups uint64, mapType uint64, more bool) []byte {
	w := &bitw.W{}
	w.UE(id)
	w.UE(spsID)
	w.Flag(true)
	w.Flag(false)
	w.UE(groups)
	if groups > 0 {
		w.UE(mapType)
		switch mapType {
		case 0:
			for i := uint64(0); i <= groups; i++ {
				w.UE(3 + i)
			}
		case 2:
			for i := uint64(0); i < groups; i++ {
				w.UE(i)
				w.UE(10 + i)
			}
		case 3, 4, 5:
			w.Flag(true)
			w.UE(7)
		case 6:
			w.UE(11)
			for i := 0; i <= 11; i++ {
				w.Put(uint64(i)%(groups+1), 3)
			}
		}
	}
	w.UE(2)
	w.UE(1)
	w.Flag(true)
	w.Put(1, 2)
	w.SE(-3)
	w.SE(0)
	w.SE(2)
	w.Flag(true)
	w.Flag(false)
	w.Flag(true)
	if more {
		w.Flag(true)
		w.Flag(true)
		for i := 0; i < 8; i++ {
			w.Flag(i%3 == 0)
			if i%3 == 0 {
				n := 16
				if i >= 6 {
					n = 64
				}
				for j := 0; j < n; j++ {
					w.SE(int64(j%5) - 2)
				}
			}
		}
		w.SE(-1)
	}
	w.TrailingBits()
	return append([]byte{0x68}, bitw.Escape(w.Bytes())...)
}

// avcSlice builds a P/B/I slice header start with reference list
// modification, prediction weights and marking operations, followed by junk
// slice data.
func avcSlice(nalHdr byte, sliceType uint64, ppsID uint64, override bool, nrefL0 uint64) []byte {
	w := &bitw.W{}
	w.UE(0)
	w.UE(sliceType)
	w.UE(ppsID)
	w.Put(3, 8) // frame_num (log2_max_frame_num 8 in the hand-built SPS)
	if nalHdr&0x1f == 5 {
		w.UE(1)
	}
	w.Put(5, 6) // poc lsb (hand-built: log2 6)
	st := sliceType % 5
	if st == 1 {
		w.Flag(true)
	}
	if st == 0 || st == 1 || st == 3 {
		w.Flag(override)
		if override {
			w.UE(nrefL0)
			if st == 1 {
				w.UE(1)
			}
		}
	}
	if st != 2 && st != 4 {
		w.Flag(true)
		w.UE(0)
		w.UE(2)
		w.UE(2)
		w.UE(1)
		w.UE(3)
	}
	if st == 1 {
		w.Flag(true)
		w.UE(1)
		w.UE(0)
		w.UE(3)
	}
	// pred weight table (present when the PPS says so; harmless junk otherwise)
	w.UE(5)
	w.UE(5)
	for i := uint64(0); i <= nrefL0 && i < 8; i++ {
		w.Flag(true)
		w.SE(3)
		w.SE(-3)
		w.Flag(true)
		w.SE(1)
		w.SE(1)
		w.SE(2)
		w.SE(2)
	}
	if nalHdr&0x60 != 0 {
		if nalHdr&0x1f == 5 {
			w.Flag(false)
			w.Flag(true)
		} else {
			w.Flag(true)
			w.UE(1)
			w.UE(0)
			w.UE(3)
			w.UE(1)
			w.UE(2)
			w.UE(4)
			w.UE(3)
			w.UE(0)
		}
	}
	w.UE(1)
	w.SE(-4)
	w.UE(0)
	w.SE(1)
	w.SE(-1)
	w.PutBytes([]byte{0x9a, 0x5c, 0x33, 0xe1, 0x07, 0x42, 0x88, 0x10, 0xfe, 0x21})
	w.TrailingBits()
	return append([]byte{nalHdr}, bitw.Escape(w.Bytes())...)
}

func adtsHeader(protectionAbsent bool, obj, fi, ch, frameLen int) []byte {
	w := &bitw.W{}
	w.Put(0xfff, 12)
	w.Put(0, 1)
	w.Put(0, 2)
	w.Flag(protectionAbsent)
	w.Put(uint64(obj-1), 2)
	w.Put(uint64(fi), 4)
	w.Put(0, 1)
	w.Put(uint64(ch), 3)
	w.Put(0, 4)
	w.Put(uint64(frameLen), 13)
	w.Put(0x7ff, 11)
	w.Put(0, 2)
	if !protectionAbsent {
		w.Put(0xbeef, 16)
	}
	return w.Bytes()
}

func asc(obj, fi int, explicit int, ch int, ext int) []byte {
	w := &bitw.W{}
	if obj >= 31 {
		w.Put(31, 5)
		w.Put(uint64(obj-32), 6)
	} else {
		w.Put(uint64(obj), 5)
	}
	w.Put(uint64(fi), 4)
	if fi == 15 {
		w.Put(uint64(explicit), 24)
	}
	w.Put(uint64(ch), 4)
	if obj == 5 || obj == 29 {
		w.Put(uint64(ext), 4)
		if ext == 15 {
			w.Put(48000, 24)
		}
		w.Put(2, 5)
	}
	w.Put(0, 3)
	return w.Bytes()
}

func be16(n int) []byte { return []byte{byte(n >> 8), byte(n)} }

func avcC(profile byte, sps, pps [][]byte, trailing bool) []byte {
	o := []byte{1, profile, 0, 31, 0xff, 0xe0 | byte(len(sps))}
	for _, u := range sps {
		o = append(o, be16(len(u))...)
		o = append(o, u...)
	}
	o = append(o, byte(len(pps)))
	for _, u := range pps {
		o = append(o, be16(len(u))...)
		o = append(o, u...)
	}
	if trailing {
		o = append(o, 0xfc|1, 0xf8, 0xf8, 0)
	}
	return o
}

func hvcC(arrays [][][]byte, types []byte) []byte {
	o := []byte{1, 0x01, 0x60, 0, 0, 0, 0x90, 0, 0, 0, 0, 0, 93, 0xf0, 0, 0xfc, 0xfd, 0xf8, 0xf8, 0, 0, 0x0f, byte(len(arrays))}
	for i, a := range arrays {
		o = append(o, 0x80|types[i])
		o = append(o, be16(len(a))...)
		for _, u := range a {
			o = append(o, be16(len(u))...)
			o = append(o, u...)
		}
	}
	return o
}

func addHandBuilt(s *seedSet) {
	// SEI payloads per type
	uuid := []byte{0xdc, 0x45, 0xe9, 0xbd, 0xe6, 0xd9, 0x48, 0xb7, 0x96, 0x2c, 0xd8, 0x20, 0xd9, 0x23, 0xee, 0xef}
	cea := []byte{0xb5, 0x00, 0x31, 0x47, 0x41, 0x39, 0x34, 0x03, 0xc2, 0xff, 0xfc, 0x94, 0x2c, 0xfd, 0x80, 0x80, 0xff}
	cea2 := []byte{0xb5, 0x00, 0x2f, 0x03, 0x0b, 0xc2, 0xff, 0xfc, 0x94, 0x2c, 0xfd, 0x80, 0x80, 0xff}
	payloads := []seiMsg{
		{0, []byte{0x80, 0x00, 0x10, 0x00, 0x00, 0x40}},
		{1, avcPicTiming(0, 0, 0, []avcClock{{true, true, 7, 23, 59, 59}}, 0)},
		{1, avcPicTiming(0, 0, 3, []avcClock{{true, false, 1, 0, 0, 0}, {false, false, 0, 0, 0, 0}}, 0)},
		{1, avcPicTiming(0, 0, 7, []avcClock{{false, false, 0, 0, 0, 0}, {false, false, 0, 0, 0, 0}, {false, false, 0, 0, 0, 0}}, 0)}, // zero clock timestamps
		{1, avcPicTiming(16, 8, 5, []avcClock{{true, true, 29, 1, 2, 3}, {true, true, 0, 0, 0, 0}, {true, false, 3, 4, 5, 6}}, 24)},
		{1, hevcPicTiming(0, true)},
		{1, hevcPicTiming(3, false)},
		{1, hevcPicTiming(5, true)},
		{4, cea},
		{4, cea2},
		{4, []byte{0xff, 0x01, 0x02, 0x03}},
		{5, append(append([]byte{}, uuid...), []byte("x264 - core 161")...)},
		{5, uuid},
		{6, []byte{0xc4}},
		{45, []byte{0x40, 0x80}},
		{136, timeCode136(0, true, 0)},
		{136, timeCode136(1, true, 0)},
		{136, timeCode136(2, false, 5)},
		{136, timeCode136(3, true, 31)},
		{137, []byte{0x11, 0x22, 0x33, 0x44, 0x55, 0x66, 0x77, 0x88, 0x99, 0x00, 0xaa, 0xbb, 0xcc, 0xdd, 0xee, 0xff, 0x00, 0x11, 0x22, 0x33, 0x44, 0x55, 0x66, 0x77}},
		{144, []byte{0x03, 0xe8, 0x01, 0x90}},
		{147, []byte{0x01, 0x02}},
		{300, []byte{0x01, 0x02, 0x03}},
	}
	for i, p := range payloads {
		s.add(seed{name: fmt.Sprintf("handbuilt:sei-payload%d(type %d)", i, p.typ), kind: "sei-payload", b: p.payload, typ: p.typ})
		s.add(seed{name: fmt.Sprintf("handbuilt:avc-sei%d(type %d)", i, p.typ), kind: "avc-sei", b: seiNAL("avc", []seiMsg{p}, true)})
		s.add(seed{name: fmt.Sprintf("handbuilt:hevc-sei%d(type %d)", i, p.typ), kind: "hevc-sei", b: seiNAL("hevc", []seiMsg{p}, true)})
	}
	s.add(seed{name: "handbuilt:avc-sei-multi", kind: "avc-sei", b: seiNAL("avc", payloads[:6], true)})
	s.add(seed{name: "handbuilt:hevc-sei-multi", kind: "hevc-sei", b: seiNAL("hevc", payloads[8:], true)})
	s.add(seed{name: "handbuilt:avc-sei-notrailing", kind: "avc-sei", b: seiNAL("avc", payloads[1:3], false)})

	// AVC parameter sets with HRD / FMO / scaling lists, slices that reach the loops
	n := 0
	for _, profile := range []int{66, 100} {
		for _, poc := range []uint64{0, 1, 2} {
			for _, hrd := range [][2]bool{{true, true}, {true, false}, {false, true}} {
				n++
				s.add(seed{name: fmt.Sprintf("handbuilt:avc-sps-hrd%d", n), kind: "avc-sps", b: avcSPSWithHRD(profile, uint64(n%4), poc, hrd[0], hrd[1], uint64(n%3))})
			}
		}
	}
	for i, mt := range []uint64{0, 2, 3, 4, 5, 6, 1} {
		s.add(seed{name: fmt.Sprintf("handbuilt:avc-pps-fmo%d", mt), kind: "avc-pps", b: avcPPSFMO(uint64(i), uint64(i%4), 1+uint64(i%3), mt, i%2 == 0)})
	}
	s.add(seed{name: "handbuilt:avc-pps-plain", kind: "avc-pps", b: avcPPSFMO(0, 0, 0, 0, true)})
	for i, hdr := range []byte{0x65, 0x41, 0x21, 0x01, 0x25} {
		for _, st := range []uint64{0, 1, 2, 5, 6, 7, 3, 4} {
			s.add(seed{name: fmt.Sprintf("handbuilt:avc-slice-%02x-%d", hdr, st), kind: "avc-slice", b: avcSlice(hdr, st, uint64(i%3), st%2 == 0, uint64(i))})
		}
	}
	// audio
	for _, pa := range []bool{true, false} {
		for _, fi := range []int{3, 4, 11, 13, 15} {
			h := adtsHeader(pa, 2, fi, 2, 7+16)
			s.add(seed{name: fmt.Sprintf("handbuilt:adts-fi%d-pa%v", fi, pa), kind: "adts", b: append(h, make([]byte, 16)...)})
		}
	}
	s.add(seed{name: "handbuilt:adts-junk", kind: "adts", b: append([]byte{0x12, 0xff, 0x34, 0xff, 0xe0}, adtsHeader(true, 2, 4, 2, 7)...)})
	for _, obj := range []int{1, 2, 5, 29, 31, 42} {
		for _, fi := range []int{3, 4, 12, 15} {
			s.add(seed{name: fmt.Sprintf("handbuilt:asc-obj%d-fi%d", obj, fi), kind: "asc", b: asc(obj, fi, 44100, 2, (fi+1)%16)})
		}
	}
	// configuration records
	sps := s.kind("avc-sps")
	pps := s.kind("avc-pps")
	if len(sps) > 0 && len(pps) > 0 {
		s.add(seed{name: "handbuilt:avcC-baseline", kind: "avcC", b: avcC(66, [][]byte{sps[0].b}, [][]byte{pps[0].b}, false)})
		s.add(seed{name: "handbuilt:avcC-high", kind: "avcC", b: avcC(100, [][]byte{sps[0].b, sps[len(sps)-1].b}, [][]byte{pps[0].b, pps[len(pps)-1].b}, true)})
		s.add(seed{name: "handbuilt:avcC-empty", kind: "avcC", b: avcC(100, nil, nil, true)})
	}
	hv, hs, hp := s.kind("hevc-vps"), s.kind("hevc-sps"), s.kind("hevc-pps")
	if len(hv) > 0 && len(hs) > 0 && len(hp) > 0 {
		s.add(seed{name: "handbuilt:hvcC", kind: "hvcC", b: hvcC([][][]byte{{hv[0].b}, {hs[0].b}, {hp[0].b}}, []byte{32, 33, 34})})
		s.add(seed{name: "handbuilt:hvcC-sei", kind: "hvcC", b: hvcC([][][]byte{{hv[0].b}, {hs[0].b}, {hp[0].b, hp[0].b}, {}}, []byte{32, 33, 34, 39})})
		s.add(seed{name: "handbuilt:hvcC-noarrays", kind: "hvcC", b: hvcC(nil, nil)})
	}
	s.add(seed{name: "handbuilt:av1C", kind: "av1C", b: []byte{0x81, 0x04, 0x0c, 0x00, 0x0a, 0x0b, 0x00, 0x00, 0x00, 0x24, 0xcf, 0x7f, 0x0d, 0xbf, 0xff, 0x30, 0x08}})
	s.add(seed{name: "handbuilt:av1C-delay", kind: "av1C", b: []byte{0x81, 0x28, 0xfe, 0x1a}})
}
