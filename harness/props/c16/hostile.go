package c16

// Round 3 generators.
//
// (1) Exp-Golomb codes with very long prefixes. bits.EBSPReader.ReadExpGolomb
//     puts no limit on the number of leading zero bits, so a parser can be
//     handed any 64-bit value: 2^32 (33 leading zeros: a uint32 conversion
//     gives 0), 2^33-1 (uint32 conversion gives 2^32-1 after a check made in
//     64 bits), 2^63 (negative as int) and 2^64-1 (value+1 wraps to 0; the code
//     is 64 zero bits, a one and 64 zero bits). putUE writes them; the ue,
//     chain, chain-ue, ctx-ue and sei-ue plans force them like the other values.
//
// (2) Fixed-width forcing (ctx-ue, chain-ue): the k bits that start at a
//     position are set to all ones (k = 2..8, 16, 32), and the k-bit number
//     that starts there is incremented by one (k = 2..8). u(v) fields whose
//     width the parser derives from a parameter set (short_term_ref_pic_set_idx,
//     lt_idx_sps, slice_segment_address, collocated indexes, 5/6-bit lengths
//     ...) reach their largest codable value and the value one above the
//     largest valid one this way.
//
// (3) ps-struct: parameter sets and slices that are hostile by construction,
//     written with a local bit layout of the HEVC SPS/PPS/slice segment header
//     and of the AVC PPS (ISO/IEC 23008-2 7.3.2.2, 7.3.2.3, 7.3.6, 7.3.7 and
//     14496-10 7.3.2.2): counts decoupled from what is present, long chains of
//     inter-predicted short-term reference picture sets, every extension
//     (range, multilayer, 3D, SCC) forced on with extreme bit depths and
//     counts, byte-wrapping values (248 + 8, 252 + 4, 255 + 1). The groups of
//     fields that interact are enumerated as full products (see structGroups),
//     and a random part draws every field at once.

import (
	"encoding/hex"
	"fmt"

	"verifharness/ref/annexb"
	"verifharness/ref/bitw"
	"verifharness/runner"
)

const maxU64 = 1<<64 - 1

// putUE writes ue(v) for every v up to 2^64-1.
func putUE(w *bitw.W, v uint64) {
	if v == maxU64 {
		// codeNum 2^64-1: 64 leading zero bits, the one, 64 zero suffix bits (the library computes (1<<64)-1+0 in a uint)
		w.Put(0, 64)
		w.Put(1, 1)
		w.Put(0, 64)
		return
	}
	w.UE(v)
}

func putSE(w *bitw.W, v int64) {
	if v > 0 {
		putUE(w, uint64(2*v-1))
	} else {
		putUE(w, uint64(-2*v))
	}
}

// longUEValues: the values only a code with 32..64 leading zero bits can carry.
var longUEValues = []uint64{maxU64, 1 << 63, 1 << 32, 1<<33 - 1}

// onesWidths / incrWidths: the fixed-width forcing of (2).
var onesWidths = []int{2, 3, 4, 5, 6, 7, 8, 16, 32}
var incrWidths = []int{2, 3, 4, 5, 6, 7, 8}

// forceOnes sets the k bits that start at pos of b[0:n] to one (the run is cut
// at n).
func forceOnes(b []byte, n, pos, k int) *bitw.W {
	w := &bitw.W{}
	for i := 0; i < n; i++ {
		v := uint64(bitAt(b, i))
		if i >= pos && i < pos+k {
			v = 1
		}
		w.Put(v, 1)
	}
	return w
}

// forceIncr adds one (mod 2^k) to the k-bit number that starts at pos.
func forceIncr(b []byte, n, pos, k int) *bitw.W {
	if pos+k > n {
		k = n - pos
	}
	var v uint64
	for i := 0; i < k; i++ {
		v = v<<1 | uint64(bitAt(b, pos+i))
	}
	v++
	w := &bitw.W{}
	for i := 0; i < pos; i++ {
		w.Put(uint64(bitAt(b, i)), 1)
	}
	if k > 0 {
		w.Put(v&(1<<uint(k)-1), k)
	}
	for i := pos + k; i < n; i++ {
		w.Put(uint64(bitAt(b, i)), 1)
	}
	return w
}

// fixedMutation describes one of the fixed-width mutations by index:
// 0..len(onesWidths)-1 all ones, then the increments.
func fixedMutation(i int) (ones bool, k int) {
	if i < len(onesWidths) {
		return true, onesWidths[i]
	}
	return false, incrWidths[i-len(onesWidths)]
}

func numFixedMutations() int { return len(onesWidths) + len(incrWidths) }

func applyFixed(b []byte, n, pos, i int) (*bitw.W, string) {
	ones, k := fixedMutation(i)
	if ones {
		return forceOnes(b, n, pos, k), fmt.Sprintf("the %d bits from RBSP bit %d set to ones", k, pos)
	}
	return forceIncr(b, n, pos, k), fmt.Sprintf("the %d-bit number at RBSP bit %d incremented by one", k, pos)
}

// ---------------------------------------------------------------------------
// local HEVC layouts

type hw struct{ bitw.W }

func (w *hw) ue(v uint64)       { putUE(&w.W, v) }
func (w *hw) se(v int64)        { putSE(&w.W, v) }
func (w *hw) u(v uint64, n int) { w.Put(v, n) }
func (w *hw) f(b bool)          { w.Flag(b) }

// uw writes a field whose width the syntax derives from another field:
// widths above 64 (hostile lengths) are written as zeros + the value.
func (w *hw) uw(v uint64, n int) {
	for n > 64 {
		w.Put(0, 1)
		n--
	}
	if n > 0 {
		w.Put(v, n)
	}
}

func (w *hw) nal(hdr ...byte) []byte {
	w.TrailingBits()
	return append(append([]byte{}, hdr...), bitw.Escape(w.Bytes())...)
}

func ceilLog2u(x uint64) int {
	n := 0
	for n < 64 && uint64(1)<<uint(n) < x {
		n++
	}
	return n
}

// hvSPS: the fields of an HEVC SPS the struct plan varies (everything else is
// fixed: one sub-layer, main profile, no VUI, no scaling list, no PCM).
type hvSPS struct {
	chroma               uint64
	sepPlane             bool
	width, height        uint64
	bdLuma, bdChroma     uint64
	log2Poc              uint64 // log2_max_pic_order_cnt_lsb_minus4
	log2MinCb, log2Diff  uint64
	nRPS                 uint64 // num_short_term_ref_pic_sets as coded
	rpsMode              int    // see rpsModeNames
	set0Neg, set0Pos     int
	ltPresent            bool
	ltN                  uint64 // num_long_term_ref_pics_sps as coded
	tmvp, sao            bool
	ext                  uint8 // bit 0 range, 1 multilayer, 2 3D, 3 SCC
	ext4                 uint8
	extData              int
	d3Log2               uint64 // both log2 sizes of the 3D extension
	sccPalette           bool
	sccMaxSize, sccDelta uint64
	sccInit              bool
	sccNumMinus1         uint64
	sccWritten           int // initializer entries written per component
	sccMvIdc             uint64
	sccCurrPicRef        bool
}

var rpsModeNames = []string{"explicit-1", "explicit-set0-repeated", "inter-chain-all-used", "inter-chain-use-delta", "inter-explicit-alternating", "inter-chain-none-kept"}

func baseHvSPS() hvSPS {
	return hvSPS{chroma: 1, width: 640, height: 360, log2Poc: 4, log2Diff: 1, nRPS: 1, set0Neg: 1, sao: true}
}

const maxRPSWritten = 300

// rpsWritten: number of st_ref_pic_set( ) structures actually written (the
// coded count may be larger; inputs stay below 64 KiB).
func (s *hvSPS) rpsWritten() int {
	n := s.nRPS
	if n > maxRPSWritten {
		n = maxRPSWritten
	}
	return int(n)
}

func (s *hvSPS) writeExplicit(w *hw, neg, pos int) int {
	w.ue(uint64(neg))
	w.ue(uint64(pos))
	for k := 0; k < neg+pos; k++ {
		w.ue(0)
		w.f(true)
	}
	return neg + pos
}

// writeInter writes an inter-predicted set that refers to a set with nRef
// entries; returns its own number of entries.
func (s *hvSPS) writeInter(w *hw, nRef int, mode int, inSlice bool, deltaIdxMinus1 uint64) int {
	w.f(true) // inter_ref_pic_set_prediction_flag
	if inSlice {
		w.ue(deltaIdxMinus1)
	}
	w.f(true)     // delta_rps_sign (negative: no entry coincides with the current picture)
	w.ue(1 << 14) // abs_delta_rps_minus1
	kept := 0
	for j := 0; j <= nRef; j++ {
		switch mode {
		case 3: // used_by_curr_pic_flag 0, use_delta_flag 1
			w.f(false)
			w.f(true)
			kept++
		case 5:
			w.f(false)
			w.f(false)
		default:
			w.f(true)
			kept++
		}
	}
	return kept
}

// writeRPS writes the st_ref_pic_set( ) list; returns the entry count of each
// set written (the builder's own model of the layout: an inter-predicted set
// has one flag (pair) per entry of its reference set plus one).
func (s *hvSPS) writeRPS(w *hw) []int {
	var counts []int
	for i := 0; i < s.rpsWritten(); i++ {
		if i > 0 && (s.rpsMode == 2 || s.rpsMode == 3 || s.rpsMode == 5 || (s.rpsMode == 4 && i%2 == 1)) {
			counts = append(counts, s.writeInter(w, counts[i-1], s.rpsMode, false, 0))
			continue
		}
		if i > 0 {
			w.f(false)
		}
		if s.rpsMode == 0 && i > 0 {
			counts = append(counts, s.writeExplicit(w, 1, 0))
		} else {
			counts = append(counts, s.writeExplicit(w, s.set0Neg, s.set0Pos))
		}
	}
	return counts
}

func (s *hvSPS) pocBits() int { return int(s.log2Poc&0xffff) + 4 }

func (s *hvSPS) encode() ([]byte, []int) {
	w := &hw{}
	w.u(0, 4) // sps_video_parameter_set_id
	w.u(0, 3) // sps_max_sub_layers_minus1
	w.f(true) // sps_temporal_id_nesting_flag
	w.u(0, 2)
	w.f(false)
	w.u(1, 5)
	w.u(0x60000000, 32)
	w.u(0x900000000000, 48)
	w.u(93, 8)
	w.ue(0) // sps_seq_parameter_set_id
	w.ue(s.chroma)
	if s.chroma == 3 {
		w.f(s.sepPlane)
	}
	w.ue(s.width)
	w.ue(s.height)
	w.f(false) // conformance_window_flag
	w.ue(s.bdLuma)
	w.ue(s.bdChroma)
	w.ue(s.log2Poc)
	w.f(false) // sps_sub_layer_ordering_info_present_flag
	w.ue(4)
	w.ue(1)
	w.ue(0)
	w.ue(s.log2MinCb)
	w.ue(s.log2Diff)
	w.ue(0)
	w.ue(1)
	w.ue(0)
	w.ue(0)
	w.f(false) // scaling_list_enabled_flag
	w.f(false) // amp
	w.f(s.sao)
	w.f(false) // pcm
	w.ue(s.nRPS)
	counts := s.writeRPS(w)
	w.f(s.ltPresent)
	if s.ltPresent {
		w.ue(s.ltN)
		n := s.ltN
		if n > 40 {
			n = 40
		}
		for i := uint64(0); i < n; i++ {
			w.uw(i, s.pocBits())
			w.f(true)
		}
	}
	w.f(s.tmvp)
	w.f(false) // strong_intra_smoothing_enabled_flag
	w.f(false) // vui_parameters_present_flag
	w.f(s.ext != 0 || s.ext4 != 0)
	if s.ext != 0 || s.ext4 != 0 {
		w.f(s.ext&1 != 0)
		w.f(s.ext&2 != 0)
		w.f(s.ext&4 != 0)
		w.f(s.ext&8 != 0)
		w.u(uint64(s.ext4), 4)
		if s.ext&1 != 0 {
			w.u(0x155, 9)
		}
		if s.ext&2 != 0 {
			w.f(true)
		}
		if s.ext&4 != 0 {
			w.f(true)
			w.f(false)
			w.ue(s.d3Log2)
			w.u(5, 4)
			w.f(false)
			w.f(true)
			w.f(true)
			w.ue(s.d3Log2)
			w.u(0x15, 5)
		}
		if s.ext&8 != 0 {
			w.f(s.sccCurrPicRef)
			w.f(s.sccPalette)
			if s.sccPalette {
				w.ue(s.sccMaxSize)
				w.ue(s.sccDelta)
				w.f(s.sccInit)
				if s.sccInit {
					w.ue(s.sccNumMinus1)
					comps := 3
					if s.chroma == 0 {
						comps = 1
					}
					for c := 0; c < comps; c++ {
						bd := s.bdLuma
						if c > 0 {
							bd = s.bdChroma
						}
						// the width the syntax gives: bit depth + 8 (hostile depths: as a parser keeping 8 bits of the depth sees it)
						nb := int((bd + 8) & 0xff)
						for i := 0; i < s.sccWritten; i++ {
							w.uw(uint64(i+1), nb)
						}
					}
				}
			}
			w.u(s.sccMvIdc, 2)
			w.f(false)
		}
		for i := 0; i < s.extData; i++ {
			w.f(i%2 == 0)
		}
	}
	return w.nal(0x42, 0x01), counts
}

// hvPPS: the fields of an HEVC PPS the struct plan varies.
type hvPPS struct {
	depSlices, outputFlag bool
	extraBits             uint64
	cabacInit             bool
	refL0, refL1          uint64
	transformSkip         bool
	chromaQpOffsets       bool
	weighted, weightedBi  bool
	tiles, entropySync    bool
	tileCols, tileRows    uint64
	uniform               bool
	tileWritten           int
	deblockOverride       bool
	listsMod              bool
	log2Par               uint64
	sliceExt              bool
	ext                   uint8
	ext4                  uint8
	extData               int
	// range extension
	rLog2MaxTS, rDiffDepth, rListLenMinus1, rSaoLuma uint64
	rListEnabled                                     bool
	// multilayer extension
	mNumRefLoc                       uint64
	mRefLocWritten                   int
	mRefLocAll                       bool
	mCM                              bool
	mNumCmRefLayersMinus1            uint64
	mOctantDepth, mYPart             uint64
	mBdInL, mBdInC, mBdOutL, mBdOutC uint64
	mResQuant, mFlc                  uint64
	mCodedRes                        bool
	// 3D extension
	dPresent      bool
	dLayersMinus1 uint64
	dBd           uint64
	dMode         int // 0 no dlt, 1 value flags, 2 pred, 3.. delta dlt shapes
	dNumVal       uint64
	dMaxDiff      uint64
	// SCC extension
	sCurrPicRef, sAct, sActOffsets bool
	sActVal                        int64
	sInit                          bool
	sNum                           uint64
	sMono                          bool
	sBdL, sBdC                     uint64
	sWritten                       int
}

func baseHvPPS() hvPPS { return hvPPS{tileWritten: 2, mRefLocWritten: 2, sWritten: 2} }

func (p *hvPPS) writeOctants(w *hw, depth uint64) {
	if depth < p.mOctantDepth {
		split := depth < 2
		w.f(split)
		if split {
			for i := 0; i < 8; i++ {
				p.writeOctants(w, depth+1)
			}
			return
		}
	}
	for i := uint64(0); i < 1<<p.mYPart; i++ {
		for j := 0; j < 4; j++ {
			w.f(p.mCodedRes && j == 0 && i == 0)
			if p.mCodedRes && j == 0 && i == 0 {
				// res_coeff_r has Max(0, 10 + BitDepthCmInputY - BitDepthCmOutputY - cm_res_quant_bits - (cm_delta_flc_bits_minus1 + 1)) bits
				lsb := 10 + int64(p.mBdInL) - int64(p.mBdOutL) - int64(p.mResQuant) - int64(p.mFlc+1)
				if lsb < 0 {
					lsb = 0
				}
				if lsb > 64 {
					lsb = 64
				}
				for c := 0; c < 3; c++ {
					w.ue(uint64(c))
					w.uw(1, int(lsb))
					if c != 0 || lsb > 0 {
						w.f(true) // res_coeff_s
					}
				}
			}
		}
	}
}

func (p *hvPPS) encode() []byte {
	w := &hw{}
	w.ue(0)
	w.ue(0)
	w.f(p.depSlices)
	w.f(p.outputFlag)
	w.u(p.extraBits, 3)
	w.f(false)
	w.f(p.cabacInit)
	w.ue(p.refL0)
	w.ue(p.refL1)
	w.se(0)
	w.f(false)
	w.f(p.transformSkip)
	w.f(false) // cu_qp_delta_enabled_flag
	w.se(0)
	w.se(0)
	w.f(p.chromaQpOffsets)
	w.f(p.weighted)
	w.f(p.weightedBi)
	w.f(false)
	w.f(p.tiles)
	w.f(p.entropySync)
	if p.tiles {
		w.ue(p.tileCols)
		w.ue(p.tileRows)
		w.f(p.uniform)
		if !p.uniform {
			for _, n := range []uint64{p.tileCols, p.tileRows} {
				for i := 0; i < p.tileWritten && uint64(i) < n; i++ {
					w.ue(uint64(i + 1))
				}
			}
		}
		w.f(true)
	}
	w.f(true) // pps_loop_filter_across_slices_enabled_flag
	w.f(p.deblockOverride)
	if p.deblockOverride {
		w.f(true)
		w.f(false)
		w.se(1)
		w.se(-1)
	}
	w.f(false) // pps_scaling_list_data_present_flag
	w.f(p.listsMod)
	w.ue(p.log2Par)
	w.f(p.sliceExt)
	w.f(p.ext != 0 || p.ext4 != 0)
	if p.ext != 0 || p.ext4 != 0 {
		w.f(p.ext&1 != 0)
		w.f(p.ext&2 != 0)
		w.f(p.ext&4 != 0)
		w.f(p.ext&8 != 0)
		w.u(uint64(p.ext4), 4)
		if p.ext&1 != 0 {
			if p.transformSkip {
				w.ue(p.rLog2MaxTS)
			}
			w.f(true)
			w.f(p.rListEnabled)
			if p.rListEnabled {
				w.ue(p.rDiffDepth)
				w.ue(p.rListLenMinus1)
				n := p.rListLenMinus1
				if n > 7 {
					n = 7
				}
				for i := uint64(0); i <= n; i++ {
					w.se(int64(i) - 3)
					w.se(3 - int64(i))
				}
			}
			w.ue(p.rSaoLuma)
			w.ue(0)
		}
		if p.ext&2 != 0 {
			w.f(true)
			w.f(true)
			w.u(5, 6)
			w.ue(p.mNumRefLoc)
			for i := 0; i < p.mRefLocWritten && uint64(i) < p.mNumRefLoc; i++ {
				w.u(uint64(i), 6)
				w.f(p.mRefLocAll)
				if p.mRefLocAll {
					w.se(-16384)
					w.se(16383)
					w.se(1)
					w.se(-1)
				}
				w.f(p.mRefLocAll)
				if p.mRefLocAll {
					w.se(-16384)
					w.se(16383)
					w.se(1)
					w.se(-1)
				}
				w.f(p.mRefLocAll)
				if p.mRefLocAll {
					w.ue(31)
					w.ue(1 << 32)
					w.ue(63)
					w.ue(255)
				}
			}
			w.f(p.mCM)
			if p.mCM {
				w.ue(p.mNumCmRefLayersMinus1)
				n := p.mNumCmRefLayersMinus1
				if n > 70 {
					n = 70
				}
				for i := uint64(0); i <= n; i++ {
					w.u(i&63, 6)
				}
				w.u(p.mOctantDepth, 2)
				w.u(p.mYPart, 2)
				w.ue(p.mBdInL)
				w.ue(p.mBdInC)
				w.ue(p.mBdOutL)
				w.ue(p.mBdOutC)
				w.u(p.mResQuant, 2)
				w.u(p.mFlc, 2)
				if p.mOctantDepth == 1 {
					w.se(-3)
					w.se(3)
				}
				p.writeOctants(w, 0)
			}
		}
		if p.ext&4 != 0 {
			w.f(p.dPresent)
			if p.dPresent {
				w.u(p.dLayersMinus1, 6)
				w.u(p.dBd, 4)
				nb := int(p.dBd) + 8
				for i := uint64(0); i <= p.dLayersMinus1; i++ {
					w.f(p.dMode != 0)
					switch p.dMode {
					case 0:
					case 1:
						w.f(false)
						w.f(true)
						for j := 0; j < 24; j++ {
							w.f(j%3 == 0)
						}
					default:
						pred := p.dMode == 2
						w.f(pred)
						if !pred {
							w.f(false)
						}
						w.u(p.dNumVal, nb)
						if p.dNumVal > 1 {
							w.u(p.dMaxDiff, nb)
						}
						maxDiff := uint64(0)
						if p.dNumVal > 1 {
							maxDiff = p.dMaxDiff
						}
						minDiff := int64(maxDiff) // min_diff_minus1 + 1
						if p.dNumVal > 2 && maxDiff > 0 {
							w.u(0, ceilLog2u(maxDiff+1))
							minDiff = 1
						}
						w.u(1, nb)
						if int64(maxDiff) > minDiff {
							for k := uint64(1); k < p.dNumVal && k < 12; k++ {
								w.u(k&1, ceilLog2u(uint64(int64(maxDiff)-minDiff+1)))
							}
						}
					}
				}
			}
		}
		if p.ext&8 != 0 {
			w.f(p.sCurrPicRef)
			w.f(p.sAct)
			if p.sAct {
				w.f(p.sActOffsets)
				w.se(p.sActVal)
				w.se(-p.sActVal)
				w.se(p.sActVal)
			}
			w.f(p.sInit)
			if p.sInit {
				w.ue(p.sNum)
				if p.sNum > 0 {
					w.f(p.sMono)
					w.ue(p.sBdL)
					comps := 1
					if !p.sMono {
						comps = 3
						w.ue(p.sBdC)
					}
					for c := 0; c < comps; c++ {
						bd := p.sBdL
						if c > 0 {
							bd = p.sBdC
						}
						nb := int((bd + 8) & 0xff)
						for i := 0; i < p.sWritten; i++ {
							w.uw(uint64(i+1), nb)
						}
					}
				}
			}
		}
		for i := 0; i < p.extData; i++ {
			w.f(i%2 == 1)
		}
	}
	return w.nal(0x44, 0x01)
}

// hvSliceOpt: one slice segment header laid out for (sps, pps).
type hvSliceOpt struct {
	nalType   uint
	first     bool
	sliceType uint64 // 0 B, 1 P, 2 I
	rpsSps    bool
	rpsIdx    uint64 // value of short_term_ref_pic_set_idx
	idxOnes   bool   // ... or all ones
	localMode int    // !rpsSps: 0 explicit, 1 inter-predicted
	deltaIdx  uint64 // delta_idx_minus1 of an inter-predicted slice-local set
	ltSps     uint64
	ltPics    uint64
	override  bool
	refL0     uint64
	entry     uint64 // num_entry_point_offsets
	extLen    uint64 // slice_segment_header_extension_length
	name      string
}

func hvSlice(s *hvSPS, p *hvPPS, counts []int, o hvSliceOpt) []byte {
	w := &hw{}
	w.f(o.first)
	if o.nalType >= 16 && o.nalType <= 23 {
		w.f(false)
	}
	w.ue(0) // slice_pic_parameter_set_id
	if !o.first {
		if p.depSlices {
			w.f(false)
		}
		w.u(1, 3) // slice_segment_address (some width)
	}
	for i := uint64(0); i < p.extraBits; i++ {
		w.f(false)
	}
	w.ue(o.sliceType)
	if p.outputFlag {
		w.f(true)
	}
	if s.chroma == 3 && s.sepPlane {
		w.u(1, 2)
	}
	if o.nalType != 19 && o.nalType != 20 {
		w.uw(5, s.pocBits())
		w.f(o.rpsSps)
		n := s.nRPS & 0xffffffff
		if o.rpsSps {
			if n > 1 {
				nb := ceilLog2u(n)
				v := o.rpsIdx
				if o.idxOnes {
					v = maxU64
				}
				w.uw(v&(uint64(1)<<uint(nb)-1), nb)
			}
		} else if o.localMode == 1 && len(counts) > 0 {
			ref := len(counts) - 1 - int(o.deltaIdx)
			nRef := 0
			if ref >= 0 && ref < len(counts) {
				nRef = counts[ref]
			}
			s.writeInter(w, nRef, 2, true, o.deltaIdx)
		} else {
			if n > 0 {
				w.f(false) // inter_ref_pic_set_prediction_flag
			}
			s.writeExplicit(w, 2, 1)
		}
		if s.ltPresent {
			if s.ltN > 0 {
				w.ue(o.ltSps)
			}
			w.ue(o.ltPics)
			tot := o.ltSps + o.ltPics
			if tot > 40 || tot < o.ltSps {
				tot = 40
			}
			for i := uint64(0); i < tot; i++ {
				if i < o.ltSps {
					if s.ltN > 1 {
						w.uw(i, ceilLog2u(s.ltN&0xffffffff))
					}
				} else {
					w.uw(i, s.pocBits())
					w.f(true)
				}
				w.f(i%2 == 0)
				if i%2 == 0 {
					w.ue(i)
				}
			}
		}
		if s.tmvp {
			w.f(true)
		}
	}
	if s.sao {
		w.f(true)
		if s.chroma != 0 && !(s.chroma == 3 && s.sepPlane) {
			w.f(true)
		}
	}
	if o.sliceType != 2 {
		w.f(o.override)
		l0, l1 := p.refL0, p.refL1
		if o.override {
			w.ue(o.refL0)
			l0 = o.refL0
			if o.sliceType == 0 {
				w.ue(1)
				l1 = 1
			}
		}
		if l0 > 15 {
			l0 = 15
		}
		if l1 > 15 {
			l1 = 15
		}
		if p.listsMod {
			w.f(true)
			for i := uint64(0); i <= l0; i++ {
				w.u(i&1, 1)
			}
			if o.sliceType == 0 {
				w.f(false)
			}
		}
		if o.sliceType == 0 {
			w.f(false) // mvd_l1_zero_flag
		}
		if p.cabacInit {
			w.f(true)
		}
		if s.tmvp && o.nalType != 19 && o.nalType != 20 {
			if o.sliceType == 0 {
				w.f(true)
			}
			if l0 > 0 {
				w.ue(0)
			}
		}
		if (p.weighted && o.sliceType == 1) || (p.weightedBi && o.sliceType == 0) {
			w.ue(2)
			if s.chroma != 0 {
				w.se(1)
			}
			for i := uint64(0); i <= l0; i++ {
				w.f(false)
			}
			if s.chroma != 0 {
				for i := uint64(0); i <= l0; i++ {
					w.f(false)
				}
			}
			if o.sliceType == 0 {
				for i := uint64(0); i <= l1; i++ {
					w.f(false)
				}
				if s.chroma != 0 {
					for i := uint64(0); i <= l1; i++ {
						w.f(false)
					}
				}
			}
		}
		w.ue(1) // five_minus_max_num_merge_cand
		if s.ext&8 != 0 && s.sccMvIdc == 2 {
			w.f(false)
		}
	}
	w.se(-2) // slice_qp_delta
	if p.chromaQpOffsets {
		w.se(1)
		w.se(-1)
	}
	if p.ext&8 != 0 && p.sAct && p.sActOffsets {
		w.se(1)
		w.se(2)
		w.se(3)
	}
	if p.ext&1 != 0 && p.rListEnabled {
		w.f(true)
	}
	if p.deblockOverride {
		w.f(false)
	}
	w.f(true) // slice_loop_filter_across_slices_enabled_flag (present: SAO on or deblocking enabled)
	if p.tiles || p.entropySync {
		w.ue(o.entry)
		if o.entry > 0 {
			w.ue(7)
			n := o.entry
			if n > 12 {
				n = 12
			}
			for i := uint64(0); i < n; i++ {
				w.u(i, 8)
			}
		}
	}
	if p.sliceExt {
		w.ue(o.extLen)
		n := o.extLen
		if n > 12 {
			n = 12
		}
		for i := uint64(0); i < n; i++ {
			w.u(0xa5, 8)
		}
	}
	w.Put(1, 1)
	w.AlignZero()
	w.PutBytes([]byte{0x9a, 0x5c, 0x33, 0xe1, 0x07, 0x42})
	return append([]byte{byte(o.nalType << 1), 0x01}, bitw.Escape(w.Bytes())...)
}

// hvSlices: the slice variants of one struct case.
func hvSlices(s *hvSPS, p *hvPPS, counts []int, r *runner.Rand) (out [][]byte, names []string) {
	n := s.nRPS & 0xffffffff
	add := func(o hvSliceOpt) {
		out = append(out, hvSlice(s, p, counts, o))
		names = append(names, o.name)
	}
	last := uint64(0)
	if n > 0 {
		last = n - 1
	}
	add(hvSliceOpt{nalType: 1, first: true, sliceType: 1, rpsSps: true, rpsIdx: last, name: "TRAIL_R P, short_term_ref_pic_set_idx = N-1"})
	add(hvSliceOpt{nalType: 1, first: true, sliceType: 0, rpsSps: true, rpsIdx: n, override: true, refL0: 2, name: "TRAIL_R B, short_term_ref_pic_set_idx = N"})
	add(hvSliceOpt{nalType: 21, first: true, sliceType: 2, rpsSps: true, idxOnes: true, ltSps: s.ltN, ltPics: 1, name: "CRA I, short_term_ref_pic_set_idx all ones, num_long_term_sps = max"})
	add(hvSliceOpt{nalType: 1, first: true, sliceType: 1, localMode: 1, deltaIdx: 0, ltPics: 2, entry: 3, extLen: 4, name: "TRAIL_R P, slice-local set predicted from the last SPS set"})
	add(hvSliceOpt{nalType: 0, first: true, sliceType: 1, localMode: 1, deltaIdx: last, name: "TRAIL_N P, slice-local set predicted from SPS set 0"})
	add(hvSliceOpt{nalType: 1, first: false, sliceType: 0, localMode: 1, deltaIdx: n, name: "TRAIL_R B, slice-local set with delta_idx_minus1 = N"})
	add(hvSliceOpt{nalType: 19, first: true, sliceType: 2, entry: maxU64, extLen: 256, name: "IDR_W_RADL I"})
	if r != nil {
		add(hvSliceOpt{nalType: uint(r.PickInt(1, 9, 16, 21)), first: r.Bool(), sliceType: uint64(r.Intn(3)), rpsSps: r.Bool(), rpsIdx: uint64(r.Intn(int(n%1024) + 2)),
			localMode: r.Intn(2), deltaIdx: uint64(r.Intn(int(n%1024) + 1)), ltSps: uint64(r.Intn(4)), ltPics: pickU(r, 0, 1, 3, 1<<32, maxU64, maxU64-1),
			override: r.Bool(), refL0: pickU(r, 0, 1, 14, 15, 255, 1<<32), entry: pickU(r, 0, 1, 5, 1<<16, maxU64), extLen: pickU(r, 0, 1, 256, 65535, 65536), name: "random slice"})
	}
	return out, names
}

func pickU(r *runner.Rand, v ...uint64) uint64 { return v[r.Intn(len(v))] }

// ---------------------------------------------------------------------------
// AVC PPS with hostile slice groups

type avPPS struct {
	groups, mapType uint64
	val             uint64 // the map-type specific count/rate/run length
	written         int
	refL0, refL1    uint64
	weighted        bool
	bipred          uint64
	more            bool
}

func (p *avPPS) encode() []byte {
	w := &hw{}
	w.ue(0)
	w.ue(0)
	w.f(false)
	w.f(false)
	w.ue(p.groups)
	if p.groups > 0 {
		w.ue(p.mapType)
		g := p.groups
		if g > 8 {
			g = 8
		}
		switch p.mapType {
		case 0:
			for i := uint64(0); i <= g; i++ {
				w.ue(p.val)
			}
		case 2:
			for i := uint64(0); i < g; i++ {
				w.ue(p.val)
				w.ue(p.val)
			}
		case 3, 4, 5:
			w.f(true)
			w.ue(p.val)
		case 6:
			w.ue(p.val)
			for i := 0; i < p.written; i++ {
				w.u(uint64(i)%(g+1), ceilLog2u(g+1))
			}
		}
	}
	w.ue(p.refL0)
	w.ue(p.refL1)
	w.f(p.weighted)
	w.u(p.bipred, 2)
	w.se(0)
	w.se(0)
	w.se(0)
	w.f(true)
	w.f(false)
	w.f(false)
	if p.more {
		w.f(true)
		w.f(false)
		w.se(-1)
	}
	return w.nal(0x68)
}

// ---------------------------------------------------------------------------
// the ps-struct plan

// structCase is one recipe: a mutation of the base records.
type structCase struct {
	group string
	codec string
	kind  string // which set is hostile: hevc-sps hevc-pps avc-pps
	desc  string
	sps   hvSPS
	pps   hvPPS
	av    avPPS
}

var (
	structCases []structCase
	structRand  int
)

var hostileCounts = []uint64{0, 1, 7, 255, 65535, 1 << 21, 1<<32 - 1, maxU64}
var hostileBitDepths = []uint64{0, 8, 24, 56, 247, 248, 249, 255}
var hostileWideDepths = []uint64{0, 8, 24, 56, 57, 248, 1<<32 - 8, 1 << 63, maxU64 - 7, maxU64}

func buildStructPlan(thorough bool) int {
	structCases = nil
	add := func(c structCase) { structCases = append(structCases, c) }
	// G1: the short-term reference picture set list of the SPS
	for _, n := range []uint64{0, 1, 2, 3, 5, 6, 7, 9, 33, 64, 65, 128, 223, 224, 225, 255, 256, 257, 1000} {
		for mode := range rpsModeNames {
			for _, s0 := range [][2]int{{16, 16}, {16, 0}, {1, 1}, {0, 0}} {
				s := baseHvSPS()
				s.nRPS, s.rpsMode, s.set0Neg, s.set0Pos = n, mode, s0[0], s0[1]
				add(structCase{group: "hevc-sps/st-rps", codec: "hevc", kind: "hevc-sps", sps: s, pps: baseHvPPS(),
					desc: fmt.Sprintf("num_short_term_ref_pic_sets=%d, sets %s, set 0 with %d+%d pictures", n, rpsModeNames[mode], s0[0], s0[1])})
			}
		}
	}
	// G2: SCC extension of the SPS x bit depths
	for _, bd := range [][2]uint64{{0, 0}, {8, 8}, {24, 24}, {56, 56}, {247, 247}, {248, 248}, {248, 0}, {0, 248}, {249, 249}, {255, 255}} {
		for _, num := range []uint64{0, 7, 255, 65535, 1 << 21, 1<<32 - 1, maxU64} {
			for _, chroma := range []uint64{0, 1, 3} {
				for _, wr := range []int{0, 8} {
					s := baseHvSPS()
					s.bdLuma, s.bdChroma, s.chroma, s.ext = bd[0], bd[1], chroma, 8
					s.sccPalette, s.sccMaxSize, s.sccDelta, s.sccInit, s.sccNumMinus1, s.sccWritten, s.sccMvIdc = true, 63, 64, true, num, wr, 2
					add(structCase{group: "hevc-sps/scc-extension", codec: "hevc", kind: "hevc-sps", sps: s, pps: baseHvPPS(),
						desc: fmt.Sprintf("sps_scc_extension with sps_num_palette_predictor_initializers_minus1=%d (%d entries written), bit_depth_luma/chroma_minus8=%d/%d, chroma_format_idc=%d", num, wr, bd[0], bd[1], chroma)})
				}
			}
		}
	}
	// G3: POC width x long-term pictures
	for _, lp := range []uint64{0, 4, 12, 28, 60, 251, 252, 255} {
		for _, lt := range []uint64{0, 1, 2, 3, 32, 33, 255, 256} {
			s := baseHvSPS()
			s.log2Poc, s.ltPresent, s.ltN, s.tmvp, s.nRPS = lp, true, lt, lt%2 == 0, 3
			p := baseHvPPS()
			p.listsMod = true
			add(structCase{group: "hevc-sps/poc-long-term", codec: "hevc", kind: "hevc-sps", sps: s, pps: p,
				desc: fmt.Sprintf("log2_max_pic_order_cnt_lsb_minus4=%d, num_long_term_ref_pics_sps=%d", lp, lt)})
		}
	}
	// G4: extension flags of the SPS
	for ext := 0; ext < 16; ext++ {
		for _, e4 := range []uint8{0, 15} {
			for _, ed := range []int{0, 5} {
				for _, d3 := range []uint64{0, 1<<32 - 1} {
					s := baseHvSPS()
					s.ext, s.ext4, s.extData, s.d3Log2 = uint8(ext), e4, ed, d3
					s.sccPalette, s.sccInit, s.sccNumMinus1, s.sccWritten, s.sccCurrPicRef = ext&1 == 0, ext&2 == 0, 2, 3, true
					add(structCase{group: "hevc-sps/extension-flags", codec: "hevc", kind: "hevc-sps", sps: s, pps: baseHvPPS(),
						desc: fmt.Sprintf("sps extension flags range/multilayer/3d/scc=%04b, sps_extension_4bits=%d with %d data flags, 3d log2 sizes %d", ext, e4, ed, d3)})
				}
			}
		}
	}
	// G5: picture size x coding block sizes (slice_segment_address width, CtbSizeY)
	for _, dim := range []uint64{0, 1, 8, 65535, 1 << 31, 1<<32 - 1, 1 << 32} {
		for _, mc := range []uint64{0, 3, 250, 255} {
			for _, df := range []uint64{0, 3, 6, 255} {
				s := baseHvSPS()
				s.width, s.height, s.log2MinCb, s.log2Diff, s.nRPS = dim, dim, mc, df, 2
				p := baseHvPPS()
				p.depSlices = true
				add(structCase{group: "hevc-sps/picture-size", codec: "hevc", kind: "hevc-sps", sps: s, pps: p,
					desc: fmt.Sprintf("pic_width/height_in_luma_samples=%d, log2_min_luma_coding_block_size_minus3=%d, log2_diff_max_min=%d", dim, mc, df)})
			}
		}
	}
	// G6: tiles of the PPS
	for _, c := range []uint64{0, 1, 19, 21, 65536, 1<<32 - 1, maxU64} {
		for _, rw := range []uint64{0, 1, 19, 21, 65536, 1<<32 - 1, maxU64} {
			for _, uni := range []bool{false, true} {
				p := baseHvPPS()
				p.tiles, p.tileCols, p.tileRows, p.uniform = true, c, rw, uni
				add(structCase{group: "hevc-pps/tiles", codec: "hevc", kind: "hevc-pps", sps: baseHvSPS(), pps: p,
					desc: fmt.Sprintf("num_tile_columns_minus1=%d, num_tile_rows_minus1=%d, uniform_spacing_flag=%v", c, rw, uni)})
			}
		}
	}
	// G7: range extension of the PPS
	for _, ts := range []bool{false, true} {
		for _, l2 := range []uint64{0, 3, 1<<32 - 1, maxU64} {
			for _, ll := range []uint64{0, 5, 6, 255, 1 << 32, maxU64} {
				for _, sao := range []uint64{0, maxU64} {
					p := baseHvPPS()
					p.ext, p.transformSkip, p.rLog2MaxTS, p.rListEnabled, p.rDiffDepth, p.rListLenMinus1, p.rSaoLuma = 1, ts, l2, true, l2, ll, sao
					add(structCase{group: "hevc-pps/range-extension", codec: "hevc", kind: "hevc-pps", sps: baseHvSPS(), pps: p,
						desc: fmt.Sprintf("pps_range_extension: transform_skip=%v log2_max_transform_skip_block_size_minus2=%d chroma_qp_offset_list_len_minus1=%d log2_sao_offset_scale_luma=%d", ts, l2, ll, sao)})
				}
			}
		}
	}
	// G8: multilayer extension of the PPS
	for _, nl := range []uint64{0, 1, 2, 62, 63, 1 << 32, maxU64} {
		for _, all := range []bool{false, true} {
			p := baseHvPPS()
			p.ext, p.mNumRefLoc, p.mRefLocAll, p.mRefLocWritten = 2, nl, all, 3
			add(structCase{group: "hevc-pps/multilayer-ref-loc", codec: "hevc", kind: "hevc-pps", sps: baseHvSPS(), pps: p,
				desc: fmt.Sprintf("pps_multilayer_extension: num_ref_loc_offsets=%d (3 written, every optional part %v)", nl, all)})
		}
	}
	for _, nc := range []uint64{0, 61, 62, 255} {
		for od := uint64(0); od < 4; od++ {
			for yp := uint64(0); yp < 4; yp++ {
				for k, bd := range [][4]uint64{{0, 0, 0, 0}, {8, 8, 0, 0}, {0, 0, 8, 8}, {1 << 32, 0, 0, 1 << 32}, {maxU64 - 7, 0, 1 << 63, 0}, {1 << 63, 1, maxU64, 1}} {
					p := baseHvPPS()
					p.ext, p.mCM, p.mNumCmRefLayersMinus1, p.mOctantDepth, p.mYPart = 2, true, nc, od, yp
					p.mBdInL, p.mBdInC, p.mBdOutL, p.mBdOutC, p.mResQuant, p.mFlc, p.mCodedRes = bd[0], bd[1], bd[2], bd[3], uint64(k)%4, uint64(k+1)%4, k%2 == 1
					add(structCase{group: "hevc-pps/colour-mapping", codec: "hevc", kind: "hevc-pps", sps: baseHvSPS(), pps: p,
						desc: fmt.Sprintf("colour_mapping_table: num_cm_ref_layers_minus1=%d cm_octant_depth=%d cm_y_part_num_log2=%d bit depths in/out %d/%d/%d/%d", nc, od, yp, bd[0], bd[1], bd[2], bd[3])})
				}
			}
		}
	}
	// G9: 3D extension of the PPS
	for _, nl := range []uint64{0, 1, 63} {
		for _, bd := range []uint64{0, 8, 15} {
			for mode := 0; mode < 3; mode++ {
				p := baseHvPPS()
				p.ext, p.dPresent, p.dLayersMinus1, p.dBd, p.dMode = 4, true, nl, bd, mode
				add(structCase{group: "hevc-pps/3d-extension", codec: "hevc", kind: "hevc-pps", sps: baseHvSPS(), pps: p,
					desc: fmt.Sprintf("pps_3d_extension: pps_depth_layers_minus1=%d bit depth minus8=%d mode %d", nl, bd, mode)})
			}
			for _, nv := range []uint64{0, 1, 2, 3, 1<<(bd+8) - 1} {
				for _, md := range []uint64{0, 1, 1<<(bd+8) - 1} {
					p := baseHvPPS()
					p.ext, p.dPresent, p.dLayersMinus1, p.dBd, p.dMode, p.dNumVal, p.dMaxDiff = 4, true, nl, bd, 3, nv, md
					add(structCase{group: "hevc-pps/3d-extension", codec: "hevc", kind: "hevc-pps", sps: baseHvSPS(), pps: p,
						desc: fmt.Sprintf("pps_3d_extension delta_dlt: layers_minus1=%d bit depth minus8=%d num_val_delta_dlt=%d max_diff=%d", nl, bd, nv, md)})
				}
			}
		}
	}
	// G10: SCC extension of the PPS
	for _, num := range []uint64{0, 1, 8, 1 << 21, 1<<32 - 1, maxU64} {
		for _, mono := range []bool{false, true} {
			for _, bl := range hostileWideDepths {
				for _, bc := range []uint64{0, maxU64 - 7} {
					for _, wr := range []int{0, 8} {
						if num == 0 && (wr > 0 || bc > 0) {
							continue
						}
						p := baseHvPPS()
						p.ext, p.sCurrPicRef, p.sAct, p.sActOffsets, p.sActVal = 8, wr == 0, bc == 0, true, -17
						p.sInit, p.sNum, p.sMono, p.sBdL, p.sBdC, p.sWritten = true, num, mono, bl, bc, wr
						add(structCase{group: "hevc-pps/scc-extension", codec: "hevc", kind: "hevc-pps", sps: baseHvSPS(), pps: p,
							desc: fmt.Sprintf("pps_scc_extension: pps_num_palette_predictor_initializers=%d (%d written) monochrome=%v luma/chroma_bit_depth_entry_minus8=%d/%d", num, wr, mono, bl, bc)})
					}
				}
			}
		}
	}
	// G11: slice groups of the AVC PPS
	for _, g := range []uint64{1, 2, 7, 8} {
		for mt := uint64(0); mt < 8; mt++ {
			for _, v := range []uint64{0, 7, 98, 65536, 1<<32 - 1, 1 << 32, 1 << 63, maxU64} {
				a := avPPS{groups: g, mapType: mt, val: v, written: 12, refL0: 1, weighted: v%2 == 0, bipred: mt % 3, more: g%2 == 1}
				add(structCase{group: "avc-pps/slice-groups", codec: "avc", kind: "avc-pps", av: a,
					desc: fmt.Sprintf("num_slice_groups_minus1=%d slice_group_map_type=%d with run length / corner / change rate / map size %d", g, mt, v)})
			}
		}
	}
	structRand = 2000
	if thorough {
		structRand = 40000
	}
	return len(structCases) + structRand
}

// randomStructCase draws every field of a hostile record at once.
func randomStructCase(r *runner.Rand) structCase {
	switch r.Intn(5) {
	case 0:
		a := avPPS{groups: pickU(r, 0, 1, 2, 7, 8), mapType: uint64(r.Intn(8)), val: pickU(r, hostileCounts...), written: r.Intn(20),
			refL0: pickU(r, 0, 1, 31, 32, 1<<32-1, 1<<32), refL1: pickU(r, 0, 31, 32, maxU64), weighted: r.Bool(), bipred: uint64(r.Intn(4)), more: r.Bool()}
		return structCase{group: "avc-pps/random", codec: "avc", kind: "avc-pps", av: a, desc: fmt.Sprintf("random AVC PPS %+v", a)}
	case 1, 2:
		s := baseHvSPS()
		s.chroma, s.sepPlane = uint64(r.Intn(4)), r.Bool()
		s.width, s.height = pickU(r, 0, 8, 640, 65535, 1<<32-1), pickU(r, 0, 8, 360, 65535, 1<<32-1)
		s.bdLuma, s.bdChroma = pickU(r, hostileBitDepths...), pickU(r, hostileBitDepths...)
		s.log2Poc = pickU(r, 0, 4, 12, 28, 60, 251, 252, 255)
		s.log2MinCb, s.log2Diff = pickU(r, 0, 1, 3, 250, 255), pickU(r, 0, 1, 3, 6, 255)
		s.nRPS = pickU(r, 0, 1, 2, 3, 5, 6, 7, 9, 33, 64, 65, 224, 225, 255, 256, 257)
		s.rpsMode = r.Intn(len(rpsModeNames))
		s.set0Neg, s.set0Pos = r.PickInt(0, 1, 8, 16, 17), r.PickInt(0, 1, 8, 16)
		s.ltPresent, s.ltN = r.Bool(), pickU(r, 0, 1, 2, 3, 32, 33, 255)
		s.tmvp, s.sao = r.Bool(), r.Bool()
		s.ext, s.ext4, s.extData = uint8(r.Intn(16)), uint8(r.PickInt(0, 0, 1, 15)), r.Intn(9)
		s.d3Log2 = pickU(r, 0, 3, 1<<32-1, maxU64)
		s.sccPalette, s.sccInit, s.sccCurrPicRef = r.Chance(3, 4), r.Chance(3, 4), r.Bool()
		s.sccMaxSize, s.sccDelta = pickU(r, hostileCounts...), pickU(r, hostileCounts...)
		s.sccNumMinus1, s.sccWritten, s.sccMvIdc = pickU(r, hostileCounts...), r.Intn(10), uint64(r.Intn(4))
		p := randomHvPPS(r, false)
		return structCase{group: "hevc-sps/random", codec: "hevc", kind: "hevc-sps", sps: s, pps: p, desc: fmt.Sprintf("random HEVC SPS %+v", s)}
	}
	p := randomHvPPS(r, true)
	s := baseHvSPS()
	s.nRPS, s.ltPresent, s.ltN, s.tmvp = pickU(r, 1, 3, 5), r.Bool(), 2, r.Bool()
	return structCase{group: "hevc-pps/random", codec: "hevc", kind: "hevc-pps", sps: s, pps: p, desc: fmt.Sprintf("random HEVC PPS %+v", p)}
}

func randomHvPPS(r *runner.Rand, hostile bool) hvPPS {
	p := baseHvPPS()
	p.depSlices, p.outputFlag, p.extraBits, p.cabacInit = r.Bool(), r.Bool(), uint64(r.PickInt(0, 0, 2, 7)), r.Bool()
	p.refL0, p.refL1 = pickU(r, 0, 1, 14, 15, 255), pickU(r, 0, 1, 14, 15)
	p.chromaQpOffsets, p.weighted, p.weightedBi, p.listsMod, p.sliceExt, p.deblockOverride = r.Bool(), r.Bool(), r.Bool(), r.Bool(), r.Bool(), r.Bool()
	p.tiles, p.entropySync = r.Chance(1, 3), r.Chance(1, 3)
	if !hostile {
		p.tileCols, p.tileRows, p.uniform = 1, 1, true
		return p
	}
	p.transformSkip = r.Bool()
	p.tileCols, p.tileRows, p.uniform, p.tileWritten = pickU(r, hostileCounts...), pickU(r, hostileCounts...), r.Bool(), r.Intn(5)
	p.log2Par = pickU(r, 0, 4, maxU64)
	p.ext, p.ext4, p.extData = uint8(r.Intn(16)), uint8(r.PickInt(0, 0, 1, 15)), r.Intn(9)
	p.rLog2MaxTS, p.rDiffDepth, p.rListLenMinus1, p.rSaoLuma, p.rListEnabled = pickU(r, hostileCounts...), pickU(r, hostileCounts...), pickU(r, 0, 1, 5, 6, maxU64), pickU(r, hostileCounts...), r.Bool()
	p.mNumRefLoc, p.mRefLocWritten, p.mRefLocAll = pickU(r, 0, 1, 2, 62, 63, maxU64), r.Intn(4), r.Bool()
	p.mCM, p.mNumCmRefLayersMinus1, p.mOctantDepth, p.mYPart = r.Bool(), pickU(r, 0, 1, 61, 62, 255), uint64(r.Intn(4)), uint64(r.Intn(4))
	p.mBdInL, p.mBdInC, p.mBdOutL, p.mBdOutC = pickU(r, hostileWideDepths...), pickU(r, hostileWideDepths...), pickU(r, hostileWideDepths...), pickU(r, hostileWideDepths...)
	p.mResQuant, p.mFlc, p.mCodedRes = uint64(r.Intn(4)), uint64(r.Intn(4)), r.Bool()
	p.dPresent, p.dLayersMinus1, p.dBd, p.dMode = r.Chance(3, 4), pickU(r, 0, 1, 5, 63), pickU(r, 0, 4, 8, 15), r.Intn(4)
	p.dNumVal, p.dMaxDiff = pickU(r, 0, 1, 2, 3, 255, 1<<(p.dBd+8)-1), pickU(r, 0, 1, 2, 255, 1<<(p.dBd+8)-1)
	p.sCurrPicRef, p.sAct, p.sActOffsets, p.sActVal = r.Bool(), r.Bool(), r.Bool(), int64(r.PickInt(0, -17, 12, 1<<31))
	p.sInit, p.sNum, p.sMono, p.sWritten = r.Chance(3, 4), pickU(r, hostileCounts...), r.Bool(), r.Intn(10)
	p.sBdL, p.sBdC = pickU(r, hostileWideDepths...), pickU(r, hostileWideDepths...)
	return p
}

// avcStructSet: the benign AVC SPS and the slices of the AVC struct cases.
func avcStructSet() (sps []byte, slices [][]byte, names []string) {
	sps = avcSPSWithHRD(66, 0, 0, false, false, 0)
	for _, f := range []struct {
		hdr byte
		st  uint64
		ov  bool
	}{{0x65, 7, false}, {0x41, 5, false}, {0x41, 0, true}, {0x21, 6, false}, {0x01, 1, true}, {0x25, 2, false}} {
		slices = append(slices, avcSlice(f.hdr, f.st, 0, f.ov, 1))
		names = append(names, fmt.Sprintf("AVC slice header %02x slice_type %d override %v", f.hdr, f.st, f.ov))
	}
	return
}

func genStruct(x *runCtx, c *runner.Ctx, sub int) *job {
	var sc structCase
	var r *runner.Rand
	if sub < len(structCases) {
		sc = structCases[sub]
	} else {
		sc = randomStructCase(c.Rand)
		r = c.Rand
	}
	var sps, pps []byte
	var slices [][]byte
	var names []string
	if sc.codec == "avc" {
		sps, slices, names = avcStructSet()
		pps = sc.av.encode()
	} else {
		var counts []int
		sps, counts = sc.sps.encode()
		pps = sc.pps.encode()
		slices, names = hvSlices(&sc.sps, &sc.pps, counts, r)
	}
	hostile := sps
	ps := []string{hex.EncodeToString(sps), hex.EncodeToString(pps)}
	if sc.kind != "hevc-sps" {
		hostile = pps
		ps = []string{hex.EncodeToString(pps), hex.EncodeToString(sps)}
	}
	desc := fmt.Sprintf("ps-struct(%s): %s built with %s", sc.group, sc.kind, sc.desc)
	if len(desc) > 700 {
		desc = desc[:700] + " ..."
	}
	ch := &chainDetail{Codec: sc.codec, Struct: true, Kind: sc.kind, PS: ps}
	j := &job{chain: ch}
	j.items = append(j.items, item{In: hostile, Mode: "all", Desc: desc + " -> every entry point"})
	for i, u := range slices {
		j.items = append(j.items, item{In: u, Mode: "dependent", Desc: fmt.Sprintf("%s -> %s", desc, names[i])})
	}
	if len(slices) > 2 {
		j.items = append(j.items, item{In: annexb.BuildSample(slices[:3]), Mode: "dependent", Desc: desc + " -> sample of the first slices"})
	}
	x.note("ps_struct_group", sc.group)
	x.note("ps_struct_len_class", sc.kind+" "+lenClass(len(hostile)))
	c.Count("ps_struct_cases", 1)
	units := append([][]byte{sps, pps}, slices...)
	x.toolIn = annexb.BuildStream(units, nil)
	return j
}
