// Package c16 decides property C16 (untrusted elementary-stream bytes never
// crash or hang the codec helpers). It is a resource monitor: every exported
// byte-taking entry point of avc, hevc, sei, aac, av1 and the two protect-range
// helpers of mp4 is run on hostile inputs inside the isolated workers of the
// runner; a recovered panic, a worker death (OOM, stack), an exceeded CPU
// budget, or more than 8 MiB + 1024*len bytes allocated by one call is a
// violation. The two command line tools that are anchors of the property
// (mp4ff-nallister, mp4ff-pslister) get the same material as Annex B streams
// (tools.go) and wrapped into mp4 files (mp4wrap.go). The library calls that
// build the plan itself are vetted in a bare probe first (guard.go): a hang or
// a blow-up there is a violation too, not a harness failure.
package c16

import (
	"bytes"
	"encoding/hex"
	"encoding/json"
	"fmt"
	"os"
	"strings"

	"github.com/Eyevinn/mp4ff/avc"
	"github.com/Eyevinn/mp4ff/hevc"

	"verifharness/ref/annexb"
	"verifharness/ref/bitw"
	"verifharness/runner"
)

// plan entry: a contiguous range of the case list produced by one generator.
type planEntry struct {
	kind  string
	count int
}

var plan []planEntry
var planTotal int

// curKind: generator of the case being run (evidence: which generator produced which finding key).
var curKind = "replay"

// ueTargets are the NAL units whose every bit position receives a forced
// Exp-Golomb code.
var ueTargets []seed

func buildPlan(env *runner.Env) {
	th := env.Tier == "thorough"
	pick := func(q, t int) int {
		if th {
			return t
		}
		return q
	}
	ueTargets = nil
	for _, k := range []string{"avc-sps", "avc-pps", "avc-slice", "hevc-vps", "hevc-sps", "hevc-pps", "hevc-slice", "avc-sei", "hevc-sei"} {
		// interleave hand-built seeds (HRD, FMO, weights ...) with the real ones
		var hb, real []seed
		for _, sd := range seeds.kind(k) {
			if strings.HasPrefix(sd.name, "handbuilt:") {
				hb = append(hb, sd)
			} else {
				real = append(real, sd)
			}
		}
		var l []seed
		for i := 0; i < len(hb) || i < len(real); i++ {
			if i < len(hb) {
				l = append(l, hb[i])
			}
			if i < len(real) {
				l = append(l, real[i])
			}
		}
		max := pick(10, 40)
		if k == "avc-pps" {
			max = pick(14, 40) // all slice group map types
		}
		if len(l) > max {
			l = l[:max]
		}
		ueTargets = append(ueTargets, l...)
	}
	plan = []planEntry{
		{"trunc", truncCount()},
		{"const", constCount()},
		{"sei-short", seiShortCount()},
		{"ue", len(ueTargets) * uePositions * pick(2, 4)},
		{"chain", pick(3000, 100000)},
		{"chain-ue", buildSysPlan(seeds, th)},
		{"ctx-ue", buildCtxUEPlan(th)},
		{"sei-ue", buildSEIUEPlan(seeds, th)},
		{"ps-struct", buildStructPlan(th)},
		{"flip", pick(12000, 600000)},
		{"lenprefix", pick(2000, 50000)},
		{"splice", pick(2000, 50000)},
		{"stream", pick(800, 10000)},
		{"sei-ffsize", seiFFSizeCount()},
		{"mp4-tool", mp4ToolCount(th)},
		{"tool-many-nalus", manyNalusCount()},
		{"ctx-trunc", buildCtxTruncPlan(th)},
		{"tool-sc-runs", scRunsCount()},
	}
	if only := os.Getenv("C16_ONLY"); only != "" {
		// development aid (mutant validation of one generator): C16_ONLY=mp4-tool,sei-ffsize keeps only these plan entries
		var keep []planEntry
		for _, p := range plan {
			for _, k := range strings.Split(only, ",") {
				if p.kind == k {
					keep = append(keep, p)
				}
			}
		}
		plan = keep
	}
	planTotal = 0
	for _, p := range plan {
		planTotal += p.count
	}
}

func locate(idx int) (kind string, sub int) {
	for _, p := range plan {
		if idx < p.count {
			return p.kind, idx
		}
		idx -= p.count
	}
	return "", 0
}

func init() {
	runner.Register(&runner.Prop{
		ID: "C16",
		Rule: "One case = one hostile input (chain and sei-short: a small group of dependent inputs) sent through every exported byte-taking entry point of avc, hevc, sei, aac, av1 and mp4.Get{AVC,HEVC}ProtectRanges " +
			"(raw and with the NAL header rewritten to the type the parser insists on; dependent parsers get maps of real parsed parameter sets for every id; ParseSEINalu gets nil and SPS values with every reachable HRD flag combination and 4-6 sets of the 5-bit lengths; " +
			"the SEI decoders get the external-parameter combinations (all of them for SEI inputs, a rotating subset otherwise); Type/Size/String/Payload/WriteSEIMessages on every returned message; Size/Encode/EncodeSW on every decoded configuration record). " +
			"Seeds: NAL units of the repo's Annex B test streams (split by ref/annexb), hex literals of the codec packages' tests, hand-built SEI payloads of every implemented type (incl. zero clock timestamps), AVC SPS with VUI+HRD, FMO PPS, slices with list modification/weights/marking, ADTS/ASC, avcC/hvcC/av1C. " +
			"Generators: trunc (every prefix of every seed), const (00/ff/80/01/55 strings of every length <= 64 behind every NAL header), sei-short (21 SEI types x payload length 0..40 x 4 fills, direct and framed), " +
			"ue (an Exp-Golomb code written at every RBSP bit position 0..319 of parameter set/slice/SEI seeds, RBSP re-escaped: pass 1 values 2^21/2^22, pass 2 values 32,64,255,256,65535,65536 and for 1/8 of the positions 2^24, 2^31, 2^32-2, 2^32-1 or one of the long-prefix values 2^64-1, 2^63, 2^32, 2^33-1: " +
			"bits.EBSPReader.ReadExpGolomb accepts any number of leading zero bits, so codes with 32..64 of them carry every 64-bit value, 2^64-1 being 64 zeros, a one and 64 zeros), " +
			"chain (mutated SPS/PPS parsed and then used as maps for the slices, SEI and protect ranges of the same stream), " +
			"chain-ue (systematic: for every parameter-set context - the repo's Annex B files, parameter sets of the test literals, the hand-built sets, and sets drawn with fixed generator seeds from the independent serializers ref/h264 and ref/h265 with weighted prediction, every slice group map type, redundant_pic_cnt, field coding, long-term references, tiles, entropy sync, lists modification, slice header extension and sub-picture HRD forced on - " +
			"an Exp-Golomb code is written at every data bit position of the SPS and of the PPS, replacing the code that starts there and rebuilding rbsp_trailing_bits: values 2^32-1, 2^31, 65536, 255 and the long-prefix values 2^64-1, 2^63, 2^32, 2^33-1 at every position and a single-bit flip of every position, in the thorough tier also 2^32-2, 2^31-1, 2^24, 65535, 256 and the first four values inserted instead of replacing; " +
			"for the contexts of the reference serializers, whose layout is known, every syntax element of 2..64 bits is also set to all ones and incremented by one as a fixed-width number; one case holds all variants of one position (each is parsed and followed by the same dependent units); " +
			"when the library accepts the hostile set, ordinary P/B/I slices of that context (with and without num_ref_idx_active_override; accepted by the library with the unmodified sets), its SEI units, a sample of the slices, ParsePPSNALUnit against a hostile SPS, the SPS methods and the DecConfRec constructors run with it; the tools get the Annex B stream with the hostile set in place), " +
			"ctx-ue (systematic: the same forced codes - quick: the eight primary values and the flip, as one group of dependent inputs - at each of the first 256 (thorough 768) RBSP bit positions of every slice of every context, parsed against the unmodified parameter sets of that context, so that the header branches a context switches on - long-term references, weight tables, entry points, header extension, slice groups - see extreme values; " +
			"plus fixed-width forcing at every position: the k bits that start there set to ones for k = 2..8, 16, 32 and the k-bit number that starts there incremented by one for k = 2..8, so that u(v) fields whose width comes from a parameter set - short_term_ref_pic_set_idx, lt_idx_sps, slice_segment_address, entry point offsets ... - reach their largest codable value and the value one above the last valid one; " +
			"six of the HEVC contexts have 3, 5, 6, 7, 9, 12 short-term reference picture sets and in every HEVC context the first slice of each class refers to the last set of the SPS), " +
			"sei-ue (systematic: the same forced codes at every bit position of every SEI payload seed and of HEVC pic_timing payloads laid out for each of the 64 external-parameter sets = 16 combinations of the flags DecodePicTimingHevcSEI reads x 4 sets of lengths, handed to the decoders with every external-parameter set and framed for avc/hevc.ParseSEINalu with nil and every hand-built SPS value), " +
			"ps-struct (parameter sets that are hostile by construction, written with a local bit layout of the HEVC SPS, PPS and slice segment header and of the AVC PPS: counts decoupled from what is present, byte-wrapping values, every extension forced on. Full products of the groups of fields that interact: " +
			"num_short_term_ref_pic_sets 0..1000 x six ways of coding the sets (explicit, chains of inter-predicted sets with all / use_delta / no entries kept, alternating) x size of set 0; sps_scc_extension with bit depths 0..255 x sps_num_palette_predictor_initializers_minus1 0..2^64-1 x chroma format; POC width x long-term pictures; the 16 combinations of the SPS extension flags x sps_extension_4bits; picture size x coding block sizes; " +
			"PPS tiles; pps_range_extension; pps_multilayer_extension (num_ref_loc_offsets, colour mapping table with every octant depth / partition number and bit depths up to 2^64-1); pps_3d_extension (depth layers x bit depth x every dlt coding); pps_scc_extension (initializer count x entry bit depths up to 2^64-1); AVC PPS slice groups (count x map type 0..7 x run length / rate / map size up to 2^64-1); " +
			"and a random part that draws every field at once. Each set is parsed together with its benign partner, then sent through every entry point, then slices laid out for it run against it: short_term_ref_pic_set_idx = N-1, N, all ones; slice-local sets predicted from the last / first / a non-existing SPS set; num_long_term_sps/pics, num_entry_point_offsets and slice_segment_header_extension_length at their extremes), flip (bit flips/boundary bytes/cuts/inserts), lenprefix (hostile 4-byte length fields, samples of 0..7 bytes), splice, stream (mutated Annex B streams), " +
			"sei-ffsize (SEI NAL units whose payload size or type field is a run of k = 1..65000 ff bytes x 3 payload types x avc/hevc x 5 endings; sei.ExtractSEIData allocates the announced 255*k bytes before reading: the SEI extraction calls on these inputs are also measured exactly with runtime.MemStats and the largest allocated/input ratio is recorded as maxima.sei_extraction_*, an observation - a factor of <= 256+ stays inside the bound below), " +
			"mp4-tool (the mp4 input paths of the two tools: hostile length-prefixed samples and hostile avcC/hvcC configuration records wrapped into structurally valid mp4 files, so that mp4.DecodeFile accepts the file and the tool code behind it runs. " +
			"Frames: progressive with moov first / mdat first, fragmented init + styp/moof/mdat, a media segment without moov (codec from -c) - written byte-wise by a local box writer, every size and offset computed from what was written - " +
			"and /repo's own files: cmd/mp4ff-nallister/testdata/h264.mp4 and hevc.mp4 with the first two samples replaced in place (same sample sizes: padded with one filler NAL unit or cut) and the avcC/hvcC box replaced with the sizes of all ancestors and, where mdat follows, the chunk offsets adjusted (located with the independent box walker ref/boxwalk), mp4/testdata/init.mp4 and hvc1_init.mp4 followed by a segment written for their track id; sample entries avc1/avc3/hvc1/hev1. " +
			"21 configuration-record classes: valid; no configuration box; zero SPS; zero SPS and zero PPS / no arrays; zero PPS / VPS only; no VPS / empty PPS; counts of 0 with the sets still following / arrays announcing 0 NAL units; counts beyond the data; 16-bit lengths beyond the data; lengths shorter than the unit; parameter sets of length 0; header-only sets; cut sets; mutated / forced-ue sets; hand-built HRD SPS; wrong NAL type in a slot, array types 0/63; 31 SPS / 255 PPS / duplicated arrays / 40 units per array; lengthSizeMinusOne 0..2; configurationVersion and trailer variants; record cut after k bytes; byte-mutated record. " +
			"12 sample classes: valid; a zero 4-byte length field first / in the middle / last / alone / three in a row; header-only NAL units of every type (1 byte, hevc 1..2 bytes); hostile length fields (the lenprefix generator); samples of 0..7 bytes; mutated units; hostile SEI units (payload shorter than the fixed header, size beyond the data, ff-run sizes); mutated / HRD in-band parameter sets followed by SEI and a slice; const units; an empty sample; a cut sample; samples of the other codec. " +
			"Systematic part: codec x frame x (every record class with valid samples + every sample class with a valid record + every sample class with a record without parameter sets or without configuration box, where the tools look for the parameter sets in the samples), then random combinations (quick 900, thorough 12 000). " +
			"Table part (round 5): behind the record/sample classes, valid samples with exactly one hostile sample-table / fragment-table field, written by a box-wise editor on top of every frame (mp4tbl.go: an edit that changes a box length adjusts all ancestor sizes and moves every chunk offset / trun data_offset that points behind the edit, so the container still decodes and only the one field is wrong; the structural step alone - stco rewritten as co64, ctts or stss removed, tfhd with base_data_offset = moof start - is a control class that both tools must accept). " +
			"72 classes: first chunk offset = 0 / before the mdat payload / last byte of mdat / end of mdat / beyond the file / 2^32-1.. / co64 with 2^63, 2^64-1, 2^32..; stsz entry of the first, second or last sample = 0 / 1 / one more than the mdat holds / 2^32-1..; stsz without table and a huge uniform size; more samples than the mdat or the time tables cover; stts one short; stts / ctts / stsc / stco with zero entries; stsc samples_per_chunk 0 / 1 / 2^32-1, first_chunk 0 / 2 / 2^32-1; " +
			"one box missing (stco stsz stsc stts mdat hdlr stsd stbl minf mdia tkhd moov; in the moov of a fragmented file also mvex trex; in the moof tfhd tfdt trun mfhd traf, the mdat of the fragment); mdat cut shorter than the tables say; trex / tfhd for another track; trun data_offset = moof start / before the mdat / last byte / end / beyond the file / 2^31-1 / negative; trun sample_size 0 / 1 / beyond the mdat / 2^32-1; more trun samples than the mdat holds; sizes from tfhd default_sample_size beyond the mdat; tfhd base_data_offset 0 / file length / 2^63 / 2^64-1. " +
			"Systematic: class x value variant x applicable frame x codec with a record without parameter sets (so that mp4ff-pslister too goes to the samples), then a quarter of the random part with any record. " +
			"Each file goes to mp4ff-nallister (no options; -c codec -sei 1 -ps; -c codec -sei 2 -raw 8 -m 1; segments without moov also -c <other codec> -sei 1) and mp4ff-pslister (-c codec -i f; -c codec -v -i f); its first two samples and the record also go through the library operations. A file with valid samples and a valid record must be accepted by both tools (checked in Finalize; mp4ff-pslister cannot read a segment without moov)). " +
			"tool-many-nalus (54 cases: 256 / 4096 / as many as fit into 64 KiB one- and two-byte NAL units of six kinds as an Annex B stream, as one sample of a progressive and of a fragmented mp4 file: what the tools do per NAL unit of a sample must stay linear; the CPU time of every tool run is recorded as maxima.tool_max_cpu_ms). " +
			"tool-sc-runs (round 7, 576 cases: Annex B streams with 2..5 start codes directly in a row = 1..4 consecutive empty NAL units, 3-byte / 4-byte / alternating code lengths, at the start, in the middle, at the end, at both ends, in every gap of a stream of real units and as the whole input, followed by 0..2 zero bytes, avc and hevc: " +
			"every one goes to both tools (mp4ff-nallister -annexb, mp4ff-pslister -i <file without mp4 extension> -c codec -v) and through the library operations). " +
			"2 % of the cases of the other generators (chain-ue: one variant of every 10th position) also go through the mp4ff-nallister and mp4ff-pslister binaries as Annex B streams / hex arguments. Tool verdicts: exit status 2 or a Go crash dump on stderr -> tool/<tool>/<top main or mp4 function>/<class> (the library key es/<function>/<class> when the top frame is codec-package code); more than 6 s CPU -> tool/<tool>/hang/cpu; resident set above 512 MiB + 1024*len(file) -> tool/<tool>/alloc/rss. " +
			"ctx-trunc (round 6: every slice of every context - and, for the contexts of the reference serializers, ten (AVC) / up to twelve (HEVC) further slices with every loop the context permits forced on: ref_pic_list_modification commands of every kind for both lists, a full pred_weight_table, memory management operations of every kind; " +
			"HEVC: list entries, weight tables of 16 entries per list, long-term pictures, entry points, header extension - cut short after every byte of the NAL unit and after every one of the first 512 (thorough 3200) RBSP bits with the rbsp_trailing_bits put back, so that the data ends behind every syntax element, in particular inside the command loops; " +
			"parsed against the unmodified parameter sets of that context; one case = 32 consecutive cuts of one slice; evidence: ctx_trunc_slice_with lists which loops the cut slices had). " +
			"The library calls that build the plan (parsing the seeds' own parameter sets, selecting the slices a context accepts: about 3 300) are vetted before they run in-process: each is repeated in a bare probe process " +
			"(operation, input and the parameter-set maps as bytes) under the same monitor as the calls of the cases; a call that exceeds the CPU budget twice (fresh process each time), crosses the allocation bound or kills the bare probe is never run in-process: " +
			"it is recorded with its input and the parameter sets it was parsed against (the witness replays) and reported by case 0 under es/<function>/cpu, /alloc or the crash class, the unit counts as rejected; a panic of a vetted call in-process is recorded the same way. " +
			"The parent does this once (ParentInit) and hands the verdicts to the workers and their probes in a file, so every process builds the same plan; a process that does not find a call there (replay) vets it itself. " +
			"The library calls of the cases run in a probe subprocess of each worker whose monitor goroutine watches the call in flight " +
			"(bytes allocated since the call started, runtime/metrics /gc/heap/allocs:bytes, against 8 MiB + 1024*len; process CPU time against 2 s + 20 us*len, a CPU exceedance must be reproduced in a fresh probe; " +
			"after a hang key is confirmed, calls found at 30 ms CPU inside the same function are aborted and counted as presumed repeats, not reported; after 3 presumed repeats, or 50 trips of one allocation / crash key, through the same operation that operation is suspended for the rest of the run in every worker - " +
			"not called, counted, named in a coverage note - so that a defect which most inputs reach does not cost a process restart per input; a tool whose hang was reported is killed after 1.5 s from then on and not run any more after 8 such runs in a worker; " +
			"the probe's goroutine stacks are limited to 64 MiB); the runner watchdog (6 s CPU per case, RLIMIT_AS 3 GiB) is the backstop. " +
			"A case is non-trivial when at least one operation accepted the input (returned a value without error); distinct_nontrivial counts distinct such input hashes; evaluations counts library calls and tool runs.",
		Assumptions: []string{
			"external SEI parameters stay inside what a parsed SPS can produce (5-bit length fields 0..31)",
			"allocation is measured as the cumulative heap allocation delta of the worker (GOMAXPROCS=2, nothing else running); small-object accounting lags by at most a few spans, far below the 8 MiB slack",
			"the plan (which contexts and slices exist) depends on what the library accepts during setup: a unit on which the library hangs, blows up or crashes counts as rejected, and after 50 such failures of one key through one operation the later calls of that operation count as rejected without being made (coverage note); the plan of a tree with such a defect is smaller than that of the repaired tree",
			"an operation suspended behind a confirmed hang / repeated allocation or crash key is not exercised for the rest of that run: what else is wrong with it shows after the reported defect is repaired (the run exits 1 either way)",
			"mp4-tool: box sizes always tile the file (hostile box sizes and nesting are the subject of C04). Since round 5 the values by which the two tools find the elementary-stream bytes - chunk offsets, sample sizes and counts, stsc runs, time-table lengths, trex/tfhd/trun offsets and sizes, and the presence of each box on that path - are varied one at a time around valid samples: the tools are anchors of C16 and index / slice with these values themselves. A crash inside container code (mp4.*) that a tool reaches with such a value is reported under the tool's key. A sample entry without avcC/hvcC box and records with zero parameter sets count as configuration-record edge cases",
			"a file that announces many samples is allowed to cost time proportional to that number: stsz without table with a huge sample_count and size 0 (4 billion empty samples in a 1 KiB file) is not generated",
			"'memory bounded by a small multiple of the input length' is read as the fixed bound 8 MiB + 1024*len per library call (DESIGN.md C04/C16) and 512 MiB + 1024*len resident set per tool run; the 256x allocation of sei.ExtractSEIData for an ff-run size field is inside it and recorded as an observation (maxima.sei_extraction_*), the largest tool resident set as maxima.tool_max_rss_kib",
		},
		Setup: setupAll,
		ParentInit: func(env *runner.Env) error {
			// the library calls of plan construction are vetted once, here; the workers and their probes read the verdicts
			// (guard.go). An error is left to the workers to report.
			_ = setupAll(env)
			return nil
		},
		NumCases:        func(env *runner.Env) int { return planTotal },
		Run:             run,
		Replay:          replay,
		Finalize:        finalize,
		HangIsViolation: true,
		CaseCPUSec:      6,
		MemLimitMB:      3072,
	})
}

// setupAll loads the seeds and builds the plan. Every library call on the way
// is vetted in a bare probe process or looked up in the verdict file of the
// run (guard.go); the verdicts obtained here are published for the processes
// started from this one.
func setupAll(env *runner.Env) error {
	vetInit(env.Scratch, env.RepoDir, env.Tier)
	defer vetPublish(env.Scratch)
	s, err := loadSeeds(env)
	if err != nil {
		if len(setupViol) > 0 {
			// the library failed on the seeds themselves: report that (case 0) instead of failing
			plan, planTotal = []planEntry{{"setup-only", 1}}, 1
			return nil
		}
		return err
	}
	seeds = s
	defaultMaps = buildDefaultMaps(s)
	loadRealMP4s(env)
	buildPlan(env)
	return nil
}

func run(c *runner.Ctx, idx int) {
	kind, sub := locate(idx)
	curKind = kind
	x := &runCtx{c: c, maps: defaultMaps}
	x.gen = &genState{rand: c.Rand}
	c.Seen("generator", kind)
	if idx == 0 {
		reportSetupViolations(c)
	}
	var j *job
	switch kind {
	case "trunc":
		genTrunc(x, sub)
	case "const":
		genConst(x, sub)
	case "sei-short":
		j = genSEIShort(x, sub)
	case "ue":
		genUE(x, sub)
	case "chain":
		j = genChain(x)
	case "chain-ue":
		j = genChainUE(x, c, sub)
	case "ctx-ue":
		j = genCtxUE(x, c, sub)
	case "ctx-trunc":
		j = genCtxTrunc(x, c, sub)
	case "sei-ue":
		j = genSEIUE(x, c, sub)
	case "ps-struct":
		j = genStruct(x, c, sub)
	case "setup-only":
		// the seeds could not be loaded because the library panicked on them: only the recorded panics are reported
		c.Count("setup_degraded", 1)
	case "flip":
		genFlip(x)
	case "lenprefix":
		genLenPrefix(x)
	case "splice":
		genSplice(x)
	case "stream":
		genStream(x)
	case "sei-ffsize":
		j = genSEIFFSize(sub)
	case "mp4-tool":
		runMP4Case(c, genMP4(c.Rand, sub))
		return
	case "tool-many-nalus":
		runManyNalus(c, sub)
		return
	case "tool-sc-runs":
		runSCRuns(c, sub)
		return
	default:
		c.Inconclusive("case index outside the plan")
		return
	}
	for _, n := range x.notes {
		c.Seen(n[0], n[1])
	}
	if j == nil {
		if x.in == nil && x.desc == "" {
			return
		}
		j = &job{items: []item{{In: x.in, Desc: x.desc, Mode: "all"}}}
	}
	if len(j.items) == 0 {
		return
	}
	drive(c, j)
	if useTools(c, kind, idx) {
		if x.toolIn != nil {
			d := j.items[0].Desc
			if x.toolDesc != "" {
				d = x.toolDesc
			}
			runTools(c, x.toolIn, d+" (tools: Annex B stream of the parameter sets and slices)")
		} else {
			runTools(c, j.items[0].In, j.items[0].Desc)
		}
	}
}

// job is what one case sends to the probe.
type job struct {
	items  []item
	chain  *chainDetail
	chains []*chainDetail // chain-ue: the variants of one position, each followed by the same items
}

type genState struct{ rand *runner.Rand }

func (x *runCtx) note(cat, val string) { x.notes = append(x.notes, [2]string{cat, val}) }

func chainKey(ch *chainDetail) string {
	if ch == nil {
		return ""
	}
	b, _ := json.Marshal(ch)
	return string(b)
}

func lenClass(n int) string {
	switch {
	case n == 0:
		return "0"
	case n < 4:
		return "1..3"
	case n <= 16:
		return "4..16"
	case n <= 64:
		return "17..64"
	case n <= 256:
		return "65..256"
	case n <= 4096:
		return "257..4096"
	}
	return ">4096"
}

func replay(c *runner.Ctx, detail json.RawMessage) {
	var w witness
	if err := json.Unmarshal(detail, &w); err != nil {
		c.Inconclusive("replay-detail-unreadable")
		return
	}
	in, err := hex.DecodeString(w.Input)
	if err != nil {
		c.Inconclusive("replay-detail-unreadable")
		return
	}
	mode := w.Mode
	if mode == "" {
		mode = "all"
	}
	if mode == "mp4-tool" {
		// the input is a whole mp4 file: both tools, every option set
		runMP4Tools(c, in, "", "replay: "+w.Case, nil)
		c.Nontrivial(1)
		c.Nontrivial(2)
		return
	}
	j := &job{items: []item{{In: in, Desc: "replay: " + w.Case, Mode: mode, Types: w.Types}}, chain: w.Chain}
	drive(c, j)
	if strings.HasPrefix(w.Op, "tool:") {
		runTools(c, in, "replay: "+w.Case)
	}
	c.Nontrivial(1)
	c.Nontrivial(2)
}

// runMP4Case: the hostile sample and the hostile configuration record go
// through the library operations like any other input, then the file goes to
// the tools.
func runMP4Case(c *runner.Ctx, mc *mp4Case) {
	if mc == nil {
		c.Count("mp4_tool_cases_without_material", 1)
		return
	}
	file, ok := mc.spec.build()
	if !ok {
		c.Inconclusive("mp4-tool: the file could not be built")
		return
	}
	c.Seen("mp4_tool_frame", mc.usedFrame)
	c.Seen("mp4_tool_config_class", mc.spec.cfgType()+" "+mc.cfgClass)
	c.Seen("mp4_tool_sample_class", mc.spec.codec()+" "+mc.smpClass)
	c.Seen("mp4_tool_file_len_class", lenClass(len(file)))
	if mc.tblClass != "none" {
		// valid samples behind one hostile table field: only the tools see the difference
		c.Seen("mp4_tool_table_class", mc.tblClass)
		c.Seen("mp4_tool_table_class_by_frame", mc.spec.Frame+" "+mc.tblClass)
		c.Count("mp4_tool_table_cases", 1)
	} else {
		j := &job{}
		for i, smp := range mc.spec.Samples {
			if i < 2 && len(smp) <= 4096 {
				j.items = append(j.items, item{In: smp, Mode: "all", Desc: fmt.Sprintf("%s -> sample %d handed to the library", mc.desc, i+1)})
			}
		}
		if !mc.spec.NoCfg {
			j.items = append(j.items, item{In: mc.spec.Config, Mode: "all", Desc: mc.desc + " -> configuration record handed to the library"})
		}
		drive(c, j)
	}
	if c.WantSample() {
		c.Sample(map[string]interface{}{"case": mc.desc, "file_len": len(file), "file_hex_head": head(hexs(file), 200)})
	}
	runMP4Tools(c, file, mc.spec.codec(), mc.desc, []string{mc.spec.Frame, mc.cfgClass, mc.smpClass, mc.tblClass})
}

func finalize(a *runner.Agg) {
	want := []string{"avc.SPS", "avc.PPS", "avc.SliceHeader", "avc.DecConfRec", "hevc.SPS", "hevc.PPS", "hevc.SliceHeader", "hevc.DecConfRec",
		"av1.CodecConfRec", "aac.ADTSHeader", "aac.AudioSpecificConfig"}
	for _, w := range want {
		if a.Seen["parsed"][w] == 0 {
			a.Note("no input was accepted as %s", w)
		}
	}
	for _, t := range []string{"*sei.PicTimingAvcSEI", "*sei.PicTimingHevcSEI", "*sei.TimeCodeSEI", "*sei.RegisteredSEI", "*sei.UnregisteredSEI",
		"*sei.MasteringDisplayColourVolumeSEI", "*sei.ContentLightLevelInformationSEI", "*sei.SEIData", "*sei.CEA608sei"} {
		if a.Seen["sei_message_go_type"][t] == 0 {
			a.Note("no SEI message of Go type %s was ever returned", t)
		}
	}
	for _, k := range []string{"avc-sps", "avc-pps", "hevc-sps", "hevc-pps"} {
		if a.Seen["chain_ue_accepted_kind"][k] == 0 {
			a.Note("chain-ue: no hostile %s was accepted by the library, its dependent parsers never ran with one", k)
		}
	}
	if a.Counters["tool_runs"] == 0 {
		a.Note("the mp4ff-nallister/mp4ff-pslister binaries were not run (missing under $VERIF_BIN/tools?)")
	}
	if a.Counters["tool_runs"] > 0 && a.Counters["tool_runs_on_mp4_files"] == 0 {
		a.Note("mp4-tool: no tool run on an mp4 file")
	}
	for k, n := range a.Seen["mp4_tool_exit_on_wellformed_file"] {
		// the files this monitor writes must be files the tools accept, otherwise the hostile content behind the container parser is never reached
		if n > 0 && !strings.HasSuffix(k, " exit 0") && !strings.HasPrefix(k, "mp4ff-pslister seg-only") {
			a.Note("mp4-tool: a file with valid samples and a valid configuration record was not accepted: %s (%d runs)", k, n)
		}
	}
	for k, n := range a.Seen["mp4_tool_exit_on_control_table_class"] {
		// structural steps of the table editor alone (co64 with the right offsets, no ctts ...) leave a valid file
		if n > 0 && !strings.HasSuffix(k, " exit 0") && !strings.HasPrefix(k, "mp4ff-pslister seg-only") {
			a.Note("mp4-tool: a file whose tables were only restructured (control class) was not accepted: %s (%d runs)", k, n)
		}
	}
	if a.Counters["tool_runs_on_mp4_files"] > 0 && len(a.Seen["mp4_tool_table_class"]) < len(tblClasses) {
		a.Note("mp4-tool: only %d of %d table classes were applied", len(a.Seen["mp4_tool_table_class"]), len(tblClasses))
	}
	for k := range a.Seen["mp4_tool_frame"] {
		if strings.HasSuffix(k, "(fallback)") {
			a.Note("mp4-tool: a test file of the repo was not usable as a frame, built frame used instead: %s", k)
		}
	}
	for k := range a.Seen["operation_suspended_behind_confirmed_hang_key"] {
		a.Note("operation suspended after %d presumed repeats of a confirmed hang key / %d trips of one allocation or crash key (not called for the rest of the run; what else is wrong with it shows once that defect is repaired): %s", suspendAfter, suspendAfterTrips, k)
	}
	for k := range a.Seen["operation_suspended_during_plan_construction"] {
		a.Note("plan construction stopped calling an operation after %d failures of one key (hang, allocation, crash); the contexts built afterwards have no unit that needs it: %s", suspendAfterTrips, k)
	}
	for k := range a.Seen["tool_suspended_behind_reported_hang"] {
		a.Note("tool not run any more after %d runs killed at the short timeout behind a reported hang: %s", toolSuspendAfter, k)
	}
	if v, ok := a.Maxes["sei_extraction_max_allocated_bytes_per_input_byte_x100(inputs >= 256 bytes)"]; ok {
		a.Extra["sei_extraction_allocation"] = fmt.Sprintf("largest allocation of one SEI extraction call: %d bytes; largest ratio allocated/input bytes (inputs >= 256 bytes): %.1f "+
			"(sei.ExtractSEIData allocates the size announced by an ff-run size field before reading; the statement's 'small multiple' is read as the bound below, which a factor of 256 does not cross)",
			a.Maxes["sei_extraction_max_allocated_bytes_in_one_call"], float64(v)/100)
	}
	_ = os.Remove(sharedKnownPath(os.Getpid()))
	a.Extra["alloc_bound"] = "8 MiB + 1024*len(input) bytes per call"
	a.Extra["cpu_budget_per_case_s"] = 6
}

// ---------------------------------------------------------------------------
// generators

func truncSeeds() []seed {
	var o []seed
	for _, sd := range seeds.all {
		if sd.kind == "stream-avc" || sd.kind == "stream-hevc" {
			continue
		}
		o = append(o, sd)
	}
	return o
}

const truncMax = 96

func truncLen(sd seed) int {
	if len(sd.b) < truncMax {
		return len(sd.b) + 1
	}
	return truncMax + 1
}

func truncCount() int {
	n := 0
	for _, sd := range truncSeeds() {
		n += truncLen(sd)
	}
	return n
}

func genTrunc(x *runCtx, sub int) {
	for _, sd := range truncSeeds() {
		l := truncLen(sd)
		if sub < l {
			x.in = cp(sd.b[:sub])
			if sub == l-1 {
				x.in = cp(sd.b) // the unmodified seed itself
			}
			x.desc = fmt.Sprintf("trunc: first %d of %d bytes of %s (%s)", len(x.in), len(sd.b), sd.name, sd.kind)
			x.note("seed_kind", sd.kind)
			return
		}
		sub -= l
	}
}

var constHdrs = [][]byte{nil, {0x67}, {0x68}, {0x65}, {0x41}, {0x06}, {0x40, 0x01}, {0x42, 0x01}, {0x44, 0x01}, {0x26, 0x01}, {0x02, 0x01}, {0x4e, 0x01}, {0x50, 0x01}, {0x01}, {0xff, 0xf1}}
var constFill = []byte{0x00, 0xff, 0x80, 0x01, 0x55}

func constCount() int { return 65 * len(constHdrs) * len(constFill) }

func genConst(x *runCtx, sub int) {
	l := sub % 65
	h := constHdrs[(sub/65)%len(constHdrs)]
	f := constFill[sub/65/len(constHdrs)]
	b := append([]byte{}, h...)
	for i := 0; i < l; i++ {
		b = append(b, f)
	}
	x.in = b
	x.desc = fmt.Sprintf("const: header %x + %d bytes of %02x", h, l, f)
}

var seiShortTypes = []uint{0, 1, 2, 3, 4, 5, 6, 45, 47, 128, 129, 132, 136, 137, 144, 147, 148, 200, 255, 256, 1000}

const seiShortMaxLen = 40

func seiShortCount() int { return len(seiShortTypes) * (seiShortMaxLen + 1) * 4 }

// genSEIShort: SEI payload shorter than each decoder's fixed header, both as
// a NAL unit (avc and hevc framing) and handed directly to the decoders.
func genSEIShort(x *runCtx, sub int) *job {
	l := sub % (seiShortMaxLen + 1)
	t := seiShortTypes[(sub/(seiShortMaxLen+1))%len(seiShortTypes)]
	fill := sub / (seiShortMaxLen + 1) / len(seiShortTypes)
	pl := make([]byte, l)
	var src []byte
	for _, sd := range seeds.kind("sei-payload") {
		if sd.typ == t {
			src = sd.b
		}
	}
	switch fill {
	case 0:
	case 1:
		for i := range pl {
			pl[i] = 0xff
		}
	case 2:
		copy(pl, src) // prefix of a valid payload of this type, zero padded
	default:
		copy(pl, x.gen.rand.Bytes(l))
	}
	j := &job{}
	// (a) direct
	j.items = append(j.items, item{In: pl, Mode: "sei-direct", Types: []uint{t},
		Desc: fmt.Sprintf("sei-short: type %d payload of %d bytes (fill %d) handed to the decoders", t, l, fill)})
	// (b) framed as NAL unit, declared size = actual, and declared size larger than actual
	for _, codec := range []string{"avc", "hevc"} {
		in := seiNAL(codec, []seiMsg{{t, pl}}, l%2 == 0)
		if l%5 == 4 {
			// declared size exceeds the data present
			body := append(ffRun(t), ffRun(uint(l+7))...)
			body = append(body, pl...)
			if codec == "avc" {
				in = append([]byte{0x06}, bitw.Escape(body)...)
			} else {
				in = append([]byte{0x4e, 0x01}, bitw.Escape(body)...)
			}
		}
		j.items = append(j.items, item{In: in, Mode: "all", Desc: fmt.Sprintf("sei-short: %s SEI NAL unit, type %d, payload %d bytes (fill %d)", codec, t, l, fill)})
	}
	return j
}

const uePositions = 320

var ueValues = []uint64{1 << 16, 1 << 21, 1 << 22, 255, 1<<32 - 1, 1 << 31, 1<<32 - 2, 1 << 24, maxU64, 1 << 63, 1 << 32, 1<<33 - 1}

func lethal(v uint64) bool { return v >= 1<<24 }

// genUE writes an Exp-Golomb code with a huge value at one bit position of a
// seed NAL unit's RBSP (overwriting or inserting), then re-escapes.
func genUE(x *runCtx, sub int) {
	per := planPer("ue")
	rep := sub % per
	pos := (sub / per) % uePositions
	sd := ueTargets[(sub/per/uePositions)%len(ueTargets)]
	r := x.gen.rand
	hdr := 1
	if len(sd.kind) > 4 && sd.kind[:4] == "hevc" {
		hdr = 2
	}
	if len(sd.b) <= hdr {
		x.in = cp(sd.b)
		x.desc = "ue: seed too short"
		return
	}
	rbsp := bitw.Unescape(sd.b[hdr:])
	nbits := len(rbsp) * 8
	if pos >= nbits {
		pos = r.Intn(nbits)
	}
	// value choice: mostly values that show count-driven allocation without
	// killing the worker; the lethal ones (>= 2^24: loops of 2^31.. iterations
	// or multi-GiB allocations) only for a sampled subset
	var v uint64
	switch {
	case rep%2 == 0:
		// values that show count-driven allocation without killing anything
		v = ueValues[1+r.Intn(2)]
	case (pos+int(runner.HashStr(sd.name)%8)+rep/2)%8 == 0:
		// sampled subset: values that only show as a hang or a multi-GiB allocation
		v = ueValues[4+r.Intn(8)]
	default:
		// small values: uint8/uint16 truncation and table-size limits
		v = []uint64{255, 256, 1 << 16, 65535, 32, 64}[r.Intn(6)]
	}
	insert := r.Bool()
	w := &bitw.W{}
	rd := bitw.NewR(rbsp)
	for i := 0; i < pos; i++ {
		w.Put(rd.Get(1), 1)
	}
	putUE(w, v)
	if !insert {
		// overwrite: skip as many bits as the code that presumably started here
		skip := 1 + r.Intn(9)
		for i := 0; i < skip && rd.Left() > 0; i++ {
			rd.Get(1)
		}
	}
	for rd.Left() > 0 {
		w.Put(rd.Get(1), 1)
	}
	if w.NBits()%8 != 0 {
		w.TrailingBits()
	}
	x.in = append(cp(sd.b[:hdr]), bitw.Escape(w.Bytes())...)
	x.desc = fmt.Sprintf("ue: ue(v)=%d written at RBSP bit %d of %s (%s), insert=%v", v, pos, sd.name, sd.kind, insert)
	x.note("seed_kind", sd.kind)
	x.note("ue_value", fmt.Sprint(v))
}

func planPer(kind string) int {
	for _, p := range plan {
		if p.kind == kind {
			return p.count / (len(ueTargets) * uePositions)
		}
	}
	return 1
}

// mutate applies 1..4 byte/bit level mutations.
func mutate(r *runner.Rand, b []byte) ([]byte, string) {
	b = cp(b)
	desc := ""
	nm := 1 + r.Intn(4)
	for i := 0; i < nm; i++ {
		if len(b) == 0 {
			b = append(b, byte(r.Intn(256)))
			continue
		}
		p := r.Intn(len(b))
		if r.Chance(2, 3) && len(b) > 48 {
			p = r.Intn(48) // headers matter most
		}
		switch r.Intn(10) {
		case 0, 1, 2:
			b[p] ^= 1 << uint(r.Intn(8))
			desc += fmt.Sprintf(" flip@%d", p)
		case 3:
			b[p] = []byte{0x00, 0x01, 0x7f, 0x80, 0xff, 0xfe, 0x03}[r.Intn(7)]
			desc += fmt.Sprintf(" set@%d", p)
		case 4:
			b[p] = byte(r.Intn(256))
			desc += fmt.Sprintf(" rnd@%d", p)
		case 5:
			b = b[:p]
			desc += fmt.Sprintf(" cut@%d", p)
		case 6:
			ins := []byte{0, 0, 0, 0}[:1+r.Intn(4)]
			if r.Bool() {
				ins = []byte{0xff, 0xff, 0xff, 0xff, 0xff}[:1+r.Intn(5)]
			}
			b = append(b[:p], append(cp(ins), b[p:]...)...)
			desc += fmt.Sprintf(" ins@%d", p)
		case 7:
			if p+1 < len(b) {
				b = append(b[:p], b[p+1:]...)
				desc += fmt.Sprintf(" del@%d", p)
			}
		case 8:
			for k := p; k < len(b) && k < p+4; k++ {
				b[k] = 0
			}
			desc += fmt.Sprintf(" zero4@%d", p)
		case 9:
			b = append(b, r.Bytes(1+r.Intn(16))...)
			desc += " extend"
		}
	}
	return b, desc
}

func genFlip(x *runCtx) {
	r := x.gen.rand
	sd := seeds.all[r.Intn(len(seeds.all))]
	if sd.kind == "stream-avc" || sd.kind == "stream-hevc" {
		sd = seeds.pick(r, "avc-sps", "hevc-sps", "avc-slice", "hevc-slice")
	}
	b, d := mutate(r, sd.b)
	x.in = b
	x.desc = "flip:" + d + " of " + sd.name + " (" + sd.kind + ")"
	x.note("seed_kind", sd.kind)
}

var hostileLens = []uint32{0, 1, 2, 3, 4, 0xfffffffc, 0xfffffffd, 0xfffffffe, 0xffffffff, 0x80000000, 0x7fffffff, 0x7ffffffc, 0xfffffff8, 0x00010000, 0x0000ffff}

// genLenPrefix: length-prefixed samples with hostile length fields and tiny
// samples.
func genLenPrefix(x *runCtx) {
	r := x.gen.rand
	if r.Chance(1, 10) {
		x.in = r.Bytes(r.Intn(8))
		if r.Bool() {
			for i := range x.in {
				x.in[i] = []byte{0, 0xff}[r.Intn(2)]
			}
		}
		x.desc = fmt.Sprintf("lenprefix: sample of %d bytes", len(x.in))
		return
	}
	x.in, x.desc = lenPrefixSample(r, "")
}

// lenPrefixSample: 1..4 seed units framed with 4-byte lengths, one or two of
// the length fields hostile (codec "": drawn).
func lenPrefixSample(r *runner.Rand, codec string) ([]byte, string) {
	n := 1 + r.Intn(4)
	var units [][]byte
	if codec == "" {
		codec = r.PickStr("avc", "hevc")
	}
	for i := 0; i < n; i++ {
		sd := seeds.pick(r, codec+"-sps", codec+"-pps", codec+"-slice", codec+"-sei", codec+"-slice")
		u := sd.b
		if len(u) > 300 {
			u = u[:300]
		}
		units = append(units, u)
	}
	s := annexb.BuildSample(units)
	// corrupt one or two length fields
	offs := []int{}
	p := 0
	for _, u := range units {
		offs = append(offs, p)
		p += 4 + len(u)
	}
	desc := ""
	for k := 0; k < 1+r.Intn(2); k++ {
		i := r.Intn(len(offs))
		o := offs[i]
		var v uint32
		switch r.Intn(4) {
		case 0, 1:
			v = hostileLens[r.Intn(len(hostileLens))]
		case 2:
			v = uint32(len(units[i]) + r.PickInt(-1, 1, -4, 4, -5, 3))
		default:
			v = uint32(len(s)-o-4) + uint32(r.PickInt(0, 1, -1, 4))
		}
		s[o], s[o+1], s[o+2], s[o+3] = byte(v>>24), byte(v>>16), byte(v>>8), byte(v)
		desc += fmt.Sprintf(" len[%d]=0x%x", i, v)
	}
	if r.Chance(1, 3) {
		s = s[:len(s)-r.Intn(minInt(len(s), 6))]
		desc += " tail-cut"
	}
	return s, "lenprefix: " + codec + " sample," + desc
}

func minInt(a, b int) int {
	if a < b {
		return a
	}
	return b
}

func genSplice(x *runCtx) {
	r := x.gen.rand
	switch r.Intn(4) {
	case 0:
		x.in = r.Bytes(r.Intn(200))
		x.desc = "splice: random bytes"
	case 1:
		a := seeds.all[r.Intn(len(seeds.all))]
		b := seeds.all[r.Intn(len(seeds.all))]
		ab, bb := a.b, b.b
		if len(ab) > 400 {
			ab = ab[:400]
		}
		if len(bb) > 400 {
			bb = bb[:400]
		}
		pa, pb := r.Intn(len(ab)+1), r.Intn(len(bb)+1)
		x.in = append(cp(ab[:pa]), bb[pb:]...)
		x.desc = fmt.Sprintf("splice: %s[:%d] + %s[%d:]", a.name, pa, b.name, pb)
	case 2:
		// a header of one kind on the body of another
		a := seeds.pick(r, "avc-sps", "avc-pps", "avc-slice", "avc-sei", "hevc-sps", "hevc-pps", "hevc-slice", "hevc-sei", "hevc-vps")
		h := constHdrs[1+r.Intn(len(constHdrs)-1)]
		x.in = retag(a.b, h...)
		if len(x.in) > 600 {
			x.in = x.in[:600]
		}
		x.desc = fmt.Sprintf("splice: header %x on the body of %s", h, a.name)
	default:
		// zero-rich / ff-rich random
		n := r.Intn(120)
		b := make([]byte, n)
		for i := range b {
			switch r.Intn(6) {
			case 0:
				b[i] = byte(r.Intn(256))
			case 1:
				b[i] = 0xff
			case 2:
				b[i] = 1
			case 3:
				b[i] = 3
			}
		}
		x.in = b
		x.desc = "splice: sparse random bytes"
	}
}

// genStream: mutated Annex B streams (start-code level damage).
func genStream(x *runCtx) {
	r := x.gen.rand
	sd := seeds.pick(r, "stream-avc", "stream-hevc")
	b := cp(sd.b)
	max := 2048 + r.Intn(6144)
	if len(b) > max {
		b = b[:max]
	}
	desc := ""
	for k := 0; k < 1+r.Intn(3); k++ {
		switch r.Intn(6) {
		case 0:
			p := r.Intn(len(b))
			b = append(b[:p], append([]byte{0, 0, 1}, b[p:]...)...)
			desc += fmt.Sprintf(" sc-inserted@%d", p)
		case 1:
			p := r.Intn(len(b))
			b = append(b[:p], append([]byte{0, 0, 1, 0, 0, 1}, b[p:]...)...)
			desc += fmt.Sprintf(" empty-nalu@%d", p)
		case 2:
			b = append(b, 0, 0, 1)
			desc += " sc-at-end"
		case 3:
			b = append(b, 0, 0, 0, 1, byte(r.Intn(256)))
			desc += " 1-byte-nalu-at-end"
		case 4:
			mb, d := mutate(r, b)
			b = mb
			desc += d
		case 5:
			b = b[:r.Intn(len(b))]
			desc += " cut"
		}
		if len(b) == 0 {
			b = []byte{0, 0, 1}
		}
	}
	x.in = b
	x.desc = "stream:" + desc + " of " + sd.name
}

// ---------------------------------------------------------------------------
// chain: hostile parameter sets feeding the dependent parsers

// chainMaps parses the base parameter sets of the stream (if given) and then
// the hostile ones, and returns maps in which every id resolves to the last
// set of its kind that parsed. hostileOK reports whether PS[0] was accepted.
func chainMaps(x *runCtx, ch *chainDetail) (m *psMaps, hostileOK bool) {
	m = &psMaps{avcSPS: map[uint32]*avc.SPS{}, avcPPS: map[uint32]*avc.PPS{}, hevcSPS: map[uint32]*hevc.SPS{}, hevcPPS: map[uint32]*hevc.PPS{},
		avcSEISPS: defaultMaps.avcSEISPS, hevcSEISPS: defaultMaps.hevcSEISPS}
	for k, v := range defaultMaps.avcSPS {
		m.avcSPS[k] = v
	}
	for k, v := range defaultMaps.avcPPS {
		m.avcPPS[k] = v
	}
	for k, v := range defaultMaps.hevcSPS {
		m.hevcSPS[k] = v
	}
	for k, v := range defaultMaps.hevcPPS {
		m.hevcPPS[k] = v
	}
	unhexAll := func(l []string) [][]byte {
		var o [][]byte
		for _, h := range l {
			o = append(o, unhex(h))
		}
		return o
	}
	if len(ch.Base) > 0 {
		parsePSInto(x, ch, m, unhexAll(ch.Base), false)
	}
	ok := parsePSInto(x, ch, m, unhexAll(ch.PS), true)
	n := 0
	for _, b := range ok {
		if b {
			n++
		}
	}
	if n > 0 {
		x.c.Count("chain_hostile_parameter_sets_parsed", int64(n))
	}
	return m, len(ok) > 0 && ok[0]
}

// parsePSInto parses the units (SPS first, then PPS against the SPS map as it
// stands) and makes every id resolve to what parsed. hostile: the units are
// mutated sets (a parsed SPS with VUI is also handed to the SEI parsers, and
// for chain-ue the SPS methods and configuration-record constructors run).
func parsePSInto(x *runCtx, ch *chainDetail, m *psMaps, ps [][]byte, hostile bool) []bool {
	ok := make([]bool, len(ps))
	if ch.Codec == "avc" {
		for i, u := range ps {
			u := u
			if len(u) == 0 || u[0]&0x1f != 7 {
				continue
			}
			var s *avc.SPS
			x.call("avc.ParseSPSNALUnit", len(u), func() {
				if v, err := avc.ParseSPSNALUnit(u, true); err == nil && v != nil {
					s = v
				}
			})
			if s == nil {
				continue
			}
			ok[i] = true
			for id := uint32(0); id < 32; id++ {
				m.avcSPS[id] = s
			}
			m.avcSPS[s.ParameterID] = s
			if hostile && s.VUI != nil {
				m.avcSEISPS = append([]*avc.SPS{s}, m.avcSEISPS...)
			}
			if hostile && (ch.Sys || ch.Struct) {
				x.call("avc.SPS methods", len(u), func() {
					_ = avc.CodecString("avc1", s)
					_ = s.ConstraintFlags()
					_ = s.CpbDpbDelaysPresent()
					_ = s.PicStructPresent()
					_ = s.ChromaArrayType()
				})
				x.call("avc.CreateAVCDecConfRec", len(u), func() {
					if dcr, err := avc.CreateAVCDecConfRec([][]byte{u}, [][]byte{{0x68, 0xce, 0x38, 0x80}}, true); err == nil && dcr != nil {
						var buf bytes.Buffer
						_ = dcr.Encode(&buf)
					}
				})
			}
		}
		for i, u := range ps {
			u := u
			if len(u) == 0 || u[0]&0x1f != 8 {
				continue
			}
			var p *avc.PPS
			x.call("avc.ParsePPSNALUnit", len(u), func() {
				if v, err := avc.ParsePPSNALUnit(u, m.avcSPS); err == nil && v != nil {
					p = v
				}
			})
			if p == nil {
				continue
			}
			ok[i] = true
			for id := uint32(0); id < 256; id++ {
				m.avcPPS[id] = p
			}
			m.avcPPS[p.PicParameterSetID] = p
		}
		return ok
	}
	for i, u := range ps {
		u := u
		if len(u) == 0 || (u[0]>>1)&0x3f != 33 {
			continue
		}
		var s *hevc.SPS
		x.call("hevc.ParseSPSNALUnit", len(u), func() {
			if v, err := hevc.ParseSPSNALUnit(u); err == nil && v != nil {
				s = v
			}
		})
		if s == nil {
			continue
		}
		ok[i] = true
		for id := uint32(0); id < 16; id++ {
			m.hevcSPS[id] = s
		}
		if hostile && s.VUI != nil {
			m.hevcSEISPS = append([]*hevc.SPS{s}, m.hevcSEISPS...)
		}
		if hostile && (ch.Sys || ch.Struct) {
			x.call("hevc.SPS methods", len(u), func() {
				_, _ = s.ImageSize()
				_ = hevc.CodecString("hvc1", s)
			})
			x.call("hevc.CreateHEVCDecConfRec", len(u), func() {
				if dcr, err := hevc.CreateHEVCDecConfRec([][]byte{{0x40, 0x01, 0x0c}}, [][]byte{u}, [][]byte{{0x44, 0x01, 0xc0}}, true, true, true, true); err == nil {
					var buf bytes.Buffer
					_ = dcr.Encode(&buf)
				}
			})
		}
	}
	for i, u := range ps {
		u := u
		if len(u) == 0 || (u[0]>>1)&0x3f != 34 {
			continue
		}
		var p *hevc.PPS
		x.call("hevc.ParsePPSNALUnit", len(u), func() {
			if v, err := hevc.ParsePPSNALUnit(u, m.hevcSPS); err == nil && v != nil {
				p = v
			}
		})
		if p == nil {
			continue
		}
		ok[i] = true
		for id := uint32(0); id < 64; id++ {
			m.hevcPPS[id] = p
		}
	}
	return ok
}

// mutatePS damages one parameter set: byte mutations or a forced ue(v).
func mutatePS(r *runner.Rand, u []byte, hdr int) ([]byte, string) {
	if len(u) <= hdr || r.Chance(1, 3) {
		return mutate(r, u)
	}
	rbsp := bitw.Unescape(u[hdr:])
	nbits := len(rbsp) * 8
	pos := r.Intn(nbits)
	v := ueValues[r.Intn(4)]
	if r.Chance(1, 12) {
		v = ueValues[4+r.Intn(8)]
	}
	w := &bitw.W{}
	rd := bitw.NewR(rbsp)
	for i := 0; i < pos; i++ {
		w.Put(rd.Get(1), 1)
	}
	putUE(w, v)
	skip := r.Intn(8)
	for i := 0; i < skip && rd.Left() > 0; i++ {
		rd.Get(1)
	}
	for rd.Left() > 0 {
		w.Put(rd.Get(1), 1)
	}
	if w.NBits()%8 != 0 {
		w.TrailingBits()
	}
	return append(cp(u[:hdr]), bitw.Escape(w.Bytes())...), fmt.Sprintf(" ue(%d)@bit%d", v, pos)
}

func genChain(x *runCtx) *job {
	r := x.gen.rand
	codec := r.PickStr("avc", "hevc")
	var g psGroup
	hdr := 1
	// the repo's streams and (half of the time) the contexts of the systematic plan
	groups := seeds.avcGroups
	if codec == "hevc" {
		groups = seeds.hevcGroups
		hdr = 2
	}
	if len(extraGroups[codec]) > 0 && r.Bool() {
		groups = extraGroups[codec]
	}
	g = groups[r.Intn(len(groups))]
	spsL, ppsL := g.sps, g.pps
	if codec == "avc" && r.Chance(1, 2) {
		// hand-built sets (HRD, FMO, scaling lists) and slices
		spsL = [][]byte{seeds.pick(r, "avc-sps").b}
		ppsL = [][]byte{seeds.pick(r, "avc-pps").b}
	}
	if len(spsL) == 0 || len(ppsL) == 0 {
		return &job{}
	}
	sps, pps := spsL[r.Intn(len(spsL))], ppsL[r.Intn(len(ppsL))]
	desc := "chain(" + codec + "):"
	var d string
	switch r.Intn(3) {
	case 0:
		sps, d = mutatePS(r, sps, hdr)
		desc += " sps" + d
	case 1:
		pps, d = mutatePS(r, pps, hdr)
		desc += " pps" + d
	default:
		sps, d = mutatePS(r, sps, hdr)
		desc += " sps" + d
		pps, d = mutatePS(r, pps, hdr)
		desc += " pps" + d
	}
	ch := &chainDetail{Codec: codec, PS: []string{hex.EncodeToString(sps), hex.EncodeToString(pps)}}
	j := &job{chain: ch}
	// dependent inputs: the slices and SEI units of the stream (sometimes mutated), and a sample of them
	var deps [][]byte
	for _, s := range g.slices {
		deps = append(deps, s)
	}
	for _, s := range g.seis {
		deps = append(deps, s)
	}
	if codec == "avc" {
		deps = append(deps, seeds.pick(r, "avc-slice").b, seeds.pick(r, "avc-sei").b)
	} else {
		deps = append(deps, seeds.pick(r, "hevc-sei").b)
	}
	if len(deps) > 5 {
		perm := r.Perm(len(deps))
		var d2 [][]byte
		for _, i := range perm[:5] {
			d2 = append(d2, deps[i])
		}
		deps = d2
	}
	var smp [][]byte
	for i, dep := range deps {
		if len(dep) > 400 {
			dep = dep[:400]
		}
		if r.Chance(1, 4) {
			dep, _ = mutate(r, dep)
		}
		smp = append(smp, dep)
		j.items = append(j.items, item{In: dep, Mode: "dependent", Desc: fmt.Sprintf("%s -> dependent unit %d", desc, i)})
	}
	j.items = append(j.items, item{In: annexb.BuildSample(smp), Mode: "dependent", Desc: desc + " -> sample of the dependent units"})
	return j
}
