package c16

// The probe is a second level of isolation below the runner's workers.
//
// On the unchanged tree a few percent of the hostile inputs make a parser spin
// for 2^32 iterations or allocate gigabytes. Letting each of them kill a
// runner worker (and be confirmed solo) costs 10+ s apiece, and the runner can
// only name the innermost frame of the dump. So every worker drives a
// persistent probe process (the same binary, started with --c16-probe) that
// executes the library calls. Inside the probe a monitor goroutine watches the
// operation in flight: cumulative bytes allocated since the operation started
// (runtime/metrics) against 8 MiB + 1024*len, and process CPU time
// (getrusage) against 2 s + 20 us*len. When a bound is exceeded it dumps the
// goroutine stacks, reports (operation, innermost mp4ff frame outside package
// bits, class) on the pipe and exits; the worker records the violation,
// starts a fresh probe and continues the same input with that operation
// skipped. A CPU exceedance is only a violation after it has been reproduced
// in a fresh probe. Once a hang key has been confirmed in a worker, later
// operations found at 30 ms CPU inside the same function are aborted as
// "presumed repeats" (counted, never reported as violations); after a few of
// them through one operation the worker suspends that operation (driver.go),
// which keeps the cost of a defect that most inputs reach bounded.
//
// A probe started with the extra argument "bare" loads no seeds and serves the
// single library calls of plan construction (guard.go, serveSetup below).
//
// The runner's own watchdog (CaseCPUSec, HangIsViolation) stays armed as a
// backstop for anything that escapes the probe.

import (
	"bufio"
	"encoding/json"
	"fmt"
	"os"
	"path/filepath"
	"runtime"
	"runtime/debug"
	"strings"
	"sync/atomic"
	"syscall"
	"time"
	"unsafe"

	"github.com/Eyevinn/mp4ff/avc"
	"github.com/Eyevinn/mp4ff/hevc"

	"verifharness/runner"
)

const (
	cpuBaseNs     = int64(2 * time.Second)
	cpuPerByteNs  = int64(20 * time.Microsecond)
	presumeAtNs   = int64(30 * time.Millisecond)
	statusFileLen = 256
)

type item struct {
	In    []byte `json:"in"`
	Desc  string `json:"desc"`
	Mode  string `json:"mode"`            // all | sei-direct | dependent | sei-nal | sei-extract
	Types []uint `json:"types,omitempty"` // sei-direct
}

type probeReq struct {
	Items []item       `json:"items"`
	Chain *chainDetail `json:"chain,omitempty"`
	// Chains (chain-ue): several hostile variants of one parameter set; each is parsed and then followed by the same items
	Chains   []*chainDetail `json:"chains,omitempty"`
	Poisoned []int          `json:"poisoned,omitempty"` // operation sequence numbers to skip
	StopAt   int            `json:"stop_at,omitempty"`  // >0: stop after this operation sequence number
	Confirm  bool           `json:"confirm,omitempty"`  // no presumed-repeat abort
	Known    []string       `json:"known,omitempty"`    // confirmed hang keys
	// Suspended: operations that are not run any more (see driver.go)
	Suspended []string `json:"suspended,omitempty"`
	// Setup: one library call of plan construction, to be made under the monitor (guard.go); served by bare probes
	Setup *setupCall `json:"setup,omitempty"`
}

type probeViol struct {
	Key    string   `json:"key"`
	What   string   `json:"what"`
	Detail *witness `json:"detail"`
}

type trip struct {
	Class string `json:"class"` // alloc | cpu | cpu-presumed
	Op    string `json:"op"`
	Seq   int    `json:"seq"`
	Item  int    `json:"item"`
	Chain int    `json:"chain"`
	Frame string `json:"frame"`
	Stack string `json:"stack"`
	CPUms int64  `json:"cpu_ms"`
	Alloc uint64 `json:"alloc"`
	Bound uint64 `json:"bound"`
	Len   int    `json:"len"`
}

type probeResp struct {
	Trip     *trip                       `json:"trip,omitempty"`
	Viol     []probeViol                 `json:"viol,omitempty"`
	Seen     map[string]map[string]int64 `json:"seen,omitempty"`
	Counts   map[string]int64            `json:"counts,omitempty"`
	Maxes    map[string]int64            `json:"maxes,omitempty"`
	Accepted []uint64                    `json:"accepted,omitempty"` // hashes of items some operation accepted
	NOps     int64                       `json:"nops"`
	Samples  []json.RawMessage           `json:"samples,omitempty"`
}

// sink is what the operations report to: *runner.Ctx in-process (replay of
// single operations, tests) or the probe's local accumulator.
type sink interface {
	Guard(f func()) *runner.PanicInfo
	Violation(key, what string, detail interface{})
	Seen(category, value string)
	Count(name string, n int64)
	SetMax(name string, v int64)
}

type localSink struct {
	resp *probeResp
}

func (s *localSink) Guard(f func()) (pi *runner.PanicInfo) {
	defer func() {
		if r := recover(); r != nil {
			st := string(debug.Stack())
			pi = &runner.PanicInfo{Value: fmt.Sprint(r), Stack: st}
			pi.Class = classifyPanic(r, pi.Value)
			pi.TopFrame = topRepoFrame(st, true)
		}
	}()
	f()
	return nil
}

func (s *localSink) Violation(key, what string, detail interface{}) {
	n := 0
	for _, v := range s.resp.Viol {
		if v.Key == key {
			n++
		}
	}
	s.Count("violations_raw_in_probe", 1)
	s.Seen("violation_keys_in_probe", key)
	if n >= 1 {
		return
	}
	w, _ := detail.(*witness)
	s.resp.Viol = append(s.resp.Viol, probeViol{Key: key, What: what, Detail: w})
}

func (s *localSink) Seen(cat, val string) {
	m := s.resp.Seen[cat]
	if m == nil {
		m = map[string]int64{}
		s.resp.Seen[cat] = m
	}
	m[val]++
}

func (s *localSink) Count(name string, n int64) { s.resp.Counts[name] += n }

func (s *localSink) SetMax(name string, v int64) {
	if s.resp.Maxes == nil {
		s.resp.Maxes = map[string]int64{}
	}
	if old, ok := s.resp.Maxes[name]; !ok || v > old {
		s.resp.Maxes[name] = v
	}
}

// classifyPanic mirrors runner's vocabulary (the runner's helper is unexported).
func classifyPanic(r interface{}, s string) string {
	if _, ok := r.(runtime.Error); ok {
		switch {
		case strings.Contains(s, "nil pointer dereference"):
			return "nil-deref"
		case strings.Contains(s, "index out of range"):
			return "index"
		case strings.Contains(s, "slice bounds out of range"):
			return "slice"
		case strings.Contains(s, "divide by zero"):
			return "divide"
		case strings.Contains(s, "interface conversion"):
			return "type-assertion"
		case strings.Contains(s, "makeslice"), strings.Contains(s, "len out of range"), strings.Contains(s, "cap out of range"):
			return "makeslice"
		case strings.Contains(s, "assignment to entry in nil map"):
			return "nil-map"
		}
		return "runtime-other"
	}
	return "explicit"
}

// topRepoFrame returns the first mp4ff function in a stack dump. afterPanic:
// only look below the "panic(" line (recovered panics). Frames of package bits
// (the bit readers every parser calls) are skipped when skipBits is set, so
// that the parser function that drives the loop is named.
func topRepoFrame(stack string, afterPanic bool) string {
	return frameOf(stack, afterPanic, false)
}

func frameOf(stack string, afterPanic, skipBits bool) string {
	seen := !afterPanic
	for _, l := range strings.Split(stack, "\n") {
		if strings.HasPrefix(l, "panic(") {
			seen = true
			continue
		}
		if !seen {
			continue
		}
		if strings.HasPrefix(l, "github.com/Eyevinn/mp4ff") {
			fn := l
			if i := strings.LastIndex(fn, "("); i > 0 {
				fn = fn[:i]
			}
			fn = strings.TrimPrefix(fn, "github.com/Eyevinn/mp4ff/")
			if skipBits && strings.HasPrefix(fn, "bits.") {
				continue
			}
			return fn
		}
	}
	return "unknown"
}

// goroutineSection cuts the dump of the goroutine that runs the operations
// (the one with (*runCtx).call on its stack) out of an all-goroutine dump.
func goroutineSection(all string) string {
	for _, sec := range strings.Split(all, "\n\n") {
		if strings.Contains(sec, "(*runCtx).call") {
			return sec
		}
	}
	return all
}

// ---------------------------------------------------------------------------
// state shared between the operation goroutine and the monitor

var (
	monActive  int32  // 1 while an operation is in flight
	monSeq     int64  // its sequence number within the request
	monGen     int64  // counts operations of the whole process (what the monitor compares)
	monLen     int64  // length of the bytes handed to it
	monAlloc0  uint64 // allocation counter at its start
	monItem    int64
	monChain   int64
	monOpName  atomic.Value // string
	monConfirm int32
	monKnown   atomic.Value // map[string]bool
	statusMem  []byte
	probeOut   *bufio.Writer
	tripped    int32
	// operations the worker has suspended (only read by the goroutine that runs the operations)
	suspendedSet map[string]bool
)

func cpuNow() int64 {
	var ru syscall.Rusage
	if err := syscall.Getrusage(syscall.RUSAGE_SELF, &ru); err != nil {
		return 0
	}
	return ru.Utime.Nano() + ru.Stime.Nano()
}

func setStatus(seq int, op string) {
	if statusMem == nil {
		return
	}
	atomic.StoreUint64((*uint64)(unsafe.Pointer(&statusMem[0])), uint64(seq))
	// which hostile variant / which item the operation belongs to (for a death without a trip report)
	atomic.StoreUint32((*uint32)(unsafe.Pointer(&statusMem[8])), uint32(atomic.LoadInt64(&monChain)))
	atomic.StoreUint32((*uint32)(unsafe.Pointer(&statusMem[12])), uint32(atomic.LoadInt64(&monItem)))
	n := copy(statusMem[16:statusFileLen-1], op)
	statusMem[16+n] = 0
}

func monitor() {
	lastGen := int64(-1)
	var cpu0 int64
	presumeChecked := false
	for {
		time.Sleep(time.Millisecond)
		if atomic.LoadInt32(&monActive) == 0 {
			continue
		}
		gen := atomic.LoadInt64(&monGen)
		if gen != lastGen {
			lastGen = gen
			cpu0 = cpuNow()
			presumeChecked = false
			continue
		}
		// seqlock: everything read between the two loads of monGen belongs to
		// one operation (otherwise the reading is discarded)
		seq := atomic.LoadInt64(&monSeq)
		n := atomic.LoadInt64(&monLen)
		a0 := atomic.LoadUint64(&monAlloc0)
		op, _ := monOpName.Load().(string)
		itemNo := atomic.LoadInt64(&monItem)
		chainNo := atomic.LoadInt64(&monChain)
		a := allocatedBytesMon()
		used := cpuNow() - cpu0
		if atomic.LoadInt64(&monGen) != gen || atomic.LoadInt32(&monActive) == 0 {
			continue
		}
		bound := uint64(allocBase + allocPerLen*n)
		class := ""
		switch {
		case a > a0 && a-a0 > bound:
			class = "alloc"
		case used > cpuBaseNs+cpuPerByteNs*n:
			class = "cpu"
		case !presumeChecked && used > presumeAtNs && atomic.LoadInt32(&monConfirm) == 0:
			presumeChecked = true
			if known, _ := monKnown.Load().(map[string]bool); len(known) > 0 {
				class = "cpu-presumed"
			}
		}
		if class == "" {
			continue
		}
		st := allStacks()
		if atomic.LoadInt64(&monGen) != gen || atomic.LoadInt32(&monActive) == 0 {
			continue // the operation ended while the stacks were taken; the check after its return still applies
		}
		sec := goroutineSection(st)
		fr := loopFrame(sec)
		if class == "cpu-presumed" {
			known, _ := monKnown.Load().(map[string]bool)
			if !known["es/"+fr+"/cpu"] {
				continue
			}
		}
		if !atomic.CompareAndSwapInt32(&tripped, 0, 1) {
			select {}
		}
		t := &trip{Class: class, Op: op, Seq: int(seq), Item: int(itemNo), Chain: int(chainNo), Frame: fr, Stack: head(sec, 4000),
			CPUms: used / 1e6, Alloc: a - a0, Bound: bound, Len: int(n)}
		b, _ := json.Marshal(&probeResp{Trip: t})
		probeOut.Write(b)
		probeOut.WriteByte('\n')
		probeOut.Flush()
		os.Exit(0)
	}
}

// loopFrame names the function to blame for a sampled stack. Walking from the
// innermost frame outwards it takes the first mp4ff function outside package
// bits that is either a real (not inlined) frame or the outermost function of
// an inlined chain (its caller is not mp4ff code). Inlined leaf helpers
// (GetNaluType, ChromaArrayType ...) and the bit readers are where the sample
// happens to land, not where the loop is.
func loopFrame(sec string) string {
	type fr struct {
		fn      string
		inlined bool
		repo    bool
	}
	var frames []fr
	for _, l := range strings.Split(sec, "\n") {
		if l == "" || l[0] == '\t' || strings.HasPrefix(l, "goroutine ") || strings.HasPrefix(l, "created by") {
			continue
		}
		f := fr{inlined: strings.HasSuffix(l, "(...)"), repo: strings.HasPrefix(l, "github.com/Eyevinn/mp4ff")}
		fn := l
		if i := strings.LastIndex(fn, "("); i > 0 {
			fn = fn[:i]
		}
		f.fn = strings.TrimPrefix(fn, "github.com/Eyevinn/mp4ff/")
		frames = append(frames, f)
	}
	fallback := "unknown"
	for i, f := range frames {
		if !f.repo {
			continue
		}
		if fallback == "unknown" {
			fallback = f.fn
		}
		if strings.HasPrefix(f.fn, "bits.") {
			continue
		}
		if !f.inlined {
			return f.fn
		}
		if i+1 >= len(frames) || !frames[i+1].repo {
			return f.fn
		}
	}
	return fallback
}

func allStacks() string {
	buf := make([]byte, 1<<20)
	n := runtime.Stack(buf, true)
	return string(buf[:n])
}

// separate sample slice: metrics.Read is not safe for concurrent use of one slice
var allocSampleMon = newAllocSample()

func allocatedBytesMon() uint64 { return readAlloc(allocSampleMon) }

// ProbeMain is the entry point of the probe process:
// <binary> --c16-probe <status file> <repo dir> <tier> [bare]
// bare: no seeds are loaded, the probe serves the library calls of setup only.
func ProbeMain(args []string) {
	if len(args) < 3 {
		fmt.Fprintln(os.Stderr, "usage: --c16-probe statusfile repodir tier [bare]")
		os.Exit(3)
	}
	bare := len(args) > 3 && args[3] == "bare"
	// no parser recurses: an unbounded recursion should die after 64 MiB of stack, not after copying its way up to 1 GiB
	debug.SetMaxStack(64 << 20)
	if bare {
		// the parent process has no address space limit; the workers' one is inherited anyway
		lim := uint64(3072) << 20
		_ = syscall.Setrlimit(syscall.RLIMIT_AS, &syscall.Rlimit{Cur: lim, Max: lim})
	}
	if f, err := os.OpenFile(args[0], os.O_RDWR, 0o644); err == nil {
		if m, err := syscall.Mmap(int(f.Fd()), 0, statusFileLen, syscall.PROT_READ|syscall.PROT_WRITE, syscall.MAP_SHARED); err == nil {
			statusMem = m
		}
		f.Close()
	}
	env := &runner.Env{RepoDir: args[1], Tier: args[2], Seed: 1}
	if !bare {
		// the library calls of loadSeeds/buildDefaultMaps are looked up in the verdict file of the run (guard.go)
		vetInit(filepath.Dir(args[0]), env.RepoDir, env.Tier)
		s, err := loadSeeds(env)
		if err != nil {
			fmt.Fprintln(os.Stderr, "probe: seeds:", err)
			os.Exit(3)
		}
		seeds = s
		defaultMaps = buildDefaultMaps(s)
		vetStop()
	}
	probeOut = bufio.NewWriterSize(os.Stdout, 1<<16)
	in := bufio.NewReaderSize(os.Stdin, 1<<20)
	go monitor()
	setStatus(-1, "idle")
	probeOut.WriteString("{\"ready\":true}\n")
	probeOut.Flush()
	for {
		line, err := in.ReadBytes('\n')
		if err != nil {
			return
		}
		var req probeReq
		if err := json.Unmarshal(line, &req); err != nil {
			fmt.Fprintln(os.Stderr, "probe: bad request:", err)
			os.Exit(3)
		}
		resp := serve(&req)
		if atomic.LoadInt32(&tripped) != 0 {
			select {} // the monitor is writing the trip report and exits
		}
		b, _ := json.Marshal(resp)
		probeOut.Write(b)
		probeOut.WriteByte('\n')
		probeOut.Flush()
	}
}

func serve(req *probeReq) *probeResp {
	resp := &probeResp{Seen: map[string]map[string]int64{}, Counts: map[string]int64{}}
	sk := &localSink{resp: resp}
	known := map[string]bool{}
	for _, k := range req.Known {
		known[k] = true
	}
	monKnown.Store(known)
	suspendedSet = map[string]bool{}
	for _, o := range req.Suspended {
		suspendedSet[o] = true
	}
	if req.Confirm {
		atomic.StoreInt32(&monConfirm, 1)
	} else {
		atomic.StoreInt32(&monConfirm, 0)
	}
	poisoned := map[int]bool{}
	for _, p := range req.Poisoned {
		poisoned[p] = true
	}
	st := &seqState{poisoned: poisoned, stopAt: req.StopAt}
	if req.Setup != nil {
		serveSetup(resp, sk, st, req.Setup)
		setStatus(-1, "idle")
		return resp
	}
	chains := req.Chains
	if len(chains) == 0 {
		chains = []*chainDetail{req.Chain}
	}
	for ci, ch := range chains {
		if st.stopped {
			break
		}
		atomic.StoreInt64(&monChain, int64(ci))
		serveChain(resp, sk, st, ch, req.Items)
	}
	setStatus(-1, "idle")
	return resp
}

// seqState numbers the operations of one request.
type seqState struct {
	n        int
	poisoned map[int]bool
	stopAt   int
	stopped  bool
}

// serveChain parses the parameter sets of one chain (nil: none) and runs the
// items with the resulting maps.
func serveChain(resp *probeResp, sk *localSink, st *seqState, ch *chainDetail, items []item) {
	maps := defaultMaps
	skipItems := false
	pfx := ""
	if ch != nil {
		atomic.StoreInt64(&monItem, 0)
		var ps0 []byte
		if len(ch.PS) > 0 {
			ps0 = unhex(ch.PS[0])
		}
		if ch.Desc != "" {
			pfx = ch.Desc + " -> "
		}
		x := &runCtx{c: sk, in: ps0, desc: "chain: parsing the hostile parameter sets", chain: ch, seq: st, maps: defaultMaps, mode: "chain-ps"}
		if ch.Desc != "" {
			x.desc = "chain: parsing the hostile parameter sets of: " + ch.Desc
		} else if len(items) > 0 {
			x.desc = "chain: parsing the hostile parameter sets of: " + items[0].Desc
		}
		var hostileOK bool
		maps, hostileOK = chainMaps(x, ch)
		resp.NOps += x.nOps
		if ch.Struct {
			if hostileOK {
				sk.Seen("ps_struct_accepted_kind", ch.Kind)
				resp.Accepted = append(resp.Accepted, runner.Hash64(ps0, []byte("ps-struct")))
			} else {
				sk.Seen("ps_struct_rejected_kind", ch.Kind)
			}
		}
		if ch.Sys {
			// chain-ue: the dependent units only run with a hostile set the library accepted
			if !hostileOK {
				sk.Count("chain_ue_hostile_set_rejected", 1)
				skipItems = true
			} else {
				sk.Count("chain_ue_hostile_set_accepted", 1)
				sk.Seen("chain_ue_accepted_kind", ch.Kind)
				if ch.Field != "" && ch.Flip {
					sk.Seen("chain_ue_accepted_with_first_bit_flipped_of", ch.Kind+":"+ch.Field)
				} else if ch.Field != "" {
					sk.Seen("chain_ue_accepted_with_extreme_value_in", ch.Kind+":"+ch.Field)
				}
				resp.Accepted = append(resp.Accepted, runner.Hash64(ps0, []byte("chain-ue")))
			}
		}
	}
	for i, it := range items {
		if st.stopped || skipItems {
			break
		}
		atomic.StoreInt64(&monItem, int64(i))
		x := &runCtx{c: sk, in: it.In, desc: pfx + it.Desc, maps: maps, chain: ch, seq: st, mode: it.Mode, types: it.Types}
		switch it.Mode {
		case "sei-direct":
			x.seiDirect(it.In, it.Types)
		case "dependent":
			codec := ""
			if ch != nil {
				codec = ch.Codec
			}
			x.runDependent(codec)
		case "sei-nal":
			x.runSEINal()
		case "sei-extract":
			x.runSEIExtract()
		default:
			x.runOps()
		}
		resp.NOps += x.nOps
		sk.Count("inputs", 1)
		sk.Seen("input_len_class", lenClass(len(it.In)))
		if x.progressed {
			sk.Count("inputs_accepted_by_some_operation", 1)
			resp.Accepted = append(resp.Accepted, runner.Hash64(it.In, []byte(chainKey(ch)), []byte(it.Mode)))
			if len(resp.Samples) < 1 {
				b, _ := json.Marshal(map[string]interface{}{"case": pfx + it.Desc, "input_hex": head(hexs(it.In), 200), "input_len": len(it.In), "library_calls": x.nOps})
				resp.Samples = append(resp.Samples, b)
			}
		}
	}
}

// ---------------------------------------------------------------------------
// bare probe: the library calls of plan construction

// The parameter sets of the maps were accepted by earlier calls of the same
// kind (a set only enters a map of setup after its own call came back), so
// they are parsed here outside the monitor, once per probe process.
var (
	scoutSPSCache = map[string]interface{}{}
	scoutPPSCache = map[string]interface{}{}
)

func scoutGuard(f func()) {
	defer func() { _ = recover() }()
	f()
}

func scoutAVCSPSMap(refs []psRef) map[uint32]*avc.SPS {
	m := map[uint32]*avc.SPS{}
	for _, r := range refs {
		k := "avc" + string(r.B)
		v, ok := scoutSPSCache[k]
		if !ok {
			var sps *avc.SPS
			scoutGuard(func() {
				if s, err := avc.ParseSPSNALUnit(r.B, true); err == nil {
					sps = s
				}
			})
			v = sps
			scoutSPSCache[k] = v
		}
		if sps, _ := v.(*avc.SPS); sps != nil {
			for _, id := range r.IDs {
				m[id] = sps
			}
		}
	}
	return m
}

func scoutHEVCSPSMap(refs []psRef) map[uint32]*hevc.SPS {
	m := map[uint32]*hevc.SPS{}
	for _, r := range refs {
		k := "hevc" + string(r.B)
		v, ok := scoutSPSCache[k]
		if !ok {
			var sps *hevc.SPS
			scoutGuard(func() {
				if s, err := hevc.ParseSPSNALUnit(r.B); err == nil {
					sps = s
				}
			})
			v = sps
			scoutSPSCache[k] = v
		}
		if sps, _ := v.(*hevc.SPS); sps != nil {
			for _, id := range r.IDs {
				m[id] = sps
			}
		}
	}
	return m
}

func ppsCacheKey(codec string, r psRef) string {
	b, _ := json.Marshal(r.SPS)
	return codec + string(r.B) + "|" + string(b)
}

func scoutAVCPPSMap(refs []psRef) map[uint32]*avc.PPS {
	m := map[uint32]*avc.PPS{}
	for _, r := range refs {
		k := ppsCacheKey("avc", r)
		v, ok := scoutPPSCache[k]
		if !ok {
			var pps *avc.PPS
			sm := scoutAVCSPSMap(r.SPS)
			scoutGuard(func() {
				if p, err := avc.ParsePPSNALUnit(r.B, sm); err == nil {
					pps = p
				}
			})
			v = pps
			scoutPPSCache[k] = v
		}
		if pps, _ := v.(*avc.PPS); pps != nil {
			for _, id := range r.IDs {
				m[id] = pps
			}
		}
	}
	return m
}

func scoutHEVCPPSMap(refs []psRef) map[uint32]*hevc.PPS {
	m := map[uint32]*hevc.PPS{}
	for _, r := range refs {
		k := ppsCacheKey("hevc", r)
		v, ok := scoutPPSCache[k]
		if !ok {
			var pps *hevc.PPS
			sm := scoutHEVCSPSMap(r.SPS)
			scoutGuard(func() {
				if p, err := hevc.ParsePPSNALUnit(r.B, sm); err == nil {
					pps = p
				}
			})
			v = pps
			scoutPPSCache[k] = v
		}
		if pps, _ := v.(*hevc.PPS); pps != nil {
			for _, id := range r.IDs {
				m[id] = pps
			}
		}
	}
	return m
}

// serveSetup makes one library call of plan construction under the monitor.
func serveSetup(resp *probeResp, sk *localSink, st *seqState, sc *setupCall) {
	in := sc.In
	x := &runCtx{c: sk, in: in, desc: "setup: " + sc.Op, seq: st, mode: "setup"}
	atomic.StoreInt64(&monItem, 0)
	atomic.StoreInt64(&monChain, 0)
	var f func()
	switch sc.Op {
	case "avc.ParseSPSNALUnit":
		f = func() { _, _ = avc.ParseSPSNALUnit(in, true) }
	case "hevc.ParseSPSNALUnit":
		f = func() { _, _ = hevc.ParseSPSNALUnit(in) }
	case "avc.ParsePPSNALUnit":
		sm := scoutAVCSPSMap(sc.SPS)
		f = func() { _, _ = avc.ParsePPSNALUnit(in, sm) }
	case "hevc.ParsePPSNALUnit":
		sm := scoutHEVCSPSMap(sc.SPS)
		f = func() { _, _ = hevc.ParsePPSNALUnit(in, sm) }
	case "avc.ParseSliceHeader":
		sm, pm := scoutAVCSPSMap(sc.SPS), scoutAVCPPSMap(sc.PPS)
		f = func() { _, _ = avc.ParseSliceHeader(in, sm, pm) }
	case "hevc.ParseSliceHeader":
		sm, pm := scoutHEVCSPSMap(sc.SPS), scoutHEVCPPSMap(sc.PPS)
		f = func() { _, _ = hevc.ParseSliceHeader(in, sm, pm) }
	default:
		sk.Count("setup_calls_of_unknown_operation", 1)
		return
	}
	lastAlloc = 0 // the baseline is read when the call starts: building the maps is not charged to it
	x.call(sc.Op, len(in), f)
	resp.NOps += x.nOps
}
