package c16

// tool-sc-runs (round 7): Annex B inputs for mp4ff-nallister (-annexb) and
// mp4ff-pslister (-i file without mp4 extension) with runs of 2..5 start codes
// directly in a row, i.e. 1..4 consecutive empty NAL units - 3-byte codes,
// 4-byte codes and both mixtures, at the start, in the middle, at the end, at
// both ends, in every gap, and as the whole input - followed by nothing, one or
// two zero bytes. The tools split the stream themselves and look at the first
// byte of every unit; whatever they do with the empty ones (skip, delete from
// the list while iterating ...) must hold for every length of the run. The
// stream also goes through the library operations (the Annex B scanners).

import (
	"fmt"

	"verifharness/runner"
)

var (
	scRunLens      = []int{2, 3, 4, 5}
	scRunPatterns  = []string{"3", "4", "34", "43"}
	scRunPositions = []string{"at the start", "in the middle", "at the end", "at both ends", "in every gap", "as the whole input"}
	scRunTails     = [][]byte{nil, {0}, {0, 0}}
)

func scRunsCount() int {
	return len(scRunLens) * len(scRunPatterns) * len(scRunPositions) * 2 * len(scRunTails)
}

// scRun: k start codes in a row; pattern gives the length (3 or 4 bytes) of
// the 1st, 2nd ... code, repeated.
func scRun(k int, pattern string) []byte {
	var o []byte
	for i := 0; i < k; i++ {
		if pattern[i%len(pattern)] == '4' {
			o = append(o, 0)
		}
		o = append(o, 0, 0, 1)
	}
	return o
}

func runSCRuns(c *runner.Ctx, sub int) {
	k := scRunLens[sub%len(scRunLens)]
	sub /= len(scRunLens)
	pattern := scRunPatterns[sub%len(scRunPatterns)]
	sub /= len(scRunPatterns)
	pos := sub % len(scRunPositions)
	sub /= len(scRunPositions)
	codec := []string{"avc", "hevc"}[sub%2]
	sub /= 2
	tail := scRunTails[sub%len(scRunTails)]

	groups := seeds.avcGroups
	if codec == "hevc" {
		groups = seeds.hevcGroups
	}
	var units [][]byte
	if len(groups) > 0 {
		g := groups[(k+pos)%len(groups)]
		for _, l := range [][][]byte{g.vps, g.sps, g.pps, g.seis, g.slices} {
			if len(l) > 0 {
				units = append(units, clip(l[0], 200))
			}
		}
	}
	run := scRun(k, pattern)
	var in []byte
	if pos == 5 || len(units) == 0 {
		in = append(in, run...)
	} else {
		mid := len(units) / 2
		for i, u := range units {
			atRun := pos == 4 || (i == 0 && (pos == 0 || pos == 3)) || (i == mid && pos == 1)
			switch {
			case atRun:
				in = append(in, run...)
			case i == 0:
				in = append(in, 0, 0, 0, 1)
			default:
				in = append(in, 0, 0, 1)
			}
			in = append(in, u...)
		}
		if pos == 2 || pos == 3 || pos == 4 {
			in = append(in, run...)
		}
	}
	in = append(in, tail...)
	desc := fmt.Sprintf("tool-sc-runs: %s Annex B stream with %d start codes in a row (code lengths %s) %s, followed by %d zero bytes; %d bytes",
		codec, k, pattern, scRunPositions[pos], len(tail), len(in))
	c.Seen("sc_runs_shape", fmt.Sprintf("%d start codes (%s) %s", k, pattern, scRunPositions[pos]))
	c.Seen("sc_runs_codec_and_tail", fmt.Sprintf("%s, %d zero bytes behind", codec, len(tail)))
	c.Count("sc_runs_cases", 1)
	if c.WantSample() {
		c.Sample(map[string]interface{}{"case": desc, "input_hex_head": head(hexs(in), 200)})
	}
	drive(c, &job{items: []item{{In: in, Desc: desc, Mode: "all"}}})
	runTools(c, in, desc)
}
