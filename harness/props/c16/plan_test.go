package c16

import (
	"fmt"
	"os"
	"strconv"
	"strings"
	"testing"

	"verifharness/ref/bitw"
	"verifharness/runner"
)

// TestPlan prints the case-list layout (development aid):
// C16_IDX="1,2,3" go test -tags verif -run TestPlan ./props/c16 -v
func TestPlan(t *testing.T) {
	env := &runner.Env{Tier: "quick", Seed: 1, RepoDir: "/repo"}
	if os.Getenv("C16_TIER") != "" {
		env.Tier = os.Getenv("C16_TIER")
	}
	s, err := loadSeeds(env)
	if err != nil {
		t.Fatal(err)
	}
	seeds = s
	defaultMaps = buildDefaultMaps(s)
	buildPlan(env)
	off := 0
	for _, p := range plan {
		fmt.Printf("%-10s %7d cases from %d\n", p.kind, p.count, off)
		off += p.count
	}
	fmt.Println("seeds:", len(s.all), "ue targets:", len(ueTargets))
	fmt.Println("chain-ue: streams", len(sysStreams), "targets", len(sysTargets), "positions", sysPositions, "per", sysPer, sysInfo)
	for _, st := range sysStreams {
		fmt.Printf("  %-60s %s sps %d B pps %d B slices %d seis %d %v\n", st.name, st.origin, len(st.sps), len(st.pps), len(st.slices), len(st.seis), st.features)
	}
	fmt.Println("sei-ue: seeds", len(seiUESeeds), "positions", seiUEPos, "per", seiUEPer)
	for k, v := range s.byKind {
		fmt.Printf("  %-12s %d\n", k, len(v))
	}
	cnt := map[string]int{}
	for _, f := range strings.Split(os.Getenv("C16_IDX"), ",") {
		if i, err := strconv.Atoi(f); err == nil {
			k, sub := locate(i)
			cnt[k]++
			c := &runner.Ctx{Env: env, Idx: i, Rand: runner.NewRand(uint64(env.Seed), runner.HashStr("C16"), uint64(i)+1)}
			x := &runCtx{c: c, maps: defaultMaps}
			switch k {
			case "trunc":
				genTrunc(x, sub)
			case "ue":
				genUE(x, sub)
			case "flip":
				genFlip(x)
			case "lenprefix":
				genLenPrefix(x)
			case "splice":
				genSplice(x)
			case "stream":
				genStream(x)
			}
			if os.Getenv("C16_DESC") != "" {
				fmt.Printf("%d\t%s\n", i, x.desc)
			}
		}
	}
	fmt.Println(cnt)
}

// TestServe runs one input through the probe's serve() in-process and prints
// what it reports (development aid): C16_HEX=0102 C16_MODE=sei-direct C16_TYPES=5
func TestServe(t *testing.T) {
	env := &runner.Env{Tier: "quick", Seed: 1, RepoDir: "/repo"}
	s, err := loadSeeds(env)
	if err != nil {
		t.Fatal(err)
	}
	seeds = s
	defaultMaps = buildDefaultMaps(s)
	it := item{In: unhex(os.Getenv("C16_HEX")), Desc: "test sei", Mode: os.Getenv("C16_MODE")}
	for _, f := range strings.Split(os.Getenv("C16_TYPES"), ",") {
		if v, err := strconv.Atoi(f); err == nil {
			it.Types = append(it.Types, uint(v))
		}
	}
	resp := serve(&probeReq{Items: []item{it}})
	for _, v := range resp.Viol {
		fmt.Println("VIOL", v.Key, "|", v.What)
	}
	fmt.Println("nops", resp.NOps, resp.Counts)
}

// TestPPSLoopWitnesses builds the two hevc PPS witnesses that the random
// workload reaches only under the shared key es/hevc.ParsePPSNALUnit/alloc:
// tile column loop and SCC palette loop running on after the data ended.
func TestPPSLoopWitnesses(t *testing.T) {
	env := &runner.Env{Tier: "quick", Seed: 1, RepoDir: "/repo"}
	s, err := loadSeeds(env)
	if err != nil {
		t.Fatal(err)
	}
	seeds = s
	defaultMaps = buildDefaultMaps(s)
	common := func(w *bitw.W) {
		w.UE(0) // pps id
		w.UE(0) // sps id
		w.Flag(false)
		w.Flag(false)
		w.Put(0, 3)
		w.Flag(false)
		w.Flag(false)
		w.UE(0)
		w.UE(0)
		w.SE(0)
		w.Flag(false)
		w.Flag(false)
		w.Flag(false) // cu_qp_delta_enabled
		w.SE(0)
		w.SE(0)
		w.Flag(false)
		w.Flag(false)
		w.Flag(false)
		w.Flag(false) // transquant bypass
	}
	tiles := &bitw.W{}
	common(tiles)
	tiles.Flag(true)  // tiles_enabled
	tiles.Flag(false) // entropy sync
	tiles.UE(1 << 21) // num_tile_columns_minus1
	tiles.UE(0)
	tiles.Flag(false) // uniform spacing
	tiles.TrailingBits()
	in := append([]byte{0x44, 0x01}, bitw.Escape(tiles.Bytes())...)
	resp := serve(&probeReq{Items: []item{{In: in, Desc: "tile witness", Mode: "all"}}})
	for _, v := range resp.Viol {
		fmt.Println("VIOL", v.Key, "|", head(v.What, 160))
	}
	fmt.Printf("tile witness %x\n", in)
}
