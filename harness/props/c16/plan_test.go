package c16

import (
	"bytes"
	"fmt"
	"os"
	"path/filepath"
	"sort"
	"strconv"
	"strings"
	"testing"

	"github.com/Eyevinn/mp4ff/avc"
	"github.com/Eyevinn/mp4ff/hevc"
	"github.com/Eyevinn/mp4ff/mp4"

	"verifharness/ref/bitw"
	"verifharness/ref/boxwalk"
	"verifharness/runner"
)

// TestPlan prints the case-list layout (development aid):
// C16_IDX="1,2,3" go test -tags verif -run TestPlan ./props/c16 -v
func TestPlan(t *testing.T) {
	env := &runner.Env{Tier: "quick", Seed: 1, RepoDir: "/repo"}
	if os.Getenv("C16_TIER") != "" {
		env.Tier = os.Getenv("C16_TIER")
	}
	s, err := loadSeeds(env)
	if err != nil {
		t.Fatal(err)
	}
	seeds = s
	defaultMaps = buildDefaultMaps(s)
	buildPlan(env)
	off := 0
	for _, p := range plan {
		fmt.Printf("%-10s %7d cases from %d\n", p.kind, p.count, off)
		off += p.count
	}
	fmt.Println("seeds:", len(s.all), "ue targets:", len(ueTargets))
	fmt.Println("chain-ue: streams", len(sysStreams), "targets", len(sysTargets), "positions", sysPositions, "per", sysPer, sysInfo)
	for _, st := range sysStreams {
		fmt.Printf("  %-60s %s sps %d B pps %d B slices %d seis %d %v\n", st.name, st.origin, len(st.sps), len(st.pps), len(st.slices), len(st.seis), st.features)
	}
	fmt.Println("sei-ue: seeds", len(seiUESeeds), "positions", seiUEPos, "per", seiUEPer)
	loops := map[string]int{}
	for _, st := range sysStreams {
		for _, l := range st.sliceLoops {
			for _, n := range l {
				loops[st.codec+" "+st.origin+" "+n]++
			}
		}
	}
	for _, st := range sysStreams {
		set := map[string]bool{}
		for _, l := range append(append([][]string{}, st.sliceLoops...), st.loopSliceLoops...) {
			for _, n := range l {
				set[n] = true
			}
		}
		var names []string
		for n := range set {
			names = append(names, n)
		}
		sort.Strings(names)
		fmt.Printf("  loops of %-50s %d+%d slices: %v\n", st.name, len(st.slices), len(st.loopSlices), names)
	}
	var lk []string
	for k := range loops {
		lk = append(lk, k)
	}
	sort.Strings(lk)
	for _, k := range lk {
		fmt.Printf("  slices with %-60s %d\n", k, loops[k])
	}
	for k, v := range s.byKind {
		fmt.Printf("  %-12s %d\n", k, len(v))
	}
	cnt := map[string]int{}
	for _, f := range strings.Split(os.Getenv("C16_IDX"), ",") {
		if i, err := strconv.Atoi(f); err == nil {
			k, sub := locate(i)
			cnt[k]++
			c := &runner.Ctx{Env: env, Idx: i, Rand: runner.NewRand(uint64(env.Seed), runner.HashStr("C16"), uint64(i)+1)}
			x := &runCtx{c: c, maps: defaultMaps}
			switch k {
			case "trunc":
				genTrunc(x, sub)
			case "ue":
				genUE(x, sub)
			case "flip":
				genFlip(x)
			case "lenprefix":
				genLenPrefix(x)
			case "splice":
				genSplice(x)
			case "stream":
				genStream(x)
			}
			if os.Getenv("C16_DESC") != "" {
				fmt.Printf("%d\t%s\n", i, x.desc)
			}
		}
	}
	fmt.Println(cnt)
}

// TestServe runs one input through the probe's serve() in-process and prints
// what it reports (development aid): C16_HEX=0102 C16_MODE=sei-direct C16_TYPES=5
func TestServe(t *testing.T) {
	env := &runner.Env{Tier: "quick", Seed: 1, RepoDir: "/repo"}
	s, err := loadSeeds(env)
	if err != nil {
		t.Fatal(err)
	}
	seeds = s
	defaultMaps = buildDefaultMaps(s)
	it := item{In: unhex(os.Getenv("C16_HEX")), Desc: "test sei", Mode: os.Getenv("C16_MODE")}
	for _, f := range strings.Split(os.Getenv("C16_TYPES"), ",") {
		if v, err := strconv.Atoi(f); err == nil {
			it.Types = append(it.Types, uint(v))
		}
	}
	resp := serve(&probeReq{Items: []item{it}})
	for _, v := range resp.Viol {
		fmt.Println("VIOL", v.Key, "|", v.What)
	}
	fmt.Println("nops", resp.NOps, resp.Counts)
}

// TestPPSLoopWitnesses builds the two hevc PPS witnesses that the random
// workload reaches only under the shared key es/hevc.ParsePPSNALUnit/alloc:
// tile column loop and SCC palette loop running on after the data ended.
func TestPPSLoopWitnesses(t *testing.T) {
	env := &runner.Env{Tier: "quick", Seed: 1, RepoDir: "/repo"}
	s, err := loadSeeds(env)
	if err != nil {
		t.Fatal(err)
	}
	seeds = s
	defaultMaps = buildDefaultMaps(s)
	common := func(w *bitw.W) {
		w.UE(0) // pps id
		w.UE(0) // sps id
		w.Flag(false)
		w.Flag(false)
		w.Put(0, 3)
		w.Flag(false)
		w.Flag(false)
		w.UE(0)
		w.UE(0)
		w.SE(0)
		w.Flag(false)
		w.Flag(false)
		w.Flag(false) // cu_qp_delta_enabled
		w.SE(0)
		w.SE(0)
		w.Flag(false)
		w.Flag(false)
		w.Flag(false)
		w.Flag(false) // transquant bypass
	}
	tiles := &bitw.W{}
	common(tiles)
	tiles.Flag(true)  // tiles_enabled
	tiles.Flag(false) // entropy sync
	tiles.UE(1 << 21) // num_tile_columns_minus1
	tiles.UE(0)
	tiles.Flag(false) // uniform spacing
	tiles.TrailingBits()
	in := append([]byte{0x44, 0x01}, bitw.Escape(tiles.Bytes())...)
	resp := serve(&probeReq{Items: []item{{In: in, Desc: "tile witness", Mode: "all"}}})
	for _, v := range resp.Viol {
		fmt.Println("VIOL", v.Key, "|", head(v.What, 160))
	}
	fmt.Printf("tile witness %x\n", in)
}

// TestStructBase checks the local layouts of hostile.go against the library
// on benign values (development aid): the base SPS/PPS and the slices laid out
// for them must be accepted.
func TestStructBase(t *testing.T) {
	for _, mod := range []func(s *hvSPS, p *hvPPS){
		func(s *hvSPS, p *hvPPS) {},
		func(s *hvSPS, p *hvPPS) { s.nRPS, s.rpsMode, s.set0Neg, s.set0Pos = 5, 2, 2, 1 },
		func(s *hvSPS, p *hvPPS) { s.nRPS, s.rpsMode, s.ltPresent, s.ltN, s.tmvp = 3, 4, true, 3, true },
		func(s *hvSPS, p *hvPPS) {
			s.ext, s.sccPalette, s.sccInit, s.sccNumMinus1, s.sccWritten, s.sccMvIdc = 15, true, true, 3, 4, 2
			p.ext, p.transformSkip, p.rListEnabled, p.rListLenMinus1 = 1, true, true, 2
		},
		func(s *hvSPS, p *hvPPS) {
			p.ext, p.mNumRefLoc, p.mRefLocAll, p.mCM, p.mOctantDepth, p.mYPart, p.mCodedRes = 2, 2, true, true, 1, 1, true
			p.tiles, p.tileCols, p.tileRows, p.listsMod, p.sliceExt, p.weighted, p.cabacInit = true, 2, 1, true, true, true, true
		},
		func(s *hvSPS, p *hvPPS) {
			p.ext, p.dPresent, p.dLayersMinus1, p.dBd, p.dMode, p.dNumVal, p.dMaxDiff = 4, true, 1, 0, 3, 3, 2
		},
		func(s *hvSPS, p *hvPPS) {
			p.ext, p.sAct, p.sActOffsets, p.sInit, p.sNum, p.sBdL, p.sBdC, p.sWritten = 8, true, true, true, 2, 2, 1, 2
		},
	} {
		s, p := baseHvSPS(), baseHvPPS()
		mod(&s, &p)
		sn, counts := s.encode()
		pn := p.encode()
		sps := setupHEVCSPS(sn)
		if sps == nil {
			_, err := hevc.ParseSPSNALUnit(sn)
			t.Errorf("sps rejected: %v %x", err, sn)
			continue
		}
		sm, _ := hevcMapsFor(sps, nil)
		pps, err := hevc.ParsePPSNALUnit(pn, sm)
		if err != nil {
			t.Errorf("pps rejected: %v %x", err, pn)
			continue
		}
		sm, pm := hevcMapsFor(sps, pps)
		sl, names := hvSlices(&s, &p, counts, nil)
		for i, u := range sl {
			sh, err := hevc.ParseSliceHeader(u, sm, pm)
			fmt.Printf("  nRPS=%d %-70s err=%v size=%v\n", s.nRPS, names[i], err, sh != nil && err == nil)
		}
	}
	asps, sl, names := avcStructSet()
	a := avPPS{groups: 1, mapType: 3, val: 7, refL0: 1}
	sps, err := avc.ParseSPSNALUnit(asps, true)
	if err != nil {
		t.Fatal(err)
	}
	sm, _ := avcMapsFor(sps, nil)
	pps, err := avc.ParsePPSNALUnit(a.encode(), sm)
	if err != nil {
		t.Fatal(err)
	}
	sm, pm := avcMapsFor(sps, pps)
	for i, u := range sl {
		_, err := avc.ParseSliceHeader(u, sm, pm)
		fmt.Printf("  %-60s err=%v\n", names[i], err)
	}
}

// TestMP4Frames checks the local box writer and the in-place patching of the
// repo's files against the library on benign content (development aid): every
// frame with valid samples and a valid record must decode, and the samples the
// library finds must be the ones that were put in. C16_MP4_OUT=<dir> keeps the
// files of the systematic part for a look with the tools.
func TestMP4Frames(t *testing.T) {
	env := &runner.Env{Tier: "quick", Seed: 1, RepoDir: "/repo"}
	s, err := loadSeeds(env)
	if err != nil {
		t.Fatal(err)
	}
	seeds = s
	defaultMaps = buildDefaultMaps(s)
	loadRealMP4s(env)
	for codec, l := range realMP4s {
		for _, rm := range l {
			fmt.Printf("real %s: %s entry %s init=%v track %d first samples %v %v\n", codec, rm.name, rm.entry, rm.fragInit, rm.trackID, rm.sampOff, rm.sampSize)
		}
	}
	out := os.Getenv("C16_MP4_OUT")
	seen := map[string]int{}
	for sub := 0; sub < mp4SysCount()+len(tblSys)+400; sub++ {
		if sub >= mp4SysCount() && sub < mp4SysCount()+len(tblSys) {
			continue // TestMP4Tables
		}
		r := runner.NewRand(1, runner.HashStr("C16"), uint64(sub)+1)
		mc := genMP4(r, sub)
		if mc == nil {
			t.Fatal("no material")
		}
		file, ok := mc.spec.build()
		if !ok {
			t.Fatalf("not built: %s", mc.desc)
		}
		seen[mc.usedFrame+" "+mc.cfgClass+" "+mc.smpClass]++
		if out != "" && sub < mp4SysCount() {
			_ = os.WriteFile(filepath.Join(out, fmt.Sprintf("%04d-%s-%s-%s-%s.mp4", sub, mc.spec.codec(), mc.spec.Frame, mc.cfgClass, mc.smpClass)), file, 0o644)
		}
		// every file, whatever it carries, must be a well-formed container: the boxes tile it exactly
		if _, err := boxwalk.Walk(file); err != nil {
			t.Errorf("%s: the file does not tile into boxes: %v", mc.desc, err)
		}
		if mc.tblClass != "none" {
			continue // TestMP4Tables
		}
		if mc.smpClass == "valid" {
			switch mc.cfgClass {
			case "absent", "zero-sps", "zero-sps-zero-pps", "zero-pps", "many", "hrd-sps":
				// records the library accepts: the container parser must accept the file
				if _, err := mp4.DecodeFile(bytes.NewReader(file)); err != nil {
					t.Errorf("%s: DecodeFile: %v", mc.desc, err)
				}
			}
		}
		if mc.cfgClass != "valid" || mc.smpClass != "valid" {
			continue
		}
		f, err := mp4.DecodeFile(bytes.NewReader(file))
		if err != nil {
			t.Errorf("%s: DecodeFile: %v", mc.desc, err)
			continue
		}
		switch {
		case f.IsFragmented():
			if len(f.Segments) == 0 || len(f.Segments[0].Fragments) == 0 {
				t.Errorf("%s: no fragment", mc.desc)
				continue
			}
			var trex *mp4.TrexBox
			if f.Init != nil {
				trex = f.Init.Moov.Mvex.Trex
			}
			fs, err := f.Segments[0].Fragments[0].GetFullSamples(trex)
			if err != nil || len(fs) != len(mc.spec.Samples) {
				t.Errorf("%s: GetFullSamples: %v, %d samples", mc.desc, err, len(fs))
				continue
			}
			for i := range fs {
				if !bytes.Equal(fs[i].Data, mc.spec.Samples[i]) {
					t.Errorf("%s: sample %d differs", mc.desc, i)
				}
			}
		default:
			stbl := f.Moov.Trak.Mdia.Minf.Stbl
			off := int(stbl.Stco.ChunkOffset[0])
			for i, smp := range mc.spec.Samples {
				n := int(stbl.Stsz.GetSampleSize(i + 1))
				got := file[off : off+n]
				if mc.spec.Frame == "real-prog" {
					smp = fitSample(smp, n, mc.spec.codec())
				}
				if !bytes.Equal(got, smp) {
					t.Errorf("%s: sample %d differs (%d bytes at %d)", mc.desc, i, n, off)
				}
				off += n
			}
		}
	}
	fmt.Println(len(seen), "distinct (frame, config class, sample class) of", mp4SysCount()+400, "cases")
}

// TestMP4Tables checks the table editor (mp4tbl.go) against the library
// (development aid): every class x variant x frame x codec of the systematic
// part must leave a file that tiles into boxes; the control classes must leave
// a file whose samples the library still finds where they were put; for the
// hostile classes it prints whether mp4.DecodeFile still accepts the container
// (a class the container parser rejects never reaches the tool code).
func TestMP4Tables(t *testing.T) {
	env := &runner.Env{Tier: "quick", Seed: 1, RepoDir: "/repo"}
	s, err := loadSeeds(env)
	if err != nil {
		t.Fatal(err)
	}
	seeds = s
	defaultMaps = buildDefaultMaps(s)
	loadRealMP4s(env)
	out := os.Getenv("C16_MP4_OUT")
	rejected := map[string]int{}
	accepted := map[string]int{}
	names := map[string]bool{}
	for i := range tblClasses {
		if names[tblClasses[i].name] {
			t.Errorf("duplicate class name %s", tblClasses[i].name)
		}
		names[tblClasses[i].name] = true
	}
	for k := range tblSys {
		sub := mp4SysCount() + k
		r := runner.NewRand(1, runner.HashStr("C16"), uint64(sub)+1)
		mc := genMP4(r, sub)
		if mc == nil {
			t.Fatal("no material")
		}
		if mc.tblClass == "none" || strings.HasSuffix(mc.usedFrame, "(fallback)") {
			t.Errorf("%s: table class not applied in the frame asked for (%s)", mc.desc, mc.usedFrame)
			continue
		}
		file, ok := mc.spec.build()
		if !ok {
			t.Errorf("not built: %s", mc.desc)
			continue
		}
		valid, _ := mc.spec.buildValid()
		if bytes.Equal(valid, file) {
			t.Errorf("%s: the file was not changed", mc.desc)
		}
		if out != "" {
			_ = os.WriteFile(filepath.Join(out, fmt.Sprintf("t%04d-%s-%s-%s-v%d.mp4", k, mc.spec.codec(), mc.spec.Frame, mc.tblClass, mc.spec.TblVariant)), file, 0o644)
		}
		if _, err := boxwalk.Walk(file); err != nil {
			t.Errorf("%s: the file does not tile into boxes: %v", mc.desc, err)
		}
		f, err := mp4.DecodeFile(bytes.NewReader(file))
		key := mc.tblClass + " " + mc.spec.Frame
		if err != nil {
			rejected[key+": "+err.Error()]++
			if mc.spec.Tbl.control {
				t.Errorf("%s: control class rejected: %v", mc.desc, err)
			}
			continue
		}
		accepted[mc.tblClass]++
		if !mc.spec.Tbl.control {
			continue
		}
		// control: the samples are where the tables say
		switch {
		case f.IsFragmented():
			var trex *mp4.TrexBox
			if f.Init != nil {
				trex = f.Init.Moov.Mvex.Trex
			}
			fs, err := f.Segments[0].Fragments[0].GetFullSamples(trex)
			if err != nil || len(fs) != len(mc.spec.Samples) {
				t.Errorf("%s: GetFullSamples: %v, %d samples", mc.desc, err, len(fs))
				continue
			}
			for i := range fs {
				if !bytes.Equal(fs[i].Data, mc.spec.Samples[i]) {
					t.Errorf("%s: sample %d differs", mc.desc, i)
				}
			}
		default:
			stbl := f.Moov.Trak.Mdia.Minf.Stbl
			var off int
			if stbl.Stco != nil {
				off = int(stbl.Stco.ChunkOffset[0])
			} else {
				off = int(stbl.Co64.ChunkOffset[0])
			}
			for i, smp := range mc.spec.Samples {
				n := int(stbl.Stsz.GetSampleSize(i + 1))
				if mc.spec.Frame == "real-prog" {
					if i >= 2 {
						break
					}
					smp = fitSample(smp, n, mc.spec.codec())
				}
				if off+n > len(file) || !bytes.Equal(file[off:off+n], smp) {
					t.Errorf("%s: sample %d differs (%d bytes at %d)", mc.desc, i, n, off)
				}
				off += n
			}
		}
	}
	for _, tc := range tblClasses {
		if accepted[tc.name] == 0 {
			fmt.Printf("class %s: never accepted by mp4.DecodeFile\n", tc.name)
		}
	}
	var keys []string
	for k := range rejected {
		keys = append(keys, k)
	}
	sort.Strings(keys)
	for _, k := range keys {
		fmt.Printf("rejected by mp4.DecodeFile (%d files): %s\n", rejected[k], k)
	}
	fmt.Println(len(tblClasses), "table classes,", len(tblSys), "systematic table cases")
}
