package c16

import (
	"bytes"
	"context"
	"fmt"
	"os"
	"os/exec"
	"path/filepath"
	"strings"
	"syscall"
	"time"

	"github.com/Eyevinn/mp4ff/avc"
	"github.com/Eyevinn/mp4ff/hevc"
	"github.com/Eyevinn/mp4ff/mp4"
	"github.com/Eyevinn/mp4ff/sei"

	"verifharness/ref/annexb"
	"verifharness/runner"
)

// runDependent runs the parsers that depend on parameter sets (chain cases).
func (x *runCtx) runDependent(codec string) {
	in, m := x.in, x.maps
	n := len(in)
	if codec == "avc" {
		vs := [][]byte{in}
		if n > 0 && in[0]&0x1f > 5 {
			vs = append(vs, retag(in, 0x65), retag(in, 0x41))
		}
		for _, v := range vs {
			v := v
			x.call("avc.ParseSliceHeader", len(v), func() {
				if sh, err := avc.ParseSliceHeader(v, m.avcSPS, m.avcPPS); err == nil && sh != nil {
					x.ok()
					x.c.Seen("parsed", "avc.SliceHeader(chain)")
				}
			})
		}
		x.call("avc.ParsePPSNALUnit", n, func() { _, _ = avc.ParsePPSNALUnit(retag(in, 0x68), m.avcSPS) })
		for i, sps := range m.avcSEISPS {
			if i > 3 {
				break
			}
			sps := sps
			var msgs []sei.SEIMessage
			x.call("avc.ParseSEINalu(sps)", n, func() { msgs = usable(avc.ParseSEINalu(in, sps)) })
			x.useMsgs("avc.ParseSEINalu", n, msgs)
		}
		for _, scheme := range []string{"cenc", "cbcs"} {
			scheme := scheme
			x.call("mp4.GetAVCProtectRanges", n, func() {
				if _, err := mp4.GetAVCProtectRanges(m.avcSPS, m.avcPPS, in, scheme); err == nil {
					x.ok()
				}
			})
		}
		return
	}
	vs := [][]byte{in}
	if n > 0 && (in[0]>>1)&0x3f > 31 {
		vs = append(vs, retag(in, 0x26, 0x01), retag(in, 0x02, 0x01))
	}
	for _, v := range vs {
		v := v
		x.call("hevc.ParseSliceHeader", len(v), func() {
			if sh, err := hevc.ParseSliceHeader(v, m.hevcSPS, m.hevcPPS); err == nil && sh != nil {
				x.ok()
				x.c.Seen("parsed", "hevc.SliceHeader(chain)")
			}
		})
	}
	x.call("hevc.ParsePPSNALUnit", n, func() { _, _ = hevc.ParsePPSNALUnit(retag(in, 0x44, 0x01), m.hevcSPS) })
	for i, sps := range m.hevcSEISPS {
		if i > 3 {
			break
		}
		sps := sps
		var msgs []sei.SEIMessage
		x.call("hevc.ParseSEINalu(sps)", n, func() { msgs = usable(hevc.ParseSEINalu(in, sps)) })
		x.useMsgs("hevc.ParseSEINalu", n, msgs)
	}
	for _, scheme := range []string{"cenc", "cbcs"} {
		scheme := scheme
		x.call("mp4.GetHEVCProtectRanges", n, func() {
			if _, err := mp4.GetHEVCProtectRanges(m.hevcSPS, m.hevcPPS, in, scheme); err == nil {
				x.ok()
			}
		})
	}
}

// ---------------------------------------------------------------------------
// the two command line tools

// useTools: 2 % of the cases; a chain-ue case holds all variants of one
// position (one of them goes to the tools), so every 10th case.
func useTools(c *runner.Ctx, kind string, idx int) bool {
	if kind == "chain-ue" {
		return idx%10 == 7
	}
	return idx%50 == 7
}

const toolWallTimeout = 30 * time.Second
const toolCPUBudget = 6 * time.Second

// toolShortTimeout: once a hang of a tool has been reported in this run, its
// later runs are killed after 1.5 s (a normal run takes milliseconds, the
// longest of a whole quick run 0.2 s CPU); a run killed there with more than
// half of that as CPU time is a presumed repeat (counted, not reported). After
// toolSuspendAfter presumed repeats in a worker the tool is not run any more.
const toolShortTimeout = 1500 * time.Millisecond

type toolRun struct {
	tool string
	args []string
}

func runTools(c *runner.Ctx, in []byte, desc string) {
	x := &toolCtx{c: c, in: in, desc: desc}
	nallister := filepath.Join(c.Env.BinDir, "tools", "mp4ff-nallister")
	pslister := filepath.Join(c.Env.BinDir, "tools", "mp4ff-pslister")
	if _, err := os.Stat(nallister); err != nil {
		c.Count("tool_binaries_missing", 1)
		return
	}
	stream := x.in
	if len(annexb.Scan(stream)) == 0 {
		stream = append([]byte{0, 0, 0, 1}, stream...)
	}
	path := filepath.Join(c.Env.Scratch, fmt.Sprintf("c16-%d.bin", c.Idx))
	if err := os.WriteFile(path, stream, 0o644); err != nil {
		c.Inconclusive("tool: cannot write scratch file")
		return
	}
	defer os.Remove(path)
	runs := []toolRun{
		{nallister, []string{"-annexb", "-c", "avc", "-sei", "1", "-ps", path}},
		{nallister, []string{"-annexb", "-c", "hevc", "-sei", "2", "-raw", "8", path}},
		{pslister, []string{"-i", path, "-c", "avc", "-v"}},
		{pslister, []string{"-i", path, "-c", "hevc", "-v"}},
	}
	if len(x.in) > 0 && len(x.in) <= 600 {
		h := hexs(x.in)
		runs = append(runs,
			toolRun{pslister, []string{"-c", "avc", "-sps", h, "-pps", h}},
			toolRun{pslister, []string{"-c", "hevc", "-vps", h, "-sps", h, "-pps", h}})
	}
	for _, tr := range runs {
		x.oneTool(tr)
	}
}

type toolCtx struct {
	c    *runner.Ctx
	in   []byte
	desc string
	mode string   // witness mode ("mp4-tool": in is a whole mp4 file)
	tags []string // mp4-tool: frame, configuration class, sample class, table class (evidence)
}

// Resident-set bound of one tool run: the tools read the whole file and parse
// it with the library, whose per-call bound is 8 MiB + 1024*len; 512 MiB is 30x
// what a run on a well-formed file of this size uses (evidence: maxima.tool_max_rss_kib).
const toolRSSBase = 512 << 20

// runMP4Tools runs both tools on an mp4 file. codec: what -c gets (only used by
// the tools when the file has no moov box); "" (replay): both.
func runMP4Tools(c *runner.Ctx, file []byte, codec, desc string, tags []string) {
	x := &toolCtx{c: c, in: file, desc: desc, mode: "mp4-tool", tags: tags}
	nallister := filepath.Join(c.Env.BinDir, "tools", "mp4ff-nallister")
	pslister := filepath.Join(c.Env.BinDir, "tools", "mp4ff-pslister")
	if _, err := os.Stat(nallister); err != nil {
		c.Count("tool_binaries_missing", 1)
		return
	}
	// mp4ff-pslister takes a file as mp4 by its extension
	path := filepath.Join(c.Env.Scratch, fmt.Sprintf("c16-%d.mp4", c.Idx))
	if err := os.WriteFile(path, file, 0o644); err != nil {
		c.Inconclusive("tool: cannot write scratch file")
		return
	}
	defer os.Remove(path)
	codecs := []string{codec}
	other := "hevc"
	if codec == "hevc" {
		other = "avc"
	}
	if codec == "" {
		codecs = []string{"avc", "hevc"}
	}
	for i, cd := range codecs {
		runs := []toolRun{
			{nallister, []string{"-c", cd, path}},
			{nallister, []string{"-c", cd, "-sei", "1", "-ps", path}},
			{nallister, []string{"-c", cd, "-sei", "2", "-raw", "8", "-m", "1", path}},
			{pslister, []string{"-c", cd, "-i", path}},
			{pslister, []string{"-c", cd, "-v", "-i", path}},
		}
		if i == 0 {
			runs[0].args = []string{path} // no options at all
		}
		if len(tags) > 0 && tags[0] == "seg-only" {
			// no moov box: -c decides which printer the samples go to
			runs = append(runs, toolRun{nallister, []string{"-c", other, "-sei", "1", path}})
		}
		for _, tr := range runs {
			x.oneTool(tr)
		}
	}
}

func (x *toolCtx) oneTool(tr toolRun) {
	c := x.c
	name := filepath.Base(tr.tool)
	loadSharedKnown()
	if toolSuspended[name] {
		c.Count("tool_runs_skipped(tool suspended behind a reported hang)", 1)
		return
	}
	timeout := toolWallTimeout
	short := toolHangs[name] > 0 && c.Idx >= 0
	if short {
		timeout = toolShortTimeout
	}
	ctx, cancel := context.WithTimeout(context.Background(), timeout)
	defer cancel()
	cmd := exec.CommandContext(ctx, tr.tool, tr.args...)
	var stderr bytes.Buffer
	cmd.Stderr = &stderr
	cmd.Stdout = nil
	cmd.Env = append(os.Environ(), "GOMAXPROCS=2", "GOTRACEBACK=single")
	err := cmd.Run()
	c.Count("tool_runs", 1)
	var label []string
	nlab := 4
	if x.mode == "mp4-tool" {
		nlab = 8
	}
	for i, a := range tr.args[:minInt(len(tr.args), nlab)] {
		switch {
		case strings.HasPrefix(a, c.Env.Scratch):
			a = "<file>"
		case i > 0 && (tr.args[i-1] == "-sps" || tr.args[i-1] == "-pps" || tr.args[i-1] == "-vps"):
			a = "<hex>"
		}
		label = append(label, a)
	}
	if x.mode == "mp4-tool" {
		c.Count("tool_runs_on_mp4_files", 1)
		c.Seen("tool", name+" (mp4) "+strings.Join(label, " "))
	} else {
		c.Seen("tool", name+" "+strings.Join(label, " "))
	}
	c.Evals(1)
	var cpu time.Duration
	var rss int64
	if cmd.ProcessState != nil {
		cpu = cmd.ProcessState.UserTime() + cmd.ProcessState.SystemTime()
		if ru, ok := cmd.ProcessState.SysUsage().(*syscall.Rusage); ok && ru != nil {
			rss = int64(ru.Maxrss) // KiB on Linux
			c.SetMax("tool_max_rss_kib", rss)
		}
		c.SetMax("tool_max_cpu_ms", cpu.Milliseconds())
	}
	se := stderr.String()
	w := &witness{Op: "tool:" + name + " " + strings.Join(tr.args, " "), Input: hexs(x.in), Case: x.desc, Mode: x.mode}
	if ctx.Err() != nil {
		if short && cpu > toolShortTimeout/2 {
			c.Count("presumed_repeats_of_tool_hang(killed at 1.5 s after a reported hang of the tool, not reported)", 1)
			toolPresumed[name]++
			if toolPresumed[name] >= toolSuspendAfter {
				toolSuspended[name] = true
				shareKnown("toolsuspend\t" + name)
				c.Seen("tool_suspended_behind_reported_hang", name)
			}
		} else if cpu > toolCPUBudget {
			toolHangs[name]++
			shareKnown("toolhang\t" + name)
			c.Violation("tool/"+name+"/hang/cpu", fmt.Sprintf("%s used %.1f s CPU on %d input bytes and was killed (case %s)", name, cpu.Seconds(), len(x.in), x.desc), w)
		} else {
			c.Inconclusive("tool wall-clock timeout with little CPU used")
		}
		return
	}
	code := 0
	if err != nil {
		if ee, ok := err.(*exec.ExitError); ok {
			code = ee.ExitCode()
		} else {
			c.Inconclusive("tool could not be started")
			return
		}
	}
	c.Seen("tool_exit", fmt.Sprintf("%s exit %d", name, code))
	if len(x.tags) == 4 {
		c.Seen("mp4_tool_exit_by_frame", fmt.Sprintf("%s %s exit %d", name, x.tags[0], code))
		if x.tags[3] == "none" {
			c.Seen("mp4_tool_exit_by_config_class", fmt.Sprintf("%s %s exit %d", name, x.tags[1], code))
			c.Seen("mp4_tool_exit_by_sample_class", fmt.Sprintf("%s %s exit %d", name, x.tags[2], code))
			if x.tags[1] == "valid" && x.tags[2] == "valid" {
				c.Seen("mp4_tool_exit_on_wellformed_file", fmt.Sprintf("%s %s exit %d", name, x.tags[0], code))
			}
		} else {
			c.Seen("mp4_tool_exit_by_table_class", fmt.Sprintf("%s %s exit %d", name, x.tags[3], code))
			if tc := tblClassByName(x.tags[3]); tc != nil && tc.control {
				c.Seen("mp4_tool_exit_on_control_table_class", fmt.Sprintf("%s %s %s (record: %s) exit %d", name, x.tags[0], x.tags[3], x.tags[1], code))
			}
		}
	}
	if code == 0 {
		c.Nontrivial(runner.Hash64(x.in, []byte(name)))
	}
	crashed := code == 2 || code < 0 || strings.Contains(se, "panic:") || strings.Contains(se, "goroutine ") || strings.Contains(se, "fatal error:")
	if !crashed {
		if cpu > toolCPUBudget {
			toolHangs[name]++
			shareKnown("toolhang\t" + name)
			c.Violation("tool/"+name+"/hang/cpu", fmt.Sprintf("%s used %.1f s CPU on %d input bytes (case %s)", name, cpu.Seconds(), len(x.in), x.desc), w)
		}
		if bound := int64(toolRSSBase + allocPerLen*len(x.in)); rss*1024 > bound {
			c.Violation("tool/"+name+"/alloc/rss", fmt.Sprintf("%s %s reached a resident set of %d KiB on %d input bytes (bound %d bytes = 512 MiB + 1024*len; case %s)",
				name, strings.Join(label, " "), rss, len(x.in), bound, x.desc), w)
		}
		return
	}
	frame, class := crashSite(se)
	w.Stack = head(se, 3000)
	key := "es/" + frame + "/" + class
	if strings.HasPrefix(frame, "main.") || strings.HasPrefix(frame, "mp4.") || frame == "unknown" {
		// the tool's own code, or container code (mp4 package) the tool called with the file's tables
		key = "tool/" + name + "/" + frame + "/" + class
	}
	c.Violation(key, fmt.Sprintf("%s %s crashed (exit %d) at %s: %s (case %s)", name, strings.Join(label, " "), code, frame, head(firstLine(se), 200), x.desc), w)
	c.Seen("violation_key_by_generator", curKind+" "+key+" (tool)")
}

func firstLine(s string) string {
	for _, l := range strings.Split(s, "\n") {
		if strings.HasPrefix(l, "panic:") || strings.HasPrefix(l, "fatal error:") {
			return l
		}
	}
	if i := strings.IndexByte(s, '\n'); i >= 0 {
		return s[:i]
	}
	return s
}

// crashSite extracts the first mp4ff/main function of a Go crash dump and the
// panic class (same vocabulary as runner.PanicInfo.Class).
func crashSite(se string) (frame, class string) {
	frame, class = "unknown", "other"
	fl := firstLine(se)
	switch {
	case strings.Contains(fl, "out of memory"), strings.Contains(se, "cannot allocate memory"):
		class = "oom"
	case strings.Contains(fl, "stack overflow"), strings.Contains(se, "stack exceeds"):
		class = "stack-overflow"
	case strings.Contains(fl, "nil pointer dereference"):
		class = "nil-deref"
	case strings.Contains(fl, "index out of range"):
		class = "index"
	case strings.Contains(fl, "slice bounds out of range"):
		class = "slice"
	case strings.Contains(fl, "divide by zero"):
		class = "divide"
	case strings.Contains(fl, "interface conversion"):
		class = "type-assertion"
	case strings.Contains(fl, "makeslice"), strings.Contains(fl, "len out of range"), strings.Contains(fl, "cap out of range"):
		class = "makeslice"
	case strings.HasPrefix(fl, "panic:"):
		class = "explicit"
	}
	after := false
	for _, l := range strings.Split(se, "\n") {
		if strings.HasPrefix(l, "goroutine ") {
			after = true
			continue
		}
		if !after {
			continue
		}
		if strings.HasPrefix(l, "github.com/Eyevinn/mp4ff") || strings.HasPrefix(l, "main.") {
			fn := l
			if i := strings.LastIndex(fn, "("); i > 0 {
				fn = fn[:i]
			}
			frame = strings.TrimPrefix(fn, "github.com/Eyevinn/mp4ff/")
			return
		}
	}
	return
}
