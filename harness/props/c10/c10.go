// Package c10 decides property C10: when mp4ff-crop succeeds, every track of
// the output is exactly a prefix of the input track, cut where the statement
// says. The tool is a black box: the built binary is run on generated files.
//
// Oracle: the reference expansion (verifharness/ref/stbl) of the input bytes
// (checked against the generator's ground-truth record) gives per track the
// ordered sample list; the statement's cut point is evaluated in exact integer
// cross-multiplication (no floating point, no tick rounding); the reference
// expansion of the output bytes must be the first k samples.
package c10

import (
	"bytes"
	"context"
	"fmt"
	"math/big"
	"os"
	"os/exec"
	"path/filepath"
	"sort"
	"strings"
	"time"

	"github.com/Eyevinn/mp4ff/mp4"

	"verifharness/gen/prog"
	"verifharness/ref/boxwalk"
	"verifharness/ref/stbl"
	"verifharness/runner"
)

var (
	entries *prog.EntrySet
	tool    string
	corpus  []corpusFile
)

type corpusFile struct {
	name string
	data []byte
}

var corpusNames = []string{
	"mp4/testdata/prog_8s.mp4", "mp4/testdata/bbb_prog_10s.mp4", "cmd/mp4ff-nallister/testdata/h264.mp4",
	"cmd/mp4ff-nallister/testdata/hevc.mp4", "cmd/mp4ff-subslister/testdata/stpp_prog.mp4", "mp4/testdata/ed_hevc.mp4",
}

const runsPerCase = 8

func numGenerated(env *runner.Env) int {
	if env.Tier == "thorough" {
		return 20000
	}
	return 400
}

func setup(env *runner.Env) error {
	entries = prog.LoadEntries(env.RepoDir)
	tool = filepath.Join(env.BinDir, "tools", "mp4ff-crop")
	bin, err := os.ReadFile(tool)
	if err != nil {
		return fmt.Errorf("built tool missing (run.sh builds it): %w", err)
	}
	// private copy: the shared bin directory may be rebuilt or cleaned while this worker runs
	tool = filepath.Join(env.Scratch, "mp4ff-crop")
	if err := os.WriteFile(tool, bin, 0o755); err != nil {
		return fmt.Errorf("cannot copy the tool into the scratch directory: %w", err)
	}
	corpus = nil
	for _, n := range corpusNames {
		b, err := os.ReadFile(filepath.Join(env.RepoDir, n))
		if err != nil {
			continue
		}
		m, err := stbl.ParseFile(b)
		if err != nil || len(m.Tracks) == 0 || len(m.Mdats) == 0 {
			continue
		}
		ok := true
		for _, tr := range m.Tracks {
			if tr.ExpandErr != nil || len(tr.Samples) == 0 {
				ok = false
			}
		}
		if ok {
			corpus = append(corpus, corpusFile{n, b})
		}
	}
	return nil
}

func init() {
	runner.Register(&runner.Prop{
		ID: "C10",
		Rule: "quick: 6 repo files + 400 generated movies (3 240 tool runs), thorough: + 20 000 generated movies (160 040 tool runs). One case = one input file x 8 runs of the built binary bin/tools/mp4ff-crop -d <ms> in out (files in the worker's scratch directory; the output path of a case is reused for its 8 runs and before each run it holds, PRNG-chosen, nothing (3/7), an empty file, random bytes longer than the input, the longest earlier successful output of the same input (a copy of the input while there is none) or whatever the previous run left; the file found at the path after a successful run is read back whole). Inputs: the repo's progressive test files, then generated movies (gen/prog.RandomMovie, own serializer, real avc1/hvc1/mp4a sample entries): 1..4 tracks (0..2 video with stss/GOPs, 0..3 audio), " +
			"timescales that differ between tracks, with/without ctts (v0/v1), sdtp, edts/elst, stss; a fifth of the tracks with zero-size samples, a quarter of the video tracks starting inside a GOP (first sync sample is sample 2 or 3); stco or co64; chunking from one chunk per sample to one chunk per track with 1..3 sample-description ids and non-maximal runs; sequential, round-robin, by-time or shuffled interleaving; junk gaps; mdat before or after moov; compact or 64-bit mdat header; two of three generated movies with 1..4 non-trak children of moov (udta empty or with an unknown child, free, skip, iods, meta with hdlr+ilst, an unknown type) between mvhd and the first trak, between two traks (trak boxes not neighbours), behind the last trak or (rarely) in front of mvhd; a quarter of the tracks behind the first one end exactly where a later sync sample of the first track starts; every 8th generated movie (co64 everywhere, 64-bit mdat header) is written as a sparse file of more than 4 GiB with a hole of about 2^32 bytes inside the mdat payload in front of a PRNG-chosen chunk, so that chunk offsets on both sides of 2^32 occur (the oracle keeps reading the compact twin: samples, times and bytes are the same); " +
			"35% adversarial movies (tiny timescales, random per-sample durations) where tick rounding matters; every 8th generated movie is a carry probe: a video reference track with time scale c in {4e9, 3e9, 2^32-1} and a sync sample at decode time T = ceil((k*2^64-(c-1))/t) for k in 1..3, audio tracks with time scale t in {3e9, 2^31, 4e9} < c-1, so that T*t lies in the last c-1 values below k*2^64 and the rounded-up conversion of the end time carries out of a 64-bit word. Durations per file: 1 ms, three sample boundaries of the reference track -1/0/+1 ms, one random inside, total-1 ms, total, total+1000 ms. " +
			"Oracle only for exit status 0: the output tiles (reference walker), decodes (mp4.DecodeFile) and its tables are consistent (reference expansion); per track the output samples equal the first k input samples (payload bytes, duration, composition offset, sync, sdtp byte, sample-description id) " +
			"with k = number of samples of that track whose decode time/timescale < endTime and endTime = start of the first sync sample of the reference track (first vide, else first soun track) at or after the requested duration, all in exact integer cross-multiplication; chunks lie inside the single new mdat, do not overlap and fill it exactly; mvhd/tkhd/mdhd/elst durations <= the input's. " +
			"Non-zero exits are classified (reason, requested duration inside/outside the reference track); exit status 2 or a goroutine dump is a crash, counted under tool_crash with the C04 key scheme, not a C10 violation. Non-trivial = a run with exit status 0 whose output was compared (hash of input bytes and duration); evaluations = tool runs.",
		Assumptions: []string{
			"reference track as in the statement and in findEndTime of cmd/mp4ff-crop/main.go: first trak with handler vide, else first with handler soun",
			"a track without stss consists of sync samples only (ISO/IEC 14496-12 8.6.2)",
			"the statement is about the tracks: whether the non-trak children of moov (udta, meta, free ...) reach the output is recorded as evidence (seen.non_trak_moov_children_in_output), not judged; a trak that appears twice or is missing is a track-count violation",
			"the output is the file found at the output path after the run, whatever the path held before; a tail left over from an earlier file makes it not tile into boxes",
			"decode times are used (edit lists do not shift the cut), as the statement says 'samples that start before the end time'",
			"when no sync sample of the reference track starts at or after the requested duration the statement defines no k: such a successful run is counted inconclusive",
			"finding keys name the clause, the track kind, the size of the discrepancy and the conditions under which it occurs (reference track with/without stss, track timescale equal to/different from the reference timescale, requested duration on/off the reference tick grid); the conditions only label the finding, the verdict always comes from the exact model",
		},
		Setup:    setup,
		NumCases: func(env *runner.Env) int { return len(corpus) + numGenerated(env) },
		Run:      run,
		Finalize: func(a *runner.Agg) {
			runs := a.Counters["tool_runs"]
			ok := a.Counters["tool_exit0"]
			if runs > 0 && ok == 0 {
				a.Nothing = "no successful run of mp4ff-crop"
			}
			if runs > 0 {
				a.Extra["share_of_requested_durations_inside_file"] = float64(a.Counters["duration_inside"]) / float64(runs)
				a.Extra["share_of_runs_with_exit0"] = float64(ok) / float64(runs)
			}
			if a.Counters["tool_crashes"] > 0 {
				a.Note("%d of %d tool runs crashed (exit status 2); see seen.tool_crash; not a C10 violation", a.Counters["tool_crashes"], runs)
			}
		},
	})
}

// ---------------------------------------------------------------------------

func kindOf(tr *stbl.Track) string {
	switch tr.Handler {
	case "vide":
		return "video"
	case "soun":
		return "audio"
	}
	return tr.Handler
}

func refTrackIndex(m *stbl.Movie) int {
	for i, t := range m.Tracks {
		if t.Handler == "vide" {
			return i
		}
	}
	for i, t := range m.Tracks {
		if t.Handler == "soun" {
			return i
		}
	}
	return -1
}

// moovChildren lists the types of the children of moov in file order.
func moovChildren(m *stbl.Movie) []string {
	var out []string
	for _, n := range m.Nodes {
		if n.Type == "moov" {
			for _, ch := range n.Children {
				out = append(out, ch.Type)
			}
		}
	}
	return out
}

// nonTrakChildren: the sorted types of the children of moov that are no trak.
func nonTrakChildren(m *stbl.Movie) string {
	var out []string
	for _, t := range moovChildren(m) {
		if t != "trak" {
			out = append(out, t)
		}
	}
	sort.Strings(out)
	return strings.Join(out, ",")
}

// moovShape classifies where the non-trak children of moov sit relative to the trak boxes.
func moovShape(m *stbl.Movie) string {
	ch := moovChildren(m)
	first, last := -1, -1
	for i, t := range ch {
		if t == "trak" {
			if first < 0 {
				first = i
			}
			last = i
		}
	}
	var parts []string
	if len(ch) > 0 && ch[0] != "mvhd" {
		parts = append(parts, "mvhd-not-first")
	}
	between, before, after := false, false, false
	for i, t := range ch {
		if t == "trak" || t == "mvhd" {
			continue
		}
		switch {
		case i < first:
			before = true
		case i > last:
			after = true
		default:
			between = true
		}
	}
	if before {
		parts = append(parts, "box-before-first-trak")
	}
	if between {
		parts = append(parts, "box-between-traks")
	}
	if after {
		parts = append(parts, "box-after-last-trak")
	}
	if len(parts) == 0 {
		return "mvhd,traks"
	}
	return strings.Join(parts, "+")
}

func mul(a, b uint64) *big.Int {
	return new(big.Int).Mul(new(big.Int).SetUint64(a), new(big.Int).SetUint64(b))
}

// firstSyncAtOrAfter returns the 1-based number of the first sync sample of tr
// whose start time start/timescale is >= ms/1000 (exact), or 0.
func firstSyncAtOrAfter(tr *stbl.Track, ms uint64) int {
	rhs := mul(ms, uint64(tr.Timescale))
	for _, s := range tr.Samples {
		if s.Sync && mul(s.DecodeTime, 1000).Cmp(rhs) >= 0 {
			return s.Nr
		}
	}
	return 0
}

// samplesBefore counts the samples of tr whose start/timescale < endTicks/endTimescale.
func samplesBefore(tr *stbl.Track, endTicks uint64, endTimescale uint32) int {
	rhs := mul(endTicks, uint64(tr.Timescale))
	k := 0
	for _, s := range tr.Samples {
		if mul(s.DecodeTime, uint64(endTimescale)).Cmp(rhs) < 0 {
			k++
		}
	}
	return k
}

func totalMS(tr *stbl.Track) uint64 {
	return tr.TotalDuration * 1000 / uint64(tr.Timescale)
}

type toolResult struct {
	exit     int
	stdout   string
	stderr   string
	timedOut bool
}

func runTool(in, out string, ms uint64) toolResult {
	ctx, cancel := context.WithTimeout(context.Background(), 60*time.Second)
	defer cancel()
	cmd := exec.CommandContext(ctx, tool, "-d", fmt.Sprint(ms), in, out)
	var so, se bytes.Buffer
	cmd.Stdout, cmd.Stderr = &so, &se
	err := cmd.Run()
	r := toolResult{stdout: so.String(), stderr: se.String()}
	if ctx.Err() != nil {
		r.timedOut = true
		r.exit = -1
		return r
	}
	if err != nil {
		if ee, ok := err.(*exec.ExitError); ok {
			r.exit = ee.ExitCode()
		} else {
			r.exit = -2
		}
	}
	return r
}

func errorClass(stderr string) string {
	s := strings.TrimSpace(stderr)
	if i := strings.Index(s, "\n"); i >= 0 {
		s = s[:i]
	}
	for _, pat := range []string{"no matching sample found", "did not find any syncframe", "new duration", "did not find any video or audio", "only progressive", "error decoding", "too big mdat", "wrote"} {
		if strings.Contains(s, pat) {
			return pat
		}
	}
	if len(s) > 60 {
		s = s[:60]
	}
	return s
}

func crashFrame(stderr string) string {
	lines := strings.Split(stderr, "\n")
	val := ""
	for i, l := range lines {
		if strings.HasPrefix(l, "panic: ") && val == "" {
			val = strings.TrimPrefix(l, "panic: ")
			if j := strings.Index(val, " ["); j > 0 {
				val = val[:j]
			}
			if strings.Contains(val, "index out of range") {
				val = "index"
			} else if strings.Contains(val, "slice bounds") {
				val = "slice"
			} else if strings.Contains(val, "nil pointer") {
				val = "nil-deref"
			} else if strings.Contains(val, "divide") {
				val = "divide"
			}
		}
		if strings.HasPrefix(l, "github.com/Eyevinn/mp4ff/") || strings.HasPrefix(l, "main.") {
			if strings.Contains(l, "panic") && i < 3 {
				continue
			}
			fn := l
			if j := strings.LastIndex(fn, "("); j > 0 {
				fn = fn[:j]
			}
			return "crash/" + strings.TrimPrefix(fn, "github.com/Eyevinn/mp4ff/") + "/" + val
		}
	}
	return "crash/unknown/" + val
}

func run(c *runner.Ctx, idx int) {
	var data []byte
	var name, kind string
	var gen *prog.File
	huge := false
	if idx < len(corpus) {
		data, name, kind = corpus[idx].data, corpus[idx].name, "corpus"
	} else {
		huge = (idx-len(corpus))%8 == 3
		carry := (idx-len(corpus))%8 == 5
		gen = prog.RandomMovie(c.Rand, prog.MovieOptions{Entries: entries, MultiDesc: true, Huge: huge, CarryProbe: carry, ZeroSizes: true, LateSync: true, ShortEdits: true, MoovExtras: true, AlignedEnds: true})
		if carry {
			c.Count("carry_probe_movies", 1)
		}
		if strings.Contains(gen.DescriptionLabel, "ends-at-a-sync-sample-of-track-1") {
			c.Count("movies_with_a_track_ending_at_a_sync_sample_of_track_1", 1)
		}
		data, name, kind = gen.Bytes, gen.DescriptionLabel, "generated"
	}
	in, err := stbl.ParseFile(data)
	if err != nil {
		c.Inconclusive("harness-selfcheck: reference reader rejects the input")
		return
	}
	for ti, tr := range in.Tracks {
		if tr.ExpandErr != nil {
			c.Inconclusive("harness-selfcheck: input tables inconsistent")
			return
		}
		if gen != nil {
			gt := gen.Tracks[ti]
			if len(gt.Samples) != len(tr.Samples) {
				c.Inconclusive("harness-selfcheck: reference expansion differs from the generator's record")
				return
			}
			for i, s := range tr.Samples {
				g := gt.Samples[i]
				if s.DecodeTime != g.DecodeTime || s.Dur != g.Dur || s.Cto != int64(g.Cto) || s.Sync != g.Sync || s.Sdtp != g.Sdtp || s.DescID != g.DescID || !bytes.Equal(tr.SampleBytes(data, i+1), g.Data) {
					c.Inconclusive("harness-selfcheck: reference expansion differs from the generator's record")
					return
				}
			}
		}
	}
	ri := refTrackIndex(in)
	if ri < 0 {
		c.Inconclusive("input without video or audio track")
		return
	}
	ref := in.Tracks[ri]
	c.Seen("input_kind", kind)
	c.Seen("tracks", fmt.Sprint(len(in.Tracks)))
	c.Seen("reference_track", fmt.Sprintf("%s stss=%v index=%d", kindOf(ref), ref.Tables.HasStss, ri))
	for _, tr := range in.Tracks {
		c.Seen("track_shape", fmt.Sprintf("%s stss=%v ctts=%v sdtp=%v edts=%v co64=%v descs=%d", kindOf(tr), tr.Tables.HasStss, tr.Tables.HasCtts, tr.Tables.HasSdtp, tr.HasEdts, tr.Tables.HasCo64, len(tr.StsdEntries)))
	}
	c.Seen("moov_children", moovShape(in))
	if len(in.Mdats) > 0 {
		c.Seen("input_layout", fmt.Sprintf("mdatFirst=%v large=%v", in.TopLevel[1] == "mdat", in.Mdats[0].HdrLen == 16))
	}

	// durations
	tot := totalMS(ref)
	var durs []uint64
	durs = append(durs, 1)
	lastSync := 0
	for _, s := range ref.Samples {
		if s.Sync {
			lastSync = s.Nr
		}
	}
	if lastSync == 0 {
		lastSync = len(ref.Samples)
	}
	for i := 0; i < 3; i++ {
		s := ref.Samples[c.Rand.Intn(lastSync)]
		ms := int64(s.DecodeTime*1000/uint64(ref.Timescale)) + int64(c.Rand.Range(-1, 1))
		if ms < 1 {
			ms = 1
		}
		durs = append(durs, uint64(ms))
	}
	if tot > 1 {
		durs = append(durs, 1+c.Rand.Uint64()%tot)
	} else {
		durs = append(durs, 1)
	}
	if tot > 1 {
		durs = append(durs, tot-1)
	} else {
		durs = append(durs, 2)
	}
	durs = append(durs, tot, tot+1000)
	if tot == 0 {
		durs[6] = 1
	}

	inPath := filepath.Join(c.Env.Scratch, fmt.Sprintf("in-%d.mp4", idx))
	outPath := filepath.Join(c.Env.Scratch, fmt.Sprintf("out-%d.mp4", idx))
	written := false
	if huge {
		// the same movie as a sparse file of more than 4 GiB: a hole of 2^32 (+-) bytes inside the mdat payload in
		// front of a PRNG-chosen chunk; everything the oracle expects (samples, times, bytes) is unchanged, it keeps
		// reading the compact twin. The tool reads the input lazily, so the hole is never read.
		at := c.Rand.Intn(len(gen.ChunkOrder))
		by := uint64(1)<<32 - uint64(c.Rand.PickInt(0, 0, 1, 8, 4096)) + uint64(c.Rand.PickInt(0, 0, 16, 1<<20))
		if pre, suf, sufAt, err := gen.StretchedPieces(at, by); err == nil {
			if fh, err := os.Create(inPath); err == nil {
				_, e1 := fh.WriteAt(pre, 0)
				_, e2 := fh.WriteAt(suf, sufAt)
				e3 := fh.Close()
				if e1 == nil && e2 == nil && e3 == nil {
					written = true
					name += fmt.Sprintf(" +sparse-hole(%d bytes before chunk-order index %d of %d)", by, at, len(gen.ChunkOrder))
					c.Count("inputs_larger_than_4GiB_sparse", 1)
					c.Seen("input_kind", "generated,>4GiB-sparse")
				}
			}
		}
		if !written {
			c.Count("sparse_input_not_written", 1)
		}
	}
	if !written {
		if err := os.WriteFile(inPath, data, 0o644); err != nil {
			c.Inconclusive("cannot write scratch input")
			return
		}
	}
	defer os.Remove(inPath)
	defer os.Remove(outPath)
	var longest []byte // the longest successful output of this input so far
	for _, ms := range durs {
		// what the output path holds before the run: nothing, or a file the tool has to replace
		pre := c.Rand.PickStr("none", "none", "none", "empty-file", "garbage-longer-than-input", "longest-earlier-crop", "left-by-previous-run")
		switch pre {
		case "none":
			os.Remove(outPath)
		case "empty-file":
			_ = os.WriteFile(outPath, nil, 0o644)
		case "garbage-longer-than-input":
			_ = os.WriteFile(outPath, c.Rand.Bytes(len(data)+c.Rand.Range(1, 4096)), 0o644)
		case "longest-earlier-crop":
			if longest == nil {
				pre = "copy-of-input"
				_ = os.WriteFile(outPath, data, 0o644)
			} else {
				_ = os.WriteFile(outPath, longest, 0o644)
			}
		case "left-by-previous-run":
			// the output, the partial file of a failed run, or nothing
		}
		preLen := int64(-1)
		if st, err := os.Stat(outPath); err == nil {
			preLen = st.Size()
		}
		res := runTool(inPath, outPath, ms)
		c.Count("tool_runs", 1)
		inside := mul(ms, uint64(ref.Timescale)).Cmp(mul(ref.TotalDuration, 1000)) < 0
		if inside {
			c.Count("duration_inside", 1)
		}
		pos := map[bool]string{true: "inside", false: "at-or-beyond-end"}[inside]
		switch {
		case res.timedOut:
			c.Inconclusive("tool run exceeded the 60 s watchdog")
			continue
		case res.exit == -2:
			c.Inconclusive("the tool binary could not be executed")
			continue
		case res.exit == 0:
			c.Count("tool_exit0", 1)
		case res.exit == 2 || strings.Contains(res.stderr, "goroutine "):
			c.Count("tool_crashes", 1)
			c.Seen("tool_crash", crashFrame(res.stderr)+" duration="+pos)
			continue
		default:
			c.Count("tool_exit_nonzero", 1)
			c.Seen("tool_error", fmt.Sprintf("exit=%d %q duration=%s", res.exit, errorClass(res.stderr), pos))
			continue
		}
		out, err := os.ReadFile(outPath)
		if err != nil {
			c.Violation("output/missing", fmt.Sprintf("exit status 0 but no output file (-d %d, %s)", ms, name), map[string]interface{}{"input": name, "ms": ms})
			continue
		}
		rel := "absent"
		switch {
		case preLen > int64(len(out)):
			rel = "longer-than-new-output"
		case preLen == int64(len(out)):
			rel = "same-length"
		case preLen >= 0:
			rel = "shorter-than-new-output"
		}
		c.Seen("output_path_before_run", pre+","+rel)
		if preLen >= 0 {
			c.Count("runs_onto_existing_output_file", 1)
		}
		if len(out) > len(longest) {
			longest = out
		}
		ck := &check{c: c, in: in, inBytes: data, out: out, ms: ms, name: name, ref: ref, stdout: res.stdout, pre: pre, preLen: preLen}
		if ck.oracle() {
			c.Nontrivial(runner.Hash64(data, []byte(fmt.Sprint(ms))))
		}
	}
	c.Evals(int64(len(durs)))
	if c.WantSample() {
		c.Sample(map[string]interface{}{"input": name, "kind": kind, "bytes": len(data), "durations_ms": durs, "reference_track_total_ms": tot})
	}
}

type check struct {
	c       *runner.Ctx
	in      *stbl.Movie
	inBytes []byte
	out     []byte
	ms      uint64
	name    string
	ref     *stbl.Track
	stdout  string
	pre     string // what the output path held before the run
	preLen  int64  // its length (-1: nothing)
}

func (k *check) detail(extra map[string]interface{}) map[string]interface{} {
	d := map[string]interface{}{"input": k.name, "ms": k.ms, "input_bytes": len(k.inBytes), "output_bytes": len(k.out), "tool_stdout": k.stdout,
		"reference_track":        fmt.Sprintf("id %d %s timescale %d stss=%v", k.ref.ID, kindOf(k.ref), k.ref.Timescale, k.ref.Tables.HasStss),
		"output_path_before_run": fmt.Sprintf("%s (%d bytes)", k.pre, k.preLen), "input_moov_children": strings.Join(moovChildren(k.in), " ")}
	var tl []string
	for _, t := range k.in.Tracks {
		tl = append(tl, fmt.Sprintf("id %d %s timescale %d samples %d stts %v", t.ID, kindOf(t), t.Timescale, len(t.Samples), head(t.Tables.Stts, 6)))
	}
	d["input_tracks"] = tl
	for a, b := range extra {
		d[a] = b
	}
	return d
}

func head(e []stbl.SttsEntry, n int) []stbl.SttsEntry {
	if len(e) > n {
		return e[:n]
	}
	return e
}

func (k *check) viol(key, what string, extra map[string]interface{}) {
	k.c.Violation(key, fmt.Sprintf("mp4ff-crop -d %d: %s [%s]", k.ms, what, k.name), k.detail(extra))
}

// cutClass describes where the statement's cut falls in the input track.
func cutClass(tr *stbl.Track, kk int) string {
	n := len(tr.Samples)
	switch {
	case kk >= n:
		return "last-sample"
	case kk <= 0:
		return "no-sample"
	}
	s := tr.Samples[kk-1]
	cls := "inside-chunk"
	if s.Nr == s.FirstInChunk+s.NrInChunk-1 {
		cls = "at-chunk-end"
	}
	// run position in stts
	acc := 0
	for _, e := range tr.Tables.Stts {
		acc += int(e.Count)
		if kk <= acc {
			if kk == acc {
				cls += ",at-run-end"
			} else {
				cls += ",inside-run"
			}
			break
		}
	}
	return cls
}

// oracle returns true when the output could be compared.
func (k *check) oracle() bool {
	c := k.c
	nodes, err := boxwalk.Walk(k.out)
	if err != nil {
		k.viol("output/not-tiling", "output does not tile into boxes: "+err.Error(), nil)
		return true
	}
	var derr error
	var pf *mp4.File
	if pi := c.Guard(func() { pf, derr = mp4.DecodeFile(bytes.NewReader(k.out)) }); pi != nil || derr != nil {
		k.viol("output/undecodable", fmt.Sprintf("output is not decodable: %v", derr), nil)
		return true
	}
	if pf.IsFragmented() {
		k.viol("output/fragmented", "output is seen as fragmented by the library", nil)
		return true
	}
	om, err := stbl.ParseFile(k.out)
	if err != nil {
		k.viol("output/unreadable", "reference reader cannot read the output: "+err.Error(), nil)
		return true
	}
	if len(om.Tracks) != len(k.in.Tracks) {
		k.viol("output/track-count", fmt.Sprintf("output has %d tracks, input %d (moov children: input %v, output %v)", len(om.Tracks), len(k.in.Tracks), moovChildren(k.in), moovChildren(om)), nil)
		return true
	}
	// evidence only (the statement is about the tracks): do the non-trak children of moov reach the output?
	if extraIn, extraOut := nonTrakChildren(k.in), nonTrakChildren(om); extraIn != "mvhd" {
		c.Seen("non_trak_moov_children_in_output", map[bool]string{true: "all-kept", false: "changed"}[extraIn == extraOut])
	}
	// the statement's cut
	syncNr := firstSyncAtOrAfter(k.ref, k.ms)
	if syncNr == 0 {
		c.Inconclusive("tool succeeded although no sync sample of the reference track starts at or after the requested duration (k undefined)")
		c.Seen("undefined_k", fmt.Sprintf("ref stss=%v tick-aligned=%v", k.ref.Tables.HasStss, (k.ms*uint64(k.ref.Timescale))%1000 == 0))
		return false
	}
	endTicks := k.ref.Samples[syncNr-1].DecodeTime
	refCond := map[bool]string{true: "ref-stss", false: "ref-no-stss"}[k.ref.Tables.HasStss]
	gridCond := map[bool]string{true: "on-tick-grid", false: "off-tick-grid"}[(k.ms*uint64(k.ref.Timescale))%1000 == 0]
	c.Seen("cut_conditions", refCond+","+gridCond)

	type rng struct{ a, b uint64 }
	var chunkRanges []rng
	var sumSizes uint64
	chunksUnknown := false // a track whose output tables cannot be expanded: the mdat clauses cannot be evaluated
	for ti, it := range k.in.Tracks {
		ot := om.Tracks[ti]
		kind := kindOf(it)
		if ot.ID != it.ID || ot.Handler != it.Handler || ot.Timescale != it.Timescale {
			k.viol("output/track-identity/"+kind, fmt.Sprintf("track %d: id/handler/timescale %d/%s/%d became %d/%s/%d", ti+1, it.ID, it.Handler, it.Timescale, ot.ID, ot.Handler, ot.Timescale), nil)
			continue
		}
		want := samplesBefore(it, endTicks, k.ref.Timescale)
		cls := cutClass(it, want)
		c.Seen("cut_class", kind+"/"+cls)
		tsCond := map[bool]string{true: "same-timescale", false: "other-timescale"}[it.Timescale == k.ref.Timescale]
		if it == k.ref {
			tsCond = "reference-track"
		}
		if ot.ExpandErr != nil {
			k.viol("tables-inconsistent/"+kind+"/"+strings.SplitN(cls, ",", 2)[0], fmt.Sprintf("track %d (%s): output sample tables are inconsistent: %v (expected the first %d of %d samples)", it.ID, kind, ot.ExpandErr, want, len(it.Samples)),
				map[string]interface{}{"out_stts": ot.Tables.Stts, "out_stsc": ot.Tables.Stsc, "out_stsz_count": ot.Tables.StszCount, "out_chunks": len(ot.Tables.ChunkOffsets), "in_stsc": it.Tables.Stsc})
			chunksUnknown = true
			continue
		}
		got := len(ot.Samples)
		if got != want {
			diff := "more"
			if got < want {
				diff = "fewer"
			}
			var ctx []string
			for nr := want - 1; nr <= want+2; nr++ {
				if nr >= 1 && nr <= len(it.Samples) {
					s := it.Samples[nr-1]
					ctx = append(ctx, fmt.Sprintf("#%d starts at %d/%d", nr, s.DecodeTime, it.Timescale))
				}
			}
			k.viol("count/"+diff+"/"+refCond+"/"+tsCond+"/"+gridCond,
				fmt.Sprintf("track %d (%s) keeps %d samples; %d of its %d samples start before the end time %d/%d s (start of sync sample %d of the reference track, the first at or after %d ms); %s", it.ID, kind, got, want, len(it.Samples), endTicks, k.ref.Timescale, syncNr, k.ms, strings.Join(ctx, ", ")),
				map[string]interface{}{"track": it.ID, "kept": got, "expected": want, "end_ticks": endTicks, "end_timescale": k.ref.Timescale, "sync_sample": syncNr, "cut_class": cls})
		}
		nCmp := got
		if want < nCmp {
			nCmp = want
		}
		if len(it.Samples) < nCmp {
			nCmp = len(it.Samples)
		}
		for i := 0; i < nCmp; i++ {
			a, b := it.Samples[i], ot.Samples[i]
			field := ""
			switch {
			case a.Size != b.Size:
				field = "size"
			case !bytes.Equal(it.SampleBytes(k.inBytes, i+1), ot.SampleBytes(k.out, i+1)) || (a.Size > 0 && ot.SampleBytes(k.out, i+1) == nil):
				field = "bytes"
			case a.Dur != b.Dur:
				field = "duration"
			case a.Cto != b.Cto:
				field = "composition-offset"
			case a.Sync != b.Sync:
				field = "sync"
			case it.Tables.HasSdtp && (!ot.Tables.HasSdtp || a.Sdtp != b.Sdtp):
				field = "sdtp"
			case a.DescID != b.DescID:
				field = "sample-description"
			}
			if field != "" {
				extra := map[string]interface{}{"track": it.ID, "sample": i + 1, "input": fmt.Sprintf("%+v", a), "output": fmt.Sprintf("%+v", b), "kept": got, "expected": want}
				if field == "sample-description" {
					extra["in_stsc"], extra["out_stsc"] = it.Tables.Stsc, ot.Tables.Stsc
				}
				kc := cls // chunk position decides for everything but durations
				if j := strings.Index(kc, ","); j > 0 {
					if field == "duration" {
						kc = kc[j+1:]
					} else {
						kc = kc[:j]
					}
				}
				extra["cut_class"] = cls
				extra["last_kept"] = i+1 == nCmp
				k.viol(field+"/"+kind+"/"+kc, fmt.Sprintf("track %d (%s) sample %d of %d kept: %s differs: input %+v, output %+v", it.ID, kind, i+1, got, field, a, b), extra)
				break
			}
		}
		for _, ch := range ot.Chunks {
			chunkRanges = append(chunkRanges, rng{ch.Offset, ch.Offset + ch.Size})
			sumSizes += ch.Size
		}
		// header durations
		if ot.TkhdDuration > it.TkhdDuration {
			k.viol("duration/tkhd/"+kind, fmt.Sprintf("track %d tkhd duration %d exceeds the input's %d", it.ID, ot.TkhdDuration, it.TkhdDuration), nil)
		}
		if ot.MdhdDuration > it.MdhdDuration {
			k.viol("duration/mdhd/"+kind, fmt.Sprintf("track %d mdhd duration %d exceeds the input's %d", it.ID, ot.MdhdDuration, it.MdhdDuration), nil)
		}
		if len(ot.Elst) != len(it.Elst) {
			k.viol("duration/elst-count/"+kind, fmt.Sprintf("track %d has %d edits, input %d", it.ID, len(ot.Elst), len(it.Elst)), nil)
		} else {
			for ei := range it.Elst {
				if ot.Elst[ei].SegmentDuration > it.Elst[ei].SegmentDuration {
					k.viol("duration/elst/"+kind, fmt.Sprintf("track %d edit %d segment duration %d exceeds the input's %d", it.ID, ei+1, ot.Elst[ei].SegmentDuration, it.Elst[ei].SegmentDuration), nil)
				}
			}
		}
	}
	if om.Duration > k.in.Duration {
		k.viol("duration/mvhd", fmt.Sprintf("mvhd duration %d exceeds the input's %d", om.Duration, k.in.Duration), nil)
	}
	// mdat
	var mdats []stbl.MdatInfo
	for _, md := range om.Mdats {
		if md.PayloadLen() > 0 {
			mdats = append(mdats, md)
		}
	}
	_ = nodes
	switch {
	case chunksUnknown:
		c.Count("mdat_clauses_skipped", 1)
	case len(om.Mdats) == 0:
		k.viol("mdat/missing", "output has no mdat", nil)
	case len(mdats) > 1:
		k.viol("mdat/several", fmt.Sprintf("output has %d non-empty mdat boxes", len(mdats)), nil)
	default:
		md := om.Mdats[0]
		if len(mdats) == 1 {
			md = mdats[0]
		}
		ps, pe := uint64(md.PayloadStart()), uint64(md.Start+md.Size)
		bad := false
		for _, r := range chunkRanges {
			if r.a < ps || r.b > pe || r.b < r.a {
				k.viol("mdat/chunk-outside", fmt.Sprintf("a chunk occupies [%d,%d), the new mdat payload is [%d,%d)", r.a, r.b, ps, pe), nil)
				bad = true
				break
			}
		}
		if sumSizes != pe-ps {
			k.viol("mdat/size", fmt.Sprintf("the kept samples have %d bytes in total, the new mdat payload has %d", sumSizes, pe-ps), nil)
			bad = true
		}
		if !bad {
			sort.Slice(chunkRanges, func(i, j int) bool { return chunkRanges[i].a < chunkRanges[j].a })
			for i := 1; i < len(chunkRanges); i++ {
				// a chunk of zero-size samples is an empty range: it overlaps nothing wherever it sits
				if chunkRanges[i].a < chunkRanges[i-1].b && chunkRanges[i].a != chunkRanges[i].b && chunkRanges[i-1].a != chunkRanges[i-1].b {
					k.viol("mdat/chunks-overlap", fmt.Sprintf("chunks [%d,%d) and [%d,%d) overlap", chunkRanges[i-1].a, chunkRanges[i-1].b, chunkRanges[i].a, chunkRanges[i].b), nil)
					break
				}
			}
		}
	}
	return true
}
