package c15

import (
	"bytes"
	"fmt"
	"strings"

	"github.com/Eyevinn/mp4ff/avc"
	"github.com/Eyevinn/mp4ff/bits"
	"github.com/Eyevinn/mp4ff/mp4"

	"verifharness/ref/h264"
	"verifharness/runner"
)

// ---------------------------------------------------------------------------
// what the library structs expose, by syntax element name

func avcHrdVals(l *libVals, p string, h *avc.HrdParameters) {
	if h == nil {
		return
	}
	l.set(p+".cpb_cnt_minus1", int64(h.CpbCountMinus1))
	l.set(p+".bit_rate_scale", int64(h.BitRateScale))
	l.set(p+".cpb_size_scale", int64(h.CpbSizeScale))
	l.base(p + ".bit_rate_value_minus1")
	l.base(p + ".cpb_size_value_minus1")
	l.base(p + ".cbr_flag")
	for i, e := range h.CpbEntries {
		l.arr(p+".bit_rate_value_minus1", i, int64(e.BitRateValueMinus1))
		l.arr(p+".cpb_size_value_minus1", i, int64(e.CpbSizeValueMinus1))
		l.arrb(p+".cbr_flag", i, e.CbrFlag)
	}
	l.set(p+".initial_cpb_removal_delay_length_minus1", int64(h.InitialCpbRemovalDelayLengthMinus1))
	l.set(p+".cpb_removal_delay_length_minus1", int64(h.CpbRemovalDelayLengthMinus1))
	l.set(p+".dpb_output_delay_length_minus1", int64(h.DpbOutputDelayLengthMinus1))
	l.set(p+".time_offset_length", int64(h.TimeOffsetLength))
}

func avcScalingVals(l *libVals, prefix, flagName string, lists []avc.ScalingList) {
	l.base(flagName)
	l.base(prefix + ".ScalingList")
	for i, sl := range lists {
		l.arrb(flagName, i, sl != nil)
		for j, v := range sl {
			l.arr2(prefix+".ScalingList", i, j, int64(v))
		}
	}
}

func avcSPSVals(s *avc.SPS, full bool) *libVals {
	l := newLibVals()
	l.set("profile_idc", int64(s.Profile))
	l.set("constraint_flags", int64(s.ProfileCompatibility))
	l.set("level_idc", int64(s.Level))
	l.set("seq_parameter_set_id", int64(s.ParameterID))
	l.set("chroma_format_idc", int64(s.ChromaFormatIDC))
	l.setb("separate_colour_plane_flag", s.SeparateColourPlaneFlag)
	l.set("bit_depth_luma_minus8", int64(s.BitDepthLumaMinus8))
	l.set("bit_depth_chroma_minus8", int64(s.BitDepthChromaMinus8))
	l.setb("qpprime_y_zero_transform_bypass_flag", s.QPPrimeYZeroTransformBypassFlag)
	l.setb("seq_scaling_matrix_present_flag", s.SeqScalingMatrixPresentFlag)
	if s.SeqScalingMatrixPresentFlag {
		avcScalingVals(l, "seq", "seq_scaling_list_present_flag", s.SeqScalingLists)
	}
	l.set("log2_max_frame_num_minus4", int64(s.Log2MaxFrameNumMinus4))
	l.set("pic_order_cnt_type", int64(s.PicOrderCntType))
	l.set("log2_max_pic_order_cnt_lsb_minus4", int64(s.Log2MaxPicOrderCntLsbMinus4))
	l.setb("delta_pic_order_always_zero_flag", s.DeltaPicOrderAlwaysZeroFlag)
	l.set("offset_for_non_ref_pic", int64(s.OffsetForNonRefPic))
	l.set("offset_for_top_to_bottom_field", int64(s.OffsetForTopToBottomField))
	l.set("num_ref_frames_in_pic_order_cnt_cycle", int64(len(s.RefFramesInPicOrderCntCycle)))
	l.base("offset_for_ref_frame")
	for i, v := range s.RefFramesInPicOrderCntCycle {
		l.arr("offset_for_ref_frame", i, int64(v))
	}
	l.set("max_num_ref_frames", int64(s.NumRefFrames))
	l.setb("gaps_in_frame_num_value_allowed_flag", s.GapsInFrameNumValueAllowedFlag)
	l.setb("frame_mbs_only_flag", s.FrameMbsOnlyFlag)
	l.setb("mb_adaptive_frame_field_flag", s.MbAdaptiveFrameFieldFlag)
	l.setb("direct_8x8_inference_flag", s.Direct8x8InferenceFlag)
	l.setb("frame_cropping_flag", s.FrameCroppingFlag)
	l.set("frame_crop_left_offset", int64(s.FrameCropLeftOffset))
	l.set("frame_crop_right_offset", int64(s.FrameCropRightOffset))
	l.set("frame_crop_top_offset", int64(s.FrameCropTopOffset))
	l.set("frame_crop_bottom_offset", int64(s.FrameCropBottomOffset))
	l.set("Width", int64(s.Width))
	l.set("Height", int64(s.Height))
	l.setb("vui_parameters_present_flag", s.VUI != nil)
	l.set("bytes:before_vui", int64(s.NrBytesBeforeVUI))
	v := s.VUI
	if v == nil {
		// NrBytesRead then equals the bytes before the (absent) VUI
		l.set("bytes:sps_data", int64(s.NrBytesRead))
		return l
	}
	l.set("sar_width", int64(v.SampleAspectRatioWidth))
	l.set("sar_height", int64(v.SampleAspectRatioHeight))
	if !full {
		l.set("bytes:vui_aspect", int64(s.NrBytesRead))
		return l
	}
	l.set("bytes:sps_data", int64(s.NrBytesRead))
	l.setb("overscan_info_present_flag", v.OverscanInfoPresentFlag)
	l.setb("overscan_appropriate_flag", v.OverscanAppropriateFlag)
	l.setb("video_signal_type_present_flag", v.VideoSignalTypePresentFlag)
	l.set("video_format", int64(v.VideoFormat))
	l.setb("video_full_range_flag", v.VideoFullRangeFlag)
	l.setb("colour_description_present_flag", v.ColourDescriptionFlag)
	l.set("colour_primaries", int64(v.ColourPrimaries))
	l.set("transfer_characteristics", int64(v.TransferCharacteristics))
	l.set("matrix_coefficients", int64(v.MatrixCoefficients))
	l.setb("chroma_loc_info_present_flag", v.ChromaLocInfoPresentFlag)
	l.set("chroma_sample_loc_type_top_field", int64(v.ChromaSampleLocTypeTopField))
	l.set("chroma_sample_loc_type_bottom_field", int64(v.ChromaSampleLocTypeBottomField))
	l.setb("timing_info_present_flag", v.TimingInfoPresentFlag)
	l.set("num_units_in_tick", int64(v.NumUnitsInTick))
	l.set("time_scale", int64(v.TimeScale))
	l.setb("fixed_frame_rate_flag", v.FixedFrameRateFlag)
	l.setb("nal_hrd_parameters_present_flag", v.NalHrdParametersPresentFlag)
	avcHrdVals(l, "nal_hrd", v.NalHrdParameters)
	l.setb("vcl_hrd_parameters_present_flag", v.VclHrdParametersPresentFlag)
	avcHrdVals(l, "vcl_hrd", v.VclHrdParameters)
	l.setb("low_delay_hrd_flag", v.LowDelayHrdFlag)
	l.setb("pic_struct_present_flag", v.PicStructPresentFlag)
	l.setb("bitstream_restriction_flag", v.BitstreamRestrictionFlag)
	l.setb("motion_vectors_over_pic_boundaries_flag", v.MotionVectorsOverPicBoundariesFlag)
	l.set("max_bytes_per_pic_denom", int64(v.MaxBytesPerPicDenom))
	l.set("max_bits_per_mb_denom", int64(v.MaxBitsPerMbDenom))
	l.set("log2_max_mv_length_horizontal", int64(v.Log2MaxMvLengthHorizontal))
	l.set("log2_max_mv_length_vertical", int64(v.Log2MaxMvLengthVertical))
	l.set("max_num_reorder_frames", int64(v.MaxNumReorderFrames))
	l.set("max_dec_frame_buffering", int64(v.MaxDecFrameBuffering))
	return l
}

func avcPPSVals(p *avc.PPS) *libVals {
	l := newLibVals()
	l.set("pic_parameter_set_id", int64(p.PicParameterSetID))
	l.set("seq_parameter_set_id", int64(p.SeqParameterSetID))
	l.setb("entropy_coding_mode_flag", p.EntropyCodingModeFlag)
	l.setb("bottom_field_pic_order_in_frame_present_flag", p.BottomFieldPicOrderInFramePresentFlag)
	l.set("num_slice_groups_minus1", int64(p.NumSliceGroupsMinus1))
	l.set("slice_group_map_type", int64(p.SliceGroupMapType))
	l.base("run_length_minus1")
	l.base("top_left")
	l.base("bottom_right")
	l.base("slice_group_id")
	for i, v := range p.RunLengthMinus1 {
		l.arr("run_length_minus1", i, int64(v))
	}
	l.set("len(run_length_minus1)", int64(len(p.RunLengthMinus1)))
	for i, v := range p.TopLeft {
		l.arr("top_left", i, int64(v))
	}
	for i, v := range p.BottomRight {
		l.arr("bottom_right", i, int64(v))
	}
	l.set("len(top_left)", int64(len(p.TopLeft)))
	l.setb("slice_group_change_direction_flag", p.SliceGroupChangeDirectionFlag)
	l.set("slice_group_change_rate_minus1", int64(p.SliceGroupChangeRateMinus1))
	l.set("pic_size_in_map_units_minus1", int64(p.PicSizeInMapUnitsMinus1))
	for i, v := range p.SliceGroupID {
		l.arr("slice_group_id", i, int64(v))
	}
	l.set("len(slice_group_id)", int64(len(p.SliceGroupID)))
	l.set("num_ref_idx_l0_default_active_minus1", int64(p.NumRefIdxI0DefaultActiveMinus1))
	l.set("num_ref_idx_l1_default_active_minus1", int64(p.NumRefIdxI1DefaultActiveMinus1))
	l.setb("weighted_pred_flag", p.WeightedPredFlag)
	l.set("weighted_bipred_idc", int64(p.WeightedBipredIDC))
	l.set("pic_init_qp_minus26", int64(p.PicInitQpMinus26))
	l.set("pic_init_qs_minus26", int64(p.PicInitQsMinus26))
	l.set("chroma_qp_index_offset", int64(p.ChromaQpIndexOffset))
	l.setb("deblocking_filter_control_present_flag", p.DeblockingFilterControlPresentFlag)
	l.setb("constrained_intra_pred_flag", p.ConstrainedIntraPredFlag)
	l.setb("redundant_pic_cnt_present_flag", p.RedundantPicCntPresentFlag)
	l.setb("transform_8x8_mode_flag", p.Transform8x8ModeFlag)
	l.setb("pic_scaling_matrix_present_flag", p.PicScalingMatrixPresentFlag)
	if p.PicScalingMatrixPresentFlag {
		avcScalingVals(l, "pic", "pic_scaling_list_present_flag", p.PicScalingLists)
		l.set("len(pic_scaling_list)", int64(len(p.PicScalingLists)))
	}
	l.set("second_chroma_qp_index_offset", int64(p.SecondChromaQpIndexOffset))
	return l
}

func avcSliceVals(s *avc.SliceHeader) *libVals {
	l := newLibVals()
	l.set("first_mb_in_slice", int64(s.FirstMBInSlice))
	l.set("slice_type", int64(s.SliceType))
	l.set("pic_parameter_set_id", int64(s.PicParamID))
	l.set("colour_plane_id", int64(s.ColorPlaneID))
	l.set("frame_num", int64(s.FrameNum))
	l.setb("field_pic_flag", s.FieldPicFlag)
	l.setb("bottom_field_flag", s.BottomFieldFlag)
	l.set("idr_pic_id", int64(s.IDRPicID))
	l.set("pic_order_cnt_lsb", int64(s.PicOrderCntLsb))
	l.set("delta_pic_order_cnt_bottom", int64(s.DeltaPicOrderCntBottom))
	l.set("delta_pic_order_cnt[0]", int64(s.DeltaPicOrderCnt[0]))
	l.set("delta_pic_order_cnt[1]", int64(s.DeltaPicOrderCnt[1]))
	l.set("redundant_pic_cnt", int64(s.RedundantPicCnt))
	l.setb("direct_spatial_mv_pred_flag", s.DirectSpatialMvPredFlag)
	l.setb("num_ref_idx_active_override_flag", s.NumRefIdxActiveOverrideFlag)
	l.set("num_ref_idx_l0_active_minus1", int64(s.NumRefIdxL0ActiveMinus1))
	l.set("num_ref_idx_l1_active_minus1", int64(s.NumRefIdxL1ActiveMinus1))
	l.setb("ref_pic_list_modification_flag_l[0]", s.RefPicListModificationL0Flag)
	l.setb("ref_pic_list_modification_flag_l[1]", s.RefPicListModificationL1Flag)
	// single-slot fields hold the value coded last
	l.set("last.modification_of_pic_nums_idc", int64(s.ModificationOfPicNumsIDC))
	l.set("last.abs_diff_pic_num_minus1", int64(s.AbsDiffPicNumMinus1))
	l.set("last.long_term_pic_num", int64(s.LongTermPicNum))
	l.set("luma_log2_weight_denom", int64(s.LumaLog2WeightDenom))
	l.set("chroma_log2_weight_denom", int64(s.ChromaLog2WeightDenom))
	l.setb("no_output_of_prior_pics_flag", s.NoOutputOfPriorPicsFlag)
	l.setb("long_term_reference_flag", s.LongTermReferenceFlag)
	l.setb("adaptive_ref_pic_marking_mode_flag", s.AdaptiveRefPicMarkingModeFlag)
	l.set("last.difference_of_pic_nums_minus1", int64(s.DifferenceOfPicNumsMinus1))
	l.set("last.long_term_frame_idx", int64(s.LongTermFramIdx))
	l.set("last.max_long_term_frame_idx_plus1", int64(s.MaxLongTermFrameIdxPlus1))
	l.set("cabac_init_idc", int64(s.CabacInitIDC))
	l.set("slice_qp_delta", int64(s.SliceQPDelta))
	l.setb("sp_for_switch_flag", s.SPForSwitchFlag)
	l.set("slice_qs_delta", int64(s.SliceQSDelta))
	l.set("disable_deblocking_filter_idc", int64(s.DisableDeblockingFilterIDC))
	l.set("slice_alpha_c0_offset_div2", int64(s.SliceAlphaC0OffsetDiv2))
	l.set("slice_beta_offset_div2", int64(s.SliceBetaOffsetDiv2))
	l.set("slice_group_change_cycle", int64(s.SliceGroupChangeCycle))
	l.set("Size", int64(s.Size))
	return l
}

// ---------------------------------------------------------------------------
// checks (driven by a witness only, so that Replay can re-run them)

const keySignedOffset = "avc.sps/pic_order_cnt_type=1/se(v)-offset-returned-as-ue(v)-codeNum"

func avcSPSKey(m mismatch) string {
	switch baseName(m.Field) {
	case "offset_for_non_ref_pic", "offset_for_top_to_bottom_field", "offset_for_ref_frame":
		if !m.Missing && m.Got == codeNum(m.Want) {
			return keySignedOffset
		}
	}
	return "avc.sps/field/" + keyName(m.Field)
}

// pickHazard chooses the hazard that keys a finding. When several syntactic
// conditions are present the one that explains the mismatching fields is taken.
func pickHazard(prefix string, hazards []string, mm []mismatch) string {
	if prefix == "avc.slice" {
		const cyc = "slice_group_change_cycle(slice_group_map_type=3..5)"
		only := true
		for _, m := range mm {
			if f := keyName(m.Field); f != "slice_group_change_cycle" && f != "Size" {
				only = false
			}
		}
		for _, h := range hazards {
			if h == cyc && only {
				return h
			}
		}
	}
	return hazards[0]
}

// reportGrouped files one violation per distinct key. Mismatches whose key is
// a specific finding class (not ".../field/<name>") always keep that key; the
// others are keyed by the hazard of the unit when there is one.
func reportGrouped(c *runner.Ctx, w *witness, prefix string, mm []mismatch, keyOf func(m mismatch) string) (keys []string) {
	if len(mm) == 0 {
		return nil
	}
	groups := map[string][]mismatch{}
	var generic []mismatch
	for _, m := range mm {
		k := keyOf(m)
		if strings.Contains(k, "/field/") {
			generic = append(generic, m)
			continue
		}
		if _, ok := groups[k]; !ok {
			keys = append(keys, k)
		}
		groups[k] = append(groups[k], m)
	}
	if len(generic) > 0 {
		// a bit-serial parser that goes wrong once reads everything after it wrongly: the
		// first mismatching element in coding order names the finding, the rest is listed in `what`
		k := keyOf(generic[0])
		if len(w.Hazards) > 0 {
			k = prefix + "/" + pickHazard(prefix, w.Hazards, generic)
		}
		keys = append(keys, k)
		groups[k] = generic
	}
	for _, k := range keys {
		g := groups[k]
		c.Violation(k, fmt.Sprintf("%s %s NAL %s: %s", w.Codec, w.Kind, clip(w.NAL, 120), describe(g)), w)
	}
	return keys
}

// checkAvcSPS parses the SPS both ways and compares. It returns the parsed SPS
// (full VUI) and whether it can serve to interpret PPSs and slice headers.
func checkAvcSPS(c *runner.Ctx, w *witness) (*avc.SPS, bool) {
	nal := unhx(w.NAL)
	usable := true
	var full *avc.SPS
	for _, mode := range []bool{true, false} {
		var sps *avc.SPS
		var err error
		pi := c.Guard(func() { sps, err = avc.ParseSPSNALUnit(nal, mode) })
		c.Count("avc.sps.parsed", 1)
		if pi != nil {
			c.Violation(runner.PanicKey("avc.sps/panic", pi), "ParseSPSNALUnit panicked on a valid SPS: "+pi.Value, w)
			return nil, false
		}
		if err != nil || sps == nil {
			reportErr(c, w, "avc.sps", fmt.Errorf("ParseSPSNALUnit(parseVUIBeyondAspectRatio=%v): %v", mode, err))
			usable = false
			continue
		}
		mm, n := compare(w.Want, avcSPSVals(sps, mode))
		c.Count("fields_compared", int64(n))
		keys := reportGrouped(c, w, "avc.sps", mm, avcSPSKey)
		for _, k := range keys {
			if k != keySignedOffset {
				usable = false
			}
		}
		if mode {
			full = sps
		}
	}
	if full == nil {
		return nil, false
	}
	// codec string, parsed back
	want := wantMap(w.Want)
	cs := avc.CodecString("avc1", full)
	entry, p, cf, lv, ok := h264.ParseCodecString(cs)
	if !ok || entry != "avc1" || int64(p) != want["profile_idc"] || int64(cf) != want["constraint_flags"] || int64(lv) != want["level_idc"] {
		c.Violation("avc.codecstring", fmt.Sprintf("CodecString = %q, SPS codes profile_idc %d constraint byte %#x level_idc %d", cs,
			want["profile_idc"], want["constraint_flags"], want["level_idc"]), w)
	}
	if int64(full.ConstraintFlags()) != want["constraint_flags"]>>4 {
		c.Violation("avc.sps/ConstraintFlags()", fmt.Sprintf("ConstraintFlags() = %#x, constraint byte %#x", full.ConstraintFlags(), want["constraint_flags"]), w)
	}
	return full, usable
}

func wantMap(want []h264.Elem) map[string]int64 {
	m := make(map[string]int64, len(want))
	for _, e := range want {
		m[e.Name] = e.Val
	}
	return m
}

func avcPPSKey(m mismatch) string { return "avc.pps/field/" + keyName(m.Field) }

func checkAvcPPS(c *runner.Ctx, w *witness, spsMap map[uint32]*avc.SPS) (*avc.PPS, bool) {
	nal := unhx(w.NAL)
	var pps *avc.PPS
	var err error
	pi := c.Guard(func() { pps, err = avc.ParsePPSNALUnit(nal, spsMap) })
	c.Count("avc.pps.parsed", 1)
	if pi != nil {
		c.Violation(runner.PanicKey("avc.pps/panic", pi), "ParsePPSNALUnit panicked on a valid PPS: "+pi.Value, w)
		return nil, false
	}
	if err != nil || pps == nil {
		reportErr(c, w, "avc.pps", fmt.Errorf("ParsePPSNALUnit: %v", err))
		return nil, false
	}
	mm, n := compare(w.Want, avcPPSVals(pps))
	c.Count("fields_compared", int64(n))
	keys := reportGrouped(c, w, "avc.pps", mm, avcPPSKey)
	return pps, len(keys) == 0
}

func avcSliceKey(m mismatch) string { return "avc.slice/field/" + keyName(m.Field) }

func checkAvcSlice(c *runner.Ctx, w *witness, spsMap map[uint32]*avc.SPS, ppsMap map[uint32]*avc.PPS) {
	nal := unhx(w.NAL)
	var sh *avc.SliceHeader
	var err error
	pi := c.Guard(func() { sh, err = avc.ParseSliceHeader(nal, spsMap, ppsMap) })
	c.Count("avc.slice.parsed", 1)
	if pi != nil {
		key := runner.PanicKey("avc.slice/panic", pi)
		if len(w.Hazards) > 0 {
			key = "avc.slice/" + w.Hazards[0]
		}
		c.Violation(key, "ParseSliceHeader panicked on a valid slice: "+pi.Value, w)
		return
	}
	if err != nil || sh == nil {
		reportErr(c, w, "avc.slice", fmt.Errorf("ParseSliceHeader: %v", err))
		return
	}
	mm, n := compare(w.Want, avcSliceVals(sh))
	c.Count("fields_compared", int64(n))
	reportGrouped(c, w, "avc.slice", mm, avcSliceKey)
	// the short form
	want := wantMap(w.Want)
	var st avc.SliceType
	pi = c.Guard(func() { st, err = avc.GetSliceTypeFromNALU(nal) })
	if pi != nil {
		c.Violation(runner.PanicKey("avc.slicetype/panic", pi), "GetSliceTypeFromNALU panicked: "+pi.Value, w)
	} else if err != nil || int64(st) != want["slice_type"]%5 {
		c.Violation("avc.slicetype", fmt.Sprintf("GetSliceTypeFromNALU = %d, %v; slice_type coded %d", st, err, want["slice_type"]), w)
	}
}

// checkAvcDecConf: w.SPS / w.PPS are the parameter sets; w.Want the elements of w.SPS[0].
func checkAvcDecConf(c *runner.Ctx, w *witness) {
	spsN, ppsN := unhxAll(w.SPS), unhxAll(w.PPS)
	want := wantMap(w.Want)
	var rec *avc.DecConfRec
	var err error
	pi := c.Guard(func() { rec, err = avc.CreateAVCDecConfRec(spsN, ppsN, true) })
	c.Count("avc.decconf.created", 1)
	if pi != nil {
		c.Violation(runner.PanicKey("avc.decconf/panic", pi), "CreateAVCDecConfRec panicked: "+pi.Value, w)
		return
	}
	if err != nil || rec == nil {
		if len(w.Hazards) > 0 {
			return // the SPS is rejected by the SPS parser; reported there
		}
		c.Violation("avc.decconf/create-error", fmt.Sprintf("CreateAVCDecConfRec: %v", err), w)
		return
	}
	if int64(rec.AVCProfileIndication) != want["profile_idc"] || int64(rec.ProfileCompatibility) != want["constraint_flags"] || int64(rec.AVCLevelIndication) != want["level_idc"] {
		c.Violation("avc.decconf/create/profile-compat-level", fmt.Sprintf("record %d/%#x/%d, SPS %d/%#x/%d", rec.AVCProfileIndication, rec.ProfileCompatibility,
			rec.AVCLevelIndication, want["profile_idc"], want["constraint_flags"], want["level_idc"]), w)
	}
	chroma, hasChroma := want["chroma_format_idc"]
	if hasChroma {
		c.Seen("avc.decconf", fmt.Sprintf("sps-with-chroma_format_idc=%d", chroma))
		if int64(rec.ChromaFormat) != chroma {
			c.Violation("avc.decconf/create/chroma_format", fmt.Sprintf("CreateAVCDecConfRec: ChromaFormat %d, SPS chroma_format_idc %d (profile_idc %d)",
				rec.ChromaFormat, chroma, want["profile_idc"]), w)
		}
		if int64(rec.BitDepthLumaMinus1) != want["bit_depth_luma_minus8"] || int64(rec.BitDepthChromaMinus1) != want["bit_depth_chroma_minus8"] {
			c.Violation("avc.decconf/create/bit_depth", fmt.Sprintf("CreateAVCDecConfRec: bit depth fields %d/%d, SPS bit_depth_luma_minus8 %d bit_depth_chroma_minus8 %d",
				rec.BitDepthLumaMinus1, rec.BitDepthChromaMinus1, want["bit_depth_luma_minus8"], want["bit_depth_chroma_minus8"]), w)
		}
	}
	if !sameNALs(rec.SPSnalus, spsN) || !sameNALs(rec.PPSnalus, ppsN) {
		c.Violation("avc.decconf/create/nalus", "CreateAVCDecConfRec does not carry the parameter-set NAL units verbatim", w)
	}
	// Encode, then read the bytes independently and through the library
	var buf bytes.Buffer
	pi = c.Guard(func() { err = rec.Encode(&buf) })
	if pi != nil {
		c.Violation(runner.PanicKey("avc.decconf/encode-panic", pi), "DecConfRec.Encode panicked: "+pi.Value, w)
		return
	}
	if err != nil {
		c.Violation("avc.decconf/encode-error", fmt.Sprintf("Encode: %v", err), w)
		return
	}
	a, ok := h264.ParseAVCC(buf.Bytes())
	if !ok {
		c.Violation("avc.decconf/encode/unreadable", fmt.Sprintf("encoded record %x cannot be read", buf.Bytes()), w)
		return
	}
	if a.Version != 1 || int64(a.Profile) != want["profile_idc"] || int64(a.Compat) != want["constraint_flags"] || int64(a.Level) != want["level_idc"] || a.LengthSizeMinusOne != 3 {
		c.Violation("avc.decconf/encode/profile-compat-level", fmt.Sprintf("encoded record %x", clipBytes(buf.Bytes(), 16)), w)
	}
	if !sameNALs(a.SPS, spsN) || !sameNALs(a.PPS, ppsN) {
		c.Violation("avc.decconf/encode/nalus", "encoded record does not carry the parameter-set NAL units verbatim", w)
	}
	if hasChroma {
		switch {
		case !a.HasExt:
			c.Violation("avc.decconf/encode/chroma-bitdepth-not-written", fmt.Sprintf("profile_idc %d SPS codes chroma_format_idc %d, bit depths %d/%d; encoded record has no chroma_format/bit_depth fields",
				want["profile_idc"], chroma, want["bit_depth_luma_minus8"]+8, want["bit_depth_chroma_minus8"]+8), w)
		default:
			if int64(a.ChromaFormat) != chroma {
				c.Violation("avc.decconf/create/chroma_format", fmt.Sprintf("encoded record chroma_format %d, SPS %d", a.ChromaFormat, chroma), w)
			}
			if int64(a.BitDepthLumaMinus8) != want["bit_depth_luma_minus8"] || int64(a.BitDepthChromaMinus8) != want["bit_depth_chroma_minus8"] {
				c.Violation("avc.decconf/create/bit_depth", fmt.Sprintf("encoded record bit depths %d/%d, SPS %d/%d", a.BitDepthLumaMinus8, a.BitDepthChromaMinus8,
					want["bit_depth_luma_minus8"], want["bit_depth_chroma_minus8"]), w)
			}
		}
	}
	var dec avc.DecConfRec
	pi = c.Guard(func() { dec, err = avc.DecodeAVCDecConfRec(buf.Bytes()) })
	if pi != nil {
		c.Violation(runner.PanicKey("avc.decconf/decode-panic", pi), "DecodeAVCDecConfRec panicked: "+pi.Value, w)
		return
	}
	if err != nil {
		c.Violation("avc.decconf/decode-error", fmt.Sprintf("DecodeAVCDecConfRec(Encode(rec)): %v", err), w)
		return
	}
	if dec.AVCProfileIndication != rec.AVCProfileIndication || dec.ProfileCompatibility != rec.ProfileCompatibility || dec.AVCLevelIndication != rec.AVCLevelIndication ||
		!sameNALs(dec.SPSnalus, spsN) || !sameNALs(dec.PPSnalus, ppsN) {
		c.Violation("avc.decconf/roundtrip", "Decode(Encode(rec)) differs in profile/compat/level or parameter sets", w)
	}
	if a.HasExt && (dec.ChromaFormat != a.ChromaFormat || dec.BitDepthLumaMinus1 != a.BitDepthLumaMinus8 || dec.BitDepthChromaMinus1 != a.BitDepthChromaMinus8) {
		c.Violation("avc.decconf/roundtrip/chroma-bitdepth", fmt.Sprintf("decoded %d/%d/%d, bytes carry %d/%d/%d", dec.ChromaFormat, dec.BitDepthLumaMinus1, dec.BitDepthChromaMinus1,
			a.ChromaFormat, a.BitDepthLumaMinus8, a.BitDepthChromaMinus8), w)
	}
	// sample description built by mp4.TrakBox.SetAVCDescriptor
	if w.Size == 1 { // flag: also exercise the init-segment path
		checkAvcInit(c, w, spsN, ppsN, want)
	}
}

// padList repeats the elements of l cyclically until it has n elements (n <= len(l): unchanged).
func padList(l []string, n int) []string {
	for i := 0; len(l) < n; i++ {
		l = append(l, l[i])
	}
	return l
}

func clipBytes(b []byte, n int) []byte {
	if len(b) > n {
		return b[:n]
	}
	return b
}

func sameNALs(a, b [][]byte) bool {
	if len(a) != len(b) {
		return false
	}
	for i := range a {
		if !bytes.Equal(a[i], b[i]) {
			return false
		}
	}
	return true
}

func checkAvcInit(c *runner.Ctx, w *witness, spsN, ppsN [][]byte, want map[string]int64) {
	var out []byte
	var err error
	entry := "avc1"
	if want["seq_parameter_set_id"]%2 == 1 {
		entry = "avc3"
	}
	pi := c.Guard(func() {
		init := mp4.CreateEmptyInit()
		init.AddEmptyTrack(90000, "video", "und")
		if err = init.Moov.Trak.SetAVCDescriptor(entry, spsN, ppsN, true); err != nil {
			return
		}
		var buf bytes.Buffer
		if err = init.Encode(&buf); err != nil {
			return
		}
		out = buf.Bytes()
	})
	c.Count("avc.init.built", 1)
	if pi != nil {
		c.Violation(runner.PanicKey("avc.init/panic", pi), "SetAVCDescriptor/Encode panicked: "+pi.Value, w)
		return
	}
	if err != nil {
		c.Violation("avc.init/error", fmt.Sprintf("SetAVCDescriptor: %v", err), w)
		return
	}
	var f *mp4.File
	pi = c.Guard(func() { f, err = mp4.DecodeFileSR(bits.NewFixedSliceReader(out)) })
	if pi != nil || err != nil || f == nil || f.Init == nil || f.Init.Moov == nil || f.Init.Moov.Trak == nil {
		key := "avc.init/decode"
		if _, high := want["chroma_format_idc"]; high {
			switch want["profile_idc"] {
			case 100, 110, 122, 144:
			default:
				// DecConfRec.Size counts the chroma/bit-depth bytes that EncodeSW does not write for this profile_idc
				key = "avc.decconf/encode/chroma-bitdepth-not-written"
			}
		}
		c.Violation(key, fmt.Sprintf("init segment built by SetAVCDescriptor does not decode: %v %v", err, pi), w)
		return
	}
	trak := f.Init.Moov.Trak
	stsd := trak.Mdia.Minf.Stbl.Stsd
	if stsd.AvcX == nil || stsd.AvcX.AvcC == nil {
		c.Violation("avc.init/no-avcC", "no avcX/avcC in the decoded init segment", w)
		return
	}
	wd, ht := want["#Width"], want["#Height"]
	if wd < 65536 && ht < 65536 {
		if int64(stsd.AvcX.Width) != wd || int64(stsd.AvcX.Height) != ht || int64(trak.Tkhd.Width>>16) != wd || int64(trak.Tkhd.Height>>16) != ht {
			c.Violation("avc.init/width-height", fmt.Sprintf("sample entry %dx%d, tkhd %dx%d, cropping formula gives %dx%d", stsd.AvcX.Width, stsd.AvcX.Height,
				trak.Tkhd.Width>>16, trak.Tkhd.Height>>16, wd, ht), w)
		}
	}
	if !sameNALs(stsd.AvcX.AvcC.SPSnalus, spsN) || !sameNALs(stsd.AvcX.AvcC.PPSnalus, ppsN) {
		c.Violation("avc.init/nalus", "avcC of the init segment does not carry the parameter sets verbatim", w)
	}
}

// ---------------------------------------------------------------------------
// generation of one AVC case: a small "stream context" with several SPSs,
// PPSs (ids chosen so that pps id != sps id occurs) and slices.

func distinctIDs(r *runner.Rand, n, max int) []uint64 {
	seen := map[int]bool{}
	var out []uint64
	for len(out) < n {
		v := r.Intn(max)
		if r.Chance(1, 3) {
			v = r.PickInt(0, 1, max-1)
		}
		if !seen[v] {
			seen[v] = true
			out = append(out, uint64(v))
		}
	}
	return out
}

func avcSPSHazards(s *h264.SPS) []string {
	if s.VUI != nil && s.VUI.AspectRatioInfoPresent && s.VUI.AspectRatioIdc == 0 {
		return []string{"vui.aspect_ratio_idc=0(Unspecified)-rejected"}
	}
	return nil
}

func avcPPSHazards(p *h264.PPS) []string {
	var h []string
	if p.NumSliceGroupsMinus1 > 0 && p.SliceGroupMapType == 2 {
		h = append(h, "slice_group_map_type=2")
	}
	if p.NumSliceGroupsMinus1 > 0 && p.SliceGroupMapType == 6 {
		h = append(h, "slice_group_map_type=6")
	}
	if p.HasExt && p.PicScalingMatrixPresent && !p.Transform8x8Mode {
		h = append(h, "pic_scaling_matrix_present_flag=1,transform_8x8_mode_flag=0")
	}
	return h
}

func avcSliceHazards(sps *h264.SPS, pps *h264.PPS) []string {
	var h []string
	if pps.ID != pps.SPSID {
		h = append(h, "pps_id!=sps_id")
	}
	if pps.NumSliceGroupsMinus1 > 0 && pps.SliceGroupMapType >= 3 && pps.SliceGroupMapType <= 5 {
		h = append(h, "slice_group_change_cycle(slice_group_map_type=3..5)")
	}
	return h
}

func runAvc(c *runner.Ctx) {
	r := c.Rand
	nSPS := r.Range(1, 3)
	spsIDs := distinctIDs(r, nSPS, 32)
	var spsRecs []*h264.SPS
	var spsCoded []*h264.Coded
	spsMap := map[uint32]*avc.SPS{}
	spsUsable := map[uint64]bool{}
	var hashParts [][]byte
	for i := 0; i < nSPS; i++ {
		s := h264.GenSPS(r, spsIDs[i], h264.GenOpt{NoAspectIdc0: !r.Chance(1, 6), SmallPicture: r.Chance(1, 2)})
		cd := s.Encode(uint(r.Range(1, 3)))
		spsRecs = append(spsRecs, s)
		spsCoded = append(spsCoded, cd)
		hashParts = append(hashParts, cd.NAL)
		seenBranches(c, "avc.sps.branch", cd.Branches)
		w := &witness{Codec: "avc", Kind: "sps", NAL: hx(cd.NAL), Want: cd.Elems, Hazards: avcSPSHazards(s), Branches: cd.Branches}
		lib, usable := checkAvcSPS(c, w)
		if lib != nil && usable {
			spsMap[uint32(s.ID)] = lib
			spsUsable[s.ID] = true
		} else {
			c.Count("avc.sps.unusable_for_dependents", 1)
		}
		if c.WantSample() && i == 0 {
			c.Sample(map[string]interface{}{"codec": "avc", "kind": "sps", "nal": hx(cd.NAL), "branches": cd.Branches, "elements": len(cd.Elems)})
		}
	}
	// PPSs
	nPPS := r.Range(1, 4)
	ppsIDs := distinctIDs(r, nPPS, 256)
	var ppsRecs []*h264.PPS
	var ppsCoded []*h264.Coded
	ppsMap := map[uint32]*avc.PPS{}
	ppsUsable := map[uint64]bool{}
	used := map[uint64]bool{}
	for i := 0; i < nPPS; i++ {
		si := r.Intn(nSPS)
		id := ppsIDs[i]
		switch {
		case r.Chance(1, 3) && !used[spsRecs[si].ID]:
			id = spsRecs[si].ID // pps id == sps id
		case r.Chance(1, 3) && nSPS > 1 && !used[spsRecs[(si+1)%nSPS].ID]:
			id = spsRecs[(si+1)%nSPS].ID // the id of another SPS
		}
		if used[id] {
			continue
		}
		used[id] = true
		p := h264.GenPPS(r, id, spsRecs[si], h264.PPSOpt{NoSliceGroups: r.Chance(1, 3), SliceGroupIdRuns: r.Chance(1, 2)})
		cd := p.Encode(spsRecs[si], uint(r.Range(1, 3)))
		seenAvcPPSPeek(c, cd)
		ppsRecs = append(ppsRecs, p)
		ppsCoded = append(ppsCoded, cd)
		hashParts = append(hashParts, cd.NAL)
		seenBranches(c, "avc.pps.branch", cd.Branches)
		if !spsUsable[p.SPSID] {
			c.Count("avc.pps.skipped_sps_unusable", 1)
			continue
		}
		w := &witness{Codec: "avc", Kind: "pps", NAL: hx(cd.NAL), SPS: []string{hx(spsCoded[si].NAL)}, Want: cd.Elems, Hazards: avcPPSHazards(p), Branches: cd.Branches}
		lib, ok := checkAvcPPS(c, w, spsMap)
		if lib != nil && ok {
			ppsMap[uint32(p.ID)] = lib
			ppsUsable[p.ID] = true
		} else {
			c.Count("avc.pps.unusable_for_dependents", 1)
		}
	}
	// configuration record from the parameter sets of this context
	{
		var sl, pl []string
		for _, cd := range spsCoded {
			sl = append(sl, hx(cd.NAL))
		}
		for _, cd := range ppsCoded {
			pl = append(pl, hx(cd.NAL))
		}
		if r.Chance(1, 6) {
			// many parameter sets: numOfSequenceParameterSets is a 5-bit, numOfPictureParameterSets an 8-bit count
			pl = padList(pl, r.PickInt(30, 31, 32, 33, 63, 64, 65, 128, 254, 255))
			if r.Bool() {
				sl = padList(sl, r.PickInt(2, 15, 16, 30, 31))
			}
			c.Seen("avc.decconf", fmt.Sprintf("sps=%d,pps=%d", len(sl), len(pl)))
		}
		w := &witness{Codec: "avc", Kind: "decconf", SPS: sl, PPS: pl, Want: spsCoded[0].Elems, Hazards: avcSPSHazards(spsRecs[0])}
		if r.Chance(1, 8) {
			w.Size = 1
		}
		checkAvcDecConf(c, w)
	}
	// slices
	var spsHex, ppsHex []string
	for i, s := range spsRecs {
		if spsUsable[s.ID] {
			spsHex = append(spsHex, hx(spsCoded[i].NAL))
		}
	}
	for i, p := range ppsRecs {
		if ppsUsable[p.ID] {
			ppsHex = append(ppsHex, hx(ppsCoded[i].NAL))
		}
	}
	spsByID := map[uint64]*h264.SPS{}
	for _, s := range spsRecs {
		spsByID[s.ID] = s
	}
	nSlices := 8
	var prior []string
	var parsed []*witness
	for k := 0; k < nSlices; k++ {
		p := ppsRecs[r.Intn(len(ppsRecs))]
		if !ppsUsable[p.ID] {
			c.Count("avc.slice.skipped_pps_unusable", 1)
			continue
		}
		s := spsByID[p.SPSID]
		sl := h264.GenSlice(r, s, p)
		cd := sl.Encode(s, p)
		cd.Elems = append(cd.Elems, h264.Elem{Name: "#Size", Val: int64(cd.HeaderSize)})
		hashParts = append(hashParts, cd.NAL)
		seenBranches(c, "avc.slice.branch", cd.Branches)
		if len(cd.NAL) != len(cd.RBSP)+1 {
			c.Seen("avc.slice.branch", "nal-with-emulation-prevention-bytes")
			if cd.HeaderSize > 1+(cd.HeaderBits+7)/8 {
				c.Seen("avc.slice.branch", "emulation-prevention-inside-header")
			}
		}
		if p.ID != p.SPSID {
			c.Seen("avc.slice.branch", "pps_id!=sps_id")
			if _, other := spsMap[uint32(p.ID)]; other {
				c.Seen("avc.slice.branch", "pps_id!=sps_id,another-sps-has-the-pps-id")
			}
		} else {
			c.Seen("avc.slice.branch", "pps_id==sps_id")
		}
		w := &witness{Codec: "avc", Kind: "slice", NAL: hx(cd.NAL), SPS: spsHex, PPS: ppsHex, Want: cd.Elems, Size: cd.HeaderSize,
			Hazards: avcSliceHazards(s, p), Branches: cd.Branches, Prior: append([]string{}, prior...)}
		checkAvcSlice(c, w, spsMap, ppsMap)
		prior = append(prior, w.NAL)
		parsed = append(parsed, w)
		if c.WantSample() && k == 0 {
			c.Sample(map[string]interface{}{"codec": "avc", "kind": "slice", "nal": hx(cd.NAL), "header_bits": cd.HeaderBits, "header_size": cd.HeaderSize,
				"pps_id": p.ID, "sps_id": p.SPSID, "branches": cd.Branches})
		}
	}
	// second pass: every slice once more against the maps all the others have been parsed with
	for _, w := range parsed {
		w2 := *w
		w2.Prior = append([]string{}, prior...)
		c.Count("avc.slice.second_pass", 1)
		checkAvcSlice(c, &w2, spsMap, ppsMap)
	}
	c.Nontrivial(runner.Hash64(hashParts...))
}

// replayAvc re-runs a check from a saved witness.
func replayAvc(c *runner.Ctx, w *witness) {
	spsMap := map[uint32]*avc.SPS{}
	ppsMap := map[uint32]*avc.PPS{}
	for _, s := range unhxAll(w.SPS) {
		if sps, err := avc.ParseSPSNALUnit(s, true); err == nil && sps != nil {
			spsMap[sps.ParameterID] = sps
		}
	}
	for _, p := range unhxAll(w.PPS) {
		if pps, err := avc.ParsePPSNALUnit(p, spsMap); err == nil && pps != nil {
			ppsMap[pps.PicParameterSetID] = pps
		}
	}
	for _, n := range unhxAll(w.Prior) {
		c.Guard(func() { _, _ = avc.ParseSliceHeader(n, spsMap, ppsMap) })
	}
	switch w.Kind {
	case "sps":
		checkAvcSPS(c, w)
	case "pps":
		checkAvcPPS(c, w, spsMap)
	case "slice":
		checkAvcSlice(c, w, spsMap, ppsMap)
	case "decconf":
		checkAvcDecConf(c, w)
	}
}

// seenAvcPPSPeek records where the more_rbsp_data( ) decision of a PPS (7.3.2.2,
// right after redundant_pic_cnt_present_flag) falls: bit alignment, the
// emulation prevention bytes before/after it and what follows.
func seenAvcPPSPeek(c *runner.Ctx, cd *h264.Coded) {
	pos := -1
	for _, el := range cd.Elems {
		if el.Name == "redundant_pic_cnt_present_flag" {
			pos = el.Pos + 1
		}
	}
	if pos < 0 {
		return
	}
	before, after := epbsAfter(cd.NAL, 1, pos/8)
	more := "more-data"
	if cd.Has("pps/no-more-rbsp-data") {
		more = "trailing-bits"
	}
	c.Seen("avc.pps.more_rbsp_data", fmt.Sprintf("decision-at-bit%%8=%d,%s", pos%8, more))
	eb := "0"
	switch {
	case before >= 3:
		eb = "3+"
	case before > 0:
		eb = fmt.Sprint(before)
	}
	c.Seen("avc.pps.more_rbsp_data", "emulation-prevention-bytes-before="+eb)
	if after > 0 {
		c.Seen("avc.pps.more_rbsp_data", "emulation-prevention-bytes-after>0")
	}
	if before+after > 0 {
		c.Count("avc.pps.with_emulation_prevention", 1)
	}
}
