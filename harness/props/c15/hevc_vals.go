package c15

import (
	"fmt"

	"github.com/Eyevinn/mp4ff/hevc"

	"verifharness/ref/h264"
)

func ix(name string, i int) string { return h264.Idx(name, i) }

func hevcRPSVals(l *libVals, prefix string, st hevc.ShortTermRPS) {
	l.set(prefix+".num_negative_pics", int64(st.NumNegativePics))
	l.set(prefix+".num_positive_pics", int64(st.NumPositivePics))
	l.set(prefix+".NumDeltaPocs", int64(st.NumDeltaPocs))
	l.base(prefix + ".delta_poc_s0_minus1")
	l.base(prefix + ".delta_poc_s1_minus1")
	l.base(prefix + ".used_by_curr_pic_s0_flag")
	l.base(prefix + ".used_by_curr_pic_s1_flag")
	for i, v := range st.DeltaPocS0 {
		l.arr(prefix+".delta_poc_s0_minus1", i, int64(v)-1)
	}
	for i, v := range st.DeltaPocS1 {
		l.arr(prefix+".delta_poc_s1_minus1", i, int64(v)-1)
	}
	for i, v := range st.UsedByCurrPicS0 {
		l.arrb(prefix+".used_by_curr_pic_s0_flag", i, v)
	}
	for i, v := range st.UsedByCurrPicS1 {
		l.arrb(prefix+".used_by_curr_pic_s1_flag", i, v)
	}
}

func hevcSubHrdVals(l *libVals, p string, ents []hevc.SubLayerHrdParameters) {
	for _, n := range []string{"bit_rate_value_minus1", "cpb_size_value_minus1", "cpb_size_du_value_minus1", "bit_rate_du_value_minus1", "cbr_flag"} {
		l.base(p + "." + n)
	}
	for i, e := range ents {
		l.arr(p+".bit_rate_value_minus1", i, int64(e.BitRateValueMinus1))
		l.arr(p+".cpb_size_value_minus1", i, int64(e.CpbSizeValueMinus1))
		l.arr(p+".cpb_size_du_value_minus1", i, int64(e.CpbSizeDuValueMinus1))
		l.arr(p+".bit_rate_du_value_minus1", i, int64(e.BitRateDuValueMinus1))
		l.arrb(p+".cbr_flag", i, e.CbrFlag)
	}
	l.set("len("+p+")", int64(len(ents)))
}

func hevcSPSVals(s *hevc.SPS) *libVals {
	l := newLibVals()
	l.set("sps_video_parameter_set_id", int64(s.VpsID))
	l.set("sps_max_sub_layers_minus1", int64(s.MaxSubLayersMinus1))
	l.setb("sps_temporal_id_nesting_flag", s.TemporalIDNestingFlag)
	p := s.ProfileTierLevel
	l.set("general_profile_space", int64(p.GeneralProfileSpace))
	l.setb("general_tier_flag", p.GeneralTierFlag)
	l.set("general_profile_idc", int64(p.GeneralProfileIDC))
	l.set("general_profile_compatibility_flags", int64(p.GeneralProfileCompatibilityFlags))
	l.set("general_constraint_indicator_flags", int64(p.GeneralConstraintIndicatorFlags))
	l.setb("general_progressive_source_flag", p.GeneralProgressiveSourceFlag)
	l.setb("general_interlaced_source_flag", p.GeneralInterlacedSourceFlag)
	l.setb("general_non_packed_constraint_flag", p.GeneralNonPackedConstraintFlag)
	l.setb("general_frame_only_constraint_flag", p.GeneralFrameOnlyConstraintFlag)
	l.set("general_level_idc", int64(p.GeneralLevelIDC))
	for _, n := range []string{"sub_layer_profile_present_flag", "sub_layer_level_present_flag", "sub_layer_profile_space", "sub_layer_tier_flag", "sub_layer_profile_idc",
		"sub_layer_profile_compatibility_flags", "sub_layer_constraint_indicator_flags", "sub_layer_progressive_source_flag", "sub_layer_interlaced_source_flag",
		"sub_layer_non_packed_constraint_flag", "sub_layer_frame_only_constraint_flag", "sub_layer_level_idc"} {
		l.base(n)
	}
	for i, sl := range p.SubLayers {
		l.arrb("sub_layer_profile_present_flag", i, sl.ProfilePresentFlag)
		l.arrb("sub_layer_level_present_flag", i, sl.LevelPresentFlag)
		l.arr("sub_layer_profile_space", i, int64(sl.ProfileSpace))
		l.arrb("sub_layer_tier_flag", i, sl.TierFlag)
		l.arr("sub_layer_profile_idc", i, int64(sl.ProfileIDC))
		l.arr("sub_layer_profile_compatibility_flags", i, int64(sl.ProfileCompatibilityFlags))
		l.arr("sub_layer_constraint_indicator_flags", i, int64(sl.ConstraintFlags))
		l.arrb("sub_layer_progressive_source_flag", i, sl.ProgressiveSourceFlag)
		l.arrb("sub_layer_interlaced_source_flag", i, sl.InterlacedSourceFlag)
		l.arrb("sub_layer_non_packed_constraint_flag", i, sl.NonPackedConstraintFlag)
		l.arrb("sub_layer_frame_only_constraint_flag", i, sl.FrameOnlyConstraintFlag)
		l.arr("sub_layer_level_idc", i, int64(sl.LayerIDC))
	}
	l.set("sps_seq_parameter_set_id", int64(s.SpsID))
	l.set("chroma_format_idc", int64(s.ChromaFormatIDC))
	l.setb("separate_colour_plane_flag", s.SeparateColourPlaneFlag)
	l.set("pic_width_in_luma_samples", int64(s.PicWidthInLumaSamples))
	l.set("pic_height_in_luma_samples", int64(s.PicHeightInLumaSamples))
	l.setb("conformance_window_flag", s.ConformanceWindowFlag)
	l.set("conf_win_left_offset", int64(s.ConformanceWindow.LeftOffset))
	l.set("conf_win_right_offset", int64(s.ConformanceWindow.RightOffset))
	l.set("conf_win_top_offset", int64(s.ConformanceWindow.TopOffset))
	l.set("conf_win_bottom_offset", int64(s.ConformanceWindow.BottomOffset))
	w, h := s.ImageSize()
	l.set("Width", int64(w))
	l.set("Height", int64(h))
	l.set("bit_depth_luma_minus8", int64(s.BitDepthLumaMinus8))
	l.set("bit_depth_chroma_minus8", int64(s.BitDepthChromaMinus8))
	l.set("log2_max_pic_order_cnt_lsb_minus4", int64(s.Log2MaxPicOrderCntLsbMinus4))
	l.setb("sps_sub_layer_ordering_info_present_flag", s.SubLayerOrderingInfoPresentFlag)
	l.base("sps_max_dec_pic_buffering_minus1")
	l.base("sps_max_num_reorder_pics")
	l.base("sps_max_latency_increase_plus1")
	for i, o := range s.SubLayeringOrderingInfos {
		l.arr("sps_max_dec_pic_buffering_minus1", i, int64(o.MaxDecPicBufferingMinus1))
		l.arr("sps_max_num_reorder_pics", i, int64(o.MaxNumReorderPics))
		l.arr("sps_max_latency_increase_plus1", i, int64(o.MaxLatencyIncreasePlus1))
	}
	l.set("len(sub_layer_ordering_info)", int64(len(s.SubLayeringOrderingInfos)))
	l.set("log2_min_luma_coding_block_size_minus3", int64(s.Log2MinLumaCodingBlockSizeMinus3))
	l.set("log2_diff_max_min_luma_coding_block_size", int64(s.Log2DiffMaxMinLumaCodingBlockSize))
	l.set("log2_min_luma_transform_block_size_minus2", int64(s.Log2MinLumaTransformBlockSizeMinus2))
	l.set("log2_diff_max_min_luma_transform_block_size", int64(s.Log2DiffMaxMinLumaTransformBlockSize))
	l.set("max_transform_hierarchy_depth_inter", int64(s.MaxTransformHierarchyDepthInter))
	l.set("max_transform_hierarchy_depth_intra", int64(s.MaxTransformHierarchyDepthIntra))
	l.setb("scaling_list_enabled_flag", s.ScalingListEnabledFlag)
	l.setb("sps_scaling_list_data_present_flag", s.ScalingListDataPresentFlag)
	l.setb("amp_enabled_flag", s.AmpEnabledFlag)
	l.setb("sample_adaptive_offset_enabled_flag", s.SampleAdaptiveOffsetEnabledFlag)
	l.setb("pcm_enabled_flag", s.PCMEnabledFlag)
	l.set("pcm_sample_bit_depth_luma_minus1", int64(s.PcmSampleBitDepthLumaMinus1))
	l.set("pcm_sample_bit_depth_chroma_minus1", int64(s.PcmSampleBitDepthChromaMinus1))
	l.set("log2_min_pcm_luma_coding_block_size_minus3", int64(s.Log2MinPcmLumaCodingBlockSize))
	l.set("log2_diff_max_min_pcm_luma_coding_block_size", int64(s.Log2DiffMaxMinPcmLumaCodingBlockSize))
	l.setb("pcm_loop_filter_disabled_flag", s.PcmLoopFilterDisabledFlag)
	l.set("num_short_term_ref_pic_sets", int64(s.NumShortTermRefPicSets))
	for i, st := range s.ShortTermRefPicSets {
		hevcRPSVals(l, ix("st", i), st)
	}
	l.setb("long_term_ref_pics_present_flag", s.LongTermRefPicsPresentFlag)
	l.set("num_long_term_ref_pics_sps", int64(s.NumLongTermRefPics))
	l.base("lt_ref_pic_poc_lsb_sps")
	l.base("used_by_curr_pic_lt_sps_flag")
	for i, lt := range s.LongTermRefPicSets {
		l.arr("lt_ref_pic_poc_lsb_sps", i, int64(lt.PocLsbLt))
		l.arrb("used_by_curr_pic_lt_sps_flag", i, lt.UsedByCurrPicLtFlag)
	}
	l.setb("sps_temporal_mvp_enabled_flag", s.SpsTemporalMvpEnabledFlag)
	l.setb("strong_intra_smoothing_enabled_flag", s.StrongIntraSmoothingEnabledFlag)
	l.setb("vui_parameters_present_flag", s.VUIParametersPresentFlag)
	if v := s.VUI; v != nil {
		l.set("sar_width", int64(v.SampleAspectRatioWidth))
		l.set("sar_height", int64(v.SampleAspectRatioHeight))
		l.setb("overscan_info_present_flag", v.OverscanInfoPresentFlag)
		l.setb("overscan_appropriate_flag", v.OverscanAppropriateFlag)
		l.setb("video_signal_type_present_flag", v.VideoSignalTypePresentFlag)
		l.set("video_format", int64(v.VideoFormat))
		l.setb("video_full_range_flag", v.VideoFullRangeFlag)
		l.setb("colour_description_present_flag", v.ColourDescriptionFlag)
		l.set("colour_primaries", int64(v.ColourPrimaries))
		l.set("transfer_characteristics", int64(v.TransferCharacteristics))
		l.set("matrix_coeffs", int64(v.MatrixCoefficients))
		l.setb("chroma_loc_info_present_flag", v.ChromaLocInfoPresentFlag)
		l.set("chroma_sample_loc_type_top_field", int64(v.ChromaSampleLocTypeTopField))
		l.set("chroma_sample_loc_type_bottom_field", int64(v.ChromaSampleLocTypeBottomField))
		l.setb("neutral_chroma_indication_flag", v.NeutralChromaIndicationFlag)
		l.setb("field_seq_flag", v.FieldSeqFlag)
		l.setb("frame_field_info_present_flag", v.FrameFieldInfoPresentFlag)
		l.setb("default_display_window_flag", v.DefaultDisplayWindowFlag)
		l.set("def_disp_win_left_offset", int64(v.DefDispWinLeftOffset))
		l.set("def_disp_win_right_offset", int64(v.DefDispWinRightOffset))
		l.set("def_disp_win_top_offset", int64(v.DefDispWinTopOffset))
		l.set("def_disp_win_bottom_offset", int64(v.DefDispWinBottomOffset))
		l.setb("vui_timing_info_present_flag", v.TimingInfoPresentFlag)
		l.set("vui_num_units_in_tick", int64(v.NumUnitsInTick))
		l.set("vui_time_scale", int64(v.TimeScale))
		l.setb("vui_poc_proportional_to_timing_flag", v.PocProportionalToTimingFlag)
		l.set("vui_num_ticks_poc_diff_one_minus1", int64(v.NumTicksPocDiffOneMinus1))
		l.setb("vui_hrd_parameters_present_flag", v.HrdParametersPresentFlag)
		if hp := v.HrdParameters; hp != nil {
			l.setb("nal_hrd_parameters_present_flag", hp.NalHrdParametersPresentFlag)
			l.setb("vcl_hrd_parameters_present_flag", hp.VclHrdParametersPresentFlag)
			l.setb("sub_pic_hrd_params_present_flag", hp.SubPicHrdParamsPresentFlag)
			l.set("tick_divisor_minus2", int64(hp.TickDivisorMinus2))
			l.set("du_cpb_removal_delay_increment_length_minus1", int64(hp.DuCpbRemovalDelayIncrementLengthMinus1))
			l.setb("sub_pic_cpb_params_in_pic_timing_sei_flag", hp.SubPicCpbParamsInPicTimingSeiFlag)
			l.set("dpb_output_delay_du_length_minus1", int64(hp.DpbOutputDelayDuLengthMinus1))
			l.set("bit_rate_scale", int64(hp.BitRateScale))
			l.set("cpb_size_scale", int64(hp.CpbSizeScale))
			l.set("cpb_size_du_scale", int64(hp.CpbSizeDuScale))
			l.set("initial_cpb_removal_delay_length_minus1", int64(hp.InitialCpbRemovalDelayLengthMinus1))
			l.set("au_cpb_removal_delay_length_minus1", int64(hp.AuCpbRemovalDelayLengthMinus1))
			l.set("dpb_output_delay_length_minus1", int64(hp.DpbOutputDelayLengthMinus1))
			for _, n := range []string{"fixed_pic_rate_general_flag", "fixed_pic_rate_within_cvs_flag", "elemental_duration_in_tc_minus1", "low_delay_hrd_flag", "cpb_cnt_minus1"} {
				l.base(n)
			}
			for i, sl := range hp.SubLayerHrd {
				l.arrb("fixed_pic_rate_general_flag", i, sl.FixedPicRateGeneralFlag)
				l.arrb("fixed_pic_rate_within_cvs_flag", i, sl.FixedPicRateWithinCvsFlag)
				l.arr("elemental_duration_in_tc_minus1", i, int64(sl.ElementalDurationInTcMinus1))
				l.arrb("low_delay_hrd_flag", i, sl.LowDelayHrdFlag)
				l.arr("cpb_cnt_minus1", i, int64(sl.CpbCntMinus1))
				if hp.NalHrdParametersPresentFlag {
					hevcSubHrdVals(l, ix("nal_hrd", i), sl.NalHrdParameters)
				}
				if hp.VclHrdParametersPresentFlag {
					hevcSubHrdVals(l, ix("vcl_hrd", i), sl.VclHrdParameters)
				}
			}
		}
		l.setb("bitstream_restriction_flag", v.BitstreamRestrictionFlag)
		if br := v.BitstreamResctrictions; br != nil {
			l.setb("tiles_fixed_structure_flag", br.TilesFixedStructureFlag)
			l.setb("motion_vectors_over_pic_boundaries_flag", br.MVOverPicBoundariesFlag)
			l.setb("restricted_ref_pic_lists_flag", br.RestrictedRefsPicsListsFlag)
			l.set("min_spatial_segmentation_idc", int64(br.MinSpatialSegmentationIDC))
			l.set("max_bytes_per_pic_denom", int64(br.MaxBytesPerPicDenom))
			l.set("max_bits_per_min_cu_denom", int64(br.MaxBitsPerMinCuDenom))
			l.set("log2_max_mv_length_horizontal", int64(br.Log2MaxMvLengthHorizontal))
			l.set("log2_max_mv_length_vertical", int64(br.Log2MaxMvLengthVertical))
		}
	}
	l.setb("sps_extension_present_flag", s.ExtensionPresentFlag)
	l.setb("sps_range_extension_flag", s.RangeExtensionFlag)
	l.setb("sps_multilayer_extension_flag", s.MultilayerExtensionFlag)
	l.setb("sps_3d_extension_flag", s.D3ExtensionFlag)
	l.setb("sps_scc_extension_flag", s.SccExtensionFlag)
	l.set("sps_extension_4bits", int64(s.Extension4bits))
	if x := s.RangeExtension; x != nil {
		l.setb("transform_skip_rotation_enabled_flag", x.TransformSkipRotationEnabledFlag)
		l.setb("transform_skip_context_enabled_flag", x.TransformSkipContextEnabledFlag)
		l.setb("implicit_rdpcm_enabled_flag", x.ImplicitRdpcmEnabledFlag)
		l.setb("explicit_rdpcm_enabled_flag", x.ExplicitRdpcmEnabledFlag)
		l.setb("extended_precision_processing_flag", x.ExtendedPrecisionProcessingFlag)
		l.setb("intra_smoothing_disabled_flag", x.IntraSmoothingDisabledFlag)
		l.setb("high_precision_offsets_enabled_flag", x.HighPrecisionOffsetsEnabledFlag)
		l.setb("persistent_rice_adaptation_enabled_flag", x.PersistentRiceAdaptationEnabledFlag)
		l.setb("cabac_bypass_alignment_enabled_flag", x.CabacBypassAlignmentEnabledFlag)
	}
	if x := s.MultilayerExtension; x != nil {
		l.setb("inter_view_mv_vert_constraint_flag", x.InterViewMvVertConstraintFlag)
	}
	if x := s.D3Extension; x != nil {
		l.setb("iv_di_mc_enabled_flag[0]", x.IvDiMcEnabledFlag0)
		l.setb("iv_mv_scal_enabled_flag[0]", x.IvMvScalEnabledFlag0)
		l.set("log2_ivmc_sub_pb_size_minus3", int64(x.Og2IvmcSubPbSizeMinus3))
		l.setb("iv_res_pred_enabled_flag", x.IvResPredEnabledFlag)
		l.setb("depth_ref_enabled_flag", x.DepthRefEnabledFlag)
		l.setb("vsp_mc_enabled_flag", x.VspMcEnabledFlag)
		l.setb("dbbp_enabled_flag", x.DbbpEnabledFlag)
		l.setb("iv_di_mc_enabled_flag[1]", x.IvDiMcEnabledFlag1)
		l.setb("iv_mv_scal_enabled_flag[1]", x.IvMvScalEnabledFlag1)
		l.setb("tex_mc_enabled_flag", x.TexMcEnabledFlag)
		l.set("log2_texmc_sub_pb_size_minus3", int64(x.Log2TexmcSubPbSizeMinus3))
		l.setb("intra_contour_enabled_flag", x.IntraContourEnabledFlag)
		l.setb("intra_dc_only_wedge_enabled_flag", x.IntraDcOnlyWedgeEnabledFlag)
		l.setb("cqt_cu_part_pred_enabled_flag", x.CqtCuPartPredEnabledFlag)
		l.setb("inter_dc_only_enabled_flag", x.InterDcOnlyEnabledFlag)
		l.setb("skip_intra_enabled_flag", x.SkipIntraEnabledFlag)
	}
	if x := s.SccExtension; x != nil {
		l.setb("sps_curr_pic_ref_enabled_flag", x.CurrPicRefEnabledFlag)
		l.setb("palette_mode_enabled_flag", x.PaletteModeEnabledFlag)
		l.set("palette_max_size", int64(x.PaletteMaxSize))
		l.set("delta_palette_max_predictor_size", int64(x.DeltaPaletteMaxPredictorSize))
		l.setb("sps_palette_predictor_initializers_present_flag", x.PalettePredictorInitializersPresentFlag)
		l.set("sps_num_palette_predictor_initializers_minus1", int64(x.NumPalettePredictorInitializersMinus1))
		l.base("sps_palette_predictor_initializer")
		for c, row := range x.PalettePredictorInitializer {
			for i, v := range row {
				l.arr2("sps_palette_predictor_initializer", c, i, int64(v))
			}
		}
		l.set("len(sps_palette_predictor_initializer)", int64(len(x.PalettePredictorInitializer)))
		l.set("motion_vector_resolution_control_idc", int64(x.MotionVectorResolutionControlIdc))
		l.setb("intra_boundary_filtering_disabled_flag", x.IntraBoundaryFilteringDisabledFlag)
	}
	l.base("sps_extension_data_flag")
	for i, b := range s.ExtensionDataFlag {
		l.arrb("sps_extension_data_flag", i, b)
	}
	l.set("len(sps_extension_data_flag)", int64(len(s.ExtensionDataFlag)))
	return l
}

func hevcPPSVals(p *hevc.PPS) *libVals {
	l := newLibVals()
	l.set("pps_pic_parameter_set_id", int64(p.PicParameterSetID))
	l.set("pps_seq_parameter_set_id", int64(p.SeqParameterSetID))
	l.setb("dependent_slice_segments_enabled_flag", p.DependentSliceSegmentsEnabledFlag)
	l.setb("output_flag_present_flag", p.OutputFlagPresentFlag)
	l.set("num_extra_slice_header_bits", int64(p.NumExtraSliceHeaderBits))
	l.setb("sign_data_hiding_enabled_flag", p.SignDataHidingEnabledFlag)
	l.setb("cabac_init_present_flag", p.CabacInitPresentFlag)
	l.set("num_ref_idx_l0_default_active_minus1", int64(p.NumRefIdxL0DefaultActiveMinus1))
	l.set("num_ref_idx_l1_default_active_minus1", int64(p.NumRefIdxL1DefaultActiveMinus1))
	l.set("init_qp_minus26", int64(p.InitQpMinus26))
	l.setb("constrained_intra_pred_flag", p.ConstrainedIntraPredFlag)
	l.setb("transform_skip_enabled_flag", p.TransformSkipEnabledFlag)
	l.setb("cu_qp_delta_enabled_flag", p.CuQpDeltaEnabledFlag)
	l.set("diff_cu_qp_delta_depth", int64(p.DiffCuQpDeltaDepth))
	l.set("pps_cb_qp_offset", int64(p.CbQpOffset))
	l.set("pps_cr_qp_offset", int64(p.CrQpOffset))
	l.setb("pps_slice_chroma_qp_offsets_present_flag", p.SliceChromaQpOffsetsPresentFlag)
	l.setb("weighted_pred_flag", p.WeightedPredFlag)
	l.setb("weighted_bipred_flag", p.WeightedBipredFlag)
	l.setb("transquant_bypass_enabled_flag", p.TransquantBypassEnabledFlag)
	l.setb("tiles_enabled_flag", p.TilesEnabledFlag)
	l.setb("entropy_coding_sync_enabled_flag", p.EntropyCodingSyncEnabledFlag)
	l.set("num_tile_columns_minus1", int64(p.NumTileColumnsMinus1))
	l.set("num_tile_rows_minus1", int64(p.NumTileRowsMinus1))
	l.setb("uniform_spacing_flag", p.UniformSpacingFlag)
	l.base("column_width_minus1")
	l.base("row_height_minus1")
	for i, v := range p.ColumnWidthMinus1 {
		l.arr("column_width_minus1", i, int64(v))
	}
	for i, v := range p.RowHeightMinus1 {
		l.arr("row_height_minus1", i, int64(v))
	}
	l.set("len(column_width_minus1)", int64(len(p.ColumnWidthMinus1)))
	l.set("len(row_height_minus1)", int64(len(p.RowHeightMinus1)))
	l.setb("loop_filter_across_tiles_enabled_flag", p.LoopFilterAcrossTilesEnabledFlag)
	l.setb("pps_loop_filter_across_slices_enabled_flag", p.LoopFilterAcrossSlicesEnabledFlag)
	l.setb("deblocking_filter_control_present_flag", p.DeblockingFilterControlPresentFlag)
	l.setb("deblocking_filter_override_enabled_flag", p.DeblockingFilterOverrideEnabledFlag)
	l.setb("pps_deblocking_filter_disabled_flag", p.DeblockingFilterDisabledFlag)
	l.set("pps_beta_offset_div2", int64(p.BetaOffsetDiv2))
	l.set("pps_tc_offset_div2", int64(p.TcOffsetDiv2))
	l.setb("pps_scaling_list_data_present_flag", p.ScalingListDataPresentFlag)
	l.setb("lists_modification_present_flag", p.ListsModificationPresentFlag)
	l.set("log2_parallel_merge_level_minus2", int64(p.Log2ParallelMergeLevelMinus2))
	l.setb("slice_segment_header_extension_present_flag", p.SliceSegmentHeaderExtensionPresentFlag)
	l.setb("pps_extension_present_flag", p.ExtensionPresentFlag)
	l.setb("pps_range_extension_flag", p.RangeExtensionFlag)
	l.setb("pps_multilayer_extension_flag", p.MultilayerExtensionFlag)
	l.setb("pps_3d_extension_flag", p.D3ExtensionFlag)
	l.setb("pps_scc_extension_flag", p.SccExtensionFlag)
	l.set("pps_extension_4bits", int64(p.Extension4bits))
	if x := p.RangeExtension; x != nil {
		l.set("log2_max_transform_skip_block_size_minus2", int64(x.Log2MaxTransformSkipBlockSizeMinus2))
		l.setb("cross_component_prediction_enabled_flag", x.CrossComponentPredictionEnabledFlag)
		l.setb("chroma_qp_offset_list_enabled_flag", x.ChromaQpOffsetListEnabledFlag)
		l.set("diff_cu_chroma_qp_offset_depth", int64(x.DiffCuChromaQpOffsetDepth))
		l.set("chroma_qp_offset_list_len_minus1", int64(x.ChromaQpOffsetListLenMinus1))
		l.base("cb_qp_offset_list")
		l.base("cr_qp_offset_list")
		for i, v := range x.CbQpOffsetList {
			l.arr("cb_qp_offset_list", i, int64(v))
		}
		for i, v := range x.CrQpOffsetList {
			l.arr("cr_qp_offset_list", i, int64(v))
		}
		l.set("log2_sao_offset_scale_luma", int64(x.Log2SaoOffsetScaleLuma))
		l.set("log2_sao_offset_scale_chroma", int64(x.Log2SaoOffsetScaleChroma))
	}
	if x := p.MultilayerExtension; x != nil {
		l.setb("poc_reset_info_present_flag", x.PocResetInfoPresentFlag)
		l.setb("pps_infer_scaling_list_flag", x.InferScalingListFlag)
		l.set("pps_scaling_list_ref_layer_id", int64(x.ScalingListRefLayerId))
		l.set("num_ref_loc_offsets", int64(x.NumRefLocOffsets))
		l.base("ref_loc_offset_layer_id")
		for i, v := range x.RefLocOffsetLayerIds {
			l.arr("ref_loc_offset_layer_id", i, int64(v))
		}
		for _, n := range []string{"scaled_ref_layer_offset_present_flag", "scaled_ref_layer_left_offset", "scaled_ref_layer_top_offset", "scaled_ref_layer_right_offset",
			"scaled_ref_layer_bottom_offset", "ref_region_offset_present_flag", "ref_region_left_offset", "ref_region_top_offset", "ref_region_right_offset",
			"ref_region_bottom_offset", "resample_phase_set_present_flag", "phase_hor_luma", "phase_ver_luma", "phase_hor_chroma_plus8", "phase_ver_chroma_plus8"} {
			l.base(n)
		}
		for id, o := range x.RefLocOffsets {
			i := int(id)
			l.arrb("scaled_ref_layer_offset_present_flag", i, o.ScaledRefLayerOffsetPresentFlag)
			l.arr("scaled_ref_layer_left_offset", i, int64(o.ScaledRefLayerLeftOffset))
			l.arr("scaled_ref_layer_top_offset", i, int64(o.ScaledRefLayerTopOffset))
			l.arr("scaled_ref_layer_right_offset", i, int64(o.ScaledRefLayerRightOffset))
			l.arr("scaled_ref_layer_bottom_offset", i, int64(o.ScaledRefLayerBottomOffset))
			l.arrb("ref_region_offset_present_flag", i, o.RefRegionOffsetPresentFlag)
			l.arr("ref_region_left_offset", i, int64(o.RefRegionLeftOffset))
			l.arr("ref_region_top_offset", i, int64(o.RefRegionTopOffset))
			l.arr("ref_region_right_offset", i, int64(o.RefRegionRightOffset))
			l.arr("ref_region_bottom_offset", i, int64(o.RefRegionBottomOffset))
			l.arrb("resample_phase_set_present_flag", i, o.ResamplePhaseSetPresentFlag)
			l.arr("phase_hor_luma", i, int64(o.PhaseHorLuma))
			l.arr("phase_ver_luma", i, int64(o.PhaseVerLuma))
			l.arr("phase_hor_chroma_plus8", i, int64(o.PhaseHorChromaPlus8))
			l.arr("phase_ver_chroma_plus8", i, int64(o.PhaseVerChromaPlus8))
		}
		l.setb("colour_mapping_enabled_flag", x.ColourMappingEnabledFlag)
		if t := x.ColourMappingTable; t != nil {
			l.set("num_cm_ref_layers_minus1", int64(t.NumCmRefLayersMinus1))
			l.base("cm_ref_layer_id")
			for i, v := range t.RefLayerId {
				l.arr("cm_ref_layer_id", i, int64(v))
			}
			l.set("cm_octant_depth", int64(t.OctantDepth))
			l.set("cm_y_part_num_log2", int64(t.YPartNumLog2))
			l.set("luma_bit_depth_cm_input_minus8", int64(t.LumaBitDepthCmInputMinus8))
			l.set("chroma_bit_depth_cm_input_minus8", int64(t.ChromaBitDepthCmInputMinus8))
			l.set("luma_bit_depth_cm_output_minus8", int64(t.LumaBitDepthCmOutputMinus8))
			l.set("chroma_bit_depth_cm_output_minus8", int64(t.ChromaBitDepthCmOutputMinus8))
			l.set("cm_res_quant_bits", int64(t.ResQuantBits))
			l.set("cm_delta_flc_bits_minus1", int64(t.DeltaFlcBitsMinus1))
			l.set("cm_adapt_threshold_u_delta", int64(t.AdaptThresholdUDelta))
			l.set("cm_adapt_threshold_v_delta", int64(t.AdaptThresholdVDelta))
			l.base("coded_res_flag")
			l.base("res_coeff_q")
			l.base("res_coeff_r")
			l.base("res_coeff_s")
			for key, octs := range t.Octants {
				for j, o := range octs {
					l.setb(fmt.Sprintf("coded_res_flag[%s][%d]", key, j), o.CodedResFlag)
					for c, rc := range o.CodedRes {
						l.set(fmt.Sprintf("res_coeff_q[%s][%d][%d]", key, j, c), int64(rc.ResCoeffQ))
						l.set(fmt.Sprintf("res_coeff_r[%s][%d][%d]", key, j, c), int64(rc.ResCoeffR))
						l.setb(fmt.Sprintf("res_coeff_s[%s][%d][%d]", key, j, c), rc.ResCoeffS)
					}
				}
			}
			l.set("len(octants)", int64(len(t.Octants)))
		}
	}
	if x := p.D3Extension; x != nil {
		l.setb("dlts_present_flag", x.DltsPresentFlag)
		l.set("pps_depth_layers_minus1", int64(x.NumDepthLayersMinus1))
		l.set("pps_bit_depth_for_depth_layers_minus8", int64(x.BitDepthForDepthLayersMinus8))
		for _, n := range []string{"dlt_flag", "dlt_pred_flag", "dlt_val_flags_present_flag", "dlt_value_flag"} {
			l.base(n)
		}
		for i, d := range x.DepthLayers {
			l.arrb("dlt_flag", i, d.DltFlag)
			l.arrb("dlt_pred_flag", i, d.DltPredFlag)
			l.arrb("dlt_val_flags_present_flag", i, d.DltValFlagsPresentFlag)
			for j, b := range d.DltValueFlag {
				v := int64(0)
				if b {
					v = 1
				}
				l.arr2("dlt_value_flag", i, j, v)
			}
			if dd := d.DeltaDlt; dd != nil {
				pfx := ix("delta_dlt", i)
				l.set(pfx+".num_val_delta_dlt", int64(dd.NumValDeltaDlt))
				l.set(pfx+".max_diff", int64(dd.MaxDiff))
				l.set(pfx+".min_diff_minus1", int64(dd.MinDiffMinus1))
				l.set(pfx+".delta_dlt_val0", int64(dd.DeltaDltVal0))
				l.base(pfx + ".delta_val_diff_minus_min")
				for k, v := range dd.DeltaValDiffMinusMin {
					l.arr(pfx+".delta_val_diff_minus_min", k, int64(v))
				}
			}
		}
	}
	if x := p.SccExtension; x != nil {
		l.setb("pps_curr_pic_ref_enabled_flag", x.CurrPicRefEnabledFlag)
		l.setb("residual_adaptive_colour_transform_enabled_flag", x.ResidualAdaptiveColourTransformEnabledFlag)
		l.setb("pps_slice_act_qp_offsets_present_flag", x.SliceActQpOffsetsPresentFlag)
		l.set("pps_act_y_qp_offset_plus5", int64(x.ActYQpOffsetPlus5))
		l.set("pps_act_cb_qp_offset_plus5", int64(x.ActCbQpOffsetPlus5))
		l.set("pps_act_cr_qp_offset_plus3", int64(x.ActCrQpOffsetPlus3))
		l.setb("pps_palette_predictor_initializers_present_flag", x.PalettePredictorInitializersPresentFlag)
		l.set("pps_num_palette_predictor_initializers", int64(x.NumPalettePredictorInitializers))
		l.setb("monochrome_palette_flag", x.MonochromePaletteFlag)
		l.set("luma_bit_depth_entry_minus8", int64(x.LumaBitDepthEntryMinus8))
		l.set("chroma_bit_depth_entry_minus8", int64(x.ChromaBitDepthEntryMinus8))
		l.base("pps_palette_predictor_initializer")
		for c, row := range x.PalettePredictorInitializer {
			for i, v := range row {
				l.arr2("pps_palette_predictor_initializer", c, i, int64(v))
			}
		}
		l.set("len(pps_palette_predictor_initializer)", int64(len(x.PalettePredictorInitializer)))
	}
	l.base("pps_extension_data_flag")
	for i, b := range p.ExtensionDataFlag {
		l.arrb("pps_extension_data_flag", i, b)
	}
	l.set("len(pps_extension_data_flag)", int64(len(p.ExtensionDataFlag)))
	return l
}

func hevcSliceVals(s *hevc.SliceHeader) *libVals {
	l := newLibVals()
	l.setb("first_slice_segment_in_pic_flag", s.FirstSliceSegmentInPicFlag)
	l.setb("no_output_of_prior_pics_flag", s.NoOutputOfPriorPicsFlag)
	l.set("slice_pic_parameter_set_id", int64(s.PicParameterSetId))
	l.setb("dependent_slice_segment_flag", s.DependentSliceSegmentFlag)
	l.set("slice_segment_address", int64(s.SegmentAddress))
	l.set("slice_type", int64(s.SliceType))
	l.setb("pic_output_flag", s.PicOutputFlag)
	l.set("colour_plane_id", int64(s.ColourPlaneId))
	l.set("slice_pic_order_cnt_lsb", int64(s.PicOrderCntLsb))
	l.setb("short_term_ref_pic_set_sps_flag", s.ShortTermRefPicSetSpsFlag)
	if !s.ShortTermRefPicSetSpsFlag {
		hevcRPSVals(l, "st", s.ShortTermRefPicSet)
	}
	l.set("short_term_ref_pic_set_idx", int64(s.ShortTermRefPicSetIdx))
	l.set("num_long_term_sps", int64(s.NumLongTermSps))
	l.set("num_long_term_pics", int64(s.NumLongTermPics))
	for _, n := range []string{"lt.PocLsbLt", "lt.UsedByCurrPicLt", "poc_lsb_lt", "used_by_curr_pic_lt_flag", "delta_poc_msb_present_flag", "delta_poc_msb_cycle_lt"} {
		l.base(n)
	}
	for i, lt := range s.LongTermRefPicSets {
		l.arr("lt.PocLsbLt", i, int64(lt.PocLsbLt))
		l.arrb("lt.UsedByCurrPicLt", i, lt.UsedByCurrPicLtFlag)
		l.arr("poc_lsb_lt", i, int64(lt.PocLsbLt))
		l.arrb("used_by_curr_pic_lt_flag", i, lt.UsedByCurrPicLtFlag)
		l.arrb("delta_poc_msb_present_flag", i, lt.DeltaPocMsbPresentFlag)
		l.arr("delta_poc_msb_cycle_lt", i, int64(lt.DeltaPocMsbCycleLt))
	}
	l.set("len(lt)", int64(len(s.LongTermRefPicSets)))
	l.setb("slice_temporal_mvp_enabled_flag", s.TemporalMvpEnabledFlag)
	l.setb("slice_sao_luma_flag", s.SaoLumaFlag)
	l.setb("slice_sao_chroma_flag", s.SaoChromaFlag)
	l.setb("num_ref_idx_active_override_flag", s.NumRefIdxActiveOverrideFlag)
	l.set("num_ref_idx_l0_active_minus1", int64(s.NumRefIdxL0ActiveMinus1))
	l.set("num_ref_idx_l1_active_minus1", int64(s.NumRefIdxL1ActiveMinus1))
	// ref_pic_lists_modification( ): when the reference coded it the parser must expose it
	l.base("list_entry_l0")
	l.base("list_entry_l1")
	if m := s.RefPicListsModification; m != nil {
		l.setb("ref_pic_list_modification_flag_l0", m.RefPicListModificationFlagL0)
		l.setb("ref_pic_list_modification_flag_l1", m.RefPicListModificationFlagL1)
		for i, v := range m.ListEntryL0 {
			l.arr("list_entry_l0", i, int64(v))
		}
		for i, v := range m.ListEntryL1 {
			l.arr("list_entry_l1", i, int64(v))
		}
		l.set("len(list_entry_l0)", int64(len(m.ListEntryL0)))
		l.set("len(list_entry_l1)", int64(len(m.ListEntryL1)))
	} else {
		l.set("ref_pic_list_modification_flag_l0", -1)
		l.set("ref_pic_list_modification_flag_l1", -1)
	}
	l.setb("mvd_l1_zero_flag", s.MvdL1ZeroFlag)
	l.setb("cabac_init_flag", s.CabacInitFlag)
	l.setb("collocated_from_l0_flag", s.CollocatedFromL0Flag)
	l.set("collocated_ref_idx", int64(s.CollocatedRefIdx))
	for _, x := range []string{"l0", "l1"} {
		for _, n := range []string{"luma_weight_%s_flag", "chroma_weight_%s_flag", "delta_luma_weight_%s", "luma_offset_%s", "delta_chroma_weight_%s", "delta_chroma_offset_%s"} {
			l.base(fmt.Sprintf(n, x))
		}
	}
	if w := s.PredWeightTable; w != nil {
		l.set("luma_log2_weight_denom", int64(w.LumaLog2WeightDenom))
		l.set("delta_chroma_log2_weight_denom", int64(w.DeltaChromaLog2WeightDenom))
		tab := func(x string, ws []hevc.WeightingFactors) {
			for i, f := range ws {
				l.arrb("luma_weight_"+x+"_flag", i, f.LumaWeightFlag)
				l.arrb("chroma_weight_"+x+"_flag", i, f.ChromaWeightFlag)
				l.arr("delta_luma_weight_"+x, i, int64(f.DeltaLumaWeight))
				l.arr("luma_offset_"+x, i, int64(f.LumaOffset))
				for j := 0; j < 2; j++ {
					l.arr2("delta_chroma_weight_"+x, i, j, int64(f.DeltaChromaWeight[j]))
					l.arr2("delta_chroma_offset_"+x, i, j, int64(f.DeltaChromaOffset[j]))
				}
			}
			l.set("len(weights_"+x+")", int64(len(ws)))
		}
		tab("l0", w.WeightsL0)
		tab("l1", w.WeightsL1)
	} else {
		l.set("luma_log2_weight_denom", -1)
	}
	l.set("five_minus_max_num_merge_cand", int64(s.FiveMinusMaxNumMergeCand))
	l.setb("use_integer_mv_flag", s.UseIntegerMvFlag)
	l.set("slice_qp_delta", int64(s.QpDelta))
	l.set("slice_cb_qp_offset", int64(s.CbQpOffset))
	l.set("slice_cr_qp_offset", int64(s.CrQpOffset))
	l.set("slice_act_y_qp_offset", int64(s.ActYQpOffset))
	l.set("slice_act_cb_qp_offset", int64(s.ActCbQpOffset))
	l.set("slice_act_cr_qp_offset", int64(s.ActCrQpOffset))
	l.setb("cu_chroma_qp_offset_enabled_flag", s.CuChromaQpOffsetEnabledFlag)
	l.setb("deblocking_filter_override_flag", s.DeblockingFilterOverrideFlag)
	l.setb("slice_deblocking_filter_disabled_flag", s.DeblockingFilterDisabledFlag)
	l.set("slice_beta_offset_div2", int64(s.BetaOffsetDiv2))
	l.set("slice_tc_offset_div2", int64(s.TcOffsetDiv2))
	l.setb("slice_loop_filter_across_slices_enabled_flag", s.LoopFilterAcrossSlicesEnabledFlag)
	l.set("num_entry_point_offsets", int64(s.NumEntryPointOffsets))
	l.set("offset_len_minus1", int64(s.OffsetLenMinus1))
	l.base("entry_point_offset_minus1")
	for i, v := range s.EntryPointOffsetMinus1 {
		l.arr("entry_point_offset_minus1", i, int64(v))
	}
	l.set("slice_segment_header_extension_length", int64(s.SegmentHeaderExtensionLength))
	l.base("slice_segment_header_extension_data_byte")
	for i, v := range s.SegmentHeaderExtensionDataByte {
		l.arr("slice_segment_header_extension_data_byte", i, int64(v))
	}
	l.set("Size", int64(s.Size))
	return l
}
