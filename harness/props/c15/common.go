package c15

import (
	"encoding/hex"
	"fmt"
	"sort"
	"strings"

	"verifharness/ref/h264"
	"verifharness/runner"
)

// witness is the self-contained description of one checked unit: the NAL
// units handed to the library and what the reference serializer coded.
type witness struct {
	Codec    string      `json:"codec"` // avc | hevc
	Kind     string      `json:"kind"`  // sps | pps | slice | decconf
	NAL      string      `json:"nal"`   // hex of the unit under test
	SPS      []string    `json:"sps,omitempty"`
	PPS      []string    `json:"pps,omitempty"`
	VPS      []string    `json:"vps,omitempty"`
	Want     []h264.Elem `json:"want"`
	Size     int         `json:"size,omitempty"` // slice header: bytes the header occupies
	Hazards  []string    `json:"hazards,omitempty"`
	Prior    []string    `json:"prior_slices,omitempty"` // slices parsed earlier against the same parameter-set maps, in order
	Branches []string    `json:"branches,omitempty"`
	Record   interface{} `json:"record,omitempty"` // the value record (informational)
}

func hx(b []byte) string { return hex.EncodeToString(b) }

func unhx(s string) []byte {
	b, _ := hex.DecodeString(s)
	return b
}

func unhxAll(ss []string) [][]byte {
	out := make([][]byte, len(ss))
	for i, s := range ss {
		out[i] = unhx(s)
	}
	return out
}

// libVals is what a parsed library struct exposes, keyed by the syntax
// element names the reference serializers use.
type libVals struct {
	m     map[string]int64
	bases map[string]bool // indexed names: base registered even when the slice is empty
}

func newLibVals() *libVals { return &libVals{m: map[string]int64{}, bases: map[string]bool{}} }

func (l *libVals) set(name string, v int64) { l.m[name] = v }
func (l *libVals) setb(name string, b bool) {
	if b {
		l.m[name] = 1
	} else {
		l.m[name] = 0
	}
}
func (l *libVals) base(name string) { l.bases[name] = true }
func (l *libVals) arr(name string, i int, v int64) {
	l.bases[name] = true
	l.m[h264.Idx(name, i)] = v
}
func (l *libVals) arrb(name string, i int, b bool) {
	v := int64(0)
	if b {
		v = 1
	}
	l.arr(name, i, v)
}
func (l *libVals) arr2(name string, i, j int, v int64) {
	l.bases[name] = true
	l.m[h264.Idx2(name, i, j)] = v
}

type mismatch struct {
	Field   string
	Want    int64
	Got     int64
	Missing bool
}

func (m mismatch) String() string {
	if m.Missing {
		return fmt.Sprintf("%s: coded %d, parser exposes no such entry", m.Field, m.Want)
	}
	return fmt.Sprintf("%s: coded %d, parsed %d", m.Field, m.Want, m.Got)
}

// baseName strips the trailing index groups: "st[3].delta_poc_s0_minus1[2]" -> "st[3].delta_poc_s0_minus1".
func baseName(n string) string {
	for strings.HasSuffix(n, "]") {
		i := strings.LastIndexByte(n, '[')
		if i < 0 {
			break
		}
		n = n[:i]
	}
	return n
}

// keyName strips every index group (finding keys must not vary per input).
func keyName(n string) string {
	var sb strings.Builder
	depth := 0
	for _, ch := range n {
		switch {
		case ch == '[':
			depth++
		case ch == ']':
			depth--
		case depth == 0:
			sb.WriteRune(ch)
		}
	}
	return sb.String()
}

// compare checks every coded element (and derived quantity) the library
// exposes. Elements the library does not expose are skipped; elements that were
// not coded are never looked at (inferred defaults are outside the statement).
func compare(want []h264.Elem, lib *libVals) (mm []mismatch, compared int) {
	last := map[string]int{}
	for i, e := range want {
		last[e.Name] = i
	}
	for i, e := range want {
		if last[e.Name] != i {
			continue
		}
		name := strings.TrimPrefix(e.Name, "#")
		got, ok := lib.m[name]
		if !ok {
			if strings.HasSuffix(name, "]") && lib.bases[baseName(name)] {
				mm = append(mm, mismatch{Field: name, Want: e.Val, Missing: true})
				compared++
			}
			continue
		}
		compared++
		if got != e.Val {
			mm = append(mm, mismatch{Field: name, Want: e.Val, Got: got})
		}
	}
	return mm, compared
}

func describe(mm []mismatch) string {
	var sb strings.Builder
	for i, m := range mm {
		if i == 6 {
			fmt.Fprintf(&sb, "; ... (%d mismatches)", len(mm))
			break
		}
		if i > 0 {
			sb.WriteString("; ")
		}
		sb.WriteString(m.String())
	}
	return sb.String()
}

// report files the mismatches of one unit. With a hazard present (a syntactic
// condition under which a defect of the parser is suspected/confirmed) the
// finding is keyed by the first hazard; otherwise by the first mismatching field.
func report(c *runner.Ctx, w *witness, prefix string, mm []mismatch, keyOf func(m mismatch) string) {
	if len(mm) == 0 {
		return
	}
	var key string
	if len(w.Hazards) > 0 {
		key = prefix + "/" + w.Hazards[0]
	} else if keyOf != nil {
		key = keyOf(mm[0])
	}
	if key == "" {
		key = prefix + "/field/" + keyName(mm[0].Field)
	}
	c.Violation(key, fmt.Sprintf("%s %s NAL %s: %s", w.Codec, w.Kind, clip(w.NAL, 120), describe(mm)), w)
}

func reportErr(c *runner.Ctx, w *witness, prefix string, err error) {
	key := prefix + "/rejected-valid-unit"
	if len(w.Hazards) > 0 {
		key = prefix + "/" + w.Hazards[0]
	}
	c.Violation(key, fmt.Sprintf("%s %s NAL %s: syntactically valid unit rejected: %v", w.Codec, w.Kind, clip(w.NAL, 120), err), w)
}

func clip(s string, n int) string {
	if len(s) > n {
		return s[:n] + "..."
	}
	return s
}

func seenBranches(c *runner.Ctx, cat string, branches []string) {
	for _, b := range branches {
		c.Seen(cat, b)
	}
}

func sortedUnique(ss []string) []string {
	m := map[string]bool{}
	for _, s := range ss {
		m[s] = true
	}
	out := make([]string, 0, len(m))
	for s := range m {
		out = append(out, s)
	}
	sort.Strings(out)
	return out
}

// hazardOrder gives a stable priority to hazards (the first one keys the finding).
func orderHazards(h []string) []string {
	sort.Strings(h)
	return h
}

// codeNum returns the ue(v) codeNum of a signed value mapped by se(v).
func codeNum(v int64) int64 {
	if v > 0 {
		return 2*v - 1
	}
	return -2 * v
}

// epbsAfter counts the emulation prevention bytes of a NAL unit (header of hdr
// bytes + escaped RBSP) that precede RBSP bytes with index >= fromByte, and
// those before (read from the escaped bytes themselves: a 03 after two zero bytes).
func epbsAfter(nal []byte, hdr, fromByte int) (before, after int) {
	zeros, u := 0, 0
	for i := hdr; i < len(nal); i++ {
		b := nal[i]
		if zeros >= 2 && b == 3 {
			zeros = 0
			if u >= fromByte {
				after++
			} else {
				before++
			}
			continue
		}
		if b == 0 {
			zeros++
		} else {
			zeros = 0
		}
		u++
	}
	return
}

// seenExtData records the shape of an extension data run: its length class and
// the emulation prevention bytes inside it.
func seenExtData(c *runner.Ctx, cat string, nal []byte, startBit, nFlags int) {
	if startBit < 0 {
		return
	}
	_, in := epbsAfter(nal, 2, startBit/8)
	lc := "0"
	switch {
	case nFlags >= 64:
		lc = "64+"
	case nFlags >= 24:
		lc = "24-63"
	case nFlags >= 8:
		lc = "8-23"
	case nFlags >= 1:
		lc = "1-7"
	}
	c.Seen(cat, "flags="+lc)
	ec := "0"
	switch {
	case in >= 3:
		ec = "3+"
	case in > 0:
		ec = fmt.Sprint(in)
	}
	c.Seen(cat, "emulation-prevention-bytes-inside="+ec)
	c.Seen(cat, fmt.Sprintf("start-bit%%8=%d", startBit%8))
	if in > 0 {
		c.Count("ext_data.runs_with_emulation_prevention", 1)
	}
}
