package c15

import (
	"bytes"
	"fmt"

	"github.com/Eyevinn/mp4ff/bits"
	"github.com/Eyevinn/mp4ff/hevc"
	"github.com/Eyevinn/mp4ff/mp4"

	"verifharness/ref/h265"
	"verifharness/runner"
)

const keyLatencyTrunc = "hevc.sps/sps_max_latency_increase_plus1>255/truncated-to-byte"

func hevcSPSKey(m mismatch) string {
	if keyName(m.Field) == "sps_max_latency_increase_plus1" && !m.Missing && m.Want > 255 && m.Got == m.Want&0xff {
		return keyLatencyTrunc
	}
	return "hevc.sps/field/" + keyName(m.Field)
}

func checkHevcSPS(c *runner.Ctx, w *witness) (*hevc.SPS, bool) {
	nal := unhx(w.NAL)
	var sps *hevc.SPS
	var err error
	pi := c.Guard(func() { sps, err = hevc.ParseSPSNALUnit(nal) })
	c.Count("hevc.sps.parsed", 1)
	if pi != nil {
		c.Violation(runner.PanicKey("hevc.sps/panic", pi), "hevc.ParseSPSNALUnit panicked on a valid SPS: "+pi.Value, w)
		return nil, false
	}
	if err != nil || sps == nil {
		reportErr(c, w, "hevc.sps", fmt.Errorf("hevc.ParseSPSNALUnit: %v", err))
		return nil, false
	}
	mm, n := compare(w.Want, hevcSPSVals(sps))
	c.Count("fields_compared", int64(n))
	keys := reportGrouped(c, w, "hevc.sps", mm, hevcSPSKey)
	usable := true
	for _, k := range keys {
		if k != keyLatencyTrunc {
			usable = false
		}
	}
	// codec string parsed back
	want := wantMap(w.Want)
	var cs string
	pi = c.Guard(func() { cs = hevc.CodecString("hvc1", sps) })
	if pi != nil {
		c.Violation(runner.PanicKey("hevc.codecstring/panic", pi), "hevc.CodecString panicked: "+pi.Value, w)
		return sps, usable
	}
	p, ok := h265.ParseCodecString(cs)
	tier := int64(0)
	if p.Tier {
		tier = 1
	}
	if !ok || p.Entry != "hvc1" || int64(p.ProfileSpace) != want["general_profile_space"] || int64(p.ProfileIdc) != want["general_profile_idc"] ||
		int64(p.Compat) != want["general_profile_compatibility_flags"] || tier != want["general_tier_flag"] || int64(p.LevelIdc) != want["general_level_idc"] ||
		int64(p.Constraint) != want["general_constraint_indicator_flags"] {
		c.Violation("hevc.codecstring", fmt.Sprintf("CodecString = %q reads back as %+v (ok=%v); SPS codes space %d idc %d compat %#x tier %d level %d constraints %#012x", cs, p, ok,
			want["general_profile_space"], want["general_profile_idc"], want["general_profile_compatibility_flags"], want["general_tier_flag"], want["general_level_idc"],
			want["general_constraint_indicator_flags"]), w)
	}
	return sps, usable
}

func hevcPPSKey(m mismatch) string {
	switch keyName(m.Field) {
	case "coded_res_flag", "res_coeff_q", "res_coeff_r", "res_coeff_s", "len(octants)":
		return "hevc.pps/colour_mapping_octants/split_octant_flag=1/octants-dropped"
	}
	return "hevc.pps/field/" + keyName(m.Field)
}

func checkHevcPPS(c *runner.Ctx, w *witness, spsMap map[uint32]*hevc.SPS) (*hevc.PPS, bool) {
	nal := unhx(w.NAL)
	var pps *hevc.PPS
	var err error
	pi := c.Guard(func() { pps, err = hevc.ParsePPSNALUnit(nal, spsMap) })
	c.Count("hevc.pps.parsed", 1)
	if pi != nil {
		c.Violation(runner.PanicKey("hevc.pps/panic", pi), "hevc.ParsePPSNALUnit panicked on a valid PPS: "+pi.Value, w)
		return nil, false
	}
	if err != nil || pps == nil {
		reportErr(c, w, "hevc.pps", fmt.Errorf("hevc.ParsePPSNALUnit: %v", err))
		return nil, false
	}
	mm, n := compare(w.Want, hevcPPSVals(pps))
	c.Count("fields_compared", int64(n))
	keys := reportGrouped(c, w, "hevc.pps", mm, hevcPPSKey)
	usable := true
	for _, k := range keys {
		if k != "hevc.pps/colour_mapping_octants/split_octant_flag=1/octants-dropped" {
			usable = false
		}
	}
	return pps, usable
}

func hevcSliceKey(m mismatch) string { return "hevc.slice/field/" + keyName(m.Field) }

func checkHevcSlice(c *runner.Ctx, w *witness, spsMap map[uint32]*hevc.SPS, ppsMap map[uint32]*hevc.PPS) {
	nal := unhx(w.NAL)
	var sh *hevc.SliceHeader
	var err error
	pi := c.Guard(func() { sh, err = hevc.ParseSliceHeader(nal, spsMap, ppsMap) })
	c.Count("hevc.slice.parsed", 1)
	if pi != nil {
		key := runner.PanicKey("hevc.slice/panic", pi)
		if len(w.Hazards) > 0 {
			key = "hevc.slice/" + w.Hazards[0]
		}
		c.Violation(key, "hevc.ParseSliceHeader panicked on a valid slice segment: "+pi.Value, w)
		return
	}
	if err != nil || sh == nil {
		reportErr(c, w, "hevc.slice", fmt.Errorf("hevc.ParseSliceHeader: %v", err))
		return
	}
	mm, n := compare(w.Want, hevcSliceVals(sh))
	c.Count("fields_compared", int64(n))
	reportGrouped(c, w, "hevc.slice", mm, hevcSliceKey)
}

// checkHevcDecConf: w.VPS/SPS/PPS are the parameter sets; w.Want the elements of w.SPS[0].
func checkHevcDecConf(c *runner.Ctx, w *witness) {
	vpsN, spsN, ppsN := unhxAll(w.VPS), unhxAll(w.SPS), unhxAll(w.PPS)
	want := wantMap(w.Want)
	var rec hevc.DecConfRec
	var err error
	pi := c.Guard(func() { rec, err = hevc.CreateHEVCDecConfRec(vpsN, spsN, ppsN, true, true, true, true) })
	c.Count("hevc.decconf.created", 1)
	if pi != nil {
		c.Violation(runner.PanicKey("hevc.decconf/panic", pi), "CreateHEVCDecConfRec panicked: "+pi.Value, w)
		return
	}
	if err != nil {
		if len(w.Hazards) > 0 {
			return
		}
		c.Violation("hevc.decconf/create-error", fmt.Sprintf("CreateHEVCDecConfRec: %v", err), w)
		return
	}
	tier := int64(0)
	if rec.GeneralTierFlag {
		tier = 1
	}
	bad := func(where string, space, tierV, idc, compat, constraint, level, chroma, bdl, bdc int64) {
		var d []string
		chk := func(n string, got, wantV int64) {
			if got != wantV {
				d = append(d, fmt.Sprintf("%s %d (SPS %d)", n, got, wantV))
			}
		}
		chk("general_profile_space", space, want["general_profile_space"])
		chk("general_tier_flag", tierV, want["general_tier_flag"])
		chk("general_profile_idc", idc, want["general_profile_idc"])
		chk("general_profile_compatibility_flags", compat, want["general_profile_compatibility_flags"])
		chk("general_constraint_indicator_flags", constraint, want["general_constraint_indicator_flags"])
		chk("general_level_idc", level, want["general_level_idc"])
		chk("chroma_format_idc", chroma, want["chroma_format_idc"])
		// the record has 3-bit bit-depth fields: 16-bit samples (minus8 = 8) are outside the record's domain
		if where == "create/fields" || want["bit_depth_luma_minus8"] < 8 {
			chk("bit_depth_luma_minus8", bdl, want["bit_depth_luma_minus8"])
		} else {
			c.Seen("hevc.decconf", "bit_depth_luma_minus8=8-not-representable-in-hvcC")
		}
		if where == "create/fields" || want["bit_depth_chroma_minus8"] < 8 {
			chk("bit_depth_chroma_minus8", bdc, want["bit_depth_chroma_minus8"])
		} else {
			c.Seen("hevc.decconf", "bit_depth_chroma_minus8=8-not-representable-in-hvcC")
		}
		if len(d) > 0 {
			c.Violation("hevc.decconf/"+where, fmt.Sprintf("%s: %v", where, d), w)
		}
	}
	bad("create/fields", int64(rec.GeneralProfileSpace), tier, int64(rec.GeneralProfileIDC), int64(rec.GeneralProfileCompatibilityFlags),
		int64(rec.GeneralConstraintIndicatorFlags), int64(rec.GeneralLevelIDC), int64(rec.ChromaFormatIDC), int64(rec.BitDepthLumaMinus8), int64(rec.BitDepthChromaMinus8))
	nalsOf := func(arrs []hevc.NaluArray, t hevc.NaluType) [][]byte {
		for _, a := range arrs {
			if a.NaluType() == t {
				return a.Nalus
			}
		}
		return nil
	}
	if !sameNALs(nalsOf(rec.NaluArrays, hevc.NALU_VPS), vpsN) || !sameNALs(nalsOf(rec.NaluArrays, hevc.NALU_SPS), spsN) || !sameNALs(nalsOf(rec.NaluArrays, hevc.NALU_PPS), ppsN) {
		c.Violation("hevc.decconf/create/nalus", "CreateHEVCDecConfRec does not carry the parameter-set NAL units verbatim", w)
	}
	var buf bytes.Buffer
	pi = c.Guard(func() { err = rec.Encode(&buf) })
	if pi != nil || err != nil {
		c.Violation("hevc.decconf/encode-error", fmt.Sprintf("Encode: %v %v", err, pi), w)
		return
	}
	h, ok := h265.ParseHVCC(buf.Bytes())
	if !ok || h.Trailing != 0 {
		c.Violation("hevc.decconf/encode/unreadable", fmt.Sprintf("encoded record cannot be read (ok=%v, %d trailing bytes)", ok, h.Trailing), w)
		return
	}
	ht := int64(0)
	if h.Tier {
		ht = 1
	}
	bad("encode/fields", int64(h.ProfileSpace), ht, int64(h.ProfileIdc), int64(h.Compat), int64(h.Constraint), int64(h.LevelIdc),
		int64(h.ChromaFormat), int64(h.BitDepthLumaMinus8), int64(h.BitDepthChromaMinus8))
	arr := func(t uint8) [][]byte {
		for _, a := range h.Arrays {
			if a.NalType == t {
				return a.Nalus
			}
		}
		return nil
	}
	if h.Version != 1 || h.LengthSizeMinusOne != 3 || !sameNALs(arr(32), vpsN) || !sameNALs(arr(33), spsN) || !sameNALs(arr(34), ppsN) {
		c.Violation("hevc.decconf/encode/nalus", "encoded hvcC record does not carry the parameter-set NAL units verbatim", w)
	}
	var dec hevc.DecConfRec
	pi = c.Guard(func() { dec, err = hevc.DecodeHEVCDecConfRec(buf.Bytes()) })
	if pi != nil || err != nil {
		c.Violation("hevc.decconf/decode-error", fmt.Sprintf("DecodeHEVCDecConfRec(Encode(rec)): %v %v", err, pi), w)
		return
	}
	dt := int64(0)
	if dec.GeneralTierFlag {
		dt = 1
	}
	bad("roundtrip/fields", int64(dec.GeneralProfileSpace), dt, int64(dec.GeneralProfileIDC), int64(dec.GeneralProfileCompatibilityFlags),
		int64(dec.GeneralConstraintIndicatorFlags), int64(dec.GeneralLevelIDC), int64(dec.ChromaFormatIDC), int64(dec.BitDepthLumaMinus8), int64(dec.BitDepthChromaMinus8))
	if !sameNALs(nalsOf(dec.NaluArrays, hevc.NALU_VPS), vpsN) || !sameNALs(nalsOf(dec.NaluArrays, hevc.NALU_SPS), spsN) || !sameNALs(nalsOf(dec.NaluArrays, hevc.NALU_PPS), ppsN) {
		c.Violation("hevc.decconf/roundtrip/nalus", "Decode(Encode(rec)) does not carry the parameter-set NAL units verbatim", w)
	}
	if w.Size == 1 {
		checkHevcInit(c, w, vpsN, spsN, ppsN, want)
	}
}

func checkHevcInit(c *runner.Ctx, w *witness, vpsN, spsN, ppsN [][]byte, want map[string]int64) {
	var out []byte
	var err error
	entry := "hvc1"
	if want["sps_seq_parameter_set_id"]%2 == 1 {
		entry = "hev1"
	}
	pi := c.Guard(func() {
		init := mp4.CreateEmptyInit()
		init.AddEmptyTrack(90000, "video", "und")
		if err = init.Moov.Trak.SetHEVCDescriptor(entry, vpsN, spsN, ppsN, nil, true); err != nil {
			return
		}
		var buf bytes.Buffer
		if err = init.Encode(&buf); err != nil {
			return
		}
		out = buf.Bytes()
	})
	c.Count("hevc.init.built", 1)
	if pi != nil {
		c.Violation(runner.PanicKey("hevc.init/panic", pi), "SetHEVCDescriptor/Encode panicked: "+pi.Value, w)
		return
	}
	if err != nil {
		c.Violation("hevc.init/error", fmt.Sprintf("SetHEVCDescriptor: %v", err), w)
		return
	}
	var f *mp4.File
	pi = c.Guard(func() { f, err = mp4.DecodeFileSR(bits.NewFixedSliceReader(out)) })
	if pi != nil || err != nil || f == nil || f.Init == nil || f.Init.Moov == nil || f.Init.Moov.Trak == nil {
		c.Violation("hevc.init/decode", fmt.Sprintf("init segment built by SetHEVCDescriptor does not decode: %v %v", err, pi), w)
		return
	}
	trak := f.Init.Moov.Trak
	stsd := trak.Mdia.Minf.Stbl.Stsd
	if stsd.HvcX == nil || stsd.HvcX.HvcC == nil {
		c.Violation("hevc.init/no-hvcC", "no hvcX/hvcC in the decoded init segment", w)
		return
	}
	wd, ht := want["#Width"], want["#Height"]
	if wd < 65536 && ht < 65536 {
		if int64(stsd.HvcX.Width) != wd || int64(stsd.HvcX.Height) != ht || int64(trak.Tkhd.Width>>16) != wd || int64(trak.Tkhd.Height>>16) != ht {
			c.Violation("hevc.init/width-height", fmt.Sprintf("sample entry %dx%d, tkhd %dx%d, conformance-window formula gives %dx%d", stsd.HvcX.Width, stsd.HvcX.Height,
				trak.Tkhd.Width>>16, trak.Tkhd.Height>>16, wd, ht), w)
		}
	}
	got := map[hevc.NaluType][][]byte{}
	for _, a := range stsd.HvcX.HvcC.NaluArrays {
		got[a.NaluType()] = a.Nalus
	}
	if !sameNALs(got[hevc.NALU_VPS], vpsN) || !sameNALs(got[hevc.NALU_SPS], spsN) || !sameNALs(got[hevc.NALU_PPS], ppsN) {
		c.Violation("hevc.init/nalus", "hvcC of the init segment does not carry the parameter sets verbatim", w)
	}
}

func hevcSPSHazards(s *h265.SPS) []string {
	if s.VUI != nil && s.VUI.AspectRatioInfoPresent && s.VUI.AspectRatioIdc == 0 {
		return []string{"vui.aspect_ratio_idc=0(Unspecified)-rejected"}
	}
	return nil
}

// hevcSliceHazards names the minimal syntactic conditions under which a
// value the parser needs to continue is *inferred* (7.4.7.1) rather than coded.
func hevcSliceHazards(info h265.SliceInfo) []string {
	var h []string
	if info.ListsModCondition && info.NumPicTotalCurr > 1 {
		if info.CurrRPSInterPredicted {
			h = append(h, "lists_modification_present_flag=1,active-st_rps-inter-predicted(NumPicTotalCurr)")
		}
		if info.RPSIdxInferred && info.RPSIdxInferredUsed > 0 {
			h = append(h, "lists_modification_present_flag=1,short_term_ref_pic_set_idx-inferred(num_short_term_ref_pic_sets=1)")
		}
		if info.LtIdxInferredUsed > 0 {
			h = append(h, "lists_modification_present_flag=1,lt_idx_sps-inferred(num_long_term_ref_pics_sps=1)")
		}
	}
	if info.DeblockDisabledInferred {
		h = append(h, "slice_deblocking_filter_disabled_flag-inferred-from-pps_deblocking_filter_disabled_flag=1")
	}
	return h
}

func runHevc(c *runner.Ctx) {
	r := c.Rand
	nSPS := r.Range(1, 3)
	spsIDs := distinctIDs(r, nSPS, 16)
	var spsRecs []*h265.SPS
	var spsCoded []*h265.Coded
	spsMap := map[uint32]*hevc.SPS{}
	spsUsable := map[uint64]bool{}
	var hashParts [][]byte
	for i := 0; i < nSPS; i++ {
		s := h265.GenSPS(r, spsIDs[i], h265.SPSOpt{NoAspectIdc0: !r.Chance(1, 6), NoBigLatency: !r.Chance(1, 6), FewRPS: r.Chance(2, 3)})
		if s.ExtensionPresent && r.Chance(1, 2) {
			// a long sps_extension_data_flag run with whole bytes at aligned positions (emulation prevention inside the more_rbsp_data loop)
			s.DrawLongExtensionData(r)
		}
		cd := s.Encode(1)
		if s.ExtensionPresent && s.Extension4bits != 0 {
			seenExtData(c, "hevc.sps.extension_data", cd.NAL, s.ExtensionDataStartBit(), len(s.ExtensionData))
		}
		spsRecs = append(spsRecs, s)
		spsCoded = append(spsCoded, cd)
		hashParts = append(hashParts, cd.NAL)
		seenBranches(c, "hevc.sps.branch", cd.Branches)
		w := &witness{Codec: "hevc", Kind: "sps", NAL: hx(cd.NAL), Want: cd.Elems, Hazards: hevcSPSHazards(s), Branches: cd.Branches}
		lib, usable := checkHevcSPS(c, w)
		if lib != nil && usable {
			spsMap[uint32(s.ID)] = lib
			spsUsable[s.ID] = true
		} else {
			c.Count("hevc.sps.unusable_for_dependents", 1)
		}
		if c.WantSample() && i == 0 {
			c.Sample(map[string]interface{}{"codec": "hevc", "kind": "sps", "nal": clip(hx(cd.NAL), 400), "branches": cd.Branches, "elements": len(cd.Elems)})
		}
	}
	nPPS := r.Range(1, 4)
	ppsIDs := distinctIDs(r, nPPS, 64)
	var ppsRecs []*h265.PPS
	var ppsCoded []*h265.Coded
	ppsMap := map[uint32]*hevc.PPS{}
	ppsUsable := map[uint64]bool{}
	used := map[uint64]bool{}
	for i := 0; i < nPPS; i++ {
		si := r.Intn(nSPS)
		id := ppsIDs[i]
		switch {
		case r.Chance(1, 3) && !used[spsRecs[si].ID]:
			id = spsRecs[si].ID
		case r.Chance(1, 3) && nSPS > 1 && !used[spsRecs[(si+1)%nSPS].ID]:
			id = spsRecs[(si+1)%nSPS].ID // the id of another SPS
		}
		if used[id] {
			continue
		}
		used[id] = true
		p := h265.GenPPS(r, id, spsRecs[si], h265.PPSOpt{})
		if p.ExtensionPresent && r.Chance(1, 2) {
			p.DrawLongExtensionData(r)
		}
		cd := p.Encode(1)
		if p.ExtensionPresent && p.Extension4bits != 0 {
			seenExtData(c, "hevc.pps.extension_data", cd.NAL, p.ExtensionDataStartBit(), len(p.ExtensionData))
		}
		ppsRecs = append(ppsRecs, p)
		ppsCoded = append(ppsCoded, cd)
		hashParts = append(hashParts, cd.NAL)
		seenBranches(c, "hevc.pps.branch", cd.Branches)
		if !spsUsable[p.SPSID] {
			c.Count("hevc.pps.skipped_sps_unusable", 1)
			continue
		}
		w := &witness{Codec: "hevc", Kind: "pps", NAL: hx(cd.NAL), SPS: []string{hx(spsCoded[si].NAL)}, Want: cd.Elems, Branches: cd.Branches}
		lib, ok := checkHevcPPS(c, w, spsMap)
		if lib != nil && ok {
			ppsMap[uint32(p.ID)] = lib
			ppsUsable[p.ID] = true
		} else {
			c.Count("hevc.pps.unusable_for_dependents", 1)
		}
	}
	{
		var sl, pl []string
		for _, cd := range spsCoded {
			sl = append(sl, hx(cd.NAL))
		}
		for _, cd := range ppsCoded {
			pl = append(pl, hx(cd.NAL))
		}
		if r.Chance(1, 8) {
			// numNalus is a 16-bit count per array
			pl = padList(pl, r.PickInt(31, 32, 33, 255, 256, 257))
			if r.Bool() {
				sl = padList(sl, r.PickInt(2, 15, 16, 17))
			}
			c.Seen("hevc.decconf", fmt.Sprintf("sps=%d,pps=%d", len(sl), len(pl)))
		}
		w := &witness{Codec: "hevc", Kind: "decconf", VPS: []string{hx(h265.VPS(spsRecs[0]))}, SPS: sl, PPS: pl, Want: spsCoded[0].Elems, Hazards: hevcSPSHazards(spsRecs[0])}
		if r.Chance(1, 8) {
			w.Size = 1
		}
		checkHevcDecConf(c, w)
	}
	var spsHex, ppsHex []string
	for i, s := range spsRecs {
		if spsUsable[s.ID] {
			spsHex = append(spsHex, hx(spsCoded[i].NAL))
		}
	}
	for i, p := range ppsRecs {
		if ppsUsable[p.ID] {
			ppsHex = append(ppsHex, hx(ppsCoded[i].NAL))
		}
	}
	spsByID := map[uint64]*h265.SPS{}
	for _, s := range spsRecs {
		spsByID[s.ID] = s
	}
	var prior []string
	var parsed []*witness
	for k := 0; k < 8; k++ {
		p := ppsRecs[r.Intn(len(ppsRecs))]
		if !ppsUsable[p.ID] {
			c.Count("hevc.slice.skipped_pps_unusable", 1)
			continue
		}
		s := spsByID[p.SPSID]
		sl := h265.GenSlice(r, s, p)
		cd, info := sl.Encode(s, p)
		cd.Elems = append(cd.Elems, h265.Elem{Name: "#Size", Val: int64(cd.HeaderSize)})
		hashParts = append(hashParts, cd.NAL)
		seenBranches(c, "hevc.slice.branch", cd.Branches)
		if cd.HeaderSize > 2+cd.HeaderBits/8 {
			c.Seen("hevc.slice.branch", "emulation-prevention-inside-header")
		}
		if p.ID != p.SPSID {
			c.Seen("hevc.slice.branch", "pps_id!=sps_id")
			if _, other := spsMap[uint32(p.ID)]; other {
				c.Seen("hevc.slice.branch", "pps_id!=sps_id,another-sps-has-the-pps-id")
			}
		} else {
			c.Seen("hevc.slice.branch", "pps_id==sps_id")
		}
		if info.RPLMSyntaxPresent {
			c.Seen("hevc.slice.branch", fmt.Sprintf("rplm-with-NumPicTotalCurr=%d", minInt(info.NumPicTotalCurr, 9)))
		}
		hz := hevcSliceHazards(info)
		for _, h := range hz {
			c.Seen("hevc.slice.inference-needed", h)
		}
		w := &witness{Codec: "hevc", Kind: "slice", NAL: hx(cd.NAL), SPS: spsHex, PPS: ppsHex, Want: cd.Elems, Size: cd.HeaderSize, Hazards: hz, Branches: cd.Branches,
			Prior: append([]string{}, prior...)}
		checkHevcSlice(c, w, spsMap, ppsMap)
		prior = append(prior, w.NAL)
		parsed = append(parsed, w)
		if len(sl.LT) > 0 {
			// the same slice with every delta_poc_msb_present_flag inverted, parsed right after it
			// against the same maps: nothing of the first parse may survive into the second
			tw := *sl
			tw.LT = append([]h265.LTEntry{}, sl.LT...)
			for i := range tw.LT {
				tw.LT[i].DeltaPocMsbPresent = !tw.LT[i].DeltaPocMsbPresent
				if tw.LT[i].DeltaPocMsbCycleLt == 0 {
					tw.LT[i].DeltaPocMsbCycleLt = uint64(1 + r.Intn(7))
				}
			}
			tcd, tinfo := tw.Encode(s, p)
			tcd.Elems = append(tcd.Elems, h265.Elem{Name: "#Size", Val: int64(tcd.HeaderSize)})
			c.Seen("hevc.slice.branch", "long-term-twin-with-inverted-msb-present-flags")
			tww := &witness{Codec: "hevc", Kind: "slice", NAL: hx(tcd.NAL), SPS: spsHex, PPS: ppsHex, Want: tcd.Elems, Size: tcd.HeaderSize,
				Hazards: hevcSliceHazards(tinfo), Branches: tcd.Branches, Prior: append([]string{}, prior...)}
			checkHevcSlice(c, tww, spsMap, ppsMap)
			prior = append(prior, tww.NAL)
			parsed = append(parsed, tww)
		}
		if c.WantSample() && k == 0 {
			c.Sample(map[string]interface{}{"codec": "hevc", "kind": "slice", "nal": hx(cd.NAL), "header_bits": cd.HeaderBits, "header_size": cd.HeaderSize,
				"pps_id": p.ID, "sps_id": p.SPSID, "branches": cd.Branches})
		}
	}
	// second pass: every slice once more against the maps all the others have been parsed with
	for _, w := range parsed {
		w2 := *w
		w2.Prior = append([]string{}, prior...)
		c.Count("hevc.slice.second_pass", 1)
		checkHevcSlice(c, &w2, spsMap, ppsMap)
	}
	c.Nontrivial(runner.Hash64(hashParts...))
}

func replayHevc(c *runner.Ctx, w *witness) {
	spsMap := map[uint32]*hevc.SPS{}
	ppsMap := map[uint32]*hevc.PPS{}
	for _, s := range unhxAll(w.SPS) {
		if sps, err := hevc.ParseSPSNALUnit(s); err == nil && sps != nil {
			spsMap[uint32(sps.SpsID)] = sps
		}
	}
	for _, p := range unhxAll(w.PPS) {
		if pps, err := hevc.ParsePPSNALUnit(p, spsMap); err == nil && pps != nil {
			ppsMap[pps.PicParameterSetID] = pps
		}
	}
	for _, n := range unhxAll(w.Prior) {
		c.Guard(func() { _, _ = hevc.ParseSliceHeader(n, spsMap, ppsMap) })
	}
	switch w.Kind {
	case "sps":
		checkHevcSPS(c, w)
	case "pps":
		checkHevcPPS(c, w, spsMap)
	case "slice":
		checkHevcSlice(c, w, spsMap, ppsMap)
	case "decconf":
		checkHevcDecConf(c, w)
	}
}

func minInt(a, b int) int {
	if a < b {
		return a
	}
	return b
}
