package c15

// Branches the generators are built to reach (a run that misses one prints a COVERAGE-NOTE).
func init() {
	expect("avc.decconf",
		"sps-with-chroma_format_idc=0", "sps-with-chroma_format_idc=1", "sps-with-chroma_format_idc=2", "sps-with-chroma_format_idc=3")
	expect("avc.pps.branch",
		"pic.scaling_list/early-stop", "pic.scaling_list/use-default", "pps/more-rbsp-data", "pps/no-more-rbsp-data", "pps/one-slice-group",
		"pps/scaling-matrix", "pps/scaling-matrix+8x8", "pps/scaling-matrix-without-8x8", "pps/slice_group_map_type[0]", "pps/slice_group_map_type[1]",
		"pps/slice_group_map_type[2]", "pps/slice_group_map_type[3]", "pps/slice_group_map_type[4]", "pps/slice_group_map_type[5]",
		"pps/slice_group_map_type[6]")
	expect("avc.slice.branch",
		"emulation-prevention-inside-header", "nal-with-emulation-prevention-bytes", "pps_id!=sps_id", "pps_id!=sps_id,another-sps-has-the-pps-id",
		"pps_id==sps_id", "slice/colour_plane_id", "slice/dec_ref_pic_marking-idr", "slice/delta_pic_order_cnt[0]", "slice/delta_pic_order_cnt[1]",
		"slice/delta_pic_order_cnt_bottom", "slice/field", "slice/mmco", "slice/mmco-op[1]", "slice/mmco-op[2]", "slice/mmco-op[3]", "slice/mmco-op[4]",
		"slice/mmco-op[5]", "slice/mmco-op[6]", "slice/nal_unit_type[19]", "slice/nal_unit_type[1]", "slice/nal_unit_type[2]", "slice/nal_unit_type[5]",
		"slice/num_ref_idx-override", "slice/pred_weight_table", "slice/pred_weight_table-l1", "slice/rplm-l[0]", "slice/rplm-l[1]",
		"slice/slice_group_change_cycle", "slice/slice_type[0]", "slice/slice_type[1]", "slice/slice_type[2]", "slice/slice_type[3]",
		"slice/slice_type[4]", "slice/slice_type[5]", "slice/slice_type[6]", "slice/slice_type[7]", "slice/slice_type[8]", "slice/slice_type[9]")
	expect("avc.sps.branch",
		"seq.scaling_list/early-stop", "seq.scaling_list/use-default", "sps/chroma_format_idc[0]", "sps/chroma_format_idc[1]", "sps/chroma_format_idc[2]",
		"sps/chroma_format_idc[3]", "sps/cropping", "sps/field-or-mbaff", "sps/high-profile-block", "sps/no-high-profile-block",
		"sps/pic_order_cnt_type[0]", "sps/pic_order_cnt_type[1]", "sps/pic_order_cnt_type[2]", "sps/scaling-matrix", "sps/separate-colour-planes",
		"sps/vui", "vui/aspect_ratio_idc=0", "vui/bitstream-restriction", "vui/colour-description", "vui/extended-sar", "vui/nal-hrd", "vui/table-sar",
		"vui/vcl-hrd")
	expect("hevc.pps.branch",
		"pps/3d-delta-dlt", "pps/3d-delta_val_diff_minus_min", "pps/3d-dlt-value-flags", "pps/3d-extension", "pps/colour-mapping-split-octant",
		"pps/colour-mapping-table", "pps/deblocking-control", "pps/extension", "pps/extension-data-flags", "pps/multilayer-extension",
		"pps/range-chroma-qp-offset-list", "pps/range-extension", "pps/scaling-list-data", "pps/scc-extension", "pps/scc-palette-initializers",
		"pps/tiles", "pps/tiles-explicit-spacing")
	expect("hevc.slice.branch",
		"emulation-prevention-inside-header", "pps_id!=sps_id", "pps_id!=sps_id,another-sps-has-the-pps-id", "pps_id==sps_id",
		"rplm-with-NumPicTotalCurr=2", "rplm-with-NumPicTotalCurr=3", "rplm-with-NumPicTotalCurr=4", "rplm-with-NumPicTotalCurr=5",
		"rplm-with-NumPicTotalCurr=6", "rplm-with-NumPicTotalCurr=7", "rplm-with-NumPicTotalCurr=8", "rplm-with-NumPicTotalCurr=9", "slice/act-qp-offsets",
		"slice/colour_plane_id", "slice/deblocking-disabled-inferred-from-pps", "slice/deblocking-override", "slice/dependent-segment",
		"slice/entry-points", "slice/header-extension", "slice/idr", "slice/irap", "slice/long-term", "slice/lt_idx_sps-inferred",
		"slice/nal_unit_type[0]", "slice/nal_unit_type[16]", "slice/nal_unit_type[17]", "slice/nal_unit_type[18]", "slice/nal_unit_type[19]",
		"slice/nal_unit_type[1]", "slice/nal_unit_type[20]", "slice/nal_unit_type[21]", "slice/nal_unit_type[2]", "slice/nal_unit_type[3]",
		"slice/nal_unit_type[4]", "slice/nal_unit_type[5]", "slice/nal_unit_type[6]", "slice/nal_unit_type[7]", "slice/nal_unit_type[8]",
		"slice/nal_unit_type[9]", "slice/num_ref_idx-override", "slice/pred_weight_table", "slice/pred_weight_table-l1",
		"slice/ref_pic_lists_modification", "slice/slice_type[0]", "slice/slice_type[1]", "slice/slice_type[2]", "slice/st_rps-by-idx",
		"slice/st_rps-idx-inferred", "slice/st_rps-in-header", "slice/temporal-mvp", "slice/use_integer_mv_flag", "st_rps/explicit",
		"st_rps/inter-predicted")
	expect("hevc.slice.inference-needed",
		"lists_modification_present_flag=1,active-st_rps-inter-predicted(NumPicTotalCurr)",
		"lists_modification_present_flag=1,lt_idx_sps-inferred(num_long_term_ref_pics_sps=1)",
		"lists_modification_present_flag=1,short_term_ref_pic_set_idx-inferred(num_short_term_ref_pic_sets=1)",
		"slice_deblocking_filter_disabled_flag-inferred-from-pps_deblocking_filter_disabled_flag=1")
	expect("hevc.sps.branch",
		"hrd/low-delay(cpb_cnt inferred)", "hrd/nal", "hrd/neither-nal-nor-vcl", "hrd/sub-pic-params", "hrd/vcl", "ptl/sub-layer-level",
		"ptl/sub-layer-profile", "ptl/sub-layers", "sps/3d-extension", "sps/chroma_format_idc[0]", "sps/chroma_format_idc[1]", "sps/chroma_format_idc[2]",
		"sps/chroma_format_idc[3]", "sps/conformance-window", "sps/extension", "sps/extension-data-flags", "sps/long-term-ref-pics",
		"sps/max_sub_layers_minus1[0]", "sps/max_sub_layers_minus1[1]", "sps/max_sub_layers_minus1[2]", "sps/max_sub_layers_minus1[3]",
		"sps/max_sub_layers_minus1[4]", "sps/max_sub_layers_minus1[5]", "sps/max_sub_layers_minus1[6]", "sps/multilayer-extension", "sps/pcm",
		"sps/range-extension", "sps/scaling-list-data", "sps/scc-extension", "sps/scc-palette-initializers", "sps/separate-colour-planes",
		"sps/sub-layer-ordering-info-all", "sps/vui", "st_rps/explicit", "st_rps/inter-predicted", "vui/aspect_ratio_idc=0", "vui/bitstream-restriction",
		"vui/colour-description", "vui/default-display-window", "vui/extended-sar", "vui/hrd", "vui/table-sar", "vui/timing")
	// more_rbsp_data( ) decisions with emulation prevention bytes around them
	expect("hevc.sps.extension_data", "flags=0", "flags=8-23", "flags=24-63", "flags=64+", "emulation-prevention-bytes-inside=0",
		"emulation-prevention-bytes-inside=1", "emulation-prevention-bytes-inside=2", "emulation-prevention-bytes-inside=3+")
	expect("hevc.pps.extension_data", "flags=0", "flags=8-23", "flags=24-63", "flags=64+", "emulation-prevention-bytes-inside=0",
		"emulation-prevention-bytes-inside=1", "emulation-prevention-bytes-inside=2", "emulation-prevention-bytes-inside=3+")
	expect("avc.pps.more_rbsp_data", "decision-at-bit%8=0,more-data", "decision-at-bit%8=0,trailing-bits", "emulation-prevention-bytes-before=3+")
}
