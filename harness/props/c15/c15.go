// Package c15 decides property C15 (parameter sets and slice headers parse to
// the values that were coded) by generating value records, serializing them
// with the independent reference serializers ref/h264 and ref/h265 and
// comparing what the avc/hevc parsers of mp4ff return with what was coded.
package c15

import (
	"encoding/json"
	"fmt"
	"sort"
	"strings"

	"verifharness/runner"
)

func numCases(env *runner.Env) int {
	if env.Tier == "thorough" {
		return 400000
	}
	return 12000
}

func init() {
	runner.Register(&runner.Prop{
		ID: "C15",
		Rule: "One case = one generated stream context of one codec (even idx AVC, odd idx HEVC): 1-3 SPS with distinct ids, 1-4 PPS with distinct ids " +
			"(half of them with pps id = sps id, the others different; several sets coexist in the maps handed to the slice parser), one decoder configuration record " +
			"built from those parameter sets (and, for 1 case in 8, an init segment via SetAVCDescriptor/SetHEVCDescriptor), and 8 slice (segment) headers each followed by 0-40 " +
			"payload bytes (zero runs so that emulation prevention bytes fall inside and right after the header). Value records are drawn inside the syntax the parsers implement " +
			"(AVC: 16 profile_idc values with/without the high-profile block, chroma 0-3, scaling lists incl. early stop and useDefault, poc type 0/1/2, frame/field/MBAFF, cropping, " +
			"VUI with NAL/VCL HRD, FMO map types 0-6 (type 6 half of the time with runs of equal slice_group_id, i.e. zero bytes and emulation prevention bytes ahead of the more_rbsp_data( ) decision), PPS transform8x8/scaling/second offset, NAL types 1/2/5/19, slice types 0-9, RPLM, pred weight table, MMCO 1-6; " +
			"HEVC: 1-7 sub-layers, conformance window, scaling list data, PCM, 0-16 short-term RPS incl. inter RPS prediction, long-term pictures, VUI with HRD and sub-pic params, " +
			"range/multilayer/3D/SCC extensions of SPS and PPS, sps_/pps_extension_data_flag runs of 0-100 flags (half of the parameter sets with an extension: whole bytes placed at byte-aligned positions, " +
			"so that the more_rbsp_data( ) loop meets 00 00 03 0x, 00 00 04, 00 03 and literal 03 bytes), tiles, slice segment headers of all VCL NAL types, dependent segments, RPS by index or in the header, list modification, " +
			"weights, entry points, header extension). Every syntax element the reference emitted and the parser exposes is compared (elements not coded are not compared), plus width/height " +
			"by the cropping formula, slice-header Size, configuration records (field by field, the encoded bytes read independently, and Decode(Encode)), and codec strings parsed back. " +
			"A case is non-trivial when its parameter sets and slices were serialized and handed to the parsers; distinct_nontrivial counts distinct hashes of the NAL bytes of a case; " +
			"evaluations counts cases; the counters *.parsed count individual parser calls.",
		Assumptions: []string{
			"reference serializers written from the syntax tables of ISO/IEC 14496-10 (7.3.2.1, 7.3.2.2, 7.3.3, E.1) and ISO/IEC 23008-2 (7.3.2.2, 7.3.2.3, 7.3.3, 7.3.4, 7.3.6, 7.3.7, E.2, F.7.3.2.3, I.7.3.2) in ref/h264, ref/h265 on top of ref/bitw; they never import mp4ff",
			"single-slot fields of avc.SliceHeader (AbsDiffPicNumMinus1, LongTermPicNum, ...) are compared with the value coded last",
			"hevc.ShortTermRPS.DeltaPocS0/S1 are compared with delta_poc_sX_minus1+1 (the library's own convention), hevc.SPS.Log2MinPcmLumaCodingBlockSize with the coded *_minus3 value",
			"slices are only checked against parameter sets the library parsed without mismatch (a mis-parsed parameter set is reported once, where it happens)",
		},
		NumCases: numCases,
		Run:      run,
		Replay:   replay,
		Finalize: finalize,
	})
}

func run(c *runner.Ctx, idx int) {
	if idx%2 == 0 {
		c.Seen("codec", "avc")
		runAvc(c)
	} else {
		c.Seen("codec", "hevc")
		runHevc(c)
	}
	c.Evals(1)
}

func replay(c *runner.Ctx, detail json.RawMessage) {
	var w witness
	if err := json.Unmarshal(detail, &w); err != nil {
		c.Inconclusive("replay: cannot read witness: " + err.Error())
		return
	}
	switch w.Codec {
	case "avc":
		replayAvc(c, &w)
	case "hevc":
		replayHevc(c, &w)
	default:
		c.Inconclusive("replay: unknown codec " + w.Codec)
	}
}

// expectedBranches lists, per coverage category, the branches the generator is
// built to reach; one that never occurs in a run is printed as a COVERAGE-NOTE.
var expectedBranches = map[string][]string{}

func expect(cat string, names ...string) {
	expectedBranches[cat] = append(expectedBranches[cat], names...)
}

func finalize(a *runner.Agg) {
	cats := make([]string, 0, len(expectedBranches))
	for cat := range expectedBranches {
		cats = append(cats, cat)
	}
	sort.Strings(cats)
	var missing []string
	for _, cat := range cats {
		for _, b := range expectedBranches[cat] {
			if a.Seen[cat][b] == 0 {
				missing = append(missing, cat+":"+b)
			}
		}
	}
	if len(missing) > 0 {
		a.Note("syntax branches never taken in this run: %s", strings.Join(missing, ", "))
	}
	a.Extra["branches_never_taken"] = missing
	var parsed int64
	for k, v := range a.Counters {
		if strings.HasSuffix(k, ".parsed") {
			parsed += v
		}
	}
	a.Extra["parser_calls"] = parsed
	if parsed == 0 {
		a.Nothing = "no parameter set or slice header reached a parser"
	}
	_ = fmt.Sprint
}
