package c04

import (
	"fmt"
	"sort"
	"verifharness/corpus"
	"verifharness/mut"
	"verifharness/ref/boxwalk"
)

var removable = []string{"trak", "mvex", "trex", "stsd", "traf", "tfhd", "trun", "tfdt", "mfhd", "mdhd", "hdlr", "stts", "stsz", "stsc", "stco",
	"minf", "stbl", "mdia", "tkhd", "mvhd", "ftyp", "moov", "moof", "mdat", "sinf", "schi", "tenc", "frma", "saio", "saiz", "senc", "sidx", "styp",
	"avcC", "hvcC", "esds", "dinf", "vmhd", "smhd", "elst", "mfro", "tfra", "sgpd", "sbgp"}

// crafted builds the cross-box layouts the property names (moov without
// trak, moof without traf, traf without tfhd, mdat before moof, ...) from
// every corpus file, deterministically.
func crafted() []corpus.Seed {
	var out []corpus.Seed
	for _, f := range cor.Files {
		data := mut.ShrinkMdat(f.Data, 256)
		for _, t := range removable {
			es := mut.Parse(data)
			if es == nil {
				break
			}
			before := len(mut.Serialize(es))
			es2 := removeAll(es, t)
			b := mut.Serialize(es2)
			if len(b) == before || len(b) == 0 {
				continue
			}
			out = append(out, corpus.Seed{Name: f.Name + "#without-" + t, Kind: "crafted", Data: b})
		}
		// mdat moved in front of each moof / moov moved last
		es := mut.Parse(data)
		if es != nil && len(es) > 1 {
			var mdats, rest []*mut.E
			for _, e := range es {
				if e.Type == "mdat" {
					mdats = append(mdats, e)
				} else {
					rest = append(rest, e)
				}
			}
			if len(mdats) > 0 {
				for pos := 0; pos <= len(rest); pos++ {
					var l []*mut.E
					l = append(l, rest[:pos]...)
					l = append(l, mdats...)
					l = append(l, rest[pos:]...)
					out = append(out, corpus.Seed{Name: f.Name + "#mdat-moved", Kind: "crafted", Data: mut.Serialize(l)})
					if pos > 6 {
						break
					}
				}
			}
			// 64-bit size headers with extreme values on every mdat
			for _, v := range []uint64{1 << 63, ^uint64(0), 1<<63 - 1, 1 << 32, 1 << 40} {
				es3 := mut.Parse(data)
				n := 0
				for _, e := range es3 {
					if e.Type == "mdat" {
						v := v
						e.ForceSize64 = &v
						n++
					}
				}
				if n > 0 {
					out = append(out, corpus.Seed{Name: f.Name + "#mdat-largesize-extreme", Kind: "crafted", Data: mut.Serialize(es3)})
				}
			}
			// an mdat whose 64-bit size, read as a signed offset, points back to the preceding box(es)
			for back := 1; back <= 2; back++ {
				es3 := mut.Parse(data)
				n := 0
				for i, e := range es3 {
					if e.Type == "mdat" && i >= back {
						var sum uint64
						for k := i - back; k < i; k++ {
							sum += uint64(es3[k].Size())
						}
						for _, adj := range []uint64{0, 16} {
							v := -sum + adj
							e.ForceSize64 = &v
							out = append(out, corpus.Seed{Name: f.Name + "#mdat-size-points-back", Kind: "crafted", Data: mut.Serialize(es3)})
						}
						n++
						break
					}
				}
			}
			// mfra with a second tfra for another track that lists more / fewer entries
			for _, delta := range []int{1, -1} {
				es3, es4 := mut.Parse(data), mut.Parse(data)
				mfra, mfra2 := findTop(es3, "mfra"), findTop(es4, "mfra")
				if mfra == nil || mfra2 == nil {
					break
				}
				tfra2 := findType(mfra2.Children, "tfra")
				if tfra2 == nil || len(tfra2.Payload) < 16 {
					break
				}
				p := tfra2.Payload
				esz := 8
				if p[0] == 1 {
					esz = 16
				}
				esz += int(p[11]>>4&3) + 1 + int(p[11]>>2&3) + 1 + int(p[11]&3) + 1
				n := int(p[12])<<24 | int(p[13])<<16 | int(p[14])<<8 | int(p[15])
				if n < 1 || len(p) != 16+n*esz || n+delta < 1 {
					break
				}
				p[7]++ // another track id
				if delta > 0 {
					p = append(p, p[len(p)-esz:]...)
				} else {
					p = p[:len(p)-esz]
				}
				n += delta
				p[12], p[13], p[14], p[15] = byte(n>>24), byte(n>>16), byte(n>>8), byte(n)
				tfra2.Payload = p
				var ch []*mut.E
				for _, c := range mfra.Children {
					ch = append(ch, c)
					if c.Type == "tfra" && tfra2 != nil {
						ch = append(ch, tfra2)
						tfra2 = nil
					}
				}
				mfra.Children = ch
				if mfro := findType(mfra.Children, "mfro"); mfro != nil && len(mfro.Payload) >= 8 {
					sz := mfra.Size()
					mfro.Payload[4], mfro.Payload[5], mfro.Payload[6], mfro.Payload[7] = byte(sz>>24), byte(sz>>16), byte(sz>>8), byte(sz)
				}
				out = append(out, corpus.Seed{Name: f.Name + "#mfra-second-tfra", Kind: "crafted", Data: mut.Serialize(es3)})
			}
			// reversed top-level order
			var rev []*mut.E
			for i := len(es) - 1; i >= 0; i-- {
				rev = append(rev, es[i])
			}
			out = append(out, corpus.Seed{Name: f.Name + "#reversed", Kind: "crafted", Data: mut.Serialize(rev)})
		}
	}
	return out
}

// countTypes are the full boxes whose payload starts with version/flags
// followed (at payload offset 4, for most of them) by a count or size field
// that drives loops and allocations.
var countTypes = []string{"trun", "stts", "stsz", "stsc", "stco", "co64", "ctts", "stss", "sdtp", "saiz", "saio", "senc", "sbgp", "sgpd",
	"subs", "elst", "sidx", "tfra", "tfhd", "emsg", "pssh", "stsd", "dref", "cslg", "leva", "ssix", "trep", "mfro", "tfdt", "mehd"}

// lattice builds, for every count-bearing box type, the version x flags x
// count x truncation lattice applied to the first instance of that type in
// the smallest corpus file containing it (in context: moof/traf/senc is only
// parsed inside a file) and to the smallest stand-alone instance.
func lattice() []corpus.Seed {
	var out []corpus.Seed
	var flagSet []uint32
	for _, lo := range []uint32{0, 1, 2, 3, 4, 5, 6, 7} {
		for _, hi := range []uint32{0, 0x100, 0x200, 0x400, 0x800, 0xf00} {
			flagSet = append(flagSet, lo|hi)
		}
	}
	counts := []uint32{0, 1025, 1 << 24, 1<<31 + 1, 0xffffffff}
	cuts := []int{8, 12, -1}
	type host struct {
		name string
		data []byte
	}
	for _, t := range countTypes {
		var hosts []host
		best := -1
		for i, f := range cor.Files {
			d := mut.ShrinkMdat(f.Data, 256)
			if es := mut.Parse(d); es != nil && findType(es, t) != nil {
				if best < 0 || len(d) < len(hosts[0].data) {
					hosts = []host{{f.Name, d}}
					best = i
				}
			}
		}
		var sb *corpus.Seed
		for i := range cor.Boxes {
			b := &cor.Boxes[i]
			if b.Type == t && (sb == nil || len(b.Data) < len(sb.Data)) {
				sb = b
			}
		}
		if sb != nil {
			hosts = append(hosts, host{sb.Name, sb.Data})
		}
		for _, h := range hosts {
			for _, ver := range []byte{0, 1} {
				for _, fl := range flagSet {
					for _, cnt := range counts {
						for _, cut := range cuts {
							es := mut.Parse(h.data)
							n := findType(es, t)
							if n == nil || n.Container || len(n.Payload) < 8 {
								continue
							}
							n.Payload[0] = ver
							n.Payload[1], n.Payload[2], n.Payload[3] = byte(fl>>16), byte(fl>>8), byte(fl)
							n.Payload[4], n.Payload[5], n.Payload[6], n.Payload[7] = byte(cnt>>24), byte(cnt>>16), byte(cnt>>8), byte(cnt)
							if cut > 0 {
								if cut >= len(n.Payload) {
									continue
								}
								n.Payload = n.Payload[:cut]
							}
							out = append(out, corpus.Seed{Name: h.name + "#lattice-" + t, Kind: "crafted", Data: mut.Serialize(es)})
						}
					}
				}
			}
		}
	}
	return out
}

func findTop(es []*mut.E, t string) *mut.E {
	for _, e := range es {
		if e.Type == t {
			return e
		}
	}
	return nil
}

func findType(es []*mut.E, t string) *mut.E {
	for _, e := range es {
		if e.Type == t {
			return e
		}
		if e.Container {
			if n := findType(e.Children, t); n != nil {
				return n
			}
		}
	}
	return nil
}

func removeAll(es []*mut.E, t string) []*mut.E {
	var out []*mut.E
	for _, e := range es {
		if e.Type == t {
			continue
		}
		if e.Container {
			e.Children = removeAll(e.Children, t)
		}
		out = append(out, e)
	}
	return out
}

// fieldSweep writes boundary values over every 32-bit position of the first
// moof of small files whose fragments carry protection boxes (senc with sample
// groups, saiz/saio): fields like group_description_index or aux-info offsets
// are only interpreted in file context, after the boxes themselves decoded.
func fieldSweep() []corpus.Seed {
	var out []corpus.Seed
	type host struct {
		name string
		data []byte
		step int
		max  int
	}
	var hosts []host
	mdat := []byte{0, 0, 0, 24, 'm', 'd', 'a', 't', 1, 2, 3, 4, 5, 6, 7, 8, 9, 10, 11, 12, 13, 14, 15, 16}
	for i := range cor.Boxes {
		b := &cor.Boxes[i]
		if b.Kind == "built" && b.Type == "moof" {
			hosts = append(hosts, host{b.Name + "+mdat", append(append([]byte{}, b.Data...), mdat...), 1, 1 << 20})
		}
	}
	for _, f := range cor.Files {
		d := mut.ShrinkMdat(f.Data, 64)
		es := mut.Parse(d)
		if es == nil || len(d) > 8192 {
			continue
		}
		if m := findTop(es, "moof"); m != nil && findType([]*mut.E{m}, "senc") != nil {
			hosts = append(hosts, host{f.Name, d, 4, 160})
		}
	}
	vals := []uint32{0, 1, 2, 0x10000, 0x10001, 0x10002, 0x10003, 0x7fffffff, 0x80000000, 0xfffffffe, 0xffffffff}
	for _, h := range hosts {
		ns, err := boxwalk.Walk(h.data)
		if err != nil {
			continue
		}
		for _, n := range ns {
			if n.Type != "moof" {
				continue
			}
			cnt := 0
			for o := n.Start + 8; o+4 <= n.End() && cnt < h.max; o += h.step {
				cnt++
				orig := uint32(h.data[o])<<24 | uint32(h.data[o+1])<<16 | uint32(h.data[o+2])<<8 | uint32(h.data[o+3])
				for _, v := range append([]uint32{orig + 1, orig - 1}, vals...) {
					if v == orig {
						continue
					}
					d := append([]byte{}, h.data...)
					d[o], d[o+1], d[o+2], d[o+3] = byte(v>>24), byte(v>>16), byte(v>>8), byte(v)
					out = append(out, corpus.Seed{Name: fmt.Sprintf("%s#sweep@%d", h.name, o), Kind: "crafted", Data: d})
				}
			}
			break
		}
	}
	return out
}

// inflate sets the size field of a leaf to a huge value and adds the same
// surplus to every ancestor, so that the declared sizes stay consistent with
// each other and only the data is missing: per container type (the smallest
// box seed with that root), up to 6 leaves, 3 values.
func inflate() []corpus.Seed {
	var out []corpus.Seed
	best := map[string]*corpus.Seed{}
	for i := range cor.Boxes {
		b := &cor.Boxes[i]
		es := mut.Parse(b.Data)
		if len(es) != 1 || !es[0].Container || len(b.Data) > 4096 {
			continue
		}
		if cur := best[b.Type]; cur == nil || len(b.Data) < len(cur.Data) {
			best[b.Type] = b
		}
	}
	var types []string
	for t := range best {
		types = append(types, t)
	}
	sort.Strings(types)
	for _, t := range types {
		sd := best[t]
		// paths (child indices) of the leaves
		var paths [][]int
		var walk func(e *mut.E, p []int)
		walk = func(e *mut.E, p []int) {
			if !e.Container {
				paths = append(paths, append([]int{}, p...))
				return
			}
			for i, c := range e.Children {
				walk(c, append(p, i))
			}
		}
		walk(mut.Parse(sd.Data)[0], nil)
		if len(paths) > 6 {
			paths = append(paths[:3:3], paths[len(paths)-3:]...)
		}
		for _, path := range paths {
			if len(path) == 0 {
				continue
			}
			for _, v := range []uint64{1 << 28, 1 << 31, 0xfffffff0} {
				es := mut.Parse(sd.Data)
				chain := []*mut.E{es[0]}
				for _, i := range path {
					chain = append(chain, chain[len(chain)-1].Children[i])
				}
				leaf := chain[len(chain)-1]
				surplus := v - uint64(leaf.Size())
				ok := true
				for _, e := range chain {
					n := uint64(e.Size()) + surplus
					if n > 0xffffffff {
						ok = false
						break
					}
					n32 := uint32(n)
					e.ForceSize = &n32
				}
				if !ok {
					continue
				}
				out = append(out, corpus.Seed{Name: fmt.Sprintf("%s#inflated-leaf%v=%d", sd.Name, path, v), Kind: "crafted", Type: t, Data: mut.Serialize(es)})
			}
		}
	}
	return out
}

// shortLarge: every box type once with a 64-bit size header and only the first
// 0..12 bytes of its payload (sizes consistent): minimum-length guards written
// against the total size instead of the payload length let these through.
func shortLarge() []corpus.Seed {
	var out []corpus.Seed
	best := map[string]*corpus.Seed{}
	for i := range cor.Boxes {
		b := &cor.Boxes[i]
		if cur := best[b.Type]; cur == nil || len(b.Data) < len(cur.Data) {
			best[b.Type] = b
		}
	}
	var types []string
	for t := range best {
		types = append(types, t)
	}
	sort.Strings(types)
	for _, t := range types {
		sd := best[t]
		if len(sd.Data) < 8 {
			continue
		}
		pl := sd.Data[8:]
		if sd.Data[3] == 1 && sd.Data[0] == 0 && sd.Data[1] == 0 && sd.Data[2] == 0 && len(sd.Data) >= 16 {
			pl = sd.Data[16:]
		}
		for k := 0; k <= 12 && k <= len(pl); k++ {
			d := make([]byte, 16+k)
			d[3] = 1
			copy(d[4:8], sd.Data[4:8])
			d[15] = byte(16 + k)
			copy(d[16:], pl[:k])
			out = append(out, corpus.Seed{Name: fmt.Sprintf("%s#largesize-header,payload[:%d]", sd.Name, k), Kind: "crafted", Type: t, Data: d})
		}
	}
	return out
}

// cutThenTrailer: every box type (its smallest seed with at least 12 payload bytes) cut after k payload
// bytes at up to 12 four-byte boundaries, with the size field set to what is left, so that the box is
// consistent on the outside while its inner counts announce more than it holds; behind it a trailer
// whose first four bytes (the next box's size) are large: a decoder that reads a count or length past
// the end of its own box picks those up.
func cutThenTrailer() []corpus.Seed {
	var out []corpus.Seed
	best := map[string]*corpus.Seed{}
	for i := range cor.Boxes {
		b := &cor.Boxes[i]
		if len(b.Data) < 20 || len(b.Data) > 400 || b.Data[3] == 1 && b.Data[0]|b.Data[1]|b.Data[2] == 0 {
			continue
		}
		if cur := best[b.Type]; cur == nil || len(b.Data) < len(cur.Data) {
			best[b.Type] = b
		}
	}
	var types []string
	for t := range best {
		types = append(types, t)
	}
	sort.Strings(types)
	trailers := [][]byte{
		{0x04, 0, 0, 0, 'f', 'r', 'e', 'e', 0, 0, 0, 0},
		{0xff, 0xff, 0xff, 0xff, 'm', 'd', 'a', 't', 1, 2, 3, 4},
	}
	styp := []byte{0, 0, 0, 16, 's', 't', 'y', 'p', 'm', 's', 'd', 'h', 0, 0, 0, 0}
	for _, t := range types {
		sd := best[t]
		pl := sd.Data[8:]
		step := 4 * ((len(pl)/4 + 11) / 12)
		first := 8
		if len(pl) <= 96 {
			// small boxes: every byte position (a list may end anywhere), with the first trailer only
			step, first = 1, 1
		}
		for k := first; k < len(pl); k += step {
			for ti, tr := range trailers {
				if step == 1 && ti == 1 && k%4 != 0 {
					continue
				}
				d := make([]byte, 0, 8+k+len(tr)+16)
				if ti == 1 {
					d = append(d, styp...) // file context
				}
				d = append(d, 0, 0, byte((8+k)>>8), byte(8+k))
				d = append(d, sd.Data[4:8]...)
				d = append(d, pl[:k]...)
				d = append(d, tr...)
				s := corpus.Seed{Name: fmt.Sprintf("%s#cut-at-%d,trailer-%d", sd.Name, k, ti), Kind: "crafted", Data: d}
				if ti == 0 {
					s.Type = t
				}
				out = append(out, s)
			}
		}
	}
	return out
}

// hugeLarge: every box type once with a 64-bit size header announcing 2^63, 2^63+16, 2^63+1000 or
// 2^64-1 bytes (values that are negative as int64) in front of the first bytes of its payload.
func hugeLarge() []corpus.Seed {
	var out []corpus.Seed
	best := map[string]*corpus.Seed{}
	for i := range cor.Boxes {
		b := &cor.Boxes[i]
		if len(b.Data) < 8 {
			continue
		}
		if cur := best[b.Type]; cur == nil || len(b.Data) < len(cur.Data) {
			best[b.Type] = b
		}
	}
	var types []string
	for t := range best {
		types = append(types, t)
	}
	sort.Strings(types)
	for _, t := range types {
		sd := best[t]
		pl := sd.Data[8:]
		if len(pl) > 32 {
			pl = pl[:32]
		}
		for _, sz := range []uint64{1 << 63, 1<<63 + 16, 1<<63 + 1000, 1<<64 - 1} {
			d := make([]byte, 16, 16+len(pl))
			d[3] = 1
			copy(d[4:8], sd.Data[4:8])
			for i := 0; i < 8; i++ {
				d[8+i] = byte(sz >> (56 - 8*i))
			}
			d = append(d, pl...)
			out = append(out, corpus.Seed{Name: fmt.Sprintf("%s#largesize=%#x", sd.Name, sz), Kind: "crafted", Type: t, Data: d})
		}
	}
	return out
}
