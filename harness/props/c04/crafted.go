package c04

import (
	"verifharness/corpus"
	"verifharness/mut"
)

var removable = []string{"trak", "mvex", "trex", "stsd", "traf", "tfhd", "trun", "tfdt", "mfhd", "mdhd", "hdlr", "stts", "stsz", "stsc", "stco",
	"minf", "stbl", "mdia", "tkhd", "mvhd", "ftyp", "moov", "moof", "mdat", "sinf", "schi", "tenc", "frma", "saio", "saiz", "senc", "sidx", "styp",
	"avcC", "hvcC", "esds", "dinf", "vmhd", "smhd", "elst", "mfro", "tfra", "sgpd", "sbgp"}

// crafted builds the cross-box layouts the property names (moov without
// trak, moof without traf, traf without tfhd, mdat before moof, ...) from
// every corpus file, deterministically.
func crafted() []corpus.Seed {
	var out []corpus.Seed
	for _, f := range cor.Files {
		data := mut.ShrinkMdat(f.Data, 256)
		for _, t := range removable {
			es := mut.Parse(data)
			if es == nil {
				break
			}
			before := len(mut.Serialize(es))
			es2 := removeAll(es, t)
			b := mut.Serialize(es2)
			if len(b) == before || len(b) == 0 {
				continue
			}
			out = append(out, corpus.Seed{Name: f.Name + "#without-" + t, Kind: "crafted", Data: b})
		}
		// mdat moved in front of each moof / moov moved last
		es := mut.Parse(data)
		if es != nil && len(es) > 1 {
			var mdats, rest []*mut.E
			for _, e := range es {
				if e.Type == "mdat" {
					mdats = append(mdats, e)
				} else {
					rest = append(rest, e)
				}
			}
			if len(mdats) > 0 {
				for pos := 0; pos <= len(rest); pos++ {
					var l []*mut.E
					l = append(l, rest[:pos]...)
					l = append(l, mdats...)
					l = append(l, rest[pos:]...)
					out = append(out, corpus.Seed{Name: f.Name + "#mdat-moved", Kind: "crafted", Data: mut.Serialize(l)})
					if pos > 6 {
						break
					}
				}
			}
			// 64-bit size headers with extreme values on every mdat
			for _, v := range []uint64{1 << 63, ^uint64(0), 1<<63 - 1, 1 << 32, 1 << 40} {
				es3 := mut.Parse(data)
				n := 0
				for _, e := range es3 {
					if e.Type == "mdat" {
						v := v
						e.ForceSize64 = &v
						n++
					}
				}
				if n > 0 {
					out = append(out, corpus.Seed{Name: f.Name + "#mdat-largesize-extreme", Kind: "crafted", Data: mut.Serialize(es3)})
				}
			}
			// an mdat whose 64-bit size, read as a signed offset, points back to the preceding box(es)
			for back := 1; back <= 2; back++ {
				es3 := mut.Parse(data)
				n := 0
				for i, e := range es3 {
					if e.Type == "mdat" && i >= back {
						var sum uint64
						for k := i - back; k < i; k++ {
							sum += uint64(es3[k].Size())
						}
						for _, adj := range []uint64{0, 16} {
							v := -sum + adj
							e.ForceSize64 = &v
							out = append(out, corpus.Seed{Name: f.Name + "#mdat-size-points-back", Kind: "crafted", Data: mut.Serialize(es3)})
						}
						n++
						break
					}
				}
			}
			// reversed top-level order
			var rev []*mut.E
			for i := len(es) - 1; i >= 0; i-- {
				rev = append(rev, es[i])
			}
			out = append(out, corpus.Seed{Name: f.Name + "#reversed", Kind: "crafted", Data: mut.Serialize(rev)})
		}
	}
	return out
}

func removeAll(es []*mut.E, t string) []*mut.E {
	var out []*mut.E
	for _, e := range es {
		if e.Type == t {
			continue
		}
		if e.Container {
			e.Children = removeAll(e.Children, t)
		}
		out = append(out, e)
	}
	return out
}
