// Package c04 decides property C04: untrusted container input never crashes,
// hangs or balloons memory. Resource monitor over isolated workers: recovered
// panics, worker deaths (attributed by the runner), per-operation CPU time
// (RUSAGE) and bytes allocated (runtime/metrics).
package c04

import (
	"bytes"
	"encoding/base64"
	"encoding/json"
	"fmt"
	"io"
	"os"
	"os/exec"
	"path/filepath"
	"runtime"
	"runtime/metrics"
	"strings"
	"syscall"
	"time"

	"github.com/Eyevinn/mp4ff/bits"
	"github.com/Eyevinn/mp4ff/mp4"

	"verifharness/corpus"
	"verifharness/mut"
	"verifharness/runner"
)

const (
	cpuBaseSec     = 2.0
	cpuPerByteSec  = 20e-6
	allocBase      = 8 << 20
	allocPerByte   = 1024
	maxInputLen    = 256 << 10
	toolSampleRate = 50 // 1 in 50 inputs also goes through the mp4ff-info binary
)

var (
	cor   *corpus.Corpus
	seeds []corpus.Seed // all seeds incl. shrunk file variants
	nBase int           // seeds the mutators draw from
	nAll  int           // nBase + lattice seeds
)

func setup(env *runner.Env) error {
	var err error
	cor, err = corpus.Load(env.RepoDir)
	if err != nil {
		return err
	}
	seeds = nil
	for _, f := range cor.Files {
		if len(f.Data) <= maxInputLen {
			seeds = append(seeds, f)
		}
		sh := mut.ShrinkMdat(f.Data, 256)
		if len(sh) != len(f.Data) {
			seeds = append(seeds, corpus.Seed{Name: f.Name + "#shrunk", Kind: "file", Data: sh})
		}
	}
	seeds = append(seeds, cor.Boxes...)
	for _, f := range cor.Fuzz {
		if len(f.Data) <= maxInputLen {
			seeds = append(seeds, f)
		}
	}
	seeds = append(seeds, crafted()...)
	nBase = len(seeds)
	// lattice seeds are part of the case list but not of the pool that the
	// mutators draw from
	seeds = append(seeds, lattice()...)
	seeds = append(seeds, fieldSweep()...)
	seeds = append(seeds, inflate()...)
	seeds = append(seeds, shortLarge()...)
	seeds = append(seeds, cutThenTrailer()...)
	seeds = append(seeds, hugeLarge()...)
	nAll = len(seeds)
	if nBase == 0 {
		return fmt.Errorf("empty corpus under %s", env.RepoDir)
	}
	return nil
}

func numCases(env *runner.Env) int {
	if env.Tier == "thorough" {
		return nAll + 2000000
	}
	return nAll + 30000
}

func init() {
	runner.Register(&runner.Prop{
		ID: "C04",
		Rule: "case = one input byte string x all operations. Inputs: every corpus seed unmutated (repo testdata files, mdat-shrunk variants, every box cut out by the reference walker, upstream fuzz seeds, crafted cross-box layouts: remove-all-of-type, mdat moved, extreme and back-pointing 64-bit mdat sizes), the version x flags x count x truncation lattice of 30 count-bearing box types in the context of the smallest file containing them, a sweep of 13 boundary values over every 32-bit position of the first moof of small fragment files with protection boxes (hand-built moof + mdat without moov at every byte offset; encrypted repo files at 160 word offsets), consistently inflated size fields (a leaf of every container type set to 2^28, 2^31 and 2^32-16 with the same surplus added to all its ancestors), every box type with a 64-bit size header and only the first 0..12 bytes of its payload, " +
			"then 1..3 stacked structure-aware hostile mutations of a PRNG-chosen seed (word substitution with boundary values biased to count/length offsets, version/flags, size-field corruption, stale ancestor sizes, truncation, child removal/duplication/reordering, remove-all-of-type, renaming, largesize rewrite, wrapping, deep nesting, splicing from a second seed, mass duplication). " +
			"Operations per input: DecodeFile {normal,lazy} x flags {0,ISM,StartOnMoof,both}, DecodeFileSR x flags, DecodeBox, DecodeBoxSR, DecodeBoxLazyMdat, DecodeFile/DecodeBox through 1-byte and short-chunk readers; on every decoded structure Size, Info at '', all:1, all:2 and a box-specific level string, Encode and EncodeSW (files: both FragEncModes); 1 in 50 inputs through the mp4ff-info binary. " +
			"Oracle: no panic, no worker death, cpu <= 2 s + 20 us/byte (RUSAGE delta, re-measured 2x before reporting; hard hangs via the watchdog), bytes allocated <= 8 MiB + 1024 B/byte (runtime/metrics /gc/heap/allocs:bytes delta, re-measured). " +
			"non-trivial = at least one decode operation accepted the input or got past the first box header (input >= 8 bytes and not rejected by every path at the first header); distinct by input hash.",
		Assumptions: []string{
			"CPU and allocation bounds are deliberately loose constants (>= 8x head-room over the largest legitimate observation, stated in evidence as max ratios)",
			"inputs are at most 256 KiB",
		},
		Setup:           setup,
		NumCases:        numCases,
		Run:             run,
		Replay:          replay,
		Finalize:        finalize,
		HangIsViolation: true,
		CaseCPUSec:      60,
		MemLimitMB:      4096,
	})
}

type detail struct {
	Op    string `json:"op"`
	Seed  string `json:"seed_name"`
	Mut   string `json:"mutation"`
	Input string `json:"input_b64"`
}

func run(c *runner.Ctx, idx int) {
	var in []byte
	var name, desc string
	if idx < nAll {
		in, name, desc = seeds[idx].Data, seeds[idx].Name, "none"
	} else {
		s := pickSeed(c.Rand)
		o := pickSeed(c.Rand)
		name = s.Name
		in, desc = mut.Mutate(c.Rand, s.Data, o.Data, mut.Hostile)
		if len(in) > maxInputLen {
			in = in[:maxInputLen]
			desc += "; cap 256KiB"
		}
	}
	exercise(c, in, name, desc, c.Rand.Intn(toolSampleRate) == 0, idx < nAll)
}

// pickSeed prefers small seeds (7 of 8 draws are re-drawn, up to 6 times, while the seed is
// larger than 8 KiB), so that the case list is dominated by cheap inputs
// while every seed stays reachable.
func pickSeed(r *runner.Rand) corpus.Seed {
	s := seeds[r.Intn(nBase)]
	for t := 0; t < 6 && len(s.Data) > 8<<10; t++ {
		if r.Chance(1, 8) {
			break
		}
		s = seeds[r.Intn(nBase)]
	}
	return s
}

func replay(c *runner.Ctx, raw json.RawMessage) {
	var d detail
	if json.Unmarshal(raw, &d) != nil {
		return
	}
	in, err := base64.StdEncoding.DecodeString(d.Input)
	if err != nil {
		return
	}
	if d.Op == "only:reader1" {
		// reduced replay for heavy witnesses: box-level decode through a 1-byte reader
		m := &meter{c: c, in: in, name: d.Seed, desc: d.Mut, depth: -1}
		m.do("decode-box", "DecodeBox[1-byte reader]", func() { _, _ = mp4.DecodeBox(0, oneByteReader{bytes.NewReader(in)}) })
		m.do("decode-file", "DecodeFile[1-byte reader]", func() { _, _ = mp4.DecodeFile(oneByteReader{bytes.NewReader(in)}) })
		return
	}
	if d.Op == "only:decode-box" || d.Op == "only:decode-file" {
		// reduced replay for heavy witnesses: one slice-reader decode only
		m := &meter{c: c, in: in, name: d.Seed, desc: d.Mut, depth: -1}
		if d.Op == "only:decode-box" {
			m.do("decode-box", "DecodeBoxSR", func() { _, _ = mp4.DecodeBoxSR(0, bits.NewFixedSliceReader(in)) })
		} else {
			m.do("decode-file", "DecodeFileSR", func() { _, _ = mp4.DecodeFileSR(bits.NewFixedSliceReader(in)) })
		}
		return
	}
	if d.Op == "only:info" {
		// reduced replay for heavy witnesses: box-level decode and Info only
		m := &meter{c: c, in: in, name: d.Seed, desc: d.Mut, depth: -1}
		var b mp4.Box
		m.do("decode-box", "DecodeBoxSR", func() { b, _ = mp4.DecodeBoxSR(0, bits.NewFixedSliceReader(in)) })
		if b != nil {
			m.do("info", "Box.Info[all:2]#0", func() { _ = b.Info(io.Discard, "all:2", "", "  ") })
		}
		return
	}
	exercise(c, in, d.Seed, d.Mut, strings.HasPrefix(d.Op, "tool"), true)
}

type meter struct {
	c        *runner.Ctx
	in       []byte
	name     string
	desc     string
	accepted int
	depth    int // nesting depth of the input (lenient scan), -1 = not computed
}

// nestingDepth is a lenient scan for the deepest chain of boxes nested
// directly inside each other (a child header right at one of the known
// prefix offsets of its parent) starting anywhere in the buffer. It is used
// only to classify resource findings.
func nestingDepth(b []byte) int {
	best := 0
	visited := make([]bool, len(b)+1)
	for start := 0; start+8 <= len(b); start++ {
		if visited[start] {
			continue
		}
		pos, end, depth := start, len(b), 0
		for {
			if end-pos < 8 || visited[pos] {
				break
			}
			size := int(uint32(b[pos])<<24 | uint32(b[pos+1])<<16 | uint32(b[pos+2])<<8 | uint32(b[pos+3]))
			hdr := 8
			if size == 1 && end-pos >= 16 {
				hdr = 16
				size = int(uint32(b[pos+12])<<24 | uint32(b[pos+13])<<16 | uint32(b[pos+14])<<8 | uint32(b[pos+15]))
			}
			if size < hdr {
				break
			}
			if size > end-pos {
				size = end - pos // truncated input: the reader path still descends
			}
			c := b[pos+4]
			if c < 0x20 || c > 0x7e && c != 0xa9 {
				break // not a plausible box type
			}
			visited[pos] = true
			depth++
			pre := 0
			switch string(b[pos+4 : pos+8]) {
			case "meta":
				pre = 4
			case "stsd", "dref", "trep":
				pre = 8
			case "mp4a", "enca", "ac-3", "ec-3":
				pre = 28
			case "avc1", "avc3", "hvc1", "hev1", "encv", "av01", "vp08", "vp09":
				pre = 78
			case "wvtt", "evte":
				pre = 8
			}
			end = pos + size
			pos = pos + hdr + pre
		}
		if depth > best {
			best = depth
		}
	}
	return best
}

// shapeClass classifies the input for resource findings: the cost of decode
// error wrapping and of Info indentation grows with the square of the nesting
// depth, which is one finding class of its own.
func (m *meter) shapeClass() string {
	if m.depth < 0 {
		m.depth = nestingDepth(m.in)
	}
	if m.depth >= 256 {
		return "deep-nesting"
	}
	return ""
}

func cpuNow() float64 {
	var ru syscall.Rusage
	_ = syscall.Getrusage(syscall.RUSAGE_SELF, &ru)
	return float64(ru.Utime.Sec) + float64(ru.Utime.Usec)/1e6 + float64(ru.Stime.Sec) + float64(ru.Stime.Usec)/1e6
}

var allocSample = []metrics.Sample{{Name: "/gc/heap/allocs:bytes"}}

func allocNow() uint64 {
	metrics.Read(allocSample)
	return allocSample[0].Value.Uint64()
}

func (m *meter) det(op string) detail {
	return detail{Op: op, Seed: m.name, Mut: m.desc, Input: base64.StdEncoding.EncodeToString(m.in)}
}

// do runs one operation under the monitors. It returns false if it panicked.
func (m *meter) do(family, op string, f func()) bool {
	c := m.c
	cpuBound := cpuBaseSec + cpuPerByteSec*float64(len(m.in))
	allocBound := uint64(allocBase + allocPerByte*len(m.in))
	c0, a0 := cpuNow(), allocNow()
	pi := c.Guard(f)
	c1, a1 := cpuNow(), allocNow()
	c.Count("operations", 1)
	c.Seen("operation", opClass(op))
	if os.Getenv("C04_TIMING") != "" {
		c.Count("cpu_us/"+opClass(op), int64((c1-c0)*1e6))
	}
	if pi != nil {
		c.Violation(runner.PanicKey(family, pi), fmt.Sprintf("%s panicked: %s\nseed %s, mutation: %s\n%s", op, pi.Value, m.name, m.desc, trimStack(pi.Stack)), m.det(op))
		return false
	}
	c.SetMax("max_cpu_permille_of_bound", int64((c1-c0)/cpuBound*1000))
	c.SetMax("max_alloc_permille_of_bound", int64(float64(a1-a0)/float64(allocBound)*1000))
	if c1-c0 > cpuBound {
		best := c1 - c0
		for i := 0; i < 2; i++ {
			t0 := cpuNow()
			_ = c.Guard(f)
			if d := cpuNow() - t0; d < best {
				best = d
			}
		}
		if best > cpuBound && m.shapeClass() != "" {
			c.Violation(family+"/cpu/"+m.shapeClass(), fmt.Sprintf("%s used %.2f s CPU (min of 3 runs) for %d input bytes nested %d deep; bound %.2f s\nseed %s, mutation: %s", op, best, len(m.in), m.depth, cpuBound, m.name, m.desc), m.det(op))
		} else if best > cpuBound {
			c.Violation(family+"/cpu/"+opClass(op), fmt.Sprintf("%s used %.2f s CPU (min of 3 runs) for %d input bytes; bound %.2f s\nseed %s, mutation: %s", op, best, len(m.in), cpuBound, m.name, m.desc), m.det(op))
		} else {
			c.Inconclusive("cpu-exceedance-not-reproduced")
		}
	}
	if a1-a0 > allocBound {
		site, second := allocSite(c, f)
		if second > allocBound && m.shapeClass() != "" {
			c.Violation(family+"/alloc/"+m.shapeClass(), fmt.Sprintf("%s allocated %d bytes (second run %d) for %d input bytes nested %d deep; bound %d; dominant allocation site: %s\nseed %s, mutation: %s", op, a1-a0, second, len(m.in), m.depth, allocBound, site, m.name, m.desc), m.det(op))
		} else if second > allocBound {
			c.Violation(family+"/alloc/"+site, fmt.Sprintf("%s allocated %d bytes (second run %d) for %d input bytes; bound %d; dominant allocation site (sampled heap profile of the second run): %s\nseed %s, mutation: %s", op, a1-a0, second, len(m.in), allocBound, site, m.name, m.desc), m.det(op))
		} else {
			c.Inconclusive("alloc-exceedance-not-reproduced")
		}
	}
	return true
}

// allocSite re-runs f with heap profiling on and returns the mp4ff function
// (innermost mp4ff frame) on whose stacks most bytes were allocated, and the
// bytes allocated by the re-run.
func allocSite(c *runner.Ctx, f func()) (string, uint64) {
	snapshot := func() map[string]int64 {
		runtime.GC()
		runtime.GC()
		n, _ := runtime.MemProfile(nil, true)
		recs := make([]runtime.MemProfileRecord, n+64)
		n, ok := runtime.MemProfile(recs, true)
		out := map[string]int64{}
		if !ok {
			return out
		}
		for _, r := range recs[:n] {
			frames := runtime.CallersFrames(r.Stack())
			fn := "unknown"
			for {
				fr, more := frames.Next()
				if strings.HasPrefix(fr.Function, "github.com/Eyevinn/mp4ff/") {
					fn = strings.TrimPrefix(fr.Function, "github.com/Eyevinn/mp4ff/")
					break
				}
				if !more {
					break
				}
			}
			out[fn] += r.AllocBytes
		}
		return out
	}
	old := runtime.MemProfileRate
	runtime.MemProfileRate = 64 << 10
	before := snapshot()
	b0 := allocNow()
	_ = c.Guard(f)
	second := allocNow() - b0
	after := snapshot()
	runtime.MemProfileRate = old
	best, bestN := "unknown", int64(0)
	for fn, n := range after {
		if d := n - before[fn]; d > bestN && fn != "unknown" {
			best, bestN = fn, d
		}
	}
	return best, second
}

func opClass(op string) string {
	if i := strings.IndexAny(op, "[ "); i > 0 {
		return op[:i]
	}
	return op
}

func trimStack(s string) string {
	lines := strings.Split(s, "\n")
	var out []string
	on := false
	for _, l := range lines {
		if strings.HasPrefix(l, "panic(") {
			on = true
			continue
		}
		if !on {
			continue
		}
		out = append(out, l)
		if len(out) >= 16 {
			break
		}
	}
	return strings.Join(out, "\n")
}

type oneByteReader struct{ r io.Reader }

func (o oneByteReader) Read(p []byte) (int, error) {
	if len(p) == 0 {
		return 0, nil
	}
	return o.r.Read(p[:1])
}

type chunkReader struct {
	r   io.Reader
	rng *runner.Rand
}

func (o chunkReader) Read(p []byte) (int, error) {
	if len(p) == 0 {
		return 0, nil
	}
	n := 1 + o.rng.Intn(7)
	if n > len(p) {
		n = len(p)
	}
	return o.r.Read(p[:n])
}

var infoLevels = []string{"", "all:1", "all:2"}

var specificLevels = []string{"trun:1,stss:1,senc:2", "stts:1,ctts:1,stsc:1,stsz:1,stco:1", "sidx:1,tfra:1,saiz:1,sbgp:1,sgpd:1,elst:1",
	"esds:2,avcC:1,hvcC:1,pssh:1,emsg:1,subs:1", "all:0,trun:2,sdtp:1,co64:1,cslg:1,leva:1,ssix:1"}

// exercise runs the operations on one input. full=true runs every operation
// (corpus seeds, replays); otherwise a PRNG-chosen subset, so that all
// operations are covered across the case list at a bounded cost per case.
func exercise(c *runner.Ctx, in []byte, name, desc string, tool, full bool) {
	m := &meter{c: c, in: in, name: name, desc: desc, depth: -1}
	rng := c.Rand.Fork()
	pick := func(num, den int) bool { return full || rng.Chance(num, den) }
	flagSets := []mp4.DecFileFlags{mp4.DecNoFlags, mp4.DecISMFlag, mp4.DecStartOnMoof, mp4.DecISMFlag | mp4.DecStartOnMoof}
	if !full {
		flagSets = []mp4.DecFileFlags{flagSets[rng.Intn(4)]}
		if flagSets[0] != mp4.DecNoFlags && rng.Chance(1, 3) {
			flagSets = append(flagSets, mp4.DecNoFlags)
		}
	}
	var files []*mp4.File
	var lazyFiles []*mp4.File
	for _, fl := range flagSets {
		fl := fl
		for _, lazy := range []bool{false, true} {
			lazy := lazy
			if lazy && !pick(1, 2) {
				continue
			}
			op := fmt.Sprintf("DecodeFile[lazy=%v,flags=%d]", lazy, fl)
			m.do("decode-file", op, func() {
				opts := []mp4.Option{mp4.WithDecodeFlags(fl)}
				if lazy {
					opts = append(opts, mp4.WithDecodeMode(mp4.DecModeLazyMdat))
				}
				f, err := mp4.DecodeFile(bytes.NewReader(in), opts...)
				if err == nil && f != nil {
					m.accepted++
					if lazy {
						lazyFiles = append(lazyFiles, f)
					} else {
						files = append(files, f)
					}
				}
			})
		}
		m.do("decode-file", fmt.Sprintf("DecodeFileSR[flags=%d]", fl), func() {
			f, err := mp4.DecodeFileSR(bits.NewFixedSliceReader(in), mp4.WithDecodeFlags(fl))
			if err == nil && f != nil {
				m.accepted++
				files = append(files, f)
			}
		})
	}
	if pick(1, 10) {
		m.do("decode-file", "DecodeFile[1-byte reader]", func() {
			_, err := mp4.DecodeFile(oneByteReader{bytes.NewReader(in)})
			if err == nil {
				m.accepted++
			}
		})
	}
	if pick(1, 10) {
		m.do("decode-file", "DecodeFile[chunk reader]", func() {
			_, _ = mp4.DecodeFile(chunkReader{bytes.NewReader(in), rng})
		})
	}
	var boxes []mp4.Box
	m.do("decode-box", "DecodeBox", func() {
		b, err := mp4.DecodeBox(0, bytes.NewReader(in))
		if err == nil && b != nil {
			m.accepted++
			boxes = append(boxes, b)
		}
	})
	m.do("decode-box", "DecodeBoxSR", func() {
		b, err := mp4.DecodeBoxSR(0, bits.NewFixedSliceReader(in))
		if err == nil && b != nil {
			m.accepted++
			boxes = append(boxes, b)
		}
	})
	if pick(1, 3) {
		m.do("decode-box", "DecodeBoxLazyMdat", func() {
			b, err := mp4.DecodeBoxLazyMdat(0, bytes.NewReader(in))
			if err == nil && b != nil {
				boxes = append(boxes, b)
			}
		})
	}
	if pick(1, 10) {
		m.do("decode-box", "DecodeBox[1-byte reader]", func() {
			_, _ = mp4.DecodeBox(0, oneByteReader{bytes.NewReader(in)})
		})
	}
	// also decode every top-level box after the first one at its own offset
	m.do("decode-box", "DecodeBoxSR[sequence]", func() {
		sr := bits.NewFixedSliceReader(in)
		pos := uint64(0)
		for i := 0; i < 64 && sr.NrRemainingBytes() >= 8; i++ {
			b, err := mp4.DecodeBoxSR(pos, sr)
			if err != nil || b == nil {
				break
			}
			pos += b.Size()
			if i > 0 && len(boxes) < 8 {
				boxes = append(boxes, b)
			}
		}
	})

	spec := specificLevels[rng.Intn(len(specificLevels))]
	// limit the amount of follow-up work per input (the structures from the
	// different flag sets are mostly identical)
	if len(files) > 3 {
		files = append(files[:2], files[len(files)-1])
	}
	levels := append(append([]string{}, infoLevels...), spec)
	if !full {
		if len(files) > 2 {
			files = files[len(files)-2:]
		}
		levels = []string{"all:2", levels[rng.Intn(len(levels))]}
	}
	for i, f := range files {
		f := f
		tag := fmt.Sprintf("#%d", i)
		var size uint64
		m.do("encode", "File.Size"+tag, func() { size = f.Size() })
		for _, lv := range levels {
			lv := lv
			m.do("info", fmt.Sprintf("File.Info[%s]%s", lv, tag), func() { _ = f.Info(io.Discard, lv, "", "  ") })
		}
		for _, mode := range []mp4.EncFragFileMode{mp4.EncModeSegment, mp4.EncModeBoxTree} {
			mode := mode
			m.do("encode", fmt.Sprintf("File.Encode[mode=%d]%s", mode, tag), func() {
				f.FragEncMode = mode
				_ = f.Encode(io.Discard)
			})
			if size <= uint64(4*len(in)+(1<<20)) {
				m.do("encode", fmt.Sprintf("File.EncodeSW[mode=%d]%s", mode, tag), func() {
					f.FragEncMode = mode
					sw := bits.NewFixedSliceWriter(int(f.Size()) + 64)
					_ = f.EncodeSW(sw)
				})
			} else {
				c.Count("encodesw_skipped_size_inflated", 1)
			}
		}
	}
	if len(lazyFiles) > 1 {
		lazyFiles = lazyFiles[:1]
	}
	for _, f := range lazyFiles {
		f := f
		m.do("info", "LazyFile.Info[all:1]", func() { _ = f.Info(io.Discard, "all:1", "", "  ") })
		m.do("encode", "LazyFile.Encode", func() { _ = f.Encode(io.Discard) })
	}
	if len(boxes) > 6 {
		boxes = boxes[:6]
	}
	if !full && len(boxes) > 3 {
		boxes = append(boxes[:2], boxes[len(boxes)-1])
	}
	for i, b := range boxes {
		b := b
		tag := fmt.Sprintf("#%d", i)
		var size uint64
		m.do("encode", "Box.Size"+tag, func() { size = b.Size() })
		for _, lv := range levels {
			lv := lv
			m.do("info", fmt.Sprintf("Box.Info[%s]%s", lv, tag), func() { _ = b.Info(io.Discard, lv, "", "  ") })
		}
		m.do("encode", "Box.Encode"+tag, func() { _ = b.Encode(io.Discard) })
		if size <= uint64(4*len(in)+(1<<20)) {
			m.do("encode", "Box.EncodeSW"+tag, func() {
				sw := bits.NewFixedSliceWriter(int(b.Size()) + 64)
				_ = b.EncodeSW(sw)
			})
		}
	}
	if tool {
		runInfoTool(c, m)
	}
	c.Count("inputs", 1)
	kind := "mutant"
	if full {
		kind = "seed"
		if i := strings.Index(name, "#"); i >= 0 {
			kind = "crafted:" + strings.SplitN(name[i+1:], "-", 2)[0]
		}
	}
	c.Seen("input_kind", kind)
	for _, d := range strings.Split(desc, "; ") {
		if full {
			continue
		}
		for _, w := range strings.Fields(d) {
			if w[0] >= 'a' && w[0] <= 'z' {
				c.Seen("mutation", w)
				break
			}
		}
	}
	c.Seen("accepted_by_n_paths", fmt.Sprint(m.accepted))
	if len(in) > 0 {
		c.Seen("input_len_class", lenClass(len(in)))
	}
	if m.accepted > 0 {
		c.Count("inputs_accepted_by_some_path", 1)
	}
	if len(in) >= 8 {
		c.Nontrivial(runner.Hash64(in))
	}
	if c.WantSample() && c.Idx >= nAll {
		c.Sample(map[string]interface{}{"seed": name, "mutation": desc, "len": len(in), "accepted_by_paths": m.accepted, "first_bytes_hex": fmt.Sprintf("%x", in[:minInt(len(in), 48)])})
	}
}

func lenClass(n int) string {
	switch {
	case n < 16:
		return "<16"
	case n < 64:
		return "16-63"
	case n < 1024:
		return "64-1023"
	case n < 16<<10:
		return "1K-16K"
	case n < 64<<10:
		return "16K-64K"
	}
	return ">=64K"
}

func minInt(a, b int) int {
	if a < b {
		return a
	}
	return b
}

func runInfoTool(c *runner.Ctx, m *meter) {
	bin := filepath.Join(c.Env.BinDir, "tools", "mp4ff-info")
	if _, err := os.Stat(bin); err != nil {
		c.Inconclusive("mp4ff-info binary missing")
		return
	}
	p := filepath.Join(c.Env.Scratch, "in.mp4")
	if err := os.WriteFile(p, m.in, 0o644); err != nil {
		return
	}
	for _, args := range [][]string{{"-l", "all:1", p}, {p}} {
		cmd := exec.Command(bin, args...)
		var stderr bytes.Buffer
		cmd.Stdout = io.Discard
		cmd.Stderr = &stderr
		done := make(chan error, 1)
		if err := cmd.Start(); err != nil {
			c.Inconclusive("mp4ff-info start failed")
			return
		}
		go func() { done <- cmd.Wait() }()
		select {
		case <-done:
		case <-time.After(120 * time.Second):
			_ = cmd.Process.Kill()
			<-done
			c.Inconclusive("mp4ff-info wall watchdog")
			continue
		}
		c.Count("tool_runs", 1)
		se := stderr.String()
		if strings.Contains(se, "panic:") || strings.Contains(se, "goroutine ") || strings.Contains(se, "fatal error:") {
			frame := "unknown"
			for _, l := range strings.Split(se, "\n") {
				if strings.HasPrefix(l, "github.com/Eyevinn/mp4ff") || strings.HasPrefix(l, "main.") {
					if i := strings.LastIndex(l, "("); i > 0 {
						l = l[:i]
					}
					frame = strings.TrimPrefix(l, "github.com/Eyevinn/mp4ff/")
					break
				}
			}
			c.Violation("tool-info/"+frame+"/crash", "mp4ff-info crashed: "+se[:minInt(len(se), 1200)], m.det("tool mp4ff-info "+strings.Join(args[:len(args)-1], " ")))
		}
	}
}

func finalize(a *runner.Agg) {
	if a.Counters["inputs_accepted_by_some_path"] == 0 {
		a.Nothing = "no input was accepted by any decode path"
	}
}
