// Package c17 decides property C17 (SEI messages survive write/parse round
// trips): message lists through sei.WriteSEIMessages -> independent framing
// model (ref/sei) -> sei.ExtractSEIData and avc/hevc ParseSEINalu; typed
// messages through Payload()/Size()/Decode over the clock-timestamp flag
// lattice; pass-through messages through their decoders.
package c17

import (
	"encoding/json"
	"fmt"

	refsei "verifharness/ref/sei"
	"verifharness/runner"
)

type block struct {
	kind string
	a, b int
}

var typedBlocks []block

func init() {
	for n := 0; n <= 3; n++ {
		typedBlocks = append(typedBlocks, block{"timecode", n, 0})
	}
	for ps := 0; ps <= 8; ps++ {
		typedBlocks = append(typedBlocks, block{"pictiming-avc", ps, 0}, block{"pictiming-avc", ps, 1})
	}
	typedBlocks = append(typedBlocks, block{"mdcv", 0, 0}, block{"cll", 0, 0}, block{"general", 0, 0},
		block{"registered", 0, 0}, block{"cea608", 0, 0}, block{"unregistered", 0, 0})
	for f := 0; f < 16; f++ {
		typedBlocks = append(typedBlocks, block{"pictiming-hevc", f, 0})
	}
}

const listsPerCase = 100

func numListCases(tier string) int {
	if tier == "thorough" {
		return 100000
	}
	return 1500
}

func reps(tier string) int {
	if tier == "thorough" {
		return 4
	}
	return 1
}

func init() {
	runner.Register(&runner.Prop{
		ID: "C17",
		Rule: "Case list = 44 typed blocks + N list blocks of 100 lists (quick N=1 500, thorough N=100 000). " +
			"List: 1..8 messages, type from {0..9,45,128,136,137,144,254,255,256,509,510,511,1000,70000} or random <300, size from {0,1,2,3,7,8,9,15,16,17,24,254,255,256,509,510,511} or random <40 (2.5% of lists: up to 5000), " +
			"payload bytes from {00,01,02,03,04,5a,80,ff} (all-zero / all-ff / random variants, zero or 0x80 endings, and zero-free bodies with alphabet bytes only in the first and last three positions - half of the payloads of 254 bytes and more - so that escapes arise only across message boundaries); two thirds of the messages of a typed type (1,4,5,136,137,144) carry content valid for that type (typed library values built from the reference description, CEA-608 cc_data, >=8/>=16 byte user data, HEVC pic_timing for the SPS), the rest arbitrary bytes incl. too short ones. " +
			"Each list: WriteSEIMessages -> bytes compared with the reference framing (ff-run type/size, payload, 0x80, reference escaper) -> ExtractSEIData and avc/hevc ParseSEINalu (SPS nil / without VUI / VUI / NAL,VCL,both HRD; HEVC VUI with every reachable pic_timing parameter combination) read the reference stream. " +
			"Typed blocks: TimeCodeSEI for 0..3 clocks and PicTimingAvcSEI for pict_struct 0..8 with and without CbpDbpDelay: one focus clock runs through all 41 flag shapes (absent; units x discontinuity x cnt_dropped x {full, none, S, SM, SMH}) x time_offset_length 0..31 x value classes {zero, one, max, random, escape-like}, other clocks random, canonical form (non-coded fields zero); " +
			"137/144 boundary and random values; pass-through: general (both codecs), registered, CEA-608, unregistered, HEVC pic_timing for all 16 external flag combinations with valid and arbitrary payloads. " +
			"distinct_nontrivial counts distinct blocks (hash of the block's first cases) in which at least one round trip was completed and compared; evaluations counts individual lists / typed values.",
		Assumptions: []string{
			"reference SEI framing and the typed bit layouts are written from ISO/IEC 14496-10 7.3.2.3, D.1.3 and ISO/IEC 23008-2 7.3.5, D.2.3, D.2.27, D.2.28, D.2.35 in ref/sei (no mp4ff import)",
			"an SEI RBSP holds at least one message: the empty list is outside the domain",
			"typed values are canonical: fields that the syntax does not code are zero, values fit their coded width, pict_struct is 0..8 (9..15 are reserved and rejected by the decoder), len(Clocks) matches pict_struct (AVC) / is 0..3 (HEVC), every AVC clock carries the message's time_offset_length; TimeCodeSEI.TimeOffsetValue holds the raw time_offset_value bits",
			"ParseSEINalu may return a 'sei decode' error for a list that contains arbitrary bytes under a typed type; it may never panic, never fail in the framing layer, and never fail when all typed messages are valid",
			"the spec-layout comparison of typed payloads (seen: layout_vs_spec) is an observation, not part of the verdict: the statement only relates Payload(), Size() and Decode",
		},
		NumCases: func(env *runner.Env) int { return len(typedBlocks) + numListCases(env.Tier) },
		Run:      run,
		Replay:   replay,
		Finalize: finalize,
	})
}

type witness struct {
	Kind  string     `json:"kind"` // list | typed
	List  *listCase  `json:"list,omitempty"`
	Typed *typedCase `json:"typed,omitempty"`
}

func replay(c *runner.Ctx, detail json.RawMessage) {
	var w witness
	if err := json.Unmarshal(detail, &w); err != nil {
		c.Inconclusive("replay: bad detail: " + err.Error())
		return
	}
	switch {
	case w.Kind == "list" && w.List != nil:
		checkList(c, w.List)
	case w.Kind == "typed" && w.Typed != nil:
		if w.Typed.Kind == "cea608" {
			w.Typed.F1, w.Typed.F2 = nil, nil
		}
		checkTyped(c, w.Typed)
	default:
		c.Inconclusive("replay: unknown witness kind " + w.Kind)
	}
}

func run(c *runner.Ctx, idx int) {
	if idx < len(typedBlocks) {
		runTypedBlock(c, typedBlocks[idx])
		return
	}
	blk := idx - len(typedBlocks)
	var ok int64
	var h [][]byte
	for i := 0; i < listsPerCase; i++ {
		lc := genList(c.Rand)
		if checkList(c, lc) {
			ok++
		}
		if i < 3 {
			b, _ := json.Marshal(lc)
			h = append(h, b)
		}
		if i == 2 && c.WantSample() {
			c.Sample(map[string]interface{}{"block": blk, "example_list": lc})
		}
	}
	c.Evals(listsPerCase)
	c.Count("lists", listsPerCase)
	c.Count("lists_ok", ok)
	c.Seen("block_kind", "lists")
	if ok > 0 {
		c.Nontrivial(runner.Hash64(h...))
	}
}

func runTypedBlock(c *runner.Ctx, b block) {
	r := c.Rand
	var n, ok int64
	var first []byte
	do := func(tc *typedCase) {
		n++
		if checkTyped(c, tc) {
			ok++
		}
		if n == 7 {
			first, _ = json.Marshal(tc)
			if c.WantSample() {
				c.Sample(map[string]interface{}{"block": fmt.Sprintf("%s/%d/%d", b.kind, b.a, b.b), "example_case": tc})
			}
		}
	}
	rp := reps(c.Env.Tier)
	switch b.kind {
	case "timecode":
		if b.a == 0 {
			do(&typedCase{Kind: "timecode", TC: &refsei.HEVCTimeCode{}})
			break
		}
		it := 0
		for rep := 0; rep < rp; rep++ {
			for shape := 0; shape < nClockShapes; shape++ {
				for ol := uint(0); ol < 32; ol++ {
					for vc := 0; vc < nValueClasses; vc++ {
						it++
						do(&typedCase{Kind: "timecode", TC: genTimeCode(r, b.a, it%b.a, shape, ol, vc)})
					}
				}
			}
		}
	case "pictiming-avc":
		ps := uint(b.a)
		cnt := refsei.NumClockTS(ps)
		it := 0
		for rep := 0; rep < rp; rep++ {
			for shape := 0; shape < nClockShapes; shape++ {
				for ol := uint(0); ol < 32; ol++ {
					for vc := 0; vc < nValueClasses; vc++ {
						it++
						pt := genPicTiming(r, ps, it%cnt, shape, ol, vc, b.b == 1, genLen(r), genLen(r))
						do(&typedCase{Kind: "pictiming-avc", PT: pt, TimeOffsetLen: ol, InitialLenMinus1: byte(r.Intn(32))})
					}
				}
			}
		}
	case "mdcv":
		// one field at a time through the boundary values, then random
		for f := 0; f < 10; f++ {
			for _, v := range u32Bound {
				m := &refsei.MDCV{}
				switch {
				case f < 3:
					m.PrimX[f] = uint16(v)
				case f < 6:
					m.PrimY[f-3] = uint16(v)
				case f == 6:
					m.WhiteX = uint16(v)
				case f == 7:
					m.WhiteY = uint16(v)
				case f == 8:
					m.MaxLum = v
				default:
					m.MinLum = v
				}
				do(&typedCase{Kind: "mdcv", MDCV: m})
			}
		}
		for i := 0; i < 3000*rp; i++ {
			do(&typedCase{Kind: "mdcv", MDCV: genMDCV(r)})
		}
	case "cll":
		for _, a := range u16Bound {
			for _, bb := range u16Bound {
				do(&typedCase{Kind: "cll", CLL: &refsei.CLL{MaxCLL: a, MaxFALL: bb}})
			}
		}
		for i := 0; i < 3000*rp; i++ {
			do(&typedCase{Kind: "cll", CLL: genCLL(r)})
		}
	case "general":
		for i := 0; i < 3000*rp; i++ {
			t := listTypes[r.Intn(len(listTypes))]
			if r.Chance(1, 3) {
				t = uint(r.Intn(400))
			}
			size := listSizes[r.Intn(len(listSizes))]
			do(&typedCase{Kind: "general", Type: t, Payload: genPayloadBytes(r, size)})
		}
	case "registered":
		for i := 0; i < 1500*rp; i++ {
			p := genPayloadBytes(r, 8+listSizes[r.Intn(len(listSizes))])
			if i%3 == 0 {
				// nearly the CEA-608 prefix: one byte off
				copy(p, refsei.CEA608Header)
				p[r.Intn(8)] ^= 1 << uint(r.Intn(8))
			}
			do(&typedCase{Kind: "registered", Type: 4, Payload: p, Valid: true})
		}
	case "cea608":
		for i := 0; i < 1500*rp; i++ {
			var tr []refsei.CCTriple
			for k := r.Intn(32); k > 0; k-- {
				t := refsei.CCTriple{Valid: r.Chance(3, 4), Type: uint(r.Intn(4)), D1: byte(r.Intn(256)), D2: byte(r.Intn(256))}
				if r.Chance(1, 5) {
					t.D1, t.D2 = byte(r.PickInt(0, 0x80)), byte(r.PickInt(0, 0x80)) // empty after parity strip
				}
				tr = append(tr, t)
			}
			p, f1, f2 := refsei.CEA608Payload(tr)
			if i%6 == 5 {
				// cc_data cut short (from just the 8-byte prefix on): may be rejected, must not crash
				do(&typedCase{Kind: "cea608", Type: 4, Payload: p[:8+r.Intn(len(p)-8)], Valid: false})
				continue
			}
			do(&typedCase{Kind: "cea608", Type: 4, Payload: p, Valid: true, F1: f1, F2: f2})
		}
	case "unregistered":
		for i := 0; i < 1500*rp; i++ {
			do(&typedCase{Kind: "unregistered", Type: 5, Payload: genPayloadBytes(r, 16+listSizes[r.Intn(len(listSizes))]), Valid: true})
		}
	case "pictiming-hevc":
		for i := 0; i < 1000*rp; i++ {
			par := genHEVCParams(r, b.a)
			if i%5 == 4 {
				do(&typedCase{Kind: "pictiming-hevc", Type: 1, Par: par, Payload: genPayloadBytes(r, r.Intn(24)), Valid: false})
				continue
			}
			p := genHEVCPicTiming(r, par, i%nValueClasses)
			do(&typedCase{Kind: "pictiming-hevc", Type: 1, Par: par, Payload: refsei.PayloadHEVC(p.Bits(par)), Valid: true})
		}
	}
	c.Evals(n)
	c.Count("typed_values", n)
	c.Count("typed_values_ok", ok)
	c.Seen("block_kind", "typed:"+b.kind)
	if ok > 0 {
		c.Nontrivial(runner.Hash64([]byte(fmt.Sprintf("%s/%d/%d", b.kind, b.a, b.b)), first))
	}
}

func finalize(a *runner.Agg) {
	for _, k := range []string{"timecode", "pictiming-avc", "mdcv", "cll", "general", "registered", "cea608", "unregistered", "pictiming-hevc"} {
		if a.Seen["typed_kind"][k] == 0 {
			a.Note("typed/pass-through kind %s was not exercised", k)
		}
	}
	for _, k := range []string{"avc:*sei.PicTimingAvcSEI", "hevc:*sei.TimeCodeSEI", "hevc:*sei.MasteringDisplayColourVolumeSEI",
		"hevc:*sei.ContentLightLevelInformationSEI", "hevc:*sei.PicTimingHevcSEI", "avc:*sei.CEA608sei", "avc:*sei.RegisteredSEI", "avc:*sei.UnregisteredSEI"} {
		if a.Seen["parse_nalu_message_go_type"][k] == 0 {
			a.Note("ParseSEINalu never returned a %s", k)
		}
	}
	if a.Counters["list_escapes_in_reference_nal_payload"] == 0 {
		a.Note("no message list needed an emulation prevention byte")
	}
	if a.Seen["timecode_syntax_bits_mod_8"]["0"] == 0 {
		a.Note("no TimeCodeSEI whose syntax elements fill whole bytes was generated")
	}
}
