package c17

import (
	"bytes"
	"fmt"
	"reflect"

	"github.com/Eyevinn/mp4ff/sei"

	refsei "verifharness/ref/sei"
	"verifharness/runner"
)

// typedCase is one typed / pass-through message check (self-contained).
type typedCase struct {
	Kind string `json:"kind"` // timecode | pictiming-avc | mdcv | cll | general | registered | cea608 | unregistered | pictiming-hevc

	TC               *refsei.HEVCTimeCode `json:"timecode,omitempty"`
	PT               *refsei.AVCPicTiming `json:"pictiming,omitempty"`
	TimeOffsetLen    uint                 `json:"time_offset_length,omitempty"`
	InitialLenMinus1 byte                 `json:"initial_cpb_removal_delay_length_minus1,omitempty"`
	MDCV             *refsei.MDCV         `json:"mdcv,omitempty"`
	CLL              *refsei.CLL          `json:"cll,omitempty"`

	Type    uint                        `json:"type,omitempty"`
	Payload hexBytes                    `json:"payload,omitempty"`
	Par     *refsei.HEVCPicTimingParams `json:"hevc_params,omitempty"`
	Valid   bool                        `json:"payload_valid_for_params,omitempty"`
	F1, F2  hexBytes                    `json:"-"`
}

// firstDiff names the first field in which two values of the same struct
// type differ (field path without indices), "" if equal.
func firstDiff(a, b reflect.Value) string {
	if a.Kind() != b.Kind() {
		return "kind"
	}
	switch a.Kind() {
	case reflect.Ptr, reflect.Interface:
		if a.IsNil() || b.IsNil() {
			if a.IsNil() != b.IsNil() {
				return "nil-vs-set"
			}
			return ""
		}
		return firstDiff(a.Elem(), b.Elem())
	case reflect.Struct:
		for i := 0; i < a.NumField(); i++ {
			if d := firstDiff(a.Field(i), b.Field(i)); d != "" {
				name := a.Type().Field(i).Name
				if d == "." {
					return name
				}
				return name + "." + d
			}
		}
		return ""
	case reflect.Slice, reflect.Array:
		if a.Len() != b.Len() {
			return "len"
		}
		for i := 0; i < a.Len(); i++ {
			if d := firstDiff(a.Index(i), b.Index(i)); d != "" {
				return d
			}
		}
		return ""
	case reflect.Bool:
		if a.Bool() != b.Bool() {
			return "."
		}
	case reflect.Int, reflect.Int8, reflect.Int16, reflect.Int32, reflect.Int64:
		if a.Int() != b.Int() {
			return "."
		}
	case reflect.Uint, reflect.Uint8, reflect.Uint16, reflect.Uint32, reflect.Uint64:
		if a.Uint() != b.Uint() {
			return "."
		}
	case reflect.String:
		if a.String() != b.String() {
			return "."
		}
	}
	return ""
}

func msgDiff(got, want sei.SEIMessage) string {
	if got == nil {
		return "nil-message"
	}
	gv, wv := reflect.ValueOf(got), reflect.ValueOf(want)
	for gv.Kind() == reflect.Ptr && !gv.IsNil() {
		gv = gv.Elem()
	}
	for wv.Kind() == reflect.Ptr && !wv.IsNil() {
		wv = wv.Elem()
	}
	if gv.Type() != wv.Type() {
		return "dynamic-type"
	}
	d := firstDiff(gv, wv)
	if d == "" && !reflect.DeepEqual(gv.Interface(), wv.Interface()) {
		// e.g. nil vs empty slice: not a difference the statement cares about
		return ""
	}
	return d
}

func bitsClass(nbits int) string {
	if nbits%8 == 0 {
		return "payload-bits-multiple-of-8"
	}
	return "payload-bits-not-multiple-of-8"
}

func layoutObservation(c *runner.Ctx, kind string, lib, spec []byte, nbits int) {
	cat := "layout_vs_spec:" + kind
	switch {
	case bytes.Equal(lib, spec):
		c.Seen(cat, "identical")
	case len(lib) == len(spec) && nbits%8 != 0 && bytes.Equal(lib[:len(lib)-1], spec[:len(spec)-1]) &&
		lib[len(lib)-1]>>uint(8-nbits%8) == spec[len(spec)-1]>>uint(8-nbits%8):
		c.Seen(cat, "syntax-elements-identical,alignment-bits-differ")
	default:
		c.Seen(cat, "syntax-elements-differ")
	}
}

// serialise calls Type/Size/Payload of a message under a guard.
func serialise(c *runner.Ctx, fam string, x sei.SEIMessage, wit interface{}) (typ uint, size uint, pl []byte, ok bool) {
	pi := c.Guard(func() {
		typ = x.Type()
		size = x.Size()
		pl = x.Payload()
	})
	if pi != nil {
		c.Violation(runner.PanicKey(fam+"/serialise-panic", pi), "Type/Size/Payload panicked: "+pi.Value, wit)
		return 0, 0, nil, false
	}
	// the payload handed out by the previous message of this family is still in the caller's hands
	// (e.g. wrapped in NewSEIData and queued for writing): serialising another message must not change it
	if h := heldPayloads[fam]; h != nil && !bytes.Equal(h.slice, h.copy) {
		c.Violation(fam+"/earlier-payload-changed-by-later-call", fmt.Sprintf("the slice returned by an earlier Payload() was %x and reads %x after Payload() of another message (%x)", h.copy, h.slice, pl), wit)
	}
	heldPayloads[fam] = &heldPayload{slice: pl, copy: append([]byte(nil), pl...)}
	return typ, size, pl, true
}

type heldPayload struct{ slice, copy []byte }

var heldPayloads = map[string]*heldPayload{}

// roundTrip checks Size()==len(Payload()), the type and Decode(Payload())==x
// through every decoder entry given.
func roundTrip(c *runner.Ctx, fam string, x sei.SEIMessage, wantType uint, cls string, wit interface{},
	decoders map[string]func(*sei.SEIData) (sei.SEIMessage, error)) ([]byte, bool) {
	typ, size, pl, ok := serialise(c, fam, x, wit)
	if !ok {
		return nil, false
	}
	good := true
	if typ != wantType {
		c.Violation(fam+"/type", fmt.Sprintf("Type() = %d, want %d", typ, wantType), wit)
		good = false
	}
	if int(size) != len(pl) {
		c.Violation(fam+"/size-vs-payload/"+cls, fmt.Sprintf("Size() = %d, len(Payload()) = %d (payload %x)", size, len(pl), pl), wit)
		good = false
	}
	for name, dec := range decoders {
		var got sei.SEIMessage
		var err error
		plCopy := append([]byte(nil), pl...)
		pi := c.Guard(func() { got, err = dec(sei.NewSEIData(typ, plCopy)) })
		switch {
		case pi != nil:
			c.Violation(runner.PanicKey(fam+"/decode-panic", pi), name+" panicked on the message's own payload "+fmt.Sprintf("%x", pl)+": "+pi.Value, wit)
			good = false
		case err != nil:
			c.Violation(fam+"/decode-error/"+cls, fmt.Sprintf("%s(Payload() = %x): %v", name, pl, err), wit)
			good = false
		default:
			if d := msgDiff(got, x); d != "" {
				c.Violation(fam+"/roundtrip/"+d, fmt.Sprintf("%s(x.Payload()) != x in field %s: payload %x, decoded %+v, x = %+v", name, d, pl, deref(got), deref(x)), wit)
				good = false
			}
		}
		c.Seen("decoder_entry", name)
	}
	return pl, good
}

func deref(m sei.SEIMessage) interface{} {
	v := reflect.ValueOf(m)
	for v.Kind() == reflect.Ptr && !v.IsNil() {
		v = v.Elem()
	}
	if v.IsValid() && v.CanInterface() {
		return v.Interface()
	}
	return m
}

// passThrough checks that a decoded message reports the input type and
// returns the input payload unchanged.
func passThrough(c *runner.Ctx, fam string, got sei.SEIMessage, typ uint, payload []byte, wit interface{}) bool {
	if got == nil {
		c.Violation(fam+"/nil-message", "decoder returned a nil message and a nil error", wit)
		return false
	}
	gt, gs, gp, ok := serialise(c, fam, got, wit)
	if !ok {
		return false
	}
	good := true
	if gt != typ {
		c.Violation(fam+"/type", fmt.Sprintf("Type() = %d, input type %d", gt, typ), wit)
		good = false
	}
	if !bytes.Equal(gp, payload) {
		c.Violation(fam+"/payload-changed", fmt.Sprintf("Payload() = %x, input payload %x", gp, payload), wit)
		good = false
	}
	if int(gs) != len(payload) {
		c.Violation(fam+"/size", fmt.Sprintf("Size() = %d, input payload has %d bytes", gs, len(payload)), wit)
		good = false
	}
	return good
}

type decFn = func(*sei.SEIData) (sei.SEIMessage, error)

func viaCodec(codec sei.Codec) decFn {
	return func(sd *sei.SEIData) (sei.SEIMessage, error) { return sei.DecodeSEIMessage(sd, codec) }
}

// checkTyped runs one typed case; true if everything held.
func checkTyped(c *runner.Ctx, tc *typedCase) bool {
	wit := &witness{Kind: "typed", Typed: tc}
	c.Seen("typed_kind", tc.Kind)
	switch tc.Kind {
	case "timecode":
		x := libTimeCode(tc.TC)
		w := tc.TC.Bits()
		nbits := w.NBits()
		pl, ok := roundTrip(c, "typed/timecode", x, sei.SEITimeCodeType, bitsClass(nbits), wit, map[string]decFn{
			"DecodeTimeCodeSEI": sei.DecodeTimeCodeSEI, "DecodeSEIMessage(HEVC)": viaCodec(sei.HEVC)})
		c.Seen("timecode_nr_clocks", fmt.Sprint(len(tc.TC.Clocks)))
		c.Seen("timecode_syntax_bits_mod_8", fmt.Sprint(nbits%8))
		if pl != nil {
			layoutObservation(c, "timecode", pl, refsei.PayloadHEVC(w), nbits)
		}
		return ok
	case "pictiming-avc":
		x := libPicTiming(tc.PT, tc.TimeOffsetLen, tc.InitialLenMinus1)
		w := tc.PT.Bits()
		nbits := w.NBits()
		decs := map[string]decFn{}
		if tc.PT.HasDelays {
			decs["DecodePicTimingAvcSEIHRD(delays)"] = func(sd *sei.SEIData) (sei.SEIMessage, error) {
				in := &sei.CbpDbpDelay{InitialCpbRemovalDelayLengthMinus1: tc.InitialLenMinus1,
					CpbRemovalDelayLengthMinus1: byte(tc.PT.CpbRemovalLen - 1), DpbOutputDelayLengthMinus1: byte(tc.PT.DpbOutputLen - 1)}
				return sei.DecodePicTimingAvcSEIHRD(sd, in, byte(tc.TimeOffsetLen))
			}
		} else {
			decs["DecodePicTimingAvcSEIHRD(nil)"] = func(sd *sei.SEIData) (sei.SEIMessage, error) {
				return sei.DecodePicTimingAvcSEIHRD(sd, nil, byte(tc.TimeOffsetLen))
			}
			if tc.TimeOffsetLen == 0 {
				decs["DecodePicTimingAvcSEI"] = sei.DecodePicTimingAvcSEI
				decs["DecodeSEIMessage(AVC)"] = viaCodec(sei.AVC)
			}
		}
		cls := bitsClass(nbits)
		if tc.PT.HasDelays {
			cls += ",hrd"
		}
		pl, ok := roundTrip(c, "typed/pictiming-avc", x, sei.SEIPicTimingType, cls, wit, decs)
		if ok && tc.PT.HasDelays {
			sharedHRD(c, tc, x, wit)
		}
		c.Seen("pictiming_avc_pic_struct", fmt.Sprint(tc.PT.PicStruct))
		c.Seen("pictiming_avc_syntax_bits_mod_8", fmt.Sprint(nbits%8))
		c.Seen("pictiming_avc_hrd", fmt.Sprint(tc.PT.HasDelays))
		if pl != nil {
			layoutObservation(c, "pictiming-avc", pl, refsei.PayloadAVC(w), nbits)
		}
		return ok
	case "mdcv":
		x := libMDCV(tc.MDCV)
		pl, ok := roundTrip(c, "typed/mdcv", x, sei.SEIMasteringDisplayColourVolumeType, "fixed-24", wit, map[string]decFn{
			"DecodeMasteringDisplayColourVolumeSEI": sei.DecodeMasteringDisplayColourVolumeSEI, "DecodeSEIMessage(HEVC)": viaCodec(sei.HEVC)})
		// the value form (not pointer) is a message too
		if _, ok2 := roundTrip(c, "typed/mdcv", *x, sei.SEIMasteringDisplayColourVolumeType, "fixed-24", wit, map[string]decFn{
			"DecodeMasteringDisplayColourVolumeSEI": sei.DecodeMasteringDisplayColourVolumeSEI}); !ok2 {
			ok = false
		}
		if pl != nil {
			layoutObservation(c, "mdcv", pl, tc.MDCV.Bytes(), 192)
		}
		return ok
	case "cll":
		x := libCLL(tc.CLL)
		pl, ok := roundTrip(c, "typed/cll", x, sei.SEIContentLightLevelInformationType, "fixed-4", wit, map[string]decFn{
			"DecodeContentLightLevelInformationSEI": sei.DecodeContentLightLevelInformationSEI, "DecodeSEIMessage(HEVC)": viaCodec(sei.HEVC)})
		if pl != nil {
			layoutObservation(c, "cll", pl, tc.CLL.Bytes(), 32)
		}
		return ok
	}
	// ---- pass-through kinds
	payload := []byte(tc.Payload)
	fam := "passthrough/" + tc.Kind
	good := true
	run := func(name string, dec decFn, mayReject bool) {
		var got sei.SEIMessage
		var err error
		in := append([]byte(nil), payload...)
		pi := c.Guard(func() { got, err = dec(sei.NewSEIData(tc.Type, in)) })
		c.Seen("decoder_entry", name)
		switch {
		case pi != nil:
			c.Violation(runner.PanicKey(fam+"/panic", pi), fmt.Sprintf("%s(type %d, payload %x) panicked: %s", name, tc.Type, payload, pi.Value), wit)
			good = false
		case err != nil && !mayReject:
			cls := ""
			if tc.Kind == "pictiming-hevc" && bytes.Contains(payload, []byte{0, 0, 3}) {
				cls = "/rbsp-contains-000003"
			}
			c.Violation(fam+"/error-on-valid-payload"+cls, fmt.Sprintf("%s(type %d, payload %x): %v", name, tc.Type, payload, err), wit)
			good = false
		case err != nil:
			c.Count("passthrough_rejected_invalid_payload", 1)
		default:
			if !passThrough(c, fam, got, tc.Type, payload, wit) {
				good = false
			}
			if !bytes.Equal(in, payload) {
				c.Violation(fam+"/input-modified", fmt.Sprintf("%s modified its input payload: %x -> %x", name, payload, in), wit)
				good = false
			}
			if tc.Kind == "cea608" && tc.Valid {
				if m, ok := got.(*sei.CEA608sei); ok {
					if bytes.Equal(m.Field1, tc.F1) && bytes.Equal(m.Field2, tc.F2) {
						c.Seen("cea608_fields_vs_reference", "equal")
					} else {
						c.Seen("cea608_fields_vs_reference", "differ")
					}
				} else {
					c.Seen("cea608_fields_vs_reference", fmt.Sprintf("not-a-CEA608sei:%T", got))
				}
			}
		}
	}
	switch tc.Kind {
	case "general":
		run("DecodeGeneralSEI", func(sd *sei.SEIData) (sei.SEIMessage, error) { return sei.DecodeGeneralSEI(sd), nil }, false)
		if !typedIn(tc.Type, sei.AVC) {
			run("DecodeSEIMessage(AVC)", viaCodec(sei.AVC), false)
		}
		if !typedIn(tc.Type, sei.HEVC) {
			run("DecodeSEIMessage(HEVC)", viaCodec(sei.HEVC), false)
		}
	case "registered", "cea608":
		run("DecodeUserDataRegisteredSEI", sei.DecodeUserDataRegisteredSEI, !tc.Valid)
		run("DecodeSEIMessage(AVC)", viaCodec(sei.AVC), !tc.Valid)
		run("DecodeSEIMessage(HEVC)", viaCodec(sei.HEVC), !tc.Valid)
	case "unregistered":
		run("DecodeUserDataUnregisteredSEI", sei.DecodeUserDataUnregisteredSEI, false)
		run("DecodeSEIMessage(AVC)", viaCodec(sei.AVC), false)
		run("DecodeSEIMessage(HEVC)", viaCodec(sei.HEVC), false)
	case "pictiming-hevc":
		par := libHEVCParams(tc.Par)
		run("DecodePicTimingHevcSEI", func(sd *sei.SEIData) (sei.SEIMessage, error) { return sei.DecodePicTimingHevcSEI(sd, par) }, !tc.Valid)
		flags := 0
		if tc.Par.FrameFieldInfoPresent {
			flags |= 1
		}
		if tc.Par.CpbDpbDelaysPresent {
			flags |= 2
		}
		if tc.Par.SubPicHrdParamsPresent {
			flags |= 4
		}
		if tc.Par.SubPicCpbParamsInPicTiming {
			flags |= 8
		}
		c.Seen("pictiming_hevc_param_flags(ffi=1,cpbdpb=2,subpic=4,subpic_in_pt=8)", fmt.Sprintf("%02d", flags))
		if bytes.Contains(payload, []byte{0, 0, 3}) {
			c.Count("pictiming_hevc_payloads_containing_000003", 1)
		}
	default:
		c.Inconclusive("unknown typed kind " + tc.Kind)
		return false
	}
	return good
}

// typedIn tells whether DecodeSEIMessage has a dedicated decoder for the type.
func typedIn(t uint, codec sei.Codec) bool {
	switch t {
	case 4, 5:
		return true
	case 1:
		return codec == sei.AVC
	case 136, 137, 144:
		return codec == sei.HEVC
	}
	return false
}


// sharedHRD decodes two picture timing messages with different delays through
// ONE caller-owned HRD parameter struct, as a caller does for a stream: the
// first decoded message must not change when the second one is decoded, and
// the caller's struct must not be written to.
func sharedHRD(c *runner.Ctx, tc *typedCase, x *sei.PicTimingAvcSEI, wit interface{}) {
	pt2 := *tc.PT
	pt2.CpbRemovalDelay = (tc.PT.CpbRemovalDelay + 1) & (1<<tc.PT.CpbRemovalLen - 1)
	pt2.DpbOutputDelay = (tc.PT.DpbOutputDelay + 1) & (1<<tc.PT.DpbOutputLen - 1)
	x2 := libPicTiming(&pt2, tc.TimeOffsetLen, tc.InitialLenMinus1)
	shared := &sei.CbpDbpDelay{InitialCpbRemovalDelayLengthMinus1: tc.InitialLenMinus1,
		CpbRemovalDelayLengthMinus1: byte(tc.PT.CpbRemovalLen - 1), DpbOutputDelayLengthMinus1: byte(tc.PT.DpbOutputLen - 1)}
	before := *shared
	var mA, mB sei.SEIMessage
	var errA, errB error
	var plA []byte
	pi := c.Guard(func() {
		mA, errA = sei.DecodePicTimingAvcSEIHRD(sei.NewSEIData(sei.SEIPicTimingType, x.Payload()), shared, byte(tc.TimeOffsetLen))
		if errA == nil && mA != nil {
			plA = append([]byte(nil), mA.Payload()...)
		}
		mB, errB = sei.DecodePicTimingAvcSEIHRD(sei.NewSEIData(sei.SEIPicTimingType, x2.Payload()), shared, byte(tc.TimeOffsetLen))
	})
	c.Count("shared_hrd_sequences", 1)
	if pi != nil || errA != nil || errB != nil || mA == nil || mB == nil {
		return // decode problems are reported by the round-trip check itself
	}
	if *shared != before {
		c.Violation("typed/pictiming-avc/shared-hrd/caller-struct-modified", fmt.Sprintf("DecodePicTimingAvcSEIHRD wrote into the caller's CbpDbpDelay: %+v -> %+v", before, *shared), wit)
		return
	}
	var plA2 []byte
	if pi := c.Guard(func() { plA2 = mA.Payload() }); pi != nil {
		return
	}
	if !bytes.Equal(plA, plA2) {
		c.Violation("typed/pictiming-avc/shared-hrd/earlier-message-changed", fmt.Sprintf("the first decoded message changed when a second message was decoded with the same HRD parameters: payload %x -> %x", plA, plA2), wit)
	}
}
