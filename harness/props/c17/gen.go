package c17

import (
	"encoding/hex"
	"encoding/json"

	"github.com/Eyevinn/mp4ff/sei"

	refsei "verifharness/ref/sei"
	"verifharness/runner"
)

// hexBytes is a byte slice that is hex in JSON.
type hexBytes []byte

func (h hexBytes) MarshalJSON() ([]byte, error) { return json.Marshal(hex.EncodeToString(h)) }
func (h *hexBytes) UnmarshalJSON(b []byte) error {
	var s string
	if err := json.Unmarshal(b, &s); err != nil {
		return err
	}
	d, err := hex.DecodeString(s)
	*h = d
	return err
}

func mask(n uint) uint64 {
	if n >= 64 {
		return ^uint64(0)
	}
	return uint64(1)<<n - 1
}

// value classes for field values
const (
	vcZero = iota
	vcOne
	vcMax
	vcRandom
	vcEscapeLike // small values 0..3 (zero-heavy: creates 00 00 0x byte patterns)
	nValueClasses
)

var vcNames = []string{"zero", "one", "max", "random", "escape-like"}

func fieldValue(r *runner.Rand, vc int, width uint) uint64 {
	if width == 0 {
		return 0
	}
	m := mask(width)
	switch vc {
	case vcZero:
		return 0
	case vcOne:
		return 1 & m
	case vcMax:
		return m
	case vcEscapeLike:
		return uint64(r.Intn(4)) & m
	}
	return r.Uint64() & m
}

// signedValue returns a two's complement value of the given width.
func signedValue(r *runner.Rand, vc int, width uint) int64 {
	if width == 0 {
		return 0
	}
	lo := -(int64(1) << (width - 1))
	hi := int64(1)<<(width-1) - 1
	switch vc {
	case vcZero:
		return 0
	case vcOne:
		if r.Bool() || hi < 1 {
			return -1
		}
		return 1
	case vcMax:
		if r.Bool() {
			return lo
		}
		return hi
	case vcEscapeLike:
		v := int64(r.Intn(4))
		if v > hi {
			v = hi
		}
		return v
	}
	return lo + int64(r.Uint64()%uint64(hi-lo+1))
}

// Clock shapes: 0 = clock_timestamp_flag 0; 1..40 = present with
// (units, discontinuity, cnt_dropped) x time mode {full, none, S, SM, SMH}.
const nClockShapes = 41

func shapeName(s int) string {
	if s == 0 {
		return "absent"
	}
	s--
	return []string{"full", "no-time", "S", "SM", "SMH"}[s%5]
}

// genClock builds a canonical clock (fields that are not coded are zero).
func genClock(r *runner.Rand, avc bool, shape int, offsetLen uint, vc int) refsei.Clock {
	var c refsei.Clock
	if shape == 0 {
		if avc {
			c.OffsetLen = offsetLen // external in AVC: carried even when the clock is absent
		}
		return c
	}
	s := shape - 1
	flags := s / 5
	c.Present = true
	c.UnitsField = flags&1 != 0
	c.Discontinuity = flags&2 != 0
	c.CntDropped = flags&4 != 0
	switch s % 5 {
	case 0:
		c.Full = true
	case 2:
		c.SecondsFlag = true
	case 3:
		c.SecondsFlag, c.MinutesFlag = true, true
	case 4:
		c.SecondsFlag, c.MinutesFlag, c.HoursFlag = true, true, true
	}
	if avc {
		c.CtType = uint(fieldValue(r, vc, 2))
		c.NFrames = uint(fieldValue(r, vc, 8))
	} else {
		c.NFrames = uint(fieldValue(r, vc, 9))
	}
	c.CountingType = uint(fieldValue(r, vc, 5))
	if c.Full || c.SecondsFlag {
		c.Seconds = uint(fieldValue(r, vc, 6))
	}
	if c.Full || c.MinutesFlag {
		c.Minutes = uint(fieldValue(r, vc, 6))
	}
	if c.Full || c.HoursFlag {
		c.Hours = uint(fieldValue(r, vc, 5))
	}
	c.OffsetLen = offsetLen
	if avc {
		c.Offset = signedValue(r, vc, offsetLen)
	} else {
		// the library keeps the raw time_offset_value bits as an unsigned number
		c.Offset = int64(fieldValue(r, vc, offsetLen))
	}
	return c
}

func libClockHEVC(c *refsei.Clock) sei.ClockTS {
	return sei.ClockTS{
		TimeOffsetValue:     uint32(c.Offset),
		NFrames:             uint16(c.NFrames),
		Hours:               byte(c.Hours),
		Minutes:             byte(c.Minutes),
		Seconds:             byte(c.Seconds),
		ClockTimeStampFlag:  c.Present,
		UnitsFieldBasedFlag: c.UnitsField,
		FullTimeStampFlag:   c.Full,
		SecondsFlag:         c.SecondsFlag,
		MinutesFlag:         c.MinutesFlag,
		HoursFlag:           c.HoursFlag,
		DiscontinuityFlag:   c.Discontinuity,
		CntDroppedFlag:      c.CntDropped,
		CountingType:        byte(c.CountingType),
		TimeOffsetLength:    byte(c.OffsetLen),
	}
}

func libClockAVC(c *refsei.Clock) sei.ClockTSAvc {
	return sei.ClockTSAvc{
		CtType:             byte(c.CtType),
		NuitFieldBasedFlag: c.UnitsField,
		CountingType:       byte(c.CountingType),
		NFrames:            byte(c.NFrames),
		Hours:              byte(c.Hours),
		Minutes:            byte(c.Minutes),
		Seconds:            byte(c.Seconds),
		ClockTimeStampFlag: c.Present,
		FullTimeStampFlag:  c.Full,
		SecondsFlag:        c.SecondsFlag,
		MinutesFlag:        c.MinutesFlag,
		HoursFlag:          c.HoursFlag,
		DiscontinuityFlag:  c.Discontinuity,
		CntDroppedFlag:     c.CntDropped,
		TimeOffsetLength:   byte(c.OffsetLen),
		TimeOffsetValue:    int(c.Offset),
	}
}

func libTimeCode(t *refsei.HEVCTimeCode) *sei.TimeCodeSEI {
	x := &sei.TimeCodeSEI{Clocks: make([]sei.ClockTS, 0, len(t.Clocks))}
	for i := range t.Clocks {
		x.Clocks = append(x.Clocks, libClockHEVC(&t.Clocks[i]))
	}
	return x
}

// libPicTiming builds the library value; initialLenMinus1 is the value of
// the CbpDbpDelay field the payload does not depend on.
func libPicTiming(p *refsei.AVCPicTiming, timeOffsetLen uint, initialLenMinus1 byte) *sei.PicTimingAvcSEI {
	x := &sei.PicTimingAvcSEI{
		TimeOffsetLength: byte(timeOffsetLen),
		PictStruct:       byte(p.PicStruct),
		Clocks:           make([]sei.ClockTSAvc, 0, len(p.Clocks)),
	}
	if p.HasDelays {
		x.CbpDbpDelay = &sei.CbpDbpDelay{
			CpbRemovalDelay:                    uint(p.CpbRemovalDelay),
			DpbOutputDelay:                     uint(p.DpbOutputDelay),
			InitialCpbRemovalDelayLengthMinus1: initialLenMinus1,
			CpbRemovalDelayLengthMinus1:        byte(p.CpbRemovalLen - 1),
			DpbOutputDelayLengthMinus1:         byte(p.DpbOutputLen - 1),
		}
	}
	for i := range p.Clocks {
		x.Clocks = append(x.Clocks, libClockAVC(&p.Clocks[i]))
	}
	return x
}

func libMDCV(m *refsei.MDCV) *sei.MasteringDisplayColourVolumeSEI {
	return &sei.MasteringDisplayColourVolumeSEI{
		DisplayPrimariesX: m.PrimX, DisplayPrimariesY: m.PrimY,
		WhitePointX: m.WhiteX, WhitePointY: m.WhiteY,
		MaxDisplayMasteringLuminance: m.MaxLum, MinDisplayMasteringLuminance: m.MinLum,
	}
}

func libCLL(c *refsei.CLL) *sei.ContentLightLevelInformationSEI {
	return &sei.ContentLightLevelInformationSEI{MaxContentLightLevel: c.MaxCLL, MaxPicAverageLightLevel: c.MaxFALL}
}

func libHEVCParams(p *refsei.HEVCPicTimingParams) sei.HEVCPicTimingParams {
	m1 := func(l uint) uint8 {
		if l == 0 {
			return 0
		}
		return uint8(l - 1)
	}
	return sei.HEVCPicTimingParams{
		FrameFieldInfoPresentFlag:              p.FrameFieldInfoPresent,
		CpbDpbDelaysPresentFlag:                p.CpbDpbDelaysPresent,
		SubPicHrdParamsPresentFlag:             p.SubPicHrdParamsPresent,
		SubPicCpbParamsInPicTimingSeiFlag:      p.SubPicCpbParamsInPicTiming,
		AuCbpRemovalDelayLengthMinus1:          m1(p.AuCpbRemovalDelayLen),
		DpbOutputDelayLengthMinus1:             m1(p.DpbOutputDelayLen),
		DpbOutputDelayDuLengthMinus1:           m1(p.DpbOutputDelayDuLen),
		DuCpbRemovalDelayIncrementLengthMinus1: m1(p.DuCpbRemovalDelayIncrementLen),
	}
}

// genTimeCode: n clocks; clock `focus` gets (shape, offsetLen, vc), the others
// are random.
func genTimeCode(r *runner.Rand, n, focus, shape int, offsetLen uint, vc int) *refsei.HEVCTimeCode {
	t := &refsei.HEVCTimeCode{Clocks: make([]refsei.Clock, n)}
	for i := 0; i < n; i++ {
		if i == focus {
			t.Clocks[i] = genClock(r, false, shape, offsetLen, vc)
		} else {
			t.Clocks[i] = genClock(r, false, r.Intn(nClockShapes), uint(r.Intn(32)), r.Intn(nValueClasses))
		}
	}
	return t
}

var lenBoundaries = []uint{1, 2, 7, 8, 9, 15, 16, 17, 23, 24, 25, 31, 32}

func genLen(r *runner.Rand) uint {
	if r.Chance(1, 2) {
		return lenBoundaries[r.Intn(len(lenBoundaries))]
	}
	return uint(1 + r.Intn(32))
}

// genPicTiming: pic_struct decides the number of clocks (Table D-1).
func genPicTiming(r *runner.Rand, picStruct uint, focus, shape int, timeOffsetLen uint, vc int, delays bool, cpbLen, dpbLen uint) *refsei.AVCPicTiming {
	n := refsei.NumClockTS(picStruct)
	p := &refsei.AVCPicTiming{PicStruct: picStruct, Clocks: make([]refsei.Clock, n)}
	if delays {
		p.HasDelays = true
		p.CpbRemovalLen, p.DpbOutputLen = cpbLen, dpbLen
		p.CpbRemovalDelay = fieldValue(r, vc, cpbLen)
		p.DpbOutputDelay = fieldValue(r, vc, dpbLen)
	}
	for i := 0; i < n; i++ {
		if i == focus {
			p.Clocks[i] = genClock(r, true, shape, timeOffsetLen, vc)
		} else {
			p.Clocks[i] = genClock(r, true, r.Intn(nClockShapes), timeOffsetLen, r.Intn(nValueClasses))
		}
	}
	return p
}

var u16Bound = []uint16{0, 1, 2, 3, 0xff, 0x100, 0x300, 0x7fff, 0x8000, 0xfffe, 0xffff}
var u32Bound = []uint32{0, 1, 3, 0xffff, 0x10000, 0x30000, 0x7fffffff, 0x80000000, 0xfffffffe, 0xffffffff}

func genU16(r *runner.Rand) uint16 {
	if r.Chance(1, 2) {
		return u16Bound[r.Intn(len(u16Bound))]
	}
	return uint16(r.Uint64())
}

func genU32(r *runner.Rand) uint32 {
	if r.Chance(1, 2) {
		return u32Bound[r.Intn(len(u32Bound))]
	}
	return r.Uint32()
}

func genMDCV(r *runner.Rand) *refsei.MDCV {
	m := &refsei.MDCV{}
	for i := 0; i < 3; i++ {
		m.PrimX[i], m.PrimY[i] = genU16(r), genU16(r)
	}
	m.WhiteX, m.WhiteY = genU16(r), genU16(r)
	m.MaxLum, m.MinLum = genU32(r), genU32(r)
	return m
}

func genCLL(r *runner.Rand) *refsei.CLL { return &refsei.CLL{MaxCLL: genU16(r), MaxFALL: genU16(r)} }

// payload bytes from the emulation-prevention alphabet plus a few others
var payloadAlphabet = []byte{0x00, 0x00, 0x00, 0x01, 0x02, 0x03, 0x04, 0x5a, 0x80, 0xff}

func genPayloadBytes(r *runner.Rand, n int) []byte {
	b := make([]byte, n)
	mode := r.Intn(6)
	if n >= 254 && r.Bool() || r.Chance(1, 8) {
		mode = 6
	}
	for i := range b {
		switch mode {
		case 6:
			// zero-free body, alphabet bytes only in the first and last three positions: the only 00 00 0x
			// patterns are those formed across the message boundaries (after a size byte 00 of a
			// multiple-of-255 size, before the next type byte or the trailing bits)
			if i < 3 || i >= n-3 {
				b[i] = payloadAlphabet[r.Intn(len(payloadAlphabet))]
			} else {
				b[i] = byte(1 + r.Intn(255))
			}
		case 0: // all zero
		case 1:
			b[i] = byte(r.Intn(256))
		case 2:
			b[i] = 0xff
		default:
			b[i] = payloadAlphabet[r.Intn(len(payloadAlphabet))]
		}
	}
	if n > 0 && r.Chance(1, 6) {
		b[n-1] = 0x80 // looks like rbsp trailing bits
	}
	if n > 1 && r.Chance(1, 6) {
		b[n-1], b[n-2] = 0, 0 // zero run reaching into the next message / trailing bits
	}
	return b
}

// genHEVCParams draws external parameters for HEVC pic_timing; flags are the
// four presence bits (bit0 frame_field_info, bit1 cpb_dpb_delays, bit2
// sub_pic_hrd_params, bit3 sub_pic_cpb_params_in_pic_timing_sei).
func genHEVCParams(r *runner.Rand, flags int) *refsei.HEVCPicTimingParams {
	p := &refsei.HEVCPicTimingParams{
		FrameFieldInfoPresent:      flags&1 != 0,
		CpbDpbDelaysPresent:        flags&2 != 0,
		SubPicHrdParamsPresent:     flags&4 != 0,
		SubPicCpbParamsInPicTiming: flags&8 != 0,
	}
	p.AuCpbRemovalDelayLen = genLen(r)
	p.DpbOutputDelayLen = genLen(r)
	p.DpbOutputDelayDuLen = genLen(r)
	p.DuCpbRemovalDelayIncrementLen = genLen(r)
	if r.Chance(1, 3) {
		// byte-sized fields: zero-heavy values then give 00 00 0x patterns in the RBSP payload
		p.AuCpbRemovalDelayLen = uint(r.PickInt(8, 16, 24, 32))
		p.DpbOutputDelayLen = uint(r.PickInt(8, 16, 24, 32))
	}
	return p
}

func genHEVCPicTiming(r *runner.Rand, par *refsei.HEVCPicTimingParams, vc int) *refsei.HEVCPicTiming {
	p := &refsei.HEVCPicTiming{}
	if par.FrameFieldInfoPresent {
		p.PicStruct = uint(fieldValue(r, vc, 4))
		p.SourceScanType = uint(fieldValue(r, vc, 2))
		p.Duplicate = fieldValue(r, vc, 1) == 1
	}
	if par.CpbDpbDelaysPresent {
		p.AuCpbRemovalDelayMinus1 = fieldValue(r, vc, par.AuCpbRemovalDelayLen)
		p.PicDpbOutputDelay = fieldValue(r, vc, par.DpbOutputDelayLen)
		if par.SubPicHrdParamsPresent {
			p.PicDpbOutputDuDelay = fieldValue(r, vc, par.DpbOutputDelayDuLen)
			if par.SubPicCpbParamsInPicTiming {
				n := 1 + r.Intn(5)
				p.DuCommonCpbRemovalDelay = r.Bool()
				if p.DuCommonCpbRemovalDelay {
					p.DuCommonIncrementMinus1 = fieldValue(r, vc, par.DuCpbRemovalDelayIncrementLen)
				}
				for i := 0; i < n; i++ {
					p.NumNalusInDuMinus1 = append(p.NumNalusInDuMinus1, uint64(r.Intn(9)))
					if !p.DuCommonCpbRemovalDelay && i < n-1 {
						p.DuIncrementMinus1 = append(p.DuIncrementMinus1, fieldValue(r, vc, par.DuCpbRemovalDelayIncrementLen))
					}
				}
			}
		}
	}
	return p
}
