package c17

import (
	"bytes"
	"errors"
	"fmt"
	"io"
	"strings"

	"github.com/Eyevinn/mp4ff/avc"
	"github.com/Eyevinn/mp4ff/hevc"
	"github.com/Eyevinn/mp4ff/sei"

	refsei "verifharness/ref/sei"
	"verifharness/runner"
)

// msgSpec is one message of a list. Kind "data" is a raw (type, payload)
// pair written through sei.NewSEIData; the other kinds are typed library
// values built from the reference description and handed to
// WriteSEIMessages as they are.
type msgSpec struct {
	Kind    string               `json:"kind"` // data | timecode | pictiming-avc | mdcv | cll
	Type    uint                 `json:"type"`
	Payload hexBytes             `json:"payload,omitempty"` // data
	Class   string               `json:"class,omitempty"`   // how the data payload was made (see payloadClass*)
	TC      *refsei.HEVCTimeCode `json:"timecode,omitempty"`
	PT      *refsei.AVCPicTiming `json:"pictiming,omitempty"`
	MDCV    *refsei.MDCV         `json:"mdcv,omitempty"`
	CLL     *refsei.CLL          `json:"cll,omitempty"`
}

// spsSpec describes the parameter sets handed to ParseSEINalu.
type spsSpec struct {
	AVC           string                      `json:"avc"` // nil | no-vui | vui | nal-hrd | vcl-hrd | both-hrd
	CpbLen        uint                        `json:"cpb_removal_delay_length,omitempty"`
	DpbLen        uint                        `json:"dpb_output_delay_length,omitempty"`
	TimeOffsetLen uint                        `json:"time_offset_length,omitempty"`
	HEVC          string                      `json:"hevc"` // nil | no-vui | vui
	HEVCParams    *refsei.HEVCPicTimingParams `json:"hevc_params,omitempty"`
}

type listCase struct {
	Msgs []msgSpec `json:"msgs"`
	SPS  spsSpec   `json:"sps"`
	// Src: the io.ReadSeeker ExtractSEIData reads from ("" = bytes.Reader)
	Src string `json:"src,omitempty"`
}

// Sources other than a bytes.Reader: all seekable (ExtractSEIData takes an
// io.ReadSeeker), none with ReadByte.
type oneByteRS struct{ r io.ReadSeeker }

func (o oneByteRS) Read(p []byte) (int, error) {
	if len(p) == 0 {
		return 0, nil
	}
	return o.r.Read(p[:1])
}
func (o oneByteRS) Seek(off int64, w int) (int64, error) { return o.r.Seek(off, w) }

// eagerEOFRS returns the final bytes together with io.EOF (allowed by io.Reader).
type eagerEOFRS struct {
	b   []byte
	pos int
}

func (d *eagerEOFRS) Read(p []byte) (int, error) {
	n := copy(p, d.b[d.pos:])
	d.pos += n
	if d.pos >= len(d.b) {
		return n, io.EOF
	}
	return n, nil
}

func (d *eagerEOFRS) Seek(off int64, w int) (int64, error) {
	switch w {
	case io.SeekCurrent:
		off += int64(d.pos)
	case io.SeekEnd:
		off += int64(len(d.b))
	}
	if off < 0 || off > int64(len(d.b)) {
		return 0, io.ErrUnexpectedEOF
	}
	d.pos = int(off)
	return off, nil
}

// hesitantRS returns (0, nil) on every other call.
type hesitantRS struct {
	r   io.ReadSeeker
	odd bool
}

func (h *hesitantRS) Read(p []byte) (int, error) {
	h.odd = !h.odd
	if h.odd || len(p) == 0 {
		return 0, nil
	}
	return h.r.Read(p)
}
func (h *hesitantRS) Seek(off int64, w int) (int64, error) { return h.r.Seek(off, w) }

func newSeekSource(kind string, b []byte) io.ReadSeeker {
	switch kind {
	case "one-byte":
		return oneByteRS{bytes.NewReader(b)}
	case "data+EOF":
		return &eagerEOFRS{b: b}
	case "hesitant":
		return &hesitantRS{r: bytes.NewReader(b)}
	}
	return bytes.NewReader(b)
}

const (
	classArbitrary  = "arbitrary"             // any bytes: a typed decoder may reject them
	classValid      = "valid-for-type"        // syntactically valid for the typed decoder of its type
	classValidHEVC1 = "valid-hevc-pic-timing" // HEVC pic_timing payload for SPS.HEVCParams
	classTruncCEA   = "cea608-cc-data-truncated"
)

var listTypes = []uint{0, 1, 2, 3, 4, 5, 6, 7, 8, 9, 45, 128, 136, 137, 144, 254, 255, 256, 509, 510, 511, 1000, 70000}
var listSizes = []int{0, 1, 2, 3, 7, 8, 9, 15, 16, 17, 24, 254, 255, 256, 509, 510, 511}

func (s *spsSpec) avcSPS() *avc.SPS {
	switch s.AVC {
	case "nil":
		return nil
	case "no-vui":
		return &avc.SPS{}
	}
	hrd := func() *avc.HrdParameters {
		return &avc.HrdParameters{InitialCpbRemovalDelayLengthMinus1: 23, CpbRemovalDelayLengthMinus1: s.CpbLen - 1,
			DpbOutputDelayLengthMinus1: s.DpbLen - 1, TimeOffsetLength: s.TimeOffsetLen}
	}
	vui := &avc.VUIParameters{PicStructPresentFlag: true}
	switch s.AVC {
	case "nal-hrd":
		vui.NalHrdParametersPresentFlag, vui.NalHrdParameters = true, hrd()
	case "vcl-hrd":
		vui.VclHrdParametersPresentFlag, vui.VclHrdParameters = true, hrd()
	case "both-hrd":
		vui.NalHrdParametersPresentFlag, vui.NalHrdParameters = true, hrd()
		vui.VclHrdParametersPresentFlag, vui.VclHrdParameters = true, hrd()
	}
	return &avc.SPS{VUI: vui}
}

func (s *spsSpec) hasAVCHRD() bool { return strings.HasSuffix(s.AVC, "-hrd") }

func (s *spsSpec) hevcSPS() *hevc.SPS {
	switch s.HEVC {
	case "nil":
		return nil
	case "no-vui":
		return &hevc.SPS{}
	}
	p := s.HEVCParams
	vui := &hevc.VUIParameters{FrameFieldInfoPresentFlag: p.FrameFieldInfoPresent}
	if p.CpbDpbDelaysPresent || p.SubPicHrdParamsPresent {
		vui.HrdParametersPresentFlag = true
		vui.HrdParameters = &hevc.HrdParameters{
			NalHrdParametersPresentFlag:            p.CpbDpbDelaysPresent,
			SubPicHrdParamsPresentFlag:             p.SubPicHrdParamsPresent,
			SubPicCpbParamsInPicTimingSeiFlag:      p.SubPicCpbParamsInPicTiming,
			AuCpbRemovalDelayLengthMinus1:          uint8(p.AuCpbRemovalDelayLen - 1),
			DpbOutputDelayLengthMinus1:             uint8(p.DpbOutputDelayLen - 1),
			DpbOutputDelayDuLengthMinus1:           uint8(p.DpbOutputDelayDuLen - 1),
			DuCpbRemovalDelayIncrementLengthMinus1: uint8(p.DuCpbRemovalDelayIncrementLen - 1),
		}
	}
	return &hevc.SPS{VUI: vui}
}

// genList draws a message list and the parameter sets to parse it with.
func genList(r *runner.Rand) *listCase {
	lc := &listCase{Src: r.PickStr("", "", "one-byte", "data+EOF", "hesitant")}
	// parameter sets first: type-1 payloads depend on them
	lc.SPS.AVC = r.PickStr("nil", "nil", "no-vui", "vui", "nal-hrd", "vcl-hrd", "both-hrd")
	if lc.SPS.hasAVCHRD() {
		lc.SPS.CpbLen, lc.SPS.DpbLen, lc.SPS.TimeOffsetLen = genLen(r), genLen(r), uint(r.Intn(32))
	}
	lc.SPS.HEVC = r.PickStr("nil", "nil", "no-vui", "vui", "vui")
	if lc.SPS.HEVC == "vui" {
		flags := r.Intn(16)
		if flags&2 == 0 {
			flags &^= 12 // sub-picture parameters are only reachable with an HRD carrying delays
		}
		lc.SPS.HEVCParams = genHEVCParams(r, flags)
	}
	pt1 := r.Intn(3) // what type-1 messages carry: 0 AVC pic_timing, 1 HEVC pic_timing, 2 arbitrary

	n := 1 + r.Intn(8)
	if r.Chance(1, 4) {
		n = 1
	}
	big := r.Chance(1, 40)
	for i := 0; i < n; i++ {
		t := listTypes[r.Intn(len(listTypes))]
		if r.Chance(1, 10) {
			t = uint(r.Intn(300))
		}
		m := msgSpec{Kind: "data", Type: t, Class: classArbitrary}
		size := listSizes[r.Intn(len(listSizes))]
		if r.Chance(1, 4) {
			size = r.Intn(40)
		}
		if big && r.Chance(1, 3) {
			size = r.PickInt(764, 765, 766, 1020, 4096, 5000)
		}
		typedValid := r.Chance(2, 3)
		switch {
		case t == 1 && typedValid && pt1 == 0:
			m.Kind = "pictiming-avc"
			ps := uint(r.Intn(9))
			cnt := refsei.NumClockTS(ps)
			m.PT = genPicTiming(r, ps, r.Intn(cnt), r.Intn(nClockShapes), lc.SPS.TimeOffsetLen, r.Intn(nValueClasses),
				lc.SPS.hasAVCHRD(), lc.SPS.CpbLen, lc.SPS.DpbLen)
		case t == 1 && typedValid && pt1 == 1 && lc.SPS.HEVC == "vui":
			p := genHEVCPicTiming(r, lc.SPS.HEVCParams, r.Intn(nValueClasses))
			m.Payload = refsei.PayloadHEVC(p.Bits(lc.SPS.HEVCParams))
			m.Class = classValidHEVC1
		case t == 4 && typedValid:
			if r.Bool() {
				var tr []refsei.CCTriple
				for k := r.Intn(6); k > 0; k-- {
					tr = append(tr, refsei.CCTriple{Valid: r.Chance(3, 4), Type: uint(r.Intn(4)), D1: byte(r.Intn(256)), D2: byte(r.Intn(256))})
				}
				m.Payload, _, _ = refsei.CEA608Payload(tr)
			} else {
				m.Payload = genPayloadBytes(r, 8+size)
				if bytes.Equal(m.Payload[:8], refsei.CEA608Header) {
					m.Payload[7] = 4
				}
			}
			m.Class = classValid
		case t == 5 && typedValid:
			m.Payload = genPayloadBytes(r, 16+size)
			m.Class = classValid
		case t == 136 && typedValid:
			m.Kind = "timecode"
			nc := r.Intn(4)
			m.TC = genTimeCode(r, nc, r.Intn(nc+1), r.Intn(nClockShapes), uint(r.Intn(32)), r.Intn(nValueClasses))
		case t == 137 && typedValid:
			if r.Bool() {
				m.Kind, m.MDCV = "mdcv", genMDCV(r)
			} else {
				m.Payload, m.Class = genPayloadBytes(r, 24), classValid
			}
		case t == 144 && typedValid:
			if r.Bool() {
				m.Kind, m.CLL = "cll", genCLL(r)
			} else {
				m.Payload, m.Class = genPayloadBytes(r, 4), classValid
			}
		case t == 4 && r.Chance(1, 3):
			// CEA-608 prefix with cc_data cut short (arbitrary for the decoder: it may reject, never crash)
			var tr []refsei.CCTriple
			for k := 1 + r.Intn(4); k > 0; k-- {
				tr = append(tr, refsei.CCTriple{Valid: true, Type: uint(r.Intn(2)), D1: byte(r.Intn(256)), D2: byte(r.Intn(256))})
			}
			full, _, _ := refsei.CEA608Payload(tr)
			m.Payload = full[:8+r.Intn(len(full)-8)]
			m.Class = classTruncCEA
		default:
			m.Payload = genPayloadBytes(r, size)
		}
		if m.Kind != "data" {
			m.Class = "typed-value"
		}
		lc.Msgs = append(lc.Msgs, m)
	}
	return lc
}

// libMessage builds the library message object of a spec.
func (m *msgSpec) libMessage(sps *spsSpec) sei.SEIMessage {
	switch m.Kind {
	case "timecode":
		return libTimeCode(m.TC)
	case "pictiming-avc":
		// avc.ParseSEINalu fills only the two length fields it needs
		return libPicTiming(m.PT, sps.TimeOffsetLen, 0)
	case "mdcv":
		return libMDCV(m.MDCV)
	case "cll":
		return libCLL(m.CLL)
	}
	return sei.NewSEIData(m.Type, append([]byte(nil), m.Payload...))
}

type expectation int

const (
	expPassThrough          expectation = iota // Type() and Payload() equal the written pair
	expTypedEqual                              // the returned message equals the typed value that was written
	expMayReject                               // a typed decoder may reject the bytes; if it accepts, only Type() is compared
	expMayRejectPassThrough                    // may be rejected; if accepted the decoder is a pass-through one: payload unchanged
)

// expect decides what ParseSEINalu owes for message m under the codec.
func expect(m *msgSpec, codec sei.Codec, sps *spsSpec, payloadLen int) expectation {
	switch m.Type {
	case 4:
		if payloadLen < 8 {
			return expMayRejectPassThrough // shorter than the fixed ITU-T T.35 prefix the decoder interprets
		}
		if m.Class == classValid {
			return expPassThrough
		}
		// arbitrary bytes: a CEA-608 prefix with incomplete cc_data may be rejected
		return expMayRejectPassThrough
	case 5:
		if payloadLen < 16 {
			return expMayRejectPassThrough
		}
		return expPassThrough
	case 1:
		if codec == sei.AVC {
			if m.Kind == "pictiming-avc" {
				return expTypedEqual
			}
			return expMayReject
		}
		if sps.HEVC != "vui" {
			return expPassThrough // no SPS/VUI: general message
		}
		if m.Class == classValidHEVC1 {
			return expPassThrough
		}
		return expMayRejectPassThrough
	case 136:
		if codec == sei.AVC {
			return expPassThrough
		}
		if m.Kind == "timecode" {
			return expTypedEqual
		}
		return expMayReject
	case 137, 144:
		if codec == sei.AVC {
			return expPassThrough
		}
		if m.Kind == "mdcv" || m.Kind == "cll" {
			return expTypedEqual
		}
		want := 24
		if m.Type == 144 {
			want = 4
		}
		if payloadLen == want {
			return expPassThrough // decode + re-serialise of a fixed layout is the identity
		}
		return expMayReject
	}
	return expPassThrough
}

func errClass(err error) string {
	switch {
	case err == nil:
		return "nil"
	case errors.Is(err, sei.ErrRbspTrailingBitsMissing):
		return "trailing-bits-missing"
	case strings.Contains(err.Error(), "EOF"):
		return "eof"
	}
	return "other"
}

// checkList runs one list case; true if everything held.
func checkList(c *runner.Ctx, lc *listCase) bool {
	wit := &witness{Kind: "list", List: lc}
	if len(lc.Msgs) == 0 {
		c.Inconclusive("empty list is outside the domain")
		return false
	}
	good := true
	// ---- build the messages, and what they denote: (type, payload) pairs
	msgs := make([]sei.SEIMessage, len(lc.Msgs))
	want := make([]refsei.Msg, len(lc.Msgs))
	pi := c.Guard(func() {
		for i := range lc.Msgs {
			msgs[i] = lc.Msgs[i].libMessage(&lc.SPS)
			want[i] = refsei.Msg{Type: msgs[i].Type(), Payload: append([]byte(nil), msgs[i].Payload()...)}
		}
	})
	if pi != nil {
		c.Violation(runner.PanicKey("list/serialise-panic", pi), "Type()/Payload() of a list element panicked: "+pi.Value, wit)
		return false
	}
	for i := range lc.Msgs {
		if lc.Msgs[i].Kind == "data" && (want[i].Type != lc.Msgs[i].Type || !bytes.Equal(want[i].Payload, lc.Msgs[i].Payload)) {
			c.Violation("list/seidata-accessors", fmt.Sprintf("NewSEIData(%d, %x) reports type %d payload %x", lc.Msgs[i].Type, []byte(lc.Msgs[i].Payload), want[i].Type, want[i].Payload), wit)
			return false
		}
	}
	// ---- write
	var buf bytes.Buffer
	var werr error
	pi = c.Guard(func() { werr = sei.WriteSEIMessages(&buf, msgs) })
	ref := refsei.NALPayload(want)
	switch {
	case pi != nil:
		c.Violation(runner.PanicKey("write/panic", pi), "WriteSEIMessages panicked: "+pi.Value, wit)
		good = false
	case werr != nil:
		c.Violation("write/error", "WriteSEIMessages into a bytes.Buffer: "+werr.Error(), wit)
		good = false
	case !bytes.Equal(buf.Bytes(), ref):
		c.Violation("write/differs-from-reference-framing", fmt.Sprintf("WriteSEIMessages wrote %s, reference framing (ff-run type, ff-run size, payload, 0x80, emulation prevention) %s",
			hexHead(buf.Bytes()), hexHead(ref)), wit)
		good = false
	}
	if back, err := refsei.Parse(ref); err != nil || !sameMsgs(back, want) {
		c.Inconclusive("reference SEI parser does not invert the reference writer (harness self-check)")
		return false
	}
	c.Count("list_escapes_in_reference_nal_payload", int64(len(ref)-len(refsei.RBSP(want))))

	// ---- extract (from the reference stream, so that a writer defect does
	// not mask or fake a parser defect)
	var datas []sei.SEIData
	var eerr error
	c.Seen("extract_source", map[bool]string{true: "bytes.Reader", false: lc.Src}[lc.Src == ""])
	pi = c.Guard(func() { datas, eerr = sei.ExtractSEIData(newSeekSource(lc.Src, ref)) })
	switch {
	case pi != nil:
		c.Violation(runner.PanicKey("extract/panic", pi), "ExtractSEIData panicked: "+pi.Value, wit)
		good = false
	case eerr != nil:
		c.Violation("extract/error/"+errClass(eerr), fmt.Sprintf("ExtractSEIData(%s): %v", hexHead(ref), eerr), wit)
		good = false
	case len(datas) != len(want):
		c.Violation("extract/message-count", fmt.Sprintf("%d messages written, %d extracted from %s", len(want), len(datas), hexHead(ref)), wit)
		good = false
	default:
		for i := range want {
			if datas[i].Type() != want[i].Type {
				c.Violation("extract/type", fmt.Sprintf("message %d: type %d written, %d extracted", i, want[i].Type, datas[i].Type()), wit)
				good = false
				break
			}
			if !bytes.Equal(datas[i].Payload(), want[i].Payload) {
				c.Violation("extract/payload", fmt.Sprintf("message %d (type %d): payload %s written, %s extracted", i, want[i].Type, hexHead(want[i].Payload), hexHead(datas[i].Payload())), wit)
				good = false
				break
			}
			if int(datas[i].Size()) != len(want[i].Payload) {
				c.Violation("extract/size", fmt.Sprintf("message %d: Size() %d, payload %d bytes", i, datas[i].Size(), len(want[i].Payload)), wit)
				good = false
				break
			}
		}
	}

	// ---- ParseSEINalu of both codecs
	for _, codec := range []sei.Codec{sei.AVC, sei.HEVC} {
		name := "avc"
		var nalu []byte
		if codec == sei.AVC {
			nalu = append([]byte{0x06}, ref...)
		} else {
			name = "hevc"
			hdr := []byte{39 << 1, 0x01}
			if len(lc.Msgs)%2 == 0 {
				hdr[0] = 40 << 1 // suffix SEI
			}
			nalu = append(hdr, ref...)
		}
		fam := "parse-nalu/" + name
		var got []sei.SEIMessage
		var perr error
		pi := c.Guard(func() {
			if codec == sei.AVC {
				got, perr = avc.ParseSEINalu(nalu, lc.SPS.avcSPS())
			} else {
				got, perr = hevc.ParseSEINalu(nalu, lc.SPS.hevcSPS())
			}
		})
		mayReject := false
		exps := make([]expectation, len(want))
		for i := range want {
			exps[i] = expect(&lc.Msgs[i], codec, &lc.SPS, len(want[i].Payload))
			if exps[i] == expMayReject || exps[i] == expMayRejectPassThrough {
				mayReject = true
			}
		}
		if codec == sei.AVC {
			c.Seen("parse_nalu_avc_sps", lc.SPS.AVC)
		} else {
			c.Seen("parse_nalu_hevc_sps", lc.SPS.HEVC)
		}
		switch {
		case pi != nil:
			c.Violation(runner.PanicKey("parse-nalu/panic", pi), fmt.Sprintf("%s.ParseSEINalu panicked on a NAL unit made by WriteSEIMessages (%s): %s", name, describe(want), pi.Value), wit)
			good = false
			continue
		case perr != nil && (errors.Is(perr, sei.ErrRbspTrailingBitsMissing) || strings.HasPrefix(perr.Error(), "extracting SEI data")):
			c.Violation(fam+"/extract-error/"+errClass(perr), fmt.Sprintf("ParseSEINalu(%s): %v", hexHead(nalu), perr), wit)
			good = false
			continue
		case errors.Is(perr, avc.ErrNotSEINalu) || errors.Is(perr, hevc.ErrNotSEINalu):
			c.Violation(fam+"/not-recognised-as-sei-nalu", fmt.Sprintf("ParseSEINalu(header %x): %v", nalu[:2], perr), wit)
			good = false
			continue
		case perr != nil && mayReject:
			c.Count("parse_nalu_typed_decoder_rejected_arbitrary_payload", 1)
			continue
		case perr != nil:
			c.Violation(fam+"/decode-error-on-valid-messages"+valid000003(lc, codec), fmt.Sprintf("ParseSEINalu rejects a list whose typed messages are all valid (%s): %v", describe(want), perr), wit)
			good = false
			continue
		case len(got) != len(want):
			c.Violation(fam+"/message-count", fmt.Sprintf("%d messages written, %d returned", len(want), len(got)), wit)
			good = false
			continue
		}
		c.Count("parse_nalu_accepted", 1)
		for i := range want {
			var gt, gs uint
			var gp []byte
			if got[i] == nil {
				c.Violation(fam+"/nil-message", fmt.Sprintf("message %d is nil", i), wit)
				good = false
				break
			}
			pi := c.Guard(func() { gt, gs, gp = got[i].Type(), got[i].Size(), got[i].Payload() })
			if pi != nil {
				c.Violation(runner.PanicKey(fam+"/accessor-panic", pi), fmt.Sprintf("Type/Size/Payload of returned message %d (%T) panicked: %s", i, got[i], pi.Value), wit)
				good = false
				break
			}
			if gt != want[i].Type {
				c.Violation(fam+"/type", fmt.Sprintf("message %d: type %d written, %d returned (%T)", i, want[i].Type, gt, got[i]), wit)
				good = false
				break
			}
			c.Seen("parse_nalu_message_go_type", fmt.Sprintf("%s:%T", name, got[i]))
			switch exps[i] {
			case expPassThrough, expMayRejectPassThrough:
				if !bytes.Equal(gp, want[i].Payload) || int(gs) != len(want[i].Payload) {
					c.Violation(fam+"/payload", fmt.Sprintf("message %d (type %d, %T): payload %s written, Payload() = %s, Size() = %d", i, gt, got[i], hexHead(want[i].Payload), hexHead(gp), gs), wit)
					good = false
				}
			case expTypedEqual:
				if d := msgDiff(got[i], msgs[i]); d != "" {
					c.Violation(fam+"/typed-message/"+lc.Msgs[i].Kind+"/"+d, fmt.Sprintf("message %d: written %+v, returned %+v (differs in %s; sps %+v)", i, deref(msgs[i]), deref(got[i]), d, lc.SPS), wit)
					good = false
				}
			}
		}
	}
	for i := range lc.Msgs {
		m := &lc.Msgs[i]
		c.Seen("list_msg_kind", m.Kind+"/"+m.Class)
		c.Seen("list_type_class", typeClass(want[i].Type))
		c.Seen("list_size_class", sizeClass(len(want[i].Payload)))
	}
	c.Seen("list_length", fmt.Sprint(len(lc.Msgs)))
	return good
}

// valid000003 classifies a rejection of an all-valid list: the HEVC
// pic_timing decoder is handed the RBSP payload; a payload that contains
// 00 00 03 as data is the one shape known to matter.
func valid000003(lc *listCase, codec sei.Codec) string {
	if codec != sei.HEVC {
		return ""
	}
	for i := range lc.Msgs {
		if lc.Msgs[i].Class == classValidHEVC1 && bytes.Contains(lc.Msgs[i].Payload, []byte{0, 0, 3}) {
			return "/hevc-pic-timing-rbsp-contains-000003"
		}
	}
	return ""
}

func typeClass(t uint) string {
	switch {
	case t <= 9 || t == 45 || t == 128 || t == 136 || t == 137 || t == 144:
		return fmt.Sprintf("%03d", t)
	case t < 255:
		return "other<255"
	case t == 255:
		return "255"
	case t < 510:
		return "256..509"
	case t == 510:
		return "510"
	}
	return ">510"
}

func sizeClass(n int) string {
	switch {
	case n <= 3:
		return fmt.Sprintf("%04d", n)
	case n < 8:
		return "0004..7"
	case n < 16:
		return "0008..15"
	case n < 254:
		return "0016..253"
	case n <= 256:
		return fmt.Sprintf("%04d", n)
	case n < 509:
		return "0257..508"
	case n <= 511:
		return fmt.Sprintf("%04d", n)
	}
	return ">511"
}

func sameMsgs(a, b []refsei.Msg) bool {
	if len(a) != len(b) {
		return false
	}
	for i := range a {
		if a[i].Type != b[i].Type || !bytes.Equal(a[i].Payload, b[i].Payload) {
			return false
		}
	}
	return true
}

func hexHead(b []byte) string {
	if len(b) <= 96 {
		return fmt.Sprintf("%x", b)
	}
	return fmt.Sprintf("%x...(%d bytes)...%x", b[:64], len(b), b[len(b)-16:])
}

func describe(ms []refsei.Msg) string {
	var s []string
	for _, m := range ms {
		s = append(s, fmt.Sprintf("(type %d, %d bytes)", m.Type, len(m.Payload)))
	}
	return strings.Join(s, " ")
}
