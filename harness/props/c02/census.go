package c02

// Evidence about the codec-configuration boxes whose Size() formulas depend on
// values with boundaries: the MPEG-4 descriptors inside esds (base-128 size
// fields that change length at 2^7, 2^14, 2^21; optional fields of the
// ES_Descriptor selected by three flag bits) and the substream list of dec3.
// Everything here is read from the *written bytes* with parsers made from the
// syntax tables (ISO/IEC 14496-1 7.2.2.2/7.2.6.5/8.3.3, ETSI TS 102 366 F.6);
// the verdicts stay with the clauses of c02.go, this file only records which
// shapes those clauses were applied to.

import (
	"encoding/binary"
	"fmt"

	"github.com/Eyevinn/mp4ff/mp4"

	"verifharness/props/c01/work"
	"verifharness/ref/boxwalk"
	"verifharness/runner"
)

type descriptor struct {
	tag     byte
	digits  int // length of the size field
	payload int // value of the size field
	start   int // offset of the tag
	body    int // offset of the payload
}

// readDescriptor reads tag and sizeOfInstance at pos (8.3.3: up to four
// base-128 digits, most significant first, bit 7 = another digit follows).
func readDescriptor(b []byte, pos int) (d descriptor, ok bool) {
	if pos+2 > len(b) {
		return d, false
	}
	d.tag, d.start = b[pos], pos
	p := pos + 1
	for {
		if p >= len(b) || d.digits == 4 {
			return d, false
		}
		v := b[p]
		p++
		d.digits++
		d.payload = d.payload<<7 | int(v&0x7f)
		if v&0x80 == 0 {
			break
		}
	}
	d.body = p
	return d, true
}

func tagName(t byte) string {
	switch t {
	case 3:
		return "ES_Descriptor"
	case 4:
		return "DecoderConfigDescriptor"
	case 5:
		return "DecoderSpecificInfo"
	case 6:
		return "SLConfigDescriptor"
	}
	return "other-descriptor"
}

// sizeClass names a descriptor payload size: the exact value within limit-2 ..
// limit+1 of the three limits of the size field (atLimit), a range otherwise.
func sizeClass(n int) (class string, atLimit bool) {
	for _, lim := range []int{1 << 7, 1 << 14, 1 << 21} {
		if n >= lim-2 && n <= lim+1 {
			return fmt.Sprintf("%d", n), true
		}
	}
	switch {
	case n < 126:
		return "<126", false
	case n < 1<<14-2:
		return "130..16381", false
	case n < 1<<21-2:
		return "16386..2097149", false
	}
	return ">2097153", false
}

func noteSize(c *runner.Ctx, cat, org, what string, payload, digits int) {
	cl, lim := sizeClass(payload)
	if lim {
		c.Seen(cat+"_at_size_field_limit", fmt.Sprintf("%s %s payload=%s size-field-digits=%d", org, what, cl, digits))
	} else {
		c.Seen(cat+"_size_class", fmt.Sprintf("%s %s payload %s", org, what, cl))
	}
}

// esdsCensus parses the descriptors of one written esds payload (after
// version/flags) and records size classes, size-field lengths and the flag
// combination of the ES_Descriptor. It reports whether the descriptor tree
// tiles the payload exactly; nothing is recorded about descriptors that do not.
func esdsCensus(c *runner.Ctx, org string, p []byte) (tiles bool) {
	if len(p) < 4 {
		return false
	}
	p = p[4:]
	es, ok := readDescriptor(p, 0)
	if !ok || es.tag != 3 || es.body+es.payload != len(p) {
		return false
	}
	seen := []descriptor{es}
	end := len(p)
	pos := es.body
	if pos+3 > end {
		return false
	}
	flags := p[pos+2]
	pos += 3
	dep, url, ocr := flags>>7&1, flags>>6&1, flags>>5&1
	urlClass := "-"
	if dep == 1 {
		pos += 2
	}
	if url == 1 {
		if pos >= end {
			return false
		}
		switch l := int(p[pos]); {
		case l == 0:
			urlClass = "0"
		case l == 255:
			urlClass = "255"
		default:
			urlClass = "1..254"
		}
		pos += 1 + int(p[pos])
	}
	if ocr == 1 {
		pos += 2
	}
	// nested descriptors of the ES_Descriptor, and those of the DecoderConfigDescriptor
	for pos < end {
		d, ok := readDescriptor(p[:end], pos)
		if !ok || d.body+d.payload > end {
			return false
		}
		seen = append(seen, d)
		if d.tag == 4 {
			q, qend := d.body+13, d.body+d.payload
			for q < qend {
				dd, ok := readDescriptor(p[:qend], q)
				if !ok || dd.body+dd.payload > qend {
					return false
				}
				seen = append(seen, dd)
				q = dd.body + dd.payload
			}
			if q != qend {
				return false
			}
		}
		pos = d.body + d.payload
	}
	if pos != end {
		return false
	}
	prio := "0"
	if flags&0x1f != 0 {
		prio = "nonzero"
	}
	c.Seen("es_descriptor_flags_written", fmt.Sprintf("%s streamDependence=%d URL=%d(len %s) OCRstream=%d priority=%s", org, dep, url, urlClass, ocr, prio))
	for _, d := range seen {
		noteSize(c, "esds_descriptor_written", org, tagName(d.tag), d.payload, d.digits)
	}
	return true
}

// dec3Census reads num_ind_sub and the substream list of a written dec3
// payload: data_rate(13) num_ind_sub(3), then per independent substream three
// bytes fscod(2) bsid(5) reserved(1) | asvc(1) bsmod(3) acmod(3) lfeon(1) |
// reserved(3) num_dep_sub(4) chan_loc-msb-or-reserved(1), and a fourth byte
// (chan_loc) iff num_dep_sub > 0.
func dec3Census(c *runner.Ctx, org string, p []byte) {
	if len(p) < 2 {
		return
	}
	numInd := int(p[1]&7) + 1
	pos, with, short := 2, 0, false
	for i := 0; i < numInd; i++ {
		if pos+3 > len(p) {
			short = true
			break
		}
		n := 3
		if p[pos+2]>>1&0xf != 0 {
			n = 4
			with++
		}
		pos += n
	}
	trailing := "no"
	switch {
	case short || pos > len(p):
		trailing = "payload-shorter-than-substream-list"
	case pos < len(p):
		trailing = "yes"
	}
	c.Seen("dec3_written_shape", fmt.Sprintf("%s independent-substreams=%d with-dependent=%d trailing-bytes=%s", org, numInd, with, trailing))
}

// census records the esds / dec3 shapes of one encoded structure: from the
// written bytes (nodes = reference walk of b) and, for dec3, the public fields
// of the library object the bytes were written from.
func census(c *runner.Ctx, s work.Struct, x work.Encodable, nodes []*boxwalk.Node, b []byte) {
	org := origin(s)
	for _, n := range boxwalk.All(nodes) {
		switch n.Type {
		case "esds":
			c.Count("esds_boxes_written/"+org, 1)
			if !esdsCensus(c, org, n.Payload(b)) {
				// not a verdict of C02 (descriptors are not boxes): decoded inputs may carry such
				// descriptors themselves; CreateEsdsBox keeps a one-digit size field whatever the size
				c.Count("esds_written_whose_descriptor_sizes_do_not_tile_the_box/"+org, 1)
			}
		case "dec3":
			c.Count("dec3_boxes_written/"+org, 1)
			dec3Census(c, org, n.Payload(b))
		case "moof":
			moofCensus(c, s, x, n, b)
		case "sidx":
			// 8.16.3: 32-bit earliest_presentation_time/first_offset for version 0, 64-bit otherwise
			if p := n.Payload(b); len(p) >= 24 {
				at, fixed := 22, 32
				if p[0] != 0 {
					at, fixed = 30, 40
				}
				layout := "box shorter than its fixed part"
				if len(p) >= at+2 {
					cnt := int(binary.BigEndian.Uint16(p[at:]))
					layout = fmt.Sprintf("references=%d size=fixed(version)+12*references: %v", minInt(cnt, 4), n.Size == fixed+12*cnt)
				}
				c.Seen("sidx_written", fmt.Sprintf("%s version=%d %s", org, p[0], layout))
			}
		}
	}
	if !s.Decoded {
		apiFields(c, work.TypeOf(x), x, 0)
	}
}

// moofCensus records, for every written movie fragment that has exactly one
// track run (the shape for which Fragment.SetTrunDataOffsets recomputes the
// offset during an encode), how the run addresses its data: tf_flags and
// tr_flags are read from the written bytes (ISO/IEC 14496-12 8.8.7, 8.8.8).
func moofCensus(c *runner.Ctx, s work.Struct, x work.Encodable, moof *boxwalk.Node, b []byte) {
	var tfhd, trun *boxwalk.Node
	truns := 0
	for _, t := range moof.Children {
		if t.Type != "traf" {
			continue
		}
		for _, n := range t.Children {
			switch n.Type {
			case "trun":
				truns++
				trun = n
				if tfhd == nil || tfhd.Parent != t {
					tfhd = t.Child("tfhd")
				}
			}
		}
	}
	if truns != 1 || tfhd == nil || len(tfhd.Payload(b)) < 4 || len(trun.Payload(b)) < 4 {
		return
	}
	tf := binary.BigEndian.Uint32(tfhd.Payload(b)) & 0xffffff
	tr := binary.BigEndian.Uint32(trun.Payload(b)) & 0xffffff
	yn := func(v uint32) string {
		if v != 0 {
			return "present"
		}
		return "absent"
	}
	level := work.TypeOf(x)
	if _, isBox := x.(mp4.Box); isBox {
		level = "box"
	}
	if level == "File" {
		level = "File/box-tree"
		if f, ok := x.(*mp4.File); ok && f.IsFragmented() && f.FragEncMode == mp4.EncModeSegment {
			level = "File/segment-mode"
		}
	}
	c.Seen("single_trun_fragment_written", fmt.Sprintf("%s %s optimize=%v: trun data_offset %s, tfhd base_data_offset %s, default-base-is-moof %s",
		origin(s), level, s.Optimize, yn(tr&1), yn(tf&1), map[bool]string{false: "clear", true: "set"}[tf&0x020000 != 0]))
}

// apiFields records, for API-built structures, the public fields the sizes
// depend on: for every Dec3Box how NumIndSub relates to the number of listed
// substreams; for every EsdsBox the flag bits with the dependent fields that
// are set, and the nominal payload of the three nested descriptors (the
// 14496-1 layout with the one-digit size fields CreateEsdsBox prescribes: the
// written size fields of such a box hold the value modulo 128, so the bytes do
// not tell).
func apiFields(c *runner.Ctx, top string, x work.Encodable, depth int) {
	switch v := x.(type) {
	case *mp4.SidxBox:
		// the fields whose width depends on the version, against the 32-bit limit
		cl := func(v uint64) string {
			switch {
			case v < 1<<31:
				return "<2^31"
			case v < 1<<32-1:
				return "<2^32-1"
			case v == 1<<32-1:
				return "2^32-1"
			case v == 1<<32:
				return "2^32"
			}
			return ">2^32"
		}
		big := false
		for _, r := range v.SidxRefs {
			big = big || r.ReferencedSize >= 1<<31-1 || r.SAPDeltaTime >= 1<<28-1
		}
		c.Seen("sidx_api_fields", fmt.Sprintf("in %s: Version=%d EarliestPresentationTime %s FirstOffset %s", top, v.Version, cl(v.EarliestPresentationTime), cl(v.FirstOffset)))
		c.Seen("sidx_api_references", fmt.Sprintf("Version=%d references=%d bit-fields-at-limit=%v", v.Version, minInt(len(v.SidxRefs), 4), big))
		return
	case *mp4.Dec3Box:
		dec3Fields(c, v)
		return
	case *mp4.EsdsBox:
		if v == nil || v.DecConfigDescriptor == nil || v.DecConfigDescriptor.DecSpecificInfo == nil {
			return
		}
		n := len(v.DecConfigDescriptor.DecSpecificInfo.DecConfig)
		fl := v.FlagsAndPriority
		extra := 0
		if fl&0x80 != 0 {
			extra += 2
		}
		if fl&0x40 != 0 {
			extra += 1 + len(v.URLString)
		}
		if fl&0x20 != 0 {
			extra += 2
		}
		sl := 0
		if v.SLConfigDescriptor != nil {
			sl = 3 + len(v.SLConfigDescriptor.MoreData)
		}
		noteSize(c, "esds_api_nominal_descriptor", "api", "DecoderSpecificInfo", n, 1)
		noteSize(c, "esds_api_nominal_descriptor", "api", "DecoderConfigDescriptor", 13+2+n, 1)
		noteSize(c, "esds_api_nominal_descriptor", "api", "ES_Descriptor", 3+extra+2+13+2+n+sl, 1)
		set := func(b bool) int {
			if b {
				return 1
			}
			return 0
		}
		c.Seen("es_descriptor_api_fields", fmt.Sprintf("flags: streamDependence=%d URL=%d OCRstream=%d; fields set: DependsOnEsID=%d URLString=%d OCResID=%d",
			fl>>7&1, fl>>6&1, fl>>5&1, set(v.DependsOnEsID != 0), set(v.URLString != ""), set(v.OCResID != 0)))
		return
	}
	if depth > 12 {
		return
	}
	for _, ch := range work.Children(x) {
		apiFields(c, top, ch, depth+1)
	}
}

// dec3Fields: NumIndSub against the number of listed substreams.
func dec3Fields(c *runner.Ctx, d *mp4.Dec3Box) {
	if d == nil {
		return
	}
	rel := "NumIndSub=len(EC3Subs)-1"
	switch {
	case int(d.NumIndSub) == len(d.EC3Subs)-1:
	case d.NumIndSub == 0:
		rel = "NumIndSub left 0"
	default:
		rel = "NumIndSub other"
	}
	c.Seen("dec3_api_fields", fmt.Sprintf("len(EC3Subs)=%d %s", len(d.EC3Subs), rel))
}
