// Package c02 decides property C02: for every structure obtained from the
// decoder or built through the public constructors, whenever Encode/EncodeSW
// report success the number of bytes written equals Size() afterwards (and
// beforehand unless trun optimisation is on), the size field of every written
// box header equals the length of that box, a container's size is its header
// plus its children, and encoding twice (or calling Info in between) yields
// identical bytes.
//
// Oracle: invariants over produced bytes. The size-field clause is decided
// from the bytes alone with the independent walker (ref/boxwalk); the
// per-node clause walks the library tree (GetChildren / Children) and
// compares every node encoded on its own with its sub-range of the parent.
package c02

import (
	"bytes"
	"encoding/base64"
	"encoding/binary"
	"encoding/json"
	"fmt"
	"io"
	"regexp"
	"strings"

	"github.com/Eyevinn/mp4ff/mp4"

	genfrag "verifharness/gen/frag"
	"verifharness/props/c01/work"
	"verifharness/ref/boxwalk"
	"verifharness/runner"
)

func numAPI(tier string) int {
	if tier == "thorough" {
		return 300000
	}
	return 10000
}

func init() {
	runner.Register(&runner.Prop{
		ID: "C02",
		Rule: "case = one workload item -> all structures it yields. Items 0..A-1 (A = 10 000 quick / 300 000 thorough): one generated API history (gen/frag: 1..3 tracks, 1..2 segments, 1..3 fragments each with 0..8 samples per op, single/multi-track, full/interval/metadata-only mdat, emsg/prft/free/skip/uuid/unknown children, hostile or tame values) -> the InitSegment, every Fragment built fresh from its spec with and without OptimizeTrun, every MediaSegment with 0..3 sidx boxes and with/without styp, and the whole assembled file decoded by DecodeFile/DecodeFileSR in box-tree and segment mode, one media segment and one fragment of that decoded file as structures of their own (work.PartsOf: MediaSegment.Encode / Fragment.Encode on decoded structures, 1 in 4 with trun optimisation), and the same file with the data addressing of its fragments rewritten on the byte level (gen/frag.Readdress, compared sample by sample with the input through the independent reader ref/frag before use: tfhd.base_data_offset with a first trun that has NO data_offset field, base_data_offset at the moof / file start with data_offsets relative to it, default-base-is-moof clear with the implied bases of 8.8.7.1, later runs without data_offset) decoded through one file path: the file in box-tree mode, segment mode and segment mode with optimisation, one media segment, one fragment (the witness holds the rewritten bytes); for histories with two segments the same file laid out with 2 flat or 3 hierarchical sidx boxes at the top level in front of the first segment (gen/frag Layout.TopSidx 2/3), decoded by both file paths in box-tree mode, segment mode and segment mode with optimisation (witness: the bytes); one member of the sidx family (work.PickSidxRecipe, recipe string in the witness: Version 0/1 x EarliestPresentationTime and FirstOffset from {0, 1000, 2^31+5, 2^32-1, 2^32, 2^32+3003, 2^40+7, 2^64-16} x 0..3 references with ordinary values or with the bit fields at their limits x made by CreateSidx plus public fields, struct literal, or decoded box whose public fields are then set x alone, in an API-built MediaSegment with a CreateFragment fragment, or in a File: decoded styp+sidx+moof+mdat whose sidx fields are set or whose sidx is replaced, or a File assembled through File.AddChild, in box-tree and segment mode); plus, per history, one member of the codec-configuration family (work.PickRecipe/FromRecipe, a self-contained recipe string kept in the witness): an esds made by CreateEsdsBox with a decoder configuration whose length is swept through windows below 2^7, 2^14 and (few) 2^21, wide enough that the payload of each nested descriptor (DecoderSpecificInfo, DecoderConfigDescriptor, ES_Descriptor) passes limit-2..limit+1 of the base-128 size field, or with the ES_Descriptor flag lattice (streamDependence/URL/OCRstream, all 8 combinations, priority bits, URL lengths 0/1/23/255, the dependent public fields set with the flag and also without it) at small sizes and at the one-digit limit, alone and inside mp4a (CreateAudioSampleEntryBox, with/without btrt), stsd or an init segment; or a Dec3Box literal (there is no constructor) with 1..8 independent substreams with/without dependent ones, NumIndSub left 0 or set to len-1, alone, inside ec-3, through TrakBox.SetEC3Descriptor, and as a decoded one-substream box with appended substreams; plus, per history, one member of the observe-then-mutate family (work.PickHistRecipe, work/mutate.go, recipe string in the witness): a box whose size depends on its kind is made or decoded, read-only observers (0..2 of Size, Info at two levels, SubType, Encode into io.Discard, EncodeSW into a discarded writer; on the box or on its parent) are called, then a public mutator changes the kind. Two in three are UUIDBox histories: kind tfxd v0/v1, tfrf v0/v1, PIFF senc, unknown with 0/4/100 payload bytes, the MSS StreamManifest uuid, or an unlabelled literal; made as a literal + SetUUID + public field, by NewTfxdBox / NewTfrfBox, or decoded from hand-written bytes; relabelled through SetUUID (uuid string, plain hex or base64) to each kind with the public field of that kind set (Tfxd / Tfrf / Senc / UnknownPayload; the fields of the old kind kept or cleared); alone, inside udta (API or decoded container), inside the traf of a CreateFragment fragment, or inside a decoded file (box-tree and segment mode). The rest: SencBox.AddSample with/without subsamples after Create/New/decode+ParseReadBox, SaizBox.AddSampleInfo, TrunBox.AddSample/AddFullSample/AddSamples/SetFirstSampleFlags/RemoveFirstSampleFlags, TfdtBox.SetBaseMediaDecodeTime across 2^32, StsdBox.AddChild, EmsgBox public fields (version flip, strings, data), Ftyp/Styp.AddCompatibleBrands, StscBox.AddEntry/SetSingleSampleDescriptionID, CttsBox.AddSampleCountsAndOffset, MdatBox.SetLazyDataSize/AddSampleData/SetData, alone or inside udta. Besides the usual clauses, each observed history is compared with its twin (the same calls without the observers): the bytes must be identical and Encode must not fail where the twin's succeeds. " +
			"Remaining items: the shared C01 input list (corpus seeds, hand-built boxes of every registered type and version/flag shape, gentle mutants, bit flips, field values, N1/N2/N3, nesting, sequences; since round 7 with crafted fragment sequences over the lattice base-data-offset-present x default-base-is-moof x data-offset-present of a single-trun fragment, with/without styp, two fragments / two segments, 64-bit mdat header, and up to 16 corpus files rewritten by gen/frag.Readdress; since round 9 with 30 crafted fragmented files with 1, 2 and 3 top-level sidx boxes in front of the first segment: one per track with different reference_ID, two flat, parent + two children, with/without init segment and styp, with further sidx boxes between the segments) decoded by DecodeBox, DecodeBoxSR, DecodeFile, DecodeFileSR (fragmented files in both encode modes, and one MediaSegment and one Fragment of every decoded fragmented file as structures of their own). " +
			"Per structure X (fresh instance): s0=Size(); b1=Encode into a buffer; s1=Size(); Info at a PRNG-chosen level into io.Discard; b2=EncodeSW into a FixedSliceWriter of capacity s1+64 and again of capacity exactly s1 (must succeed); 0..2 further Info calls; b3=Encode. Assertions: len(b1)=s1 (minus lazily written mdat payload), s0=s1 unless trun optimisation is on, len(b2)=s1, b3=b1 and second EncodeSW=b2, the reference walker tiles b1 exactly, and for every node of the library tree the node's size field = node.Size() = length of the node encoded on its own = its sub-range of the parent's bytes, children tiling the tail of their parent. " +
			"Encoders that return an error are outside the property (counted; for decoded structures listed in evidence); but when Encode fails, a fresh instance is handed to EncodeSW with capacity Size()+64 (Encode allocates exactly Size() bytes, so an encoder that writes more than Size() fails there and succeeds here), and if that reports success its length must equal Size(). Evidence only (census.go, read from the written bytes with a parser of the 14496-1 / TS 102 366 syntax, and from public fields of API objects): descriptor payload sizes at the size-field limits with the number of size digits, ES_Descriptor flag combinations, dec3 substream shapes and NumIndSub against len(EC3Subs); for every written fragment with exactly one trun the level it was encoded at and tf_flags/tr_flags (single_trun_fragment_written); Version and size of written sidx boxes and the public 64-bit fields of API sidx boxes against the 32-bit limit (sidx_written, sidx_api_fields); addressing modes produced by Readdress (readdressed_traf). non-trivial = a structure whose Encode succeeded and that contains at least one box; distinct by hash of (kind, b1). evaluations = structures checked.",
		Assumptions: []string{
			"MdatBox in lazy mode (SetLazyDataSize / metadata-only fragments): by its documented contract the payload is counted by Size() and written by the caller; the expected length is Size() minus the lazy payload",
			"File in EncModeSegment writes Init, Sidxs, Segments and Mfra only (documented); the length clause is applied to a segment-mode file only if every top-level child is one of those",
			"children of every container are laid out at the tail of the container (true for all ISO BMFF containers the library knows)",
			"a structure whose exported fields are assigned after construction or decode (SidxBox.EarliestPresentationTime/FirstOffset/SidxRefs after CreateSidx, Dec3Box.EC3Subs, EsdsBox flag fields) is 'built through the public API': the library offers no setters for these fields and its own tools and examples assign them",
			"a UUIDBox relabelled through SetUUID with the public payload field of the new kind assigned (Tfxd, Tfrf, Senc, UnknownPayload) is 'built through the public constructors': SetUUID is the only way to label a literal UUIDBox and the payload fields have no setters. Read-only calls (Size, Info, SubType, Encode into a discarded buffer) before a mutation are part of 'any interleaving of Info/Encode calls'",
		},
		Setup:    func(env *runner.Env) error { return work.Setup(env) },
		NumCases: func(env *runner.Env) int { return numAPI(env.Tier) + work.NumInputs(env) },
		Run:      run,
		Replay:   replay,
		Finalize: func(a *runner.Agg) {
			if a.Counters["structures_encoded"] == 0 {
				a.Nothing = "no structure could be encoded"
			}
		},
	})
}

type detail struct {
	Kind    string           `json:"kind"`
	Desc    string           `json:"desc"`
	Input   string           `json:"input_b64,omitempty"`
	History *genfrag.History `json:"history,omitempty"`
	Recipe  string           `json:"recipe,omitempty"` // api structures of the codec-configuration family (work.FromRecipe)
	Bytes   string           `json:"encoded_b64,omitempty"`
}

func run(c *runner.Ctx, idx int) {
	nA := numAPI(c.Env.Tier)
	if idx < nA {
		h := genfrag.Generate(c.Rand, work.HistoryOptions(c.Rand))
		runHistory(c, h)
		return
	}
	in := work.InputAt(c.Rand, idx-nA)
	c.Seen("generator", in.Gen)
	for _, s := range work.FromInput(c, in) {
		check(c, s, nil)
	}
	// one media segment and one fragment of a decoded fragmented file, encoded on their own
	for _, s := range work.PartsOf(c, in) {
		check(c, s, nil)
	}
}

func runHistory(c *runner.Ctx, h *genfrag.History) {
	c.Seen("generator", "api-history")
	for _, s := range work.FromHistory(c, c.Rand, h) {
		check(c, s, h)
	}
	if fb := work.BuildFileBytes(c, h); fb != nil {
		for _, s := range work.FromInput(c, work.Input{Name: "api-built file", Desc: "gen/frag.Build", Gen: "api-file", Data: fb}) {
			if s.Kind == "decoded/"+work.PBox || s.Kind == "decoded/"+work.PBoxSR {
				continue
			}
			check(c, s, h)
		}
		in := work.Input{Name: "api-built file", Desc: "gen/frag.Build", Gen: "api-file", Data: fb}
		for _, s := range work.PartsOf(c, in) {
			check(c, s, h)
		}
		readdressed(c, fb)
	}
	// (last, so that the PRNG stream of the older parts of the item is what it was before round 8)
	// one member of the observe-then-mutate family (work/mutate.go): a box with a kind-dependent size is made or
	// decoded, observed (Size / Info / SubType / Encode into a discarded buffer), changed through a public mutator
	for _, s := range work.FromRecipe(c, work.PickHistRecipe(c.Rand)) {
		check(c, s, nil)
	}
	// (after that, for the same reason) the same history laid out with a file-level index of several sidx boxes
	topIndexed(c, h)
}

// topIndexed: the history assembled by gen/frag.Build with 2 or 3 sidx boxes at
// the top level in front of the first segment (Layout.TopSidx 2: two flat
// boxes each over half of the segments; 3: a parent referencing two children;
// needs two segments), decoded through both file paths, in box-tree mode,
// segment mode and segment mode with optimisation. The witness holds the bytes.
func topIndexed(c *runner.Ctx, h *genfrag.History) {
	if len(h.Segments) < 2 {
		c.Count("top_sidx_layout_needs_two_segments", 1)
		return
	}
	h2 := *h
	h2.Layout.TopSidx = 2 + c.Rand.Intn(2)
	h2.Layout.SidxVersion = byte(c.Rand.Intn(2))
	fb := work.BuildFileBytes(c, &h2)
	if fb == nil {
		c.Count("top_sidx_layout_not_built", 1)
		return
	}
	in := work.Input{Name: "api-built file, several top-level sidx", Desc: fmt.Sprintf("gen/frag.Build with Layout.TopSidx=%d, sidx version %d", h2.Layout.TopSidx, h2.Layout.SidxVersion), Gen: "api-file-top-sidx", Data: fb}
	for _, s := range work.FromInput(c, in) {
		if !strings.HasPrefix(s.Kind, "decoded/"+work.PFile) {
			continue
		}
		if x := s.New(); x != nil {
			if f, ok := x.(*mp4.File); ok {
				c.Seen("top_level_sidx_boxes_in_decoded_file", fmt.Sprintf("%s: %d", s.Kind, len(f.Sidxs)))
			}
		}
		check(c, s, nil)
	}
}

// readdressed: the API-built file with the data addressing of its fragments
// rewritten on the byte level (gen/frag.Readdress: tfhd.base_data_offset, first
// trun without data_offset, default-base-is-moof clear), decoded through one of
// the two file paths: the file in box-tree and segment mode, one media segment
// and one fragment. The witness carries the rewritten bytes.
func readdressed(c *runner.Ctx, fb []byte) {
	nb, shapes, err := genfrag.Readdress(fb, c.Rand)
	if err != nil {
		c.Count("readdress_not_applicable", 1)
		c.Seen("readdress_not_applicable", errClass(err))
		return
	}
	c.Count("readdressed_files", 1)
	few := func(n int) string {
		if n > 1 {
			return "N"
		}
		return "1"
	}
	desc := ""
	for _, sh := range shapes {
		c.Seen("readdressed_traf", fmt.Sprintf("%s base=%s default-base-is-moof=%v trafs=%s truns=%s runs-without-data_offset=%s", sh.Mode, sh.Base, sh.DefaultBaseMoof, few(sh.Trafs), few(sh.Truns), map[bool]string{false: "0", true: ">0"}[sh.NoOffsetRuns > 0]))
		if len(desc) < 300 {
			desc += fmt.Sprintf("[moof %d traf %d: %s] ", sh.Moof, sh.Traf, sh.Mode)
		}
	}
	in := work.Input{Name: "api-built file, readdressed", Desc: "gen/frag.Build + gen/frag.Readdress " + desc, Gen: "api-file-readdressed", Data: nb}
	path := work.FilePaths[c.Rand.Intn(len(work.FilePaths))]
	for _, s := range work.FromInput(c, in) {
		if s.Kind != "decoded/"+path && !strings.HasPrefix(s.Kind, "decoded/"+path+"/") {
			continue
		}
		check(c, s, nil)
	}
	for _, s := range work.PartsOf(c, in) {
		check(c, s, nil)
	}
}

func replay(c *runner.Ctx, raw json.RawMessage) {
	var d detail
	if json.Unmarshal(raw, &d) != nil {
		return
	}
	if d.Recipe != "" {
		for _, s := range work.FromRecipe(c, d.Recipe) {
			check(c, s, nil)
		}
		return
	}
	if d.History != nil {
		runHistory(c, d.History)
		return
	}
	b, err := base64.StdEncoding.DecodeString(d.Input)
	if err != nil {
		return
	}
	in := work.Input{Name: "replay", Desc: d.Desc, Gen: "replay", Data: b}
	for _, s := range work.FromInput(c, in) {
		check(c, s, nil)
	}
	for _, s := range work.PartsOf(c, in) {
		check(c, s, nil)
	}
}

var digits = regexp.MustCompile(`[0-9]+`)

func errClass(err error) string {
	s := digits.ReplaceAllString(err.Error(), "N")
	if len(s) > 60 {
		s = s[:60]
	}
	return s
}

var infoLevels = []string{"", "all:1", "all:2", "trun:1,senc:2,stss:1", "sidx:1,tfra:1,saiz:1,sgpd:1,esds:2,avcC:1,hvcC:1"}

// accounted tells whether every top-level child of a segment-mode file is
// written by File.Encode (member of Init, Sidxs, Segments or Mfra).
func accounted(f *mp4.File) bool {
	set := map[mp4.Box]bool{}
	if f.Init != nil {
		for _, b := range f.Init.Children {
			set[b] = true
		}
	}
	for _, s := range f.Sidxs {
		set[s] = true
	}
	for _, seg := range f.Segments {
		if seg.Styp != nil {
			set[seg.Styp] = true
		}
		for _, s := range seg.Sidxs {
			set[s] = true
		}
		for _, fr := range seg.Fragments {
			for _, b := range fr.Children {
				set[b] = true
			}
		}
	}
	if f.Mfra != nil {
		set[f.Mfra] = true
	}
	for _, b := range f.Children {
		if !set[b] {
			return false
		}
	}
	return true
}

type checker struct {
	c    *runner.Ctx
	s    work.Struct
	h    *genfrag.History
	b1   []byte
	fail bool
}

func (k *checker) det() detail {
	d := detail{Kind: k.s.Kind, Desc: k.s.Desc, History: k.h, Recipe: k.s.Recipe}
	if d.Recipe != "" {
		d.History = nil // the recipe alone rebuilds the structure
	}
	if k.s.Input != nil {
		d.Input = base64.StdEncoding.EncodeToString(k.s.Input)
	}
	if len(k.b1) <= 32<<10 {
		d.Bytes = base64.StdEncoding.EncodeToString(k.b1)
	}
	return d
}

func origin(s work.Struct) string {
	if s.Decoded {
		return "decoded"
	}
	return "api"
}

var registered map[string]bool

// keyType maps a node type to its finding-key component: registered box
// types and Go type names (File, Fragment, ...) as they are, every other
// four-character code to "unknown" (all of them are UnknownBox).
func keyType(t string) string {
	if registered == nil {
		registered = map[string]bool{}
		rd, srd := mp4.VerifRegisteredBoxTypes()
		for _, x := range append(rd, srd...) {
			registered[x] = true
		}
	}
	switch t {
	case "File", "Fragment", "MediaSegment", "InitSegment":
		return t
	}
	if !registered[t] {
		return "unknown"
	}
	var sb []byte
	for i := 0; i < len(t); i++ {
		if t[i] < 0x20 || t[i] > 0x7e {
			sb = append(sb, []byte(fmt.Sprintf("\\x%02x", t[i]))...)
		} else {
			sb = append(sb, t[i])
		}
	}
	return string(sb)
}

func (k *checker) violation(clause, typ, what string) {
	k.fail = true
	k.c.Violation(clause+"/"+keyType(typ), fmt.Sprintf("%s [%s]: %s\n%s", k.s.Kind, typ, what, k.s.Desc), k.det())
}

func check(c *runner.Ctx, s work.Struct, h *genfrag.History) {
	x := s.New()
	if x == nil {
		c.Count("structures_not_rebuilt", 1)
		if cl := work.HistClass(s.Recipe); cl != "" {
			c.Count("api_history_not_applicable_or_panics_while_built", 1)
		}
		return
	}
	k := &checker{c: c, s: s, h: h}
	typ := work.TypeOf(x)
	c.Evals(1)
	c.Count("structures", 1)
	c.Seen("structure_kind", s.Kind)
	if f, ok := x.(*mp4.File); ok && f.IsFragmented() {
		n, mode := len(f.Sidxs), "box-tree mode"
		if n > 4 {
			n = 4
		}
		if s.SegMode {
			mode = "segment mode"
		}
		c.Seen("fragmented_file_top_level_sidx_boxes", fmt.Sprintf("%d (%s)", n, mode))
	}
	var s0, s1 uint64
	if pi := c.Guard(func() { s0 = x.Size() }); pi != nil {
		c.Count("panics_left_to_C04", 1)
		if cl := work.HistClass(s.Recipe); cl != "" {
			c.Seen("api_history_panics(C04)", runner.PanicKey("size", pi)+" <- "+strings.TrimSuffix(strings.TrimSuffix(cl, " observed"), " not-observed"))
		}
		return
	}
	if cl := work.HistClass(s.Recipe); cl != "" {
		c.Count("api_histories(observe,mutate,encode)", 1)
		if strings.HasPrefix(cl, "uuid ") {
			p := strings.Fields(cl) // uuid how:from->to wrap obs
			c.Seen("uuid_relabel_history", p[1][strings.IndexByte(p[1], ':')+1:]+" "+p[2]+" "+p[3])
			c.Seen("uuid_history_origin", p[1][:strings.IndexByte(p[1], ':')]+" "+p[2]+" "+p[3])
		} else {
			c.Seen("mutator_history", cl)
		}
	}
	e1 := work.EncodeW(c, x)
	if e1.Skip {
		c.Count("encode_skipped_size_inflated", 1)
		return
	}
	if e1.Panic != nil {
		c.Count("panics_left_to_C04", 1)
		if cl := work.HistClass(s.Recipe); cl != "" {
			c.Seen("api_history_panics(C04)", runner.PanicKey("encode", e1.Panic)+" <- "+strings.TrimSuffix(strings.TrimSuffix(cl, " observed"), " not-observed"))
		}
		return
	}
	if e1.Err != nil {
		c.Count("encode_error/"+origin(s), 1)
		if s.Decoded {
			c.Seen("decoded_structure_reencode_fails(C01)", typ+": "+errClass(e1.Err))
		} else {
			c.Seen("api_structure_encode_error", typ+": "+errClass(e1.Err))
		}
		k.twin(typ, nil, e1.Err)
		// Encode allocates exactly Size() bytes, so an encoder that writes MORE than Size() shows as an
		// error there; the SliceWriter path with spare capacity then reports success, and the statement
		// applies to it: the bytes written must equal Size().
		if y := s.New(); y != nil {
			if f, ok := y.(*mp4.File); ok && s.SegMode && f.IsFragmented() && !accounted(f) {
				return
			}
			if e := work.EncodeSW(c, y, 64); e.OK() {
				c.Count("encodesw_ok_where_encode_fails", 1)
				var sz uint64
				if pi := c.Guard(func() { sz = y.Size() }); pi == nil && uint64(len(e.Bytes))+work.LazyMdatBytes(y) != sz {
					k.violation("encodesw-length-where-encode-fails", typ, fmt.Sprintf("Encode fails (%v); EncodeSW into a writer of capacity Size()+64 reports success and wrote %d bytes (+%d lazy) but Size() afterwards is %d", e1.Err, len(e.Bytes), work.LazyMdatBytes(y), sz))
				}
			}
		}
		return
	}
	k.b1 = e1.Bytes
	c.Count("structures_encoded", 1)
	_ = c.Guard(func() { s1 = x.Size() })
	lazy := work.LazyMdatBytes(x)
	lengthClause := true
	if f, ok := x.(*mp4.File); ok && s.SegMode && f.IsFragmented() {
		if !accounted(f) {
			lengthClause = false
			c.Count("segment_mode_file_with_unaccounted_top_level_boxes", 1)
		}
	}
	if lengthClause && uint64(len(k.b1))+lazy != s1 {
		t, what := k.refine(x, k.b1, lazy == 0 && !s.SegMode)
		k.violation("size-after-encode", t, fmt.Sprintf("Encode wrote %d bytes (+%d lazily written mdat payload) but Size() afterwards is %d%s", len(k.b1), lazy, s1, what))
	}
	if !s.Optimize && s0 != s1 {
		k.violation("size-changed-by-encode", typ, fmt.Sprintf("Size() was %d before Encode and %d after it although trun optimisation is off", s0, s1))
	}
	// Info in between
	lv := infoLevels[c.Rand.Intn(len(infoLevels))]
	if pi := c.Guard(func() { _ = x.Info(io.Discard, lv, "", "  ") }); pi != nil {
		c.Count("panics_left_to_C04", 1)
		c.Seen("panic_outside_domain(C04)", runner.PanicKey("info", pi))
		return
	}
	c.Seen("info_level", lv)
	e2 := work.EncodeSW(c, x, 64)
	if e2.Panic != nil {
		c.Count("panics_left_to_C04", 1)
		return
	}
	if e2.OK() {
		c.Count("structures_encoded_sw", 1)
		if lengthClause && uint64(len(e2.Bytes))+lazy != s1 {
			k.violation("encodesw-length", typ, fmt.Sprintf("EncodeSW wrote %d bytes (+%d lazy) into a writer of capacity Size()+64 but Size() is %d", len(e2.Bytes), lazy, s1))
		}
		e2x := work.EncodeSW(c, x, 0)
		if e2x.Panic == nil && !e2x.Skip {
			if e2x.Err != nil && lazy == 0 {
				k.violation("encodesw-exact-capacity", typ, fmt.Sprintf("EncodeSW into a FixedSliceWriter of capacity exactly Size()=%d fails: %v (capacity +64 succeeded with %d bytes)", s1, e2x.Err, len(e2.Bytes)))
			} else if e2x.Err == nil && !bytes.Equal(e2x.Bytes, e2.Bytes) {
				k.violation("second-encodesw-differs", typ, fmt.Sprintf("two successive EncodeSW calls give different bytes (first difference at %d)", firstDiff(e2.Bytes, e2x.Bytes)))
			}
		}
	} else if e2.Err != nil {
		c.Count("encodesw_error_after_encode_ok", 1) // C03(a) decides
	}
	// 0..2 further Info calls at other levels before the second Encode
	for n := c.Rand.Intn(3); n > 0; n-- {
		l2 := infoLevels[c.Rand.Intn(len(infoLevels))]
		if pi := c.Guard(func() { _ = x.Info(io.Discard, l2, "", " ") }); pi != nil {
			c.Count("panics_left_to_C04", 1)
			c.Seen("panic_outside_domain(C04)", runner.PanicKey("info", pi))
			return
		}
	}
	e3 := work.EncodeW(c, x)
	if e3.Panic != nil {
		c.Count("panics_left_to_C04", 1)
		return
	}
	if e3.Err != nil {
		k.violation("second-encode-fails", typ, fmt.Sprintf("Encode succeeded, then Info(%q), EncodeSW, and a second Encode fails: %v", lv, e3.Err))
	} else if !bytes.Equal(e3.Bytes, k.b1) {
		p := firstDiff(k.b1, e3.Bytes)
		t := typ
		if ns, err := boxwalk.Walk(k.b1); err == nil {
			if n := boxwalk.InnermostAt(ns, p); n != nil {
				t = n.Type
			}
		}
		k.violation("second-encode-differs", t, fmt.Sprintf("Encode, Info(%q), EncodeSW, Encode: the second Encode differs from the first at byte %d (lengths %d and %d)", lv, p, len(k.b1), len(e3.Bytes)))
	}
	k.twin(typ, k.b1, nil)
	// size fields from the bytes alone
	if lazy == 0 {
		ns, err := boxwalk.Walk(k.b1)
		if err == nil && len(k.b1) <= 4<<20 {
			census(c, s, x, ns, k.b1)
		}
		if err != nil {
			inputTiles := true
			if s.Decoded {
				_, e := boxwalk.Walk(s.Input)
				inputTiles = e == nil
			}
			if inputTiles {
				t, what := k.refine(x, k.b1, !s.SegMode)
				k.violation("size-fields-do-not-tile", t, fmt.Sprintf("the reference walker cannot tile the %d encoded bytes: %v%s", len(k.b1), err, what))
			} else {
				c.Inconclusive("output does not tile, neither does the accepted input (walker's container table differs from the library's for this input)")
			}
		} else {
			c.Count("outputs_tiled_by_reference_walker", 1)
		}
	}
	// every node of the library tree
	if !k.fail && !s.SegMode && lazy == 0 && len(k.b1) <= 512<<10 {
		k.nodes(x, k.b1, 0)
	}
	// A second fresh instance of the same structure, driven in the opposite
	// order: (Info first, sometimes) EncodeSW first, then Encode. Whatever
	// call comes first, the bytes must be the same.
	if y := s.New(); y != nil && !k.fail {
		infoFirst := c.Rand.Bool()
		if infoFirst {
			if pi := c.Guard(func() { _ = y.Info(io.Discard, lv, "", "  ") }); pi != nil {
				return
			}
		}
		f1 := work.EncodeSW(c, y, 64)
		f2 := work.EncodeW(c, y)
		c.Count("reverse_order_twins", 1)
		order := "EncodeSW first"
		if infoFirst {
			order = "Info(" + lv + ") then EncodeSW first"
		}
		if f1.OK() && !bytes.Equal(f1.Bytes, k.b1) && lengthClause {
			p := firstDiff(k.b1, f1.Bytes)
			k.violation("first-call-order-changes-bytes", typ, fmt.Sprintf("a fresh instance encoded with %s gives other bytes than a fresh instance encoded with Encode first: first difference at byte %d (lengths %d and %d)", order, p, len(f1.Bytes), len(k.b1)))
		} else if f1.OK() && f2.OK() && !bytes.Equal(f1.Bytes, f2.Bytes) {
			k.violation("encodesw-then-encode-differs", typ, fmt.Sprintf("%s, then Encode on the same instance: different bytes (first difference at %d)", order, firstDiff(f1.Bytes, f2.Bytes)))
		}
	}
	if len(k.b1) >= 8 {
		c.Nontrivial(runner.Hash64([]byte(s.Kind), k.b1))
	}
	if c.WantSample() && !s.Decoded {
		c.Sample(map[string]interface{}{"kind": s.Kind, "desc": s.Desc, "size": s1, "first_bytes_hex": fmt.Sprintf("%x", k.b1[:minInt(len(k.b1), 48)])})
	}
}

// twin: "calling Info in between yields identical bytes" for histories with a mutation after the observer. The
// twin instance went through the same public constructor / setter calls without the read-only observers (Size,
// Info, SubType, Encode or EncodeSW into a discarded buffer) that preceded the mutation; it must encode to the
// same bytes, and where it encodes the observed instance must encode too.
func (k *checker) twin(typ string, b1 []byte, encErr error) {
	if k.s.Twin == nil {
		return
	}
	t := k.s.Twin()
	if t == nil {
		return
	}
	e := work.EncodeW(k.c, t)
	k.c.Count("observer_twins_compared", 1)
	switch {
	case encErr != nil && e.OK():
		k.violation("observer-before-mutation-breaks-encode", typ, fmt.Sprintf("after read-only calls before the mutation Encode fails (%v); the same history without them encodes to %d bytes", encErr, len(e.Bytes)))
	case encErr == nil && e.OK() && !bytes.Equal(e.Bytes, b1):
		k.violation("observer-before-mutation-changes-bytes", typ, fmt.Sprintf("read-only calls (Size/Info/SubType/Encode to a discarded buffer) before the mutation change the encoding: %d bytes against %d without them, first difference at byte %d", len(b1), len(e.Bytes), firstDiff(b1, e.Bytes)))
	}
}

func minInt(a, b int) int {
	if a < b {
		return a
	}
	return b
}

func firstDiff(a, b []byte) int {
	i := 0
	for i < len(a) && i < len(b) && a[i] == b[i] {
		i++
	}
	return i
}

// refine looks for the innermost node whose own encoding disagrees with its
// Size(); it returns that node's type and a description.
func (k *checker) refine(x work.Encodable, b []byte, walk bool) (string, string) {
	typ := work.TypeOf(x)
	if !walk {
		return typ, ""
	}
	cur := x
	for depth := 0; depth < 32; depth++ {
		next := work.Encodable(nil)
		for _, ch := range work.Children(cur) {
			e := work.EncodeW(k.c, ch)
			if !e.OK() {
				continue
			}
			var sz uint64
			_ = k.c.Guard(func() { sz = ch.Size() })
			if uint64(len(e.Bytes))+work.LazyMdatBytes(ch) != sz {
				next = ch
				break
			}
		}
		if next == nil {
			break
		}
		cur = next
	}
	if cur == x {
		return typ, ""
	}
	e := work.EncodeW(k.c, cur)
	return work.TypeOf(cur), fmt.Sprintf("; innermost inconsistent node: %s with Size()=%d encoding to %d bytes", work.TypeOf(cur), cur.Size(), len(e.Bytes))
}

// nodes checks every node below x against its sub-range of b (= x encoded).
func (k *checker) nodes(x work.Encodable, b []byte, depth int) {
	if depth > 40 || k.fail {
		return
	}
	ch := work.Children(x)
	if len(ch) == 0 {
		return
	}
	var total uint64
	sizes := make([]uint64, len(ch))
	for i, n := range ch {
		if pi := k.c.Guard(func() { sizes[i] = n.Size() }); pi != nil {
			return
		}
		total += sizes[i]
	}
	ptyp := work.TypeOf(x)
	if total > uint64(len(b)) {
		k.violation("children-exceed-parent", ptyp, fmt.Sprintf("the children's Size() sum to %d, the parent encoded to %d bytes", total, len(b)))
		return
	}
	off := uint64(len(b)) - total
	if _, isBox := x.(mp4.Box); !isBox && off != 0 {
		k.violation("container-size", ptyp, fmt.Sprintf("%s encoded to %d bytes but its children's Size() sum to %d", ptyp, len(b), total))
		return
	}
	for i, n := range ch {
		sub := b[off : off+sizes[i]]
		off += sizes[i]
		t := work.TypeOf(n)
		k.c.Count("nodes_checked", 1)
		if _, isMdat := n.(*mp4.MdatBox); isMdat && len(sub) > 4096 {
			continue
		}
		if box, isBox := n.(mp4.Box); isBox {
			if len(sub) < 8 {
				k.violation("node-size", t, fmt.Sprintf("Size()=%d is smaller than a box header", sizes[i]))
				return
			}
			field := uint64(binary.BigEndian.Uint32(sub))
			if field == 1 && len(sub) >= 16 {
				field = binary.BigEndian.Uint64(sub[8:])
			}
			if field != sizes[i] || string(sub[4:8]) != box.Type() {
				k.violation("node-size-field", t, fmt.Sprintf("inside %s: at the position where child %d (%s, Size()=%d) must start the bytes hold size %d type %q", ptyp, i, t, sizes[i], field, sub[4:8]))
				return
			}
		}
		e := work.EncodeW(k.c, n)
		if !e.OK() {
			k.c.Count("node_own_encode_error", 1)
			continue
		}
		if uint64(len(e.Bytes))+work.LazyMdatBytes(n) != sizes[i] {
			k.violation("node-size", t, fmt.Sprintf("node %s inside %s: Size()=%d but encoded on its own it is %d bytes", t, ptyp, sizes[i], len(e.Bytes)))
			return
		}
		if !bytes.Equal(e.Bytes, sub) {
			k.violation("node-bytes", t, fmt.Sprintf("node %s inside %s encoded on its own differs from its range in the parent's encoding at byte %d of %d", t, ptyp, firstDiff(e.Bytes, sub), len(sub)))
			return
		}
		k.nodes(n, sub, depth+1)
	}
}
