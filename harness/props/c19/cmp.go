package c19

// Structural comparison of two box trees by reflection (including unexported
// fields): nil equals empty for slices and maps, position fields (StartPos)
// are ignored, and the four avcC fields that have no serialised form for the
// profiles 66/77/88 (ISO/IEC 14496-15 §5.3.3.1.2) are ignored for those
// profiles.

import (
	"bytes"
	"fmt"
	"reflect"

	"verifharness/treecmp"
)

type visitKey struct {
	a, b uintptr
	t    reflect.Type
}

type differ struct {
	diffs   []string
	visited map[visitKey]bool
}

func treeDiff(a, b interface{}) []string {
	d := &differ{visited: map[visitKey]bool{}}
	d.walk(reflect.ValueOf(a), reflect.ValueOf(b), "")
	return d.diffs
}

func (d *differ) add(path, format string, args ...interface{}) {
	if len(d.diffs) < 8 {
		d.diffs = append(d.diffs, path+": "+fmt.Sprintf(format, args...))
	}
}

func (d *differ) walk(a, b reflect.Value, path string) {
	if len(d.diffs) >= 8 {
		return
	}
	if !a.IsValid() || !b.IsValid() {
		if a.IsValid() != b.IsValid() {
			d.add(path, "one side is missing")
		}
		return
	}
	if a.Type() != b.Type() {
		d.add(path, "type %s vs %s", a.Type(), b.Type())
		return
	}
	switch a.Kind() {
	case reflect.Ptr:
		if a.IsNil() || b.IsNil() {
			if a.IsNil() != b.IsNil() {
				d.add(path, "nil vs non-nil %s", a.Type())
			}
			return
		}
		k := visitKey{a.Pointer(), b.Pointer(), a.Type()}
		if d.visited[k] {
			return
		}
		d.visited[k] = true
		d.walk(a.Elem(), b.Elem(), path)
	case reflect.Interface:
		if a.IsNil() || b.IsNil() {
			if a.IsNil() != b.IsNil() {
				d.add(path, "nil vs non-nil interface")
			}
			return
		}
		d.walk(a.Elem(), b.Elem(), path)
	case reflect.Struct:
		t := a.Type()
		skipAvcExt := false
		if t.Name() == "DecConfRec" {
			if f := a.FieldByName("AVCProfileIndication"); f.IsValid() {
				switch f.Uint() {
				case 66, 77, 88:
					skipAvcExt = true
				}
			}
		}
		for i := 0; i < t.NumField(); i++ {
			name := t.Field(i).Name
			if name == "StartPos" || treecmp.UnknownPrivateField(t, i) {
				continue
			}
			if skipAvcExt && (name == "ChromaFormat" || name == "BitDepthLumaMinus1" || name == "BitDepthChromaMinus1" || name == "NumSPSExt") {
				continue
			}
			d.walk(a.Field(i), b.Field(i), path+"."+name)
		}
	case reflect.Slice:
		if a.Len() != b.Len() {
			d.add(path, "length %d vs %d", a.Len(), b.Len())
			return
		}
		if a.Type().Elem().Kind() == reflect.Uint8 {
			if !bytes.Equal(a.Bytes(), b.Bytes()) {
				d.add(path, "bytes %x vs %x", clip(a.Bytes()), clip(b.Bytes()))
			}
			return
		}
		for i := 0; i < a.Len(); i++ {
			d.walk(a.Index(i), b.Index(i), fmt.Sprintf("%s[%d]", path, i))
		}
	case reflect.Array:
		for i := 0; i < a.Len(); i++ {
			d.walk(a.Index(i), b.Index(i), fmt.Sprintf("%s[%d]", path, i))
		}
	case reflect.Map:
		if a.Len() != b.Len() {
			d.add(path, "map length %d vs %d", a.Len(), b.Len())
			return
		}
		for _, k := range a.MapKeys() {
			d.walk(a.MapIndex(k), b.MapIndex(k), fmt.Sprintf("%s[%v]", path, k))
		}
	case reflect.String:
		if a.String() != b.String() {
			d.add(path, "%q vs %q", a.String(), b.String())
		}
	case reflect.Bool:
		if a.Bool() != b.Bool() {
			d.add(path, "%v vs %v", a.Bool(), b.Bool())
		}
	case reflect.Int, reflect.Int8, reflect.Int16, reflect.Int32, reflect.Int64:
		if a.Int() != b.Int() {
			d.add(path, "%d vs %d", a.Int(), b.Int())
		}
	case reflect.Uint, reflect.Uint8, reflect.Uint16, reflect.Uint32, reflect.Uint64, reflect.Uintptr:
		if a.Uint() != b.Uint() {
			d.add(path, "%d vs %d", a.Uint(), b.Uint())
		}
	case reflect.Float32, reflect.Float64:
		if a.Float() != b.Float() {
			d.add(path, "%v vs %v", a.Float(), b.Float())
		}
	}
}

func clip(b []byte) []byte {
	if len(b) > 48 {
		return b[:48]
	}
	return b
}
