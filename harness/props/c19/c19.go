// Package c19 decides property C19 (init segments built through the API are
// consistent and self-describing) by running generated API histories
// (CreateEmptyInit, AddEmptyTrack*, Set*Descriptor*) against the real code and
// checking the statement's invariants on the live structure, on the encoded
// bytes (read by the independent walker and own field readers), and on the
// trees obtained with both decoders; finally a fragment for the init's track
// ids is written and read back against the decoded init.
package c19

import (
	"bytes"
	"fmt"
	"regexp"
	"sort"
	"strings"

	"github.com/Eyevinn/mp4ff/bits"
	"github.com/Eyevinn/mp4ff/mp4"

	"verifharness/ref/boxwalk"
	"verifharness/ref/spsdim"
	"verifharness/runner"
)

func init() {
	runner.Register(&runner.Prop{
		ID: "C19",
		Rule: "One case = one API history: CreateEmptyInit; 1..8 x AddEmptyTrack(timescale in {1,1000,48000,90000,2^32-1}, media type in the 24 listed values " +
			"(video audio subtitle subtitles stpp text wvtt meta clcp, custom 4-char handler types hint/auxv/tmcd/abcd and ID32/MPsm/m7sm/Ab1d/3gpp/s-1_/'a b '/TMCD, raw handler names vide/soun/subt) " +
			"or a random custom four-character type over letters of both cases, digits and punctuation (never a case variant of a named type); language in 7 tags incl. 2-letter, BCP-47 and a 35-char tag, plus a deterministic tail of every media type x four 3-character tags that are not three lower-case letters: ENG, sWe, a1b, e-n); " +
			"per track the matching Set{AVC,HEVC,AAC,AC3,EC3,Wvtt,Stpp}Descriptor with parameter sets from the independent serializer ref/spsdim (sizes, cropping, chroma format, bit depth, profile/level, scaling lists, sub-layers varied; " +
			"about a third of the video tracks get a list of 2..4 SPS with different ids: a copy with another level and/or independently drawn SPS of other picture size/profile/level, HEVC with up to 3 VPS) " +
			"or harvested from the repository's test streams (a third of those with the first SPS of a second stream appended); optionally a call that must be rejected first, unsupported media type probes, and a resume of the history on a decoded copy (decoded by any of the three ways below). " +
			"A quarter of the generated High-syntax AVC SPS carry a scaling matrix, two thirds of those with lists that end early (delta_scale -8 first = use the default list; or a delta giving next scale 0 after 1..size-1 values = tail repeats the last value), the rest written out in full. " +
			"Call order: interleaved (AddEmptyTrack, its descriptor, next track; all grid cases), or for 40% of the random histories of 2+ tracks every AddEmptyTrack first and the descriptors afterwards in track order or in a drawn permutation. " +
			"Between the steps (after an AddEmptyTrack before its descriptor, after a Set*Descriptor before the next step; each with probability 1/4) the init is serialised with a drawn mix of Size / Encode(io.Writer) / EncodeSW whose results must agree; the history then goes on and the final init is judged as always. " +
			"Every init is encoded three ways that must agree byte for byte: Encode(io.Writer), EncodeSW into a fresh FixedSliceWriter, and EncodeSW into a caller-owned buffer pre-filled with 0xA5/0xFF/0x01/'x' (bits.NewFixedSliceWriterFromSlice, 16 bytes to spare). " +
			"The first cases are a deterministic grid (media x language, AAC objType x frequency, AC-3/EC-3 fscod x acmod x lfe, every real parameter set x sample entry type x includePS, rejections, AVC profiles, 1..8 tracks); the rest are random. " +
			"The encoded init is decoded three ways, each judged by all invariants, compared with the built tree and re-encoded: DecodeFile(bytes.Reader), DecodeFile(*bytes.Buffer) and DecodeFileSR(FixedSliceReader); the two io.Reader sources are private copies whose storage is reused (Buffer: Reset + Write; then all of it overwritten with 0xA5) as soon as DecodeFile has returned, before the tree is looked at. " +
				"A case is non-trivial when the init was encoded, decoded by all three ways and a fragment for its track ids was read back; it is identified by the hash of the encoded init.",
		Assumptions: []string{
			"expected picture size = cropping formulas of ISO/IEC 14496-10 7.4.2.1.1 / ISO/IEC 23008-2 7.4.3.2.1 applied by ref/spsdim to the values it serialised (or, for harvested SPS, read with its own reader)",
			"handler/media-header pairs: vide-vmhd, soun-smhd, subt-sthd, others nmhd (ISO/IEC 14496-12 8.4.5, 12.x; 14496-30 for wvtt/stpp)",
			"language: a tag of three lower-case letters goes packed into mdhd, every other tag gives mdhd 'und' + elng with the tag (doc comment of CreateEmptyTrak)",
			"several SPS in one Set{AVC,HEVC}Descriptor call: size, tkhd size and the profile/level/chroma/bit-depth fields of the configuration record must all be those of one supplied SPS (mp4ff: the first); which one is not fixed by the statement, so any single SPS accounting for all fields is accepted",
			"a custom handler type is four bytes compared byte for byte with hdlr.handler_type (a four-character code is case sensitive, ISO/IEC 14496-12 4.2)",
			"a tree decoded from an io.Reader (bytes.Reader, *bytes.Buffer) owns its data: the io.Reader contract copies into the callee's buffer and bytes.Buffer.Next/Bytes are only valid until the buffer is modified, so reusing the source afterwards must not change the tree (unchanged mp4ff: readBoxBody / io.ReadAll copy); DecodeFileSR over a FixedSliceReader documents sub-slices of the input, that source is left untouched",
			"Size, Encode and EncodeSW describe the tree as it is at the moment of the call, also when the init was serialised earlier in the history (nothing in the API says a serialisation is final; Set*Descriptor are TrakBox methods that are meant to be called after AddEmptyTrack)",
			"structural equality ignores StartPos and treats nil == empty; avcC chroma/bit-depth fields are ignored for profiles 66/77/88 where they have no serialised form",
		},
		Setup: func(env *runner.Env) error {
			harvest(env)
			buildGrid()
			return nil
		},
		NumCases: func(env *runner.Env) int {
			tailStart = len(grid) + 40000
			if env.Tier == "thorough" {
				tailStart = len(grid) + 400000
			}
			return tailStart + len(tailGrid)
		},
		Run: run,
		Finalize: func(a *runner.Agg) {
			for _, n := range harvestNotes {
				a.Note(n)
			}
		},
	})
}

type state struct {
	resumed string
	c       *runner.Ctx
	h       *history
	failed  map[string]bool
	detail  map[string]interface{}
}

// viol records a violation once per (invariant, class) and case; the key names
// the first stage at which the invariant failed.
func (s *state) viol(stage, inv, class, what string) {
	k := inv + "/" + class
	if s.failed[k] {
		return
	}
	s.failed[k] = true
	s.c.Violation(stage+"/"+k, "["+stage+"] "+what+s.resumed, s.detail)
}

func isThreeLetters(l string) bool {
	if len(l) != 3 {
		return false
	}
	for i := 0; i < 3; i++ {
		if l[i] < 'a' || l[i] > 'z' {
			return false
		}
	}
	return true
}

func langClass(l string) string {
	switch {
	case isThreeLetters(l):
		return "3-letter"
	case len(l) == 3:
		return "3-char-non-letter"
	case len(l) == 2:
		return "2-letter"
	case len(l) > 30:
		return "long-tag"
	}
	return "bcp47"
}

type mediaExp struct {
	pairs [][2]string // acceptable (handler, media header) pairs
	audio bool
	class string
}

// expectMedia is the oracle's reading of "handler and media-header boxes
// matching the media type".
func expectMedia(m string) (mediaExp, bool) {
	switch m {
	case "video":
		return mediaExp{pairs: [][2]string{{"vide", "vmhd"}}, class: m}, true
	case "vide":
		return mediaExp{pairs: [][2]string{{"vide", "vmhd"}}, class: "handler-alias"}, true
	case "audio":
		return mediaExp{pairs: [][2]string{{"soun", "smhd"}}, audio: true, class: m}, true
	case "soun":
		return mediaExp{pairs: [][2]string{{"soun", "smhd"}}, audio: true, class: "handler-alias"}, true
	case "subtitle", "subtitles", "stpp":
		return mediaExp{pairs: [][2]string{{"subt", "sthd"}}, class: m}, true
	case "subt":
		return mediaExp{pairs: [][2]string{{"subt", "sthd"}}, class: "handler-alias"}, true
	case "text", "wvtt":
		return mediaExp{pairs: [][2]string{{"text", "nmhd"}}, class: m}, true
	case "meta":
		return mediaExp{pairs: [][2]string{{"meta", "nmhd"}}, class: m}, true
	case "clcp":
		// CreateHdlr documents clcp -> 'subt' ("closed captions handler"); the HdlrBox
		// comment lists 'clcp' as a handler type of its own: accept either, with
		// the media header that goes with the handler.
		return mediaExp{pairs: [][2]string{{"subt", "sthd"}, {"clcp", "nmhd"}}, class: m}, true
	}
	if len(m) == 4 {
		return mediaExp{pairs: [][2]string{{m, "nmhd"}}, class: "custom-4char"}, true
	}
	return mediaExp{}, false
}

type expTrack struct {
	id    uint32
	spec  *trackSpec
	me    mediaExp
	entry bool // a sample entry is expected
}

func descClass(d *descSpec) string {
	switch d.Kind {
	case "avc":
		switch d.Info.ProfileIDC {
		case 66, 77, 88:
			return "avc-base"
		case 100, 110, 122, 144:
			return "avc-high"
		}
		return "avc-other-profile"
	case "aac":
		if d.Freq > 65535 {
			return "aac-gt-65535"
		}
		return "aac"
	}
	return d.Kind
}

// ---------------------------------------------------------------------------
// observations common to the tree view and the byte view

type oTrack struct {
	id           uint32
	volume       uint16
	tkW, tkH     uint32
	timescale    uint32
	lang         string
	hdlr         string
	elngs        []string
	mhd          string
	minfKids     []string
	drefCount    uint32
	stsdCount    uint32
	entryTypes   []string
	entryDref    uint16
	w, h         uint16
	avc          *bAvcC
	hvc          *bHvcC
	channels     uint16
	sampleSize   uint16
	sampleRate   uint32 // integer part
	esds         *bEsds
	dac3, dec3   []byte
	vttC         *string
	stpp         []string
	sttsEntries  int
	problems     []string
	mhdPtrWanted string
}

type oInit struct {
	moovKids []string
	mvexKids []string
	nextID   uint32
	tracks   []oTrack
	trexIDs  []uint32
	trexSDI  []uint32
	problems []string
}

func boxTypes(bs []mp4.Box) []string {
	var out []string
	for _, b := range bs {
		if b == nil {
			out = append(out, "<nil>")
			continue
		}
		out = append(out, b.Type())
	}
	return out
}

// obsTree reads the invariants' inputs from an mp4ff tree through its exported
// fields (live structure or decoded tree).
func obsTree(moov *mp4.MoovBox) *oInit {
	o := &oInit{}
	if moov == nil {
		o.problems = append(o.problems, "Moov is nil")
		return o
	}
	o.moovKids = boxTypes(moov.Children)
	if moov.Mvhd == nil {
		o.problems = append(o.problems, "Moov.Mvhd is nil")
	} else {
		o.nextID = moov.Mvhd.NextTrackID
	}
	// pointer consistency: Traks is exactly the trak children in order, Trak the first
	var kidTraks []*mp4.TrakBox
	for _, ch := range moov.Children {
		if t, ok := ch.(*mp4.TrakBox); ok {
			kidTraks = append(kidTraks, t)
		}
	}
	if len(kidTraks) != len(moov.Traks) {
		o.problems = append(o.problems, fmt.Sprintf("Moov.Traks has %d entries, Moov.Children has %d trak boxes", len(moov.Traks), len(kidTraks)))
	} else {
		for i := range kidTraks {
			if kidTraks[i] != moov.Traks[i] {
				o.problems = append(o.problems, fmt.Sprintf("Moov.Traks[%d] is not the %d. trak child", i, i+1))
				break
			}
		}
	}
	if len(moov.Traks) > 0 && moov.Trak != moov.Traks[0] {
		o.problems = append(o.problems, "Moov.Trak is not Moov.Traks[0]")
	}
	if moov.Mvex == nil {
		o.problems = append(o.problems, "Moov.Mvex is nil")
	} else {
		mv := moov.Mvex
		o.mvexKids = boxTypes(mv.Children)
		var kidTrex []*mp4.TrexBox
		for _, ch := range mv.Children {
			if t, ok := ch.(*mp4.TrexBox); ok {
				kidTrex = append(kidTrex, t)
			}
		}
		if len(kidTrex) != len(mv.Trexs) {
			o.problems = append(o.problems, fmt.Sprintf("Mvex.Trexs has %d entries, Mvex.Children has %d trex boxes", len(mv.Trexs), len(kidTrex)))
		} else {
			for i := range kidTrex {
				if kidTrex[i] != mv.Trexs[i] {
					o.problems = append(o.problems, fmt.Sprintf("Mvex.Trexs[%d] is not the %d. trex child", i, i+1))
					break
				}
			}
		}
		if len(mv.Trexs) > 0 && mv.Trex != mv.Trexs[0] {
			o.problems = append(o.problems, "Mvex.Trex is not Mvex.Trexs[0]")
		}
		for _, t := range mv.Trexs {
			if t == nil {
				o.problems = append(o.problems, "nil entry in Mvex.Trexs")
				continue
			}
			o.trexIDs = append(o.trexIDs, t.TrackID)
			o.trexSDI = append(o.trexSDI, t.DefaultSampleDescriptionIndex)
			if got, ok := mv.GetTrex(t.TrackID); !ok || got == nil || got.TrackID != t.TrackID {
				o.problems = append(o.problems, fmt.Sprintf("Mvex.GetTrex(%d) does not find the trex", t.TrackID))
			}
		}
	}
	for i, trak := range moov.Traks {
		o.tracks = append(o.tracks, obsTrak(trak, i))
	}
	return o
}

func obsTrak(trak *mp4.TrakBox, i int) oTrack {
	t := oTrack{}
	bad := func(f string, a ...interface{}) {
		t.problems = append(t.problems, fmt.Sprintf("track %d: ", i+1)+fmt.Sprintf(f, a...))
	}
	if trak == nil || trak.Tkhd == nil || trak.Mdia == nil || trak.Mdia.Mdhd == nil || trak.Mdia.Hdlr == nil || trak.Mdia.Minf == nil ||
		trak.Mdia.Minf.Stbl == nil || trak.Mdia.Minf.Stbl.Stsd == nil {
		bad("trak/tkhd/mdia/mdhd/hdlr/minf/stbl/stsd pointer is nil")
		return t
	}
	t.id = trak.Tkhd.TrackID
	t.volume = uint16(trak.Tkhd.Volume)
	t.tkW, t.tkH = uint32(trak.Tkhd.Width), uint32(trak.Tkhd.Height)
	mdia := trak.Mdia
	t.timescale = mdia.Mdhd.Timescale
	t.lang = mdia.Mdhd.GetLanguage()
	t.hdlr = mdia.Hdlr.HandlerType
	for _, ch := range mdia.Children {
		if e, ok := ch.(*mp4.ElngBox); ok {
			t.elngs = append(t.elngs, e.Language)
			if mdia.Elng != e {
				bad("Mdia.Elng does not point at the elng child")
			}
			if e.MissingFullBoxBytes() {
				bad("elng lacks full-box bytes")
			}
		}
	}
	if len(t.elngs) == 0 && mdia.Elng != nil {
		bad("Mdia.Elng set but no elng child")
	}
	minf := mdia.Minf
	t.minfKids = boxTypes(minf.Children)
	if len(t.minfKids) > 0 {
		t.mhd = t.minfKids[0]
	}
	switch t.mhd {
	case "vmhd":
		if minf.Vmhd == nil {
			bad("vmhd child but Minf.Vmhd nil")
		}
	case "smhd":
		if minf.Smhd == nil {
			bad("smhd child but Minf.Smhd nil")
		}
	case "sthd":
		if minf.Sthd == nil {
			bad("sthd child but Minf.Sthd nil")
		}
	}
	if minf.Dinf != nil && minf.Dinf.Dref != nil {
		t.drefCount = uint32(len(minf.Dinf.Dref.Children))
		if minf.Dinf.Dref.EntryCount != t.drefCount {
			bad("dref EntryCount %d with %d children", minf.Dinf.Dref.EntryCount, t.drefCount)
		}
	}
	stbl := minf.Stbl
	if stbl.Stts == nil || stbl.Stsc == nil || stbl.Stsz == nil || stbl.Stco == nil {
		bad("stts/stsc/stsz/stco missing in stbl")
	} else {
		t.sttsEntries = len(stbl.Stts.SampleCount)
	}
	stsd := stbl.Stsd
	t.stsdCount = stsd.SampleCount
	t.entryTypes = boxTypes(stsd.Children)
	if len(stsd.Children) != 1 {
		return t
	}
	switch e := stsd.Children[0].(type) {
	case *mp4.VisualSampleEntryBox:
		t.entryDref = e.DataReferenceIndex
		t.w, t.h = e.Width, e.Height
		switch e.Type() {
		case "avc1", "avc3":
			if stsd.AvcX != e {
				bad("Stsd.AvcX does not point at the %s entry", e.Type())
			}
		case "hvc1", "hev1":
			if stsd.HvcX != e {
				bad("Stsd.HvcX does not point at the %s entry", e.Type())
			}
		}
		if e.AvcC != nil {
			r := &e.AvcC.DecConfRec
			t.avc = &bAvcC{version: 1, profile: r.AVCProfileIndication, compat: r.ProfileCompatibility, level: r.AVCLevelIndication,
				lengthSizeMinusOne: 3, reservedOK: true, sps: r.SPSnalus, pps: r.PPSnalus, chroma: r.ChromaFormat,
				depthLuma: r.BitDepthLumaMinus1, depthChroma: r.BitDepthChromaMinus1, numSPSExt: r.NumSPSExt}
			switch r.AVCProfileIndication {
			case 66, 77, 88:
			default:
				t.avc.hasExt = !r.NoTrailingInfo
			}
		}
		if e.HvcC != nil {
			r := &e.HvcC.DecConfRec
			h := &bHvcC{version: r.ConfigurationVersion, profileSpace: r.GeneralProfileSpace, tier: r.GeneralTierFlag, profileIDC: r.GeneralProfileIDC,
				compat: r.GeneralProfileCompatibilityFlags, constraint: r.GeneralConstraintIndicatorFlags, level: r.GeneralLevelIDC,
				chroma: r.ChromaFormatIDC, depthLumaM8: r.BitDepthLumaMinus8, depthChromaM8: r.BitDepthChromaMinus8, lengthSizeM1: r.LengthSizeMinusOne}
			for _, a := range r.NaluArrays {
				a := a
				h.arrays = append(h.arrays, bHvcArray{complete: a.Complete() == 1, typ: byte(a.NaluType()), nalus: a.Nalus})
			}
			t.hvc = h
		}
	case *mp4.AudioSampleEntryBox:
		t.entryDref = e.DataReferenceIndex
		t.channels, t.sampleSize, t.sampleRate = e.ChannelCount, e.SampleSize, uint32(e.SampleRate)
		switch e.Type() {
		case "mp4a":
			if stsd.Mp4a != e {
				bad("Stsd.Mp4a does not point at the mp4a entry")
			}
		case "ac-3":
			if stsd.AC3 != e {
				bad("Stsd.AC3 does not point at the ac-3 entry")
			}
		case "ec-3":
			if stsd.EC3 != e {
				bad("Stsd.EC3 does not point at the ec-3 entry")
			}
		}
		if e.Esds != nil {
			es := &bEsds{}
			if e.Esds.DecConfigDescriptor == nil || e.Esds.DecConfigDescriptor.DecSpecificInfo == nil {
				bad("esds without DecConfigDescriptor/DecSpecificInfo")
			} else {
				es.objectType = e.Esds.DecConfigDescriptor.ObjectType
				es.streamType = e.Esds.DecConfigDescriptor.StreamType >> 2
				es.asc = e.Esds.DecConfigDescriptor.DecSpecificInfo.DecConfig
			}
			t.esds = es
		}
		if d := e.Dac3; d != nil {
			t.dac3 = refDac3(d.FSCod, d.BSID, d.BSMod, d.ACMod, d.LFEOn, d.BitRateCode)
			if d.Reserved != 0 || d.InitialZeroes != 0 {
				bad("dac3 Reserved/InitialZeroes non-zero")
			}
		}
		if d := e.Dec3; d != nil {
			var subs []ec3Sub
			for _, s := range d.EC3Subs {
				subs = append(subs, ec3Sub{s.FSCod, s.BSID, s.ASVC, s.BSMod, s.ACMod, s.LFEOn, s.NumDepSub, s.ChanLoc})
			}
			if len(subs) > 0 {
				t.dec3 = append(refDec3(d.DataRate, subs), d.Reserved...)
			} else {
				bad("dec3 without substreams")
			}
		}
	case *mp4.WvttBox:
		t.entryDref = e.DataReferenceIndex
		if stsd.Wvtt != e {
			bad("Stsd.Wvtt does not point at the wvtt entry")
		}
		if e.VttC != nil {
			s := e.VttC.Config
			t.vttC = &s
		}
	case *mp4.StppBox:
		t.entryDref = e.DataReferenceIndex
		if stsd.Stpp != e {
			bad("Stsd.Stpp does not point at the stpp entry")
		}
		t.stpp = []string{e.Namespace, e.SchemaLocation, e.AuxiliaryMimeTypes}
	default:
		bad("sample entry of unexpected Go type %T", e)
	}
	return t
}

// obsBytes reads the same inputs from the encoded bytes with the independent readers.
func obsBytes(b []byte) (*oInit, error) {
	bi, _, err := readInitBytes(b)
	if err != nil {
		return nil, err
	}
	o := &oInit{moovKids: bi.moovKids, mvexKids: bi.mvexKids, nextID: bi.nextTrackID, trexIDs: bi.trexIDs, trexSDI: bi.trexSDI}
	for i, bt := range bi.tracks {
		t := oTrack{id: bt.tkhdID, volume: bt.tkhdVolume, tkW: bt.tkhdW, tkH: bt.tkhdH, timescale: bt.timescale, lang: bt.lang, hdlr: bt.hdlr,
			elngs: bt.elngs, minfKids: bt.minfKids, drefCount: bt.drefCount, stsdCount: bt.stsdCount, sttsEntries: int(bt.sttsCount)}
		bad := func(f string, a ...interface{}) {
			t.problems = append(t.problems, fmt.Sprintf("track %d: ", i+1)+fmt.Sprintf(f, a...))
		}
		if len(bt.minfKids) > 0 {
			t.mhd = bt.minfKids[0]
		}
		if len(bt.drefKids) != 1 || bt.drefKids[0] != "url " || bt.urlFlags != 1 {
			bad("dref children %q, url flags %d (want one self-contained url)", bt.drefKids, bt.urlFlags)
		}
		for _, want := range []string{"stsd", "stts", "stsc", "stsz", "stco"} {
			found := false
			for _, k := range bt.stblKids {
				found = found || k == want
			}
			if !found {
				bad("stbl lacks %s", want)
			}
		}
		for _, e := range bt.entries {
			t.entryTypes = append(t.entryTypes, e.Type)
		}
		if len(bt.entries) == 1 {
			e := bt.entries[0]
			t.entryDref = entryDataRefIndex(b, e)
			switch e.Type {
			case "avc1", "avc3", "hvc1", "hev1":
				v, err := readVisual(b, e)
				if err != nil {
					bad("%v", err)
					break
				}
				t.w, t.h = v.width, v.height
				if c := e.Child("avcC"); c != nil {
					if t.avc, err = readAvcC(c.Payload(b)); err != nil {
						bad("avcC: %v", err)
					}
				}
				if c := e.Child("hvcC"); c != nil {
					if t.hvc, err = readHvcC(c.Payload(b)); err != nil {
						bad("hvcC: %v", err)
					}
				}
			case "mp4a", "ac-3", "ec-3":
				a, err := readAudio(b, e)
				if err != nil {
					bad("%v", err)
					break
				}
				t.channels, t.sampleSize, t.sampleRate = a.channels, a.sampleSize, a.sampleRate>>16
				if a.sampleRate&0xffff != 0 {
					bad("audio sample rate has a fractional part %08x", a.sampleRate)
				}
				if c := e.Child("esds"); c != nil {
					if t.esds, err = readEsds(c.Payload(b)); err != nil {
						bad("esds: %v", err)
					}
				}
				if c := e.Child("dac3"); c != nil {
					t.dac3 = c.Payload(b)
				}
				if c := e.Child("dec3"); c != nil {
					t.dec3 = c.Payload(b)
				}
			case "wvtt":
				if c := e.Child("vttC"); c != nil {
					s := string(c.Payload(b))
					t.vttC = &s
				}
			case "stpp":
				if t.stpp, err = readStppStrings(b, e); err != nil {
					bad("%v", err)
				}
			}
		}
		o.tracks = append(o.tracks, t)
	}
	return o, nil
}

// ---------------------------------------------------------------------------
// the invariants of the statement

func eqNalus(a, b [][]byte) bool {
	if len(a) != len(b) {
		return false
	}
	for i := range a {
		if !bytes.Equal(a[i], b[i]) {
			return false
		}
	}
	return true
}

func (s *state) checkInit(stage string, o *oInit, exps []expTrack) {
	n := len(exps)
	nclass := "multi-track"
	if n == 1 {
		nclass = "single-track"
	}
	for _, p := range o.problems {
		s.viol(stage, "structure", nclass, p)
	}
	// unique ids 1..n in order
	var ids []uint32
	for _, t := range o.tracks {
		ids = append(ids, t.id)
	}
	okIDs := len(ids) == n
	for i := 0; okIDs && i < n; i++ {
		okIDs = ids[i] == uint32(i+1)
	}
	if !okIDs {
		s.viol(stage, "track-ids", nclass, fmt.Sprintf("track ids %v, expected 1..%d in order", ids, n))
	}
	okT := len(o.trexIDs) == n
	for i := 0; okT && i < n; i++ {
		okT = o.trexIDs[i] == uint32(i+1)
	}
	if !okT {
		s.viol(stage, "trex-ids", nclass, fmt.Sprintf("trex track ids %v for track ids %v: expected one trex per track with the same id, in order", o.trexIDs, ids))
	}
	for i, v := range o.trexSDI {
		if v != 1 {
			s.viol(stage, "trex-default-sample-description-index", nclass, fmt.Sprintf("trex %d has default_sample_description_index %d", i+1, v))
		}
	}
	var maxID uint32
	for _, id := range ids {
		if id > maxID {
			maxID = id
		}
	}
	if o.nextID <= maxID || o.nextID <= uint32(n) {
		s.viol(stage, "next-track-id", nclass, fmt.Sprintf("mvhd.next_track_ID = %d with track ids %v", o.nextID, ids))
	}
	// moov children: one mvhd first, one mvex, traks adjacent
	cnt := map[string]int{}
	first, last := -1, -1
	for i, k := range o.moovKids {
		cnt[k]++
		if k == "trak" {
			if first < 0 {
				first = i
			}
			last = i
		}
	}
	if cnt["mvhd"] != 1 || cnt["mvex"] != 1 || len(o.moovKids) == 0 || o.moovKids[0] != "mvhd" || cnt["trak"] != n || (n > 0 && last-first+1 != n) {
		s.viol(stage, "moov-children", nclass, fmt.Sprintf("moov children %v: expected mvhd first, one mvex and %d adjacent trak boxes", o.moovKids, n))
	}
	nt := 0
	for _, k := range o.mvexKids {
		if k == "trex" {
			nt++
		} else {
			s.viol(stage, "mvex-children", nclass, fmt.Sprintf("mvex children %v", o.mvexKids))
		}
	}
	if len(o.tracks) != n || !okIDs {
		// tracks cannot be paired with what was asked for: the per-track checks
		// would only repeat the finding above
		return
	}
	for i := range exps {
		s.checkTrack(stage, &o.tracks[i], &exps[i])
	}
}

func (s *state) checkTrack(stage string, t *oTrack, e *expTrack) {
	sp := e.spec
	tr := fmt.Sprintf("track %d (AddEmptyTrack(%d, %q, %q)): ", e.id, sp.Timescale, sp.Media, sp.Lang)
	for _, p := range t.problems {
		s.viol(stage, "structure", e.me.class, p)
	}
	if t.timescale != sp.Timescale {
		s.viol(stage, "mdhd-timescale", "any", tr+fmt.Sprintf("mdhd timescale %d", t.timescale))
	}
	// handler / media header
	hdlrOK, pairOK := false, false
	for _, p := range e.me.pairs {
		if t.hdlr == p[0] {
			hdlrOK = true
			if t.mhd == p[1] {
				pairOK = true
			}
		}
	}
	if !hdlrOK {
		s.viol(stage, "hdlr", e.me.class, tr+fmt.Sprintf("handler type %q, media header %q; acceptable (handler, media header) pairs: %v", t.hdlr, t.mhd, e.me.pairs))
	} else if !pairOK {
		s.viol(stage, "media-header", e.me.class, tr+fmt.Sprintf("handler type %q with media header %q (minf children %v); acceptable pairs: %v", t.hdlr, t.mhd, t.minfKids, e.me.pairs))
	}
	wantVol := uint16(0)
	if e.me.audio {
		wantVol = 0x0100
	}
	if t.volume != wantVol {
		s.viol(stage, "tkhd-volume", e.me.class, tr+fmt.Sprintf("tkhd volume %#04x, template value for this media type is %#04x", t.volume, wantVol))
	}
	// language
	lc := langClass(sp.Lang)
	if isThreeLetters(sp.Lang) {
		if t.lang != sp.Lang || len(t.elngs) != 0 {
			s.viol(stage, "language", lc, tr+fmt.Sprintf("mdhd language %q, elng %q; expected the tag packed in mdhd and no elng", t.lang, t.elngs))
		}
	} else if t.lang != "und" || len(t.elngs) != 1 || t.elngs[0] != sp.Lang {
		s.viol(stage, "language", lc, tr+fmt.Sprintf("mdhd language %q, elng %q; documented for a tag that is not three letters: mdhd 'und' + elng carrying the tag", t.lang, t.elngs))
	}
	if t.drefCount != 1 {
		s.viol(stage, "dref", "any", tr+fmt.Sprintf("dref entry count %d", t.drefCount))
	}
	if t.sttsEntries != 0 {
		s.viol(stage, "stts-not-empty", "any", tr+fmt.Sprintf("stts has %d entries in an init for fragments", t.sttsEntries))
	}
	d := &sp.Desc
	dc := descClass(d)
	if !e.entry {
		if t.stsdCount != 0 || len(t.entryTypes) != 0 {
			s.viol(stage, "stsd-entries", "no-descriptor", tr+fmt.Sprintf("stsd count %d entries %v although no descriptor was set", t.stsdCount, t.entryTypes))
		}
		return
	}
	wantType := map[string]string{"avc": d.SDType, "hevc": d.SDType, "aac": "mp4a", "ac3": "ac-3", "ec3": "ec-3", "wvtt": "wvtt", "stpp": "stpp"}[d.Kind]
	if t.stsdCount != 1 || len(t.entryTypes) != 1 || t.entryTypes[0] != wantType {
		s.viol(stage, "stsd-entries", dc, tr+fmt.Sprintf("stsd count %d entries %v, expected one %s", t.stsdCount, t.entryTypes, wantType))
		return
	}
	if t.entryDref < 1 || uint32(t.entryDref) > t.drefCount {
		s.viol(stage, "data-reference-index", d.Kind, tr+fmt.Sprintf("%s sample entry has data_reference_index %d, dref has %d entr(y/ies) (index is 1-based)", wantType, t.entryDref, t.drefCount))
	}
	// Several SPS supplied: the sample entry's summary fields (size, tkhd size, profile/level,
	// chroma format, bit depths) have to be those of ONE of them. mp4ff describes the first
	// (SetAVCDescriptor, avc.CreateAVCDecConfRec and their HEVC twins all read spsNALUs[0]); the
	// statement does not name which, so any single supplied SPS that accounts for all of the
	// fields is accepted and the first one is the yardstick when none does.
	in := s.describedSPS(t, d)
	switch d.Kind {
	case "avc", "hevc":
		if uint32(t.w) != in.Width || uint32(t.h) != in.Height {
			s.viol(stage, "sample-entry-size", dc, tr+fmt.Sprintf("%s %dx%d, SPS says %dx%d (coded %dx%d, cropped=%v, chroma_format_idc=%d, frame_mbs_only=%v)%s", wantType, t.w, t.h, in.Width, in.Height, in.CodedWidth, in.CodedHeight, in.Cropped, in.ChromaFormat, in.FrameMbsOnly, spsListNote(d)))
		}
		if t.tkW != in.Width<<16 || t.tkH != in.Height<<16 {
			s.viol(stage, "tkhd-size", dc, tr+fmt.Sprintf("tkhd %d.%04x x %d.%04x, SPS says %dx%d%s", t.tkW>>16, t.tkW&0xffff, t.tkH>>16, t.tkH&0xffff, in.Width, in.Height, spsListNote(d)))
		}
	}
	switch d.Kind {
	case "avc":
		a := t.avc
		if a == nil {
			s.viol(stage, "avcC-missing", dc, tr+"no avcC in the sample entry")
			return
		}
		if a.version != 1 || a.profile != in.ProfileIDC || a.compat != in.ConstraintB || a.level != in.LevelIDC || a.lengthSizeMinusOne != 3 || !a.reservedOK {
			s.viol(stage, "avcC-header", dc, tr+fmt.Sprintf("avcC version %d profile %d compat %#02x level %d lengthSizeMinusOne %d reservedOK=%v; SPS has profile %d compat %#02x level %d",
				a.version, a.profile, a.compat, a.level, a.lengthSizeMinusOne, a.reservedOK, in.ProfileIDC, in.ConstraintB, in.LevelIDC))
		}
		var wantS, wantP [][]byte
		if d.IncludePS {
			wantS, wantP = d.SPS, d.PPS
		}
		if !eqNalus(a.sps, wantS) || !eqNalus(a.pps, wantP) {
			s.viol(stage, "avcC-parameter-sets", dc, tr+fmt.Sprintf("avcC holds %d SPS %x / %d PPS %x; supplied (includePS=%v) %d SPS %x / %d PPS %x", len(a.sps), a.sps, len(a.pps), a.pps, d.IncludePS, len(d.SPS), d.SPS, len(d.PPS), d.PPS))
		}
		mustHave := in.ProfileIDC == 100 || in.ProfileIDC == 110 || in.ProfileIDC == 122 || in.ProfileIDC == 144
		if mustHave && !a.hasExt {
			s.viol(stage, "avcC-extension-missing", dc, tr+"avcC lacks chroma_format/bit_depth fields for a High profile")
		}
		if a.hasExt {
			if uint32(a.chroma) != in.ChromaFormat || uint32(a.depthLuma)+8 != in.BitDepthLuma || uint32(a.depthChroma)+8 != in.BitDepthChroma || a.numSPSExt != 0 {
				s.viol(stage, "avcC-chroma-bitdepth", dc, tr+fmt.Sprintf("avcC chroma_format=%d bit_depth_luma_minus8=%d bit_depth_chroma_minus8=%d; the supplied SPS (profile %d) has chroma_format_idc=%d, bit depths %d/%d",
					a.chroma, a.depthLuma, a.depthChroma, in.ProfileIDC, in.ChromaFormat, in.BitDepthLuma, in.BitDepthChroma))
			}
		}
		if a.trailing != 0 {
			s.viol(stage, "avcC-trailing-bytes", dc, tr+fmt.Sprintf("%d bytes after the end of the AVCDecoderConfigurationRecord for profile %d", a.trailing, a.profile))
		}
	case "hevc":
		h := t.hvc
		if h == nil {
			s.viol(stage, "hvcC-missing", dc, tr+"no hvcC in the sample entry")
			return
		}
		if h.version != 1 || h.profileSpace != in.ProfileSpace || h.tier != in.Tier || h.profileIDC != in.HProfileIDC || h.compat != in.CompatFlags ||
			h.constraint != in.ConstraintInd || h.level != in.HLevelIDC || h.lengthSizeM1 != 3 {
			s.viol(stage, "hvcC-profile-tier-level", dc, tr+fmt.Sprintf("hvcC version %d space %d tier %v profile %d compat %08x constraint %012x level %d lengthSizeMinusOne %d; SPS: space %d tier %v profile %d compat %08x constraint %012x level %d",
				h.version, h.profileSpace, h.tier, h.profileIDC, h.compat, h.constraint, h.level, h.lengthSizeM1, in.ProfileSpace, in.Tier, in.HProfileIDC, in.CompatFlags, in.ConstraintInd, in.HLevelIDC))
		}
		if uint32(h.chroma) != in.ChromaFormat || uint32(h.depthLumaM8)+8 != in.BitDepthLuma || uint32(h.depthChromaM8)+8 != in.BitDepthChroma {
			s.viol(stage, "hvcC-chroma-bitdepth", dc, tr+fmt.Sprintf("hvcC chroma %d depth %d/%d; SPS chroma %d depth %d/%d", h.chroma, h.depthLumaM8+8, h.depthChromaM8+8, in.ChromaFormat, in.BitDepthLuma, in.BitDepthChroma))
		}
		want := map[byte][][]byte{}
		if d.IncludePS {
			want[32], want[33], want[34] = d.VPS, d.SPS, d.PPS
		}
		if len(d.SEI) > 0 {
			want[39] = d.SEI
		}
		seen := map[byte]bool{}
		okArr := len(h.arrays) == len(want)
		for _, a := range h.arrays {
			w, ok := want[a.typ]
			if !ok || seen[a.typ] || !eqNalus(a.nalus, w) {
				okArr = false
			}
			seen[a.typ] = true
			if d.SDType == "hvc1" && a.typ >= 32 && a.typ <= 34 && !a.complete {
				s.viol(stage, "hvcC-array-completeness", dc, tr+fmt.Sprintf("hvc1 with array_completeness=0 for NAL type %d", a.typ))
			}
		}
		if !okArr {
			var got []string
			for _, a := range h.arrays {
				got = append(got, fmt.Sprintf("type %d: %x", a.typ, a.nalus))
			}
			s.viol(stage, "hvcC-parameter-sets", dc, tr+fmt.Sprintf("hvcC arrays [%s]; supplied (includePS=%v) VPS %x SPS %x PPS %x SEI %x", strings.Join(got, "; "), d.IncludePS, d.VPS, d.SPS, d.PPS, d.SEI))
		}
		if h.trailing != 0 {
			s.viol(stage, "hvcC-trailing-bytes", dc, tr+fmt.Sprintf("%d bytes after the arrays", h.trailing))
		}
	case "aac":
		ch, ext := 2, 0
		if d.ObjType != 2 {
			ext = 2 * d.Freq
		}
		if d.ObjType == 29 {
			ch = 1
		}
		if int(t.channels) != ch || t.sampleSize != 16 {
			s.viol(stage, "mp4a-fields", dc, tr+fmt.Sprintf("mp4a channelcount %d samplesize %d for objType %d (expected %d, 16)", t.channels, t.sampleSize, d.ObjType, ch))
		}
		if d.Freq <= 65535 {
			if int(t.sampleRate) != d.Freq {
				s.viol(stage, "mp4a-samplerate", dc, tr+fmt.Sprintf("mp4a samplerate %d, SetAACDescriptor was given %d", t.sampleRate, d.Freq))
			}
		} else if t.sampleRate != 0 {
			s.viol(stage, "mp4a-samplerate", dc, tr+fmt.Sprintf("mp4a samplerate field %d for a %d Hz stream: the 16-bit integer part cannot hold the rate and the value written is the rate modulo 65536", t.sampleRate, d.Freq))
		}
		if t.esds == nil {
			s.viol(stage, "esds-missing", dc, tr+"mp4a without esds")
			return
		}
		want := refASC(d.ObjType, ch, d.Freq, ext)
		if t.esds.objectType != 0x40 || t.esds.streamType != 5 || !bytes.Equal(t.esds.asc, want) {
			s.viol(stage, "esds-config", dc, tr+fmt.Sprintf("esds objectTypeIndication %#02x streamType %d AudioSpecificConfig %x; expected 0x40, 5, %x for SetAACDescriptor(%d, %d)", t.esds.objectType, t.esds.streamType, t.esds.asc, want, d.ObjType, d.Freq))
		}
	case "ac3":
		wantCh := acmodChannels[d.Acmod] + int(d.Lfe)
		if int(t.channels) != wantCh || t.sampleSize != 16 || int(t.sampleRate) != ac3Rates[d.Fscod] {
			s.viol(stage, "ac-3-fields", dc, tr+fmt.Sprintf("ac-3 channelcount %d samplesize %d samplerate %d; dac3 fscod=%d acmod=%d lfeon=%d means %d channels at %d Hz", t.channels, t.sampleSize, t.sampleRate, d.Fscod, d.Acmod, d.Lfe, wantCh, ac3Rates[d.Fscod]))
		}
		want := refDac3(d.Fscod, d.Bsid, d.Bsmod, d.Acmod, d.Lfe, d.BitRateCode)
		if !bytes.Equal(t.dac3, want) {
			s.viol(stage, "dac3-config", dc, tr+fmt.Sprintf("dac3 %x, supplied configuration is %x", t.dac3, want))
		}
	case "ec3":
		s0 := d.Subs[0]
		wantCh := acmodChannels[s0.Acmod] + int(s0.Lfe)
		if s0.NumDep > 0 {
			for i := 0; i < 9; i++ {
				if s0.ChanLoc&(1<<uint(i)) != 0 {
					wantCh += chanLocChannels[i]
				}
			}
		}
		if int(t.channels) != wantCh || t.sampleSize != 16 || int(t.sampleRate) != ac3Rates[s0.Fscod] {
			s.viol(stage, "ec-3-fields", dc, tr+fmt.Sprintf("ec-3 channelcount %d samplesize %d samplerate %d; dec3 substream 0 fscod=%d acmod=%d lfeon=%d num_dep_sub=%d chan_loc=%03x means %d channels at %d Hz", t.channels, t.sampleSize, t.sampleRate, s0.Fscod, s0.Acmod, s0.Lfe, s0.NumDep, s0.ChanLoc, wantCh, ac3Rates[s0.Fscod]))
		}
		want := refDec3(d.DataRate, d.Subs)
		if !bytes.Equal(t.dec3, want) {
			s.viol(stage, "dec3-config", dc, tr+fmt.Sprintf("dec3 %x, supplied configuration is %x", t.dec3, want))
		}
	case "wvtt":
		want := d.Config
		if want == "" {
			want = "WEBVTT" // documented: "config should start with WEBVTT or be empty"
		}
		if t.vttC == nil || *t.vttC != want {
			got := "<no vttC>"
			if t.vttC != nil {
				got = *t.vttC
			}
			s.viol(stage, "vttC-config", dc, tr+fmt.Sprintf("vttC config %q, supplied %q", got, d.Config))
		}
	case "stpp":
		ok := len(t.stpp) == 3 && t.stpp[1] == d.Schema && t.stpp[2] == d.Aux
		if ok {
			if d.NS != "" {
				ok = t.stpp[0] == d.NS
			} else {
				ok = t.stpp[0] == "" || t.stpp[0] == "http://www.w3.org/ns/ttml"
			}
		}
		if !ok {
			s.viol(stage, "stpp-strings", dc, tr+fmt.Sprintf("stpp strings %q, supplied (%q, %q, %q)", t.stpp, d.NS, d.Schema, d.Aux))
		}
	}
}

// summaryMatches tells whether every summary field the sample entry (and tkhd) carries equals
// what the reference computed for one SPS.
func summaryMatches(t *oTrack, kind string, in *spsdim.Info) bool {
	if uint32(t.w) != in.Width || uint32(t.h) != in.Height || t.tkW != in.Width<<16 || t.tkH != in.Height<<16 {
		return false
	}
	switch kind {
	case "avc":
		a := t.avc
		if a == nil || a.profile != in.ProfileIDC || a.compat != in.ConstraintB || a.level != in.LevelIDC {
			return false
		}
		if a.hasExt && (uint32(a.chroma) != in.ChromaFormat || uint32(a.depthLuma)+8 != in.BitDepthLuma || uint32(a.depthChroma)+8 != in.BitDepthChroma) {
			return false
		}
	case "hevc":
		h := t.hvc
		if h == nil || h.profileSpace != in.ProfileSpace || h.tier != in.Tier || h.profileIDC != in.HProfileIDC || h.compat != in.CompatFlags ||
			h.constraint != in.ConstraintInd || h.level != in.HLevelIDC {
			return false
		}
		if uint32(h.chroma) != in.ChromaFormat || uint32(h.depthLumaM8)+8 != in.BitDepthLuma || uint32(h.depthChromaM8)+8 != in.BitDepthChroma {
			return false
		}
	}
	return true
}

// describedSPS: the supplied SPS the sample entry is judged against (see checkTrack).
func (s *state) describedSPS(t *oTrack, d *descSpec) *spsdim.Info {
	if d.Kind != "avc" && d.Kind != "hevc" {
		return &d.Info
	}
	for i := range d.Infos {
		if summaryMatches(t, d.Kind, &d.Infos[i]) {
			if i > 0 {
				s.c.Count("sample_entry_describes_a_later_sps", 1)
			}
			return &d.Infos[i]
		}
	}
	return &d.Info
}

func spsListNote(d *descSpec) string {
	if len(d.Infos) < 2 {
		return ""
	}
	var l []string
	for _, in := range d.Infos {
		if d.Kind == "avc" {
			l = append(l, fmt.Sprintf("%dx%d profile %d level %d", in.Width, in.Height, in.ProfileIDC, in.LevelIDC))
		} else {
			l = append(l, fmt.Sprintf("%dx%d profile %d level %d", in.Width, in.Height, in.HProfileIDC, in.HLevelIDC))
		}
	}
	return fmt.Sprintf("; %d SPS were supplied [%s] and no single one of them accounts for size, tkhd size and the profile/level/chroma/bit-depth fields of the configuration record together (the first is shown)", len(l), strings.Join(l, "; "))
}

// spsListClass names the shape of a supplied SPS list for the evidence.
func spsListClass(d *descSpec) string {
	n := len(d.SPS)
	if n < 2 {
		return d.Kind + " 1 SPS"
	}
	if len(d.Infos) != n {
		return fmt.Sprintf("%s %d SPS (only the first read by the reference)", d.Kind, n)
	}
	size, ptl := false, false
	for _, in := range d.Infos[1:] {
		f := &d.Infos[0]
		size = size || in.Width != f.Width || in.Height != f.Height
		ptl = ptl || in.ProfileIDC != f.ProfileIDC || in.LevelIDC != f.LevelIDC || in.HProfileIDC != f.HProfileIDC || in.HLevelIDC != f.HLevelIDC
	}
	return fmt.Sprintf("%s %d SPS size-differs=%v profile/level-differs=%v", d.Kind, n, size, ptl)
}

// mediaSeenClass keeps the evidence set small: listed media types by name, random custom
// handler types by the character classes they contain.
func mediaSeenClass(m string) string {
	for _, x := range mediaTypes {
		if x == m {
			return m
		}
	}
	for _, x := range unsupportedMedia {
		if x == m {
			return m
		}
	}
	var lo, up, dg, ot bool
	for i := 0; i < len(m); i++ {
		switch c := m[i]; {
		case c >= 'a' && c <= 'z':
			lo = true
		case c >= 'A' && c <= 'Z':
			up = true
		case c >= '0' && c <= '9':
			dg = true
		default:
			ot = true
		}
	}
	var l []string
	for _, x := range []struct {
		b bool
		n string
	}{{lo, "lower"}, {up, "upper"}, {dg, "digit"}, {ot, "other"}} {
		if x.b {
			l = append(l, x.n)
		}
	}
	return "random custom 4CC [" + strings.Join(l, "+") + "]"
}

// ---------------------------------------------------------------------------
// driving the API

func (s *state) guardKey(family string, pi *runner.PanicInfo) string {
	return runner.PanicKey(family, pi)
}

// probeUnsupported calls AddEmptyTrack with a media type CreateHdlr rejects.
func (s *state) probeUnsupported(init *mp4.InitSegment, media string) {
	c := s.c
	before := len(init.Moov.Traks)
	pi := c.Guard(func() { init.AddEmptyTrack(1000, media, "und") })
	switch {
	case pi == nil:
		c.Seen("unsupported_media_outcome", fmt.Sprintf("%q accepted", media))
		// accepted after all: it then has to be a consistent track; out of the oracle's table -> note only
		s.viol("live", "unsupported-media-accepted", "any", fmt.Sprintf("AddEmptyTrack(1000, %q, \"und\") returned normally although CreateHdlr documents an error for it", media))
	case pi.Class == "explicit" && strings.Contains(pi.Value, "not supported"):
		c.Seen("unsupported_media_outcome", "documented panic 'mediaType ... not supported'")
	default:
		s.viol("live", "panic-AddEmptyTrack", pi.Class, fmt.Sprintf("AddEmptyTrack(1000, %q, \"und\") panicked: %s at %s", media, pi.Value, pi.TopFrame))
	}
	if len(init.Moov.Traks) != before || len(init.Moov.Mvex.Trexs) != before {
		s.viol("live", "rejected-AddEmptyTrack-left-state", "any", fmt.Sprintf("after the rejected AddEmptyTrack(%q): %d traks, %d trex (before: %d)", media, len(init.Moov.Traks), len(init.Moov.Mvex.Trexs), before))
	}
}

func (s *state) stsdEmpty(trak *mp4.TrakBox) bool {
	st := trak.Mdia.Minf.Stbl.Stsd
	return len(st.Children) == 0 && st.SampleCount == 0
}

// applyDesc performs the Set*Descriptor call(s) of a track. It returns whether
// a sample entry is expected afterwards.
func (s *state) applyDesc(trak *mp4.TrakBox, d *descSpec, tr string) bool {
	c := s.c
	dc := descClass(d)
	if d.Reject != "" {
		var err error
		call := ""
		trunc := func(n []byte) [][]byte { return [][]byte{append([]byte(nil), n[:4]...)} }
		pi := c.Guard(func() {
			switch d.Reject {
			case "avc-badtype":
				bad := c.Rand.PickStr("avc2", "hvc1", "", "AVC1", "avc")
				call = fmt.Sprintf("SetAVCDescriptor(%q, valid SPS, PPS, true)", bad)
				err = trak.SetAVCDescriptor(bad, d.SPS, d.PPS, true)
			case "avc1-nops":
				call = "SetAVCDescriptor(\"avc1\", valid SPS, PPS, includePS=false)"
				err = trak.SetAVCDescriptor("avc1", d.SPS, d.PPS, false)
			case "avc-truncated-sps":
				call = "SetAVCDescriptor(avc1, SPS cut to 4 bytes, PPS, true)"
				err = trak.SetAVCDescriptor("avc1", trunc(d.SPS[0]), d.PPS, true)
			case "avc-pps-as-sps":
				call = "SetAVCDescriptor(avc1, a PPS in the SPS list, PPS, true)"
				err = trak.SetAVCDescriptor("avc1", d.PPS, d.PPS, true)
			case "hevc-badtype":
				bad := c.Rand.PickStr("hvc2", "avc1", "", "HVC1", "hev")
				call = fmt.Sprintf("SetHEVCDescriptor(%q, valid VPS, SPS, PPS, nil, true)", bad)
				err = trak.SetHEVCDescriptor(bad, d.VPS, d.SPS, d.PPS, nil, true)
			case "hvc1-nops":
				call = "SetHEVCDescriptor(\"hvc1\", ..., includePS=false)"
				err = trak.SetHEVCDescriptor("hvc1", d.VPS, d.SPS, d.PPS, d.SEI, false)
			case "hevc-truncated-sps":
				call = "SetHEVCDescriptor(hvc1, SPS cut to 4 bytes, ..., true)"
				err = trak.SetHEVCDescriptor("hvc1", d.VPS, trunc(d.SPS[0]), d.PPS, d.SEI, true)
			case "hevc-pps-as-sps":
				call = "SetHEVCDescriptor(hvc1, a PPS in the SPS list, ..., true)"
				err = trak.SetHEVCDescriptor("hvc1", d.VPS, d.PPS, d.PPS, d.SEI, true)
			}
		})
		c.Seen("reject_call", d.Reject)
		switch {
		case pi != nil:
			s.viol("live", "reject-panicked", d.Reject, tr+call+" panicked instead of returning its error: "+pi.Value+" at "+pi.TopFrame)
		case err == nil:
			s.viol("live", "reject-accepted", d.Reject, tr+call+" returned nil")
		default:
			c.Count("rejections_returned_error", 1)
		}
		if !s.stsdEmpty(trak) {
			s.viol("live", "reject-left-sample-entry", d.Reject, tr+call+" left a sample entry in stsd")
			// clear it so that the rest of the history is judged on its own
			st := trak.Mdia.Minf.Stbl.Stsd
			st.Children, st.SampleCount, st.AvcX, st.HvcX = nil, 0, nil, nil
		}
	}
	var err error
	call := ""
	pi := c.Guard(func() {
		switch d.Kind {
		case "avc":
			call = fmt.Sprintf("SetAVCDescriptor(%q, %d SPS, %d PPS, %v)", d.SDType, len(d.SPS), len(d.PPS), d.IncludePS)
			err = trak.SetAVCDescriptor(d.SDType, d.SPS, d.PPS, d.IncludePS)
		case "hevc":
			call = fmt.Sprintf("SetHEVCDescriptor(%q, %d VPS, %d SPS, %d PPS, %d SEI, %v)", d.SDType, len(d.VPS), len(d.SPS), len(d.PPS), len(d.SEI), d.IncludePS)
			err = trak.SetHEVCDescriptor(d.SDType, d.VPS, d.SPS, d.PPS, d.SEI, d.IncludePS)
		case "aac":
			call = fmt.Sprintf("SetAACDescriptor(%d, %d)", d.ObjType, d.Freq)
			err = trak.SetAACDescriptor(byte(d.ObjType), d.Freq)
		case "ac3":
			call = fmt.Sprintf("SetAC3Descriptor(fscod=%d acmod=%d lfe=%d)", d.Fscod, d.Acmod, d.Lfe)
			var box *mp4.Dac3Box
			if d.ViaDecode {
				p := refDac3(d.Fscod, d.Bsid, d.Bsmod, d.Acmod, d.Lfe, d.BitRateCode)
				raw := append([]byte{0, 0, 0, byte(8 + len(p)), 'd', 'a', 'c', '3'}, p...)
				b, derr := mp4.DecodeBoxSR(0, bits.NewFixedSliceReader(raw))
				if derr != nil {
					err = fmt.Errorf("decoding the reference dac3 box: %w", derr)
					return
				}
				box = b.(*mp4.Dac3Box)
			} else {
				box = &mp4.Dac3Box{FSCod: d.Fscod, BSID: d.Bsid, BSMod: d.Bsmod, ACMod: d.Acmod, LFEOn: d.Lfe, BitRateCode: d.BitRateCode}
			}
			err = trak.SetAC3Descriptor(box)
		case "ec3":
			call = fmt.Sprintf("SetEC3Descriptor(%d substreams)", len(d.Subs))
			var box *mp4.Dec3Box
			if d.ViaDecode {
				p := refDec3(d.DataRate, d.Subs)
				raw := append([]byte{0, 0, 0, byte(8 + len(p)), 'd', 'e', 'c', '3'}, p...)
				b, derr := mp4.DecodeBoxSR(0, bits.NewFixedSliceReader(raw))
				if derr != nil {
					err = fmt.Errorf("decoding the reference dec3 box: %w", derr)
					return
				}
				box = b.(*mp4.Dec3Box)
			} else {
				box = &mp4.Dec3Box{DataRate: d.DataRate}
				for _, x := range d.Subs {
					box.EC3Subs = append(box.EC3Subs, mp4.EC3Sub{FSCod: x.Fscod, BSID: x.Bsid, ASVC: x.Asvc, BSMod: x.Bsmod, ACMod: x.Acmod, LFEOn: x.Lfe, NumDepSub: x.NumDep, ChanLoc: x.ChanLoc})
				}
			}
			err = trak.SetEC3Descriptor(box)
		case "wvtt":
			call = fmt.Sprintf("SetWvttDescriptor(%q)", d.Config)
			err = trak.SetWvttDescriptor(d.Config)
		case "stpp":
			call = fmt.Sprintf("SetStppDescriptor(%q, %q, %q)", d.NS, d.Schema, d.Aux)
			err = trak.SetStppDescriptor(d.NS, d.Schema, d.Aux)
		case "none":
		}
	})
	if d.Kind == "none" {
		return false
	}
	c.Seen("descriptor_call", d.Kind)
	if pi != nil {
		s.viol("live", "panic-"+strings.SplitN(call, "(", 2)[0], dc, tr+call+" panicked: "+pi.Value+" at "+pi.TopFrame)
		return !s.stsdEmpty(trak)
	}
	if err != nil {
		s.viol("live", "set-descriptor-error", dc, tr+call+" with valid arguments returned: "+err.Error())
		return false
	}
	return true
}

// previous content of the caller-owned buffer EncodeSW is given, and its spare room
var dirtyFills = []byte{0xA5, 0xFF, 0x01, 'x'}

const dirtySlack = 16

var idxRE = regexp.MustCompile(`\[\d+\]`)

func (s *state) classes(exps []expTrack) string {
	set := map[string]bool{}
	for _, e := range exps {
		set[descClass(&e.spec.Desc)] = true
	}
	var l []string
	for k := range set {
		l = append(l, k)
	}
	sort.Strings(l)
	if len(l) > 2 {
		return "mixed"
	}
	return strings.Join(l, "+")
}

// encodeInit encodes with both encoders and checks Size; on a size mismatch it
// attributes the mismatch to the track whose trak box mis-reports its size.
func (s *state) encodeInit(init *mp4.InitSegment, exps []expTrack, stage string) []byte {
	c := s.c
	var buf bytes.Buffer
	var err, err2 error
	var size uint64
	var swBytes, ownBytes []byte
	var err3 error
	fill := dirtyFills[c.Rand.Intn(len(dirtyFills))]
	pi := c.Guard(func() {
		size = init.Size()
		err = init.Encode(&buf)
		sw := bits.NewFixedSliceWriter(int(size))
		err2 = init.EncodeSW(sw)
		swBytes = sw.Bytes()
		// EncodeSW into a buffer the caller owns and has used before (a recycled output buffer:
		// NewFixedSliceWriterFromSlice does not clear it), with room to spare so that writing
		// too much shows as length
		own := make([]byte, int(size)+dirtySlack)
		for i := range own {
			own[i] = fill
		}
		sw2 := bits.NewFixedSliceWriterFromSlice(own)
		err3 = init.EncodeSW(sw2)
		if err3 == nil {
			err3 = sw2.AccError()
		}
		ownBytes = sw2.Bytes()
	})
	if pi != nil {
		s.viol(stage, "panic-encode", s.classes(exps), "InitSegment.Encode/EncodeSW panicked: "+pi.Value+" at "+pi.TopFrame)
		return nil
	}
	if err != nil || err2 != nil || err3 != nil {
		s.viol(stage, "encode-error", s.classes(exps), fmt.Sprintf("Encode: %v; EncodeSW: %v; EncodeSW into a caller-owned buffer: %v", err, err2, err3))
		return nil
	}
	b := buf.Bytes()
	c.Count("encodesw_into_used_caller_buffer", 1)
	c.Seen("caller_buffer_fill", fmt.Sprintf("%#02x", fill))
	if !bytes.Equal(ownBytes, b) && uint64(len(b)) == size && bytes.Equal(b, swBytes) {
		// same tree, same encoder, only the previous content of the buffer differs: name the box
		// in which the first byte that was not (or wrongly) written lies
		box, what := "length", fmt.Sprintf("%d bytes written instead of %d", len(ownBytes), len(b))
		for i := 0; i < len(b) && i < len(ownBytes); i++ {
			if ownBytes[i] != b[i] {
				path := "?"
				if nodes, werr := boxwalk.Walk(b); werr == nil {
					if n := boxwalk.InnermostAt(nodes, i); n != nil {
						box, path = n.Type, fmt.Sprintf("%s at offset %d of the box", n.Path(), i-n.Start)
					}
				}
				what = fmt.Sprintf("first difference at byte %d (%s): %#02x instead of %#02x", i, path, ownBytes[i], b[i])
				break
			}
		}
		s.viol(stage, "encodesw-caller-buffer-differs", box, fmt.Sprintf("InitSegment.EncodeSW into a bits.NewFixedSliceWriterFromSlice buffer pre-filled with %#02x gives other bytes than Encode(io.Writer) for the same init: %s; the output of EncodeSW depends on what the buffer held before", fill, what))
	}
	if uint64(len(b)) != size || !bytes.Equal(b, swBytes) {
		// attribute
		cls := s.classes(exps)
		what := fmt.Sprintf("InitSegment.Size() = %d, Encode wrote %d bytes, EncodeSW wrote %d bytes (equal=%v)", size, len(b), len(swBytes), bytes.Equal(b, swBytes))
		for i, trak := range init.Moov.Traks {
			var tb bytes.Buffer
			if e := trak.Encode(&tb); e == nil && uint64(tb.Len()) != trak.Size() && i < len(exps) {
				cls = descClass(&exps[i].spec.Desc)
				what += fmt.Sprintf("; trak %d (%s, profile_idc %d): Size() %d, %d bytes written", i+1, exps[i].spec.Desc.Kind, exps[i].spec.Desc.Info.ProfileIDC, trak.Size(), tb.Len())
				break
			}
		}
		s.viol(stage, "encoded-length-vs-size", cls, what)
		return nil
	}
	return b
}

// decode reads the encoded init back with one of the three ways a caller has: DecodeFile from a
// bytes.Reader, DecodeFile from a *bytes.Buffer, DecodeFileSR from a FixedSliceReader.
//
// The two io.Reader ways get a private copy of the bytes, and that storage is reused by the
// "caller" as soon as DecodeFile has returned (Buffer: Reset + Write of other bytes; then the
// whole backing array is overwritten with 0xA5): an io.Reader hands out copies of its data
// (io.Reader contract; bytes.Buffer.Next/Bytes are "only valid until the next buffer
// modification"), so the decoded tree has to be independent of what the source holds afterwards.
// Everything the caller of decode then does with the tree (invariants, comparison with the built
// tree, re-encoding) would see parameter sets / configurations that still point into it.
// DecodeFileSR is different: bits.FixedSliceReader.ReadBytes documents that it returns a
// sub-slice of the input, so that source is left alone.
func (s *state) decode(b []byte, kind string) *mp4.File {
	var f *mp4.File
	var err error
	stage := "dec-" + kind
	var priv []byte
	var bb *bytes.Buffer
	pi := s.c.Guard(func() {
		switch kind {
		case "slicereader":
			f, err = mp4.DecodeFileSR(bits.NewFixedSliceReader(b))
		case "buffer":
			priv = append(make([]byte, 0, len(b)+8), b...)
			bb = bytes.NewBuffer(priv)
			f, err = mp4.DecodeFile(bb)
		default:
			priv = append([]byte(nil), b...)
			f, err = mp4.DecodeFile(bytes.NewReader(priv))
		}
	})
	if bb != nil {
		// the caller reuses its buffer for the next thing it reads
		if left := bb.Len(); left != 0 && pi == nil && err == nil {
			s.viol(stage, "source-not-consumed", "any", fmt.Sprintf("DecodeFile left %d of %d bytes unread in the bytes.Buffer", left, len(b)))
		}
		bb.Reset()
		junk := make([]byte, len(b))
		for i := range junk {
			junk[i] = 0xEE
		}
		bb.Write(junk)
	}
	if priv != nil {
		priv = priv[:cap(priv)]
		for i := range priv {
			priv[i] = 0xA5
		}
		s.c.Count("decode_source_storage_reused_after_"+kind, 1)
	}
	if pi != nil {
		s.viol(stage, "panic-decode", "any", "decoding the encoded init panicked: "+pi.Value+" at "+pi.TopFrame)
		return nil
	}
	if err != nil {
		s.viol(stage, "decode-error", "any", "decoding the encoded init: "+err.Error())
		return nil
	}
	return f
}

// midEncode serialises the init in the middle of a history: Size / Encode(io.Writer) / EncodeSW in
// the mix given by mask (1, 2, 4). What is written has to be the tree as it is at that moment:
// the calls made together must agree (length == Size(), Encode == EncodeSW). The history goes
// on afterwards and the final encode is judged as always, so a result of these calls that is
// kept and handed out again after later steps shows there.
func (s *state) midEncode(init *mp4.InitSegment, exps []expTrack, where string, mask int) {
	c := s.c
	var size uint64
	var buf bytes.Buffer
	var swBytes []byte
	var err, err2 error
	pi := c.Guard(func() {
		if mask&1 != 0 || mask&4 != 0 {
			size = init.Size()
		}
		if mask&2 != 0 {
			err = init.Encode(&buf)
		}
		if mask&4 != 0 {
			sw := bits.NewFixedSliceWriter(int(size))
			err2 = init.EncodeSW(sw)
			if err2 == nil {
				err2 = sw.AccError()
			}
			swBytes = sw.Bytes()
		}
	})
	c.Count("serialised_between_steps", 1)
	c.Seen("serialised_between_steps", fmt.Sprintf("%s calls=%d (1 Size, 2 Encode, 4 EncodeSW)", where, mask))
	if pi != nil {
		s.viol("mid-encode", "panic-encode", where, "Size/Encode/EncodeSW "+where+" panicked: "+pi.Value+" at "+pi.TopFrame)
		return
	}
	if err != nil || err2 != nil {
		s.viol("mid-encode", "encode-error", where, fmt.Sprintf("%s: Encode: %v; EncodeSW: %v", where, err, err2))
		return
	}
	bad := false
	if mask&3 == 3 && uint64(buf.Len()) != size {
		bad = true
	}
	if mask&4 != 0 && uint64(len(swBytes)) != size {
		bad = true
	}
	if mask&6 == 6 && !bytes.Equal(buf.Bytes(), swBytes) {
		bad = true
	}
	if bad {
		s.viol("mid-encode", "encoded-length-vs-size", where, fmt.Sprintf("%s (%d tracks): Size() = %d, Encode wrote %d bytes, EncodeSW wrote %d bytes (calls made: mask %d)", where, len(exps), size, buf.Len(), len(swBytes), mask))
	}
}

func run(c *runner.Ctx, idx int) {
	h := genHistory(c.Rand, idx)
	s := &state{c: c, h: &h, failed: map[string]bool{}}
	s.detail = h.describe()
	var init *mp4.InitSegment
	if pi := c.Guard(func() { init = mp4.CreateEmptyInit() }); pi != nil || init == nil || init.Moov == nil || init.Moov.Mvhd == nil || init.Moov.Mvex == nil {
		s.viol("live", "CreateEmptyInit", "any", "CreateEmptyInit panicked or returned an init without moov/mvhd/mvex")
		return
	}
	if init.Ftyp == nil || len(init.Children) != 2 || len(init.Moov.Traks) != 0 {
		s.viol("live", "CreateEmptyInit", "any", "CreateEmptyInit: expected ftyp + moov and no tracks")
	}
	liveStage := "live"
	var exps []expTrack
	var trakIdx []int // exps[k] is init.Moov.Traks[trakIdx[k]]
	var specIdx []int // exps[k] belongs to h.Tracks[specIdx[k]]
	c.Seen("call_order", h.Order)

	// addTrack: AddEmptyTrack of h.Tracks[i] (after an optional probe / resume); false = give up
	addTrack := func(i int) bool {
		t := &h.Tracks[i]
		if h.Pre[i] != "" {
			s.probeUnsupported(init, h.Pre[i][1:])
		}
		if h.Resume > 0 && h.Resume == i && len(exps) > 0 {
			// continue the history on a decoded copy of what was built so far
			b := s.encodeInit(init, exps, "encode")
			if b == nil {
				return false
			}
			f := s.decode(b, h.ResumeBy)
			if f == nil {
				return false
			}
			if f.Init == nil || f.Init.Moov == nil || f.Init.Moov.Mvex == nil || f.Init.Moov.Mvhd == nil {
				s.viol("dec-"+h.ResumeBy, "file-init-not-set", "any", "File.Init (or its moov/mvex/mvhd) is nil after decoding the encoded init")
				return false
			}
			if len(f.Init.Moov.Traks) != len(init.Moov.Traks) {
				s.viol("dec-"+h.ResumeBy, "track-ids", "multi-track", fmt.Sprintf("the decoded copy has %d traks, the init it was encoded from %d", len(f.Init.Moov.Traks), len(init.Moov.Traks)))
				return false
			}
			init = f.Init
			s.resumed = " (history resumed on a decoded copy of the init after AddEmptyTrack " + fmt.Sprint(len(exps)) + ", decoded by " + h.ResumeBy + ")"
			c.Count("resumed_histories", 1)
			c.Seen("resumed_by", h.ResumeBy+" "+h.Order)
		}
		me, supported := expectMedia(t.Media)
		c.Seen("media_type", mediaSeenClass(t.Media))
		c.Seen("language", langClass(t.Lang))
		c.Seen("timescale", fmt.Sprint(t.Timescale))
		before := len(init.Moov.Traks)
		pi := c.Guard(func() { init.AddEmptyTrack(t.Timescale, t.Media, t.Lang) })
		if pi != nil {
			if !supported {
				c.Seen("unsupported_media_outcome", "documented panic")
				return true
			}
			s.viol(liveStage, "panic-AddEmptyTrack", me.class, fmt.Sprintf("AddEmptyTrack(%d, %q, %q) panicked: %s at %s", t.Timescale, t.Media, t.Lang, pi.Value, pi.TopFrame))
			// half-added track: nothing sensible can follow
			return len(init.Moov.Traks) == before
		}
		if len(init.Moov.Traks) != before+1 || init.Moov.Traks[before] == nil {
			s.viol(liveStage, "track-not-added", me.class, fmt.Sprintf("AddEmptyTrack(%d, %q, %q): Moov.Traks went from %d to %d entries", t.Timescale, t.Media, t.Lang, before, len(init.Moov.Traks)))
			return false
		}
		trak := init.Moov.Traks[before]
		// the init's own lookup between two AddEmptyTrack calls (a muxer asks for the trex of the track it
		// just added): every track added so far has its trex, now and after later tracks were added
		if init.Moov.Mvex != nil && c.Rand.Chance(1, 2) {
			for id := uint32(1); id <= uint32(before+1); id++ {
				if tx, ok := init.Moov.Mvex.GetTrex(id); !ok || tx == nil || tx.TrackID != id {
					s.viol(liveStage, "GetTrex-during-history", me.class, fmt.Sprintf("after %d x AddEmptyTrack, Mvex.GetTrex(%d) does not return the trex of that track", before+1, id))
				}
			}
			c.Count("trex_lookups_between_track_additions", 1)
		}
		e := expTrack{id: uint32(len(exps) + 1), spec: t, me: me}
		if trak.Tkhd == nil || trak.Mdia == nil || trak.Mdia.Minf == nil || trak.Mdia.Minf.Stbl == nil || trak.Mdia.Minf.Stbl.Stsd == nil {
			s.viol(liveStage, "structure", me.class, "new trak lacks tkhd/mdia/minf/stbl/stsd")
			return false
		}
		exps = append(exps, e)
		trakIdx = append(trakIdx, before)
		specIdx = append(specIdx, i)
		if h.Mid[i][0] {
			s.midEncode(init, exps, "after AddEmptyTrack, before its descriptor", h.MidMask[i][0])
		}
		return true
	}
	// setDesc: the Set*Descriptor call of exps[k]
	setDesc := func(k int) bool {
		e := &exps[k]
		t := e.spec
		if trakIdx[k] >= len(init.Moov.Traks) || init.Moov.Traks[trakIdx[k]] == nil {
			s.viol(liveStage, "track-not-added", e.me.class, fmt.Sprintf("Moov.Traks has no entry %d any more", trakIdx[k]))
			return false
		}
		trak := init.Moov.Traks[trakIdx[k]]
		if trak.Tkhd == nil || trak.Mdia == nil || trak.Mdia.Minf == nil || trak.Mdia.Minf.Stbl == nil || trak.Mdia.Minf.Stbl.Stsd == nil {
			s.viol(liveStage, "structure", e.me.class, "trak lacks tkhd/mdia/minf/stbl/stsd")
			return false
		}
		tr := fmt.Sprintf("track %d (%s): ", e.id, t.Media)
		e.entry = s.applyDesc(trak, &t.Desc, tr)
		d := &t.Desc
		if d.Kind == "avc" || d.Kind == "hevc" {
			c.Seen("sps_source", map[bool]string{true: "generated", false: "repo-stream"}[d.Src == "generated"])
			c.Seen("sps_list", spsListClass(d))
			if d.Kind == "hevc" {
				c.Seen("hevc_vps_count", fmt.Sprint(len(d.VPS)))
			}
			c.Seen("video_class", fmt.Sprintf("%s %s incl=%v chroma=%d depth=%d/%d cropped=%v", d.Kind, d.SDType, d.IncludePS, d.Info.ChromaFormat, d.Info.BitDepthLuma, d.Info.BitDepthChroma, d.Info.Cropped))
			if d.Kind == "avc" {
				c.Seen("avc_profile", fmt.Sprintf("%d frame_mbs_only=%v", d.Info.ProfileIDC, d.Info.FrameMbsOnly))
				for _, sc := range d.Scaling {
					c.Seen("avc_sps_scaling_matrix", sc)
				}
			} else {
				c.Seen("hevc_profile", fmt.Sprint(d.Info.HProfileIDC))
				c.Seen("hevc_sei_count", fmt.Sprint(len(d.SEI)))
			}
		}
		if d.Kind == "aac" {
			c.Seen("aac", fmt.Sprintf("obj=%d f=%d", d.ObjType, d.Freq))
		}
		if d.Kind == "ac3" {
			c.Seen("ac3", fmt.Sprintf("fscod=%d acmod=%d lfe=%d", d.Fscod, d.Acmod, d.Lfe))
		}
		if d.Kind == "ec3" {
			c.Seen("ec3", fmt.Sprintf("fscod=%d acmod=%d lfe=%d dep=%v", d.Subs[0].Fscod, d.Subs[0].Acmod, d.Subs[0].Lfe, d.Subs[0].NumDep > 0))
		}
		if i := specIdx[k]; h.Mid[i][1] {
			s.midEncode(init, exps, "after a Set*Descriptor call, before the next step", h.MidMask[i][1])
		}
		return true
	}
	if h.Order == "interleaved" {
		for i := range h.Tracks {
			n0 := len(exps)
			if !addTrack(i) {
				return
			}
			if len(exps) > n0 && !setDesc(n0) {
				return
			}
		}
	} else {
		for i := range h.Tracks {
			if !addTrack(i) {
				return
			}
		}
		// descriptors afterwards: in track order, or in the drawn order
		var order []int
		pos := map[int]int{} // spec index -> exps index
		for k, i := range specIdx {
			pos[i] = k
		}
		if h.Order == "tracks-first-permuted" {
			for _, i := range h.DescOrder {
				if k, ok := pos[i]; ok {
					order = append(order, k)
				}
			}
		} else {
			for k := range exps {
				order = append(order, k)
			}
		}
		for _, k := range order {
			if !setDesc(k) {
				return
			}
		}
	}
	if h.Pre[len(h.Tracks)] != "" {
		s.probeUnsupported(init, h.Pre[len(h.Tracks)][1:])
	}
	n := len(exps)
	c.Seen("tracks_built", fmt.Sprint(n))
	c.Evals(1)
	if n == 0 {
		c.Count("histories_without_track", 1)
		return
	}
	// GetMediaType of the first track (documented: video / audio / otherwise unknown)
	var gmt string
	if pi := c.Guard(func() { gmt = init.GetMediaType() }); pi != nil {
		s.viol(liveStage, "panic-GetMediaType", "any", "GetMediaType panicked: "+pi.Value)
	} else {
		want := "unknown"
		switch exps[0].me.pairs[0][0] {
		case "vide":
			want = "video"
		case "soun":
			want = "audio"
		}
		if gmt != want && !s.failed["hdlr/"+exps[0].me.class] {
			s.viol(liveStage, "GetMediaType", "any", fmt.Sprintf("GetMediaType() = %q for a first track of media type %q", gmt, exps[0].spec.Media))
		}
	}

	// 1. live structure
	var live *oInit
	if pi := c.Guard(func() { live = obsTree(init.Moov) }); pi != nil {
		s.viol(liveStage, "structure", "any", "reading the live tree panicked: "+pi.Value)
		return
	}
	s.checkInit(liveStage, live, exps)

	// 2. encode
	enc := s.encodeInit(init, exps, "encode")
	if enc == nil {
		return
	}
	// 3. bytes
	ob, err := obsBytes(enc)
	if err != nil {
		s.viol("bytes", "reference-walker-rejects-encoded-init", s.classes(exps), "the encoded init does not tile / read: "+err.Error())
		return
	}
	s.checkInit("bytes", ob, exps)

	// 4. both decoders
	ok := true
	var files [3]*mp4.File
	for k, kind := range decodeKinds {
		stage := "dec-" + kind
		f := s.decode(enc, kind)
		if f == nil {
			ok = false
			continue
		}
		files[k] = f
		if !f.IsFragmented() {
			s.viol(stage, "not-recognised-as-fragmented", "any", "File.IsFragmented() is false for the decoded init")
		}
		if f.Init == nil || f.Init.Moov == nil || f.Init.Ftyp == nil {
			s.viol(stage, "file-init-not-set", "any", "File.Init / Init.Moov / Init.Ftyp is nil for the decoded init")
			ok = false
			continue
		}
		if f.Moov != f.Init.Moov || f.Ftyp != f.Init.Ftyp || len(f.Init.Children) != 2 {
			s.viol(stage, "file-init-not-set", "any", "File.Init does not consist of the file's ftyp and moov")
		}
		var o *oInit
		if pi := c.Guard(func() { o = obsTree(f.Init.Moov) }); pi != nil {
			s.viol(stage, "structure", "any", "reading the decoded tree panicked: "+pi.Value)
			ok = false
			continue
		}
		s.checkInit(stage, o, exps)
		// structural equality with the built tree
		var diffs []string
		if pi := c.Guard(func() {
			diffs = append(treeDiff(init.Ftyp, f.Init.Ftyp), treeDiff(init.Moov, f.Init.Moov)...)
			if init.MediaType != f.Init.MediaType {
				diffs = append(diffs, fmt.Sprintf(".MediaType: %q vs %q", init.MediaType, f.Init.MediaType))
			}
		}); pi != nil {
			s.viol(stage, "structure", "any", "comparing trees panicked: "+pi.Value)
		} else if len(diffs) > 0 {
			first := diffs[0]
			path := idxRE.ReplaceAllString(strings.SplitN(first, ":", 2)[0], "")
			s.viol(stage, "tree-differs", path, fmt.Sprintf("decoded tree differs from the built one (built vs decoded): %s", strings.Join(diffs, " | ")))
		}
		// re-encoding the decoded tree gives the same bytes
		var re bytes.Buffer
		var eerr error
		if pi := c.Guard(func() { eerr = f.Init.Encode(&re) }); pi != nil || eerr != nil || !bytes.Equal(re.Bytes(), enc) {
			s.viol(stage, "re-encode-differs", map[bool]string{true: "single-track", false: "multi-track"}[len(exps) == 1], fmt.Sprintf("re-encoding the decoded init: panic=%v err=%v, %d bytes vs %d", pi != nil, eerr, re.Len(), len(enc)))
		}
	}
	if !ok {
		return
	}
	// 5. fragment for the track ids
	if s.fragment(init, enc, exps) {
		c.Nontrivial(runner.Hash64(enc))
		c.Count("histories_complete", 1)
	}
	if c.WantSample() {
		c.Sample(map[string]interface{}{"history": s.detail, "encoded_init_bytes": len(enc), "moov_children": ob.moovKids, "trex_ids": ob.trexIDs, "next_track_ID": ob.nextID})
	}
}

var _ = spsdim.Info{}
