package c19

// Independent byte-level readers of the boxes an init segment consists of
// (ISO/IEC 14496-12 §8, 14496-15 §5.3.3/§8.3.3, 14496-1 §7.2.6, ETSI TS 102 366
// Annex F, 14496-30). Nothing here uses mp4ff: the input is the encoded byte
// string tiled by ref/boxwalk.

import (
	"encoding/binary"
	"errors"
	"fmt"

	"verifharness/ref/bitw"
	"verifharness/ref/boxwalk"
)

var be = binary.BigEndian

type bTrack struct {
	tkhdVersion  byte
	tkhdID       uint32
	tkhdVolume   uint16
	tkhdW, tkhdH uint32 // 16.16
	mdiaKids     []string
	timescale    uint32
	lang         string // unpacked 3 chars
	langRaw      uint16
	hdlr         string
	elngs        []string
	minfKids     []string
	drefCount    uint32
	drefKids     []string
	urlFlags     uint32
	stsdCount    uint32
	entries      []*boxwalk.Node
	stblKids     []string
	sttsCount    uint32
}

type bInit struct {
	top         []string
	moovKids    []string
	nextTrackID uint32
	tracks      []bTrack
	trexIDs     []uint32
	trexSDI     []uint32
	mvexKids    []string
}

func kidTypes(n *boxwalk.Node) []string {
	var out []string
	for _, c := range n.Children {
		out = append(out, c.Type)
	}
	return out
}

func readInitBytes(b []byte) (*bInit, []*boxwalk.Node, error) {
	nodes, err := boxwalk.Walk(b)
	if err != nil {
		return nil, nil, err
	}
	bi := &bInit{}
	var moov *boxwalk.Node
	for _, n := range nodes {
		bi.top = append(bi.top, n.Type)
		if n.Type == "moov" && moov == nil {
			moov = n
		}
	}
	if moov == nil {
		return nil, nodes, errors.New("no moov box")
	}
	bi.moovKids = kidTypes(moov)
	for _, ch := range moov.Children {
		switch ch.Type {
		case "mvhd":
			p := ch.Payload(b)
			if len(p) < 4 || (p[0] == 0 && len(p) != 100) || (p[0] == 1 && len(p) != 112) {
				return nil, nodes, fmt.Errorf("mvhd payload length %d", len(p))
			}
			bi.nextTrackID = be.Uint32(p[len(p)-4:])
		case "mvex":
			bi.mvexKids = kidTypes(ch)
			for _, x := range ch.Children {
				if x.Type == "trex" {
					p := x.Payload(b)
					if len(p) != 24 {
						return nil, nodes, fmt.Errorf("trex payload length %d", len(p))
					}
					bi.trexIDs = append(bi.trexIDs, be.Uint32(p[4:]))
					bi.trexSDI = append(bi.trexSDI, be.Uint32(p[8:]))
				}
			}
		case "trak":
			t, err := readTrakBytes(b, ch)
			if err != nil {
				return nil, nodes, err
			}
			bi.tracks = append(bi.tracks, *t)
		}
	}
	return bi, nodes, nil
}

func readTrakBytes(b []byte, trak *boxwalk.Node) (*bTrack, error) {
	t := &bTrack{}
	tk := trak.Child("tkhd")
	if tk == nil {
		return nil, errors.New("trak without tkhd")
	}
	p := tk.Payload(b)
	switch {
	case len(p) == 84 && p[0] == 0:
		t.tkhdID = be.Uint32(p[12:])
		t.tkhdVolume = be.Uint16(p[36:])
		t.tkhdW, t.tkhdH = be.Uint32(p[76:]), be.Uint32(p[80:])
	case len(p) == 96 && p[0] == 1:
		t.tkhdVersion = 1
		t.tkhdID = be.Uint32(p[20:])
		t.tkhdVolume = be.Uint16(p[48:])
		t.tkhdW, t.tkhdH = be.Uint32(p[88:]), be.Uint32(p[92:])
	default:
		return nil, fmt.Errorf("tkhd version %d with payload length %d", p[0], len(p))
	}
	mdia := trak.Child("mdia")
	if mdia == nil {
		return nil, errors.New("trak without mdia")
	}
	t.mdiaKids = kidTypes(mdia)
	if md := mdia.Child("mdhd"); md != nil {
		p := md.Payload(b)
		switch {
		case len(p) == 24 && p[0] == 0:
			t.timescale = be.Uint32(p[12:])
			t.langRaw = be.Uint16(p[20:])
		case len(p) == 36 && p[0] == 1:
			t.timescale = be.Uint32(p[20:])
			t.langRaw = be.Uint16(p[32:])
		default:
			return nil, fmt.Errorf("mdhd version %d with payload length %d", p[0], len(p))
		}
		t.lang = string([]byte{byte(t.langRaw>>10&0x1f) + 0x60, byte(t.langRaw>>5&0x1f) + 0x60, byte(t.langRaw&0x1f) + 0x60})
	} else {
		return nil, errors.New("mdia without mdhd")
	}
	if h := mdia.Child("hdlr"); h != nil {
		p := h.Payload(b)
		if len(p) < 24 {
			return nil, fmt.Errorf("hdlr payload length %d", len(p))
		}
		t.hdlr = string(p[8:12])
	} else {
		return nil, errors.New("mdia without hdlr")
	}
	for _, c := range mdia.Children {
		if c.Type == "elng" {
			p := c.Payload(b)
			if len(p) < 5 || p[len(p)-1] != 0 {
				return nil, fmt.Errorf("elng payload % x is not fullbox + zero-terminated string", p)
			}
			if be.Uint32(p) != 0 {
				return nil, fmt.Errorf("elng version/flags %08x", be.Uint32(p))
			}
			t.elngs = append(t.elngs, string(p[4:len(p)-1]))
		}
	}
	minf := mdia.Child("minf")
	if minf == nil {
		return nil, errors.New("mdia without minf")
	}
	t.minfKids = kidTypes(minf)
	if dref := minf.Descend("dinf", "dref"); dref != nil {
		p := dref.Payload(b)
		t.drefCount = be.Uint32(p[4:])
		t.drefKids = kidTypes(dref)
		if len(dref.Children) > 0 {
			_, t.urlFlags = dref.Children[0].FullBox(b)
		}
	}
	stbl := minf.Child("stbl")
	if stbl == nil {
		return nil, errors.New("minf without stbl")
	}
	t.stblKids = kidTypes(stbl)
	stsd := stbl.Child("stsd")
	if stsd == nil {
		return nil, errors.New("stbl without stsd")
	}
	t.stsdCount = be.Uint32(stsd.Payload(b)[4:])
	t.entries = stsd.Children
	if stts := stbl.Child("stts"); stts != nil {
		p := stts.Payload(b)
		if len(p) >= 8 {
			t.sttsCount = be.Uint32(p[4:])
		}
	}
	return t, nil
}

// sample entry header: 6 reserved bytes + data_reference_index
func entryDataRefIndex(b []byte, n *boxwalk.Node) uint16 {
	p := n.Payload(b)
	if len(p) < 8 {
		return 0xffff
	}
	return be.Uint16(p[6:])
}

type bVisual struct {
	width, height uint16
	frameCount    uint16
	compressor    string
}

func readVisual(b []byte, n *boxwalk.Node) (bVisual, error) {
	p := n.Payload(b)
	if len(p) < 78 {
		return bVisual{}, fmt.Errorf("visual sample entry payload %d bytes", len(p))
	}
	v := bVisual{width: be.Uint16(p[24:]), height: be.Uint16(p[26:]), frameCount: be.Uint16(p[40:])}
	l := int(p[42])
	if l > 31 {
		l = 31
	}
	v.compressor = string(p[43 : 43+l])
	return v, nil
}

type bAudio struct {
	channels, sampleSize uint16
	sampleRate           uint32 // 16.16
	version              uint16
}

func readAudio(b []byte, n *boxwalk.Node) (bAudio, error) {
	p := n.Payload(b)
	if len(p) < 28 {
		return bAudio{}, fmt.Errorf("audio sample entry payload %d bytes", len(p))
	}
	return bAudio{version: be.Uint16(p[8:]), channels: be.Uint16(p[16:]), sampleSize: be.Uint16(p[18:]), sampleRate: be.Uint32(p[24:])}, nil
}

// AVCDecoderConfigurationRecord (14496-15 §5.3.3.1.2)
type bAvcC struct {
	version, profile, compat, level byte
	lengthSizeMinusOne              byte
	reservedOK                      bool
	sps, pps                        [][]byte
	hasExt                          bool
	chroma, depthLuma, depthChroma  byte // chroma_format, bit_depth_luma_minus8, bit_depth_chroma_minus8
	numSPSExt                       byte
	trailing                        int // bytes after what the profile calls for
}

func readAvcC(p []byte) (*bAvcC, error) {
	if len(p) < 7 {
		return nil, fmt.Errorf("avcC payload %d bytes", len(p))
	}
	a := &bAvcC{version: p[0], profile: p[1], compat: p[2], level: p[3], lengthSizeMinusOne: p[4] & 3}
	a.reservedOK = p[4]&0xfc == 0xfc && p[5]&0xe0 == 0xe0
	pos := 6
	rd := func(n int) ([][]byte, error) {
		var out [][]byte
		for i := 0; i < n; i++ {
			if pos+2 > len(p) {
				return nil, errors.New("avcC truncated at NAL length")
			}
			l := int(be.Uint16(p[pos:]))
			pos += 2
			if pos+l > len(p) {
				return nil, errors.New("avcC truncated inside NAL")
			}
			out = append(out, p[pos:pos+l])
			pos += l
		}
		return out, nil
	}
	var err error
	if a.sps, err = rd(int(p[5] & 0x1f)); err != nil {
		return nil, err
	}
	if pos >= len(p) {
		return nil, errors.New("avcC truncated at numOfPictureParameterSets")
	}
	np := int(p[pos])
	pos++
	if a.pps, err = rd(np); err != nil {
		return nil, err
	}
	// ISO/IEC 14496-15:2017 writes the extension for profile_idc 100/110/122/144,
	// later editions for every profile except 66/77/88. Both layouts are
	// accepted for the profiles on which the editions differ; the four listed
	// profiles must carry it, 66/77/88 must not.
	mustHave := a.profile == 100 || a.profile == 110 || a.profile == 122 || a.profile == 144
	base := a.profile == 66 || a.profile == 77 || a.profile == 88
	if mustHave && pos+4 > len(p) {
		return nil, fmt.Errorf("avcC for profile %d lacks the chroma_format/bit_depth extension (%d bytes left)", a.profile, len(p)-pos)
	}
	if mustHave || (!base && pos+4 <= len(p)) {
		a.hasExt = true
		a.chroma = p[pos] & 3
		a.depthLuma = p[pos+1] & 7
		a.depthChroma = p[pos+2] & 7
		a.numSPSExt = p[pos+3]
		pos += 4
	}
	a.trailing = len(p) - pos
	return a, nil
}

// HEVCDecoderConfigurationRecord (14496-15 §8.3.3.1.2)
type bHvcArray struct {
	complete bool
	typ      byte
	nalus    [][]byte
}
type bHvcC struct {
	version        byte
	profileSpace   byte
	tier           bool
	profileIDC     byte
	compat         uint32
	constraint     uint64
	level          byte
	chroma         byte
	depthLumaM8    byte
	depthChromaM8  byte
	lengthSizeM1   byte
	numTemporal    byte
	arrays         []bHvcArray
	trailing       int
	minSpatialSeg  uint16
	parallelism    byte
	avgFrameRate   uint16
	constFrameRate byte
}

func readHvcC(p []byte) (*bHvcC, error) {
	if len(p) < 23 {
		return nil, fmt.Errorf("hvcC payload %d bytes", len(p))
	}
	h := &bHvcC{version: p[0], profileSpace: p[1] >> 6, tier: p[1]>>5&1 == 1, profileIDC: p[1] & 0x1f,
		compat: be.Uint32(p[2:]), constraint: uint64(be.Uint32(p[6:]))<<16 | uint64(be.Uint16(p[10:])), level: p[12],
		minSpatialSeg: be.Uint16(p[13:]) & 0xfff, parallelism: p[15] & 3,
		chroma: p[16] & 3, depthLumaM8: p[17] & 7, depthChromaM8: p[18] & 7, avgFrameRate: be.Uint16(p[19:]),
		constFrameRate: p[21] >> 6, numTemporal: p[21] >> 3 & 7, lengthSizeM1: p[21] & 3}
	n := int(p[22])
	pos := 23
	for i := 0; i < n; i++ {
		if pos+3 > len(p) {
			return nil, errors.New("hvcC truncated at array header")
		}
		a := bHvcArray{complete: p[pos]&0x80 != 0, typ: p[pos] & 0x3f}
		cnt := int(be.Uint16(p[pos+1:]))
		pos += 3
		for j := 0; j < cnt; j++ {
			if pos+2 > len(p) {
				return nil, errors.New("hvcC truncated at NAL length")
			}
			l := int(be.Uint16(p[pos:]))
			pos += 2
			if pos+l > len(p) {
				return nil, errors.New("hvcC truncated inside NAL")
			}
			a.nalus = append(a.nalus, p[pos:pos+l])
			pos += l
		}
		h.arrays = append(h.arrays, a)
	}
	h.trailing = len(p) - pos
	return h, nil
}

// MPEG-4 descriptors (14496-1 §7.2.2.2, §8.3.3 expandable size)
func readDescr(b []byte) (tag byte, payload, rest []byte, err error) {
	if len(b) < 2 {
		return 0, nil, nil, errors.New("descriptor truncated")
	}
	tag = b[0]
	pos := 1
	size := 0
	for i := 0; i < 4; i++ {
		if pos >= len(b) {
			return 0, nil, nil, errors.New("descriptor size truncated")
		}
		c := b[pos]
		pos++
		size = size<<7 | int(c&0x7f)
		if c&0x80 == 0 {
			break
		}
	}
	if pos+size > len(b) {
		return 0, nil, nil, fmt.Errorf("descriptor tag %d size %d exceeds the %d bytes left", tag, size, len(b)-pos)
	}
	return tag, b[pos : pos+size], b[pos+size:], nil
}

type bEsds struct {
	objectType byte
	streamType byte
	asc        []byte
}

func readEsds(p []byte) (*bEsds, error) {
	if len(p) < 4 || be.Uint32(p) != 0 {
		return nil, errors.New("esds version/flags not zero")
	}
	tag, es, _, err := readDescr(p[4:])
	if err != nil {
		return nil, err
	}
	if tag != 3 || len(es) < 3 {
		return nil, fmt.Errorf("esds: first descriptor has tag %d", tag)
	}
	flags := es[2]
	body := es[3:]
	if flags&0x80 != 0 {
		body = body[2:]
	}
	if flags&0x40 != 0 {
		body = body[1+int(body[0]):]
	}
	if flags&0x20 != 0 {
		body = body[2:]
	}
	tag, dc, _, err := readDescr(body)
	if err != nil {
		return nil, err
	}
	if tag != 4 || len(dc) < 13 {
		return nil, fmt.Errorf("esds: DecoderConfigDescriptor expected, tag %d len %d", tag, len(dc))
	}
	e := &bEsds{objectType: dc[0], streamType: dc[1] >> 2}
	tag, dsi, _, err := readDescr(dc[13:])
	if err != nil {
		return nil, err
	}
	if tag != 5 {
		return nil, fmt.Errorf("esds: DecoderSpecificInfo expected, tag %d", tag)
	}
	e.asc = dsi
	return e, nil
}

var aacFreqs = []int{96000, 88200, 64000, 48000, 44100, 32000, 24000, 22050, 16000, 12000, 11025, 8000, 7350}

// refASC is the AudioSpecificConfig layout of ISO/IEC 14496-3 Table 1.15 for
// the three configurations SetAACDescriptor documents.
func refASC(obj, ch, f, ext int) []byte {
	w := &bitw.W{}
	putFreq := func(f int) {
		for i, t := range aacFreqs {
			if t == f {
				w.Put(uint64(i), 4)
				return
			}
		}
		w.Put(15, 4)
		w.Put(uint64(f), 24)
	}
	w.Put(uint64(obj), 5)
	putFreq(f)
	w.Put(uint64(ch), 4)
	if obj == 5 || obj == 29 {
		putFreq(ext)
		w.Put(2, 5)
	}
	w.Put(0, 3)
	return w.Bytes()
}

// refDac3 is the AC3SpecificBox payload (ETSI TS 102 366 F.4).
func refDac3(fscod, bsid, bsmod, acmod, lfe, brc byte) []byte {
	w := &bitw.W{}
	w.Put(uint64(fscod), 2)
	w.Put(uint64(bsid), 5)
	w.Put(uint64(bsmod), 3)
	w.Put(uint64(acmod), 3)
	w.Put(uint64(lfe), 1)
	w.Put(uint64(brc), 5)
	w.Put(0, 5)
	return w.Bytes()
}

type ec3Sub struct {
	Fscod, Bsid, Asvc, Bsmod, Acmod, Lfe, NumDep byte
	ChanLoc                                      uint16
}

// refDec3 is the EC3SpecificBox payload (ETSI TS 102 366 F.6).
func refDec3(dataRate uint16, subs []ec3Sub) []byte {
	w := &bitw.W{}
	w.Put(uint64(dataRate), 13)
	w.Put(uint64(len(subs)-1), 3)
	for _, s := range subs {
		w.Put(uint64(s.Fscod), 2)
		w.Put(uint64(s.Bsid), 5)
		w.Put(0, 1)
		w.Put(uint64(s.Asvc), 1)
		w.Put(uint64(s.Bsmod), 3)
		w.Put(uint64(s.Acmod), 3)
		w.Put(uint64(s.Lfe), 1)
		w.Put(0, 3)
		w.Put(uint64(s.NumDep), 4)
		if s.NumDep > 0 {
			w.Put(uint64(s.ChanLoc), 9)
		} else {
			w.Put(0, 1)
		}
	}
	return w.Bytes()
}

// channels per acmod (ETSI TS 102 366 Table 4.3)
var acmodChannels = []int{2, 1, 2, 3, 3, 4, 4, 5}

// chan_loc bit -> number of channels (Table F.6.1: Lc/Rc, Lrs/Rrs, Cs, Ts,
// Lsd/Rsd, Lw/Rw, Lvh/Rvh, Cvh, LFE2)
var chanLocChannels = []int{2, 2, 1, 1, 2, 2, 2, 1, 1}

var ac3Rates = []int{48000, 44100, 32000}

// stpp sample entry: three zero-terminated strings after the 8 byte header
func readStppStrings(b []byte, n *boxwalk.Node) ([]string, error) {
	p := n.Payload(b)
	if len(p) < 8 {
		return nil, errors.New("stpp too short")
	}
	p = p[8:]
	var out []string
	for i := 0; i < 3; i++ {
		j := 0
		for j < len(p) && p[j] != 0 {
			j++
		}
		if j >= len(p) {
			return nil, fmt.Errorf("stpp string %d is not zero-terminated", i)
		}
		out = append(out, string(p[:j]))
		p = p[j+1:]
	}
	return out, nil
}
