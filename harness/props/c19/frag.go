package c19

// Last clause of the statement: fragments created for the init's track ids
// decode against it. The harness stamps every sample (track, index), writes
// init + fragment, decodes with both decoders and asks GetFullSamples for
// each trex of the *decoded* init.

import (
	"bytes"
	"fmt"

	"github.com/Eyevinn/mp4ff/bits"
	"github.com/Eyevinn/mp4ff/mp4"

	"verifharness/ref/boxwalk"
)

type stamped struct {
	flags uint32
	dur   uint32
	cto   int32
	dts   uint64
	data  []byte
}

func (s *state) fragment(init *mp4.InitSegment, enc []byte, exps []expTrack) bool {
	c := s.c
	n := len(exps)
	r := c.Rand
	nclass := "multi-track"
	if n == 1 {
		nclass = "single-track"
	}
	// which tracks take part: all of them, or (sometimes) a single one of a multi-track init
	ids := make([]uint32, 0, n)
	single := n == 1 || r.Chance(1, 5)
	if single {
		ids = append(ids, uint32(1+r.Intn(n)))
	} else {
		for i := 1; i <= n; i++ {
			ids = append(ids, uint32(i))
		}
	}
	seq := uint32(1 + r.Intn(1000))
	useSingleAPI := single && r.Bool()
	var frag *mp4.Fragment
	var err error
	api := "CreateMultiTrackFragment"
	pi := c.Guard(func() {
		if useSingleAPI {
			api = "CreateFragment"
			frag, err = mp4.CreateFragment(seq, ids[0])
		} else {
			frag, err = mp4.CreateMultiTrackFragment(seq, ids)
		}
	})
	if pi != nil || err != nil || frag == nil {
		s.viol("frag", "create-fragment", nclass, fmt.Sprintf("%s(%d, %v): panic=%v err=%v", api, seq, ids, pi != nil, err))
		return false
	}
	c.Seen("fragment_api", api)
	// per track a base time and 1..4 samples; tracks interleaved in random order, ascending within a track
	next := map[uint32]uint64{}
	var order []uint32
	for _, id := range ids {
		next[id] = uint64(r.Intn(1 << 20))
		if r.Chance(1, 10) {
			next[id] = 1<<32 + uint64(r.Intn(1000))
		}
		for j, k := 0, 1+r.Intn(4); j < k; j++ {
			order = append(order, id)
		}
	}
	for i := len(order) - 1; i > 0; i-- {
		j := r.Intn(i + 1)
		order[i], order[j] = order[j], order[i]
	}
	want := map[uint32][]stamped{}
	var addErr error
	pi = c.Guard(func() {
		for _, id := range order {
			k := len(want[id])
			st := stamped{flags: uint32(r.PickU64(0x02000000, 0x01010000, 0x00a10000)), dur: uint32(1 + r.Intn(5000)),
				cto: int32(r.Range(-2000, 2000)), dts: next[id]}
			st.data = []byte(fmt.Sprintf("<track %d sample %d>", id, k))
			st.data = append(st.data, r.Bytes(r.Intn(40))...)
			next[id] += uint64(st.dur)
			want[id] = append(want[id], st)
			fs := mp4.FullSample{Sample: mp4.Sample{Flags: st.flags, Dur: st.dur, Size: uint32(len(st.data)), CompositionTimeOffset: st.cto},
				DecodeTime: st.dts, Data: st.data}
			if useSingleAPI {
				frag.AddFullSample(fs)
			} else if e := frag.AddFullSampleToTrack(fs, id); e != nil {
				addErr = e
				return
			}
		}
	})
	if pi != nil || addErr != nil {
		s.viol("frag", "add-samples", nclass, fmt.Sprintf("adding samples to the fragment for track ids %v: panic=%v err=%v", ids, pi, addErr))
		return false
	}
	var fb bytes.Buffer
	pi = c.Guard(func() { err = frag.Encode(&fb) })
	if pi != nil || err != nil {
		s.viol("frag", "encode-fragment", nclass, fmt.Sprintf("Fragment.Encode for track ids %v: panic=%v err=%v", ids, pi, err))
		return false
	}
	all := append(append([]byte(nil), enc...), fb.Bytes()...)
	// the tfhd track ids as written
	if nodes, werr := boxwalk.Walk(all); werr != nil {
		s.viol("frag", "reference-walker-rejects-init+fragment", nclass, werr.Error())
		return false
	} else {
		var got []uint32
		for _, tf := range boxwalk.Find(nodes, "tfhd") {
			p := tf.Payload(all)
			if len(p) >= 8 {
				got = append(got, be.Uint32(p[4:]))
			}
		}
		if len(got) != len(ids) {
			s.viol("frag", "tfhd-track-ids", nclass, fmt.Sprintf("tfhd track ids %v, fragment was created for %v", got, ids))
		} else {
			for i := range ids {
				if got[i] != ids[i] {
					s.viol("frag", "tfhd-track-ids", nclass, fmt.Sprintf("tfhd track ids %v, fragment was created for %v", got, ids))
					break
				}
			}
		}
	}
	good := true
	for k, sr := range []bool{false, true} {
		stage := []string{"frag-reader", "frag-slicereader"}[k]
		var f *mp4.File
		pi = c.Guard(func() {
			if sr {
				f, err = mp4.DecodeFileSR(bits.NewFixedSliceReader(all))
			} else {
				f, err = mp4.DecodeFile(bytes.NewReader(all))
			}
		})
		if pi != nil || err != nil {
			s.viol(stage, "decode-init+fragment", nclass, fmt.Sprintf("decoding init + fragment: panic=%v err=%v", pi, err))
			good = false
			continue
		}
		if f.Init == nil || f.Init.Moov == nil || f.Init.Moov.Mvex == nil || !f.IsFragmented() || len(f.Segments) != 1 || len(f.Segments[0].Fragments) != 1 {
			s.viol(stage, "file-shape", nclass, fmt.Sprintf("init + one fragment decodes to Init=%v fragmented=%v segments=%d", f.Init != nil, f.IsFragmented(), len(f.Segments)))
			good = false
			continue
		}
		df := f.Segments[0].Fragments[0]
		if df.Moof == nil || df.Moof.Mfhd == nil || df.Moof.Mfhd.SequenceNumber != seq {
			s.viol(stage, "sequence-number", nclass, "moof/mfhd missing or sequence number changed")
		}
		for _, trex := range f.Init.Moov.Mvex.Trexs {
			var got []mp4.FullSample
			pi = c.Guard(func() { got, err = df.GetFullSamples(trex) })
			if pi != nil || err != nil {
				s.viol(stage, "GetFullSamples", nclass, fmt.Sprintf("GetFullSamples(trex %d): panic=%v err=%v", trex.TrackID, pi, err))
				good = false
				continue
			}
			w := want[trex.TrackID]
			bad := len(got) != len(w)
			for i := 0; !bad && i < len(w); i++ {
				g := got[i]
				bad = g.Flags != w[i].flags || g.Dur != w[i].dur || g.CompositionTimeOffset != w[i].cto || g.DecodeTime != w[i].dts ||
					int(g.Size) != len(w[i].data) || !bytes.Equal(g.Data, w[i].data)
			}
			if bad {
				s.viol(stage, "samples-differ", nclass, fmt.Sprintf("GetFullSamples(trex %d) returned %d samples %s; %d were added: %s", trex.TrackID, len(got), descGot(got), len(w), descWant(w)))
				good = false
			}
			c.Count("fragment_tracks_read_back", 1)
		}
	}
	return good
}

func descGot(l []mp4.FullSample) string {
	out := ""
	for i, g := range l {
		if i == 3 {
			out += " ..."
			break
		}
		out += fmt.Sprintf(" {dts %d dur %d cto %d flags %08x %q}", g.DecodeTime, g.Dur, g.CompositionTimeOffset, g.Flags, clip(g.Data))
	}
	return out
}

func descWant(l []stamped) string {
	out := ""
	for i, g := range l {
		if i == 3 {
			out += " ..."
			break
		}
		out += fmt.Sprintf(" {dts %d dur %d cto %d flags %08x %q}", g.dts, g.dur, g.cto, g.flags, clip(g.data))
	}
	return out
}
