package c19

// Harvest of real parameter sets from the repository's test streams, done with
// the independent walker / an own start-code scanner (never with mp4ff), and
// expected dimensions computed by ref/spsdim's reader.

import (
	"encoding/hex"
	"os"
	"path/filepath"
	"sort"
	"strings"

	"verifharness/ref/boxwalk"
	"verifharness/ref/spsdim"
	"verifharness/runner"
)

type psSet struct {
	codec              string // avc | hevc
	vps, sps, pps, sei [][]byte
	info               spsdim.Info
	src                string
}

var realSets []psSet
var harvestNotes []string

func splitAnnexB(b []byte) [][]byte {
	var nalus [][]byte
	start := -1
	i := 0
	for i+2 < len(b) {
		if b[i] == 0 && b[i+1] == 0 && b[i+2] == 1 {
			if start >= 0 {
				end := i
				for end > start && b[end-1] == 0 {
					end--
				}
				nalus = append(nalus, b[start:end])
			}
			start = i + 3
			i += 3
			continue
		}
		i++
	}
	if start >= 0 && start < len(b) {
		end := len(b)
		for end > start && b[end-1] == 0 {
			end--
		}
		nalus = append(nalus, b[start:end])
	}
	return nalus
}

func addSet(seen map[uint64]bool, s psSet) {
	if len(s.sps) == 0 || len(s.pps) == 0 {
		return
	}
	var parts [][]byte
	parts = append(parts, []byte(s.codec))
	for _, l := range [][][]byte{s.vps, s.sps, s.pps, s.sei} {
		parts = append(parts, []byte{0xfe})
		parts = append(parts, l...)
	}
	h := runner.Hash64(parts...)
	if seen[h] {
		return
	}
	var err error
	if s.codec == "avc" {
		s.info, err = spsdim.ReadAVC(s.sps[0])
	} else {
		if len(s.vps) == 0 {
			return
		}
		s.info, err = spsdim.ReadHEVC(s.sps[0])
	}
	if err != nil {
		harvestNotes = append(harvestNotes, "reference SPS reader could not read "+s.src+": "+err.Error())
		return
	}
	if s.info.Width == 0 || s.info.Height == 0 || s.info.Width > 65535 || s.info.Height > 65535 {
		return
	}
	seen[h] = true
	realSets = append(realSets, s)
}

func cloneAll(l [][]byte) [][]byte {
	out := make([][]byte, len(l))
	for i, x := range l {
		out[i] = append([]byte(nil), x...)
	}
	return out
}

func harvest(env *runner.Env) {
	realSets = nil
	harvestNotes = nil
	seen := map[uint64]bool{}
	// the constants of examples/initcreator
	unhex := func(s string) []byte { b, _ := hex.DecodeString(s); return b }
	addSet(seen, psSet{codec: "avc", src: "initcreator-constants",
		sps: [][]byte{unhex("67640020accac05005bb0169e0000003002000000c9c4c000432380008647c12401cb1c31380")},
		pps: [][]byte{unhex("68b5df20")}})
	addSet(seen, psSet{codec: "hevc", src: "initcreator-constants",
		vps: [][]byte{unhex("40010c01ffff022000000300b0000003000003007b18b024")},
		sps: [][]byte{unhex("420101022000000300b0000003000003007ba0078200887db6718b92448053888892cf24a69272c9124922dc91aa48fca223ff000100016a02020201")},
		pps: [][]byte{unhex("4401c0252f053240")}})
	var files []string
	_ = filepath.Walk(env.RepoDir, func(path string, fi os.FileInfo, err error) error {
		if err != nil {
			return nil
		}
		if fi.IsDir() {
			if fi.Name() == ".git" {
				return filepath.SkipDir
			}
			return nil
		}
		if !strings.Contains(path, "testdata") || fi.Size() > 12<<20 {
			return nil
		}
		switch strings.ToLower(filepath.Ext(path)) {
		case ".mp4", ".m4s", ".cmfv", ".mov", ".ismv", ".264", ".265", ".h264", ".h265", ".hevc", ".avc":
			files = append(files, path)
		}
		return nil
	})
	sort.Strings(files)
	for _, f := range files {
		b, err := os.ReadFile(f)
		if err != nil {
			continue
		}
		rel, _ := filepath.Rel(env.RepoDir, f)
		ext := strings.ToLower(filepath.Ext(f))
		switch ext {
		case ".264", ".h264", ".avc":
			s := psSet{codec: "avc", src: rel}
			for _, n := range splitAnnexB(b) {
				if len(n) < 2 {
					continue
				}
				switch n[0] & 0x1f {
				case 7:
					if len(s.sps) < 2 {
						s.sps = append(s.sps, n)
					}
				case 8:
					if len(s.pps) < 4 {
						s.pps = append(s.pps, n)
					}
				}
			}
			s.sps, s.pps = cloneAll(s.sps), cloneAll(s.pps)
			addSet(seen, s)
		case ".265", ".h265", ".hevc":
			s := psSet{codec: "hevc", src: rel}
			for _, n := range splitAnnexB(b) {
				if len(n) < 3 {
					continue
				}
				switch n[0] >> 1 & 0x3f {
				case 32:
					if len(s.vps) < 2 {
						s.vps = append(s.vps, n)
					}
				case 33:
					if len(s.sps) < 2 {
						s.sps = append(s.sps, n)
					}
				case 34:
					if len(s.pps) < 4 {
						s.pps = append(s.pps, n)
					}
				case 39:
					if len(s.sei) < 2 && len(n) < 400 {
						s.sei = append(s.sei, n)
					}
				}
			}
			s.vps, s.sps, s.pps, s.sei = cloneAll(s.vps), cloneAll(s.sps), cloneAll(s.pps), cloneAll(s.sei)
			addSet(seen, s)
		default:
			nodes, err := boxwalk.Walk(b)
			if err != nil {
				continue
			}
			for _, n := range boxwalk.Find(nodes, "avcC") {
				a, err := readAvcC(n.Payload(b))
				if err != nil {
					continue
				}
				addSet(seen, psSet{codec: "avc", src: rel, sps: cloneAll(a.sps), pps: cloneAll(a.pps)})
			}
			for _, n := range boxwalk.Find(nodes, "hvcC") {
				h, err := readHvcC(n.Payload(b))
				if err != nil {
					continue
				}
				s := psSet{codec: "hevc", src: rel}
				for _, a := range h.arrays {
					switch a.typ {
					case 32:
						s.vps = cloneAll(a.nalus)
					case 33:
						s.sps = cloneAll(a.nalus)
					case 34:
						s.pps = cloneAll(a.nalus)
					case 39:
						s.sei = cloneAll(a.nalus)
					}
				}
				addSet(seen, s)
			}
		}
	}
}
