package c19

// History generator: what the harness asks the API to do. Every value that
// ends up in an expectation is recorded here, so the oracle never has to ask
// mp4ff what it was given.

import (
	"fmt"
	"strings"

	"verifharness/ref/spsdim"
	"verifharness/runner"
)

var timescales = []uint32{1, 1000, 48000, 90000, 0xffffffff}

const longTag = "de-Latn-DE-1996-x-private-use-01234" // 35 characters

var languages = []string{"und", "eng", "sv", "en-US", "zh-Hant-TW", "x-y", longTag}

// media type argument values: the ones CreateEmptyTrak / CreateHdlr name, a few
// custom four-character handler types, and the raw handler names CreateHdlr
// accepts ("mediaOrHdlrType").
var mediaTypes = []string{"video", "audio", "subtitle", "subtitles", "stpp", "text", "wvtt", "meta", "clcp",
	"hint", "auxv", "tmcd", "abcd", "vide", "soun", "subt",
	// custom handler 4CCs that are not lower-case letters only: a four-character code is four
	// bytes, case and all (ID32 = ID3 metadata, MPsm/sdsm/m7sm/ocsm = MPEG-4 systems streams)
	"ID32", "MPsm", "m7sm", "Ab1d", "3gpp", "s-1_", "a b ", "TMCD"}

// customAlphabet: characters drawn for random custom handler types (AddEmptyTrack is given
// exactly these four bytes and the hdlr box has to carry them)
const customAlphabet = "abcdefghijklmnopqrstuvwxyzABCDEFGHIJKLMNOPQRSTUVWXYZ0123456789 -_.+!#"

// namedMedia: the names CreateHdlr gives a meaning of their own; a random custom type must not
// be one of them, nor differ from one only by case (what such a spelling means is not fixed by the statement)
var namedMedia = map[string]bool{"vide": true, "soun": true, "subt": true, "stpp": true, "text": true, "wvtt": true, "meta": true, "clcp": true}

func randomCustomType(r *runner.Rand) string {
	for {
		b := make([]byte, 4)
		for i := range b {
			b[i] = customAlphabet[r.Intn(len(customAlphabet))]
		}
		if !namedMedia[strings.ToLower(string(b))] {
			return string(b)
		}
	}
}

// values that CreateHdlr rejects (not four characters, not named): the
// documented outcome is the explicit panic "mediaType ... not supported"
var unsupportedMedia = []string{"", "vid", "video2", "closedcaptions", "sound"}

type descSpec struct {
	Kind string // avc hevc aac ac3 ec3 wvtt stpp none
	// video
	SDType    string
	IncludePS bool
	VPS       [][]byte `json:"-"`
	SPS       [][]byte `json:"-"`
	PPS       [][]byte `json:"-"`
	SEI       [][]byte `json:"-"`
	Info      spsdim.Info   // of the first SPS
	Infos     []spsdim.Info `json:"-"` // of every supplied SPS, in order
	Src       string        // generated | <file> (+ "+" further sources of appended SPS)
	Scaling   []string      `json:"-"` // generated AVC: how the scaling matrix of every SPS is written
	// aac
	ObjType int
	Freq    int
	// ac3 / ec3
	Fscod, Bsid, Bsmod, Acmod, Lfe, BitRateCode byte
	DataRate                                    uint16
	Subs                                        []ec3Sub
	ViaDecode                                   bool // the Dac3Box/Dec3Box is obtained by decoding reference bytes
	// wvtt / stpp
	Config          string
	NS, Schema, Aux string
	// a call that must be rejected is made before the valid one
	Reject string
}

type trackSpec struct {
	Timescale uint32
	Media     string
	Lang      string
	Desc      descSpec
}

type history struct {
	Pre      []string // unsupported media type probes interleaved: index -> media string ("" none)
	Tracks   []trackSpec
	Resume   int    // >0: after this many tracks the init is encoded, decoded and the history continues on the decoded init
	ResumeBy string // decode path used for the resume: reader | buffer | slicereader
	Class    string
	// Order of the calls: "interleaved" (AddEmptyTrack, its Set*Descriptor, next track ...),
	// "tracks-first" (every AddEmptyTrack, then the descriptors in track order) or
	// "tracks-first-permuted" (then the descriptors in the order DescOrder)
	Order     string
	DescOrder []int
	// Mid[i][0]: the init is serialised (a mix of Size / Encode / EncodeSW, MidMask bits 1/2/4) right after
	// AddEmptyTrack of track i, before its descriptor is set; Mid[i][1]: right after its Set*Descriptor call
	Mid     [][2]bool
	MidMask [][2]int
}

var decodeKinds = []string{"reader", "buffer", "slicereader"}

type pins struct {
	n       int
	media   string
	lang    string
	ts      uint32
	hasTS   bool
	kind    string
	obj     int
	freq    int
	fscod   int
	acmod   int
	lfe     int
	real    int // index into realSets, -1 none
	sdtype  string
	incl    int // -1 unset, 0/1
	reject  string
	profile int
}

func noPins() pins { return pins{fscod: -1, acmod: -1, lfe: -1, real: -1, incl: -1} }

var grid []pins

// tailGrid holds deterministic cases added after the harness was first calibrated. They run
// at the END of the case range (tailStart..), so the indices, and with them the PRNG draws, of
// all earlier cases stay what they were.
var tailGrid []pins
var tailStart int

// threeCharOddTags are 3-character tags that are NOT three lower-case letters: the packed mdhd
// field cannot carry them as supplied, so they must go to elng like any other tag.
var threeCharOddTags = []string{"ENG", "sWe", "a1b", "e-n"}

func buildGrid() {
	grid = nil
	tailGrid = nil
	k2 := 0
	for _, m := range mediaTypes {
		for _, l := range threeCharOddTags {
			p := noPins()
			p.n, p.media, p.lang, p.ts, p.hasTS = 1, m, l, timescales[k2%len(timescales)], true
			k2++
			tailGrid = append(tailGrid, p)
		}
	}
	// every media type x every language, timescale cycling
	k := 0
	for _, m := range mediaTypes {
		for _, l := range languages {
			p := noPins()
			p.n, p.media, p.lang, p.ts, p.hasTS = 1, m, l, timescales[k%len(timescales)], true
			k++
			grid = append(grid, p)
		}
	}
	// AAC: object type x table frequency
	for _, o := range []int{2, 5, 29} {
		for _, f := range aacFreqs {
			p := noPins()
			p.n, p.media, p.kind, p.obj, p.freq = 1, "audio", "aac", o, f
			grid = append(grid, p)
		}
	}
	// AC-3 / EC-3: fscod x acmod x lfe
	for _, kind := range []string{"ac3", "ec3"} {
		for fs := 0; fs < 3; fs++ {
			for ac := 0; ac < 8; ac++ {
				for lfe := 0; lfe < 2; lfe++ {
					p := noPins()
					p.n, p.media, p.kind, p.fscod, p.acmod, p.lfe = 1, "audio", kind, fs, ac, lfe
					grid = append(grid, p)
				}
			}
		}
	}
	// real parameter sets x sample entry type x includePS
	for i, s := range realSets {
		types := []string{"avc1", "avc3"}
		if s.codec == "hevc" {
			types = []string{"hvc1", "hev1"}
		}
		for _, t := range types {
			for incl := 0; incl < 2; incl++ {
				if incl == 0 && (t == "avc1" || t == "hvc1") {
					continue
				}
				p := noPins()
				p.n, p.media, p.kind, p.real, p.sdtype, p.incl = 1, "video", s.codec, i, t, incl
				grid = append(grid, p)
			}
		}
	}
	// rejections
	for _, r := range []string{"avc-badtype", "avc1-nops", "avc-truncated-sps", "avc-pps-as-sps", "hevc-badtype", "hvc1-nops", "hevc-truncated-sps", "hevc-pps-as-sps"} {
		p := noPins()
		p.n, p.media, p.reject = 1, "video", r
		if r[0] == 'h' {
			p.kind = "hevc"
		} else {
			p.kind = "avc"
		}
		grid = append(grid, p)
	}
	// AVC profiles
	for _, pr := range []int{66, 77, 88, 100, 110, 122, 244, 44} {
		for rep := 0; rep < 3; rep++ {
			p := noPins()
			p.n, p.media, p.kind, p.profile = 1, "video", "avc", pr
			grid = append(grid, p)
		}
	}
	// track counts 1..8, homogeneous and mixed
	for n := 1; n <= 8; n++ {
		for _, m := range []string{"video", "audio", ""} {
			p := noPins()
			p.n, p.media = n, m
			grid = append(grid, p)
		}
	}
}

func pickMedia(r *runner.Rand) string {
	switch x := r.Intn(100); {
	case x < 30:
		return "video"
	case x < 55:
		return "audio"
	case x < 63:
		return randomCustomType(r)
	default:
		return mediaTypes[r.Intn(len(mediaTypes))]
	}
}

func descKindsFor(media string) []string {
	switch media {
	case "video", "vide":
		return []string{"avc", "hevc"}
	case "audio", "soun":
		return []string{"aac", "aac", "ac3", "ec3"}
	case "wvtt", "text":
		return []string{"wvtt"}
	case "stpp", "subtitle", "subtitles", "subt":
		return []string{"stpp"}
	}
	return []string{"none"}
}

var commonSizes = [][2]int{{176, 144}, {320, 240}, {426, 240}, {640, 360}, {640, 480}, {854, 480}, {960, 540}, {1024, 576}, {1280, 720},
	{1366, 768}, {1440, 1080}, {1920, 1080}, {1920, 1088}, {2560, 1440}, {3840, 2160}, {4096, 2160}, {7680, 4320}, {16, 16}, {2, 2}, {64, 36}}

// genAVCSPS draws the values of one AVC SPS.
func genAVCSPS(r *runner.Rand, profile int) (p *spsdim.AVCSPS, hi bool) {
	p = &spsdim.AVCSPS{}
	if profile == 0 {
		switch x := r.Intn(100); {
		case x < 30:
			profile = r.PickInt(66, 77, 88)
		case x < 92:
			profile = r.PickInt(100, 100, 110, 122)
		default:
			profile = r.PickInt(244, 44)
		}
	}
	p.ProfileIDC = byte(profile)
	p.ConstraintB = byte(r.PickInt(0x00, 0x40, 0xc0, 0xe0, 0x10, 0x0c, 0xfc))
	p.LevelIDC = byte(r.PickInt(10, 11, 12, 13, 20, 21, 22, 30, 31, 32, 40, 41, 42, 50, 51, 52, 60, 62))
	p.SPSID = uint64(r.Intn(32))
	p.ChromaFormatIDC = 1
	switch profile {
	case 100:
		p.ChromaFormatIDC = uint64(r.PickInt(1, 1, 1, 0))
	case 110:
		p.ChromaFormatIDC = uint64(r.PickInt(1, 1, 1, 0))
		p.BitDepthLumaM8 = uint64(r.Intn(3))
		p.BitDepthChromM8 = uint64(r.Intn(3))
	case 122:
		p.ChromaFormatIDC = uint64(r.PickInt(2, 2, 1, 0))
		p.BitDepthLumaM8 = uint64(r.Intn(3))
		p.BitDepthChromM8 = uint64(r.Intn(3))
	case 244, 44:
		p.ChromaFormatIDC = uint64(r.Intn(4))
		p.SeparatePlanes = r.Chance(1, 3)
		p.BitDepthLumaM8 = uint64(r.Intn(7))
		p.BitDepthChromM8 = uint64(r.Intn(7))
		p.QPPrimeBypass = r.Bool()
	}
	hi = spsdim.AVCHighSyntax(p.ProfileIDC)
	if hi && r.Chance(1, 4) {
		p.ScalingMatrix = true
		p.ScalingSeed = r.Uint64()
		// two thirds of the matrices hold lists that end early (compact encodings: "use the
		// default list", or a tail that repeats the last value), the others are written out in full
		p.ScalingShort = r.Chance(2, 3)
	}
	p.Log2MaxFrameNumM4 = uint64(r.Intn(13))
	p.PocType = uint64(r.PickInt(0, 0, 2, 1))
	p.Log2MaxPocLsbM4 = uint64(r.Intn(13))
	if p.PocType == 1 {
		for i := r.Intn(4); i > 0; i-- {
			p.PocCycle = append(p.PocCycle, int64(r.Range(-5, 5)))
		}
	}
	p.NumRefFrames = uint64(r.Intn(17))
	p.Gaps = r.Chance(1, 8)
	p.FrameMbsOnly = !r.Chance(1, 5)
	p.MbAff = r.Bool()
	p.Direct8x8 = true
	p.VUI = r.Chance(1, 4)
	// crop units by the chosen values (the expectation itself is computed in ref/spsdim)
	cat := p.ChromaFormatIDC
	if !hi {
		cat = 1
	}
	if hi && p.ChromaFormatIDC == 3 && p.SeparatePlanes {
		cat = 0
	}
	cux, cuy := 1, 1
	switch cat {
	case 1:
		cux, cuy = 2, 2
	case 2:
		cux, cuy = 2, 1
	}
	rows := 16 // luma rows per map unit
	if !p.FrameMbsOnly {
		cuy *= 2
		rows = 32
	}
	var cropX, cropY int // totals in crop units
	if r.Chance(1, 2) {
		sz := commonSizes[r.Intn(len(commonSizes))]
		w, h := sz[0], sz[1]
		w -= w % cux
		h -= h % cuy
		if w == 0 {
			w = cux
		}
		if h == 0 {
			h = cuy
		}
		wm := (w + 15) / 16
		hm := (h + rows - 1) / rows
		p.WidthMbsM1, p.HeightMapUnitsM1 = uint64(wm-1), uint64(hm-1)
		cropX, cropY = (wm*16-w)/cux, (hm*rows-h)/cuy
		p.Crop = cropX+cropY > 0 || r.Chance(1, 5)
	} else {
		wm := 1 + r.Intn(r.PickInt(4, 40, 120, 512))
		hm := 1 + r.Intn(r.PickInt(4, 40, 68, 270))
		p.WidthMbsM1, p.HeightMapUnitsM1 = uint64(wm-1), uint64(hm-1)
		switch r.Intn(4) {
		case 0: // no cropping
		case 1: // flag set, zero offsets
			p.Crop = true
		default:
			p.Crop = true
			maxX, maxY := 16/cux-1, rows/cuy-1
			if r.Chance(1, 4) { // more than one macroblock row/column cropped
				maxX, maxY = (wm*16-1)/cux, (hm*rows-1)/cuy
				if maxX > 60 {
					maxX = 60
				}
				if maxY > 60 {
					maxY = 60
				}
			}
			cropX, cropY = r.Intn(maxX+1), r.Intn(maxY+1)
		}
	}
	if p.Crop {
		l := 0
		if r.Chance(1, 3) {
			l = r.Intn(cropX + 1)
		}
		t := 0
		if r.Chance(1, 3) {
			t = r.Intn(cropY + 1)
		}
		p.CropL, p.CropR, p.CropT, p.CropB = uint64(l), uint64(cropX-l), uint64(t), uint64(cropY-t)
	}
	return p, hi
}

// genAVC draws the parameter sets of one SetAVCDescriptor call: one SPS, or a list of SPS with
// different ids (a stream that switches between them): a copy with another level, and/or one or
// two SPS drawn independently (other picture size, cropping, profile, level, chroma format, bit
// depth). infos[i] is what the reference computes for sps[i].
func genAVC(r *runner.Rand, profile int) (sps, pps [][]byte, infos []spsdim.Info, scaling []string) {
	p, hi := genAVCSPS(r, profile)
	sps = append(sps, p.NAL())
	infos = append(infos, p.Info())
	scaling = append(scaling, scalingClass(p))
	ids := []uint64{p.SPSID}
	if r.Chance(1, 6) { // a second SPS with another id
		q := *p
		q.SPSID = (p.SPSID + 1) % 32
		q.LevelIDC = 30
		sps = append(sps, q.NAL())
		infos = append(infos, q.Info())
		scaling = append(scaling, scalingClass(&q))
		ids = append(ids, q.SPSID)
	}
	if r.Chance(1, 5) { // further SPS of their own
		for k, n := 0, r.PickInt(1, 1, 2); k < n; k++ {
			xprof := 0
			if r.Bool() {
				xprof = int(p.ProfileIDC) // same profile, other picture
			}
			q, _ := genAVCSPS(r, xprof)
			q.SPSID = (ids[len(ids)-1] + 1) % 32
			sps = append(sps, q.NAL())
			infos = append(infos, q.Info())
			scaling = append(scaling, scalingClass(q))
			ids = append(ids, q.SPSID)
		}
	}
	for i, n := 0, 1+r.Intn(3); i < n; i++ {
		pps = append(pps, spsdim.AVCPPS(uint64(i), ids[i%len(ids)], r.Bool(), int64(r.Range(-26, 25)), hi && r.Bool()))
	}
	return sps, pps, infos, scaling
}

// scalingClass names how the scaling matrix of a generated AVC SPS is written (evidence only).
func scalingClass(p *spsdim.AVCSPS) string {
	sh := p.ScalingShapes()
	if sh == nil {
		return "no scaling matrix"
	}
	cnt := map[string]int{}
	for _, x := range sh {
		cnt[x]++
	}
	var l []string
	for _, k := range []string{"full", "use-default", "tail-cut"} {
		if cnt[k] > 0 {
			l = append(l, k)
		}
	}
	if len(l) == 0 {
		return "matrix flag set, no list present"
	}
	return "lists: " + strings.Join(l, "+")
}

// genHEVCSPS draws the values of one HEVC SPS.
func genHEVCSPS(r *runner.Rand) *spsdim.HEVCSPS {
	p := &spsdim.HEVCSPS{}
	prof := r.PickInt(1, 1, 2, 2, 4)
	p.PTL.ProfileIDC = byte(prof)
	p.PTL.Tier = r.Chance(1, 4)
	p.PTL.CompatFlags = 1 << uint(31-prof)
	if prof == 1 {
		p.PTL.CompatFlags |= 1 << 29
	}
	if r.Chance(1, 4) {
		p.PTL.CompatFlags = r.Uint32()
	}
	p.PTL.ConstraintInd = 0x900000000000
	if r.Chance(1, 3) {
		p.PTL.ConstraintInd = r.Uint64() & (1<<48 - 1)
	}
	p.PTL.LevelIDC = byte(r.PickInt(30, 60, 63, 90, 93, 120, 123, 150, 153, 156, 180, 183, 186))
	if r.Chance(1, 7) {
		p.MaxSubLayersM1 = 1 + r.Intn(6)
		for i := 0; i < p.MaxSubLayersM1; i++ {
			p.PTL.SubProfile = append(p.PTL.SubProfile, r.Bool())
			p.PTL.SubLevel = append(p.PTL.SubLevel, r.Bool())
		}
		p.SubLayerOrdAll = r.Bool()
	}
	p.TemporalNesting = p.MaxSubLayersM1 == 0 || r.Bool()
	p.VPSID = uint64(r.Intn(16))
	p.SPSID = uint64(r.Intn(16))
	p.ChromaFormatIDC = 1
	switch prof {
	case 2:
		p.BitDepthLumaM8 = uint64(r.Intn(3))
		p.BitDepthChromM8 = uint64(r.Intn(3))
	case 4:
		p.ChromaFormatIDC = uint64(r.Intn(4))
		p.SeparatePlanes = r.Chance(1, 3)
		p.BitDepthLumaM8 = uint64(r.Intn(8))
		p.BitDepthChromM8 = uint64(r.Intn(8))
	}
	p.Log2MaxPocM4 = uint64(r.Intn(13))
	p.Log2MinCbM3 = uint64(r.Intn(2))
	p.Log2DiffCb = uint64(1 + r.Intn(2))
	p.AMP, p.SAO, p.StrongIntra, p.TemporalMVP = r.Bool(), r.Bool(), r.Bool(), r.Bool()
	minCb := 8 << uint(p.Log2MinCbM3)
	subW, subH := 1, 1
	if !(p.ChromaFormatIDC == 3 && p.SeparatePlanes) {
		switch p.ChromaFormatIDC {
		case 1:
			subW, subH = 2, 2
		case 2:
			subW, subH = 2, 1
		}
	}
	var cw, chh, cropX, cropY int
	if r.Chance(1, 2) {
		sz := commonSizes[r.Intn(len(commonSizes))]
		w, h := sz[0], sz[1]
		w -= w % subW
		h -= h % subH
		if w == 0 {
			w = subW
		}
		if h == 0 {
			h = subH
		}
		cw = (w + minCb - 1) / minCb * minCb
		chh = (h + minCb - 1) / minCb * minCb
		cropX, cropY = (cw-w)/subW, (chh-h)/subH
		p.ConfWin = cropX+cropY > 0 || r.Chance(1, 5)
	} else {
		cw = minCb * (1 + r.Intn(r.PickInt(8, 80, 240, 1024)))
		chh = minCb * (1 + r.Intn(r.PickInt(8, 80, 135, 540)))
		switch r.Intn(4) {
		case 0:
		case 1:
			p.ConfWin = true
		default:
			p.ConfWin = true
			maxX, maxY := minCb/subW-1, minCb/subH-1
			if r.Chance(1, 4) {
				maxX, maxY = (cw-1)/subW, (chh-1)/subH
				if maxX > 60 {
					maxX = 60
				}
				if maxY > 60 {
					maxY = 60
				}
			}
			cropX, cropY = r.Intn(maxX+1), r.Intn(maxY+1)
		}
	}
	p.Width, p.Height = uint64(cw), uint64(chh)
	if p.ConfWin {
		l := 0
		if r.Chance(1, 3) {
			l = r.Intn(cropX + 1)
		}
		t := 0
		if r.Chance(1, 3) {
			t = r.Intn(cropY + 1)
		}
		p.L, p.R, p.T, p.B = uint64(l), uint64(cropX-l), uint64(t), uint64(cropY-t)
	}
	return p
}

// genHEVC draws the parameter sets of one SetHEVCDescriptor call; like genAVC it may give several
// SPS (a copy with another id, and/or independently drawn ones, each with a VPS of its own half of
// the time). infos[i] belongs to sps[i].
func genHEVC(r *runner.Rand) (vps, sps, pps, sei [][]byte, infos []spsdim.Info) {
	p := genHEVCSPS(r)
	sps = append(sps, p.NAL())
	infos = append(infos, p.Info())
	vps = append(vps, spsdim.HEVCVPS(p.VPSID, p.MaxSubLayersM1, p.TemporalNesting, &p.PTL))
	ids := []uint64{p.SPSID}
	if r.Chance(1, 8) {
		q := *p
		q.SPSID = (p.SPSID + 1) % 16
		sps = append(sps, q.NAL())
		infos = append(infos, q.Info())
		ids = append(ids, q.SPSID)
	}
	if r.Chance(1, 5) {
		for k, n := 0, r.PickInt(1, 1, 2); k < n; k++ {
			q := genHEVCSPS(r)
			q.SPSID = (ids[len(ids)-1] + 1) % 16
			if r.Bool() {
				q.VPSID = (p.VPSID + uint64(k) + 1) % 16
				vps = append(vps, spsdim.HEVCVPS(q.VPSID, q.MaxSubLayersM1, q.TemporalNesting, &q.PTL))
			} else {
				q.VPSID = p.VPSID
			}
			sps = append(sps, q.NAL())
			infos = append(infos, q.Info())
			ids = append(ids, q.SPSID)
		}
	}
	for i, n := 0, 1+r.Intn(3); i < n; i++ {
		pps = append(pps, spsdim.HEVCPPS(uint64(i), ids[i%len(ids)], int64(r.Range(-26, 25)), r.Bool()))
	}
	for i, n := 0, r.PickInt(0, 0, 1, 1, 2); i < n; i++ {
		if r.Bool() {
			sei = append(sei, spsdim.HEVCPrefixSEI(137, r.Bytes(24))) // mastering display colour volume
		} else {
			sei = append(sei, spsdim.HEVCPrefixSEI(144, r.Bytes(4))) // content light level
		}
	}
	return
}

var wvttConfigs = []string{"", "WEBVTT", "WEBVTT\n", "WEBVTT - a title\n\nNOTE made by the harness", "WEBVTT\nRegion: id=fred width=40% lines=3",
	"WEBVTT åäö 中文"}
var stppNS = []string{"", "http://www.w3.org/ns/ttml", "http://www.w3.org/ns/ttml http://www.smpte-ra.org/schemas/2052-1/2010/smpte-tt", "urn:x"}
var stppSchema = []string{"", "", "http://example.com/schema.xsd", "a b c"}
var stppAux = []string{"", "", "image/png", "image/png application/font-woff"}

// realInfos gives the reference reading of every SPS of a harvested set (nil when the reference
// reader cannot read one of the further SPS: the oracle then only knows the first).
func realInfos(s psSet) []spsdim.Info {
	out := []spsdim.Info{s.info}
	for _, n := range s.sps[1:] {
		var in spsdim.Info
		var err error
		if s.codec == "avc" {
			in, err = spsdim.ReadAVC(n)
		} else {
			in, err = spsdim.ReadHEVC(n)
		}
		if err != nil {
			return nil
		}
		out = append(out, in)
	}
	return out
}

// otherReal picks a harvested set of the codec other than realSets[not].
func otherReal(r *runner.Rand, codec string, not int) (psSet, bool) {
	var cand []int
	for i, s := range realSets {
		if s.codec == codec && i != not {
			cand = append(cand, i)
		}
	}
	if len(cand) == 0 {
		return psSet{}, false
	}
	return realSets[cand[r.Intn(len(cand))]], true
}

func genDesc(r *runner.Rand, media string, pn *pins) descSpec {
	kinds := descKindsFor(media)
	d := descSpec{Kind: kinds[r.Intn(len(kinds))]}
	if pn.kind != "" {
		d.Kind = pn.kind
	}
	switch d.Kind {
	case "avc":
		if pn.real >= 0 || (pn.profile == 0 && len(realSets) > 0 && r.Chance(1, 6)) {
			idx := pn.real
			if idx < 0 || realSets[idx].codec != "avc" {
				var cand []int
				for i, s := range realSets {
					if s.codec == "avc" {
						cand = append(cand, i)
					}
				}
				if len(cand) > 0 {
					idx = cand[r.Intn(len(cand))]
				} else {
					idx = -1
				}
			}
			if idx >= 0 {
				s := realSets[idx]
				d.SPS, d.PPS, d.Info, d.Src = s.sps, s.pps, s.info, s.src
				d.Infos = realInfos(s)
				// the SPS of a second stream (another rendition) appended: one sample entry for both
				if pn.real < 0 && d.Infos != nil && r.Chance(1, 3) {
					if o, ok := otherReal(r, "avc", idx); ok {
						d.SPS = append(append([][]byte(nil), d.SPS...), o.sps[0])
						d.PPS = append(append([][]byte(nil), d.PPS...), o.pps...)
						d.Infos = append(d.Infos, o.info)
						d.Src += "+" + o.src
					}
				}
			}
		}
		if d.SPS == nil {
			d.SPS, d.PPS, d.Infos, d.Scaling = genAVC(r, pn.profile)
			d.Info = d.Infos[0]
			d.Src = "generated"
		}
		d.SDType = r.PickStr("avc1", "avc3")
		d.IncludePS = d.SDType == "avc1" || r.Bool()
	case "hevc":
		if pn.real >= 0 || (len(realSets) > 0 && r.Chance(1, 6)) {
			idx := pn.real
			if idx < 0 || realSets[idx].codec != "hevc" {
				var cand []int
				for i, s := range realSets {
					if s.codec == "hevc" {
						cand = append(cand, i)
					}
				}
				if len(cand) > 0 {
					idx = cand[r.Intn(len(cand))]
				} else {
					idx = -1
				}
			}
			if idx >= 0 {
				s := realSets[idx]
				d.VPS, d.SPS, d.PPS, d.SEI, d.Info, d.Src = s.vps, s.sps, s.pps, s.sei, s.info, s.src
				d.Infos = realInfos(s)
				if pn.real < 0 && d.Infos != nil && r.Chance(1, 3) {
					if o, ok := otherReal(r, "hevc", idx); ok {
						d.VPS = append(append([][]byte(nil), d.VPS...), o.vps[0])
						d.SPS = append(append([][]byte(nil), d.SPS...), o.sps[0])
						d.PPS = append(append([][]byte(nil), d.PPS...), o.pps...)
						d.Infos = append(d.Infos, o.info)
						d.Src += "+" + o.src
					}
				}
			}
		}
		if d.SPS == nil {
			d.VPS, d.SPS, d.PPS, d.SEI, d.Infos = genHEVC(r)
			d.Info = d.Infos[0]
			d.Src = "generated"
		}
		d.SDType = r.PickStr("hvc1", "hev1")
		d.IncludePS = d.SDType == "hvc1" || r.Bool()
	case "aac":
		d.ObjType = r.PickInt(2, 5, 29)
		d.Freq = aacFreqs[r.Intn(len(aacFreqs))]
		if pn.obj != 0 {
			d.ObjType, d.Freq = pn.obj, pn.freq
		}
	case "ac3":
		d.Fscod, d.Bsid, d.Bsmod, d.Acmod, d.Lfe = byte(r.Intn(3)), byte(r.PickInt(8, 6, 4)), byte(r.Intn(8)), byte(r.Intn(8)), byte(r.Intn(2))
		d.BitRateCode = byte(r.Intn(19))
		d.ViaDecode = r.Bool()
	case "ec3":
		d.DataRate = uint16(r.Intn(8192))
		n := r.PickInt(1, 1, 1, 2, 3)
		for i := 0; i < n; i++ {
			s := ec3Sub{Fscod: byte(r.Intn(3)), Bsid: 16, Asvc: byte(r.Intn(2)), Bsmod: byte(r.Intn(8)), Acmod: byte(r.Intn(8)), Lfe: byte(r.Intn(2))}
			if r.Chance(1, 3) {
				s.NumDep = byte(1 + r.Intn(3))
				s.ChanLoc = uint16(r.Intn(512))
			}
			d.Subs = append(d.Subs, s)
		}
		d.ViaDecode = r.Bool()
	case "wvtt":
		d.Config = wvttConfigs[r.Intn(len(wvttConfigs))]
	case "stpp":
		d.NS, d.Schema, d.Aux = stppNS[r.Intn(len(stppNS))], stppSchema[r.Intn(len(stppSchema))], stppAux[r.Intn(len(stppAux))]
	}
	if pn.fscod >= 0 {
		if d.Kind == "ac3" {
			d.Fscod, d.Acmod, d.Lfe = byte(pn.fscod), byte(pn.acmod), byte(pn.lfe)
		} else if d.Kind == "ec3" {
			d.Subs[0].Fscod, d.Subs[0].Acmod, d.Subs[0].Lfe = byte(pn.fscod), byte(pn.acmod), byte(pn.lfe)
		}
	}
	if pn.sdtype != "" {
		d.SDType = pn.sdtype
		d.IncludePS = pn.incl != 0
	}
	if pn.reject != "" {
		d.Reject = pn.reject
	} else if (d.Kind == "avc" || d.Kind == "hevc") && r.Chance(1, 25) {
		if d.Kind == "avc" {
			d.Reject = r.PickStr("avc-badtype", "avc1-nops", "avc-truncated-sps", "avc-pps-as-sps")
		} else {
			d.Reject = r.PickStr("hevc-badtype", "hvc1-nops", "hevc-truncated-sps", "hevc-pps-as-sps")
		}
	}
	return d
}

func genHistory(r *runner.Rand, idx int) history {
	pn := noPins()
	h := history{Class: "random"}
	if idx < len(grid) {
		pn = grid[idx]
		h.Class = "grid"
	} else if tailStart > 0 && idx >= tailStart && idx-tailStart < len(tailGrid) {
		pn = tailGrid[idx-tailStart]
		h.Class = "grid"
	}
	n := pn.n
	if n == 0 {
		n = r.PickInt(1, 1, 1, 2, 2, 3, 3, 4, 5, 6, 7, 8)
	}
	h.Pre = make([]string, n+1)
	for i := 0; i < n; i++ {
		t := trackSpec{Timescale: timescales[r.Intn(len(timescales))], Lang: languages[r.Intn(len(languages))]}
		t.Media = pickMedia(r)
		if pn.media != "" {
			t.Media = pn.media
		}
		if pn.lang != "" {
			t.Lang = pn.lang
		}
		if pn.hasTS {
			t.Timescale = pn.ts
		}
		t.Desc = genDesc(r, t.Media, &pn)
		h.Tracks = append(h.Tracks, t)
	}
	if h.Class == "random" {
		for i := range h.Pre {
			if r.Chance(1, 40) {
				h.Pre[i] = "!" + unsupportedMedia[r.Intn(len(unsupportedMedia))]
			}
		}
		if n >= 2 && r.Chance(1, 8) {
			h.Resume = 1 + r.Intn(n-1)
			h.ResumeBy = decodeKinds[r.Intn(len(decodeKinds))]
		}
	}
	h.Order = "interleaved"
	if h.Class == "random" && n >= 2 {
		switch x := r.Intn(100); {
		case x < 25:
			h.Order = "tracks-first"
		case x < 40:
			h.Order = "tracks-first-permuted"
			h.DescOrder = r.Perm(n)
		}
	}
	// the init is written out between the steps of the history as well (a packager that publishes
	// the init as soon as it can and again when it is complete)
	h.Mid = make([][2]bool, n)
	h.MidMask = make([][2]int, n)
	for i := 0; i < n; i++ {
		for k := 0; k < 2; k++ {
			if r.Chance(1, 4) {
				h.Mid[i][k] = true
				h.MidMask[i][k] = r.PickInt(2, 2, 3, 7, 7, 6, 4, 5, 1)
			}
		}
	}
	return h
}

func (h *history) describe() map[string]interface{} {
	var ts []map[string]interface{}
	for _, t := range h.Tracks {
		m := map[string]interface{}{"timescale": t.Timescale, "media": t.Media, "lang": t.Lang, "desc": t.Desc.Kind}
		d := t.Desc
		switch d.Kind {
		case "avc", "hevc":
			m["sampleEntry"], m["includePS"], m["src"] = d.SDType, d.IncludePS, d.Src
			m["sps"] = hexList(d.SPS)
			m["pps"] = hexList(d.PPS)
			if d.Kind == "hevc" {
				m["vps"] = hexList(d.VPS)
				m["sei"] = hexList(d.SEI)
			}
			var sizes []string
			for _, in := range d.Infos {
				sizes = append(sizes, fmt.Sprintf("%dx%d profile=%d/%d level=%d/%d", in.Width, in.Height, in.ProfileIDC, in.HProfileIDC, in.LevelIDC, in.HLevelIDC))
			}
			m["perSPS"] = sizes
			m["expect"] = fmt.Sprintf("%dx%d chroma=%d depth=%d/%d profile=%d/%d", d.Info.Width, d.Info.Height, d.Info.ChromaFormat, d.Info.BitDepthLuma, d.Info.BitDepthChroma, d.Info.ProfileIDC, d.Info.HProfileIDC)
		case "aac":
			m["objType"], m["freq"] = d.ObjType, d.Freq
		case "ac3":
			m["fscod"], m["acmod"], m["lfe"], m["bsid"], m["bsmod"], m["brc"], m["viaDecode"] = d.Fscod, d.Acmod, d.Lfe, d.Bsid, d.Bsmod, d.BitRateCode, d.ViaDecode
		case "ec3":
			m["dataRate"], m["subs"], m["viaDecode"] = d.DataRate, d.Subs, d.ViaDecode
		case "wvtt":
			m["config"] = d.Config
		case "stpp":
			m["namespace"], m["schemaLocation"], m["auxiliaryMimeTypes"] = d.NS, d.Schema, d.Aux
		}
		if d.Reject != "" {
			m["rejectedCallFirst"] = d.Reject
		}
		ts = append(ts, m)
	}
	return map[string]interface{}{"tracks": ts, "unsupportedMediaProbes": h.Pre, "resumeAfter": h.Resume, "resumeBy": h.ResumeBy, "class": h.Class,
		"order": h.Order, "descriptorOrder": h.DescOrder, "serialisedBetweenSteps[track][afterAdd,afterDescriptor]": h.Mid, "serialiseCalls(1=Size,2=Encode,4=EncodeSW)": h.MidMask}
}

func hexList(l [][]byte) []string {
	var out []string
	for _, b := range l {
		out = append(out, fmt.Sprintf("%x", b))
	}
	return out
}
