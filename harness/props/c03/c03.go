// Package c03 decides property C03: (a) Encode to an io.Writer and EncodeSW
// to a slice writer produce identical bytes, or both fail, for the same
// structure; (b) every byte string that one decode path (io.Reader or
// SliceReader; box level or file level, default options) reproduces exactly
// on re-encoding is also accepted by the other path and yields an equivalent
// structure, including init/segment/fragment grouping and start positions;
// the io.Reader path gives the same result when the bytes arrive 1 byte or a
// few bytes per Read; (c) the key sets of the two dispatch tables coincide.
//
// Oracle: differential - two real code paths observed on the same input,
// compared byte for byte (encoders) or with the reflective structural
// comparator (decoders; no field is ignored).
package c03

import (
	"bytes"
	"encoding/base64"
	"encoding/json"
	"fmt"
	"io"
	"sort"
	"strings"

	"github.com/Eyevinn/mp4ff/bits"
	"github.com/Eyevinn/mp4ff/mp4"

	genfrag "verifharness/gen/frag"
	"verifharness/props/c01/work"
	"verifharness/ref/boxwalk"
	"verifharness/runner"
	"verifharness/treecmp"
)

func numAPI(tier string) int {
	if tier == "thorough" {
		return 300000
	}
	return 10000
}

func init() {
	runner.Register(&runner.Prop{
		ID: "C03",
		Rule: "case 0 = clause (c): the key sets of the two dispatch tables (mp4.VerifRegisteredBoxTypes) must coincide. " +
			"Cases 1..A (A = 10 000 quick / 300 000 thorough): one generated API history (gen/frag) -> InitSegment, Fragments (with/without OptimizeTrun), MediaSegments with 0..3 sidx, and the assembled file; remaining cases: the shared C01 input list (corpus seeds, hand-built boxes of every registered type, gentle mutants, bit flips, field values, N1/N2/N3, nesting, sequences). " +
			"(a) for every structure (two fresh identical instances, decoded by each of the four paths or built from the same spec; fragmented files in box-tree and in segment mode): Encode on one, EncodeSW on the other into a FixedSliceWriter of capacity Size()+64 -> identical bytes, or both fail. " +
			"(b) for every input x and level (box: DecodeBox/DecodeBoxSR on the first box; file: DecodeFile/DecodeFileSR, default options) and ordered pair (P,Q): if P accepts x and Encode(P(x)) == x exactly (lossless mode) then Q must accept x and Q(x) must be structurally equal to P(x) (reflective comparison of the whole tree incl. unexported fields, StartPos, Segments/Fragments grouping, lazily parsed senc state; nil == empty; nothing ignored); additionally for every x the io.Reader path accepts, the same path fed through a 1-byte reader and a 1..7-byte chunk reader must accept and give an equal structure. " +
			"non-trivial = canonical for at least one path (b) or both encoders succeeded on a structure with at least one box (a); distinct by hash of (input) / (kind, bytes). evaluations = encoder pairs + decoder pairs compared.",
		Assumptions: []string{
			"an input on which the SliceReader stored an accumulated error is treated as rejected by that path (callers must check AccError)",
			"only inputs canonical for P are in the domain of (b); hostile-input behaviour is C04's",
			"DecodeFileSR ignores DecISMFlag (not compared: default options only)",
		},
		Setup:    func(env *runner.Env) error { return work.Setup(env) },
		NumCases: func(env *runner.Env) int { return 1 + numAPI(env.Tier) + work.NumInputs(env) },
		Run:      run,
		Replay:   replay,
		Finalize: func(a *runner.Agg) {
			if a.Counters["encoder_pairs_compared"] == 0 && a.Counters["decoder_pairs_compared"] == 0 {
				a.Nothing = "no encoder or decoder pair was compared"
			}
		},
	})
}

type detail struct {
	Clause  string           `json:"clause"`
	Kind    string           `json:"kind"`
	Desc    string           `json:"desc"`
	Input   string           `json:"input_b64,omitempty"`
	History *genfrag.History `json:"history,omitempty"`
}

func run(c *runner.Ctx, idx int) {
	if idx == 0 {
		tables(c)
		return
	}
	nA := numAPI(c.Env.Tier)
	if idx <= nA {
		h := genfrag.Generate(c.Rand, work.HistoryOptions(c.Rand))
		runHistory(c, h)
		return
	}
	in := work.InputAt(c.Rand, idx-1-nA)
	runInput(c, in, nil)
}

func runHistory(c *runner.Ctx, h *genfrag.History) {
	c.Seen("generator", "api-history")
	for _, s := range work.FromHistory(c, c.Rand, h) {
		encoders(c, s, h)
	}
	if fb := work.BuildFileBytes(c, h); fb != nil {
		runInput(c, work.Input{Name: "api-built file", Desc: "gen/frag.Build", Gen: "api-file", Data: fb}, h)
	}
}

func runInput(c *runner.Ctx, in work.Input, h *genfrag.History) {
	c.Seen("generator", in.Gen)
	for _, s := range work.FromInput(c, in) {
		encoders(c, s, h)
	}
	decoders(c, in, h)
}

func replay(c *runner.Ctx, raw json.RawMessage) {
	var d detail
	if json.Unmarshal(raw, &d) != nil {
		return
	}
	if d.Clause == "c" {
		tables(c)
		return
	}
	if d.History != nil {
		runHistory(c, d.History)
		return
	}
	b, err := base64.StdEncoding.DecodeString(d.Input)
	if err != nil {
		return
	}
	runInput(c, work.Input{Name: "replay", Desc: d.Desc, Gen: "replay", Data: b}, nil)
}

// ---------------------------------------------------------------------------
// (c) dispatch tables

func tables(c *runner.Ctx) {
	rd, srd := mp4.VerifRegisteredBoxTypes()
	c.Evals(1)
	c.Count("dispatch_table_entries_reader", int64(len(rd)))
	c.Count("dispatch_table_entries_slicereader", int64(len(srd)))
	in := func(l []string, s string) bool {
		i := sort.SearchStrings(l, s)
		return i < len(l) && l[i] == s
	}
	for _, t := range rd {
		if !in(srd, t) {
			c.Violation("dispatch-tables/only-in-reader-table/"+safe(t), fmt.Sprintf("box type %q has an io.Reader decoder (decoders) but no SliceReader decoder (decodersSR)", t), detail{Clause: "c"})
		}
	}
	for _, t := range srd {
		if !in(rd, t) {
			c.Violation("dispatch-tables/only-in-slicereader-table/"+safe(t), fmt.Sprintf("box type %q has a SliceReader decoder (decodersSR) but no io.Reader decoder (decoders)", t), detail{Clause: "c"})
		}
	}
	if len(rd) > 0 {
		c.Nontrivial(runner.HashStr(append([]string{"tables"}, rd...)...))
	}
	// the documented registry mutators must keep the two tables in step (this case runs alone in its
	// worker, and the entry is put back before it ends)
	pasp := []byte{0, 0, 0, 16, 'p', 'a', 's', 'p', 0, 0, 0, 4, 0, 0, 0, 3}
	kindOf := func() (string, string) {
		b1, e1 := mp4.DecodeBox(0, bytes.NewReader(pasp))
		b2, e2 := mp4.DecodeBoxSR(0, bits.NewFixedSliceReader(pasp))
		if e1 != nil || e2 != nil {
			return fmt.Sprintf("error %v", e1), fmt.Sprintf("error %v", e2)
		}
		return fmt.Sprintf("%T", b1), fmt.Sprintf("%T", b2)
	}
	if pi := c.Guard(func() {
		mp4.RemoveBoxDecoder("pasp")
		rd2, srd2 := mp4.VerifRegisteredBoxTypes()
		a, b := kindOf()
		if in(rd2, "pasp") != in(srd2, "pasp") || a != b {
			c.Violation("dispatch-tables/RemoveBoxDecoder-leaves-tables-out-of-step", fmt.Sprintf("after RemoveBoxDecoder(\"pasp\"): reader table has it %v, slice-reader table has it %v; DecodeBox gives %s, DecodeBoxSR gives %s", in(rd2, "pasp"), in(srd2, "pasp"), a, b), detail{Clause: "c"})
		}
		mp4.SetBoxDecoder("pasp", mp4.DecodePasp, mp4.DecodePaspSR)
		rd3, srd3 := mp4.VerifRegisteredBoxTypes()
		a, b = kindOf()
		if !in(rd3, "pasp") || !in(srd3, "pasp") || a != b || a != "*mp4.PaspBox" {
			c.Violation("dispatch-tables/SetBoxDecoder-leaves-tables-out-of-step", fmt.Sprintf("after SetBoxDecoder(\"pasp\", ...): reader table has it %v, slice-reader table has it %v; DecodeBox gives %s, DecodeBoxSR gives %s", in(rd3, "pasp"), in(srd3, "pasp"), a, b), detail{Clause: "c"})
		}
		c.Count("registry_mutators_checked", 1)
	}); pi != nil {
		mp4.SetBoxDecoder("pasp", mp4.DecodePasp, mp4.DecodePaspSR)
		c.Violation(runner.PanicKey("dispatch-tables/mutators", pi), "RemoveBoxDecoder/SetBoxDecoder panics: "+pi.Value, detail{Clause: "c"})
	}
}

func safe(t string) string {
	var sb strings.Builder
	for i := 0; i < len(t); i++ {
		if t[i] < 0x20 || t[i] > 0x7e {
			fmt.Fprintf(&sb, "\\x%02x", t[i])
		} else {
			sb.WriteByte(t[i])
		}
	}
	return sb.String()
}

// ---------------------------------------------------------------------------
// (a) encoders

func firstDiff(a, b []byte) int {
	i := 0
	for i < len(a) && i < len(b) && a[i] == b[i] {
		i++
	}
	return i
}

// encCulprit descends to the innermost child on which the two encoders
// disagree when it is encoded on its own.
func encCulprit(c *runner.Ctx, x work.Encodable) string {
	typ := work.TypeOf(x)
	for depth := 0; depth < 32; depth++ {
		found := false
		for _, ch := range work.Children(x) {
			e1 := work.EncodeW(c, ch)
			e2 := work.EncodeSW(c, ch, 64)
			if e1.Skip || e1.Panic != nil || e2.Panic != nil {
				continue
			}
			if e1.OK() != e2.OK() || (e1.OK() && !bytes.Equal(e1.Bytes, e2.Bytes)) {
				x, typ, found = ch, work.TypeOf(ch), true
				break
			}
		}
		if !found {
			break
		}
	}
	if _, isBox := x.(mp4.Box); isBox {
		rd, _ := mp4.VerifRegisteredBoxTypes()
		i := sort.SearchStrings(rd, typ)
		if i >= len(rd) || rd[i] != typ {
			return "unknown"
		}
	}
	return safe(typ)
}

func encoders(c *runner.Ctx, s work.Struct, h *genfrag.History) {
	x1 := s.New()
	x2 := s.New()
	if x1 == nil || x2 == nil {
		c.Count("structures_not_rebuilt", 1)
		return
	}
	c.Seen("structure_kind", s.Kind)
	e1 := work.EncodeW(c, x1)
	e2 := work.EncodeSW(c, x2, 64)
	if e1.Skip || e2.Skip {
		c.Count("encode_skipped_size_inflated", 1)
		return
	}
	if e1.Panic != nil || e2.Panic != nil {
		c.Count("panics_left_to_C04", 1)
		return
	}
	c.Evals(1)
	c.Count("encoder_pairs_compared", 1)
	det := detail{Clause: "a", Kind: s.Kind, Desc: s.Desc, History: h}
	if s.Input != nil {
		det.Input = base64.StdEncoding.EncodeToString(s.Input)
	}
	kind := "decoded"
	if !s.Decoded {
		kind = "api"
	}
	if s.SegMode {
		kind += "-segment-mode"
	}
	switch {
	case !e1.OK() && !e2.OK():
		c.Count("both_encoders_fail", 1)
	case e1.OK() != e2.OK():
		t := encCulprit(c, s.New())
		c.Violation(fmt.Sprintf("encoders/one-fails/%s/%s", kind, t),
			fmt.Sprintf("%s [%s]: Encode error: %v; EncodeSW error: %v (innermost node on which they disagree: %s)\n%s", s.Kind, work.TypeOf(x1), e1.Err, e2.Err, t, s.Desc), det)
	case !bytes.Equal(e1.Bytes, e2.Bytes):
		t := encCulprit(c, s.New())
		p := firstDiff(e1.Bytes, e2.Bytes)
		c.Violation(fmt.Sprintf("encoders/bytes-differ/%s/%s", kind, t),
			fmt.Sprintf("%s [%s]: Encode wrote %d bytes, EncodeSW %d bytes, first difference at byte %d (innermost node on which they disagree: %s)\n%s", s.Kind, work.TypeOf(x1), len(e1.Bytes), len(e2.Bytes), p, t, s.Desc), det)
	default:
		c.Count("encoders_agree", 1)
		if len(e1.Bytes) >= 8 {
			c.Nontrivial(runner.Hash64([]byte(s.Kind), e1.Bytes))
		}
	}
}

// ---------------------------------------------------------------------------
// (b) decoders

func other(path string) string {
	switch path {
	case work.PBox:
		return work.PBoxSR
	case work.PBoxSR:
		return work.PBox
	case work.PFile:
		return work.PFileSR
	}
	return work.PFile
}

func decoders(c *runner.Ctx, in work.Input, h *genfrag.History) {
	det := detail{Clause: "b", Kind: "decoders", Desc: in.Name + " | " + in.Desc, Input: base64.StdEncoding.EncodeToString(in.Data), History: h}
	canonicalAny := false
	for _, p := range []string{work.PBox, work.PBoxSR, work.PFile, work.PFileSR} {
		dp := work.Decode(c, p, in.Data)
		if !dp.OK {
			continue
		}
		x := in.Data[:dp.Consumed]
		// canonical for P? (encode a second, fresh decode so that dp stays pristine)
		de := work.Decode(c, p, x)
		if !de.OK {
			continue
		}
		if de.File != nil {
			work.SetLossless(de.File)
		}
		e := work.EncodeW(c, de.Obj())
		if !e.OK() || !bytes.Equal(e.Bytes, x) {
			c.Count("not_canonical/"+p, 1)
			// delivery in small pieces must still not matter
			if p == work.PBox || p == work.PFile {
				delivery(c, p, x, dp, det)
			}
			continue
		}
		c.Count("canonical/"+p, 1)
		canonicalAny = true
		q := other(p)
		dq := work.Decode(c, q, x)
		c.Evals(1)
		c.Count("decoder_pairs_compared", 1)
		pair := p + "->" + q
		if !dq.OK {
			if dq.Panic != nil {
				c.Count("panics_left_to_C04", 1)
			} else {
				c.Violation(fmt.Sprintf("decoders/%s/rejects/%s", pair, culpritType(x, dq.Err)),
					fmt.Sprintf("x is canonical for %s (Encode(%s(x)) == x, %d bytes) but %s rejects it: %v\n%s", p, p, len(x), q, dq.Err, det.Desc), det)
			}
		} else if diffs := treecmp.Diff(dp.Obj(), dq.Obj(), treecmp.Options{}); len(diffs) > 0 {
			c.Violation(fmt.Sprintf("decoders/%s/differ/%s", pairKey(p), treecmp.KeyPath(diffs)),
				fmt.Sprintf("x is canonical for %s; %s(x) and %s(x) differ: %s\n%s", p, p, q, strings.Join(diffs, "; "), det.Desc), det)
		} else {
			c.Count("decoders_agree", 1)
		}
		if p == work.PBox || p == work.PFile {
			delivery(c, p, x, dp, det)
		}
		if p == work.PFileSR || p == work.PBoxSR {
			offsetSR(c, p, x, dp, det)
		}
	}
	if canonicalAny {
		c.Nontrivial(runner.Hash64(in.Data))
		if c.WantSample() && in.Gen != "seed" {
			c.Sample(map[string]interface{}{"seed": in.Name, "generator": in.Gen, "mutation": in.Desc, "len": len(in.Data), "first_bytes_hex": fmt.Sprintf("%x", in.Data[:minInt(len(in.Data), 48)])})
		}
	}
}

func minInt(a, b int) int {
	if a < b {
		return a
	}
	return b
}

// pairKey: the level of the pair (differences are symmetric).
func pairKey(p string) string {
	if p == work.PBox || p == work.PBoxSR {
		return "box"
	}
	return "file"
}

// culpritType extracts the innermost box type named in a decode error
// ("decode moov pos 0: decode trak pos 8: ..."), "?" if none; unregistered
// types are reported as "unknown".
func culpritType(x []byte, err error) string {
	if err == nil {
		return "?"
	}
	s := err.Error()
	t := "?"
	for {
		i := strings.Index(s, "decode ")
		if i < 0 || len(s) < i+11 {
			break
		}
		cand := s[i+7 : i+11]
		if strings.HasPrefix(s[i+11:], " pos ") {
			t = cand
		}
		s = s[i+7:]
	}
	if t == "?" {
		if ns, e := boxwalk.Walk(x); e == nil && len(ns) > 0 {
			t = "top:" + ns[0].Type
		}
	}
	return safe(t)
}

// delivery feeds the io.Reader path through readers that deliver 1 byte /
// 1..7 bytes per Read; the result must equal the whole-buffer result.
// offsetSR decodes x through a slice reader whose buffer holds other bytes in
// front of x which the caller has already consumed: positions are relative to
// where the reader stood when the decoder was called, so the structure must
// equal the one decoded from x alone.
func offsetSR(c *runner.Ctx, p string, x []byte, whole *work.Dec, det detail) {
	if len(x) > 64<<10 || !c.Rand.Chance(1, 3) {
		return
	}
	k := c.Rand.PickInt(1, 3, 8, 13, 4096)
	buf := make([]byte, k+len(x))
	for i := 0; i < k; i++ {
		buf[i] = byte(0xC0 + i%7)
	}
	copy(buf[k:], x)
	var obj interface{}
	var err error
	pi := c.Guard(func() {
		sr := bits.NewFixedSliceReader(buf)
		sr.SkipBytes(k)
		if p == work.PFileSR {
			var f *mp4.File
			f, err = mp4.DecodeFileSR(sr)
			obj = f
		} else {
			var b mp4.Box
			b, err = mp4.DecodeBoxSR(0, sr)
			obj = b
		}
	})
	c.Evals(1)
	c.Count("slice_reader_not_at_zero_compared", 1)
	if pi != nil {
		c.Count("panics_left_to_C04", 1)
		return
	}
	if err != nil {
		c.Violation(fmt.Sprintf("offset-slicereader/%s/rejects/%s", p, culpritType(x, err)),
			fmt.Sprintf("%s accepts the %d bytes from a slice reader at position 0 but rejects them from one standing at position %d of a larger buffer: %v\n%s", p, len(x), k, err, det.Desc), det)
		return
	}
	if diffs := treecmp.Diff(whole.Obj(), obj, treecmp.Options{}); len(diffs) > 0 {
		c.Violation(fmt.Sprintf("offset-slicereader/%s/differ/%s", p, treecmp.KeyPath(diffs)),
			fmt.Sprintf("%s gives a different structure when the slice reader stands at position %d of a larger buffer: %s\n%s", p, k, strings.Join(diffs, "; "), det.Desc), det)
	}
}

func delivery(c *runner.Ctx, p string, x []byte, whole *work.Dec, det detail) {
	if len(x) > 64<<10 && !c.Rand.Chance(1, 8) {
		return
	}
	clobbered(c, p, x, whole, det)
	rng := c.Rand.Fork()
	for _, mode := range []string{"1-byte", "chunks"} {
		if mode == "1-byte" && len(x) > 8<<10 && !c.Rand.Chance(1, 4) {
			continue
		}
		mode := mode
		d := work.DecodeVia(c, p, x, func(r io.Reader) io.Reader {
			if mode == "1-byte" {
				return work.OneByteReader{R: r}
			}
			return work.ChunkReader{R: r, Rng: rng}
		})
		c.Evals(1)
		c.Count("delivery_compared/"+mode, 1)
		if d.Panic != nil {
			c.Count("panics_left_to_C04", 1)
			continue
		}
		if !d.OK {
			c.Violation(fmt.Sprintf("delivery/%s/%s/rejects/%s", p, mode, culpritType(x, d.Err)),
				fmt.Sprintf("%s accepts the %d bytes from a bytes.Reader but rejects them from a %s reader: %v\n%s", p, len(x), mode, d.Err, det.Desc), det)
			continue
		}
		if diffs := treecmp.Diff(whole.Obj(), d.Obj(), treecmp.Options{}); len(diffs) > 0 {
			c.Violation(fmt.Sprintf("delivery/%s/differ/%s", p, treecmp.KeyPath(diffs)),
				fmt.Sprintf("%s gives a different structure when the bytes arrive through a %s reader: %s\n%s", p, mode, strings.Join(diffs, "; "), det.Desc), det)
		}
	}
}

// clobbered decodes through the io.Reader path from a *bytes.Buffer the caller owns and recycles: after
// the decode returned, the buffer's storage is overwritten and the buffer refilled with other bytes.
// The io.Reader decoders copy what they keep, so the structure must still equal the one decoded from
// an untouched source.
func clobbered(c *runner.Ctx, p string, x []byte, whole *work.Dec, det detail) {
	if p != work.PBox && p != work.PFile {
		return
	}
	store := make([]byte, len(x), len(x)+64)
	copy(store, x)
	buf := bytes.NewBuffer(store)
	d := &work.Dec{Path: p}
	d.Panic = c.Guard(func() {
		if p == work.PBox {
			d.Box, d.Err = mp4.DecodeBox(0, buf)
		} else {
			d.File, d.Err = mp4.DecodeFile(buf)
		}
	})
	c.Evals(1)
	c.Count("delivery_compared/bytes.Buffer-recycled", 1)
	if d.Panic != nil {
		c.Count("panics_left_to_C04", 1)
		return
	}
	d.OK = d.Err == nil
	for i := range store[:cap(store)] {
		store[:cap(store)][i] = 0xA5
	}
	buf.Reset()
	for i := 0; i < len(x)+32; i++ {
		buf.WriteByte(byte(0x5A + i))
	}
	if !d.OK {
		c.Violation(fmt.Sprintf("delivery/%s/bytes.Buffer/rejects/%s", p, culpritType(x, d.Err)),
			fmt.Sprintf("%s accepts the %d bytes from a bytes.Reader but rejects them from a bytes.Buffer: %v\n%s", p, len(x), d.Err, det.Desc), det)
		return
	}
	if diffs := treecmp.Diff(whole.Obj(), d.Obj(), treecmp.Options{}); len(diffs) > 0 {
		c.Violation(fmt.Sprintf("delivery/%s/bytes.Buffer-recycled/differ/%s", p, treecmp.KeyPath(diffs)),
			fmt.Sprintf("%s from a *bytes.Buffer: after the caller recycled the buffer the decoded structure differs from the one decoded from an untouched source: %s\n%s", p, strings.Join(diffs, "; "), det.Desc), det)
	}
}
