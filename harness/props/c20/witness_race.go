//go:build race

package c20

import (
	"runtime"
	"unsafe"
)

// witnessRead registers a wide read of b by the calling goroutine with the
// race detector (no data is touched). Byte-wise scanners thrash the detector's
// four shadow slots per 8-byte word, so a library write into a shared buffer
// can go unreported when the only other accesses are byte reads; a range read
// checks every slot of every word at once.
func witnessRead(b []byte) {
	if len(b) > 0 {
		runtime.RaceReadRange(unsafe.Pointer(&b[0]), len(b))
	}
}

// witnessMem is witnessRead for arbitrary memory.
func witnessMem(p unsafe.Pointer, n int) {
	if n > 0 {
		runtime.RaceReadRange(p, n)
	}
}
