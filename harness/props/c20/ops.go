package c20

import (
	"bytes"
	"fmt"
	"io"
	"runtime/debug"
	"strings"
	"unsafe"
	"verifharness/dirtysw"

	"github.com/Eyevinn/mp4ff/avc"
	"github.com/Eyevinn/mp4ff/bits"
	"github.com/Eyevinn/mp4ff/hevc"
	"github.com/Eyevinn/mp4ff/mp4"
	"github.com/Eyevinn/mp4ff/sei"

	"verifharness/runner"
)

// Operation kinds. The order is the index into the in-flight counter array.
const (
	kDecodeR = iota
	kDecodeSR
	kDecodeLazy
	kBoxR
	kBoxSR
	kInfo
	kEncode
	kEncodeSW
	kFullSamples
	kStbl
	kEncrypt
	kDecrypt
	kParamSets
	kSlice
	kSEI
	kAnnexB
	kNalSample
	kSidx
	kFragmentify
	nKinds
)

var kindNames = [nKinds]string{"decodeR", "decodeSR", "decodeLazy", "boxR", "boxSR", "info", "encode", "encodeSW",
	"fullSamples", "stbl", "encrypt", "decrypt", "paramsets", "slice", "sei", "annexb", "nalsample", "sidx", "fragmentify"}

// batch: how many specs of a (cheap) kind make up one in-flight operation, so
// that cheap kinds stay in flight for a comparable time as a file decode.
var kindBatch = [nKinds]int{kBoxR: 12, kBoxSR: 12, kParamSets: 6, kSlice: 4, kSEI: 12, kAnnexB: 3, kNalSample: 6}

var kindClass = [nKinds]string{"file", "file", "file", "box", "box", "file", "file", "file", "file", "file", "file", "file",
	"psets", "sample", "sei", "annexb|sample", "sample", "file", "file"}

var kindVariants = [nKinds]int{kDecodeR: 2, kDecodeLazy: 2, kBoxR: 2, kSEI: 2, kInfo: 5, kEncode: 4, kEncodeSW: 2, kEncrypt: 8, kSidx: 2, kFragmentify: 2, kAnnexB: 1, kParamSets: 2}

var infoLevels = []string{"", "all:1", "trun:1,stsz:1,senc:1,sidx:1", "all:2", "stss:1,ctts:1,stts:1,all:0"}

// res is the observable outcome of one operation.
type res struct {
	h    uint64
	note string // "ok" | "err: ..." | "panic: ..."
}

func (r res) ok() bool { return r.note == "ok" }

// errInapplicable marks (kind,input) combinations that are outside the
// operation's domain (e.g. sample-table queries on a fragmented file).
type inapplicable string

func (e inapplicable) Error() string { return "inapplicable: " + string(e) }

// octx is the private context of one executing goroutine: the capacity mode
// of the current execution, its recycled caller-owned buffers (key, work
// buffer: guarded on both sides) and the findings of the guards.
type octx struct {
	pl *pool
	// roomy: every caller-owned slice handed to the library in this execution
	// is a sub-slice with spare capacity of a guarded buffer; otherwise cap == len.
	roomy bool
	// direct: shared key material is handed to the library as it is (no private copy)
	direct bool
	keybuf [guardLen + 16 + guardLen]byte
	work   [guardLen + workLen + guardLen]byte
	finds  []finding
}

const (
	guardLen = 32
	workLen  = 4096
)

func newOctx(pl *pool) *octx { return &octx{pl: pl} }

// setMode chooses the capacity mode of the next executions from two PRNG bits.
func (x *octx) setMode(bits uint64) {
	x.roomy = bits&1 == 1
	x.direct = bits&6 == 6
}

// guarded prepares a private caller-owned buffer of n bytes inside buf
// (guard | n bytes | guard) and returns the view for the current mode and a
// check to be called after the library had it.
func (x *octx) guarded(buf []byte, n int, what string) (view []byte, check func()) {
	for i := 0; i < guardLen; i++ {
		buf[i] = guardByte(i)
		buf[guardLen+n+i] = guardByte(i + 11)
	}
	if x.roomy {
		view = buf[guardLen : guardLen+n]
	} else {
		view = buf[guardLen : guardLen+n : guardLen+n]
	}
	roomy := x.roomy
	return view, func() {
		for i := 0; i < guardLen; i++ {
			if buf[i] != guardByte(i) || buf[guardLen+n+i] != guardByte(i+11) {
				where := "behind its length (in its spare capacity)"
				if buf[i] != guardByte(i) {
					where = "in front of it"
				}
				x.finds = append(x.finds, finding{
					key:    "guard/" + what,
					what:   fmt.Sprintf("the caller-owned %s (%d bytes, handed to the library with spare capacity: %v) was written outside its length, %s", what, n, roomy, where),
					detail: map[string]interface{}{"buffer": what, "roomy": roomy},
				})
				return
			}
		}
	}
}

// execOp runs one operation, recovering panics. in is the tight operand of
// the pool; in roomy mode its twin is used.
func execOp(x *octx, kind int, in *input, variant int) (r res) {
	defer func() {
		if p := recover(); p != nil {
			st := string(debug.Stack())
			r = res{h: runner.HashStr("panic", fmt.Sprint(p)), note: "panic: " + fmt.Sprint(p) + " @ " + topFrame(st)}
		}
	}()
	if x.roomy && in.twin != nil {
		in = in.twin
	}
	witness(in)
	h, err := opFuncs[kind](x, in, variant)
	witness(in)
	if err != nil {
		if _, na := err.(inapplicable); na {
			return res{note: err.Error()}
		}
		return res{h: runner.HashStr("err", err.Error()), note: "err: " + err.Error()}
	}
	return res{h: h, note: "ok"}
}

// witness registers race-detector reads of every shared buffer the operand
// refers to (before and after the library call).
func witness(in *input) {
	witnessCap(in.data)
	for _, l := range [][][]byte{in.vps, in.sps, in.pps} {
		for _, n := range l {
			witnessCap(n)
		}
		witnessSlots(l)
	}
	witnessCap(in.key)
	if m := in.mat; m != nil {
		witnessCap(m.key)
		witnessCap(m.iv16)
		witnessCap(m.iv8)
		witnessCap(m.kid)
		witnessCap(m.pssh)
	}
}

// witnessCap: the bytes of b and (up to 4 KiB of) its spare capacity.
func witnessCap(b []byte) {
	n := cap(b)
	if n > len(b)+4096 {
		n = len(b) + 4096
	}
	witnessRead(b[:n])
}

// witnessSlots: the spare slots of a caller-owned list of slices.
func witnessSlots(l [][]byte) {
	if cap(l) > len(l) {
		full := l[:cap(l)]
		witnessMem(unsafe.Pointer(&full[len(l)]), (cap(l)-len(l))*int(unsafe.Sizeof(full[0])))
	}
}

func topFrame(stack string) string {
	lines := strings.Split(stack, "\n")
	after := false
	for _, l := range lines {
		if strings.HasPrefix(l, "panic(") {
			after = true
			continue
		}
		if after && strings.HasPrefix(l, "github.com/Eyevinn/mp4ff") {
			if i := strings.LastIndex(l, "("); i > 0 {
				l = l[:i]
			}
			return strings.TrimPrefix(l, "github.com/Eyevinn/mp4ff/")
		}
	}
	return "unknown"
}

type opFunc func(x *octx, in *input, variant int) (uint64, error)

var opFuncs [nKinds]opFunc

func init() {
	opFuncs = [nKinds]opFunc{opDecodeR, opDecodeSR, opDecodeLazy, opBoxR, opBoxSR, opInfo, opEncode, opEncodeSW,
		opFullSamples, opStbl, opEncrypt, opDecrypt, opParamSets, opSlice, opSEI, opAnnexB, opNalSample, opSidx, opFragmentify}
}

func decodeSR(in *input) (*mp4.File, error) {
	return mp4.DecodeFileSR(bits.NewFixedSliceReader(in.data))
}

func decodeR(in *input) (*mp4.File, error) {
	return mp4.DecodeFile(bytes.NewReader(in.data))
}

// plainReader hides every optional interface of the reader it wraps
// (io.ByteReader, io.Seeker, io.WriterTo, ...): what a file or a network
// connection looks like to the library. Short reads included.
type plainReader struct {
	r     io.Reader
	chunk int
}

// plainReadSeeker is a ReadSeeker with nothing but Read and Seek (an *os.File as the library sees it).
type plainReadSeeker struct{ rs io.ReadSeeker }

func (p *plainReadSeeker) Read(b []byte) (int, error)         { return p.rs.Read(b) }
func (p *plainReadSeeker) Seek(o int64, w int) (int64, error) { return p.rs.Seek(o, w) }

func (p *plainReader) Read(b []byte) (int, error) {
	if p.chunk > 0 && len(b) > p.chunk {
		b = b[:p.chunk]
	}
	return p.r.Read(b)
}

// ---- container level -------------------------------------------------------

func opDecodeR(x *octx, in *input, variant int) (uint64, error) {
	var f *mp4.File
	var err error
	if variant == 1 {
		f, err = mp4.DecodeFile(&plainReader{r: bytes.NewReader(in.data), chunk: 4096})
	} else {
		f, err = decodeR(in)
	}
	if err != nil {
		return 0, err
	}
	return mix(deepHash(f), f.Size()), nil
}

func opDecodeSR(x *octx, in *input, _ int) (uint64, error) {
	f, err := decodeSR(in)
	if err != nil {
		return 0, err
	}
	return mix(deepHash(f), f.Size()), nil
}

// plainWriter exposes Write only (no ReadFrom, no WriteByte, no WriteString).
type plainWriter struct{ buf *bytes.Buffer }

func (p plainWriter) Write(b []byte) (int, error) { return p.buf.Write(b) }

func opDecodeLazy(x *octx, in *input, variant int) (uint64, error) {
	rs := bytes.NewReader(in.data)
	f, err := mp4.DecodeFile(rs, mp4.WithDecodeMode(mp4.DecModeLazyMdat))
	if err != nil {
		return 0, err
	}
	h := deepHash(f)
	if !f.IsFragmented() && f.Moov != nil && f.Mdat != nil {
		for _, trak := range f.Moov.Traks {
			n := trak.GetNrSamples()
			if n == 0 {
				continue
			}
			if n > 12 {
				n = 12
			}
			var w bytes.Buffer
			// the caller's work buffer: recycled by this goroutine, guarded on both sides
			ws, wsCheck := x.guarded(x.work[:], workLen, "work-buffer-of-CopySampleData")
			var dst io.Writer = &w
			if variant == 1 {
				dst, ws = plainWriter{&w}, nil
			}
			err := f.CopySampleData(dst, rs, trak, 1, n, ws)
			wsCheck()
			if err != nil {
				return 0, err
			}
			h = mix(h, bytesHash(w.Bytes()))
		}
	}
	if f.IsFragmented() {
		for _, seg := range f.Segments {
			for _, frag := range seg.Fragments {
				if frag.Mdat == nil || !frag.Mdat.IsLazy() {
					continue
				}
				sz := int64(frag.Mdat.GetLazyDataSize())
				if sz > 256 {
					sz = 256
				}
				if sz == 0 {
					continue
				}
				b, err := frag.Mdat.ReadData(int64(frag.Mdat.PayloadAbsoluteOffset()), sz, rs)
				if err != nil {
					return 0, err
				}
				h = mix(h, bytesHash(b))
				// the whole payload through CopyData into a writer with and without ReadFrom
				var cw bytes.Buffer
				var dst io.Writer = &cw
				if variant == 1 {
					dst = plainWriter{&cw}
				}
				if _, err := frag.Mdat.CopyData(int64(frag.Mdat.PayloadAbsoluteOffset()), int64(frag.Mdat.GetLazyDataSize()), rs, dst); err != nil {
					return 0, err
				}
				h = mix(h, bytesHash(cw.Bytes()))
			}
		}
	}
	return h, nil
}

func opBoxR(x *octx, in *input, variant int) (uint64, error) {
	var rd io.Reader = bytes.NewReader(in.data)
	if variant == 1 {
		rd = &plainReader{r: rd, chunk: 7}
	}
	b, err := mp4.DecodeBox(0, rd)
	if err != nil {
		return 0, err
	}
	h := mix(deepHash(b), b.Size(), runner.HashStr(b.Type()))
	var w bytes.Buffer
	if err := b.Encode(&w); err != nil {
		return 0, err
	}
	ih, err := inspectBox(b, false)
	if err != nil {
		return 0, err
	}
	return mix(h, bytesHash(w.Bytes()), ih), nil
}

// inspectBox calls the read-only inspection methods of box types that have
// them (beyond Info/Size/Type); with build it also puts the box through the
// descriptor builders of a fresh init segment.
func inspectBox(b mp4.Box, build bool) (uint64, error) {
	d := newDeepHasher()
	switch t := b.(type) {
	case *mp4.Dac3Box:
		n, cm := t.ChannelInfo()
		d.u64(uint64(n))
		d.u64(uint64(cm))
		d.u64(uint64(t.BitrateBps()))
		d.u64(uint64(t.SamplingFrequency()))
		hashStrs(d, mp4.GetChannelListFromACMod(t.ACMod))
		if build {
			init := mp4.CreateEmptyInit()
			init.AddEmptyTrack(48000, "audio", "und")
			if err := init.Moov.Trak.SetAC3Descriptor(t); err != nil {
				return 0, err
			}
			var w bytes.Buffer
			if err := init.Encode(&w); err != nil {
				return 0, err
			}
			d.bytes(w.Bytes())
		}
	case *mp4.Dec3Box:
		n, cm := t.ChannelInfo()
		d.u64(uint64(n))
		d.u64(uint64(cm))
		for _, es := range t.EC3Subs {
			hashStrs(d, mp4.GetChannelListFromACMod(es.ACMod))
		}
		if build {
			init := mp4.CreateEmptyInit()
			init.AddEmptyTrack(48000, "audio", "und")
			if err := init.Moov.Trak.SetEC3Descriptor(t); err != nil {
				return 0, err
			}
			var w bytes.Buffer
			if err := init.Encode(&w); err != nil {
				return 0, err
			}
			d.bytes(w.Bytes())
		}
	case *mp4.StsdBox:
		for _, c := range t.Children {
			h, err := inspectBox(c, false)
			if err != nil {
				return 0, err
			}
			d.u64(h)
		}
	case *mp4.AudioSampleEntryBox:
		for _, c := range t.Children {
			h, err := inspectBox(c, false)
			if err != nil {
				return 0, err
			}
			d.u64(h)
		}
	}
	return d.h, nil
}

func hashStrs(d *deepHasher, l []string) {
	d.u64(uint64(len(l)))
	for _, s := range l {
		d.str(s)
	}
}

func opBoxSR(x *octx, in *input, _ int) (uint64, error) {
	b, err := mp4.DecodeBoxSR(0, bits.NewFixedSliceReader(in.data))
	if err != nil {
		return 0, err
	}
	h := mix(deepHash(b), b.Size(), runner.HashStr(b.Type()))
	sw := dirtysw.New(int(b.Size()))
	if err := b.EncodeSW(sw); err != nil {
		return 0, err
	}
	h = mix(h, bytesHash(sw.Bytes()))
	var w bytes.Buffer
	if err := b.Info(&w, "all:1", "", "  "); err != nil {
		return 0, err
	}
	ih, err := inspectBox(b, true)
	if err != nil {
		return 0, err
	}
	return mix(h, bytesHash(w.Bytes()), ih), nil
}

func opInfo(x *octx, in *input, variant int) (uint64, error) {
	f, err := decodeSR(in)
	if err != nil {
		return 0, err
	}
	var w bytes.Buffer
	if err := f.Info(&w, infoLevels[variant%len(infoLevels)], "", "  "); err != nil {
		return 0, err
	}
	h := bytesHash(w.Bytes())
	if m := moovOf(f); m != nil {
		for _, trak := range m.Traks {
			if trak.Mdia != nil && trak.Mdia.Minf != nil && trak.Mdia.Minf.Stbl != nil && trak.Mdia.Minf.Stbl.Stsd != nil {
				ih, err := inspectBox(trak.Mdia.Minf.Stbl.Stsd, false)
				if err != nil {
					return 0, err
				}
				h = mix(h, ih)
			}
		}
	}
	return h, nil
}

func opEncode(x *octx, in *input, variant int) (uint64, error) {
	var f *mp4.File
	var err error
	if variant&1 == 0 {
		f, err = decodeSR(in)
	} else {
		f, err = decodeR(in)
	}
	if err != nil {
		return 0, err
	}
	if variant >= 2 {
		if !f.IsFragmented() {
			return 0, inapplicable("encode modes apply to fragmented files")
		}
		if variant == 2 {
			f.FragEncMode = mp4.EncModeBoxTree
		} else {
			f.FragEncMode = mp4.EncModeSegment
			f.EncOptimize = mp4.OptimizeTrun
		}
	}
	largeMdats(f, in)
	var w bytes.Buffer
	if err := f.Encode(&w); err != nil {
		return 0, err
	}
	return mix(bytesHash(w.Bytes()), uint64(w.Len())), nil
}

func opEncodeSW(x *octx, in *input, variant int) (uint64, error) {
	var f *mp4.File
	var err error
	if variant&1 == 0 {
		f, err = decodeSR(in)
	} else {
		f, err = decodeR(in)
	}
	if err != nil {
		return 0, err
	}
	largeMdats(f, in)
	sw := dirtysw.New(int(f.Size()) + 1024)
	if err := f.EncodeSW(sw); err != nil {
		return 0, err
	}
	return mix(bytesHash(sw.Bytes()), uint64(len(sw.Bytes()))), nil
}

// largeMdats asks, for every second input (by length: a property of the input, so the sequential reference
// does the same), for 64-bit headers on the mdat boxes of the goroutine's own decoded file through the public
// LargeSize field, as a file decoded from a 64-bit mdat header would carry it.
func largeMdats(f *mp4.File, in *input) {
	if len(in.data)%2 == 0 {
		return
	}
	if f.Mdat != nil {
		f.Mdat.LargeSize = true
	}
	for _, s := range f.Segments {
		for _, fr := range s.Fragments {
			if fr.Mdat != nil {
				fr.Mdat.LargeSize = true
			}
		}
	}
}

func moovOf(f *mp4.File) *mp4.MoovBox {
	if f.Init != nil && f.Init.Moov != nil {
		return f.Init.Moov
	}
	return f.Moov
}

func hashFullSamples(fss []mp4.FullSample) uint64 {
	d := newDeepHasher()
	d.u64(uint64(len(fss)))
	for _, fs := range fss {
		d.u64(uint64(fs.Flags))
		d.u64(uint64(fs.Dur))
		d.u64(uint64(fs.Size))
		d.u64(uint64(uint32(fs.CompositionTimeOffset)))
		d.u64(fs.DecodeTime)
		d.u64(fs.PresentationTime())
		d.bytes(fs.Data)
	}
	return d.h
}

func opFullSamples(x *octx, in *input, _ int) (uint64, error) {
	f, err := decodeSR(in)
	if err != nil {
		return 0, err
	}
	if !f.IsFragmented() || len(f.Segments) == 0 {
		return 0, inapplicable("not fragmented")
	}
	var trexs []*mp4.TrexBox
	if m := moovOf(f); m != nil && m.Mvex != nil {
		trexs = m.Mvex.Trexs
	}
	trexs = append(trexs, nil)
	h := uint64(0)
	n := 0
	for _, seg := range f.Segments {
		for _, frag := range seg.Fragments {
			if frag.Moof == nil || frag.Mdat == nil || frag.Moof.Traf == nil {
				continue
			}
			for _, trex := range trexs {
				fss, err := frag.GetFullSamples(trex)
				if err != nil {
					return 0, err
				}
				n += len(fss)
				h = mix(h, hashFullSamples(fss))
				if trex != nil && len(fss) > 1 {
					si, err := frag.GetSampleInterval(trex, 1, uint32(len(fss)))
					if err == nil {
						h = mix(h, deepHash(si))
					}
					nr, err := frag.GetSampleNrFromTime(trex, fss[len(fss)/2].DecodeTime)
					if err == nil {
						h = mix(h, uint64(nr))
					}
				}
			}
		}
	}
	if n == 0 {
		return 0, inapplicable("no samples")
	}
	return h, nil
}

func opStbl(x *octx, in *input, _ int) (uint64, error) {
	f, err := decodeSR(in)
	if err != nil {
		return 0, err
	}
	if f.IsFragmented() || f.Moov == nil {
		return 0, inapplicable("not progressive")
	}
	d := newDeepHasher()
	r := runner.NewRand(runner.HashStr("stbl", in.id))
	total := uint32(0)
	for _, trak := range f.Moov.Traks {
		if trak.Mdia == nil || trak.Mdia.Minf == nil || trak.Mdia.Minf.Stbl == nil {
			continue
		}
		stbl := trak.Mdia.Minf.Stbl
		if stbl.Stsz == nil || stbl.Stts == nil || stbl.Stsc == nil {
			continue
		}
		n := trak.GetNrSamples()
		d.u64(uint64(n))
		if n == 0 {
			continue
		}
		total += n
		nrs := []uint32{1, n, (n + 1) / 2}
		for i := 0; i < 40; i++ {
			nrs = append(nrs, uint32(1+r.Intn(int(n))))
		}
		for _, nr := range nrs {
			dt, dur := stbl.Stts.GetDecodeTime(nr)
			d.u64(dt)
			d.u64(uint64(dur))
			d.u64(uint64(stbl.Stts.GetDur(nr)))
			if snr, err := stbl.Stts.GetSampleNrAtTime(dt); err == nil {
				d.u64(uint64(snr))
			}
			if stbl.Ctts != nil {
				d.u64(uint64(uint32(stbl.Ctts.GetCompositionTimeOffset(nr))))
			}
			if stbl.Stss != nil {
				if stbl.Stss.IsSyncSample(nr) {
					d.tag(1)
				} else {
					d.tag(0)
				}
			}
			d.u64(uint64(stbl.Stsz.GetSampleSize(int(nr))))
			ch, first, err := stbl.Stsc.ChunkNrFromSampleNr(int(nr))
			if err == nil {
				d.u64(uint64(ch))
				d.u64(uint64(first))
				d.u64(uint64(stbl.Stsc.GetSampleDescriptionID(ch)))
				if stbl.Stco != nil {
					if off, err := stbl.Stco.GetOffset(ch); err == nil {
						d.u64(off)
					}
				} else if stbl.Co64 != nil {
					if off, err := stbl.Co64.GetOffset(ch); err == nil {
						d.u64(off)
					}
				}
			}
			lo, hi := nr, nr+uint32(r.Intn(8))
			if hi > n {
				hi = n
			}
			if tot, err := stbl.Stsz.GetTotalSampleSize(lo, hi); err == nil {
				d.u64(tot)
			}
			if chs, err := stbl.Stsc.GetContainingChunks(lo, hi); err == nil {
				d.u64(deepHash(chs))
			}
			if rs, err := trak.GetRangesForSampleInterval(lo, hi); err == nil {
				d.u64(deepHash(rs))
			}
		}
		k := n
		if k > 200 {
			k = 200
		}
		if ss, err := trak.GetSampleData(1, k); err == nil {
			d.u64(deepHash(ss))
		}
		if f.Mdat != nil && !f.Mdat.IsLazy() {
			var w bytes.Buffer
			kk := k
			if kk > 10 {
				kk = 10
			}
			if err := f.CopySampleData(&w, nil, trak, 1, kk, nil); err == nil {
				d.bytes(w.Bytes())
			}
		}
	}
	if total == 0 {
		return 0, inapplicable("no samples in sample tables")
	}
	return d.h, nil
}

// ---- encryption ------------------------------------------------------------

// withKey runs f with a copy of key in the goroutine's recycled, guarded key
// buffer; the last byte is varied by variant (so that successive operations
// use different keys) and the buffer is wiped afterwards and refilled with a
// different key by the next operation of this goroutine. A library that keeps
// a reference to the caller's key slice across calls (hidden state) then sees
// it change. In direct mode an unvaried key is handed over as the shared
// buffer view itself.
func withKey(x *octx, key []byte, variant int, f func(k []byte) (uint64, error)) (uint64, error) {
	delta := byte(variant >> 2 & 3)
	if x.direct && delta == 0 && len(key) == 16 {
		return f(key)
	}
	kb, check := x.guarded(x.keybuf[:], 16, "key-buffer")
	copy(kb, key)
	kb[15] ^= delta
	h, err := f(kb)
	check()
	for i := range kb {
		kb[i] = 0xA5 // the caller wipes its key buffer after use
	}
	return h, err
}

// opEncrypt: reader-path decode (copies the input, so the documented in-place
// encryption writes private memory), InitProtect + EncryptFragment, encode;
// then decode the protected output again, DecryptInit + DecryptSegment.
func opEncrypt(x *octx, in *input, variant int) (uint64, error) {
	return withKey(x, in.mat.key, variant, func(k []byte) (uint64, error) { return opEncryptKey(in, variant, k) })
}

func opEncryptKey(in *input, variant int, key []byte) (uint64, error) {
	if in.key != nil {
		return 0, inapplicable("already encrypted")
	}
	var f *mp4.File
	var err error
	if len(in.data) > 1<<20 {
		// a bytes.Buffer over the shared input (read-only use of the slice): another concrete reader type
		f, err = mp4.DecodeFile(bytes.NewBuffer(in.data))
	} else {
		f, err = decodeR(in)
	}
	if err != nil {
		return 0, err
	}
	if f.Init == nil || !f.IsFragmented() || len(f.Segments) == 0 {
		return 0, inapplicable("needs init + media segments")
	}
	if f.Init.Moov == nil || f.Init.Moov.Mvex == nil || f.Init.Moov.Mvex.Trex == nil || len(f.Init.Moov.Traks) != 1 {
		return 0, inapplicable("needs exactly one track with trex")
	}
	for _, seg := range f.Segments {
		for _, frag := range seg.Fragments {
			if frag.Moof == nil || frag.Mdat == nil || len(frag.Moof.Trafs) != 1 || len(frag.Moof.Traf.Truns) != 1 {
				return 0, inapplicable("needs one traf/one trun per fragment")
			}
			if ok, _ := frag.Moof.Traf.ContainsSencBox(); ok {
				return 0, inapplicable("already has senc")
			}
		}
	}
	scheme := "cenc"
	if variant&1 == 1 {
		scheme = "cbcs"
	}
	iv := in.mat.iv16
	if variant&2 == 2 {
		iv = in.mat.iv8
	}
	var psshs []*mp4.PsshBox
	if in.mat.pssh != nil {
		psshs, err = mp4.PsshBoxesFromBytes(in.mat.pssh)
		if err != nil {
			return 0, err
		}
	}
	ipd, err := mp4.InitProtect(f.Init, key, iv, scheme, mp4.UUID(in.mat.kid), psshs)
	if err != nil {
		return 0, err
	}
	for _, seg := range f.Segments {
		for _, frag := range seg.Fragments {
			if err := mp4.EncryptFragment(frag, key, iv, ipd); err != nil {
				return 0, err
			}
		}
	}
	var w bytes.Buffer
	if err := f.Encode(&w); err != nil {
		return 0, err
	}
	h := bytesHash(w.Bytes())
	// and back (private bytes all the way)
	g, err := mp4.DecodeFile(bytes.NewReader(w.Bytes()))
	if err != nil {
		return 0, fmt.Errorf("re-decode of encrypted output: %w", err)
	}
	dh, err := decryptFile(g, key)
	if err != nil {
		return 0, fmt.Errorf("decrypt of encrypted output: %w", err)
	}
	return mix(h, dh), nil
}

func decryptFile(f *mp4.File, key []byte) (uint64, error) {
	if f.Init == nil || f.Init.Moov == nil || f.Init.Moov.Mvex == nil {
		return 0, inapplicable("no init segment")
	}
	di, err := mp4.DecryptInit(f.Init)
	if err != nil {
		return 0, err
	}
	var w bytes.Buffer
	if err := f.Init.Encode(&w); err != nil {
		return 0, err
	}
	for _, seg := range f.Segments {
		if err := mp4.DecryptSegment(seg, di, key); err != nil {
			return 0, err
		}
		if err := seg.Encode(&w); err != nil {
			return 0, err
		}
	}
	return mix(bytesHash(w.Bytes()), uint64(w.Len())), nil
}

func opDecrypt(x *octx, in *input, _ int) (uint64, error) {
	if in.key == nil {
		return 0, inapplicable("no key")
	}
	f, err := decodeR(in) // reader path copies: in-place decryption writes private memory
	if err != nil {
		return 0, err
	}
	if !f.IsFragmented() {
		return 0, inapplicable("not fragmented")
	}
	return withKey(x, in.key, 0, func(k []byte) (uint64, error) { return decryptFile(f, k) })
}

// ---- video elementary stream helpers ----------------------------------------

func avcMaps(in *input) (map[uint32]*avc.SPS, map[uint32]*avc.PPS, error) {
	spsMap := map[uint32]*avc.SPS{}
	ppsMap := map[uint32]*avc.PPS{}
	for _, n := range in.sps {
		s, err := avc.ParseSPSNALUnit(n, true)
		if err != nil {
			return nil, nil, err
		}
		spsMap[uint32(s.ParameterID)] = s
	}
	for _, n := range in.pps {
		p, err := avc.ParsePPSNALUnit(n, spsMap)
		if err != nil {
			return nil, nil, err
		}
		ppsMap[uint32(p.PicParameterSetID)] = p
	}
	return spsMap, ppsMap, nil
}

func hevcMaps(in *input) (map[uint32]*hevc.SPS, map[uint32]*hevc.PPS, error) {
	spsMap := map[uint32]*hevc.SPS{}
	ppsMap := map[uint32]*hevc.PPS{}
	for _, n := range in.sps {
		s, err := hevc.ParseSPSNALUnit(n)
		if err != nil {
			return nil, nil, err
		}
		spsMap[uint32(s.SpsID)] = s
	}
	for _, n := range in.pps {
		p, err := hevc.ParsePPSNALUnit(n, spsMap)
		if err != nil {
			return nil, nil, err
		}
		ppsMap[uint32(p.PicParameterSetID)] = p
	}
	return spsMap, ppsMap, nil
}

func opParamSets(x *octx, in *input, variant int) (uint64, error) {
	d := newDeepHasher()
	if in.codec == "avc" {
		spsMap := map[uint32]*avc.SPS{}
		for _, n := range in.sps {
			s, err := avc.ParseSPSNALUnit(n, variant == 0)
			if err != nil {
				return 0, err
			}
			spsMap[uint32(s.ParameterID)] = s
			d.u64(deepHash(s))
			d.str(avc.CodecString("avc1", s))
			d.u64(uint64(s.Width))
			d.u64(uint64(s.Height))
		}
		for _, n := range in.pps {
			p, err := avc.ParsePPSNALUnit(n, spsMap)
			if err != nil {
				return 0, err
			}
			d.u64(deepHash(p))
		}
		dcr, err := avc.CreateAVCDecConfRec(in.sps, in.pps, true)
		if err != nil {
			return 0, err
		}
		var w bytes.Buffer
		if err := dcr.Encode(&w); err != nil {
			return 0, err
		}
		d.bytes(w.Bytes())
		back, err := avc.DecodeAVCDecConfRec(w.Bytes())
		if err != nil {
			return 0, err
		}
		d.u64(deepHash(back))
		return d.h, nil
	}
	spsMap := map[uint32]*hevc.SPS{}
	for _, n := range in.sps {
		s, err := hevc.ParseSPSNALUnit(n)
		if err != nil {
			return 0, err
		}
		spsMap[uint32(s.SpsID)] = s
		d.u64(deepHash(s))
		d.str(hevc.CodecString("hvc1", s))
		w, h := s.ImageSize()
		d.u64(uint64(w))
		d.u64(uint64(h))
	}
	for _, n := range in.pps {
		p, err := hevc.ParsePPSNALUnit(n, spsMap)
		if err != nil {
			return 0, err
		}
		d.u64(deepHash(p))
	}
	dcr, err := hevc.CreateHEVCDecConfRec(in.vps, in.sps, in.pps, true, true, variant == 0, true)
	if err != nil {
		return 0, err
	}
	var w bytes.Buffer
	if err := dcr.Encode(&w); err != nil {
		return 0, err
	}
	d.bytes(w.Bytes())
	back, err := hevc.DecodeHEVCDecConfRec(w.Bytes())
	if err != nil {
		return 0, err
	}
	d.u64(deepHash(back))
	return d.h, nil
}

func opSlice(x *octx, in *input, _ int) (uint64, error) {
	nalus := splitLP(in.data, in.roomy)
	d := newDeepHasher()
	n := 0
	if in.codec == "avc" {
		spsMap, ppsMap, err := avcMaps(in)
		if err != nil {
			return 0, err
		}
		for _, nalu := range nalus {
			if !isVideoNalu("avc", nalu) {
				continue
			}
			sh, err := avc.ParseSliceHeader(nalu, spsMap, ppsMap)
			if err != nil {
				return 0, err
			}
			d.u64(deepHash(sh))
			st, err := avc.GetSliceTypeFromNALU(nalu)
			if err != nil {
				return 0, err
			}
			d.u64(uint64(st))
			n++
		}
		if rs, err := mp4.GetAVCProtectRanges(spsMap, ppsMap, in.data, "cbcs"); err == nil {
			d.u64(deepHash(rs))
		}
		if rs, err := mp4.GetAVCProtectRanges(spsMap, ppsMap, in.data, "cenc"); err == nil {
			d.u64(deepHash(rs))
		}
	} else {
		spsMap, ppsMap, err := hevcMaps(in)
		if err != nil {
			return 0, err
		}
		for _, nalu := range nalus {
			if !isVideoNalu("hevc", nalu) {
				continue
			}
			sh, err := hevc.ParseSliceHeader(nalu, spsMap, ppsMap)
			if err != nil {
				return 0, err
			}
			d.u64(deepHash(sh))
			n++
		}
		if rs, err := mp4.GetHEVCProtectRanges(spsMap, ppsMap, in.data, "cbcs"); err == nil {
			d.u64(deepHash(rs))
		}
	}
	if n == 0 {
		return 0, inapplicable("no slice NAL unit")
	}
	return d.h, nil
}

func hashSEIMsgs(d *deepHasher, msgs []sei.SEIMessage) error {
	d.u64(uint64(len(msgs)))
	for _, m := range msgs {
		d.u64(uint64(m.Type()))
		d.u64(uint64(m.Size()))
		d.str(m.String())
		d.bytes(m.Payload())
	}
	if len(msgs) > 0 {
		var w bytes.Buffer
		if err := sei.WriteSEIMessages(&w, msgs); err != nil {
			return err
		}
		d.bytes(w.Bytes())
	}
	return nil
}

func opSEI(x *octx, in *input, variant int) (uint64, error) {
	d := newDeepHasher()
	hdr := 1
	if in.codec == "hevc" {
		hdr = 2
	}
	// raw messages
	var rd io.ReadSeeker = bytes.NewReader(in.data[hdr:])
	if variant == 1 {
		// a source without ReadByte, and the bit readers of the bits package over such a source
		rd = &plainReadSeeker{rs: rd}
		br := bits.NewReader(&plainReader{r: bytes.NewReader(in.data)})
		for i := 0; i < 64 && br.AccError() == nil; i++ {
			d.u64(uint64(br.Read(1 + i%13)))
		}
		er := bits.NewEBSPReader(&plainReader{r: bytes.NewReader(in.data[hdr:])})
		for i := 0; i < 48 && er.AccError() == nil; i++ {
			if i%3 == 0 {
				d.u64(uint64(er.ReadExpGolomb()))
			} else {
				d.u64(uint64(er.Read(1 + i%11)))
			}
		}
	}
	sds, err := sei.ExtractSEIData(rd)
	if err != nil && err != sei.ErrRbspTrailingBitsMissing {
		return 0, err
	}
	for i := range sds {
		d.u64(uint64(sds[i].Type()))
		d.bytes(sds[i].Payload())
	}
	if in.codec == "avc" {
		var sps *avc.SPS
		if len(in.sps) > 0 {
			sps, _ = avc.ParseSPSNALUnit(in.sps[0], true)
		}
		for _, s := range []*avc.SPS{nil, sps} {
			msgs, err := avc.ParseSEINalu(in.data, s)
			if err != nil && err != sei.ErrRbspTrailingBitsMissing {
				return 0, err
			}
			if err := hashSEIMsgs(d, msgs); err != nil {
				return 0, err
			}
		}
		return d.h, nil
	}
	var sps *hevc.SPS
	if len(in.sps) > 0 {
		sps, _ = hevc.ParseSPSNALUnit(in.sps[0])
	}
	for _, s := range []*hevc.SPS{nil, sps} {
		msgs, err := hevc.ParseSEINalu(in.data, s)
		if err != nil && err != sei.ErrRbspTrailingBitsMissing {
			return 0, err
		}
		if err := hashSEIMsgs(d, msgs); err != nil {
			return 0, err
		}
	}
	return d.h, nil
}

func hashNalus(d *deepHasher, ns [][]byte) {
	d.u64(uint64(len(ns)))
	for _, n := range ns {
		d.bytes(n)
	}
}

// opAnnexB: framing conversions. Documented in-place conversions
// (ConvertSampleToByteStream; ConvertByteStreamToNaluSample when every start
// code has 4 bytes) run on a private copy; everything else reads the shared
// buffer directly.
func opAnnexB(x *octx, in *input, _ int) (uint64, error) {
	d := newDeepHasher()
	if in.class == "sample" {
		priv := append([]byte(nil), in.data...)
		bs := avc.ConvertSampleToByteStream(priv) // in place on the private copy
		d.bytes(bs)
		hashNalus(d, avc.ExtractNalusFromByteStream(bs))
		if in.codec == "avc" {
			sp, pp := avc.GetParameterSetsFromByteStream(bs)
			hashNalus(d, sp)
			hashNalus(d, pp)
			d.bytes(avc.GetFirstAVCVideoNALUFromByteStream(bs))
		} else {
			v, s, p := hevc.GetParameterSetsFromByteStream(bs)
			hashNalus(d, v)
			hashNalus(d, s)
			hashNalus(d, p)
		}
		back := avc.ConvertByteStreamToNaluSample(bs) // 4-byte start codes: in place on the private copy
		d.bytes(back)
		return d.h, nil
	}
	// Annex B stream (shared)
	hashNalus(d, avc.ExtractNalusFromByteStream(in.data))
	if in.codec == "avc" {
		sp, pp := avc.GetParameterSetsFromByteStream(in.data)
		hashNalus(d, sp)
		hashNalus(d, pp)
		d.bytes(avc.GetFirstAVCVideoNALUFromByteStream(in.data))
		hashNalus(d, avc.ExtractNalusOfTypeFromByteStream(avc.NALU_SEI, in.data, true))
		hashNalus(d, avc.ExtractNalusOfTypeFromByteStream(avc.NALU_IDR, in.data, false))
	} else {
		v, s, p := hevc.GetParameterSetsFromByteStream(in.data)
		hashNalus(d, v)
		hashNalus(d, s)
		hashNalus(d, p)
		hashNalus(d, hevc.ExtractNalusOfTypeFromByteStream(hevc.NALU_SEI_PREFIX, in.data, true))
		hashNalus(d, hevc.ExtractNalusOfTypeFromByteStream(hevc.NALU_IDR_W_RADL, in.data, false))
	}
	src := in.data
	if in.only4byte {
		src = append([]byte(nil), in.data...) // documented in-place branch: private copy
	}
	smp := avc.ConvertByteStreamToNaluSample(src)
	d.bytes(smp)
	if ns, err := avc.GetNalusFromSample(smp); err == nil {
		hashNalus(d, ns)
	}
	return d.h, nil
}

func opNalSample(x *octx, in *input, _ int) (uint64, error) {
	d := newDeepHasher()
	b2u := func(b bool) uint64 {
		if b {
			return 1
		}
		return 0
	}
	if in.codec == "avc" {
		ns, err := avc.GetNalusFromSample(in.data)
		if err != nil {
			return 0, err
		}
		hashNalus(d, ns)
		d.u64(deepHash(avc.FindNaluTypes(in.data)))
		d.u64(deepHash(avc.FindNaluTypesUpToFirstVideoNALU(in.data)))
		d.u64(b2u(avc.IsIDRSample(in.data)))
		d.u64(b2u(avc.ContainsNaluType(in.data, avc.NALU_SEI)))
		d.u64(b2u(avc.HasParameterSets(in.data)))
		sp, pp := avc.GetParameterSets(in.data)
		hashNalus(d, sp)
		hashNalus(d, pp)
		return d.h, nil
	}
	ns, err := avc.GetNalusFromSample(in.data)
	if err != nil {
		return 0, err
	}
	hashNalus(d, ns)
	d.u64(deepHash(hevc.FindNaluTypes(in.data)))
	d.u64(deepHash(hevc.FindNaluTypesUpToFirstVideoNalu(in.data)))
	d.u64(b2u(hevc.IsIDRSample(in.data)))
	d.u64(b2u(hevc.IsRAPSample(in.data)))
	d.u64(b2u(hevc.ContainsNaluType(in.data, hevc.NALU_SEI_PREFIX)))
	d.u64(b2u(hevc.HasParameterSets(in.data)))
	v, s, p := hevc.GetParameterSets(in.data)
	hashNalus(d, v)
	hashNalus(d, s)
	hashNalus(d, p)
	return d.h, nil
}

// ---- segment level -----------------------------------------------------------

func opSidx(x *octx, in *input, variant int) (uint64, error) {
	f, err := decodeSR(in)
	if err != nil {
		return 0, err
	}
	if !f.IsFragmented() || f.Init == nil || len(f.Segments) == 0 {
		return 0, inapplicable("needs init + segments")
	}
	if err := f.UpdateSidx(true, variant == 1); err != nil {
		return 0, err
	}
	var w bytes.Buffer
	if err := f.Encode(&w); err != nil {
		return 0, err
	}
	h := bytesHash(w.Bytes())
	if f.Sidx != nil {
		h = mix(h, deepHash(f.Sidx))
	}
	return h, nil
}

func opFragmentify(x *octx, in *input, variant int) (uint64, error) {
	f, err := decodeSR(in)
	if err != nil {
		return 0, err
	}
	if !f.IsFragmented() || len(f.Segments) == 0 {
		return 0, inapplicable("not fragmented")
	}
	m := moovOf(f)
	if m == nil || m.Mvex == nil || m.Mvex.Trex == nil || len(m.Traks) != 1 || m.Trak.Mdia == nil || m.Trak.Mdia.Mdhd == nil {
		return 0, inapplicable("needs a single-track init")
	}
	ts := uint64(m.Trak.Mdia.Mdhd.Timescale)
	dur := uint32(1)
	if variant == 1 {
		dur = uint32(ts / 2)
	}
	d := newDeepHasher()
	n := 0
	for _, seg := range f.Segments {
		for _, frag := range seg.Fragments {
			if frag.Moof == nil || frag.Mdat == nil || frag.Moof.Traf == nil {
				return 0, inapplicable("incomplete fragment")
			}
		}
		frags, err := seg.Fragmentify(ts, m.Mvex.Trex, dur)
		if err != nil {
			return 0, err
		}
		d.u64(uint64(len(frags)))
		for _, fr := range frags {
			var w bytes.Buffer
			if err := fr.Encode(&w); err != nil {
				return 0, err
			}
			d.bytes(w.Bytes())
			n++
		}
		if cd, err := seg.CommonSampleDuration(m.Mvex.Trex); err == nil {
			d.u64(uint64(cd))
		}
	}
	if n == 0 {
		return 0, inapplicable("no output fragments")
	}
	return d.h, nil
}

var _ = io.EOF
