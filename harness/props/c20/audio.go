package c20

import "fmt"

// Hand-made AC-3 / Enhanced AC-3 configuration boxes and init segments (no
// library call): dac3 over acmod 0..7 x lfeon, dec3 over acmod 0..7 x lfeon x
// dependent-substream channel locations. The channel inspection of these
// boxes (ChannelInfo, Info, Set*Descriptor) works on a table lookup per acmod
// followed by per-box additions (LFE, chan_loc bits), so two goroutines that
// inspect different boxes at the same time would meet in any state kept per
// table entry.

type bitw struct {
	b    []byte
	nbit int
}

func (w *bitw) put(v uint, n int) {
	for i := n - 1; i >= 0; i-- {
		if w.nbit%8 == 0 {
			w.b = append(w.b, 0)
		}
		if v>>uint(i)&1 == 1 {
			w.b[len(w.b)-1] |= 0x80 >> uint(w.nbit%8)
		}
		w.nbit++
	}
}

type ac3Cfg struct {
	ec3                bool
	fscod, bsid, bsmod uint
	acmod, lfeon       uint
	bitRateCode        uint // dac3
	dataRate           uint // dec3
	numDepSub, chanLoc uint // dec3
	extraSub           bool // dec3: a second independent substream
}

func (c ac3Cfg) name() string {
	if !c.ec3 {
		return fmt.Sprintf("dac3-acmod%d-lfe%d", c.acmod, c.lfeon)
	}
	x := ""
	if c.extraSub {
		x = "-2sub"
	}
	return fmt.Sprintf("dec3-acmod%d-lfe%d-dep%d-loc%03x%s", c.acmod, c.lfeon, c.numDepSub, c.chanLoc, x)
}

func (c ac3Cfg) box() []byte {
	w := &bitw{}
	if !c.ec3 {
		w.put(c.fscod, 2)
		w.put(c.bsid, 5)
		w.put(c.bsmod, 3)
		w.put(c.acmod, 3)
		w.put(c.lfeon, 1)
		w.put(c.bitRateCode, 5)
		w.put(0, 5)
		return mkBox("dac3", w.b)
	}
	nsub := uint(1)
	if c.extraSub {
		nsub = 2
	}
	w.put(c.dataRate, 13)
	w.put(nsub-1, 3)
	for i := uint(0); i < nsub; i++ {
		acmod, lfeon, dep, loc := c.acmod, c.lfeon, c.numDepSub, c.chanLoc
		if i == 1 {
			acmod, lfeon, dep, loc = 2, 0, 0, 0
		}
		w.put(c.fscod, 2)
		w.put(c.bsid, 5)
		w.put(0, 1)
		w.put(0, 1) // asvc
		w.put(c.bsmod, 3)
		w.put(acmod, 3)
		w.put(lfeon, 1)
		w.put(0, 3)
		w.put(dep, 4)
		if dep > 0 {
			w.put(loc, 9)
		} else {
			w.put(0, 1)
		}
	}
	return mkBox("dec3", w.b)
}

// channel-location sets of the dependent substreams (9 bits, Table F.6.1)
var chanLocs = []uint{0x001, 0x005, 0x1ff, 0x0a8, 0x100, 0x054, 0x002, 0x003}

func ac3Configs() (out []ac3Cfg) {
	for acmod := uint(0); acmod < 8; acmod++ {
		for lfe := uint(0); lfe < 2; lfe++ {
			out = append(out, ac3Cfg{fscod: acmod % 3, bsid: 8, bsmod: acmod % 5, acmod: acmod, lfeon: lfe, bitRateCode: 6 + acmod + lfe})
		}
	}
	for acmod := uint(0); acmod < 8; acmod++ {
		for lfe := uint(0); lfe < 2; lfe++ {
			base := ac3Cfg{ec3: true, fscod: (acmod + lfe) % 3, bsid: 16, acmod: acmod, lfeon: lfe, dataRate: 192 + 64*acmod}
			out = append(out, base)
			d1 := base
			d1.numDepSub, d1.chanLoc = 1, chanLocs[(acmod+3*lfe)%uint(len(chanLocs))]
			out = append(out, d1)
			d2 := base
			d2.numDepSub, d2.chanLoc = 1+acmod%2, chanLocs[(acmod+3*lfe+4)%uint(len(chanLocs))]
			d2.extraSub = acmod%4 == 2
			out = append(out, d2)
		}
	}
	return out
}

func be16b(v uint16) []byte { return []byte{byte(v >> 8), byte(v)} }

func zeros(n int) []byte { return make([]byte, n) }

var unityMatrix = []byte{0, 1, 0, 0, 0, 0, 0, 0, 0, 0, 0, 0, 0, 0, 0, 0, 0, 1, 0, 0, 0, 0, 0, 0, 0, 0, 0, 0, 0, 0, 0, 0, 0x40, 0, 0, 0}

// audioInit builds ftyp + moov (one audio track per configuration, mvex with
// one trex per track) by hand.
func audioInit(cfgs []ac3Cfg) []byte {
	var traks, trexs [][]byte
	for i, c := range cfgs {
		id := uint32(i + 1)
		rate := []uint32{48000, 44100, 32000}[c.fscod%3]
		fourcc := "ac-3"
		if c.ec3 {
			fourcc = "ec-3"
		}
		nch := uint16(2)
		entry := mkBox(fourcc, zeros(6), be16b(1), zeros(8), be16b(nch), be16b(16), zeros(4), be32b(rate<<16), c.box())
		stbl := mkBox("stbl",
			mkBox("stsd", be32b(0), be32b(1), entry),
			mkBox("stts", be32b(0), be32b(0)),
			mkBox("stsc", be32b(0), be32b(0)),
			mkBox("stsz", be32b(0), be32b(0), be32b(0)),
			mkBox("stco", be32b(0), be32b(0)))
		minf := mkBox("minf",
			mkBox("smhd", be32b(0), be32b(0)),
			mkBox("dinf", mkBox("dref", be32b(0), be32b(1), mkBox("url ", be32b(1)))),
			stbl)
		mdia := mkBox("mdia",
			mkBox("mdhd", be32b(0), be32b(0), be32b(0), be32b(rate), be32b(0), be16b(0x55c4), be16b(0)),
			mkBox("hdlr", be32b(0), be32b(0), []byte("soun"), zeros(12), []byte("mp4ff audio handler\x00")),
			minf)
		tkhd := mkBox("tkhd", be32b(7), be32b(0), be32b(0), be32b(id), be32b(0), be32b(0), zeros(8),
			be16b(0), be16b(1), be16b(0x0100), be16b(0), unityMatrix, be32b(0), be32b(0))
		traks = append(traks, mkBox("trak", tkhd, mdia))
		trexs = append(trexs, mkBox("trex", be32b(0), be32b(id), be32b(1), be32b(0), be32b(0), be32b(0)))
	}
	mvhd := mkBox("mvhd", be32b(0), be32b(0), be32b(0), be32b(48000), be32b(0), be32b(0x00010000), be16b(0x0100),
		zeros(10), unityMatrix, zeros(24), be32b(uint32(len(cfgs)+1)))
	parts := [][]byte{mvhd}
	parts = append(parts, traks...)
	parts = append(parts, mkBox("mvex", trexs...))
	ftyp := mkBox("ftyp", []byte("cmfc"), be32b(0), []byte("iso6"), []byte("cmfc"))
	return append(ftyp, mkBox("moov", parts...)...)
}

// addAudioInputs adds the dac3/dec3 boxes (one shared buffer, every box a
// view into it) and init segments carrying them.
func (p *pool) addAudioInputs() {
	cfgs := ac3Configs()
	var all []byte
	var spans [][2]int
	for _, c := range cfgs {
		b := c.box()
		spans = append(spans, [2]int{len(all), len(all) + len(b)})
		all = append(all, b...)
	}
	s := p.addShared("boxes/ac3-ec3-specific", all)
	for i, c := range cfgs {
		typ := "dac3"
		if c.ec3 {
			typ = "dec3"
		}
		a, b := spans[i][0], spans[i][1]
		p.addInput(&input{id: fmt.Sprintf("%s@crafted#%d", c.name(), a), class: "box", data: s.data[a:b:b], boxType: typ})
	}
	pick := func(f func(c ac3Cfg) bool) (out []ac3Cfg) {
		for _, c := range cfgs {
			if f(c) {
				out = append(out, c)
			}
		}
		return
	}
	inits := []struct {
		name string
		cfgs []ac3Cfg
	}{
		{"init-ac3-all-acmods", pick(func(c ac3Cfg) bool { return !c.ec3 && c.lfeon == 1 })},
		{"init-ac3-all-acmods-nolfe", pick(func(c ac3Cfg) bool { return !c.ec3 && c.lfeon == 0 })},
		{"init-ec3-dependent-substreams-lfe", pick(func(c ac3Cfg) bool { return c.ec3 && c.numDepSub > 0 && c.lfeon == 1 && !c.extraSub })},
		{"init-ec3-dependent-substreams-nolfe", pick(func(c ac3Cfg) bool { return c.ec3 && c.numDepSub > 0 && c.lfeon == 0 })},
		{"init-ac3-5.1", pick(func(c ac3Cfg) bool { return !c.ec3 && c.acmod == 7 && c.lfeon == 1 })},
		{"init-ac3-3.0", pick(func(c ac3Cfg) bool { return !c.ec3 && c.acmod == 3 && c.lfeon == 0 })},
		{"init-ec3-7.1", pick(func(c ac3Cfg) bool { return c.ec3 && c.acmod == 7 && c.lfeon == 1 && c.chanLoc == 0x002 })},
		{"init-ec3-acmod4-dep", pick(func(c ac3Cfg) bool { return c.ec3 && c.acmod == 4 && c.numDepSub > 0 && c.lfeon == 1 && !c.extraSub })},
		{"init-ec3-acmod3-plain", pick(func(c ac3Cfg) bool { return c.ec3 && c.acmod == 3 && c.numDepSub == 0 && c.lfeon == 1 })},
	}
	for _, it := range inits {
		if len(it.cfgs) == 0 {
			continue
		}
		sh := p.addShared("file/"+it.name, audioInit(it.cfgs))
		p.addInput(&input{id: it.name, class: "file", data: sh.data})
	}
}
