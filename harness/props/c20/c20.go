// Package c20 decides property C20 (independent objects can be used from
// concurrent goroutines): G goroutines run PRNG-chosen library operations on a
// pool of shared read-only input buffers in a -race build. Three monitors
// observe: the Go race detector (reports collected from its log files), a
// shadow-result monitor (every result is compared with the result the same
// (operation, input) gave when run alone, sequentially), and a SHA-256 canary
// over every shared buffer including the guard bytes around it (the spare
// capacity of the views handed to the library).
package c20

import (
	"bytes"
	"crypto/sha256"
	"encoding/json"
	"fmt"
	"os"
	"os/exec"
	"path/filepath"
	"runtime"
	"sort"
	"strings"
	"sync"
	"sync/atomic"

	"verifharness/runner"
)

type spec struct {
	kind, input, variant int
	want                 res
}

type finding struct {
	key, what string
	detail    interface{}
}

type config struct{ G, P int }

var quickConfigs = []config{{4, 2}, {16, 8}, {64, 16}}
var thoroughConfigs = []config{{4, 2}, {4, 8}, {4, 16}, {16, 2}, {16, 8}, {16, 16}, {64, 2}, {64, 8}, {64, 16}}

var (
	pl            *pool
	specs         []spec
	byKind        [nKinds][]int
	liveKinds     []int
	setupFindings []finding
	setupStats    = map[string]int64{}
	setupEmitted  bool
	coldDone      bool
)

func configsFor(tier string) []config {
	if tier == "thorough" {
		return thoroughConfigs
	}
	return quickConfigs
}

func numCases(env *runner.Env) int {
	if env.Tier == "thorough" {
		return len(thoroughConfigs) * 3
	}
	return len(quickConfigs)
}

// round geometry per tier: operations per round (split over the goroutines),
// minimum rounds (alternating tracked / blind), cap.
func geometry(tier string) (opsPerRound, minRounds, capRounds int) {
	if tier == "thorough" {
		return 2048, 8, 24
	}
	return 768, 6, 20
}

func init() {
	runner.Register(&runner.Prop{
		ID: "C20",
		Rule: "One case = one (G goroutines, GOMAXPROCS P) configuration (quick: (4,2) (16,8) (64,16); thorough: {4,16,64}x{2,8,16}, each 3 times with different sub-seeds) run in a -race worker process. " +
			"Pool of shared buffers = 33 repo test files (progressive, fragmented, init+segment concatenations, cenc/cbcs/PIFF encrypted, HEVC, subtitles), 3 hand-made senc-probe segments, a 1.2 MiB synthetic audio file, boxes cut from the files by the reference walker (<=3 per type), hand-made dac3 boxes (acmod 0..7 x lfeon) and dec3 boxes (acmod 0..7 x lfeon x {no dependent substream, two chan_loc sets; some with a second independent substream}) as views into one shared buffer, 9 hand-made init segments carrying them (one audio track per configuration: all acmods with / without LFE for AC-3, dependent-substream sets for EC-3, and single-track 3.0 / 5.1 / 7.1 ones), video samples / parameter sets / SEI NAL units re-located inside the shared file buffers, Annex B streams (plus odd-offset views and 4-byte-start-code variants), shared key/iv16/iv8/kid/pssh buffers. " +
			"Every shared buffer lives in an arena [32-byte guard | data | 96-byte guard] (non-zero pattern). Every execution has a capacity mode chosen from the goroutine's PRNG (half of the executions each; reference passes: from a hash of the candidate index, opposite in forward and reverse order; cold round: goroutines 0,2 tight and 1,3 roomy): 'tight' = every caller-owned slice handed to the library has cap == len; 'roomy' = the same bytes as a sub-slice WITH spare capacity: operand data, box / sample / NAL-unit views, parameter-set lists (the [][]byte lists themselves get 3 spare slots holding a sentinel), key, IVs (8-byte IV: len 8, cap 104), KID and pssh bytes keep the following bytes of their arena (rest of the file + tail guard) as capacity; the per-goroutine recycled key buffer and the CopySampleData work buffer are private buffers guarded on both sides and checked after every call (guard/<buffer>). In a quarter of the executions an unvaried shared key is handed to the library directly instead of through the private key buffer. " +
			"Reference results: every (kind, input, variant) is executed alone by three FRESH single-goroutine processes that run the whole list in forward, reverse and permuted order; it becomes a spec if it succeeds; results that differ between the orders are a hidden-state violation. The worker itself calls no library operation before its first concurrent round (cold start: lazy initialisation and caches are met concurrently). " +
			"The first case of every worker process starts with a cold lockstep round: for every spec (PRNG order) 4 goroutines are released together and all execute that same spec once, so each lazily initialised table or cache on a covered path is first met by goroutines that are unordered with respect to each other. " +
			"A case then runs rounds: each round starts G goroutines behind a barrier which each loop over PRNG-chosen operations (kind uniformly, then spec uniformly; cheap kinds in batches) on the shared buffers and compare every result with the reference. " +
			"Even rounds (incl. the first) are 'blind' (no harness synchronisation between goroutines, so the happens-before race detector keeps its full reach), odd rounds are 'tracked' (atomic in-flight counters per kind sampled at operation start give the overlapping kind pairs). After the minimum number of rounds, tracked rounds are added up to the cap until every pair of kinds has overlapped in this case. " +
			"In-place operations (EncryptFragment, Decrypt*, ConvertSampleToByteStream, 4-byte-start-code ConvertByteStreamToNaluSample) only run on reader-path decodes or private copies; everything else runs on SliceReader decodes of / directly on the shared buffers. Box operations additionally call the inspection methods of the decoded box (dac3/dec3: ChannelInfo, BitrateBps, SamplingFrequency, GetChannelListFromACMod; boxSR also Set{AC3,EC3}Descriptor on a fresh init segment + encode), info also on the sample descriptions of every track. Before and after every operation the goroutine registers a range read of its operand buffers INCLUDING up to 4 KiB of their spare capacity, of the spare list slots and of the shared crypto material with the race detector (witness read). SHA-256 canary over the WHOLE arena of every shared buffer (all bytes up to the capacity of any view; a change only outside the data is keyed canary-cap/<buffer>) and over the sentinel slots after every round and after every reference pass. " +
			"evaluations = compared operation results; distinct_nontrivial = tracked rounds in which at least one pair of operations overlapped and results were compared. Race reports are read from the GORACE log files of all workers; a deliberate harness race in every worker's setup proves the reporting channel.",
		Assumptions: []string{
			"schedules are those the Go scheduler produced under the listed (G, GOMAXPROCS) settings on this machine; the race detector's bounded shadow history can miss a pair separated by many other accesses",
			"'read-only sharing' excludes the documented in-place operations on structures aliasing a shared buffer (DESIGN.md C20): those run on copies",
			"SetBoxDecoder/RemoveBoxDecoder are never called",
			"the reference results come from fresh single-goroutine processes of the same binary (same pool, same operation code), executed in three different orders and with different capacity modes per candidate",
			"a caller-owned slice is read-only for the library up to its CAPACITY (writing behind len into the caller's array is a write to the shared input), except for the documented work buffer of CopySampleData, which may be written up to its length",
			"the capacity of a slice never influences a result: the same reference result is demanded in tight and roomy mode",
		},
		ParentInit: func(env *runner.Env) error {
			return os.Setenv("GORACE", "halt_on_error=0 exitcode=0 log_path="+filepath.Join(env.Scratch, "race"))
		},
		Setup:      setup,
		NumCases:   numCases,
		Run:        run,
		Finalize:   finalize,
		Shards:     3,
		ChildProcs: 16,
		CaseCPUSec: 20000,
		MemLimitMB: -1,
	})
}

// ---------------------------------------------------------------------------
// setup: pool, specs, sequential reference results

var selfTestVar int

//go:noinline
func selfTestWrite(v int) { selfTestVar = v }

// selfTestRace performs a deliberate unsynchronised write/write pair in
// harness code so that every worker's race log provably works; Finalize
// filters it out by its frame name and refuses to claim silence without it.
func selfTestRace() {
	var wg sync.WaitGroup
	for i := 0; i < 2; i++ {
		wg.Add(1)
		go func(i int) {
			defer wg.Done()
			selfTestWrite(i)
		}(i)
	}
	wg.Wait()
}

func classMatch(kind int, cls string) bool {
	for _, c := range strings.Split(kindClass[kind], "|") {
		if c == cls {
			return true
		}
	}
	return false
}

// candidates lists every (kind, input, variant) in a fixed order that is the
// same in every process (pool loading is deterministic).
func candidates() []spec {
	var cand []spec
	for k := 0; k < nKinds; k++ {
		nv := kindVariants[k]
		if nv == 0 {
			nv = 1
		}
		for i, in := range pl.inputs {
			if !classMatch(k, in.class) {
				continue
			}
			for v := 0; v < nv; v++ {
				cand = append(cand, spec{kind: k, input: i, variant: v})
			}
		}
	}
	return cand
}

func candDigest(cand []spec) string {
	var parts []string
	for i := range cand {
		parts = append(parts, descOf(&cand[i]))
	}
	return fmt.Sprintf("%d:%016x", len(cand), runner.HashStr(parts...))
}

// refOutput is what a fresh sequential reference process prints.
type refOutput struct {
	Digest  string                    `json:"digest"`
	Order   string                    `json:"order"`
	H       []uint64                  `json:"h"`
	Note    []string                  `json:"note"`
	Canary  []string                  `json:"canary"` // findings "key\x00what"
	Harvest map[string][]trackHarvest `json:"harvest"`
	Elapsed string                    `json:"elapsed,omitempty"`
}

func orderOf(name string, n int) []int {
	idx := make([]int, n)
	for i := range idx {
		idx[i] = i
	}
	switch name {
	case "reverse":
		for i, j := 0, n-1; i < j; i, j = i+1, j-1 {
			idx[i], idx[j] = idx[j], idx[i]
		}
	case "permuted":
		idx = runner.NewRand(0xC20).Perm(n)
	}
	return idx
}

// RefMain is the entry point of a fresh, single-goroutine reference process
// (cmd/c20 --c20-ref <forward|reverse|permuted>): it runs every candidate
// operation alone, in the given order, and prints the results as JSON.
func RefMain(args []string) {
	order := "forward"
	if len(args) > 0 {
		order = args[0]
	}
	env := &runner.Env{RepoDir: os.Getenv("VERIF_REPO")}
	if env.RepoDir == "" {
		env.RepoDir = "/repo"
	}
	var err error
	pl, err = loadPool(env, nil)
	if err != nil {
		fmt.Fprintln(os.Stderr, "c20-ref:", err)
		os.Exit(4)
	}
	cand := candidates()
	out := refOutput{Digest: candDigest(cand), Order: order, H: make([]uint64, len(cand)), Note: make([]string, len(cand)), Harvest: pl.harvest}
	x := newOctx(pl)
	for _, i := range orderOf(order, len(cand)) {
		s := &cand[i]
		x.setMode(refMode(order, i))
		r := execOp(x, s.kind, pl.inputs[s.input], s.variant)
		out.H[i], out.Note[i] = r.h, r.note
	}
	for _, f := range append(x.finds, canaryCheck("a sequential single-goroutine pass ("+order+" order)")...) {
		out.Canary = append(out.Canary, f.key+"\x00"+f.what)
	}
	b, _ := json.Marshal(out)
	os.Stdout.Write(b)
}

func runRef(order string) (*refOutput, error) {
	exe, err := os.Executable()
	if err != nil {
		return nil, err
	}
	cmd := exec.Command(exe, "--c20-ref", order)
	var stdout, stderr bytes.Buffer
	cmd.Stdout, cmd.Stderr = &stdout, &stderr
	if err := cmd.Run(); err != nil {
		msg := stderr.String()
		if len(msg) > 1500 {
			msg = msg[:1500]
		}
		return nil, fmt.Errorf("reference process (%s order): %v: %s", order, err, msg)
	}
	var out refOutput
	if err := json.Unmarshal(stdout.Bytes(), &out); err != nil {
		return nil, fmt.Errorf("reference process (%s order): bad output: %v", order, err)
	}
	return &out, nil
}

var refOrders = []string{"forward", "reverse", "permuted"}

// refMode is the capacity mode of candidate i in a reference pass: every
// candidate runs tight in one of forward/reverse and roomy in the other, so
// the comparison of the passes also compares the two modes.
func refMode(order string, i int) uint64 {
	h := runner.HashStr("c20-mode", fmt.Sprint(i))
	switch order {
	case "reverse":
		return h ^ 1
	case "permuted":
		return h >> 7
	}
	return h
}

// setup loads the pool and obtains the reference result of every
// (kind, input, variant) from three FRESH single-goroutine processes that run
// the whole list in forward, reverse and permuted order. The worker itself
// executes no library operation before its first concurrent round, so that
// round meets the library in its cold state (lazy initialisation, empty
// caches): a sequential warm-up in the same process would hide exactly the
// first-use races and would make a sticky cache look deterministic.
func setup(env *runner.Env) error {
	// only when the parent redirected the race log (not in --replay children,
	// where a race report would turn into exit code 66 by itself)
	if env.Race && strings.Contains(os.Getenv("GORACE"), "log_path=") {
		selfTestRace()
	}
	refs := make([]*refOutput, len(refOrders))
	errs := make([]error, len(refOrders))
	var wg sync.WaitGroup
	for i, o := range refOrders {
		wg.Add(1)
		go func(i int, o string) {
			defer wg.Done()
			refs[i], errs[i] = runRef(o)
		}(i, o)
	}
	wg.Wait()
	if errs[0] != nil {
		return errs[0]
	}
	// the pool is built from the harvest of the forward reference process:
	// pure harness code, no library call in this process
	if refs[0].Harvest == nil {
		return fmt.Errorf("reference process delivered no harvest")
	}
	var err error
	pl, err = loadPool(env, refs[0].Harvest)
	if err != nil {
		return err
	}
	cand := candidates()
	digest := candDigest(cand)
	for i, e := range errs {
		if e != nil {
			return e
		}
		if refs[i].Digest != digest || len(refs[i].H) != len(cand) {
			return fmt.Errorf("reference process (%s) built a different candidate list (%s vs %s)", refOrders[i], refs[i].Digest, digest)
		}
		for _, cf := range refs[i].Canary {
			kv := strings.SplitN(cf, "\x00", 2)
			if len(kv) == 2 {
				setupFindings = append(setupFindings, finding{key: kv[0], what: kv[1]})
			}
		}
	}
	unstable := 0
	for i := range cand {
		s := &cand[i]
		s.want = res{refs[0].H[i], refs[0].Note[i]}
		switch {
		case s.want.ok():
			setupStats["spec_ok"]++
		case strings.HasPrefix(s.want.note, "inapplicable"):
			setupStats["spec_inapplicable"]++
		case strings.HasPrefix(s.want.note, "panic"):
			setupStats["spec_panics_sequentially"]++
		default:
			setupStats["spec_error_sequentially"]++
		}
		stable := true
		for j := 1; j < len(refs); j++ {
			got := res{refs[j].H[i], refs[j].Note[i]}
			if got != s.want {
				if stable {
					setupFindings = append(setupFindings, finding{
						key: "hidden-state/" + kindNames[s.kind],
						what: fmt.Sprintf("%s, run single-goroutine in a fresh process, gave %016x (%s) when the operations were executed in forward order and %016x (%s) in %s order: the result depends on which calls were made before (hidden mutable state) or on the spare capacity of the caller's slices (the passes differ in that, too)",
							descOf(s), s.want.h, s.want.note, got.h, got.note, refOrders[j]),
						detail: map[string]interface{}{"kind": kindNames[s.kind], "input": pl.inputs[s.input].id, "variant": s.variant, "order": refOrders[j]},
					})
				}
				stable = false
			}
		}
		if !stable {
			unstable++
			continue
		}
		if s.want.ok() {
			byKind[s.kind] = append(byKind[s.kind], len(specs))
			specs = append(specs, *s)
		}
	}
	setupStats["spec_order_dependent"] = int64(unstable)
	for k := 0; k < nKinds; k++ {
		if len(byKind[k]) > 0 {
			liveKinds = append(liveKinds, k)
		}
	}
	if len(specs) < 50 || len(liveKinds) < 8 {
		if len(setupFindings) > 0 {
			// so much is order dependent that no workload is left: still report it
			return nil
		}
		return fmt.Errorf("only %d usable (operation,input) pairs over %d kinds", len(specs), len(liveKinds))
	}
	if os.Getenv("C20_DUMP") != "" {
		for k := 0; k < nKinds; k++ {
			fmt.Fprintf(os.Stderr, "kind %-12s specs=%d\n", kindNames[k], len(byKind[k]))
		}
		for i := range cand {
			if !cand[i].want.ok() {
				fmt.Fprintf(os.Stderr, "  skip %s: %s\n", descOf(&cand[i]), cand[i].want.note)
			}
		}
		fmt.Fprintf(os.Stderr, "inputs=%d bufs=%d stats=%v\n", len(pl.inputs), len(pl.bufs), setupStats)
	}
	return nil
}

func descOf(s *spec) string {
	return fmt.Sprintf("%s(%s, variant %d)", kindNames[s.kind], pl.inputs[s.input].id, s.variant)
}

// canaryCheck compares every shared arena (head guard, data, tail guard: all
// bytes up to the capacity of any view handed to the library) with its
// pristine digest, and the spare slots of the caller-owned lists with their
// sentinel; what changed is reported and restored.
func canaryCheck(when string) []finding {
	var out []finding
	for _, s := range pl.bufs {
		if sha256.Sum256(s.arena) == s.sum {
			continue
		}
		first, n, inside := -1, 0, 0
		for i := range s.arena {
			if s.arena[i] != s.pristine[i] {
				if first < 0 {
					first = i
				}
				n++
				if i >= s.off && i < s.off+s.n {
					inside++
				}
			}
		}
		cls := s.name
		if i := strings.Index(cls, "/"); i > 0 {
			cls = cls[:i]
		}
		key := "canary/" + s.name
		what := fmt.Sprintf("shared read-only buffer %s (%d bytes) was modified during %s: %d bytes differ, first at offset %d", s.name, s.n, when, n, first-s.off)
		if inside == 0 {
			// nothing inside the buffer: the bytes in front of / behind it (the spare
			// capacity of the slice the library was given) were written
			key = "canary-cap/" + s.name
			what = fmt.Sprintf("the memory around shared read-only buffer %s (%d bytes) was modified during %s: %d bytes differ, first at offset %d relative to the buffer start (offsets >= %d are the spare capacity behind the slice's length)", s.name, s.n, when, n, first-s.off, s.n)
		}
		out = append(out, finding{
			key:    key,
			what:   what,
			detail: map[string]interface{}{"buffer": s.name, "class": cls, "when": when, "bytes_changed": n, "bytes_changed_inside_len": inside, "first_offset": first - s.off, "len": s.n},
		})
		copy(s.arena, s.pristine)
	}
	for _, l := range pl.lists {
		bad := 0
		for i := l.n; i < len(l.full); i++ {
			if len(l.full[i]) != len(pl.sentinel) || &l.full[i][0] != &pl.sentinel[0] {
				bad++
				l.full[i] = pl.sentinel
			}
		}
		if bad > 0 {
			out = append(out, finding{
				key:    "canary-cap/list",
				what:   fmt.Sprintf("the caller-owned list of NAL units %q (%d elements) was extended in place during %s: %d spare slots behind its length were overwritten", l.name, l.n, when, bad),
				detail: map[string]interface{}{"list": l.name, "when": when, "slots": bad},
			})
		}
	}
	return out
}

// ---------------------------------------------------------------------------
// one concurrent round

type mismatch struct {
	spec  int
	got   res
	gor   int
	round int
}

type gres struct {
	ops, evals int64
	kindOps    [nKinds]int64
	pairs      [nKinds][nKinds]int64
	samples    int64 // in-flight samples that saw at least one other operation
	mism       []mismatch
	nMism      int64
	finds      []finding
	roomyOps   int64
	directOps  int64
}

type tracker struct{ inflight [nKinds]int32 }

func (t *tracker) enter(kind int, g *gres) {
	any := false
	for k := 0; k < nKinds; k++ {
		if atomic.LoadInt32(&t.inflight[k]) > 0 {
			a, b := kind, k
			if b < a {
				a, b = b, a
			}
			g.pairs[a][b]++
			any = true
		}
	}
	if any {
		g.samples++
	}
	atomic.AddInt32(&t.inflight[kind], 1)
}

func (t *tracker) leave(kind int) { atomic.AddInt32(&t.inflight[kind], -1) }

func worker(r *runner.Rand, g *gres, gor, round, nOps int, tr *tracker) {
	x := newOctx(pl)
	defer func() { g.finds = append(g.finds, x.finds...) }()
	for i := 0; i < nOps; i++ {
		kind := liveKinds[r.Intn(len(liveKinds))]
		b := kindBatch[kind]
		if b == 0 {
			b = 1
		}
		if tr != nil {
			tr.enter(kind, g)
		}
		for j := 0; j < b; j++ {
			si := byKind[kind][r.Intn(len(byKind[kind]))]
			s := &specs[si]
			x.setMode(r.Uint64() >> 13)
			if x.roomy {
				g.roomyOps++
			}
			if x.direct {
				g.directOps++
			}
			got := execOp(x, s.kind, pl.inputs[s.input], s.variant)
			g.evals++
			if got != s.want {
				g.nMism++
				if len(g.mism) < 8 {
					g.mism = append(g.mism, mismatch{si, got, gor, round})
				}
			}
		}
		if tr != nil {
			tr.leave(kind)
		}
		g.ops++
		g.kindOps[kind]++
		if r.Chance(1, 8) {
			runtime.Gosched()
		}
	}
}

func runRound(cfg config, r *runner.Rand, round, opsPerRound int, tracked bool) []*gres {
	per := opsPerRound / cfg.G
	if per < 2 {
		per = 2
	}
	var tr *tracker
	if tracked {
		tr = &tracker{}
	}
	start := make(chan struct{})
	var wg sync.WaitGroup
	out := make([]*gres, cfg.G)
	for g := 0; g < cfg.G; g++ {
		gr := r.Fork()
		out[g] = &gres{}
		wg.Add(1)
		go func(g int, gr *runner.Rand) {
			defer wg.Done()
			<-start
			worker(gr, out[g], g, round, per, tr)
		}(g, gr)
	}
	close(start)
	wg.Wait()
	return out
}

// runLockstep is the cold-start round of a worker process: for every spec (in
// PRNG order) K goroutines are released together and all execute that same
// spec once. Nothing of the library has run in this process before, so every
// lazily initialised table / cache on a covered code path is met for the
// first time by K goroutines that are unordered with respect to each other
// (the only synchronisation is the start/finish of each phase).
func runLockstep(r *runner.Rand, K int) *gres {
	total := &gres{}
	order := r.Perm(len(specs))
	out := make([]*gres, K)
	xs := make([]*octx, K)
	for i := range out {
		out[i] = &gres{}
		xs[i] = newOctx(pl)
	}
	for phase, si := range order {
		s := &specs[si]
		start := make(chan struct{})
		var wg sync.WaitGroup
		for g := 0; g < K; g++ {
			wg.Add(1)
			go func(g int) {
				defer wg.Done()
				<-start
				// goroutines 0,2 tight, 1,3 roomy; 3 hands shared keys over directly
				mode := uint64(g & 1)
				if g == 3 {
					mode |= 6
				}
				xs[g].setMode(mode)
				got := execOp(xs[g], s.kind, pl.inputs[s.input], s.variant)
				gr := out[g]
				if xs[g].roomy {
					gr.roomyOps++
				}
				gr.evals++
				gr.ops++
				gr.kindOps[s.kind]++
				if got != s.want {
					gr.nMism++
					if len(gr.mism) < 8 {
						gr.mism = append(gr.mism, mismatch{si, got, g, -1 - phase})
					}
				}
			}(g)
		}
		close(start)
		wg.Wait()
	}
	for i, g := range out {
		total.evals += g.evals
		total.ops += g.ops
		total.nMism += g.nMism
		total.roomyOps += g.roomyOps
		total.finds = append(total.finds, xs[i].finds...)
		total.mism = append(total.mism, g.mism...)
		for k := 0; k < nKinds; k++ {
			total.kindOps[k] += g.kindOps[k]
		}
	}
	return total
}

func run(c *runner.Ctx, idx int) {
	if !setupEmitted {
		setupEmitted = true
		for _, f := range setupFindings {
			c.Violation(f.key, f.what, f.detail)
		}
		for k, v := range setupStats {
			c.Seen("setup:"+k, fmt.Sprint(v))
		}
		for k := 0; k < nKinds; k++ {
			c.Seen("specs_per_kind", fmt.Sprintf("%s=%d", kindNames[k], len(byKind[k])))
		}
		c.Seen("pool", fmt.Sprintf("buffers=%d,inputs=%d,specs=%d,guarded_lists=%d", len(pl.bufs), len(pl.inputs), len(specs), len(pl.lists)))
		nb := map[string]int{}
		for _, in := range pl.inputs {
			if in.class == "box" {
				nb[in.boxType]++
			}
		}
		c.Seen("pool_boxes", fmt.Sprintf("dac3=%d,dec3=%d,types=%d", nb["dac3"], nb["dec3"], len(nb)))
	}
	if len(liveKinds) == 0 {
		c.Inconclusive("no-order-independent-operation-left")
		return
	}
	cfgs := configsFor(c.Env.Tier)
	// (idx + repetition) so that in the thorough tier every shard (idx % 3) meets all nine configurations
	cfg := cfgs[(idx+idx/len(cfgs))%len(cfgs)]
	opsPerRound, minRounds, capRounds := geometry(c.Env.Tier)
	if !c.Env.Race {
		c.Inconclusive("binary-not-built-with-race")
	}
	old := runtime.GOMAXPROCS(cfg.P)
	defer runtime.GOMAXPROCS(old)
	cfgName := fmt.Sprintf("G=%d,P=%d", cfg.G, cfg.P)
	c.Seen("config", cfgName)
	for _, k := range liveKinds {
		c.Seen("kind_ops", kindNames[k])
	}
	for _, f := range canaryCheck("the time before the first round of case " + cfgName) {
		c.Violation(f.key, f.what, f.detail)
	}

	var seen [nKinds][nKinds]bool
	missing := func() int {
		n := 0
		for _, a := range liveKinds {
			for _, b := range liveKinds {
				if a <= b && !seen[a][b] {
					n++
				}
			}
		}
		return n
	}
	var totalEvals, totalOps, totalMism int64
	report := func(m mismatch, how string, tracked bool) {
		s := &specs[m.spec]
		cls := "value"
		switch {
		case strings.HasPrefix(m.got.note, "panic"):
			cls = "panic"
		case !m.got.ok():
			cls = "error"
		}
		c.Violation("mismatch/"+kindNames[s.kind]+"/"+cls,
			fmt.Sprintf("%s gave %016x (%s) in goroutine %d (%s, GOMAXPROCS %d, round %d) but %016x (%s) when run alone",
				descOf(s), m.got.h, m.got.note, m.gor, how, cfg.P, m.round, s.want.h, s.want.note),
			map[string]interface{}{"kind": kindNames[s.kind], "input": pl.inputs[s.input].id, "variant": s.variant,
				"got": fmt.Sprintf("%016x", m.got.h), "got_note": m.got.note, "want": fmt.Sprintf("%016x", s.want.h),
				"G": cfg.G, "P": cfg.P, "round": m.round, "tracked": tracked, "how": how})
	}
	if !coldDone {
		coldDone = true
		g := runLockstep(c.Rand, 4)
		totalEvals += g.evals
		totalOps += g.ops
		totalMism += g.nMism
		for _, m := range g.mism {
			report(m, "cold lockstep round: 4 goroutines released together on the same spec", false)
		}
		for _, f := range g.finds {
			c.Violation(f.key, f.what+" (cold lockstep round)", f.detail)
		}
		c.Count("executions_with_spare_capacity_slices", g.roomyOps)
		for k := 0; k < nKinds; k++ {
			if g.kindOps[k] > 0 {
				c.Count("ops:"+kindNames[k], g.kindOps[k])
			}
		}
		c.Count("cold_lockstep_phases", int64(len(specs)))
		c.Count("cold_lockstep_results_compared", g.evals)
		for _, f := range canaryCheck("the cold lockstep round of case " + cfgName) {
			c.Violation(f.key, f.what, f.detail)
		}
	}
	rounds := 0
	for round := 0; round < capRounds; round++ {
		tracked := round%2 == 1
		if round >= minRounds {
			if missing() == 0 {
				break
			}
			tracked = true
		}
		rounds++
		gs := runRound(cfg, c.Rand, round, opsPerRound, tracked)
		var pairs [nKinds][nKinds]int64
		var samples, evals int64
		for _, g := range gs {
			evals += g.evals
			totalOps += g.ops
			samples += g.samples
			totalMism += g.nMism
			for k := 0; k < nKinds; k++ {
				if g.kindOps[k] > 0 {
					c.Count("ops:"+kindNames[k], g.kindOps[k])
				}
				for k2 := k; k2 < nKinds; k2++ {
					pairs[k][k2] += g.pairs[k][k2]
				}
			}
			for _, m := range g.mism {
				report(m, fmt.Sprintf("one of %d goroutines", cfg.G), tracked)
			}
			for _, f := range g.finds {
				c.Violation(f.key, fmt.Sprintf("%s (goroutine of round %d, %s)", f.what, round, cfgName), f.detail)
			}
			c.Count("executions_with_spare_capacity_slices", g.roomyOps)
			c.Count("executions_with_shared_key_handed_over_directly", g.directOps)
		}
		totalEvals += evals
		if tracked {
			c.Count("rounds_tracked", 1)
			var events int64
			for a := 0; a < nKinds; a++ {
				for b := a; b < nKinds; b++ {
					if pairs[a][b] > 0 {
						seen[a][b] = true
						events += pairs[a][b]
						c.Seen("overlap", kindNames[a]+"|"+kindNames[b])
					}
				}
			}
			c.Count("overlap_events", events)
			c.Count("op_starts_with_other_op_in_flight", samples)
			if samples > 0 && evals > 0 {
				c.Nontrivial(runner.HashStr("C20-round", fmt.Sprint(c.Env.Seed), c.Env.Tier, fmt.Sprint(idx), fmt.Sprint(round)))
			}
		} else {
			c.Count("rounds_blind", 1)
		}
		for _, f := range canaryCheck(fmt.Sprintf("round %d of case %s", round, cfgName)) {
			c.Violation(f.key, f.what, f.detail)
		}
	}
	c.Evals(totalEvals)
	c.Count("operations", totalOps)
	c.Count("results_compared", totalEvals)
	c.Count("result_mismatches", totalMism)
	c.Seen("pairs_missing_in_case", fmt.Sprintf("%s:%d", cfgName, missing()))
	c.Seen("rounds_in_case", fmt.Sprintf("%s:%d", cfgName, rounds))
	if c.WantSample() {
		ex := []string{}
		for _, k := range liveKinds {
			ex = append(ex, descOf(&specs[byKind[k][int(c.Rand.Uint64()%uint64(len(byKind[k])))]]))
		}
		c.Sample(map[string]interface{}{"case": idx, "goroutines": cfg.G, "gomaxprocs": cfg.P, "rounds": rounds,
			"operations": totalOps, "results_compared": totalEvals, "kind_pairs_still_missing": missing(),
			"specs": len(specs), "example_specs": ex})
	}
}

// ---------------------------------------------------------------------------
// parent side: race logs, coverage notes

func finalize(a *runner.Agg) {
	if !a.Env.Race {
		a.Nothing = "the C20 binary was not built with -race: race freedom cannot be observed (shadow-result and canary monitors did run)"
	}
	reports, files := readRaceLogs(a.Env.Scratch)
	selfTest := 0
	type group struct {
		n      int
		stacks map[string]bool
		inner  map[string]int
		first  *raceReport
	}
	byKey := map[string]*group{}
	outerPairs := map[string]int{}
	innerPairs := map[string]int{}
	total := 0
	for _, r := range reports {
		if strings.Contains(r.text, "c20.selfTestWrite") {
			selfTest++
			continue
		}
		total++
		outerPairs[r.outerPair()]++
		innerPairs[r.innerPair()]++
		// finding key: the pair of outermost mp4ff frames (the two API entry
		// points that raced); the innermost frames and the distinct stack pairs
		// (line numbers stripped) are listed in the text.
		key := "race/" + r.outerPair()
		g := byKey[key]
		if g == nil {
			g = &group{stacks: map[string]bool{}, inner: map[string]int{}, first: r}
			byKey[key] = g
		}
		g.n++
		g.stacks[r.stackSig()] = true
		g.inner[r.innerPair()]++
	}
	keys := make([]string, 0, len(byKey))
	for k := range byKey {
		keys = append(keys, k)
	}
	sort.Strings(keys)
	distinctStacks := 0
	for _, k := range keys {
		g := byKey[k]
		distinctStacks += len(g.stacks)
		var inner []string
		for ip := range g.inner {
			inner = append(inner, ip)
		}
		sort.Strings(inner)
		if len(inner) > 8 {
			inner = append(inner[:8], fmt.Sprintf("... (%d more)", len(inner)-8))
		}
		text := g.first.text
		if len(text) > 1500 {
			text = text[:1500] + "..."
		}
		a.Viol = append(a.Viol, runner.Violation{Property: "C20", Key: k,
			What: fmt.Sprintf("the race detector reported %d data race(s) between these two mp4ff entry points (%d distinct stack pairs; innermost mp4ff frames: %s); first report:\n%s",
				g.n, len(g.stacks), strings.Join(inner, ", "), text),
			Tier: a.Env.Tier, Seed: a.Env.Seed})
		a.Counters["violations_raw"] += int64(g.n)
	}
	a.Extra["race_enabled"] = a.Env.Race
	a.Extra["race_log_files"] = files
	a.Extra["race_reports"] = total
	a.Extra["race_reports_by_outermost_frame_pair"] = outerPairs
	a.Extra["race_reports_by_innermost_frame_pair"] = innerPairs
	a.Extra["race_distinct_keys"] = len(keys)
	a.Extra["race_distinct_stack_pairs"] = distinctStacks
	a.Extra["race_selftest_reports_seen"] = selfTest
	if a.Env.Race && selfTest == 0 && a.Nothing == "" {
		a.Nothing = "the deliberate self-test race of the worker setup did not appear in any race log: the race reporting channel is not working, silence would mean nothing"
	}

	// overlap coverage
	var kinds []string
	for k := range a.Seen["kind_ops"] {
		kinds = append(kinds, k)
	}
	sort.Strings(kinds)
	ov := a.Seen["overlap"]
	var miss []string
	npairs := 0
	for i, x := range kinds {
		for _, y := range kinds[i:] {
			npairs++
			if ov[pairName(x, y)] == 0 {
				miss = append(miss, pairName(x, y))
			}
		}
	}
	a.Extra["kind_pairs_total"] = npairs
	a.Extra["kind_pairs_overlapped"] = npairs - len(miss)
	if len(miss) > 0 {
		show := miss
		if len(show) > 40 {
			show = show[:40]
		}
		a.Note("%d of %d operation-kind pairs never overlapped in a tracked round: %s", len(miss), npairs, strings.Join(show, " "))
	}
	for i, n := range kindNames {
		_ = i
		if _, ok := a.Seen["kind_ops"][n]; !ok && len(a.Seen["kind_ops"]) > 0 {
			a.Note("operation kind %s had no applicable input on this tree", n)
		}
	}
	if len(ov) == 0 && a.Nothing == "" {
		a.Nothing = "no two operations were ever observed in flight at the same time"
	}
}

// pairName orders by kind index (as the workers do), not alphabetically.
func pairName(x, y string) string {
	ix, iy := -1, -1
	for i, n := range kindNames {
		if n == x {
			ix = i
		}
		if n == y {
			iy = i
		}
	}
	if iy < ix {
		x, y = y, x
	}
	return x + "|" + y
}
