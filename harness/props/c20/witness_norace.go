//go:build !race

package c20

import "unsafe"

func witnessRead(b []byte) {}

func witnessMem(p unsafe.Pointer, n int) {}
