//go:build !race

package c20

func witnessRead(b []byte) {}
