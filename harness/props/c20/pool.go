package c20

import (
	"bytes"
	"crypto/sha256"
	"encoding/binary"
	"encoding/hex"
	"fmt"
	"os"
	"path/filepath"
	"sort"
	"unsafe"

	"github.com/Eyevinn/mp4ff/mp4"

	"verifharness/ref/boxwalk"
	"verifharness/runner"
)

// shared is one buffer of the pool that all goroutines read concurrently.
// It lives in an arena  [ head guard | data | tail guard ]  (len == cap): data
// is the capacity-limited ("tight") view the library sees in one share of the
// executions, the "roomy" view of the same bytes has the rest of the arena as
// spare capacity (what  buf[a:b]  of a larger caller buffer, or the result of
// hex.DecodeString / bytes.Buffer.Bytes, looks like). pristine is a private
// copy of the WHOLE arena that is never handed to the library (canary
// reference and restore source): the canary covers every byte up to cap.
type shared struct {
	name     string
	arena    []byte
	off, n   int
	data     []byte // arena[off : off+n : off+n]
	pristine []byte // copy of arena
	sum      [32]byte
}

const (
	headGuard = 32
	tailGuard = 96
)

// guardByte is the (never zero) pattern of guard areas.
func guardByte(i int) byte { return 0xC5 ^ byte(i*7&0x3f) }

// orig is the pristine copy of the data part.
func (s *shared) orig() []byte { return s.pristine[s.off : s.off+s.n : s.off+s.n] }

// roomyAll is the data with the tail guard as spare capacity.
func (s *shared) roomyAll() []byte { return s.arena[s.off : s.off+s.n] }

// input is one operand: a view into a shared buffer plus read-only context.
type input struct {
	id    string
	class string // file | box | sample | annexb | psets | sei
	data  []byte // aliases a shared buffer

	codec     string   // avc | hevc (sample, annexb, psets, sei)
	key       []byte   // decryption key (shared, read-only) for encrypted files
	vps       [][]byte // parameter-set NAL units (alias shared buffers)
	sps       [][]byte
	pps       [][]byte
	only4byte bool // annexb: every start code is 4 bytes (=> conversion is in place)
	boxType   string

	// roomy: every slice of this operand has spare capacity (the following
	// bytes of its shared arena); twin is the same operand in the other mode.
	roomy bool
	twin  *input
	mat   *material // shared crypto material in the same mode
}

// material is the shared read-only crypto material in one capacity mode.
type material struct{ key, iv16, iv8, kid, pssh []byte }

// guardedList is the outer slice of a roomy [][]byte operand: it has spare
// capacity whose slots hold a sentinel; a library append to the caller's
// list would overwrite a slot.
type guardedList struct {
	name string
	full [][]byte // len == cap; [n:] are sentinel slots
	n    int
}

type pool struct {
	bufs   []*shared
	byName map[string]*shared
	inputs []*input
	byCls  map[string][]int
	// shared read-only crypto material
	key, iv16, iv8, kid, pssh *shared
	harvest                   map[string][]trackHarvest
	mats                      [2]*material // [0] tight, [1] roomy
	lists                     []*guardedList
	sentinel                  []byte
}

// fileList: relative to the repository root. A "+" joins an init segment and
// a media segment into one shared buffer.
var fileList = []string{
	"mp4/testdata/prog_8s.mp4",
	"mp4/testdata/bbb_prog_10s.mp4",
	"mp4/testdata/init_prog.mp4",
	"mp4/testdata/init.mp4+mp4/testdata/1.m4s",
	"mp4/testdata/1.m4s",
	"mp4/testdata/aac_init.mp4+mp4/testdata/aac_1.m4s",
	"mp4/testdata/hvc1_init.mp4+mp4/testdata/hvc1_seg_1.m4s",
	"mp4/testdata/golden_init_video.mp4+mp4/testdata/golden_1_frag.m4s",
	"mp4/testdata/2xSencNoMdat.mp4",
	"mp4/testdata/bbb5s_aac.isma",
	"mp4/testdata/bbb5s_aac_sidx.mp4",
	"mp4/testdata/cbcs.mp4",
	"mp4/testdata/cbcsdec.mp4",
	"mp4/testdata/cbcs_audio.mp4",
	"mp4/testdata/cbcs_audiodec.mp4",
	"mp4/testdata/ed_hevc.mp4",
	"mp4/testdata/init1.cmfv",
	"mp4/testdata/init_cenc.cmfv",
	"mp4/testdata/moof_enc.m4s",
	"mp4/testdata/multi_sidx_segment.m4s",
	"mp4/testdata/prog_8s_dec_dashinit.mp4",
	"mp4/testdata/prog_8s_enc_dashinit.mp4",
	"cmd/mp4ff-decrypt/testdata/PIFF/audio/init.mp4+cmd/mp4ff-decrypt/testdata/PIFF/audio/segment-1.0001.m4s",
	"cmd/mp4ff-decrypt/testdata/PIFF/video/complseg-1.0001.mp4",
	"cmd/mp4ff-nallister/testdata/h264.mp4",
	"cmd/mp4ff-nallister/testdata/hevc.mp4",
	"cmd/mp4ff-subslister/testdata/multi_vttc.mp4",
	"cmd/mp4ff-subslister/testdata/sample_short.ismt",
	"cmd/mp4ff-subslister/testdata/stpp_combined.mp4",
	"cmd/mp4ff-subslister/testdata/stpp_prog.mp4",
	"examples/add-sidx/testdata/clear_with_enc_boxes.mp4",
	"examples/multitrack/testdata/main_1.mp4",
	"examples/resegmenter/testdata/testV300.mp4",
}

var annexbList = []struct{ path, codec string }{
	{"avc/testdata/blackframe.264", "avc"},
	{"avc/testdata/two-frames.264", "avc"},
	{"cmd/mp4ff-nallister/testdata/4pics.264", "avc"},
	{"hevc/testdata/blackframe.265", "hevc"},
	{"cmd/mp4ff-nallister/testdata/hevc.265", "hevc"},
}

// keys of the encrypted test files (from cmd/mp4ff-decrypt/main_test.go)
var fileKeys = map[string]string{
	"mp4/testdata/prog_8s_enc_dashinit.mp4": "63cb5f7184dd4b689a5c5ff11ee6a328",
	"mp4/testdata/cbcs.mp4":                 "22bdb0063805260307ee5045c0f3835a",
	"mp4/testdata/cbcs_audio.mp4":           "5ffd93861fa776e96cccd934898fc1c8",
	"cmd/mp4ff-decrypt/testdata/PIFF/audio/init.mp4+cmd/mp4ff-decrypt/testdata/PIFF/audio/segment-1.0001.m4s": "602a9289bfb9b1995b75ac63f123fc86",
	"cmd/mp4ff-decrypt/testdata/PIFF/video/complseg-1.0001.mp4":                                               "602a9289bfb9b1995b75ac63f123fc86",
}

func (p *pool) addShared(name string, data []byte) *shared {
	n := len(data)
	arena := make([]byte, headGuard+n+tailGuard)
	for i := 0; i < headGuard; i++ {
		arena[i] = guardByte(i)
	}
	copy(arena[headGuard:], data)
	for i := headGuard + n; i < len(arena); i++ {
		arena[i] = guardByte(i - n)
	}
	arena = arena[:len(arena):len(arena)]
	s := &shared{name: name, arena: arena, off: headGuard, n: n, data: arena[headGuard : headGuard+n : headGuard+n]}
	s.pristine = append([]byte(nil), arena...)
	s.sum = sha256.Sum256(s.pristine)
	p.bufs = append(p.bufs, s)
	p.byName[name] = s
	return s
}

func (p *pool) addInput(in *input) {
	p.byCls[in.class] = append(p.byCls[in.class], len(p.inputs))
	p.inputs = append(p.inputs, in)
}

// locate returns the sub-slice of a shared buffer holding exactly the bytes
// of needle (found in a private copy), so harvested operands alias the shared
// buffers without the library having touched them during setup.
func locate(s *shared, needle []byte, from int) ([]byte, int) {
	if len(needle) == 0 || from > len(s.data) {
		return nil, -1
	}
	i := bytes.Index(s.orig()[from:], needle)
	if i < 0 {
		return nil, -1
	}
	i += from
	return s.data[i : i+len(needle) : i+len(needle)], i
}

func shortName(rel string) string {
	out := ""
	for i, part := range bytes.Split([]byte(rel), []byte("+")) {
		if i > 0 {
			out += "+"
		}
		out += filepath.Base(string(part))
	}
	return out
}

// splitLengthPrefixed cuts a 4-byte-length-prefixed sample into NAL units
// (harness-side, independent of the library).
func splitLengthPrefixed(sample []byte) [][]byte { return splitLP(sample, false) }

// splitLP: with roomy the NAL unit views keep the rest of the sample (and of
// its arena) as spare capacity.
func splitLP(sample []byte, roomy bool) [][]byte {
	var out [][]byte
	pos := 0
	for pos+4 <= len(sample) {
		n := int(binary.BigEndian.Uint32(sample[pos:]))
		pos += 4
		if n < 0 || pos+n > len(sample) {
			return nil
		}
		if roomy {
			out = append(out, sample[pos:pos+n])
		} else {
			out = append(out, sample[pos:pos+n:pos+n])
		}
		pos += n
	}
	return out
}

// scanAnnexB is the harness-side byte-wise start-code scanner: returns the
// NAL units (without trailing zero bytes) and whether every start code has 4 bytes.
func scanAnnexB(b []byte) (nalus [][]byte, only4 bool) {
	only4 = true
	start := -1
	for i := 0; i+3 <= len(b); i++ {
		if b[i] == 0 && b[i+1] == 0 && b[i+2] == 1 {
			if start >= 0 {
				end := i
				for end > start && b[end-1] == 0 {
					end--
				}
				nalus = append(nalus, b[start:end:end])
			}
			if i == 0 || b[i-1] != 0 {
				only4 = false
			}
			start = i + 3
			i += 2
		}
	}
	if start >= 0 && start <= len(b) {
		nalus = append(nalus, b[start:len(b):len(b)])
	}
	if len(nalus) == 0 {
		only4 = false
	}
	return
}

// trackHarvest describes what the library-assisted harvest found for one
// video track of one file: offsets (into the file's shared buffer) of the
// parameter sets and of a few samples. It is produced only by the fresh
// reference processes; the workers receive it as data, so that a worker has
// not executed a single library call before its first concurrent round.
type trackHarvest struct {
	Codec     string   `json:"codec"`
	Encrypted bool     `json:"enc,omitempty"`
	VPS       [][2]int `json:"vps,omitempty"`
	SPS       [][2]int `json:"sps,omitempty"`
	PPS       [][2]int `json:"pps,omitempty"`
	Samples   [][2]int `json:"samples,omitempty"`
}

// loadPool builds the pool. harvest == nil: harvest with the library
// (reference processes); otherwise use the given harvest (workers).
func loadPool(env *runner.Env, harvest map[string][]trackHarvest) (*pool, error) {
	p := &pool{byName: map[string]*shared{}, byCls: map[string][]int{}, harvest: map[string][]trackHarvest{}}
	read := func(rel string) ([]byte, error) {
		var out []byte
		for _, part := range bytes.Split([]byte(rel), []byte("+")) {
			b, err := os.ReadFile(filepath.Join(env.RepoDir, string(part)))
			if err != nil {
				return nil, err
			}
			out = append(out, b...)
		}
		return out, nil
	}
	// crypto material shared by every encrypting goroutine
	mk := func(name, hx string) *shared {
		b, _ := hex.DecodeString(hx)
		return p.addShared(name, b)
	}
	p.key = mk("crypto/key", "00112233445566778899aabbccddeeff")
	p.iv16 = mk("crypto/iv16", "0f1e2d3c4b5a69788796a5b4c3d2e1f0")
	p.iv8 = mk("crypto/iv8", "0123456789abcdef")
	p.kid = mk("crypto/kid", "11112222333344445555666677778888")
	if b, err := os.ReadFile(filepath.Join(env.RepoDir, "mp4/testdata/pssh.bin")); err == nil {
		p.pssh = p.addShared("crypto/pssh.bin", b)
	}

	// crafted media segments without an init segment whose senc boxes have to be
	// probed for their per-sample IV size: one parses with IV size 0 and with 8
	// (ambiguous), one only with 8, one only with 16. A probe that remembers
	// anything between calls makes the ambiguous one depend on what ran before.
	for _, cs := range craftedSencSegments() {
		s := p.addShared("file/"+cs.name, cs.data)
		p.addInput(&input{id: cs.name, class: "file", data: s.data})
	}

	// a fragmented single-track audio file with one sample of 1.2 MiB, built through the library: the only
	// input whose mdat is larger than 1 MiB (size-dependent fast paths of the decoders)
	if big := bigAudioFile(); big != nil {
		s := p.addShared("file/synthetic-big-audio", big)
		p.addInput(&input{id: "synthetic-big-audio", class: "file", data: s.data})
	}

	seenSample := map[[32]byte]bool{}
	seenSEI := map[[32]byte]bool{}
	seenPS := map[[32]byte]bool{}
	boxCount := map[string]int{}
	nFiles := 0
	for _, rel := range fileList {
		data, err := read(rel)
		if err != nil {
			continue // a file that disappeared from the tree is a smaller pool, not an error
		}
		nFiles++
		name := shortName(rel)
		s := p.addShared("file/"+name, data)
		in := &input{id: name, class: "file", data: s.data}
		if k, ok := fileKeys[rel]; ok {
			kb, _ := hex.DecodeString(k)
			ks := p.addShared("key/"+name, kb)
			in.key = ks.data
		}
		p.addInput(in)

		// boxes cut out with the reference walker: up to 3 instances per type
		if nodes, err := boxwalk.Walk(s.orig()); err == nil {
			all := boxwalk.All(nodes)
			for _, n := range all {
				if n.Size > 64<<10 || n.Size < 8 {
					continue
				}
				if boxCount[n.Type] >= 3 {
					continue
				}
				boxCount[n.Type]++
				p.addInput(&input{id: fmt.Sprintf("%s@%s#%d", n.Path(), name, n.Start), class: "box",
					data: s.data[n.Start:n.End():n.End()], boxType: n.Type})
			}
		}
		var th []trackHarvest
		if harvest != nil {
			th = harvest[name]
		} else {
			th = libHarvest(s)
		}
		p.harvest[name] = th
		p.applyHarvest(s, name, th, seenSample, seenSEI, seenPS)
	}
	if nFiles < 10 {
		return nil, fmt.Errorf("only %d test files found under %s", nFiles, env.RepoDir)
	}
	for _, a := range annexbList {
		b, err := os.ReadFile(filepath.Join(env.RepoDir, a.path))
		if err != nil {
			continue
		}
		name := filepath.Base(a.path)
		s := p.addShared("annexb/"+name, b)
		nalus, only4 := scanAnnexB(s.data)
		in := &input{id: name, class: "annexb", data: s.data, codec: a.codec, only4byte: only4}
		p.classifyPS(in, a.codec, nalus)
		p.addInput(in)
		// an odd-offset view of the same stream (unaligned word loads in the scanner)
		if len(b) > 64 {
			nal2, only42 := scanAnnexB(s.data[1:])
			in2 := &input{id: name + "[1:]", class: "annexb", data: s.data[1:len(s.data):len(s.data)], codec: a.codec, only4byte: only42}
			p.classifyPS(in2, a.codec, nal2)
			p.addInput(in2)
		}
		if len(in.sps) > 0 {
			h := sha256.Sum256(bytes.Join(append(append(append([][]byte{}, in.vps...), in.sps...), in.pps...), []byte{0xff}))
			if !seenPS[h] {
				seenPS[h] = true
				p.addInput(&input{id: "ps@" + name, class: "psets", codec: a.codec, vps: in.vps, sps: in.sps, pps: in.pps})
			}
		}
		nSEI := 0
		for _, n := range nalus {
			if isSEI(a.codec, n) && nSEI < 4 {
				h := sha256.Sum256(n)
				if !seenSEI[h] {
					seenSEI[h] = true
					nSEI++
					p.addInput(&input{id: fmt.Sprintf("sei%d@%s", nSEI, name), class: "sei", data: n, codec: a.codec, sps: in.sps})
				}
			}
		}
		// a 4-byte-start-code variant built by the harness (in-place branch)
		if !only4 && len(nalus) > 0 && len(b) < 32<<10 {
			var four []byte
			for _, n := range nalus {
				four = append(four, 0, 0, 0, 1)
				four = append(four, n...)
			}
			s4 := p.addShared("annexb/4sc-"+name, four)
			p.addInput(&input{id: "4sc-" + name, class: "annexb", data: s4.data, codec: a.codec, only4byte: true,
				vps: in.vps, sps: in.sps, pps: in.pps})
		}
	}
	p.addAudioInputs()
	sort.SliceStable(p.bufs, func(a, b int) bool { return p.bufs[a].name < p.bufs[b].name })
	if err := p.makeTwins(); err != nil {
		return nil, err
	}
	return p, nil
}

func isSEI(codec string, n []byte) bool {
	if len(n) < 3 {
		return false
	}
	if codec == "avc" {
		return n[0]&0x1f == 6
	}
	t := (n[0] >> 1) & 0x3f
	return t == 39 || t == 40
}

func isVideoNalu(codec string, n []byte) bool {
	if len(n) < 3 {
		return false
	}
	if codec == "avc" {
		t := n[0] & 0x1f
		return t >= 1 && t <= 5
	}
	return (n[0]>>1)&0x3f < 32
}

func (p *pool) classifyPS(in *input, codec string, nalus [][]byte) {
	for _, n := range nalus {
		if len(n) < 2 {
			continue
		}
		if codec == "avc" {
			switch n[0] & 0x1f {
			case 7:
				in.sps = append(in.sps, n)
			case 8:
				in.pps = append(in.pps, n)
			}
		} else {
			switch (n[0] >> 1) & 0x3f {
			case 32:
				in.vps = append(in.vps, n)
			case 33:
				in.sps = append(in.sps, n)
			case 34:
				in.pps = append(in.pps, n)
			}
		}
	}
}

// libHarvest decodes a PRIVATE copy of the file (reader path, so nothing
// aliases the shared buffer), takes parameter sets from avcC/hvcC and a few
// video samples per track, and re-locates those byte strings inside the
// shared buffer (offsets only).
func libHarvest(s *shared) (out []trackHarvest) {
	defer func() { _ = recover() }()
	cp := append([]byte(nil), s.orig()...)
	f, err := mp4.DecodeFile(bytes.NewReader(cp))
	if err != nil || f == nil {
		return nil
	}
	var moov *mp4.MoovBox
	if f.Init != nil {
		moov = f.Init.Moov
	} else {
		moov = f.Moov
	}
	if moov == nil {
		return nil
	}
	for _, trak := range moov.Traks {
		if trak.Mdia == nil || trak.Mdia.Minf == nil || trak.Mdia.Minf.Stbl == nil || trak.Mdia.Minf.Stbl.Stsd == nil {
			continue
		}
		stsd := trak.Mdia.Minf.Stbl.Stsd
		th := trackHarvest{}
		var vps, sps, pps [][]byte
		switch {
		case stsd.AvcX != nil && stsd.AvcX.AvcC != nil:
			th.Codec = "avc"
			sps, pps = stsd.AvcX.AvcC.SPSnalus, stsd.AvcX.AvcC.PPSnalus
		case stsd.HvcX != nil && stsd.HvcX.HvcC != nil:
			th.Codec = "hevc"
			for _, na := range stsd.HvcX.HvcC.NaluArrays {
				switch int(na.NaluType()) {
				case 32:
					vps = append(vps, na.Nalus...)
				case 33:
					sps = append(sps, na.Nalus...)
				case 34:
					pps = append(pps, na.Nalus...)
				}
			}
		case stsd.Encv != nil && stsd.Encv.AvcC != nil:
			th.Codec = "avc"
			th.Encrypted = true
			sps, pps = stsd.Encv.AvcC.SPSnalus, stsd.Encv.AvcC.PPSnalus
		default:
			continue
		}
		loc := func(ns [][]byte) [][2]int {
			var o [][2]int
			for _, n := range ns {
				if v, off := locate(s, n, 0); v != nil {
					o = append(o, [2]int{off, len(n)})
				}
			}
			return o
		}
		th.VPS, th.SPS, th.PPS = loc(vps), loc(sps), loc(pps)
		if !th.Encrypted {
			var samples [][]byte
			if f.IsFragmented() {
				for _, seg := range f.Segments {
					for _, frag := range seg.Fragments {
						if frag.Moof == nil || frag.Mdat == nil || len(samples) >= 6 {
							continue
						}
						var trex *mp4.TrexBox
						if moov.Mvex != nil {
							trex, _ = moov.Mvex.GetTrex(trak.Tkhd.TrackID)
						}
						fss, err := frag.GetFullSamples(trex)
						if err != nil {
							continue
						}
						for i, fs := range fss {
							if i < 3 || i == len(fss)-1 {
								samples = append(samples, fs.Data)
							}
						}
					}
				}
			} else if f.Mdat != nil {
				n := trak.GetNrSamples()
				if n > 4 {
					n = 4
				}
				for nr := uint32(1); nr <= n; nr++ {
					rs, err := trak.GetRangesForSampleInterval(nr, nr)
					if err != nil || len(rs) != 1 {
						continue
					}
					off := int64(rs[0].Offset) - int64(f.Mdat.PayloadAbsoluteOffset())
					if off < 0 || off+int64(rs[0].Size) > int64(len(f.Mdat.Data)) {
						continue
					}
					samples = append(samples, f.Mdat.Data[off:off+int64(rs[0].Size)])
				}
			}
			for _, smp := range samples {
				if len(smp) < 8 || len(smp) > 48<<10 {
					continue
				}
				if v, off := locate(s, smp, 0); v != nil {
					th.Samples = append(th.Samples, [2]int{off, len(smp)})
				}
			}
		}
		out = append(out, th)
	}
	return out
}

// applyHarvest turns harvested offsets into operands (pure harness code).
func (p *pool) applyHarvest(s *shared, name string, ths []trackHarvest, seenSample, seenSEI, seenPS map[[32]byte]bool) {
	view := func(r [2]int) []byte {
		if r[0] < 0 || r[1] <= 0 || r[0]+r[1] > len(s.data) {
			return nil
		}
		return s.data[r[0] : r[0]+r[1] : r[0]+r[1]]
	}
	views := func(rs [][2]int) [][]byte {
		var o [][]byte
		for _, r := range rs {
			if v := view(r); v != nil {
				o = append(o, v)
			}
		}
		return o
	}
	for _, th := range ths {
		vps, sps, pps := views(th.VPS), views(th.SPS), views(th.PPS)
		codec := th.Codec
		if len(sps) > 0 {
			h := sha256.Sum256(bytes.Join(append(append(append([][]byte{}, vps...), sps...), pps...), []byte{0xff}))
			if !seenPS[h] {
				seenPS[h] = true
				p.addInput(&input{id: "ps@" + name, class: "psets", codec: codec, vps: vps, sps: sps, pps: pps})
			}
		}
		nS := 0
		for _, r := range th.Samples {
			v := view(r)
			if v == nil || nS >= 5 {
				continue
			}
			h := sha256.Sum256(v)
			if seenSample[h] || splitLengthPrefixed(v) == nil {
				continue
			}
			seenSample[h] = true
			nS++
			p.addInput(&input{id: fmt.Sprintf("sample@%s#%d", name, r[0]), class: "sample", data: v, codec: codec,
				vps: vps, sps: sps, pps: pps})
			nSEI := 0
			for _, n := range splitLengthPrefixed(v) {
				if isSEI(codec, n) && nSEI < 2 {
					hh := sha256.Sum256(n)
					if !seenSEI[hh] {
						seenSEI[hh] = true
						nSEI++
						p.addInput(&input{id: fmt.Sprintf("sei@%s#%d.%d", name, r[0], nSEI), class: "sei", data: n, codec: codec, sps: sps})
					}
				}
			}
		}
	}
}

type craftedSeg struct {
	name string
	data []byte
}

func be32b(v uint32) []byte { return []byte{byte(v >> 24), byte(v >> 16), byte(v >> 8), byte(v)} }

func mkBox(typ string, payload ...[]byte) []byte {
	n := 8
	for _, p := range payload {
		n += len(p)
	}
	out := append(be32b(uint32(n)), typ...)
	for _, p := range payload {
		out = append(out, p...)
	}
	return out
}

// craftedSencSegments builds styp+moof+mdat segments by hand (no library
// call): one track, n samples of 2000 bytes, a senc box with the sub-sample
// flag as last child of the traf.
func craftedSencSegments() []craftedSeg {
	e := []byte{0x00, 0x01, 0x00, 0x10, 0x00, 0x00, 0x07, 0xc0} // count=1, entry(16, 1984)
	x := append(append(append(append(append(append([]byte{}, e...), e...),
		0x00, 0x05, 0x00, 0x10, 0x00, 0x00, 0x00, 0x10), e...),
		0x00, 0x10, 0x00, 0x00, 0x00, 0x10, 0x00, 0x10), e...)
	y := append([]byte{0xa0, 0xa1, 0xa2, 0xa3, 0xa4, 0xa5, 0xa6, 0xa7}, e...)
	z := append([]byte{0xb0, 0xb1, 0xb2, 0xb3, 0xb4, 0xb5, 0xb6, 0xb7, 0xb8, 0xb9, 0xba, 0xbb, 0xbc, 0xbd, 0xbe, 0xbf}, e...)
	seg := func(n int, perSample []byte) []byte {
		senc := mkBox("senc", be32b(2), be32b(uint32(n)), perSample)
		mfhd := mkBox("mfhd", be32b(0), be32b(1))
		tfhd := mkBox("tfhd", be32b(0x020000), be32b(1))
		tfdt := mkBox("tfdt", be32b(0), be32b(0))
		trunLen := 8 + 4 + 4 + 4 + 8*n
		moofLen := 8 + len(mfhd) + 8 + len(tfhd) + len(tfdt) + trunLen + len(senc)
		var entries []byte
		for i := 0; i < n; i++ {
			entries = append(entries, be32b(1024)...)
			entries = append(entries, be32b(2000)...)
		}
		trun := mkBox("trun", be32b(0x000301), be32b(uint32(n)), be32b(uint32(moofLen+8)), entries)
		moof := mkBox("moof", mfhd, mkBox("traf", tfhd, tfdt, trun, senc))
		payload := make([]byte, 0, 2000*n)
		for i := 0; i < n; i++ {
			for j := 0; j < 2000; j++ {
				payload = append(payload, byte(i+1))
			}
		}
		styp := mkBox("styp", []byte("msdh"), be32b(0), []byte("msdh"), []byte("msix"))
		return append(append(styp, moof...), mkBox("mdat", payload)...)
	}
	return []craftedSeg{
		{"crafted-senc-ambiguous-iv0-or-iv8.m4s", seg(3, x)},
		{"crafted-senc-iv8.m4s", seg(1, y)},
		{"crafted-senc-iv16.m4s", seg(1, z)},
	}
}

func bigAudioFile() []byte {
	init := mp4.CreateEmptyInit()
	init.AddEmptyTrack(48000, "audio", "und")
	if err := init.Moov.Trak.SetAACDescriptor(2, 48000); err != nil {
		return nil
	}
	var w bytes.Buffer
	if err := init.Encode(&w); err != nil {
		return nil
	}
	seg := mp4.NewMediaSegment()
	frag, err := mp4.CreateFragment(1, 1)
	if err != nil {
		return nil
	}
	seg.AddFragment(frag)
	var dt uint64
	for i, n := range []int{700, 1200000, 333} {
		data := make([]byte, n)
		x := uint32(n)*2654435761 + uint32(i)
		for j := range data {
			x = x*1664525 + 1013904223
			data[j] = byte(x >> 24)
		}
		frag.AddFullSample(mp4.FullSample{Sample: mp4.Sample{Flags: mp4.SyncSampleFlags, Dur: 1024, Size: uint32(n)}, DecodeTime: dt, Data: data})
		dt += 1024
	}
	if err := seg.Encode(&w); err != nil {
		return nil
	}
	return w.Bytes()
}

// ---------------------------------------------------------------------------
// capacity modes: tight / roomy twins of every operand

// widen returns the view of the same bytes whose capacity runs to the end of
// the shared arena that holds them (the following bytes of the buffer and its
// tail guard are the spare capacity).
func (p *pool) widen(b []byte) ([]byte, error) {
	if len(b) == 0 {
		return b, nil
	}
	base := uintptr(unsafe.Pointer(&b[0]))
	for _, s := range p.bufs {
		ab := uintptr(unsafe.Pointer(&s.arena[0]))
		if base >= ab && base < ab+uintptr(len(s.arena)) {
			o := int(base - ab)
			if o+len(b) > len(s.arena) {
				break
			}
			return s.arena[o : o+len(b)], nil
		}
	}
	return nil, fmt.Errorf("operand slice of %d bytes does not lie in a shared arena", len(b))
}

func (p *pool) widenList(name string, l [][]byte) ([][]byte, error) {
	if len(l) == 0 {
		return l, nil
	}
	const spare = 3
	full := make([][]byte, len(l)+spare)
	for i, b := range l {
		w, err := p.widen(b)
		if err != nil {
			return nil, err
		}
		full[i] = w
	}
	for i := len(l); i < len(full); i++ {
		full[i] = p.sentinel
	}
	p.lists = append(p.lists, &guardedList{name: name, full: full, n: len(l)})
	return full[:len(l)], nil
}

func tightList(l [][]byte) [][]byte {
	for i := range l {
		l[i] = l[i][:len(l[i]):len(l[i])]
	}
	return l[:len(l):len(l)]
}

// makeTwins gives every operand its roomy twin and both the crypto material of
// their mode. Pure harness code (slice headers only).
func (p *pool) makeTwins() error {
	p.sentinel = []byte("C20 spare slot of a caller-owned list")
	tight, roomy := &material{}, &material{}
	for _, m := range []struct {
		s    *shared
		t, r *[]byte
	}{{p.key, &tight.key, &roomy.key}, {p.iv16, &tight.iv16, &roomy.iv16}, {p.iv8, &tight.iv8, &roomy.iv8},
		{p.kid, &tight.kid, &roomy.kid}, {p.pssh, &tight.pssh, &roomy.pssh}} {
		if m.s != nil {
			*m.t, *m.r = m.s.data, m.s.roomyAll()
		}
	}
	p.mats = [2]*material{tight, roomy}
	for _, in := range p.inputs {
		in.data = in.data[:len(in.data):len(in.data)]
		in.key = in.key[:len(in.key):len(in.key)]
		in.vps, in.sps, in.pps = tightList(in.vps), tightList(in.sps), tightList(in.pps)
		in.mat = tight
		r := *in
		r.roomy, r.mat = true, roomy
		var err error
		if r.data, err = p.widen(in.data); err != nil {
			return fmt.Errorf("%s: %v", in.id, err)
		}
		if r.key, err = p.widen(in.key); err != nil {
			return fmt.Errorf("%s key: %v", in.id, err)
		}
		if r.vps, err = p.widenList(in.id+" vps", in.vps); err != nil {
			return fmt.Errorf("%s: %v", in.id, err)
		}
		if r.sps, err = p.widenList(in.id+" sps", in.sps); err != nil {
			return fmt.Errorf("%s: %v", in.id, err)
		}
		if r.pps, err = p.widenList(in.id+" pps", in.pps); err != nil {
			return fmt.Errorf("%s: %v", in.id, err)
		}
		in.twin, r.twin = &r, in
	}
	return nil
}
