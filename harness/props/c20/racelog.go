package c20

import (
	"os"
	"path/filepath"
	"sort"
	"strings"
)

const libPrefix = "github.com/Eyevinn/mp4ff/"

// raceReport is one parsed "WARNING: DATA RACE" block.
type raceReport struct {
	text   string
	access [2]raceAccess
}

type raceAccess struct {
	header string   // "Write at 0x... by goroutine N:" with address/goroutine stripped -> "Write"
	funcs  []string // innermost first, "()" stripped
}

func (a raceAccess) libFrames() []string {
	var out []string
	for _, f := range a.funcs {
		if strings.HasPrefix(f, libPrefix) {
			out = append(out, strings.TrimPrefix(f, libPrefix))
		}
	}
	return out
}

// outer is the outermost mp4ff frame (the API entry point), inner the
// innermost one (where the access happens or from where it is made).
func (a raceAccess) nonLib() string {
	if len(a.funcs) == 0 {
		return "unknown-stack"
	}
	if a.funcs[0] == "runtime.racereadrange" || strings.Contains(a.funcs[0], "c20.witness") {
		return "harness-witness-read-of-shared-buffer"
	}
	return "non-mp4ff:" + a.funcs[0]
}

func (a raceAccess) outer() string {
	l := a.libFrames()
	if len(l) == 0 {
		return a.nonLib()
	}
	return l[len(l)-1]
}

func (a raceAccess) inner() string {
	l := a.libFrames()
	if len(l) == 0 {
		return a.nonLib()
	}
	return l[0]
}

func (a raceAccess) sig() string { return a.header + ":" + strings.Join(a.funcs, "<") }

func pairOf(x, y string) string {
	if y < x {
		x, y = y, x
	}
	return x + "|" + y
}

func (r *raceReport) outerPair() string { return pairOf(r.access[0].outer(), r.access[1].outer()) }
func (r *raceReport) innerPair() string { return pairOf(r.access[0].inner(), r.access[1].inner()) }
func (r *raceReport) stackSig() string  { return pairOf(r.access[0].sig(), r.access[1].sig()) }

// parseRaceLog splits the text of a race log into reports.
func parseRaceLog(text string) []*raceReport {
	var out []*raceReport
	blocks := strings.Split(text, "==================")
	for _, b := range blocks {
		if !strings.Contains(b, "WARNING: DATA RACE") {
			continue
		}
		r := &raceReport{text: strings.TrimSpace(b)}
		lines := strings.Split(b, "\n")
		ai := -1
		inAccess := false
		for _, l := range lines {
			t := strings.TrimSpace(l)
			if t == "" {
				inAccess = false
				continue
			}
			low := strings.ToLower(t)
			isHdr := (strings.HasPrefix(low, "read at ") || strings.HasPrefix(low, "write at ") ||
				strings.HasPrefix(low, "previous read at ") || strings.HasPrefix(low, "previous write at ") ||
				strings.HasPrefix(low, "atomic read at ") || strings.HasPrefix(low, "atomic write at ") ||
				strings.HasPrefix(low, "previous atomic read at ") || strings.HasPrefix(low, "previous atomic write at ")) &&
				!strings.HasPrefix(l, "   ")
			if isHdr {
				ai++
				inAccess = ai < 2
				if inAccess {
					h := t
					if i := strings.Index(strings.ToLower(h), " at 0x"); i > 0 {
						h = h[:i]
					}
					h = strings.TrimPrefix(h, "Previous ")
					h = strings.TrimPrefix(h, "previous ")
					r.access[ai].header = strings.ToLower(h)
				}
				continue
			}
			if !inAccess {
				continue
			}
			// function lines are indented by two spaces, position lines by six
			if strings.HasPrefix(l, "      ") {
				continue
			}
			if strings.HasPrefix(l, "  ") {
				fn := t
				if i := strings.LastIndex(fn, "("); i > 0 {
					fn = fn[:i]
				}
				r.access[ai].funcs = append(r.access[ai].funcs, fn)
			}
		}
		out = append(out, r)
	}
	return out
}

// readRaceLogs reads every race.* file the race runtime wrote under dir.
func readRaceLogs(dir string) (reports []*raceReport, files int) {
	names, _ := filepath.Glob(filepath.Join(dir, "race.*"))
	sort.Strings(names)
	for _, n := range names {
		b, err := os.ReadFile(n)
		if err != nil {
			continue
		}
		files++
		reports = append(reports, parseRaceLog(string(b))...)
	}
	return
}
