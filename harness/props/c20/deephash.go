package c20

import (
	"crypto/sha256"
	"encoding/binary"
	"math"
	"reflect"
	"sort"
)

// deepHasher computes a structural digest of an arbitrary Go value (decoded box
// trees, parsed parameter sets, ...): every scalar including unexported
// fields, slices element-wise (nil == empty), maps in key order, pointers by
// structure (cycle-safe, never by address), interfaces by dynamic type name +
// value. Two values with the same digest have (up to collisions) the same
// observable content; nothing address- or capacity-dependent enters.
type deepHasher struct {
	h    uint64
	seen map[uintptr]uint64
}

func newDeepHasher() *deepHasher {
	return &deepHasher{h: 14695981039346656037, seen: map[uintptr]uint64{}}
}

func (d *deepHasher) u64(x uint64) {
	for i := 0; i < 8; i++ {
		d.h ^= (x >> (8 * uint(i))) & 0xff
		d.h *= 1099511628211
	}
}

func (d *deepHasher) tag(t byte) {
	d.h ^= uint64(t)
	d.h *= 1099511628211
}

func (d *deepHasher) str(s string) {
	d.u64(uint64(len(s)))
	for i := 0; i < len(s); i++ {
		d.h ^= uint64(s[i])
		d.h *= 1099511628211
	}
}

func (d *deepHasher) bytes(b []byte) {
	d.u64(uint64(len(b)))
	if len(b) >= 32 {
		s := sha256.Sum256(b)
		d.u64(binary.LittleEndian.Uint64(s[:8]))
		return
	}
	for _, c := range b {
		d.h ^= uint64(c)
		d.h *= 1099511628211
	}
}

func (d *deepHasher) value(v reflect.Value, depth int) {
	if depth > 200 {
		d.tag(0xEE)
		return
	}
	switch v.Kind() {
	case reflect.Invalid:
		d.tag(0)
	case reflect.Bool:
		if v.Bool() {
			d.tag(2)
		} else {
			d.tag(1)
		}
	case reflect.Int, reflect.Int8, reflect.Int16, reflect.Int32, reflect.Int64:
		d.tag(3)
		d.u64(uint64(v.Int()))
	case reflect.Uint, reflect.Uint8, reflect.Uint16, reflect.Uint32, reflect.Uint64, reflect.Uintptr:
		d.tag(4)
		d.u64(v.Uint())
	case reflect.Float32, reflect.Float64:
		d.tag(5)
		d.u64(math.Float64bits(v.Float()))
	case reflect.Complex64, reflect.Complex128:
		d.tag(6)
		c := v.Complex()
		d.u64(math.Float64bits(real(c)))
		d.u64(math.Float64bits(imag(c)))
	case reflect.String:
		d.tag(7)
		d.str(v.String())
	case reflect.Slice:
		d.tag(8)
		if v.Type().Elem().Kind() == reflect.Uint8 {
			d.bytes(v.Bytes())
			return
		}
		n := v.Len()
		d.u64(uint64(n))
		for i := 0; i < n; i++ {
			d.value(v.Index(i), depth+1)
		}
	case reflect.Array:
		d.tag(9)
		n := v.Len()
		d.u64(uint64(n))
		for i := 0; i < n; i++ {
			d.value(v.Index(i), depth+1)
		}
	case reflect.Map:
		d.tag(10)
		type kv struct {
			kh uint64
			k  reflect.Value
		}
		keys := v.MapKeys()
		kvs := make([]kv, len(keys))
		for i, k := range keys {
			kd := newDeepHasher()
			kd.value(k, 0)
			kvs[i] = kv{kd.h, k}
		}
		sort.Slice(kvs, func(a, b int) bool { return kvs[a].kh < kvs[b].kh })
		d.u64(uint64(len(kvs)))
		for _, e := range kvs {
			d.u64(e.kh)
			d.value(v.MapIndex(e.k), depth+1)
		}
	case reflect.Ptr:
		if v.IsNil() {
			d.tag(11)
			return
		}
		p := v.Pointer()
		if id, ok := d.seen[p]; ok {
			d.tag(12)
			d.u64(id)
			return
		}
		d.seen[p] = uint64(len(d.seen))
		d.tag(13)
		d.value(v.Elem(), depth+1)
	case reflect.Interface:
		if v.IsNil() {
			d.tag(14)
			return
		}
		d.tag(15)
		d.str(v.Elem().Type().String())
		d.value(v.Elem(), depth+1)
	case reflect.Struct:
		d.tag(16)
		d.str(v.Type().String())
		n := v.NumField()
		for i := 0; i < n; i++ {
			d.value(v.Field(i), depth+1)
		}
	default: // func, chan, unsafe pointer: presence only
		d.tag(17)
		if v.Kind() == reflect.Func || v.Kind() == reflect.Chan {
			if v.IsNil() {
				d.tag(0)
			} else {
				d.tag(1)
			}
		}
	}
}

// deepHash returns the structural digest of x.
func deepHash(x interface{}) uint64 {
	d := newDeepHasher()
	d.value(reflect.ValueOf(x), 0)
	return d.h
}

// bytesHash is a digest of a byte string (SHA-256 folded to 64 bits).
func bytesHash(b []byte) uint64 {
	s := sha256.Sum256(b)
	return binary.LittleEndian.Uint64(s[:8])
}

// mix folds several digests into one.
func mix(parts ...uint64) uint64 {
	d := newDeepHasher()
	for _, p := range parts {
		d.u64(p)
	}
	return d.h
}
