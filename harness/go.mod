module verifharness

go 1.16

require github.com/Eyevinn/mp4ff v0.0.0

replace github.com/Eyevinn/mp4ff => /repo
