// Package mut holds the structure-aware mutators of the box-level monitors.
// Mutations are driven by the independent walker (ref/boxwalk), so the
// harness knows which box and which offset it touched.
package mut

import (
	"encoding/binary"
	"fmt"

	"verifharness/ref/boxwalk"
	"verifharness/runner"
)

// E is an editable box tree node.
type E struct {
	Type        string
	Large       bool
	Container   bool
	Prefix      []byte // bytes between header and first child (containers)
	Payload     []byte // leaf payload
	Children    []*E
	OrigSize    int
	Stale       bool    // serialise with OrigSize instead of the true size
	ForceSize   *uint32 // serialise with this size field
	ForceSize64 *uint64 // serialise as largesize header with this 64-bit size
}

// Parse builds an editable forest from bytes (nil if the walker cannot tile).
func Parse(b []byte) []*E {
	nodes, err := boxwalk.Walk(b)
	if err != nil {
		return nil
	}
	return conv(b, nodes)
}

func conv(b []byte, nodes []*boxwalk.Node) []*E {
	var out []*E
	for _, n := range nodes {
		e := &E{Type: n.Type, Large: n.Large, Container: n.Container, OrigSize: n.Size}
		if n.Container {
			e.Prefix = append([]byte(nil), b[n.Start+n.HdrLen:n.Start+n.BodyOff]...)
			e.Children = conv(b, n.Children)
		} else {
			e.Payload = append([]byte(nil), b[n.Start+n.HdrLen:n.End()]...)
		}
		out = append(out, e)
	}
	return out
}

// Size is the true serialised size.
func (e *E) Size() int {
	h := 8
	if e.Large {
		h = 16
	}
	if !e.Container {
		return h + len(e.Payload)
	}
	s := h + len(e.Prefix)
	for _, c := range e.Children {
		s += c.Size()
	}
	return s
}

// Serialize writes the forest.
func Serialize(es []*E) []byte {
	var out []byte
	for _, e := range es {
		out = e.append(out)
	}
	return out
}

func (e *E) append(out []byte) []byte {
	size := uint64(e.Size())
	if e.Stale {
		size = uint64(e.OrigSize)
	}
	var hdr [16]byte
	copy(hdr[4:8], e.Type)
	if e.ForceSize64 != nil {
		binary.BigEndian.PutUint32(hdr[0:], 1)
		binary.BigEndian.PutUint64(hdr[8:], *e.ForceSize64)
		out = append(out, hdr[:16]...)
	} else if e.Large {
		binary.BigEndian.PutUint32(hdr[0:], 1)
		binary.BigEndian.PutUint64(hdr[8:], size)
		if e.ForceSize != nil {
			binary.BigEndian.PutUint64(hdr[8:], uint64(*e.ForceSize))
		}
		out = append(out, hdr[:16]...)
	} else {
		binary.BigEndian.PutUint32(hdr[0:], uint32(size))
		if e.ForceSize != nil {
			binary.BigEndian.PutUint32(hdr[0:], *e.ForceSize)
		}
		out = append(out, hdr[:8]...)
	}
	if e.Container {
		out = append(out, e.Prefix...)
		for _, c := range e.Children {
			out = c.append(out)
		}
	} else {
		out = append(out, e.Payload...)
	}
	return out
}

type ref struct {
	e      *E
	parent *E // nil for top level
	idx    int
	depth  int
	chain  []*E // ancestors, outermost first
}

func collect(es []*E) []ref {
	var out []ref
	var rec func(list []*E, parent *E, chain []*E)
	rec = func(list []*E, parent *E, chain []*E) {
		for i, e := range list {
			out = append(out, ref{e: e, parent: parent, idx: i, depth: len(chain), chain: append([]*E(nil), chain...)})
			if e.Container {
				rec(e.Children, e, append(chain, e))
			}
		}
	}
	rec(es, nil, nil)
	return out
}

var boundary32 = []uint32{0, 1, 2, 0x7f, 0x80, 0xff, 0x100, 0xffff, 0x10000, 0x7fffffff, 0x80000000, 0xfffffffe, 0xffffffff, 0x00ffffff, 0x01000000}

var registered = []string{"moov", "trak", "mdia", "minf", "stbl", "stsd", "stts", "stsc", "stsz", "stco", "co64", "ctts", "stss", "sdtp",
	"mvex", "trex", "mehd", "moof", "mfhd", "traf", "tfhd", "tfdt", "trun", "senc", "saiz", "saio", "sbgp", "sgpd", "subs", "sidx", "styp",
	"ftyp", "mdat", "free", "skip", "emsg", "prft", "pssh", "mfra", "tfra", "mfro", "udta", "meta", "ilst", "hdlr", "mdhd", "tkhd", "mvhd",
	"elst", "edts", "dinf", "dref", "url ", "sinf", "frma", "schm", "schi", "tenc", "avcC", "hvcC", "esds", "btrt", "pasp", "colr", "uuid",
	"avc1", "hvc1", "mp4a", "encv", "enca", "stpp", "wvtt", "vttC", "vttc", "payl", "dac3", "dec3", "ac-3", "ec-3", "av1C", "av01", "trep",
	"kind", "elng", "vmhd", "smhd", "nmhd", "sthd", "clap", "cslg", "leva", "ssix", "tref", "ludt", "tlou", "alou", "data", "emib", "emeb", "evte"}

// Mode selects the mutator set.
type Mode int

const (
	// Gentle keeps all sizes consistent (high acceptance rate): C01-C03.
	Gentle Mode = iota
	// Hostile adds size corruption, truncation, stale sizes: C04.
	Hostile
)

// Mutate applies 1..3 mutations to seed. other is a second seed for
// splicing (may be nil). It returns the mutated bytes and a description.
func Mutate(r *runner.Rand, seed []byte, other []byte, mode Mode) ([]byte, string) {
	n := 1 + r.Intn(3)
	cur := seed
	desc := ""
	for i := 0; i < n; i++ {
		var d string
		cur, d = mutateOnce(r, cur, other, mode)
		if desc != "" {
			desc += "; "
		}
		desc += d
	}
	return cur, desc
}

func mutateOnce(r *runner.Rand, b []byte, other []byte, mode Mode) ([]byte, string) {
	es := Parse(b)
	if es == nil || len(es) == 0 {
		return rawMutate(r, b)
	}
	refs := collect(es)
	pick := func() ref { return refs[r.Intn(len(refs))] }
	pickLeaf := func() (ref, bool) {
		for t := 0; t < 20; t++ {
			x := pick()
			if !x.e.Container && len(x.e.Payload) > 0 {
				return x, true
			}
		}
		return ref{}, false
	}
	nops := 16
	if mode == Hostile {
		nops = 24
	}
	op := r.Intn(nops)
	switch op {
	case 0, 1, 2, 3, 16: // word substitution in a leaf payload or container prefix
		x := pick()
		buf := x.e.Payload
		where := "payload"
		if x.e.Container {
			buf = x.e.Prefix
			where = "prefix"
		}
		if len(buf) == 0 {
			return rawMutate(r, b)
		}
		off := 0
		switch r.Intn(4) {
		case 0:
			off = r.Intn(len(buf))
		case 1:
			off = 4 * r.Intn((min(len(buf), 64)+3)/4)
		default:
			off = r.Intn(min(len(buf), 48))
		}
		w := r.PickInt(1, 1, 2, 4, 4, 8)
		if off+w > len(buf) {
			w = 1
			if off >= len(buf) {
				off = len(buf) - 1
			}
		}
		var v uint64
		switch r.Intn(4) {
		case 0:
			v = r.Uint64()
		case 1: // +-1 of the original
			var o uint64
			for k := 0; k < w; k++ {
				o = o<<8 | uint64(buf[off+k])
			}
			if r.Bool() {
				v = o + 1
			} else {
				v = o - 1
			}
		default:
			v = uint64(boundary32[r.Intn(len(boundary32))])
			if w == 8 && r.Bool() {
				v = v<<32 | uint64(boundary32[r.Intn(len(boundary32))])
			}
			if w == 2 {
				v = uint64(r.PickInt(0, 1, 0x7f, 0x80, 0xff, 0x100, 0x7fff, 0x8000, 0xffff, 0xfffe))
			}
		}
		for k := w - 1; k >= 0; k-- {
			buf[off+k] = byte(v)
			v >>= 8
		}
		return Serialize(es), fmt.Sprintf("subst %dB at %s+%d of %s", w, where, off, x.e.Type)
	case 4: // version / flags
		x, ok := pickLeaf()
		if !ok || len(x.e.Payload) < 4 {
			return rawMutate(r, b)
		}
		if r.Bool() {
			x.e.Payload[0] = byte(r.PickInt(0, 1, 2, 3, 255))
			return Serialize(es), "version of " + x.e.Type
		}
		bit := r.Intn(24)
		x.e.Payload[1+bit/8] ^= 1 << uint(bit%8)
		return Serialize(es), fmt.Sprintf("flag bit %d of %s", bit, x.e.Type)
	case 5: // remove a box (sizes fixed)
		x := pick()
		removeAt(&es, x)
		return Serialize(es), "remove " + x.e.Type
	case 6: // duplicate a box
		x := pick()
		insertAt(&es, x.parent, x.idx, clone(x.e))
		return Serialize(es), "duplicate " + x.e.Type
	case 7: // swap siblings
		x := pick()
		sib := siblings(es, x)
		if len(sib) < 2 {
			return rawMutate(r, b)
		}
		j := r.Intn(len(sib))
		sib[x.idx], sib[j] = sib[j], sib[x.idx]
		return Serialize(es), fmt.Sprintf("swap %s with sibling %d", x.e.Type, j)
	case 8: // rename
		x := pick()
		old := x.e.Type
		switch r.Intn(3) {
		case 0:
			x.e.Type = "free"
		case 1:
			x.e.Type = "zz" + string(rune('a'+r.Intn(26))) + string(rune('a'+r.Intn(26)))
		default:
			x.e.Type = registered[r.Intn(len(registered))]
		}
		if x.e.Container { // keep bytes, but it is now serialised as it was
		}
		return Serialize(es), "rename " + old + "->" + x.e.Type
	case 9: // compact <-> largesize header
		x := pick()
		x.e.Large = !x.e.Large
		return Serialize(es), fmt.Sprintf("largesize=%v on %s", x.e.Large, x.e.Type)
	case 10: // wrap in a container
		x := pick()
		w := &E{Type: r.PickStr("udta", "moov", "trak", "traf", "moof", "mdia", "minf", "stbl", "mvex", "edts", "dinf", "sinf", "schi", "mfra", "ilst", "tref"), Container: true, Children: []*E{x.e}}
		replaceAt(&es, x, w)
		return Serialize(es), "wrap " + x.e.Type + " in " + w.Type
	case 11, 12: // splice a box from another seed
		oes := Parse(other)
		if len(oes) == 0 {
			return rawMutate(r, b)
		}
		orefs := collect(oes)
		y := orefs[r.Intn(len(orefs))]
		x := pick()
		if x.e.Container && r.Bool() {
			x.e.Children = append(x.e.Children, nil)
			pos := r.Intn(len(x.e.Children))
			copy(x.e.Children[pos+1:], x.e.Children[pos:])
			x.e.Children[pos] = clone(y.e)
			return Serialize(es), "splice " + y.e.Type + " into " + x.e.Type
		}
		insertAt(&es, x.parent, x.idx, clone(y.e))
		return Serialize(es), "splice " + y.e.Type + " before " + x.e.Type
	case 13: // remove every box of one type
		x := pick()
		t := x.e.Type
		es = removeType(es, t)
		if len(es) == 0 {
			return rawMutate(r, b)
		}
		return Serialize(es), "remove all " + t
	case 14: // empty a container / a leaf payload
		x := pick()
		if x.e.Container {
			x.e.Children = nil
		} else {
			keep := r.PickInt(0, 4, 8)
			if keep < len(x.e.Payload) {
				x.e.Payload = x.e.Payload[:keep]
			}
		}
		return Serialize(es), "empty " + x.e.Type
	case 15: // grow/shrink a leaf payload at its end
		x, ok := pickLeaf()
		if !ok {
			return rawMutate(r, b)
		}
		if r.Bool() {
			x.e.Payload = append(x.e.Payload, r.Bytes(r.PickInt(1, 2, 3, 4, 8, 16))...)
			return Serialize(es), "append bytes to " + x.e.Type
		}
		cut := r.PickInt(1, 2, 3, 4, 8)
		if cut >= len(x.e.Payload) {
			cut = len(x.e.Payload) - 1
		}
		x.e.Payload = x.e.Payload[:len(x.e.Payload)-cut]
		return Serialize(es), fmt.Sprintf("cut %d bytes from end of %s", cut, x.e.Type)
	// ---- hostile only ----
	case 17, 18: // size field corruption
		x := pick()
		true32 := uint32(x.e.Size())
		var v uint32
		switch r.Intn(8) {
		case 0:
			v = uint32(r.Intn(8))
		case 1:
			v = 8
		case 2:
			v = true32 - 1
		case 3:
			v = true32 + 1
		case 4:
			v = true32 + uint32(r.Intn(64))
		case 5:
			v = boundary32[r.Intn(len(boundary32))]
		case 6:
			v = true32 - uint32(r.Intn(int(true32)+1))
		default:
			v = r.Uint32()
		}
		if r.Chance(1, 5) {
			// 64-bit largesize header with an extreme value
			t := uint64(x.e.Size()) + 8
			v64 := r.PickU64(1<<63, 1<<63+t, 1<<63-1, ^uint64(0), ^uint64(0)-7, 1<<32, 1<<32+t, 1<<62, t+1<<40, 0, 15, 16, t-1, t+1)
			if sib := siblings(es, x); x.idx > 0 && r.Bool() {
				// a size that, read as a signed offset, points back to an earlier sibling
				back := uint64(0)
				for k := x.idx - 1; k >= 0; k-- {
					back += uint64(sib[k].Size())
					if r.Bool() {
						break
					}
				}
				v64 = -back
				if r.Bool() {
					v64 += 16
				}
			}
			x.e.ForceSize64 = &v64
			return Serialize(es), fmt.Sprintf("largesize of %s = %#x", x.e.Type, v64)
		}
		x.e.ForceSize = &v
		return Serialize(es), fmt.Sprintf("size of %s %d->%d", x.e.Type, true32, v)
	case 19: // remove a box, ancestors keep their old sizes
		x := pick()
		for _, a := range x.chain {
			a.Stale = true
		}
		removeAt(&es, x)
		return Serialize(es), "remove " + x.e.Type + " (stale ancestor sizes)"
	case 20: // truncate
		out := Serialize(es)
		if len(out) < 2 {
			return out, "none"
		}
		if r.Bool() {
			x := pick()
			_ = x
		}
		cut := r.Intn(len(out))
		if r.Chance(1, 3) {
			cut = len(out) - 1 - r.Intn(min(len(out)-1, 16))
		}
		return out[:cut], fmt.Sprintf("truncate at %d of %d", cut, len(out))
	case 21: // deep nesting
		x := pick()
		// decode/Info cost grows with the square of the depth (see C04 known
		// finding), so the very deep variants are kept rare to bound run time
		depth := r.PickInt(3, 10, 30, 100)
		if r.Chance(1, 8) {
			depth = r.PickInt(300, 1000, 5000)
		}
		t := r.PickStr("udta", "moov", "trak", "traf", "moof", "mdia", "minf", "stbl", "meta", "stsd", "dref", "ilst", "sinf", "schi")
		inner := x.e
		for d := 0; d < depth; d++ {
			w := &E{Type: t, Container: true, Children: []*E{inner}}
			if t == "meta" {
				w.Prefix = []byte{0, 0, 0, 0}
			}
			if t == "stsd" || t == "dref" {
				w.Prefix = []byte{0, 0, 0, 0, 0, 0, 0, 1}
			}
			inner = w
		}
		replaceAt(&es, x, inner)
		return Serialize(es), fmt.Sprintf("nest %s %d deep in %s", x.e.Type, depth, t)
	case 22: // stale size after growing a child
		x, ok := pickLeaf()
		if !ok {
			return rawMutate(r, b)
		}
		for _, a := range x.chain {
			if r.Bool() {
				a.Stale = true
			}
		}
		x.e.Payload = append(x.e.Payload, r.Bytes(r.PickInt(1, 4, 8, 100))...)
		return Serialize(es), "grow " + x.e.Type + " with stale ancestors"
	default: // many copies of a box (count stress)
		x := pick()
		n := r.PickInt(10, 100, 1000)
		if x.e.Size()*n > 200<<10 {
			n = (200 << 10) / x.e.Size()
		}
		for i := 0; i < n; i++ {
			insertAt(&es, x.parent, x.idx, clone(x.e))
		}
		return Serialize(es), fmt.Sprintf("%d copies of %s", n, x.e.Type)
	}
}

func rawMutate(r *runner.Rand, b []byte) ([]byte, string) {
	out := append([]byte(nil), b...)
	if len(out) == 0 {
		return r.Bytes(r.Intn(32)), "random bytes"
	}
	switch r.Intn(3) {
	case 0:
		off := r.Intn(len(out))
		out[off] = byte(r.PickInt(0, 1, 0x7f, 0x80, 0xff, int(out[off])+1, int(out[off])-1))
		return out, fmt.Sprintf("raw byte at %d", off)
	case 1:
		cut := r.Intn(len(out))
		return out[:cut], fmt.Sprintf("raw truncate at %d", cut)
	default:
		off := r.Intn(len(out))
		v := boundary32[r.Intn(len(boundary32))]
		for k := 0; k < 4 && off+k < len(out); k++ {
			out[off+k] = byte(v >> uint(24-8*k))
		}
		return out, fmt.Sprintf("raw word at %d", off)
	}
}

func siblings(es []*E, x ref) []*E {
	if x.parent == nil {
		return es
	}
	return x.parent.Children
}

func removeAt(es *[]*E, x ref) {
	if x.parent == nil {
		*es = append(append([]*E(nil), (*es)[:x.idx]...), (*es)[x.idx+1:]...)
		return
	}
	x.parent.Children = append(append([]*E(nil), x.parent.Children[:x.idx]...), x.parent.Children[x.idx+1:]...)
}

func insertAt(es *[]*E, parent *E, idx int, e *E) {
	ins := func(list []*E) []*E {
		out := make([]*E, 0, len(list)+1)
		out = append(out, list[:idx]...)
		out = append(out, e)
		out = append(out, list[idx:]...)
		return out
	}
	if parent == nil {
		*es = ins(*es)
		return
	}
	parent.Children = ins(parent.Children)
}

func replaceAt(es *[]*E, x ref, e *E) {
	if x.parent == nil {
		(*es)[x.idx] = e
		return
	}
	x.parent.Children[x.idx] = e
}

func removeType(es []*E, t string) []*E {
	var out []*E
	for _, e := range es {
		if e.Type == t {
			continue
		}
		if e.Container {
			e.Children = removeType(e.Children, t)
		}
		out = append(out, e)
	}
	return out
}

func clone(e *E) *E {
	c := *e
	c.Prefix = append([]byte(nil), e.Prefix...)
	c.Payload = append([]byte(nil), e.Payload...)
	c.Children = nil
	for _, ch := range e.Children {
		c.Children = append(c.Children, clone(ch))
	}
	return &c
}

func min(a, b int) int {
	if a < b {
		return a
	}
	return b
}

// ShrinkMdat returns b with every top-level mdat payload cut to at most max
// bytes (sizes fixed). Offsets into mdat become stale, which is fine for
// hostile-input work.
func ShrinkMdat(b []byte, max int) []byte {
	es := Parse(b)
	if es == nil {
		return b
	}
	for _, e := range es {
		if e.Type == "mdat" && len(e.Payload) > max {
			e.Payload = e.Payload[:max]
		}
	}
	return Serialize(es)
}
