package mut

// Size-consistent generators for the round-trip monitors (C01-C03): the
// inputs they produce are well-formed box sequences that exercise the named
// normalisations of /verif/c01_dontcare.json (N1 largesize headers, N2 trak
// adjacency, N3 surplus bytes) and single fields (bit flips, boundary values
// at aligned offsets), plus nesting and sequences of boxes.

import (
	"fmt"

	"verifharness/runner"
)

// BitFlip flips 1 bit (sometimes 2..3) in the payload of a PRNG-chosen box
// (leaf payload or container prefix), biased to the first 200 bytes. Sizes
// stay consistent.
func BitFlip(r *runner.Rand, b []byte) ([]byte, string) {
	es := Parse(b)
	if len(es) == 0 {
		return rawFlip(r, b)
	}
	refs := collect(es)
	var x ref
	var buf []byte
	for t := 0; t < 30; t++ {
		x = refs[r.Intn(len(refs))]
		buf = x.e.Payload
		if x.e.Container {
			buf = x.e.Prefix
		}
		if len(buf) > 0 && (x.e.Type != "mdat" || t > 20) {
			break
		}
	}
	if len(buf) == 0 {
		return rawFlip(r, b)
	}
	n := 1
	if r.Chance(1, 6) {
		n = 2 + r.Intn(2)
	}
	desc := ""
	for i := 0; i < n; i++ {
		lim := len(buf)
		if lim > 200 && !r.Chance(1, 8) {
			lim = 200
		}
		off := r.Intn(lim)
		bit := r.Intn(8)
		buf[off] ^= 1 << uint(bit)
		desc += fmt.Sprintf("flip bit %d of byte %d of %s; ", bit, off, x.e.Type)
	}
	return Serialize(es), desc
}

func rawFlip(r *runner.Rand, b []byte) ([]byte, string) {
	out := append([]byte(nil), b...)
	if len(out) <= 8 {
		return out, "none"
	}
	off := 8 + r.Intn(len(out)-8)
	out[off] ^= 1 << uint(r.Intn(8))
	return out, fmt.Sprintf("raw flip at %d", off)
}

var fieldValues = []uint64{0, 1, 2, 0x7f, 0x80, 0xff, 0x100, 0x7fff, 0x8000, 0xffff, 0x10000, 0xffffff, 0x1000000, 0x7fffffff, 0x80000000,
	0xfffffffe, 0xffffffff, 0x100000000, 0x100000001, 0xffffffffffff, 0x7fffffffffffffff, 0x8000000000000000, 0xffffffffffffffff}

// FieldValue overwrites an aligned 1/2/4/8-byte field of a PRNG-chosen leaf
// (or container prefix) with a boundary or random value, leaving the first 4
// payload bytes (version/flags) alone so that the syntax shape is kept and
// the value lands in a field rather than steering the parse.
func FieldValue(r *runner.Rand, b []byte) ([]byte, string) {
	es := Parse(b)
	if len(es) == 0 {
		return rawFlip(r, b)
	}
	refs := collect(es)
	for t := 0; t < 30; t++ {
		x := refs[r.Intn(len(refs))]
		buf := x.e.Payload
		if x.e.Container {
			buf = x.e.Prefix
		}
		if len(buf) < 5 || x.e.Type == "mdat" {
			continue
		}
		w := r.PickInt(1, 2, 4, 4, 4, 8, 8)
		if 4+w > len(buf) {
			w = 1
		}
		slots := (len(buf) - 4 - w) / w
		if slots > 24 && !r.Chance(1, 6) {
			slots = 24
		}
		off := 4 + w*r.Intn(slots+1)
		if r.Chance(1, 5) { // unaligned (boxes with odd-sized leading fields)
			off = 4 + r.Intn(len(buf)-4-w+1)
		}
		v := fieldValues[r.Intn(len(fieldValues))]
		if r.Chance(1, 3) {
			v = r.Uint64()
		}
		for k := w - 1; k >= 0; k-- {
			buf[off+k] = byte(v)
			v >>= 8
		}
		return Serialize(es), fmt.Sprintf("field %dB at payload+%d of %s", w, off, x.e.Type)
	}
	return rawFlip(r, b)
}

// LargeSize rewrites the headers of 1..4 PRNG-chosen boxes as 64-bit
// largesize headers (N1), sizes of all ancestors follow.
func LargeSize(r *runner.Rand, b []byte) ([]byte, string) {
	es := Parse(b)
	if len(es) == 0 {
		return b, "none"
	}
	refs := collect(es)
	n := 1 + r.Intn(4)
	desc := "largesize on"
	for i := 0; i < n; i++ {
		x := refs[r.Intn(len(refs))]
		x.e.Large = true
		desc += " " + x.e.Type
	}
	return Serialize(es), desc
}

// TrakShuffle makes the trak children of a moov non-adjacent (N2): it
// duplicates and moves trak boxes between the other children of moov and may
// add further non-trak children between them.
func TrakShuffle(r *runner.Rand, b []byte) ([]byte, string) {
	es := Parse(b)
	if len(es) == 0 {
		return b, "none"
	}
	var moov *E
	for _, x := range collect(es) {
		if x.e.Type == "moov" && x.e.Container {
			moov = x.e
			break
		}
	}
	if moov == nil {
		return b, "none"
	}
	var traks, others []*E
	for _, c := range moov.Children {
		if c.Type == "trak" {
			traks = append(traks, c)
		} else {
			others = append(others, c)
		}
	}
	if len(traks) == 0 {
		return b, "none"
	}
	// up to 4 traks: duplicates get a distinguishable tkhd track_ID byte
	for len(traks) < 2+r.Intn(3) {
		d := clone(traks[r.Intn(len(traks))])
		for _, c := range d.Children {
			if c.Type == "tkhd" && len(c.Payload) >= 16 {
				c.Payload[15] = byte(len(traks) + 1)
			}
		}
		traks = append(traks, d)
	}
	if r.Chance(1, 2) {
		others = append(others, &E{Type: "free", Payload: r.Bytes(r.Intn(5))})
	}
	if r.Chance(1, 3) {
		others = append(others, &E{Type: "udta", Container: true})
	}
	// interleave keeping the order inside each class
	var out []*E
	ti, oi := 0, 0
	for ti < len(traks) || oi < len(others) {
		takeTrak := oi >= len(others) || (ti < len(traks) && r.Bool())
		if takeTrak {
			out = append(out, traks[ti])
			ti++
		} else {
			out = append(out, others[oi])
			oi++
		}
	}
	moov.Children = out
	order := ""
	for _, c := range out {
		order += c.Type + " "
	}
	return Serialize(es), "moov children: " + order
}

// Surplus appends 1..16 bytes after the last syntax element of a
// PRNG-chosen leaf box (N3).
func Surplus(r *runner.Rand, b []byte) ([]byte, string) {
	es := Parse(b)
	if len(es) == 0 {
		return b, "none"
	}
	refs := collect(es)
	for t := 0; t < 30; t++ {
		x := refs[r.Intn(len(refs))]
		if x.e.Container || x.e.Type == "mdat" || x.e.Type == "free" || x.e.Type == "skip" {
			continue
		}
		n := r.PickInt(1, 2, 3, 4, 4, 8, 16)
		extra := make([]byte, n)
		if r.Bool() {
			extra = r.Bytes(n)
		}
		x.e.Payload = append(x.e.Payload, extra...)
		return Serialize(es), fmt.Sprintf("%d surplus bytes at the end of %s", n, x.e.Type)
	}
	return b, "none"
}

var wrappers = []string{"udta", "moov", "trak", "traf", "moof", "mdia", "minf", "stbl", "mvex", "edts", "dinf", "sinf", "schi", "mfra", "ilst", "tref", "meta", "stsd", "dref"}

// Nest wraps the whole sequence, or one box of it, 1..6 levels deep in
// containers (generic and typed), sizes consistent.
func Nest(r *runner.Rand, b []byte) ([]byte, string) {
	es := Parse(b)
	if len(es) == 0 {
		return b, "none"
	}
	depth := 1 + r.Intn(6)
	desc := "nest in"
	wrap := func(inner []*E) *E {
		t := wrappers[r.Intn(len(wrappers))]
		w := &E{Type: t, Container: true, Children: inner}
		switch t {
		case "meta":
			w.Prefix = []byte{0, 0, 0, 0}
		case "stsd", "dref":
			w.Prefix = []byte{0, 0, 0, 0, 0, 0, 0, byte(len(inner))}
		}
		desc += " " + t
		return w
	}
	if r.Bool() || len(es) > 8 {
		refs := collect(es)
		x := refs[r.Intn(len(refs))]
		inner := x.e
		for d := 0; d < depth; d++ {
			inner = wrap([]*E{inner})
		}
		replaceAt(&es, x, inner)
		return Serialize(es), desc + " (one box: " + x.e.Type + ")"
	}
	cur := es
	for d := 0; d < depth; d++ {
		cur = []*E{wrap(cur)}
	}
	return Serialize(cur), desc
}

// Sequence concatenates boxes of the two seeds into one top-level sequence
// (file-level decode of arbitrary box sequences).
func Sequence(r *runner.Rand, a, b []byte) ([]byte, string) {
	ea, eb := Parse(a), Parse(b)
	if len(ea) == 0 || len(eb) == 0 {
		return a, "none"
	}
	out := append([]*E(nil), ea...)
	pos := r.Intn(len(out) + 1)
	ins := eb[r.Intn(len(eb))]
	out = append(out[:pos], append([]*E{clone(ins)}, out[pos:]...)...)
	return Serialize(out), fmt.Sprintf("insert top-level %s at %d", ins.Type, pos)
}
