// Package annexb is an independent reference model of the two NAL unit
// framings used by AVC/HEVC elementary streams:
//
//   - the Annex B byte stream (ISO/IEC 14496-10 Annex B, 23008-2 Annex B):
//     every NAL unit is preceded by the start code prefix 00 00 01, optionally
//     with one more leading zero_byte ("4-byte start code" 00 00 00 01);
//   - the length-prefixed sample format of ISO/IEC 14496-15 with
//     lengthSizeMinusOne = 3: every NAL unit is preceded by its size as a
//     4-byte big-endian integer.
//
// Everything is written byte by byte from those two definitions. The package
// never imports mp4ff and shares no code with it.
package annexb

import "errors"

// StartCode is one start code prefix found in a stream: Pos is the index of
// the first byte after the prefix (the NAL header byte), Len is 3 or 4.
type StartCode struct {
	Pos int
	Len int
}

// Scan finds every start code prefix 00 00 01 by looking at every byte
// position in turn. A prefix directly preceded by a zero byte is reported as
// a 4-byte start code. Prefixes at the very end of the stream (no byte after
// them) are reported as well; well-formed streams have none.
func Scan(s []byte) []StartCode {
	var out []StartCode
	for p := 0; p+2 < len(s); p++ {
		if s[p] != 0 || s[p+1] != 0 || s[p+2] != 1 {
			continue
		}
		l := 3
		if p > 0 && s[p-1] == 0 {
			l = 4
		}
		out = append(out, StartCode{Pos: p + 3, Len: l})
	}
	return out
}

// MinLen is the smallest start code length in scs (4 when there is none).
func MinLen(scs []StartCode) int {
	m := 4
	for _, sc := range scs {
		if sc.Len < m {
			m = sc.Len
		}
	}
	return m
}

// Split cuts a stream into the NAL units between its start codes (fresh
// copies), reading the bytes only: unit k runs from scs[k].Pos to the first
// byte of the next start code (which, for a 4-byte code, is its zero_byte).
func Split(s []byte) [][]byte {
	scs := Scan(s)
	var out [][]byte
	for k, sc := range scs {
		end := len(s)
		if k+1 < len(scs) {
			end = scs[k+1].Pos - scs[k+1].Len
		}
		if end < sc.Pos {
			end = sc.Pos
		}
		out = append(out, append([]byte(nil), s[sc.Pos:end]...))
	}
	return out
}

// EmulationFree tells whether u can be carried as one NAL unit in a byte
// stream: it is non-empty, contains none of the three-byte patterns
// 00 00 00, 00 00 01, 00 00 02 (14496-10 §7.4.1: these shall not occur at any
// byte-aligned position inside a NAL unit) and its last byte is not 00
// (§7.4.1: the last byte of a NAL unit shall not be 00). 00 00 03 is allowed
// (emulation prevention).
func EmulationFree(u []byte) bool {
	if len(u) == 0 || u[len(u)-1] == 0 {
		return false
	}
	for p := 0; p+2 < len(u); p++ {
		if u[p] == 0 && u[p+1] == 0 && u[p+2] <= 2 {
			return false
		}
	}
	return true
}

// BuildStream writes the units behind start codes of the given lengths
// (scLen[k] is 3 or 4; a missing entry means 4).
func BuildStream(units [][]byte, scLen []int) []byte {
	n := 0
	for _, u := range units {
		n += 4 + len(u)
	}
	out := make([]byte, 0, n)
	for k, u := range units {
		l := 4
		if k < len(scLen) {
			l = scLen[k]
		}
		if l == 4 {
			out = append(out, 0)
		}
		out = append(out, 0, 0, 1)
		out = append(out, u...)
	}
	return out
}

// ExpectedStartCodes gives, from the generating list alone (no scanning), the
// start codes BuildStream(units, scLen) contains.
func ExpectedStartCodes(units [][]byte, scLen []int) []StartCode {
	var out []StartCode
	pos := 0
	for k, u := range units {
		l := 4
		if k < len(scLen) {
			l = scLen[k]
		}
		pos += l
		out = append(out, StartCode{Pos: pos, Len: l})
		pos += len(u)
	}
	return out
}

// BuildSample writes the units in length-prefixed form (4-byte big-endian
// sizes).
func BuildSample(units [][]byte) []byte {
	n := 0
	for _, u := range units {
		n += 4 + len(u)
	}
	out := make([]byte, 0, n)
	for _, u := range units {
		l := uint32(len(u))
		out = append(out, byte(l>>24), byte(l>>16), byte(l>>8), byte(l))
		out = append(out, u...)
	}
	return out
}

// ErrBadSample is returned by SplitSample when the length fields do not tile
// the sample.
var ErrBadSample = errors.New("length fields do not tile the sample")

// SplitSample reads a length-prefixed sample back into its units (fresh
// copies). It is strict: the fields must tile the sample exactly.
func SplitSample(s []byte) ([][]byte, error) {
	var out [][]byte
	p := 0
	for p < len(s) {
		if len(s)-p < 4 {
			return nil, ErrBadSample
		}
		l := uint64(s[p])<<24 | uint64(s[p+1])<<16 | uint64(s[p+2])<<8 | uint64(s[p+3])
		p += 4
		if l > uint64(len(s)-p) {
			return nil, ErrBadSample
		}
		out = append(out, append([]byte(nil), s[p:p+int(l)]...))
		p += int(l)
	}
	return out, nil
}

// AVCType is nal_unit_type of an AVC NAL header byte (14496-10 §7.3.1:
// forbidden_zero_bit f(1), nal_ref_idc u(2), nal_unit_type u(5)).
func AVCType(hdr byte) int { return int(hdr % 32) }

// AVCHeader builds an AVC NAL header byte.
func AVCHeader(refIdc, typ int) byte { return byte((refIdc%4)*32 + typ%32) }

// AVCIsVCL: nal_unit_type 1..5 are coded slice data; 0 is unspecified. mp4ff
// documents "video" as type <= 5, so 0 is counted with them (see callers).
func AVCIsVCL(typ int) bool { return typ >= 1 && typ <= 5 }

// HEVCType is nal_unit_type of the first byte of an HEVC NAL header
// (23008-2 §7.3.1.2: forbidden_zero_bit f(1), nal_unit_type u(6),
// nuh_layer_id u(6), nuh_temporal_id_plus1 u(3)).
func HEVCType(hdr0 byte) int { return int(hdr0/2) % 64 }

// HEVCHeader builds the two header bytes of an HEVC NAL unit.
func HEVCHeader(typ, layerID, tidPlus1 int) [2]byte {
	v := (typ%64)*512 + (layerID%64)*8 + tidPlus1%8
	return [2]byte{byte(v / 256), byte(v % 256)}
}

// HEVCIsVCL: nal_unit_type 0..31 are VCL types (Table 7-1).
func HEVCIsVCL(typ int) bool { return typ >= 0 && typ <= 31 }
